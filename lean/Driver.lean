/- line-protocol driver over the models (imports nothing outside Lean core) -/
import Gpv.Drv.Acc
import Gpv.Drv.P2
import Gpv.Drv.Pipe
import Gpv.Drv.Misc
import Gpv.Drv.Alias
import Gpv.Drv.Reentrant
open Gpv Gpv.Drv

structure DSt where
  acc : AccSt := []

def dispatch (st : DSt) (line : String) : DSt × List String :=
  let ws := words line
  match ws with
  | [] => (st, [])
  | w :: _ =>
    if w.startsWith "acc." then
      let (a, out) := accStep st.acc ws
      ({ st with acc := a }, out)
    else if w.startsWith "p2f." || w.startsWith "p2q." then (st, p2Dispatch ws)
    else if w.startsWith "pipe." then (st, pipeDispatch ws)
    else if w.startsWith "res.echo" then (st, resEchoDispatch ws)
    else if w.startsWith "res." then (st, resDispatch ws)
    else if w.startsWith "cache." then (st, cacheDispatch ws)
    else if w.startsWith "strm." then (st, strmDispatch ws)
    else if w.startsWith "net." then (st, netDispatch ws)
    else if w.startsWith "store." then (st, storeDispatch ws)
    else if w.startsWith "alias." then (st, aliasDispatch ws)
    else if w = "#" then (st, [])
    else (st, ["bad-op"])

partial def loop (h : IO.FS.Stream) (out : IO.FS.Stream) (st : DSt) : IO Unit := do
  let line ← h.getLine
  if line.isEmpty then return ()
  let line := (line.dropEndWhile (fun c => c = '\n' || c = '\r')).toString
  let (st', outs) := dispatch st line
  for o in outs do out.putStrLn o
  loop h out st'

def main : IO Unit := do
  let stdin ← IO.getStdin
  let stdout ← IO.getStdout
  loop stdin stdout {}
