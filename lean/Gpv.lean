import Gpv.Model.Basic
import Gpv.Model.Accum
