import Gpv.Model.Basic
import Gpv.Model.Accum
import Gpv.Model.Running
import Gpv.Props.C05
import Gpv.Props.C06
