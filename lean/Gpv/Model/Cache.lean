/-
  Gpv.Model.Cache — CacheAccumulator and CacheMaximum (accumulators.py:344-473).
  Time stamps are an explicit argument (the code reads `time.time_ns()` or calls `time_key`).
-/
namespace Gpv

/-! ### CacheAccumulator: `deque(maxlen=length)` of objects and of time stamps -/
structure CacheAcc (α : Type) where
  length : Nat
  items : List (Nat × α)     -- (time stamp, object), oldest first, at most `length` of them
  n : Nat
  deriving Repr, DecidableEq

def takeLast {α : Type} (k : Nat) (l : List α) : List α := l.drop (l.length - k)

def CacheAcc.init {α : Type} (length : Nat) : CacheAcc α := ⟨length, [], 0⟩

/-- `_n += 1; _cache.append(obj); _timecache.append(time_ns())` on deques with maxlen -/
def CacheAcc.push {α : Type} (s : CacheAcc α) (t : Nat) (x : α) : CacheAcc α :=
  { s with items := takeLast s.length (s.items ++ [(t, x)]), n := s.n + 1 }

/-- `heapq.merge(it1, it2, key=time)`: stable two-way merge, the receiver's element first on ties -/
def mergeByTime {α : Type} : List (Nat × α) → List (Nat × α) → List (Nat × α)
  | [], ys => ys
  | xs, [] => xs
  | x :: xs, y :: ys =>
    if y.1 < x.1 then y :: mergeByTime (x :: xs) ys else x :: mergeByTime xs (y :: ys)
termination_by a b => a.length + b.length

/-- `_accumulate_other`: merge both caches by time stamp into fresh deques of the receiver's maxlen -/
def CacheAcc.merge {α : Type} (s o : CacheAcc α) : CacheAcc α :=
  { s with items := takeLast s.length (mergeByTime s.items o.items), n := s.n + o.n }

/-- `.value = list(self._cache)` -/
def CacheAcc.value {α : Type} (s : CacheAcc α) : List α := s.items.map Prod.snd

/-! ### CacheMaximum: a min-heap of `(key, time, obj)` of size `length`.
    `heapq` is modelled as a multiset (a list whose order carries no meaning) with pop-min;
    entries are compared by `(key, time)` (the harness keeps these pairs distinct, as the
    tuple comparison of the code would otherwise reach the objects themselves). -/
structure CMEntry (α : Type) where
  key : Int
  time : Nat
  obj : α
  deriving Repr, DecidableEq

def CMEntry.lt {α : Type} (a b : CMEntry α) : Bool :=
  a.key < b.key || (a.key = b.key && a.time < b.time)

structure CacheMax (α : Type) where
  length : Nat
  timeout : Option Nat
  items : List (CMEntry α)
  n : Nat
  deriving Repr, DecidableEq

def CacheMax.init {α : Type} (length : Nat) (timeout : Option Nat) : CacheMax α := ⟨length, timeout, [], 0⟩

/-- index of a minimal entry w.r.t. `(key, time)` (the first one if several) -/
def argMin {α : Type} : List (CMEntry α) → Option (CMEntry α)
  | [] => none
  | e :: es =>
    match argMin es with
    | none => some e
    | some m => if m.lt e then some m else some e

/-- remove one occurrence of the minimal entry (`heappop`) -/
def popMin {α : Type} [DecidableEq α] (l : List (CMEntry α)) : List (CMEntry α) :=
  match argMin l with
  | none => l
  | some m => l.erase m

/-- insertion sort by time, newest first, stable: `heapq.nlargest(k, l, key=time)` = first k of it -/
def insertByTimeDesc {α : Type} (e : CMEntry α) : List (CMEntry α) → List (CMEntry α)
  | [] => [e]
  | x :: xs => if x.time < e.time then e :: x :: xs else x :: insertByTimeDesc e xs

def sortByTimeDesc {α : Type} (l : List (CMEntry α)) : List (CMEntry α) :=
  l.foldr insertByTimeDesc []

def insertByKeyDesc {α : Type} (e : CMEntry α) : List (CMEntry α) → List (CMEntry α)
  | [] => [e]
  | x :: xs => if x.key < e.key then e :: x :: xs else x :: insertByKeyDesc e xs

def sortByKeyDesc {α : Type} (l : List (CMEntry α)) : List (CMEntry α) :=
  l.foldr insertByKeyDesc []

/-- `_accumulate_obj` (accumulators.py:418-441) -/
def CacheMax.push {α : Type} [DecidableEq α] (s : CacheMax α) (key : Int) (t : Nat) (x : α) : CacheMax α :=
  let n' := s.n + 1
  let e : CMEntry α := ⟨key, t, x⟩
  if n' ≤ s.length then { s with items := s.items ++ [e], n := n' }
  else
    match s.timeout with
    | none => { s with items := popMin (s.items ++ [e]), n := n' }          -- heappushpop
    | some tmo =>
      let all := s.items ++ [e]
      let times := all.map (·.time)
      let tmax := times.foldl max 0
      let tmin := times.foldl min tmax
      if tmax - tmin ≥ tmo then
        { s with items := (sortByTimeDesc all).take s.length, n := n' }     -- the `length` newest
      else { s with items := popMin all, n := n' }

/-- `_accumulate_other` after the `fix:` commit, `timeout = None`: the `length` largest keys of both heaps -/
def CacheMax.merge {α : Type} (s o : CacheMax α) : CacheMax α :=
  { s with items := (sortByKeyDesc (s.items ++ o.items)).take s.length, n := s.n + o.n }

/-- pinned tree: the other heap's content was computed into an unused variable and dropped -/
def CacheMax.mergePinned {α : Type} (s o : CacheMax α) : CacheMax α :=
  { s with items := (sortByKeyDesc s.items).take s.length, n := s.n + o.n }

/-- `.value`: objects sorted by key, ascending (order among equal keys is not specified) -/
def CacheMax.keys {α : Type} (s : CacheMax α) : List Int :=
  (sortByKeyDesc s.items).reverse.map (·.key)

end Gpv
