/-
  Gpv.Model.Bins — BinSorter / DynamicBinSorter (accumulators.py:818-934).
  The per-bin accumulator is any state type `σ` with a step `accPush`.
-/
import Gpv.Model.P2
namespace Gpv

section
variable {K : Type} [LE K] [DecidableLE K]

/-- `np.digitize(s, edges)` for non-decreasing edges, `right=False`: the number of edges `≤ s` -/
def digitize (s : K) (edges : List K) : Nat := (edges.filter fun e => decide (e ≤ s)).length

structure BinSorter (K σ : Type) where
  edges : List K
  bins : List σ        -- nbins + 2 accumulators: underflow, bins, overflow
  n : Nat

/-- `[cls(**kwargs) for _ in range(nbins + 2)]`, `nbins = len(edges) - 1` -/
def BinSorter.init {σ : Type} (edges : List K) (acc0 : σ) : BinSorter K σ :=
  ⟨edges, List.replicate (edges.length - 1 + 2) acc0, 0⟩

def BinSorter.push {σ δ : Type} (accPush : σ → δ → σ) (s : BinSorter K σ) (key : K) (d : δ) : BinSorter K σ :=
  let idx := digitize key s.edges
  { s with bins := s.bins.modify idx (fun a => accPush a d), n := s.n + 1 }

/-- `.value` / `.histogram` drop the two outer bins -/
def BinSorter.inner {σ : Type} (s : BinSorter K σ) : List σ := (s.bins.drop 1).dropLast
end

section
variable {K : Type} [Add K] [Sub K] [Mul K] [Div K] [Neg K] [NatCast K]
  [LT K] [DecidableLT K] [LE K] [DecidableLE K]

structure DynBinSorter (K σ : Type) where
  nbins : Nat
  est : P2 K           -- CDFEstimator(nbins + 1)
  bins : List σ        -- nbins accumulators
  n : Nat

def DynBinSorter.init {σ : Type} (nbins : Nat) (grid : List K) (acc0 : σ) : DynBinSorter K σ :=
  ⟨nbins, P2.init grid, List.replicate nbins acc0, 0⟩

/-- accumulators.py:906-922 -/
def DynBinSorter.push {σ δ : Type} (accPush : σ → δ → σ) (s : DynBinSorter K σ) (key : K) (d : δ) :
    DynBinSorter K σ :=
  let n' := s.n + 1
  let est' := s.est.push key
  if n' ≤ s.nbins then { s with est := est', n := n' }
  else
    let idx := digitize key est'.h - 1
    let idx := if idx = s.nbins then idx - 1 else idx
    { s with est := est', n := n', bins := s.bins.modify idx (fun a => accPush a d) }
end
end Gpv
