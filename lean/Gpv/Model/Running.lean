/-
  Gpv.Model.Running — RunningMean / RunningVariance / RunningCovariance
  (accumulators.py:181-213, 260-279, 322-341).
-/
import Gpv.Model.Accum
namespace Gpv

section
variable {K : Type}

structure RMean (K : Type) where
  acc : K
  n : Nat
  alpha : K
  deriving Repr, DecidableEq

variable [Add K] [Sub K] [Mul K] [Div K] [NatCast K]

/-- `acc = 0; _n = 0; self.lifetime = lifetime` with the setter `alpha = 1 / x` -/
def RMean.init (lifetime : K) : RMean K := ⟨((0 : Nat) : K), 0, ((1 : Nat) : K) / lifetime⟩

/-- lifetime setter -/
def RMean.setLifetime (s : RMean K) (x : K) : RMean K := { s with alpha := ((1 : Nat) : K) / x }
/-- lifetime getter: `1 / alpha` -/
def RMean.lifetime (s : RMean K) : K := ((1 : Nat) : K) / s.alpha

/-- Python's `max(a, b)`: `b` only if `b > a` -/
def pymax [LT K] [DecidableLT K] (a b : K) : K := if a < b then b else a

/-- `_n += 1; alpha = max(self.alpha, 1/_n); acc = acc*(1-alpha) + obj*alpha`.
    `V` is the type of the observation (a `K` or a `Val K`); `sc` embeds the
    Python float `alpha` into it (identity / broadcast). -/
def RMean.pushWith [LT K] [DecidableLT K] {V : Type} [Add V] [Mul V] (sc : K → V)
    (acc : V) (n : Nat) (alpha : K) (x : V) : V × Nat :=
  let n' := n + 1
  let a := pymax alpha (((1 : Nat) : K) / (n' : K))
  (acc * sc (((1 : Nat) : K) - a) + x * sc a, n')

def RMean.push [LT K] [DecidableLT K] (s : RMean K) (x : K) : RMean K :=
  let r := RMean.pushWith id s.acc s.n s.alpha x
  { s with acc := r.1, n := r.2 }

/-! RunningVariance: the Welford update of `Variance` with running means. -/
structure RVariance (K : Type) where
  mean : RMean K
  var : RMean K
  deriving Repr, DecidableEq

def RVariance.init (lifetime : K) : RVariance K := ⟨RMean.init lifetime, RMean.init lifetime⟩

def RVariance.push [LT K] [DecidableLT K] (s : RVariance K) (x : K) : RVariance K :=
  let delta1 := x - s.mean.acc
  let mean' := s.mean.push x
  ⟨mean', s.var.push (delta1 * (x - mean'.acc))⟩

def RVariance.n (s : RVariance K) : Nat := s.mean.n

def RVariance.value (s : RVariance K) : Except PyErr K :=
  if s.n = 1 then .error .zeroDiv
  else .ok (s.var.acc * ((s.n : K) / (((s.n : K)) - ((1 : Nat) : K))))

def RVariance.setLifetime (s : RVariance K) (x : K) : RVariance K :=
  ⟨s.mean.setLifetime x, s.var.setLifetime x⟩

/-! RunningCovariance for one pair of components. -/
structure RCov2 (K : Type) where
  mx : RMean K
  my : RMean K
  c : RMean K
  deriving Repr, DecidableEq

def RCov2.init (lifetime : K) : RCov2 K := ⟨RMean.init lifetime, RMean.init lifetime, RMean.init lifetime⟩

def RCov2.push [LT K] [DecidableLT K] (s : RCov2 K) (x y : K) : RCov2 K :=
  let d1 := x - s.mx.acc
  let mx' := s.mx.push x
  let my' := s.my.push y
  let d2 := y - my'.acc
  ⟨mx', my', s.c.push (d1 * d2)⟩

def RCov2.value (s : RCov2 K) : Except PyErr K :=
  if s.mx.n = 1 then .error .zeroDiv
  else .ok (s.c.acc * ((s.mx.n : K) / (((s.mx.n : K)) - ((1 : Nat) : K))))

end

/-! Array versions (observations are `Val K`; `alpha` stays a Python float). -/
section
variable {K : Type} [Add K] [Sub K] [Mul K] [Div K] [NatCast K] [LT K] [DecidableLT K]

structure RMeanV (K : Type) where
  acc : Val K
  n : Nat
  alpha : K

def RMeanV.init (lifetime : K) : RMeanV K := ⟨Val.scalar ((0 : Nat) : K), 0, ((1 : Nat) : K) / lifetime⟩

def RMeanV.push (s : RMeanV K) (x : Val K) : RMeanV K :=
  let r := RMean.pushWith Val.scalar s.acc s.n s.alpha x
  { s with acc := r.1, n := r.2 }

def RMeanV.setLifetime (s : RMeanV K) (x : K) : RMeanV K := { s with alpha := ((1 : Nat) : K) / x }

structure RVarianceV (K : Type) where
  mean : RMeanV K
  var : RMeanV K

def RVarianceV.init (lifetime : K) : RVarianceV K := ⟨RMeanV.init lifetime, RMeanV.init lifetime⟩

def RVarianceV.push (s : RVarianceV K) (x : Val K) : RVarianceV K :=
  let delta1 := x - s.mean.acc
  let mean' := s.mean.push x
  ⟨mean', s.var.push (delta1 * (x - mean'.acc))⟩

def RVarianceV.value (s : RVarianceV K) : Except PyErr (Val K) :=
  if s.mean.n = 1 then .error .zeroDiv
  else .ok (s.var.acc * (((s.mean.n : Nat) : Val K) / ((((s.mean.n : Nat) : Val K)) - ((1 : Nat) : Val K))))

def RVarianceV.setLifetime (s : RVarianceV K) (x : K) : RVarianceV K :=
  ⟨s.mean.setLifetime x, s.var.setLifetime x⟩

structure RCovarianceV (K : Type) where
  mean : RMeanV K
  cov : RMeanV K

def RCovarianceV.init (lifetime : K) : RCovarianceV K := ⟨RMeanV.init lifetime, RMeanV.init lifetime⟩

def RCovarianceV.push (s : RCovarianceV K) (x : Val K) : RCovarianceV K :=
  let delta1 := x - s.mean.acc
  let mean' := s.mean.push x
  let delta2 := x - mean'.acc
  ⟨mean', s.cov.push (Val.outer delta1 delta2)⟩

def RCovarianceV.value (s : RCovarianceV K) : Except PyErr (Val K) :=
  if s.mean.n = 1 then .error .zeroDiv
  else .ok (s.cov.acc * (((s.mean.n : Nat) : Val K) / ((((s.mean.n : Nat) : Val K)) - ((1 : Nat) : Val K))))

def RCovarianceV.setLifetime (s : RCovarianceV K) (x : K) : RCovarianceV K :=
  ⟨s.mean.setLifetime x, s.cov.setLifetime x⟩
end

end Gpv
