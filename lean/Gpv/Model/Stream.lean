/-
  Gpv.Model.Stream — generatorpipeline/streamfunctions.py and the package namespace:
  simplecache, observe, observe_time, savestream/loadstream, star import.
  Generators are modelled as explicit machines driven by a consumer (`next`/`close`)
  so that laziness and every stop point are part of the model.
-/
namespace Gpv.Stream

/-! ### the source: a finite list followed by a normal end or the source's own exception -/
inductive SrcItem (α ε : Type) where
  | item (a : α) | stop | err (e : ε)
  deriving Repr, DecidableEq

def srcAt {α ε : Type} (xs : List α) (tail : Option ε) (i : Nat) : SrcItem α ε :=
  match xs[i]? with
  | some a => .item a
  | none => match tail with
            | none => .stop
            | some e => .err e

inductive GPC where
  | notStarted | atYield | done | failed | closed
  deriving Repr, DecidableEq

def GPC.finished : GPC → Bool
  | .done | .failed | .closed => true
  | _ => false

/-! ### savestream / loadstream -/
structure Archive (β : Type) where
  entries : List (String × β)     -- (member name, pickled bytes), in write order
  closed : Bool                   -- central directory written (`ZipFile.__exit__`)
  deriving Repr, DecidableEq

structure Save (α β ε : Type) where
  pc : GPC
  drawn : Nat
  opened : Bool                   -- the zip file has been created (`with ZipFile(file, 'w')` entered)
  arch : Archive β
  out : List α                    -- elements handed to the consumer
  raised : Option ε
  deriving Repr, DecidableEq

def Save.init {α β ε : Type} : Save α β ε := ⟨.notStarted, 0, false, ⟨[], false⟩, [], none⟩

/-- `'data/{:06d}'.format(n)` -/
def memberName (n : Nat) : String :=
  let s := toString n
  "data/" ++ String.ofList (List.replicate (6 - s.length) '0') ++ s

/-- one `next()` of the consumer: draw one element, write it, then yield it -/
def Save.next {α β ε : Type} (enc : α → β) (xs : List α) (tail : Option ε) (s : Save α β ε) : Save α β ε :=
  if s.pc.finished then s
  else
    match srcAt xs tail s.drawn with
    | .item a =>
      { s with pc := .atYield, opened := true, drawn := s.drawn + 1,
               arch := { s.arch with entries := s.arch.entries ++ [(memberName s.drawn, enc a)] },
               out := s.out ++ [a] }
    | .stop => { s with pc := .done, opened := true, arch := { s.arch with closed := true } }
    | .err e => { s with pc := .failed, opened := true, arch := { s.arch with closed := true }, raised := some e }

/-- `close()` / garbage collection: GeneratorExit at the yield leaves `with ZipFile`, which closes the
    archive; a generator that was never started never opened the file -/
def Save.close {α β ε : Type} (s : Save α β ε) : Save α β ε :=
  match s.pc with
  | .notStarted => { s with pc := .closed }
  | .atYield => { s with pc := .closed, arch := { s.arch with closed := true } }
  | _ => s

/-- `loadstream`: members in archive (= write) order; an archive that was never closed is unreadable -/
def load {α β : Type} (dec : β → α) (a : Archive β) : Option (List α) :=
  if a.closed then some (a.entries.map fun e => dec e.2) else none

/-! ### observe / observe_time -/
structure Obsv (α ε : Type) where
  pc : GPC
  drawn : Nat
  out : List α
  calls : List (Nat × α)       -- (index of the observer function, element), in call order
  tlast : Int
  raised : Option ε
  deriving Repr, DecidableEq

def Obsv.init {α ε : Type} : Obsv α ε := ⟨.notStarted, 0, [], [], 0, none⟩

/-- `for i, el in enumerate(gen): if not i % interval: for f in funcs: f(el); yield el` -/
def Obsv.next {α ε : Type} (nfuncs interval : Nat) (xs : List α) (tail : Option ε) (s : Obsv α ε) : Obsv α ε :=
  if s.pc.finished then s
  else
    match srcAt xs tail s.drawn with
    | .item a =>
      let calls := if s.drawn % interval = 0 then (List.range nfuncs).map fun j => (j, a) else []
      { s with pc := .atYield, drawn := s.drawn + 1, calls := s.calls ++ calls, out := s.out ++ [a] }
    | .stop => { s with pc := .done }
    | .err e => { s with pc := .failed, raised := some e }

/-- `t = time_ns(); if t - tlast > interval: tlast = t; call funcs`; `clock i` is the reading taken for element i -/
def Obsv.nextTime {α ε : Type} (nfuncs : Nat) (intervalNs : Int) (clock : Nat → Int) (xs : List α) (tail : Option ε)
    (s : Obsv α ε) : Obsv α ε :=
  if s.pc.finished then s
  else
    match srcAt xs tail s.drawn with
    | .item a =>
      let t := clock s.drawn
      if t - s.tlast > intervalNs then
        { s with pc := .atYield, drawn := s.drawn + 1, tlast := t,
                 calls := s.calls ++ (List.range nfuncs).map fun j => (j, a), out := s.out ++ [a] }
      else { s with pc := .atYield, drawn := s.drawn + 1, out := s.out ++ [a] }
    | .stop => { s with pc := .done }
    | .err e => { s with pc := .failed, raised := some e }

def Obsv.close {α ε : Type} (s : Obsv α ε) : Obsv α ε :=
  match s.pc with
  | .notStarted | .atYield => { s with pc := .closed }
  | _ => s

/-! ### simplecache -/
inductive SCErr where | valueError
  deriving Repr, DecidableEq

structure SCache (α ε : Type) where
  pc : GPC
  drawn : Nat
  cache : List α               -- deque(maxlen=length)
  out : List (List α)
  err : Option SCErr
  raised : Option ε
  deriving Repr, DecidableEq

def SCache.init {α ε : Type} : SCache α ε := ⟨.notStarted, 0, [], [], none, none⟩

/-- one `next()`: keep drawing until the deque is full, then yield a fresh copy of it.
    `isIter = false`: the argument is not an iterator, `ValueError` at the first `next()`. -/
def SCache.next {α ε : Type} (isIter : Bool) (length : Nat) (xs : List α) (tail : Option ε) (s : SCache α ε) :
    SCache α ε :=
  if s.pc.finished then s
  else if !isIter then { s with pc := .failed, err := some .valueError }
  else
    let rec go (fuel : Nat) (s : SCache α ε) : SCache α ε :=
      match fuel with
      | 0 => s
      | fuel + 1 =>
        match srcAt xs tail s.drawn with
        | .item a =>
          let c := (s.cache ++ [a]).drop ((s.cache ++ [a]).length - length)
          let s' := { s with drawn := s.drawn + 1, cache := c }
          if c.length < length then go fuel s'
          else { s' with pc := .atYield, out := s'.out ++ [c] }
        | .stop => { s with pc := .done }
        | .err e => { s with pc := .failed, raised := some e }
    go (xs.length + 1 - s.drawn) s

/-! ### the package namespace: `from generatorpipeline import *` -/
inductive ImportResult where
  | ok (names : List String)
  | attributeError (missing : String)
  deriving Repr, DecidableEq

/-- a star import binds every name of `__all__`; a listed name the module does not define is an AttributeError -/
def starImport (all bound : List String) : ImportResult :=
  match all.find? (fun n => !bound.contains n) with
  | some m => .attributeError m
  | none => .ok all

def advertisedHelpers : List String := ["simplecache", "observe", "observe_time", "savestream", "loadstream"]

end Gpv.Stream
