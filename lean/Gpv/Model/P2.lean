/-
  Gpv.Model.P2 — the P² estimator of accumulators.py:514-815
  (CDFEstimator / QuantileEstimator / MedianEstimator), scalar observations.

  `n` counts the observations so far and, as in the Python, is incremented at the
  very end of an update, so that during the update it acts as N-1.
-/
import Gpv.Model.Basic
namespace Gpv

section
variable {K : Type} [Add K] [Sub K] [Mul K] [Div K] [Neg K] [NatCast K]
  [LT K] [DecidableLT K] [LE K] [DecidableLE K]

/-- list access with a harmless default (never reached under the invariants) -/
def nth (l : List K) (i : Nat) : K := l.getD i ((0 : Nat) : K)

/-- `_parabolic` (accumulators.py:701-716), operator precedence as in the source -/
def parabolic (q1 q2 q3 n1 n2 n3 d : K) : K :=
  q2 + d / (n3 - n1) * ((n2 - n1 + d) * (q3 - q2) / (n3 - n2) + (n3 - n2 - d) * (q2 - q1) / (n2 - n1))

/-- `_linear` (accumulators.py:687-699) -/
def linear (qi qd ni nd d : K) : K := qi + d * ((qd - qi) / (nd - ni))

/-- `np.sign` on a finite number -/
def sign (x : K) : K :=
  if ((0 : Nat) : K) < x then ((1 : Nat) : K) else if x < ((0 : Nat) : K) then -((1 : Nat) : K) else ((0 : Nat) : K)

structure P2 (K : Type) where
  q : List K      -- wanted marker quantiles (sorted, first 0, last 1)
  n : Nat         -- observations so far
  h : List K      -- marker heights; during the initial fill: the observations so far, in arrival order
  pos : List K    -- marker ranks, 0-based (floats in the code)
  deriving Repr, DecidableEq

def P2.m (s : P2 K) : Nat := s.q.length

/-- `CDFEstimator(points)` with an explicit grid; `m_pos = arange(m)` -/
def P2.init (q : List K) : P2 K :=
  ⟨q, 0, [], (List.range q.length).map fun i => ((i : Nat) : K)⟩

/-- one marker of step B3 (body of the `for i in range(1, m-1)` loop, accumulators.py:661-685).
    Both candidates are computed, then one is selected, as `np.where` does. -/
def adjustOne (q : List K) (n : Nat) (st : List K × List K) (i : Nat) : List K × List K :=
  let h := st.1
  let pos := st.2
  let posdiff := nth q i * (n : K) - nth pos i
  let d := sign posdiff
  let h0 := nth h (i - 1); let h1 := nth h i; let h2 := nth h (i + 1)
  let p0 := nth pos (i - 1); let p1 := nth pos i; let p2 := nth pos (i + 1)
  let par := parabolic h0 h1 h2 p0 p1 p2 d
  let lin := linear h1 (if d < ((0 : Nat) : K) then h0 else h2) p1 (if d < ((0 : Nat) : K) then p0 else p2) d
  let lstep := posdiff ≤ -((1 : Nat) : K) ∧ p0 - p1 < -((1 : Nat) : K)
  let rstep := ((1 : Nat) : K) ≤ posdiff ∧ ((1 : Nat) : K) < p2 - p1
  if lstep ∨ rstep then
    (h.set i (if h0 < par ∧ par < h2 then par else lin), pos.set i (p1 + d))
  else (h, pos)

/-- `_adjust_heights`: markers 1 … m-2 in increasing order, each seeing the updates of its predecessors -/
def adjustAll (q : List K) (n : Nat) (h pos : List K) : List K × List K :=
  (List.range' 1 (q.length - 2)).foldl (adjustOne q n) (h, pos)

/-- new minimum / maximum and the suffix rank increment (accumulators.py:619-626) -/
def placeObs (h pos : List K) (x : K) : List K × List K :=
  let m := h.length
  let h := h.set 0 (if x < nth h 0 then x else nth h 0)
  let h := h.set (m - 1) (if nth h (m - 1) < x then x else nth h (m - 1))
  let pos := pos.mapIdx fun j p => if 1 ≤ j ∧ x ≤ nth h j then p + ((1 : Nat) : K) else p
  (h, pos)

/-- `np.sort(axis=0)` -/
def sortK (l : List K) : List K := l.mergeSort (fun a b => decide (a ≤ b))

/-- `_accumulate_obj` (accumulators.py:604-632) -/
def P2.push (s : P2 K) (x : K) : P2 K :=
  if s.n + 1 < s.m then
    { s with h := s.h ++ [x], n := s.n + 1 }
  else if s.n + 1 = s.m then
    let r := adjustAll s.q s.n (sortK (s.h ++ [x])) s.pos
    { s with h := r.1, pos := r.2, n := s.n + 1 }
  else
    let r := placeObs s.h s.pos x
    let r := adjustAll s.q s.n r.1 r.2
    { s with h := r.1, pos := r.2, n := s.n + 1 }

def P2.run (q : List K) (xs : List K) : P2 K := xs.foldl P2.push (P2.init q)

/-- `q_actual = m_pos / (n - 1)` -/
def P2.qActual (s : P2 K) : List K := s.pos.map fun p => p / ((s.n : K) - ((1 : Nat) : K))

/-- `np.interp(x, xp, fp)` for non-decreasing `xp` (numpy's `arr_interp`): clamp outside;
    otherwise `j` = the last index with `xp[j] ≤ x`; `fp[j]` if that is the last point or
    `xp[j] = x`; linear inside the cell otherwise. -/
def interp (x : K) (xp fp : List K) : K :=
  let m := xp.length
  if x < nth xp 0 then nth fp 0
  else if nth xp (m - 1) < x then nth fp (m - 1)
  else
    let j := ((List.range m).filter fun j => decide (nth xp j ≤ x)).getLastD 0
    if j = m - 1 then nth fp j
    else if ¬ (nth xp j < x) then nth fp j
    else
      let slope := (nth fp (j + 1) - nth fp j) / (nth xp (j + 1) - nth xp j)
      slope * (x - nth xp j) + nth fp j

def P2.cdfInterp (s : P2 K) (v : K) : K := interp v s.h s.qActual
def P2.quantileInterp (s : P2 K) (p : K) : K := interp p s.qActual s.h

/-- grid of `QuantileEstimator(p)`: `[0, 0.5*p, p, 0.5*(p+1), 1]` -/
def quantileGrid (p : K) : List K :=
  let half : K := ((1 : Nat) : K) / ((2 : Nat) : K)
  [((0 : Nat) : K), half * p, p, half * (p + ((1 : Nat) : K)), ((1 : Nat) : K)]

/-- `np.linspace(0, 1, k)` as exact fractions i/(k-1) (the float values are numpy's; the
    driver receives the real grid from the implementation) -/
def linGrid (k : Nat) : List K := (List.range k).map fun i => ((i : Nat) : K) / (((k - 1 : Nat)) : K)

end
end Gpv
