/-
  Gpv.Model.Store — who owns which numpy buffer (property C11).

  A heap of buffers, each tagged with its owner (`caller i` = the i-th argument the
  user passed, `acc` = allocated by the accumulator).  Python references are either
  immutable numbers or ndarrays at a location.  The primitives have numpy's
  allocation behaviour; each accumulator update is written as the sequence of
  primitives its source line performs.  Values are abstracted away (`Unit` data):
  only allocation, aliasing and writes matter here; the numbers are the business of
  Gpv.Model.Accum.
-/
namespace Gpv.Store

inductive Owner where
  | caller (i : Nat)
  | acc
  deriving Repr, DecidableEq

abbrev Loc := Nat

/-- a Python reference -/
inductive Ref where
  | none                -- Python `None`
  | num                 -- an immutable Python/numpy scalar
  | arr (l : Loc)       -- an ndarray living at location `l`
  deriving Repr, DecidableEq

structure Heap where
  owners : List Owner           -- owner of each location
  writes : List Loc             -- log of every in-place write, oldest first
  deriving Repr, DecidableEq

def Heap.empty : Heap := ⟨[], []⟩

/-- the caller creates the i-th argument: an ndarray (`true`) or a number -/
def Heap.newArg (h : Heap) (i : Nat) (isArray : Bool) : Heap × Ref :=
  if isArray then (⟨h.owners ++ [.caller i], h.writes⟩, .arr h.owners.length) else (h, .num)

/-- a fresh buffer owned by the accumulator -/
def Heap.fresh (h : Heap) : Heap × Ref := (⟨h.owners ++ [.acc], h.writes⟩, .arr h.owners.length)

/-- `np.asarray(x)`: an ndarray is returned as is (alias); anything else becomes a new 0-d array -/
def asarray (h : Heap) : Ref → Heap × Ref
  | .arr l => (h, .arr l)
  | _ => h.fresh

/-- `np.array(x)`: always a copy -/
def arrayCopy (h : Heap) (_ : Ref) : Heap × Ref := h.fresh

/-- `ufunc(a, b)` / `a + b` …: a new array if any operand is an array, else a number -/
def binop (h : Heap) : Ref → Ref → Heap × Ref
  | .arr _, _ => h.fresh
  | _, .arr _ => h.fresh
  | _, _ => (h, .num)

/-- `ufunc(a, b, out=o)`: writes into `o` and returns it -/
def binopOut (h : Heap) (_a _b : Ref) : Ref → Heap × Ref
  | .arr l => (⟨h.owners, h.writes ++ [l]⟩, .arr l)
  | r => (h, r)

/-- `a += b` on a name bound to `a`: in place if `a` is an ndarray, rebinding to `a + b` otherwise -/
def iadd (h : Heap) : Ref → Ref → Heap × Ref
  | .arr l, _ => (⟨h.owners, h.writes ++ [l]⟩, .arr l)
  | a, b => binop h a b

/-- `target[k] = value`: copies into the target's buffer -/
def setItem (h : Heap) : Ref → Heap
  | .arr l => ⟨h.owners, h.writes ++ [l]⟩
  | _ => h

def Heap.ownerOf (h : Heap) (l : Loc) : Option Owner := h.owners[l]?

/-- some write hit a buffer of the caller -/
def Heap.callerWritten (h : Heap) : Bool :=
  h.writes.any fun l => match h.ownerOf l with
    | some (.caller _) => true
    | _ => false

def Ref.callerOwned (h : Heap) : Ref → Bool
  | .arr l => match h.ownerOf l with
    | some (.caller _) => true
    | _ => false
  | _ => false

/-! ### accumulator updates as sequences of primitives -/

/-- Minimum/Maximum on the pinned tree (accumulators.py:112-117 before the `fix:` commit):
    `if acc is None: acc = np.asarray(obj)  else: op(acc, obj, out=acc)` -/
def minmaxPushPinned (h : Heap) (acc obj : Ref) : Heap × Ref :=
  match acc with
  | .none => asarray h obj
  | a => binopOut h a obj a

/-- after the repair: `acc = np.array(obj)` / `acc = op(acc, obj)` -/
def minmaxPush (h : Heap) (acc obj : Ref) : Heap × Ref :=
  match acc with
  | .none => arrayCopy h obj
  | a => binop h a obj

/-- merge after the repair: `if other.acc is not None: acc = np.array(other.acc) | op(acc, other.acc)` -/
def minmaxMerge (h : Heap) (acc other : Ref) : Heap × Ref :=
  match other, acc with
  | .none, a => (h, a)
  | o, .none => arrayCopy h o
  | o, a => binop h a o

/-- `Mean._accumulate_obj`: `_val += obj / n - _val / n` (`_val` starts as the int 0) -/
def meanPush (h : Heap) (val obj : Ref) : Heap × Ref :=
  let (h, t1) := binop h obj .num           -- obj / n
  let (h, t2) := binop h val .num           -- _val / n
  let (h, t3) := binop h t1 t2              -- t1 - t2
  iadd h val t3

/-- `Mean._accumulate_other`: `_val = _val * w + other._val * w'` -/
def meanMerge (h : Heap) (val oval : Ref) : Heap × Ref :=
  let (h, t1) := binop h val .num
  let (h, t2) := binop h oval .num
  binop h t1 t2

/-- `RunningMean._accumulate_obj`: `acc = acc * (1 - alpha) + obj * alpha` -/
def rmeanPush (h : Heap) (acc obj : Ref) : Heap × Ref :=
  let (h, t1) := binop h acc .num
  let (h, t2) := binop h obj .num
  binop h t1 t2

/-- `Variance._accumulate_obj` (also Running*): returns the new (mean value, var value) references -/
def variancePush (meanStep : Heap → Ref → Ref → Heap × Ref) (h : Heap) (mean var obj : Ref) : Heap × Ref × Ref :=
  let (h, d1) := binop h obj mean           -- delta1 = obj - mean.value
  let (h, mean') := meanStep h mean obj     -- self.mean += obj
  let (h, d2) := binop h obj mean'          -- obj - mean.value
  let (h, prod) := binop h d1 d2            -- delta1 * delta2   (np.outer for Covariance: also fresh)
  let (h, var') := meanStep h var prod      -- self.var += …
  (h, mean', var')

/-- P² `_accumulate_obj`: `obj = np.asarray(obj)` is only read; heights/ranks are the estimator's own
    arrays, observations are copied into them (`m_height[n] = obj`, `np.where` results assigned to rows) -/
def p2Push (h : Heap) (heights pos obj : Ref) : Heap × Ref × Ref :=
  let (h, o) := asarray h obj
  let (h, heights) := match heights with
    | .none => let (h, a) := h.fresh; (h, a)       -- _init_m_height
    | r => (h, r)
  let (h, pos) := match pos with
    | .none => let (h, a) := h.fresh; (h, a)       -- _init_m_pos
    | r => (h, r)
  let (h, w) := binop h o heights                  -- np.where(cond, obj, m_height[0]) …
  let _ := w
  let h := setItem h heights                       -- m_height[k] = …
  let h := setItem h pos                           -- m_pos[1:] += … / m_pos[i] = …
  (h, heights, pos)

end Gpv.Store
