/-
  Gpv.Model.Stage — ONE decorated stage object serving several streams at the same time.

  `Pipeline` keeps nothing between calls but the two counters `el_processed` / `el_yielded`; every stream
  (generator object) has its own locals: window, pool, position in the source.  The model of a stage is
  therefore a list of per-stream states (`Pipe.PS`) plus the two shared counters; a step of stream `i` runs the
  single-stream transition `step?` on stream `i` with the stage's current counters and writes the counters back.
  Streams are created lazily (`create` adds a not-yet-started stream) and may be advanced, closed or dropped in
  any interleaving — the situation of chained stages that share a stage, of `f(f(src))`, and of two consumers
  of the same decorated function.
-/
import Gpv.Model.Pipeline
namespace Gpv.Pipe

structure Stage (β ε : Type) where
  streams : List (PS β ε)     -- the counters stored inside these are not used; the stage's own are
  processed : Nat
  yielded : Nat

def Stage.init {β ε : Type} (p0 y0 : Nat) : Stage β ε := ⟨[], p0, y0⟩

/-- `stage(iterator)`: a new generator object; nothing runs -/
def Stage.create {β ε : Type} (st : Stage β ε) : Stage β ε :=
  { st with streams := st.streams ++ [PS.init st.processed st.yielded] }

section
variable {α β ε : Type}

/-- stream `i` (with its own source `srcs[i]`) performs label `l` -/
def Stage.step (c : Cfg) (srcs : List (List α × Option ε)) (f : α → Outcome β ε) (st : Stage β ε)
    (i : Nat) (l : Label ε) : Option (Stage β ε) :=
  match st.streams[i]?, srcs[i]? with
  | some s, some src =>
    (step? c src.1 src.2 f { s with processed := st.processed, yielded := st.yielded } l).map fun s' =>
      { streams := st.streams.set i s', processed := s'.processed, yielded := s'.yielded }
  | _, _ => none

inductive StageOp (ε : Type) where
  | create
  | act (i : Nat) (l : Label ε)

def Stage.run (c : Cfg) (srcs : List (List α × Option ε)) (f : α → Outcome β ε) :
    Stage β ε → List (StageOp ε) → Option (Stage β ε)
  | st, [] => some st
  | st, .create :: ops => Stage.run c srcs f st.create ops
  | st, .act i l :: ops => (Stage.step c srcs f st i l).bind fun st' => Stage.run c srcs f st' ops

/-- the labels stream `i` performed in a stage history, in order -/
def opsOf {ε : Type} (i : Nat) : List (StageOp ε) → List (Label ε)
  | [] => []
  | .create :: ops => opsOf i ops
  | .act j l :: ops => if j = i then l :: opsOf i ops else opsOf i ops

end
end Gpv.Pipe
