/-
  Gpv.Model.Pipeline — generatorpipeline/generatorpipeline.py:
  `Pipeline.__call__`, `_call_serial`, `_call_parallel` (with the `fix:` commit that
  flushes the window before re-raising a source exception) and `Pipe_info`.

  The source is a finite list `xs` followed by `tail` (normal end or its own
  exception); the user function is `f`.  The parallel generator is a labelled
  transition system: consumer labels (`next`, `close`, `throw`), generator labels
  (`draw`, `get`, `flush`) and scheduler labels (`start i`, `finish i`), the last
  two unconstrained except by the pool's capacity — they are the adversary.
-/
namespace Gpv.Pipe

/-- what the user function does with one element (in a worker a transfer failure is an `err` too) -/
inductive Outcome (β ε : Type) where
  | val (v : Option β)     -- returned value; `none` is Python's `None`
  | err (e : ε)
  deriving Repr, DecidableEq

/-- what the consumer observes, in order -/
inductive Obs (β ε : Type) where
  | value (v : Option β)
  | raised (e : ε)
  | stop
  deriving Repr, DecidableEq

structure Cfg where
  nworkers : Nat
  extracache : Nat
  skipNone : Bool
  deriving Repr, DecidableEq

def Cfg.cachelen (c : Cfg) : Nat := c.nworkers + c.extracache

/-- `ret is not None or not self.skipNone` -/
def keep {β : Type} (c : Cfg) (v : Option β) : Bool := v.isSome || !c.skipNone

/-! ### the specification: what any execution mode must deliver -/
section spec
variable {α β ε : Type}

/-- outputs of a prefix in which no call fails: kept results, in order -/
def emit (c : Cfg) (f : α → Outcome β ε) : List α → List (Obs β ε)
  | [] => []
  | x :: xs =>
    match f x with
    | .val v => (if keep c v then [Obs.value v] else []) ++ emit c f xs
    | .err _ => []          -- not reached on failure-free prefixes

/-- the whole observable sequence: kept results up to the first failing call, then that
    exception; otherwise everything, then the source's own exception or the normal end -/
def spec (c : Cfg) (f : α → Outcome β ε) (tail : Option ε) : List α → List (Obs β ε)
  | [] => match tail with
          | none => [Obs.stop]
          | some e => [Obs.raised e]
  | x :: xs =>
    match f x with
    | .val v => (if keep c v then [Obs.value v] else []) ++ spec c f tail xs
    | .err e => [Obs.raised e]

/-- no call fails on this prefix -/
def NoErr (f : α → Outcome β ε) (xs : List α) : Prop := ∀ x ∈ xs, ∃ v, f x = .val v
end spec

/-! ### parallel execution -/
inductive TStat where
  | queued | running | finished
  deriving Repr, DecidableEq

inductive PC where
  | notStarted            -- generator object created, body not entered
  | loopHead              -- about to call next(source)
  | waitLoop              -- blocked in cache.popleft().get() inside the main loop
  | yieldLoop             -- suspended at the yield of the main loop
  | flushHead             -- `while len(cache) > 0`
  | waitFlush             -- blocked in get() inside the flush loop
  | yieldFlush            -- suspended at the yield of the flush loop
  | done                  -- returned normally (StopIteration delivered)
  | failed                -- an exception propagated to the consumer
  | closed                -- closed / garbage-collected by the consumer
  deriving Repr, DecidableEq

inductive PoolSt where
  | notCreated | alive | terminated
  deriving Repr, DecidableEq

inductive Label (ε : Type) where
  | next | close | throw (e : ε)        -- consumer
  | draw | get | flush                  -- generator
  | start (i : Nat) | finish (i : Nat)  -- scheduler / workers
  deriving Repr, DecidableEq

structure PS (β ε : Type) where
  pc : PC
  drawn : Nat                    -- elements drawn from the source
  taken : Nat                    -- results this stream has taken out of the window
  cache : List (Nat × TStat)     -- the window: (source index, status), oldest first
  out : List (Obs β ε)           -- delivered so far
  pool : PoolSt
  pending : Option ε             -- source exception waiting for the flush
  processed : Nat                -- stage counter el_processed
  yielded : Nat                  -- stage counter el_yielded
  deriving Repr, DecidableEq

def PS.init {β ε : Type} (processed yielded : Nat) : PS β ε :=
  ⟨.notStarted, 0, 0, [], [], .notCreated, none, processed, yielded⟩

def running (cache : List (Nat × TStat)) : Nat := (cache.filter fun t => t.2 = .running).length

def setStat (cache : List (Nat × TStat)) (i : Nat) (st : TStat) : List (Nat × TStat) :=
  cache.map fun t => if t.1 = i then (t.1, st) else t

section par
variable {α β ε : Type}

/-- the call for source index `i` fails -/
def isErrAt (xs : List α) (f : α → Outcome β ε) (i : Nat) : Bool :=
  match xs[i]? with
  | some x => match f x with
              | .err _ => true
              | .val _ => false
  | none => false

/-- common part of `get` in the main loop and in the flush loop -/
def getStep (c : Cfg) (xs : List α) (f : α → Outcome β ε) (s : PS β ε) (pcYield pcSkip : PC) :
    Option (PS β ε) :=
  match s.cache with
  | (i, .finished) :: rest =>
    match xs[i]? with
    | none => none
    | some x =>
      match f x with
      | .val v =>
        if keep c v then
          some { s with cache := rest, taken := s.taken + 1, processed := s.processed + 1,
                        yielded := s.yielded + 1, out := s.out ++ [.value v], pc := pcYield }
        else
          some { s with cache := rest, taken := s.taken + 1, processed := s.processed + 1, pc := pcSkip }
      | .err e =>
        some { s with cache := rest, out := s.out ++ [.raised e], pool := .terminated, pc := .failed }
  | _ => none

def step? (c : Cfg) (xs : List α) (tail : Option ε) (f : α → Outcome β ε) (s : PS β ε) :
    Label ε → Option (PS β ε)
  | .next =>
    match s.pc with
    | .notStarted => some { s with pc := .loopHead, pool := .alive }   -- `with Pool(...)` entered
    | .yieldLoop => some { s with pc := .loopHead }
    | .yieldFlush => some { s with pc := .flushHead }
    | .done | .failed | .closed => some s                               -- StopIteration, nothing changes
    | _ => none
  | .close =>
    match s.pc with
    | .notStarted => some { s with pc := .closed }                      -- body never entered: no pool
    | .yieldLoop | .yieldFlush => some { s with pc := .closed, pool := .terminated }
    | .done | .failed | .closed => some s
    | _ => none
  | .throw e =>
    match s.pc with
    | .notStarted => some { s with pc := .failed, out := s.out ++ [.raised e] }
    | .yieldLoop | .yieldFlush =>
      some { s with pc := .failed, pool := .terminated, out := s.out ++ [.raised e] }
    | _ => none
  | .draw =>
    if s.pc = .loopHead then
      if s.drawn < xs.length then
        let cache := s.cache ++ [(s.drawn, .queued)]
        some { s with drawn := s.drawn + 1, cache := cache,
                      pc := if cache.length < c.cachelen then .loopHead else .waitLoop }
      else
        some { s with pc := .flushHead, pending := tail }
    else none
  | .get =>
    match s.pc with
    | .waitLoop => getStep c xs f s .yieldLoop .loopHead
    | .waitFlush => getStep c xs f s .yieldFlush .flushHead
    | _ => none
  | .flush =>
    if s.pc = .flushHead then
      if s.cache.isEmpty then
        match s.pending with
        | some e => some { s with pc := .failed, pool := .terminated, out := s.out ++ [.raised e] }
        | none => some { s with pc := .done, pool := .terminated, out := s.out ++ [.stop] }
      else some { s with pc := .waitFlush }
    else none
  | .start i =>
    if s.pool = .alive ∧ (i, TStat.queued) ∈ s.cache ∧ running s.cache < c.nworkers then
      some { s with cache := setStat s.cache i .running }
    else none
  | .finish i =>
    -- a running task completes; a task whose element cannot even be sent to a worker
    -- (its outcome is an `err`) may fail without ever occupying a worker
    if s.pool = .alive ∧ ((i, TStat.running) ∈ s.cache ∨
        ((i, TStat.queued) ∈ s.cache ∧ isErrAt xs f i = true)) then
      some { s with cache := setStat s.cache i .finished }
    else none

/-- run a list of labels; `none` if some label is not enabled -/
def runLabels (c : Cfg) (xs : List α) (tail : Option ε) (f : α → Outcome β ε) (s : PS β ε) :
    List (Label ε) → Option (PS β ε)
  | [] => some s
  | l :: ls => (step? c xs tail f s l).bind fun s' => runLabels c xs tail f s' ls

def PS.isFinal (s : PS β ε) : Bool := s.pc = .done || s.pc = .failed || s.pc = .closed
end par

/-! ### in-process execution, including generator results (flat-map) -/
inductive SOutcome (β ε : Type) where
  | plain (v : Option β)
  | iter (items : List (Option β))    -- the function returned an iterator with these items
  | err (e : ε)
  deriving Repr, DecidableEq

inductive SPC where
  | notStarted | loopHead | innerHead | atYield | done | failed | closed
  deriving Repr, DecidableEq

inductive SLabel (ε : Type) where
  | next | close | throw (e : ε) | draw | pull
  deriving Repr, DecidableEq

structure SS (β ε : Type) where
  pc : SPC
  drawn : Nat
  inner : List (Option β)     -- items of the current expansion not yet pulled
  pulls : Nat                 -- items pulled from the current inner iterator
  out : List (Obs β ε)
  processed : Nat
  yielded : Nat
  deriving Repr, DecidableEq

def SS.init {β ε : Type} (processed yielded : Nat) : SS β ε :=
  ⟨.notStarted, 0, [], 0, [], processed, yielded⟩

section ser
variable {α β ε : Type}

def sstep? (c : Cfg) (xs : List α) (tail : Option ε) (f : α → SOutcome β ε) (s : SS β ε) :
    SLabel ε → Option (SS β ε)
  | .next =>
    match s.pc with
    | .notStarted => some { s with pc := .loopHead }
    | .atYield => some { s with pc := .innerHead }
    | .done | .failed | .closed => some s
    | _ => none
  | .close =>
    match s.pc with
    | .notStarted | .atYield => some { s with pc := .closed }
    | .done | .failed | .closed => some s
    | _ => none
  | .throw e =>
    match s.pc with
    | .notStarted | .atYield => some { s with pc := .failed, out := s.out ++ [.raised e] }
    | _ => none
  | .draw =>
    if s.pc = .loopHead then
      match xs[s.drawn]? with
      | some x =>
        match f x with
        | .plain v => some { s with drawn := s.drawn + 1, processed := s.processed + 1,
                                    inner := [v], pulls := 0, pc := .innerHead }
        | .iter l => some { s with drawn := s.drawn + 1, processed := s.processed + 1,
                                   inner := l, pulls := 0, pc := .innerHead }
        | .err e => some { s with drawn := s.drawn + 1, out := s.out ++ [.raised e], pc := .failed }
      | none =>
        match tail with
        | some e => some { s with pc := .failed, out := s.out ++ [.raised e] }
        | none => some { s with pc := .done, out := s.out ++ [.stop] }
    else none
  | .pull =>
    if s.pc = .innerHead then
      match s.inner with
      | [] => some { s with pc := .loopHead }                 -- inner iterator exhausted
      | r :: rest =>
        if keep c r then
          some { s with inner := rest, pulls := s.pulls + 1, yielded := s.yielded + 1,
                        out := s.out ++ [.value r], pc := .atYield }
        else some { s with inner := rest, pulls := s.pulls + 1 }
    else none

/-- the expansion of one element's result -/
def expand (c : Cfg) : SOutcome β ε → List (Obs β ε)
  | .plain v => if keep c v then [.value v] else []
  | .iter l => (l.filter (keep c)).map Obs.value
  | .err e => [.raised e]

/-- specification of in-process execution: concatenation of the expansions up to the first failure -/
def sspec (c : Cfg) (f : α → SOutcome β ε) (tail : Option ε) : List α → List (Obs β ε)
  | [] => match tail with
          | none => [Obs.stop]
          | some e => [Obs.raised e]
  | x :: xs =>
    match f x with
    | .err e => [Obs.raised e]
    | r => expand c r ++ sspec c f tail xs

/-- a consumer that exhausts the stream: `next` whenever suspended, otherwise the only enabled step -/
def sdrive (c : Cfg) (xs : List α) (tail : Option ε) (f : α → SOutcome β ε) : Nat → SS β ε → SS β ε
  | 0, s => s
  | fuel + 1, s =>
    match s.pc with
    | .notStarted | .atYield => sdrive c xs tail f fuel ((sstep? c xs tail f s .next).getD s)
    | .loopHead => sdrive c xs tail f fuel ((sstep? c xs tail f s .draw).getD s)
    | .innerHead => sdrive c xs tail f fuel ((sstep? c xs tail f s .pull).getD s)
    | _ => s
end ser

/-! ### `Pipeline.__call__` dispatch and `Pipe_info` -/

/-- `isiterator(arg)`: only iterators are streams; lists, ranges, dicts, arrays, strings, None are elements -/
inductive ArgKind where
  | iterator | element
  deriving Repr, DecidableEq

inductive CallResult (ρ σ : Type) where
  | direct (r : ρ)      -- `return self.func(arg, **kwargs)`: no draw, no pool, counters untouched
  | stream (s : σ)      -- a fresh, not yet started generator

def call {ρ σ : Type} (kind : ArgKind) (applyF : Unit → ρ) (mkStream : Unit → σ) : CallResult ρ σ :=
  match kind with
  | .element => .direct (applyF ())
  | .iterator => .stream (mkStream ())

end Gpv.Pipe
