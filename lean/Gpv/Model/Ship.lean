/-
  Gpv.Model.Ship — what crosses a process boundary (generatorpipeline.py:142-153).

  `Pipeline.__getstate__` ships exactly (func, verbose, skipNone, el_processed, el_yielded);
  `__setstate__` restores those five and sets `nworkers = 0` ("ensure serial execution after
  sending to another process").  The attributes `cachelen` and `maxtasksperchild` do not exist on
  the restored object (they are only read by the parallel path, which a restored stage never takes).
  `copy.copy` / `copy.deepcopy` use the same pair of methods.
-/
import Gpv.Model.Pipeline
namespace Gpv.Ship
open Gpv.Pipe

/-- the attributes of a stage object; `none` = the attribute does not exist -/
structure Stage (F : Type) where
  func : F
  nworkers : Nat
  cachelen : Option Nat
  verbose : Bool
  skipNone : Bool
  maxtasksperchild : Option (Option Nat)
  processed : Nat
  yielded : Nat
  deriving Repr, DecidableEq

variable {F : Type}

/-- `pipeline(nworkers, extracache=…, skipNone=…, verbose=…, maxtasksperchild=…)(func)` -/
def Stage.make (func : F) (nworkers extracache : Nat) (skipNone verbose : Bool) (mtpc : Option Nat) : Stage F :=
  ⟨func, nworkers, some (nworkers + extracache), verbose, skipNone, some mtpc, 0, 0⟩

/-- `__setstate__(__getstate__(s))`: a pickle / dill / copy round trip, and what a worker receives -/
def ship (s : Stage F) : Stage F :=
  { s with nworkers := 0, cachelen := none, maxtasksperchild := none }

/-- the configuration an execution of the stage uses (`extracache` is irrelevant in-process) -/
def Stage.cfg (s : Stage F) : Cfg := ⟨s.nworkers, (s.cachelen.getD s.nworkers) - s.nworkers, s.skipNone⟩

end Gpv.Ship
