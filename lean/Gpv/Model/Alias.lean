/-
  Gpv.Model.Alias — a small model of memory aliasing for the array `Variance`
  and `Covariance` accumulators (accumulators.py, `_accumulate_obj`), core Lean only.

  The functional models of `Gpv.Model.Accum` take an observation as a VALUE.  In
  Python the observation is a REFERENCE to an ndarray, and `Mean.value` hands out
  the state array `_val` itself, so a caller can pass an observation that is a view
  of the accumulator's own running mean (`acc.mean.value[::-1]`, `.T`,
  `np.broadcast_to(acc.mean.value[0], d)` …).  Reading such an observation gives
  whatever the running-mean array holds AT THE MOMENT OF THE READ.

      delta1 = obj - self.mean.value       # read #1 (old mean)
      self.mean += obj                     # Mean: _n += 1; _val += obj/_n - _val/_n
                                           #   right-hand side (read #2, old mean) is
                                           #   evaluated into a temporary, then added
                                           #   to `_val` IN PLACE
      delta2 = obj - self.mean.value       # read #3 (NEW mean)
      self.var += delta1 * delta2          # Mean: _n += 1; _val += x/_n - _val/_n

  * `Obs K`        : `fresh xs` (the caller's own array) or `view σ` (component i of
                     the observation is component σ[i] of the running-mean array).
  * `St K`         : `mean`, `var` (the arrays `self.mean._val`, `self.var._val`;
                     `var` is the population variance) and `n` (`self.mean._n`, equal
                     to `self.var._n`: both are incremented once per observation).
  * `readObs`      : what reading the observation gives in a state.
  * `stepRaw`      : the code before commit b618a08, statement by statement.
  * `stepFixed`    : the code after it (`obj = obj.copy()` when it may share memory).
  * `stepPure`     : component-wise Welford push, the scalar `Gpv.Variance.push`
                     mapped over the components.
  * `CSt`, `covStepRaw`, `covStepFixed`, `covStepPure` : the same for `Covariance`
                     (`np.outer` update; `covStepPure` IS `Gpv.Covariance.push`).

  Remarks on what the model covers.
  * A view of `self.var._val` is harmless in the Python (the product `delta1*delta2`
    is a fresh temporary, and `obj` is not read after `var` is written); only views
    of the running mean matter, and only these are modelled.
  * Before the first observation `_val` is the Python int 0, not an array, so no
    view of it exists; the model allows `n = 0` with an all-zero array of `d`
    components, which is more general and harmless.
  * `σ` is any list of indices `< d` (reversal, transposition, any permutation,
    repeated indices as produced by `broadcast_to` / zero strides).
  * Lists of unequal length follow `List.zipWith` (truncate); the intended inputs
    satisfy the decidable predicate `WF d st o`.

  Added at the end of the file: the plain `Mean` accumulator (`MSt`, `mReadObs`,
  `meanStepOne` = the code as it is, `meanStepTwo` = a two-statement rewrite that reads a
  view after it has been modified, `meanStepPure`, `MWF`); see the section comment there.
-/
import Gpv.Model.Accum
namespace Gpv.Alias
open Gpv

/-- an observation handed to `accumulate` -/
inductive Obs (K : Type) where
  /-- the caller's own array -/
  | fresh (xs : List K)
  /-- a view of the accumulator's running-mean array: component `i` is component `σ[i]` of it -/
  | view (σ : List Nat)
  deriving Repr, DecidableEq

/-- state of an array `Variance` -/
structure St (K : Type) where
  mean : List K
  var : List K
  n : Nat
  deriving Repr, DecidableEq

/-! ### well-formedness (decidable) -/
section wf
variable {K : Type}

/-- both state arrays have `d` components -/
def St.Shaped (d : Nat) (st : St K) : Prop := st.mean.length = d ∧ st.var.length = d

/-- the observation has `d` components; a view only refers to components `< d` -/
def Obs.Shaped (d : Nat) : Obs K → Prop
  | .fresh xs => xs.length = d
  | .view σ => σ.length = d ∧ ∀ i ∈ σ, i < d

/-- state and observation fit the shape `(d,)` -/
def WF (d : Nat) (st : St K) (o : Obs K) : Prop := st.Shaped d ∧ o.Shaped d

instance (d : Nat) (st : St K) : Decidable (st.Shaped d) := by
  unfold St.Shaped; exact inferInstance
instance (d : Nat) (o : Obs K) : Decidable (o.Shaped d) := by
  cases o <;> (unfold Obs.Shaped; exact inferInstance)
instance (d : Nat) (st : St K) (o : Obs K) : Decidable (WF d st o) := by
  unfold WF; exact inferInstance
end wf

/-! ### reading an observation -/
section read
variable {K : Type} [Inhabited K]

/-- read the components selected by `σ` from an array (`default` is never used for
    indices in range) -/
def gather (a : List K) (σ : List Nat) : List K := σ.map fun i => a.getD i default

/-- what reading the observation gives when the running-mean array holds `st.mean` -/
def readObs (st : St K) : Obs K → List K
  | .fresh xs => xs
  | .view σ => gather st.mean σ
end read

/-! ### numpy array arithmetic as used by the code (arrays of one shape; the Python int
    `_n` broadcasts as a scalar) -/
section ops
variable {K : Type} [Add K] [Sub K] [Mul K] [Div K] [NatCast K]

/-- `a - b` -/
def vsub (a b : List K) : List K := List.zipWith (· - ·) a b
/-- `a * b` -/
def vmul (a b : List K) : List K := List.zipWith (· * ·) a b
/-- `np.outer(a, b)`, flattened row-major -/
def vouter (a b : List K) : List K := a.flatMap fun x => b.map fun y => x * y

/-- `Mean._accumulate_obj` on an array state, `n'` being `_n` AFTER `_n += 1`:
    `_val += obj / _n - _val / _n`.  The right-hand side is evaluated completely
    (from the values `obj` shows at that moment) before `_val` is written. -/
def meanUpd (val obj : List K) (n' : Nat) : List K :=
  List.zipWith (· + ·) val
    (List.zipWith (· - ·) (obj.map fun a => a / (n' : K)) (val.map fun a => a / (n' : K)))
end ops

section steps
variable {K : Type} [Add K] [Sub K] [Mul K] [Div K] [NatCast K]

/-! ### Variance -/
section
variable [Inhabited K]

/-- `Variance._accumulate_obj` BEFORE the fix, statement by statement. -/
def stepRaw (st : St K) (o : Obs K) : St K :=
  -- delta1 = obj - self.mean.value                       (obj read in the old state)
  let delta1 := vsub (readObs st o) st.mean
  -- self.mean += obj   →   _n += 1 ; _val += obj/_n - _val/_n
  let n' := st.n + 1
  let mean' := meanUpd st.mean (readObs st o) n'       -- rhs: obj read in the old state
  let st1 : St K := { st with mean := mean' }          -- memory after the in-place write
  -- delta2 = obj - self.mean.value                       (obj read in the NEW state)
  let delta2 := vsub (readObs st1 o) mean'
  -- self.var += delta1 * delta2   →   _n += 1 (the same n') ; _val += x/_n - _val/_n
  ⟨mean', meanUpd st.var (vmul delta1 delta2) n', n'⟩

/-- the guard of the fix: `if may_share_memory(obj, self.mean.value): obj = obj.copy()` -/
def copyIfView (st : St K) : Obs K → Obs K
  | .fresh xs => .fresh xs
  | .view σ => .fresh (readObs st (.view σ))

/-- `Variance._accumulate_obj` AFTER the fix. -/
def stepFixed (st : St K) (o : Obs K) : St K := stepRaw st (copyIfView st o)
end

/-- component `i` of the array accumulator seen as a scalar `Gpv.Variance` -/
def comp (m v : K) (n : Nat) : Variance K := ⟨⟨m, n⟩, ⟨v, n⟩⟩

/-- component-wise Welford push: the scalar model `Gpv.Variance.push` in every component -/
def stepPure (st : St K) (xs : List K) : St K :=
  let rs : List (Variance K) :=
    List.zipWith (fun (mv : K × K) x => (comp mv.1 mv.2 st.n).push x) (st.mean.zip st.var) xs
  ⟨rs.map (·.mean.val), rs.map (·.var.val), st.n + 1⟩

/-- the state as the existing array model `Variance (Val K)` sees it -/
def St.toVal (st : St K) : Variance (Val K) := ⟨⟨.arr st.mean, st.n⟩, ⟨.arr st.var, st.n⟩⟩

/-! ### Covariance: mean vector and flattened d×d matrix (`self._cov._val`) -/
structure CSt (K : Type) where
  mean : List K
  cov : List K
  n : Nat
  deriving Repr, DecidableEq

/-- mean has `d`, the matrix `d*d` components -/
def CSt.Shaped (d : Nat) (st : CSt K) : Prop := st.mean.length = d ∧ st.cov.length = d * d

instance (d : Nat) (st : CSt K) : Decidable (st.Shaped d) := by
  unfold CSt.Shaped; exact inferInstance

def CWF (d : Nat) (st : CSt K) (o : Obs K) : Prop := st.Shaped d ∧ o.Shaped d

instance (d : Nat) (st : CSt K) (o : Obs K) : Decidable (CWF d st o) := by
  unfold CWF; exact inferInstance

section
variable [Inhabited K]

/-- reading an observation only looks at the running-mean array -/
def CSt.asSt (st : CSt K) : St K := ⟨st.mean, [], st.n⟩

def covReadObs (st : CSt K) (o : Obs K) : List K := readObs st.asSt o

/-- `Covariance._accumulate_obj` BEFORE the fix. -/
def covStepRaw (st : CSt K) (o : Obs K) : CSt K :=
  -- delta1 = obj - self.mean.value
  let delta1 := vsub (covReadObs st o) st.mean
  -- self.mean += obj
  let n' := st.n + 1
  let mean' := meanUpd st.mean (covReadObs st o) n'
  let st1 : CSt K := { st with mean := mean' }
  -- delta2 = (obj - self.mean.value)
  let delta2 := vsub (covReadObs st1 o) mean'
  -- self._cov += np.outer(delta1, delta2)
  ⟨mean', meanUpd st.cov (vouter delta1 delta2) n', n'⟩

/-- `Covariance._accumulate_obj` AFTER the fix. -/
def covStepFixed (st : CSt K) (o : Obs K) : CSt K := covStepRaw st (copyIfView st.asSt o)
end

/-- the state as the existing model `Gpv.Covariance` sees it -/
def CSt.toCov (st : CSt K) : Covariance K := ⟨⟨.arr st.mean, st.n⟩, ⟨.arr st.cov, st.n⟩⟩

/-- back from the existing model (array states only; a scalar is a 1-component array) -/
def CSt.ofCov (c : Covariance K) : CSt K := ⟨c.mean.val.toList, c.cov.val.toList, c.mean.n⟩

/-- the pure step IS the existing functional model `Gpv.Covariance.push` on the values -/
def covStepPure (st : CSt K) (xs : List K) : CSt K := CSt.ofCov (st.toCov.push (.arr xs))

end steps

/-! ## ADDED: the plain `Mean` accumulator, whose read-out `value` IS its state array

    `Mean.value` returns `self._val` itself, so `acc += acc.value[::-1]` (or `.T`, or
    `np.broadcast_to(acc.value[0], d)`) hands `_accumulate_obj` a view of the very array it
    is about to update:

        def _accumulate_obj(self, obj):          # class Mean, the code as it is
            self._n += 1
            self._val += obj / self._n - self._val / self._n

    numpy evaluates the whole right-hand side — reading `obj` and `_val` — into a temporary
    BEFORE the in-place add, so every read sees the old array (`meanStepOne`).  A rewrite that
    "saves a temporary" splits the statement in two,

            self._val -= self._val / self._n     # step 1, in place
            self._val += obj / self._n           # step 2

    and in step 2 a view `obj` is read AFTER step 1 has changed the array (`meanStepTwo`).
    Each single statement still evaluates its own right-hand side into a temporary before it
    writes (numpy resolves operand/output overlap of one ufunc call by buffering), so the only
    thing that changes is WHICH state a view shows.

    * `MSt K`          : `val` (the array `self._val`) and `n` (`self._n`).
    * `mReadObs`       : what reading the observation gives in a state (`readObs` on `val`).
    * `meanStepOne`    : the one-statement code: read everything, then write.
    * `meanStepTwo`    : the two-statement rewrite: a view is read from the modified array.
    * `meanStepPure`   : the scalar model `Gpv.Mean.push` in every component.
    * `MSt.Shaped`, `MWF` : well-formedness (decidable), as for `St` / `WF`.
    * `MSt.toVal`      : the state as the array model `Mean (Val K)` of `Gpv.Model.Accum`.
    Theorems relating these are in `Gpv.Props.C12Alias`, section 7. -/

/-- state of an array `Mean` -/
structure MSt (K : Type) where
  val : List K
  n : Nat
  deriving Repr, DecidableEq

section mwf
variable {K : Type}

/-- the state array has `d` components -/
def MSt.Shaped (d : Nat) (st : MSt K) : Prop := st.val.length = d

/-- state and observation fit the shape `(d,)` -/
def MWF (d : Nat) (st : MSt K) (o : Obs K) : Prop := st.Shaped d ∧ o.Shaped d

instance (d : Nat) (st : MSt K) : Decidable (st.Shaped d) := by
  unfold MSt.Shaped; exact inferInstance
instance (d : Nat) (st : MSt K) (o : Obs K) : Decidable (MWF d st o) := by
  unfold MWF; exact inferInstance

/-- reading an observation only looks at the state array: the `Mean` seen as the `mean`
    part of a `St`, so that `readObs` / `gather` are the ones used for `Variance` -/
def MSt.asSt (st : MSt K) : St K := ⟨st.val, [], st.n⟩

/-- what reading the observation gives when the state array holds `st.val` -/
def mReadObs [Inhabited K] (st : MSt K) (o : Obs K) : List K := readObs st.asSt o
end mwf

section msteps
variable {K : Type} [Add K] [Sub K] [Mul K] [Div K] [NatCast K]

/-- `a + b` -/
def vadd (a b : List K) : List K := List.zipWith (· + ·) a b
/-- `a / n` with the Python int `n` broadcast as a scalar -/
def vdivn (a : List K) (n' : Nat) : List K := a.map fun x => x / (n' : K)

section
variable [Inhabited K]

/-- `Mean._accumulate_obj` AS IT IS: one statement; `obj` and `_val` are both read (in the
    old state) into the temporary `obj/_n - _val/_n`, which is then added in place.
    The update is the same `meanUpd` that `stepRaw` uses for `self.mean += obj`. -/
def meanStepOne (st : MSt K) (o : Obs K) : MSt K :=
  -- self._n += 1
  let n' := st.n + 1
  -- self._val += obj / self._n - self._val / self._n     (obj read in the old state)
  ⟨meanUpd st.val (mReadObs st o) n', n'⟩

/-- the two-statement REWRITE (not in the library): `obj` is read only in step 2, after
    step 1 has already written the array it may be a view of. -/
def meanStepTwo (st : MSt K) (o : Obs K) : MSt K :=
  -- self._n += 1
  let n' := st.n + 1
  -- self._val -= self._val / self._n                     (rhs from the old array, then in place)
  let val1 := vsub st.val (vdivn st.val n')
  let st1 : MSt K := ⟨val1, n'⟩                          -- memory after the in-place write
  -- self._val += obj / self._n                           (obj read in the NEW state)
  ⟨vadd val1 (vdivn (mReadObs st1 o) n'), n'⟩
end

/-- component-wise push: the scalar model `Gpv.Mean.push` in every component -/
def meanStepPure (st : MSt K) (xs : List K) : MSt K :=
  let rs : List (Mean K) := List.zipWith (fun v x => (⟨v, st.n⟩ : Mean K).push x) st.val xs
  ⟨rs.map (·.val), st.n + 1⟩

/-- the state as the existing array model `Mean (Val K)` sees it -/
def MSt.toVal (st : MSt K) : Mean (Val K) := ⟨.arr st.val, st.n⟩

end msteps
end Gpv.Alias
