/-
  Gpv.Model.Accum — models of generatorpipeline/accumulators.py:
  Counter, Minimum/Maximum, Mean, Variance, Covariance and their merges.

  Every definition is a line-by-line transcription of the Python; where Python
  raises the model returns `Except PyErr`.  Nothing here depends on `x / 0`.
-/
import Gpv.Model.Basic
namespace Gpv

/-! ### Counter (accumulators.py:76-99) -/
structure Counter where
  n : Nat
  deriving Repr, DecidableEq
def Counter.init : Counter := ⟨0⟩
def Counter.push (s : Counter) : Counter := ⟨s.n + 1⟩
def Counter.merge (s o : Counter) : Counter := ⟨s.n + o.n⟩

section
variable {K : Type}

/-! ### Mean (accumulators.py:148-178) -/
structure Mean (K : Type) where
  val : K
  n : Nat
  deriving Repr, DecidableEq

variable [Add K] [Sub K] [Mul K] [Div K] [NatCast K]

/-- `Mean(value=0, n=0)` -/
def Mean.init : Mean K := ⟨((0 : Nat) : K), 0⟩

/-- `_n += 1; _val += obj / _n - _val / _n` -/
def Mean.push (s : Mean K) (x : K) : Mean K :=
  let n' := s.n + 1
  ⟨s.val + (x / (n' : K) - s.val / (n' : K)), n'⟩

/-- `ntot = n + other.n; _val = _val*(n/ntot) + other._val*(other.n/ntot)`.
    `n/ntot` divides two Python ints: `ZeroDivisionError` when `ntot = 0`. -/
def Mean.mergeRaw (s o : Mean K) : Except PyErr (Mean K) :=
  let ntot := s.n + o.n
  if ntot = 0 then .error .zeroDiv
  else .ok ⟨s.val * ((s.n : K) / (ntot : K)) + o.val * ((o.n : K) / (ntot : K)), ntot⟩

/-- `.sum = _val * n` -/
def Mean.sum (s : Mean K) : K := s.val * (s.n : K)

/-! ### Variance (accumulators.py:216-257) — Welford with the increments kept as a mean -/
structure Variance (K : Type) where
  mean : Mean K
  var : Mean K
  deriving Repr, DecidableEq

def Variance.init : Variance K := ⟨Mean.init, Mean.init⟩

def Variance.push (s : Variance K) (x : K) : Variance K :=
  let delta1 := x - s.mean.val
  let mean' := s.mean.push x
  ⟨mean', s.var.push (delta1 * (x - mean'.val))⟩

def Variance.n (s : Variance K) : Nat := s.mean.n

/-- Chan et al. pooled update, as written:
    `dmean**2 * self.n * other.n / newn` then `Mean(value=newvar/newn, n=newn)` -/
def Variance.mergeRaw (s o : Variance K) : Except PyErr (Variance K) :=
  let dmean := s.mean.val - o.mean.val
  let newn := s.n + o.n
  if newn = 0 then .error .zeroDiv
  else
    let newvar := s.var.sum + o.var.sum + dmean * dmean * (s.n : K) * (o.n : K) / (newn : K)
    match s.mean.mergeRaw o.mean with
    | .error e => .error e
    | .ok m => .ok ⟨m, ⟨newvar / (newn : K), newn⟩⟩

/-- `.value = var.value * (n / (n - 1))`: int/int, `ZeroDivisionError` at n = 1 -/
def Variance.value (s : Variance K) : Except PyErr K :=
  if s.n = 1 then .error .zeroDiv
  else .ok (s.var.val * ((s.n : K) / (((s.n : K)) - ((1 : Nat) : K))))

def Variance.rms (s : Variance K) : K := s.var.val

/-! ### Covariance of a pair of components (accumulators.py:282-319).
    Entry (i,j) of `np.outer(delta1, delta2)` is `delta1[i] * delta2[j]`, with
    `delta1` taken against the *old* mean and `delta2` against the *new* one. -/
structure Cov2 (K : Type) where
  mx : Mean K
  my : Mean K
  c : Mean K
  deriving Repr, DecidableEq

def Cov2.init : Cov2 K := ⟨Mean.init, Mean.init, Mean.init⟩

def Cov2.push (s : Cov2 K) (x y : K) : Cov2 K :=
  let d1 := x - s.mx.val
  let mx' := s.mx.push x
  let my' := s.my.push y
  let d2 := y - my'.val
  ⟨mx', my', s.c.push (d1 * d2)⟩

def Cov2.mergeRaw (s o : Cov2 K) : Except PyErr (Cov2 K) :=
  let dx := s.mx.val - o.mx.val
  let dy := s.my.val - o.my.val
  let newn := s.mx.n + o.mx.n
  if newn = 0 then .error .zeroDiv
  else
    let newvar := s.c.sum + o.c.sum + dx * dy * (s.mx.n : K) * (o.mx.n : K) / (newn : K)
    match s.mx.mergeRaw o.mx, s.my.mergeRaw o.my with
    | .ok mx, .ok my => .ok ⟨mx, my, ⟨newvar / (newn : K), newn⟩⟩
    | .error e, _ => .error e
    | _, .error e => .error e

def Cov2.value (s : Cov2 K) : Except PyErr K :=
  if s.mx.n = 1 then .error .zeroDiv
  else .ok (s.c.val * ((s.mx.n : K) / (((s.mx.n : K)) - ((1 : Nat) : K))))

end

/-! ### The full Covariance accumulator on array observations: mean vector and
    flattened d×d matrix, updated with `np.outer` exactly as the code does. -/
section
variable {K : Type} [Add K] [Sub K] [Mul K] [Div K] [NatCast K]

structure Covariance (K : Type) where
  mean : Mean (Val K)
  cov : Mean (Val K)

def Covariance.init : Covariance K := ⟨Mean.init, Mean.init⟩

def Covariance.push (s : Covariance K) (x : Val K) : Covariance K :=
  let delta1 := x - s.mean.val
  let mean' := s.mean.push x
  let delta2 := x - mean'.val
  ⟨mean', s.cov.push (Val.outer delta1 delta2)⟩

def Covariance.n (s : Covariance K) : Nat := s.mean.n

def Covariance.mergeRaw (s o : Covariance K) : Except PyErr (Covariance K) :=
  let dmean := s.mean.val - o.mean.val
  let newn := s.n + o.n
  if newn = 0 then .error .zeroDiv
  else
    let newvar := s.cov.sum + o.cov.sum
        + Val.outer dmean dmean * ((s.n : Nat) : Val K) * ((o.n : Nat) : Val K) / ((newn : Nat) : Val K)
    match s.mean.mergeRaw o.mean with
    | .error e => .error e
    | .ok m => .ok ⟨m, ⟨newvar / ((newn : Nat) : Val K), newn⟩⟩

def Covariance.value (s : Covariance K) : Except PyErr (Val K) :=
  if s.n = 1 then .error .zeroDiv
  else .ok (s.cov.val * (((s.n : Nat) : Val K) / ((((s.n : Nat) : Val K)) - ((1 : Nat) : Val K))))
end

/-! ### Minimum / Maximum (accumulators.py:102-145).
    `acc` is `None` until the first observation. -/
section
variable {K : Type} [LT K] [DecidableLT K]

/-- `np.minimum` on finite numbers -/
def kmin (a b : K) : K := if b < a then b else a
/-- `np.maximum` on finite numbers -/
def kmax (a b : K) : K := if a < b then b else a

structure Extremum (K : Type) where
  acc : Option K
  n : Nat
  deriving Repr, DecidableEq

def Extremum.init : Extremum K := ⟨none, 0⟩

/-- `_n += 1; if acc is None: acc = asarray(obj) else op(acc, obj, out=acc)` -/
def Extremum.push (op : K → K → K) (s : Extremum K) (x : K) : Extremum K :=
  match s.acc with
  | none => ⟨some x, s.n + 1⟩
  | some a => ⟨some (op a x), s.n + 1⟩

/-- pinned tree: `op(self.acc, other.acc, out=self.acc)` with `None` operands
    raises `TypeError`; see `Extremum.merge` for the repaired semantics. -/
def Extremum.mergePinned (op : K → K → K) (s o : Extremum K) : Except PyErr (Extremum K) :=
  match s.acc, o.acc with
  | some a, some b => .ok ⟨some (op a b), s.n + o.n⟩
  | _, _ => .error .typeErr

/-- repaired semantics: an empty operand is neutral. -/
def Extremum.merge (op : K → K → K) (s o : Extremum K) : Extremum K :=
  match s.acc, o.acc with
  | some a, some b => ⟨some (op a b), s.n + o.n⟩
  | some a, none => ⟨some a, s.n + o.n⟩
  | none, b => ⟨b, s.n + o.n⟩
end

/-! ### Merges after the `fix:` commits: the only change against `mergeRaw` is the
    guard `if ntot == 0: return` (two empty operands); an empty operand on one
    side is handled by the pooled formula itself (weight 0). -/
section
variable {K : Type} [Add K] [Sub K] [Mul K] [Div K] [NatCast K]

def Mean.merge (s o : Mean K) : Mean K :=
  let ntot := s.n + o.n
  if ntot = 0 then s
  else ⟨s.val * ((s.n : K) / (ntot : K)) + o.val * ((o.n : K) / (ntot : K)), ntot⟩

def Variance.merge (s o : Variance K) : Variance K :=
  let dmean := s.mean.val - o.mean.val
  let newn := s.n + o.n
  if newn = 0 then s
  else
    let newvar := s.var.sum + o.var.sum + dmean * dmean * (s.n : K) * (o.n : K) / (newn : K)
    ⟨s.mean.merge o.mean, ⟨newvar / (newn : K), newn⟩⟩

def Cov2.merge (s o : Cov2 K) : Cov2 K :=
  let dx := s.mx.val - o.mx.val
  let dy := s.my.val - o.my.val
  let newn := s.mx.n + o.mx.n
  if newn = 0 then s
  else
    let newvar := s.c.sum + o.c.sum + dx * dy * (s.mx.n : K) * (o.mx.n : K) / (newn : K)
    ⟨s.mx.merge o.mx, s.my.merge o.my, ⟨newvar / (newn : K), newn⟩⟩

def Covariance.merge (s o : Covariance K) : Covariance K :=
  let dmean := s.mean.val - o.mean.val
  let newn := s.n + o.n
  if newn = 0 then s
  else
    let newvar := s.cov.sum + o.cov.sum
        + Val.outer dmean dmean * ((s.n : Nat) : Val K) * ((o.n : Nat) : Val K) / ((newn : Nat) : Val K)
    ⟨s.mean.merge o.mean, ⟨newvar / ((newn : Nat) : Val K), newn⟩⟩
end

/-! ### Which accumulator kinds can absorb an accumulator of their own kind
    (accumulators.py: only the classes that define `_accumulate_other`). -/
inductive AccKind where
  | counter | minimum | maximum | mean | variance | covariance
  | runningMean | runningVariance | runningCovariance
  | cacheAccumulator | cacheMaximum
  | reservoirSampling | cdfEstimator | quantileEstimator | medianEstimator
  | binSorter | dynamicBinSorter
  deriving DecidableEq, Repr

def AccKind.mergeable : AccKind → Bool
  | .counter | .minimum | .maximum | .mean | .variance | .covariance
  | .cacheAccumulator | .cacheMaximum => true
  | _ => false

/-- `accumulate(other)` with `other` of the receiver's own class, for a kind without
    `_accumulate_other`: `NotImplementedError`, receiver unchanged. -/
def AccKind.mergeOutcome {σ : Type} (k : AccKind) (merge : σ → σ → σ) (s o : σ) : Except PyErr σ × σ :=
  if k.mergeable then (.ok (merge s o), merge s o) else (.error .notImplemented, s)

end Gpv
