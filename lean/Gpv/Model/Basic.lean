/-
  Gpv.Model.Basic — shared vocabulary of the models (core Lean only).

  * `PyErr`   : the small enum of Python exceptions the models can raise.
  * `Val K`   : a numpy operand: a Python scalar or a (flattened) ndarray.
                Binary operations broadcast the way numpy does for these two
                shapes (scalar∘array, array∘array of equal length).
  The numeric models are written once over the operations
  `[Add K] [Sub K] [Mul K] [Div K] [NatCast K]` (and `LT/LE` where the code
  compares); they run at `Rat` and `Float` in the driver and are proved about
  for every field in `Gpv/Proofs`, with no second copy of any definition.
-/
namespace Gpv

inductive PyErr where
  | zeroDiv | typeErr | notImplemented | valueErr | attributeErr | stopIteration
  deriving DecidableEq, Repr, Inhabited

def PyErr.name : PyErr → String
  | .zeroDiv => "ZeroDivisionError"
  | .typeErr => "TypeError"
  | .notImplemented => "NotImplementedError"
  | .valueErr => "ValueError"
  | .attributeErr => "AttributeError"
  | .stopIteration => "StopIteration"

/-- A numpy operand: Python scalar or flattened ndarray. -/
inductive Val (K : Type) where
  | scalar (x : K)
  | arr (xs : List K)
  deriving Repr, DecidableEq, Inhabited

namespace Val
variable {K : Type}

/-- numpy broadcasting of a binary ufunc for scalar/array operands. -/
def map₂ (f : K → K → K) : Val K → Val K → Val K
  | scalar a, scalar b => scalar (f a b)
  | scalar a, arr bs => arr (bs.map (f a))
  | arr as, scalar b => arr (as.map (fun a => f a b))
  | arr as, arr bs => arr (List.zipWith f as bs)

def map (f : K → K) : Val K → Val K
  | scalar a => scalar (f a)
  | arr as => arr (as.map f)

instance [Add K] : Add (Val K) := ⟨map₂ (· + ·)⟩
instance [Sub K] : Sub (Val K) := ⟨map₂ (· - ·)⟩
instance [Mul K] : Mul (Val K) := ⟨map₂ (· * ·)⟩
instance [Div K] : Div (Val K) := ⟨map₂ (· / ·)⟩
instance [NatCast K] : NatCast (Val K) := ⟨fun n => scalar (n : K)⟩

/-- component `c` of an operand (a scalar broadcasts to every component). -/
def proj [Inhabited K] (c : Nat) : Val K → K
  | scalar a => a
  | arr as => as.getD c default

/-- number of components (`none` for a scalar, which fits every shape). -/
def size? : Val K → Option Nat
  | scalar _ => none
  | arr as => some as.length

def toList : Val K → List K
  | scalar a => [a]
  | arr as => as

/-- `np.outer(a, b)`, flattened row-major (both operands are flattened first). -/
def outer [Mul K] (a b : Val K) : Val K :=
  arr (a.toList.flatMap fun x => b.toList.map fun y => x * y)

end Val
end Gpv
