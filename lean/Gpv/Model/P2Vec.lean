/-
  Gpv.Model.P2Vec — the P² estimator on array observations, the way the code does it
  (accumulators.py:604-685): marker axis first, every row an array over the observation's
  components, whole-row numpy operations and `np.where` selections (both candidates are
  computed for every component, then one is selected per component).
  The loop order is the code's: markers outside, components inside each numpy operation.
-/
import Gpv.Model.P2
namespace Gpv

section
variable {K : Type} [Add K] [Sub K] [Mul K] [Div K] [Neg K] [NatCast K]
  [LT K] [DecidableLT K] [LE K] [DecidableLE K]

/-- a row: one value per component of the observation (flattened) -/
abbrev Row (K : Type) := List K

/-- element-wise binary numpy operation on two rows of the same length -/
def rmap₂ {α β γ : Type} (f : α → β → γ) (a : List α) (b : List β) : List γ := List.zipWith f a b

/-- `np.where(cond, a, b)` -/
def rwhere (c : List Bool) (a b : Row K) : Row K :=
  List.zipWith (fun (cab : Bool × K) (y : K) => if cab.1 then cab.2 else y) (List.zip c a) b

/-- a Python scalar broadcast over `d` components -/
def rbc (d : Nat) (x : K) : Row K := List.replicate d x

/-- row `i` of the marker table (a harmless default outside the table) -/
def rowAt (t : List (Row K)) (i : Nat) : Row K := t.getD i []

structure P2V (K : Type) where
  q : List K            -- wanted quantiles (scalars)
  d : Nat               -- number of components of an observation
  n : Nat
  h : List (Row K)      -- marker heights, one row per marker; during the fill: the observations so far
  pos : List (Row K)    -- marker ranks, one row per marker

def P2V.m (s : P2V K) : Nat := s.q.length

/-- `_init_m_pos`: `ones((m, *shape)) * arange(m)[:, None…]` -/
def P2V.init (q : List K) (d : Nat) : P2V K :=
  ⟨q, d, 0, [], (List.range q.length).map fun i => rbc d ((i : Nat) : K)⟩

/-- one marker of `_adjust_heights` for all components at once (accumulators.py:661-685) -/
def adjustOneV (q : List K) (d n : Nat) (st : List (Row K) × List (Row K)) (i : Nat) :
    List (Row K) × List (Row K) :=
  let h := st.1
  let pos := st.2
  let zero : K := ((0 : Nat) : K)
  let one : K := ((1 : Nat) : K)
  let h0 := rowAt h (i - 1); let h1 := rowAt h i; let h2 := rowAt h (i + 1)
  let p0 := rowAt pos (i - 1); let p1 := rowAt pos i; let p2 := rowAt pos (i + 1)
  -- posdiff = q_desired[i] * n - m_pos[i] ; direction = np.sign(posdiff)
  let posdiff := rmap₂ (· - ·) (rbc d (nth q i * (n : K))) p1
  let dir := posdiff.map sign
  -- par = _parabolic(heights, positions, direction), element-wise
  let par := List.ofFn fun (c : Fin d) =>
    parabolic (h0.getD c zero) (h1.getD c zero) (h2.getD c zero) (p0.getD c zero) (p1.getD c zero) (p2.getD c zero)
      (dir.getD c zero)
  -- lin = _linear((h1, where(dir<0, h0, h2)), (p1, where(dir<0, p0, p2)), dir)
  let neg := dir.map fun x => decide (x < zero)
  let hd := rwhere neg h0 h2
  let pd := rwhere neg p0 p2
  let lin := List.ofFn fun (c : Fin d) =>
    linear (h1.getD c zero) (hd.getD c zero) (p1.getD c zero) (pd.getD c zero) (dir.getD c zero)
  -- adj = (posdiff <= -1 & p0 - p1 < -1) | (posdiff >= 1 & p2 - p1 > 1)
  let lstep := rmap₂ (fun a b => a && b) (posdiff.map fun x => decide (x ≤ -one))
                 ((rmap₂ (· - ·) p0 p1).map fun x => decide (x < -one))
  let rstep := rmap₂ (fun a b => a && b) (posdiff.map fun x => decide (one ≤ x))
                 ((rmap₂ (· - ·) p2 p1).map fun x => decide (one < x))
  let adj := rmap₂ (fun a b => a || b) lstep rstep
  -- parabolic_possible = (h0 < par) & (par < h2)
  let ok := rmap₂ (fun a b => a && b) (rmap₂ (fun a b => decide (a < b)) h0 par) (rmap₂ (fun a b => decide (a < b)) par h2)
  let hnew := rwhere adj (rwhere ok par lin) h1
  let pnew := rwhere adj (rmap₂ (· + ·) p1 dir) p1
  (h.set i hnew, pos.set i pnew)

def adjustAllV (q : List K) (d n : Nat) (h pos : List (Row K)) : List (Row K) × List (Row K) :=
  (List.range' 1 (q.length - 2)).foldl (adjustOneV q d n) (h, pos)

/-- accumulators.py:619-626 on rows -/
def placeObsV (h pos : List (Row K)) (x : Row K) : List (Row K) × List (Row K) :=
  let m := h.length
  let one : K := ((1 : Nat) : K)
  let first := rowAt h 0
  let h := h.set 0 (rwhere (rmap₂ (fun a b => decide (a < b)) x first) x first)
  let last := rowAt h (m - 1)
  let h := h.set (m - 1) (rwhere (rmap₂ (fun a b => decide (a < b)) last x) x last)
  let pos := pos.mapIdx fun j p =>
    if 1 ≤ j then rmap₂ (fun (pv : K) (c : Bool) => if c then pv + one else pv) p
                    (rmap₂ (fun a b => decide (a ≤ b)) x (rowAt h j))
    else p
  (h, pos)

/-- `np.sort(m_height, axis=0)`: every component's column is sorted on its own -/
def sortColumns (d : Nat) (rows : List (Row K)) : List (Row K) :=
  let cols := (List.range d).map fun c => sortK (rows.map fun r => r.getD c ((0 : Nat) : K))
  (List.range rows.length).map fun i => cols.map fun col => col.getD i ((0 : Nat) : K)

def P2V.push (s : P2V K) (x : Row K) : P2V K :=
  if s.n + 1 < s.m then
    { s with h := s.h ++ [x], n := s.n + 1 }
  else if s.n + 1 = s.m then
    let r := adjustAllV s.q s.d s.n (sortColumns s.d (s.h ++ [x])) s.pos
    { s with h := r.1, pos := r.2, n := s.n + 1 }
  else
    let r := placeObsV s.h s.pos x
    let r := adjustAllV s.q s.d s.n r.1 r.2
    { s with h := r.1, pos := r.2, n := s.n + 1 }

def P2V.run (q : List K) (d : Nat) (xs : List (Row K)) : P2V K := xs.foldl P2V.push (P2V.init q d)

/-- component `c` of the array estimator, as a scalar estimator state -/
def P2V.col (s : P2V K) (c : Nat) : P2 K :=
  ⟨s.q, s.n, s.h.map fun r => r.getD c ((0 : Nat) : K), s.pos.map fun r => r.getD c ((0 : Nat) : K)⟩

end
end Gpv
