/-
  Gpv.Model.Net — generatorpipeline/network.py: `zmqgeneratorsend` (REP socket) and
  `zmqgeneratorrecv` (REQ socket) as a product transition system over a lock-step
  model of the socket pair: one request slot and one reply slot, each socket with its
  own send/recv alternation state.
-/
namespace Gpv.Net

/-- `(status, payload)`: `(0, el)` for data, `(None, None)` as end marker; the payload is opaque -/
inductive Msg (α : Type) where
  | data (a : α)
  | fin
  deriving Repr, DecidableEq

inductive SPC (α : Type) where
  | loopHead                -- `for el in gen`: about to draw
  | waitReq (a : α)         -- holds `el`, `socket.recv()` pending
  | sendData (a : α)        -- `socket.send_pyobj((0, el))` pending
  | waitLast                -- source exhausted, last `socket.recv()` pending
  | sendFin                 -- `socket.send_pyobj((None, None))` pending
  | done                    -- returned
  deriving Repr, DecidableEq

inductive RPC where
  | idle                    -- not started, or suspended at `yield ret`: waiting for the consumer
  | sendReq                 -- `socket.send(b'next')` pending
  | waitRep                 -- `socket.recv_pyobj()` pending
  | done                    -- returned: the stream ended
  deriving Repr, DecidableEq

/-- REQ sockets must alternate send, recv, send …; REP sockets recv, send, recv … -/
inductive Expect where
  | send | recv
  deriving Repr, DecidableEq

structure NS (α : Type) where
  spc : SPC α
  rpc : RPC
  drawn : Nat               -- elements drawn by the sender from its source
  reqSlot : Bool            -- a request is in flight
  repSlot : Option (Msg α)  -- a reply is in flight
  repExpect : Expect        -- state of the sender's REP socket
  reqExpect : Expect        -- state of the receiver's REQ socket
  requestsSeen : Nat        -- requests the sender has received
  received : List α         -- elements the receiver has yielded
  violated : Bool           -- some socket operation broke the alternation (EFSM error)
  deriving Repr, DecidableEq

def NS.init {α : Type} : NS α := ⟨.loopHead, .idle, 0, false, none, .recv, .send, 0, [], false⟩

inductive Label where
  | sDraw | sRecv | sSend     -- sender: draw from the source, socket.recv, socket.send
  | rNext | rSend | rRecv     -- receiver: consumer's next(), socket.send, socket.recv
  deriving Repr, DecidableEq

def step? {α : Type} (xs : List α) (s : NS α) : Label → Option (NS α)
  | .sDraw =>
    match s.spc with
    | .loopHead =>
      match xs[s.drawn]? with
      | some a => some { s with spc := .waitReq a, drawn := s.drawn + 1 }
      | none => some { s with spc := .waitLast }
    | _ => none
  | .sRecv =>
    -- a blocking recv completes only when a request is there
    if s.reqSlot then
      match s.spc with
      | .waitReq a => some { s with spc := .sendData a, reqSlot := false, requestsSeen := s.requestsSeen + 1,
                                    violated := s.violated || s.repExpect != .recv, repExpect := .send }
      | .waitLast => some { s with spc := .sendFin, reqSlot := false, requestsSeen := s.requestsSeen + 1,
                                   violated := s.violated || s.repExpect != .recv, repExpect := .send }
      | _ => none
    else none
  | .sSend =>
    match s.spc with
    | .sendData a => some { s with spc := .loopHead, repSlot := some (.data a),
                                   violated := s.violated || s.repExpect != .send || s.repSlot.isSome, repExpect := .recv }
    | .sendFin => some { s with spc := .done, repSlot := some .fin,
                                violated := s.violated || s.repExpect != .send || s.repSlot.isSome, repExpect := .recv }
    | _ => none
  | .rNext =>
    match s.rpc with
    | .idle => some { s with rpc := .sendReq }
    | _ => none
  | .rSend =>
    match s.rpc with
    | .sendReq => some { s with rpc := .waitRep, reqSlot := true,
                                violated := s.violated || s.reqExpect != .send || s.reqSlot, reqExpect := .recv }
    | _ => none
  | .rRecv =>
    match s.rpc, s.repSlot with
    | .waitRep, some (.data a) =>
      some { s with rpc := .idle, repSlot := none, received := s.received ++ [a],
                    violated := s.violated || s.reqExpect != .recv, reqExpect := .send }
    | .waitRep, some .fin =>
      some { s with rpc := .done, repSlot := none,
                    violated := s.violated || s.reqExpect != .recv, reqExpect := .send }
    | _, _ => none

def SPC.isDone {α : Type} : SPC α → Bool
  | .done => true
  | _ => false

def NS.isFinal {α : Type} (s : NS α) : Bool := s.spc.isDone && s.rpc == .done

def runLabels {α : Type} (xs : List α) (s : NS α) : List Label → Option (NS α)
  | [] => some s
  | l :: ls => (step? xs s l).bind fun s' => runLabels xs s' ls

end Gpv.Net
