/-
  Gpv.Model.Reservoir — ReservoirSampling (Algorithm R, accumulators.py:476-511)
  with the random choices made explicit.
-/
namespace Gpv

structure Reservoir (α : Type) where
  k : Nat              -- length
  n : Nat
  res : List α
  deriving Repr, DecidableEq

def Reservoir.init {α : Type} (k : Nat) : Reservoir α := ⟨k, 0, []⟩

/-- the range `random.randint` is asked for at the update that makes the count `n`:
    none while filling, `[1, n]` afterwards -/
def Reservoir.requestedRange (k n : Nat) : Option (Nat × Nat) := if n ≤ k then none else some (1, n)

/-- one observation; `j` is the value returned by `random.randint(1, n)` (ignored while filling) -/
def Reservoir.push {α : Type} (s : Reservoir α) (x : α) (j : Nat) : Reservoir α :=
  let n' := s.n + 1
  if n' ≤ s.k then { s with n := n', res := s.res ++ [x] }
  else if j ≤ s.k then { s with n := n', res := s.res.set (j - 1) x }
  else { s with n := n' }

/-- run over a sequence with a sequence of choices (one per observation; unused ones are ignored) -/
def Reservoir.run {α : Type} (k : Nat) (xs : List α) (js : List Nat) : Reservoir α :=
  (xs.zip js).foldl (fun s p => s.push p.1 p.2) (Reservoir.init k)

end Gpv
