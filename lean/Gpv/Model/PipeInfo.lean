/-
  Gpv.Model.PipeInfo — `Pipe_info.__str__` (generatorpipeline.py:158-171):
  `'Pipe_info(processed={p}, yielded={y})[{r:.2%}]'.format(r=y/p)` for p > 0.
  Python divides the two ints as floats, multiplies by 100 in binary64 and prints the
  exact binary value correctly rounded (half to even) to two decimals.
-/
namespace Gpv.PipeInfo

/-- exact value of a finite non-negative binary64 number as (numerator, denominator = 2^k) -/
def floatExact (f : Float) : Nat × Nat :=
  let bits := f.toBits.toNat
  let e := (bits / 2 ^ 52) % 2048
  let m := bits % 2 ^ 52
  if e = 0 then (m, 2 ^ 1074)                       -- subnormal: m * 2^-1074
  else if e ≥ 1075 then ((2 ^ 52 + m) * 2 ^ (e - 1075), 1)
  else (2 ^ 52 + m, 2 ^ (1075 - e))

/-- round num/den to the nearest integer, ties to even -/
def roundHalfEven (num den : Nat) : Nat :=
  let q := num / den
  let r := num % den
  if 2 * r < den then q else if 2 * r > den then q + 1 else if q % 2 = 0 then q else q + 1

def pad2 (n : Nat) : String := if n < 10 then "0" ++ toString n else toString n

/-- `'{:.2%}'.format(y / p)` -/
def percent (y p : Nat) : String :=
  let r := Float.ofNat y / Float.ofNat p
  let x := r * 100.0
  let (num, den) := floatExact x
  let h := roundHalfEven (num * 100) den             -- hundredths
  toString (h / 100) ++ "." ++ pad2 (h % 100) ++ "%"

def str (processed yielded : Nat) : String :=
  if processed > 0 then
    s!"Pipe_info(processed={processed}, yielded={yielded})[{percent yielded processed}]"
  else s!"Pipe_info(processed={processed}, yielded={yielded})"

end Gpv.PipeInfo
