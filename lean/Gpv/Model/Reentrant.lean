/-
  Gpv.Model.Reentrant — a statement-level model of `ReservoirSampling._accumulate_obj`
  (accumulators.py:525-533) that can express RE-ENTRANCY: user code (the finaliser of an
  element that leaves the reservoir) runs in the middle of the method and feeds the same
  accumulator another observation.

      def _accumulate_obj(self, obj):
          self._n += 1                               # (S1)
          if self._n <= self.length:                 # (S2)
              self._reservoir.append(obj)            # (S3)
          else:
              j = random.randint(1, self._n)         # (S4)
              if j <= self.length:                   # (S5)
                  self._reservoir[j-1] = obj         # (S6)  <- the evicted element may be
                                                     #          finalised HERE

  The functional model `Gpv.Model.Reservoir` treats a call as one atomic step and cannot
  say what a call made from inside (S6) sees.  Here a call is a sequence of reads/writes of
  the fields `_n`, `_reservoir`, and a nested call is executed at the exact point where
  CPython would run it.

  Objects and their lifetimes
  ---------------------------
  `Obs.plain i`  an inert token.
  `Obs.echo i`   an object with a finaliser: when the LAST reference to it disappears, the
                 finaliser calls `accumulate(plain (echoId i))` on the same accumulator —
                 exactly once (an object is finalised once).  The follow-up observation is a
                 plain token, so follow-ups do not breed follow-ups (at most one extra call
                 per offered observation).  The nesting DEPTH is not bounded by 2, though:
                 the store of a nested call may evict another echo whose finaliser then runs
                 inside that nested store; the model follows such chains to any depth.
  Objects are identified by WHERE they are, never by comparing ids, so the model is right
  also for lists with repeated ids (the driver uses distinct ids anyway).

  Who holds references: the reservoir (one per slot) and the TOP-LEVEL caller, which holds
  the offered observation for the duration of its `accumulate(x)` call (argument of the
  frames `accumulate`/`_accumulate_obj`) and drops it when the call has returned.  The
  tokens created by finalisers are inert, nobody cares who holds them.  `St.pin` is the
  slot in which the object held by the top-level caller currently sits (`none`: it is not
  in the reservoir, or no top-level call is active).

  WHEN does the follow-up of an echo `e` happen — three situations:
   (a) EVICTED INSIDE A STORE.  `e` sits in slot `j-1`, is not the pinned object, and some
       call (top-level or nested) executes (S6) `self._reservoir[j-1] = obj`.  CPython's
       `list_ass_item` first puts `obj` into the slot and then drops the reference to the old
       item; the reservoir held the last one, so the finaliser runs synchronously INSIDE
       statement (S6): the nested call sees the new item already in the slot, and the
       `_n` that the interrupted call has written so far (S1 done in the real order; NOT
       yet written back in the faulty order).  When the nested call returns, the
       interrupted call resumes after (S6).
   (b) NOT RETAINED.  The offered `e` got `j > length` (S5 false), or the script was
       exhausted (see below): it never enters the reservoir; the caller's reference is the
       last one; it dies when the caller drops it, i.e. right AFTER `accumulate(e)` has
       returned: a follow-up call at top level directly after the offering call (before the
       next offered observation).
   (c) OVERWRITTEN LATER.  `e` was retained by its own call and a LATER call (top-level
       or nested, belonging to a later offered observation) stores into its slot: that is
       situation (a) for that later store.
   (c') OVERWRITTEN DURING ITS OWN CALL.  `e` was stored by its own top-level call, that
       store evicted an echo, and the nested call (or one nested deeper) stores into the
       slot of `e` while the top-level call for `e` is still on the stack: the caller still
       holds `e`, so nothing happens at that store (`pin` becomes `none`); `e` dies when
       the caller drops it: follow-up right after the top-level call returns, as in (b).
  An echo still in the reservoir at the end is alive: no follow-up within the run.

  Random choices: a script `List Nat`, one entry consumed per `random.randint` REQUEST, in
  request order.  Like in `Gpv.Reservoir.push`/`res.run` the entry `j` is used as it is, NOT
  reduced into the range: `j ≤ length` stores into slot `j - 1` (natural subtraction: the
  impossible `j = 0` addresses slot 0, as in the existing model), `j > length` stores
  nothing.  If the script is exhausted the request is still recorded and the answer is the
  upper end `t` of the requested range `(1, t)`, which is `> length`: nothing is stored.
  Consequently every nested call consumes a script entry, and the call functions are
  structurally recursive on the script (no fuel).

  Core Lean only.
-/
import Gpv.Model.Reservoir
namespace Gpv.Reentrant
open Gpv

/-- observations: inert tokens and objects whose finaliser re-enters the accumulator -/
inductive Obs where
  | plain (id : Nat)
  | echo (id : Nat)
  deriving Repr, DecidableEq

/-- id of the token that the finaliser of `echo i` feeds to the accumulator -/
def echoId (i : Nat) : Nat := 1000 + i

def Obs.id : Obs → Nat
  | .plain i => i
  | .echo i => i

/-- what the death of an object triggers: the observation its finaliser offers, if any -/
def finaliser : Obs → Option Obs
  | .plain _ => none
  | .echo i => some (.plain (echoId i))

/-- heap of the model: the accumulator's fields plus the observable trace -/
structure St where
  /-- `self._n` -/
  n : Nat
  /-- `self._reservoir` -/
  res : List Obs
  /-- the ranges `(a, b)` of all `random.randint(a, b)` requests so far, in request order -/
  ranges : List (Nat × Nat)
  /-- the arguments of all `accumulate` calls so far, in order of ENTRY (a nested call is
      listed after the call it interrupts) — the flattened call sequence -/
  calls : List Obs
  /-- slot holding the object that the top-level caller still references -/
  pin : Option Nat
  deriving Repr, DecidableEq

def St.init : St := ⟨0, [], [], [], none⟩

/-- (S1) `self._n += 1`; the entry of the call is logged -/
def St.enter (st : St) (obj : Obs) : St := { st with n := st.n + 1, calls := st.calls ++ [obj] }

/-- entry of a call in the faulty order: only logged, `self._n` is not touched -/
def St.log (st : St) (obj : Obs) : St := { st with calls := st.calls ++ [obj] }

/-- (S4) `random.randint(1, t)` is requested -/
def St.request (st : St) (t : Nat) : St := { st with ranges := st.ranges ++ [(1, t)] }

/-- `self._n = n` -/
def St.setN (st : St) (n : Nat) : St := { st with n := n }

/-- the state after the store (S6) `self._reservoir[slot] = obj`, before the old item is released:
    the new item is in the slot; the pin moves there if this is the top-level call for `obj`,
    and is lost if the pinned object was the one overwritten -/
def store (top : Bool) (st : St) (slot : Nat) (obj : Obs) : St :=
  { st with
    res := st.res.set slot obj
    pin := if top then (if slot < st.res.length then some slot else none)
           else if st.pin = some slot then none else st.pin }

/-- the observation that the finaliser of the item evicted from `slot` offers — `none` if
    there is no item, it is inert, or the top-level caller still holds it (situation c') -/
def released (st : St) (slot : Nat) : Option Obs :=
  if st.pin = some slot then none else (st.res[slot]?).bind finaliser

/-- the append (S3): `self._reservoir.append(obj)` -/
def append (top : Bool) (st : St) (obj : Obs) : St :=
  { st with res := st.res ++ [obj], pin := if top then some st.res.length else st.pin }

/-- the top-level caller drops its reference to `x` after `accumulate(x)` has returned: if `x`
    is not in the reservoir at that moment (no pin) it dies, and this is what its finaliser
    offers (situations b and c') -/
def dropped (st : St) (x : Obs) : Option Obs :=
  if st.pin = none then finaliser x else none

/-! ### the real statement order: increment first -/

/-- one call `_accumulate_obj(obj)` in the REAL statement order.  `top` says whether this is
    the call made by the top-level caller (who holds `obj`).  Returns the state at the return
    of the call and the unconsumed script. -/
def callFirst (k : Nat) (top : Bool) (st : St) (obj : Obs) : List Nat → St × List Nat
  | [] =>
    let st := st.enter obj                                 -- (S1)
    if st.n ≤ k then (append top st obj, [])               -- (S2) true, (S3)
    else
      -- (S4) request `(1, self._n)`; script exhausted: answer `self._n > length`, (S5) false
      (st.request st.n, [])
  | j :: rest =>
    let st := st.enter obj                                 -- (S1)
    if st.n ≤ k then (append top st obj, j :: rest)        -- (S2) true, (S3); no request
    else
      let st := st.request st.n                            -- (S4) answers `j`
      if j ≤ k then                                        -- (S5)
        -- (S6): new item in, then the old item is released …
        match released st (j - 1) with
        | none => (store top st (j - 1) obj, rest)
        | some tok =>
          -- … its finaliser runs inside (S6): nested call; afterwards (S6) is finished and
          -- the method returns
          callFirst k false (store top st (j - 1) obj) tok rest
      else (st, rest)

/-- the top-level caller executes `acc.accumulate(x)` and then drops `x`; if that kills `x`
    its finaliser makes the follow-up call -/
def offerFirst (k : Nat) (p : St × List Nat) (x : Obs) : St × List Nat :=
  let q := callFirst k true { p.1 with pin := none } x p.2
  match dropped q.1 x with
  | some tok => callFirst k false q.1 tok q.2
  | none => ({ q.1 with pin := none }, q.2)

/-- final heap after offering `obs` one after the other (real order) -/
def execFirst (k : Nat) (script : List Nat) (obs : List Obs) : St :=
  (obs.foldl (offerFirst k) (St.init, script)).1

/-! ### the faulty statement order: local copy, written back at the end

        n = self._n + 1                                # (L1)
        if n <= self.length:
            self._reservoir.append(obj)
        else:
            j = random.randint(1, n)
            if j <= self.length:
                self._reservoir[j-1] = obj             # nested call reads the STALE self._n
        self._n = n                                    # (L9) overwrites what the nested call wrote
-/

def callLate (k : Nat) (top : Bool) (st : St) (obj : Obs) : List Nat → St × List Nat
  | [] =>
    let n := st.n + 1                                      -- (L1) local
    let st := st.log obj
    if n ≤ k then ((append top st obj).setN n, [])         -- append; (L9)
    else ((st.request n).setN n, [])                       -- request, nothing stored; (L9)
  | j :: rest =>
    let n := st.n + 1                                      -- (L1) local
    let st := st.log obj
    if n ≤ k then ((append top st obj).setN n, j :: rest)
    else
      let st := st.request n
      if j ≤ k then
        match released st (j - 1) with
        | none => ((store top st (j - 1) obj).setN n, rest)
        | some tok =>
          -- nested call: `self._n` has not been written yet
          let q := callLate k false (store top st (j - 1) obj) tok rest
          (q.1.setN n, q.2)                                -- (L9)
      else (st.setN n, rest)

def offerLate (k : Nat) (p : St × List Nat) (x : Obs) : St × List Nat :=
  let q := callLate k true { p.1 with pin := none } x p.2
  match dropped q.1 x with
  | some tok => callLate k false q.1 tok q.2
  | none => ({ q.1 with pin := none }, q.2)

def execLate (k : Nat) (script : List Nat) (obs : List Obs) : St :=
  (obs.foldl (offerLate k) (St.init, script)).1

/-! ### what is reported -/

/-- final `n`, ids in the reservoir, requested ranges in request order -/
structure Out where
  n : Nat
  res : List Nat
  ranges : List (Nat × Nat)
  deriving Repr, DecidableEq

def St.out (st : St) : Out := ⟨st.n, st.res.map Obs.id, st.ranges⟩

/-- the real statement order -/
def runFirst (k : Nat) (script : List Nat) (obs : List Obs) : Out := (execFirst k script obs).out
/-- the faulty statement order -/
def runLate (k : Nat) (script : List Nat) (obs : List Obs) : Out := (execLate k script obs).out

/-- the flattened call sequence of the real order: every `accumulate` call in entry order,
    i.e. each follow-up at the position where it happens -/
def callsFirst (k : Nat) (script : List Nat) (obs : List Obs) : List Obs := (execFirst k script obs).calls
def callsLate (k : Nat) (script : List Nat) (obs : List Obs) : List Obs := (execLate k script obs).calls

/-! ### the existing non-re-entrant model on a flat call sequence

  `Gpv.Reservoir.push` wants the draw of every observation as an argument (ignored while
  filling); the script has one entry per REQUEST.  `flatStep` consults
  `Reservoir.requestedRange` to see whether the next observation makes a request, and if so
  consumes one script entry (exhausted: the upper end of the range, as above). -/

structure FlatSt where
  r : Reservoir Obs
  script : List Nat
  ranges : List (Nat × Nat)

def flatStep (s : FlatSt) (x : Obs) : FlatSt :=
  match Reservoir.requestedRange s.r.k (s.r.n + 1) with
  | none => { s with r := s.r.push x 0 }
  | some rg =>
    { r := s.r.push x (s.script.headD (s.r.n + 1)), script := s.script.tail, ranges := s.ranges ++ [rg] }

def flatExec (k : Nat) (script : List Nat) (calls : List Obs) : FlatSt :=
  calls.foldl flatStep ⟨Reservoir.init k, script, []⟩

/-- the atomic model run on a flat list of calls -/
def runFlat (k : Nat) (script : List Nat) (calls : List Obs) : Out :=
  let s := flatExec k script calls
  ⟨s.r.n, s.r.res.map Obs.id, s.ranges⟩

/-- the draws in the format of `Reservoir.run` (one per observation): `c` observations starting
    at count `n`; `0` (ignored) while filling, then the script, then the upper end of the range -/
def draws (k : Nat) : Nat → List Nat → Nat → List Nat
  | _, _, 0 => []
  | n, script, c + 1 =>
    if n + 1 ≤ k then 0 :: draws k (n + 1) script c
    else script.headD (n + 1) :: draws k (n + 1) script.tail c

end Gpv.Reentrant
