/-
  Gpv.Proofs.ReservoirAlg — algebra of the reservoir-sampling model
  (`Gpv.Model.Reservoir`): structural invariants of `push`/`run`, the space of
  valid choice sequences, and the counting lemmas behind property C15.
-/
import Gpv.Model.Reservoir
import Mathlib.Data.List.Nodup
import Mathlib.Data.Finset.Card
import Mathlib.Data.Nat.Factorial.Basic
import Mathlib.Data.Finset.Powerset
import Mathlib.Data.Nat.Choose.Basic
import Mathlib.Algebra.BigOperators.Group.List.Basic
import Mathlib.Algebra.BigOperators.Group.Finset.Basic
import Mathlib.Algebra.BigOperators.Group.Finset.Piecewise
import Mathlib.Algebra.Group.Action.Defs
import Mathlib.Tactic.Ring

namespace Gpv
namespace Reservoir
variable {α : Type}

/-! ### one step -/
theorem push_fill (s : Reservoir α) (x : α) (j : Nat) (h : s.n + 1 ≤ s.k) :
    s.push x j = { s with n := s.n + 1, res := s.res ++ [x] } := by
  simp only [push, if_pos h]

theorem push_replace (s : Reservoir α) (x : α) (j : Nat) (h : ¬ s.n + 1 ≤ s.k) (hj : j ≤ s.k) :
    s.push x j = { s with n := s.n + 1, res := s.res.set (j - 1) x } := by
  simp only [push, if_neg h, if_pos hj]

theorem push_skip (s : Reservoir α) (x : α) (j : Nat) (h : ¬ s.n + 1 ≤ s.k) (hj : ¬ j ≤ s.k) :
    s.push x j = { s with n := s.n + 1 } := by
  simp only [push, if_neg h, if_neg hj]

/-- case analysis on the three branches of `push` -/
theorem push_cases (s : Reservoir α) (x : α) (j : Nat) :
    s.push x j = { s with n := s.n + 1, res := s.res ++ [x] } ∨
    s.push x j = { s with n := s.n + 1, res := s.res.set (j - 1) x } ∨
    s.push x j = { s with n := s.n + 1 } := by
  by_cases h : s.n + 1 ≤ s.k
  · exact Or.inl (push_fill s x j h)
  · by_cases hj : j ≤ s.k
    · exact Or.inr (Or.inl (push_replace s x j h hj))
    · exact Or.inr (Or.inr (push_skip s x j h hj))

@[simp] theorem push_k (s : Reservoir α) (x : α) (j : Nat) : (s.push x j).k = s.k := by
  rcases push_cases s x j with h | h | h <;> rw [h]

@[simp] theorem push_n (s : Reservoir α) (x : α) (j : Nat) : (s.push x j).n = s.n + 1 := by
  rcases push_cases s x j with h | h | h <;> rw [h]

/-- the size invariant: the reservoir holds `min n k` items -/
def Inv (s : Reservoir α) : Prop := s.res.length = min s.n s.k

theorem init_inv (k : Nat) : (init k : Reservoir α).Inv := by simp [Inv, init]

theorem push_inv {s : Reservoir α} (h : s.Inv) (x : α) (j : Nat) : (s.push x j).Inv := by
  unfold Inv at h ⊢
  by_cases h1 : s.n + 1 ≤ s.k
  · rw [push_fill s x j h1]; simp; omega
  · by_cases hj : j ≤ s.k
    · rw [push_replace s x j h1 hj]; simp; omega
    · rw [push_skip s x j h1 hj]; simp; omega

/-! ### folds -/
theorem foldl_props (ps : List (α × Nat)) (s : Reservoir α) (h : s.Inv) :
    (ps.foldl (fun s p => s.push p.1 p.2) s).k = s.k ∧
    (ps.foldl (fun s p => s.push p.1 p.2) s).n = s.n + ps.length ∧
    (ps.foldl (fun s p => s.push p.1 p.2) s).Inv := by
  induction ps generalizing s with
  | nil => simpa using h
  | cons p ps ih =>
    obtain ⟨h1, h2, h3⟩ := ih (s.push p.1 p.2) (push_inv h _ _)
    simp only [List.foldl_cons, List.length_cons]
    refine ⟨by simpa using h1, ?_, h3⟩
    rw [h2, push_n]; omega

theorem foldl_fill (ps : List (α × Nat)) (s : Reservoir α) (h : s.n + ps.length ≤ s.k) :
    (ps.foldl (fun s p => s.push p.1 p.2) s).res = s.res ++ ps.map Prod.fst := by
  induction ps generalizing s with
  | nil => simp
  | cons p ps ih =>
    simp only [List.length_cons] at h
    have hp : s.push p.1 p.2 = { s with n := s.n + 1, res := s.res ++ [p.1] } := by
      exact push_fill s p.1 p.2 (by omega)
    simp only [List.foldl_cons, List.map_cons]
    rw [ih _ (by rw [push_n, push_k]; omega), hp]; simp

theorem foldl_nodup [DecidableEq α] (ps : List (α × Nat)) (s : Reservoir α)
    (hs : s.res.Nodup) (hp : (ps.map Prod.fst).Nodup)
    (hd : ∀ y ∈ s.res, y ∉ ps.map Prod.fst) :
    (ps.foldl (fun s p => s.push p.1 p.2) s).res.Nodup ∧
    ∀ y ∈ (ps.foldl (fun s p => s.push p.1 p.2) s).res, y ∈ s.res ∨ y ∈ ps.map Prod.fst := by
  induction ps generalizing s with
  | nil => simpa using hs
  | cons p ps ih =>
    simp only [List.map_cons, List.nodup_cons] at hp
    have hpn : p.1 ∉ s.res := fun hm => hd _ hm (by simp)
    have hmem : ∀ y ∈ (s.push p.1 p.2).res, y ∈ s.res ∨ y = p.1 := by
      intro y
      rcases push_cases s p.1 p.2 with h | h | h <;> rw [h]
      · simp
      · exact List.mem_or_eq_of_mem_set
      · exact fun h => Or.inl h
    have hnd : (s.push p.1 p.2).res.Nodup := by
      rcases push_cases s p.1 p.2 with h | h | h <;> rw [h]
      · exact List.nodup_append.mpr ⟨hs, by simp, by
          intro a ha b hb; simp at hb; subst hb; exact fun e => hpn (e ▸ ha)⟩
      · exact hs.set hpn
      · exact hs
    obtain ⟨h1, h2⟩ := ih (s.push p.1 p.2) hnd hp.2 (by
      intro y hy hy'
      rcases hmem y hy with h | h
      · exact hd y h (by simp [List.mem_map] at hy' ⊢; exact Or.inr hy')
      · subst h; exact hp.1 hy')
    refine ⟨h1, fun y hy => ?_⟩
    rcases h2 y hy with h | h
    · rcases hmem y h with h | h
      · exact Or.inl h
      · right; simp [h]
    · right; simp only [List.map_cons, List.mem_cons]; exact Or.inr h

/-! ### `run` -/
theorem run_k (k : Nat) (xs : List α) (js : List Nat) : (run k xs js).k = k :=
  (foldl_props _ _ (init_inv k)).1

theorem run_n (k : Nat) (xs : List α) (js : List Nat) (h : js.length = xs.length) :
    (run k xs js).n = xs.length := by
  have := (foldl_props (xs.zip js) _ (init_inv (α := α) k)).2.1
  simpa [run, init, h] using this

theorem run_inv (k : Nat) (xs : List α) (js : List Nat) : (run k xs js).Inv :=
  (foldl_props _ _ (init_inv k)).2.2

theorem run_length (k : Nat) (xs : List α) (js : List Nat) (h : js.length = xs.length) :
    (run k xs js).res.length = min xs.length k := by
  have := run_inv k xs js
  rw [Inv, run_n k xs js h, run_k] at this; exact this

theorem run_fill (k : Nat) (xs : List α) (js : List Nat) (h : js.length = xs.length)
    (hk : xs.length ≤ k) : (run k xs js).res = xs := by
  have := foldl_fill (xs.zip js) (init (α := α) k) (by simp [init, h]; exact hk)
  rw [List.map_fst_zip (by omega)] at this
  simpa [run, init] using this

theorem run_nodup [DecidableEq α] (k : Nat) (xs : List α) (js : List Nat) (hx : xs.Nodup) :
    (run k xs js).res.Nodup ∧ ∀ y ∈ (run k xs js).res, y ∈ xs := by
  have hsub : (List.map Prod.fst (xs.zip js)).Sublist xs := by
    clear hx
    induction xs generalizing js with
    | nil => simp
    | cons x xs ih =>
      cases js with
      | nil => simp
      | cons j js => simpa using ih js
  obtain ⟨h1, h2⟩ := foldl_nodup (xs.zip js) (init (α := α) k) (by simp [init])
    (hx.sublist hsub) (by simp [init])
  refine ⟨h1, fun y hy => ?_⟩
  rcases h2 y hy with h | h
  · simp [init] at h
  · exact hsub.subset h

theorem run_snoc (k : Nat) (xs : List α) (js : List Nat) (x : α) (j : Nat)
    (h : xs.length = js.length) : run k (xs ++ [x]) (js ++ [j]) = (run k xs js).push x j := by
  unfold run; rw [List.zip_append h]; simp [List.foldl_append]

/-! ### value-independence -/
section Map
variable {β : Type}

/-- relabel the stored items -/
def mapRes (f : α → β) (s : Reservoir α) : Reservoir β := ⟨s.k, s.n, s.res.map f⟩

theorem push_mapRes (f : α → β) (s : Reservoir α) (x : α) (j : Nat) :
    (mapRes f s).push (f x) j = mapRes f (s.push x j) := by
  by_cases h : s.n + 1 ≤ s.k
  · rw [push_fill s x j h, push_fill (mapRes f s) (f x) j h]; simp [mapRes]
  · by_cases hj : j ≤ s.k
    · rw [push_replace s x j h hj, push_replace (mapRes f s) (f x) j h hj]
      simp [mapRes, List.map_set]
    · rw [push_skip s x j h hj, push_skip (mapRes f s) (f x) j h hj]; simp [mapRes]

theorem foldl_mapRes (f : α → β) (ps : List (α × Nat)) (s : Reservoir α) :
    (ps.map (Prod.map f id)).foldl (fun s p => s.push p.1 p.2) (mapRes f s) =
      mapRes f (ps.foldl (fun s p => s.push p.1 p.2) s) := by
  induction ps generalizing s with
  | nil => rfl
  | cons p ps ih => simp only [List.map_cons, List.foldl_cons, Prod.map_fst, Prod.map_snd, id,
      push_mapRes, ih]

/-- the algorithm never looks at the values: relabelling the input relabels the output -/
theorem run_map (f : α → β) (k : Nat) (xs : List α) (js : List Nat) :
    (run k (xs.map f) js).res = (run k xs js).res.map f := by
  have h := foldl_mapRes f (xs.zip js) (init k)
  have hz : (xs.map f).zip js = (xs.zip js).map (Prod.map f id) := by
    rw [List.zip_map_left]
  unfold run; rw [hz]
  have hi : (init k : Reservoir β) = mapRes f (init k) := by simp [init, mapRes]
  rw [hi, h]; rfl

theorem run_eq_map_positions (k : Nat) (xs : List α) (js : List Nat) (d : α) :
    (run k xs js).res = (run k (List.range xs.length) js).res.map (fun i => xs.getD i d) := by
  have hx : xs = (List.range xs.length).map (fun i => xs.getD i d) := by
    apply List.ext_getElem
    · simp
    · intro i h₁ h₂
      simp [List.getElem?_eq_getElem h₁]
  rw [← run_map, ← hx]
end Map

/-! ### list/finset helpers -/
open List

theorem countP_range_getElem? {α : Type} (l : List α) (P : Option α → Bool) :
    (List.range l.length).countP (fun j => P l[j]?) = l.countP (fun y => P (some y)) := by
  induction l with
  | nil => simp
  | cons a l ih =>
    rw [List.length_cons, List.range_succ_eq_map, List.countP_cons, List.countP_map,
      List.countP_cons]
    simp [Function.comp_def, ih]

theorem toFinset_replace_aux {α : Type} [DecidableEq α] (l₁ l₂ : List α) (x y : α)
    (hnd : (l₁ ++ y :: l₂).Nodup) :
    (l₁ ++ x :: l₂).toFinset = insert x ((l₁ ++ y :: l₂).toFinset.erase y) := by
  rw [List.nodup_append] at hnd
  obtain ⟨_, h4, h5⟩ := hnd
  rw [List.nodup_cons] at h4
  have h6 : y ∉ l₁ := fun h => h5 _ h _ (by simp) rfl
  ext a
  simp only [List.mem_toFinset, List.mem_append, List.mem_cons, Finset.mem_insert,
    Finset.mem_erase]
  constructor
  · rintro (h | h | h)
    · exact Or.inr ⟨fun e => h6 (e ▸ h), Or.inl h⟩
    · exact Or.inl h
    · exact Or.inr ⟨fun e => h4.1 (e ▸ h), Or.inr (Or.inr h)⟩
  · rintro (h | ⟨hne, h | h | h⟩)
    · exact Or.inr (Or.inl h)
    · exact Or.inl h
    · exact absurd h hne
    · exact Or.inr (Or.inr h)

theorem toFinset_set_of_nodup {α : Type} [DecidableEq α] {l : List α} (hnd : l.Nodup) {j : Nat}
    (hj : j < l.length) (x : α) :
    (l.set j x).toFinset = insert x (l.toFinset.erase l[j]) := by
  have h1 : l.set j x = l.take j ++ x :: l.drop (j+1) := by
    rw [List.set_eq_take_append_cons_drop, if_pos hj]
  have h2 : l = l.take j ++ l[j] :: l.drop (j+1) := by
    conv_lhs => rw [← List.take_append_drop j l, List.drop_eq_getElem_cons hj]
  obtain ⟨l₁, l₂, y, hl, hy, hs⟩ :
      ∃ l₁ l₂ y, l = l₁ ++ y :: l₂ ∧ l[j] = y ∧ l.set j x = l₁ ++ x :: l₂ :=
    ⟨_, _, _, h2, rfl, h1⟩
  rw [hs, hy]
  clear hy hs h1 h2
  subst hl
  exact toFinset_replace_aux l₁ l₂ x y hnd

/-! ### the space of choice sequences -/

/-- All valid sequences of draws for a stream of length `n`: at the `t`-th observation
(1-based) the draw is irrelevant while `t ≤ k` (fixed to `1`, so that every sequence is
listed once) and ranges over `1..t` for `t > k` — exactly the range the code requests. -/
def choiceSeqs (k : Nat) : Nat → List (List Nat)
  | 0 => [[]]
  | n+1 => (choiceSeqs k n).flatMap fun js =>
      if n+1 ≤ k then [js ++ [1]] else (List.range (n+1)).map fun j => js ++ [j+1]

theorem length_of_mem_choiceSeqs {k n : Nat} {js : List Nat} (h : js ∈ choiceSeqs k n) :
    js.length = n := by
  induction n generalizing js with
  | zero => simp [choiceSeqs] at h; simp [h]
  | succ n ih =>
    simp only [choiceSeqs, List.mem_flatMap] at h
    obtain ⟨js', hjs', h⟩ := h
    split_ifs at h
    · simp at h; simp [h, ih hjs']
    · simp at h; obtain ⟨j, _, rfl⟩ := h; simp [ih hjs']

theorem choiceSeqs_fill {k n : Nat} (h : n ≤ k) : choiceSeqs k n = [List.replicate n 1] := by
  induction n with
  | zero => rfl
  | succ n ih => simp [choiceSeqs, ih (by omega), h, List.replicate_succ']

theorem choiceSeqs_length_succ {k n : Nat} (h : k ≤ n) :
    (choiceSeqs k (n+1)).length = (n+1) * (choiceSeqs k n).length := by
  simp only [choiceSeqs, List.length_flatMap, if_neg (by omega : ¬ n+1 ≤ k), List.length_map,
    List.length_range]
  simp [List.map_const', List.sum_replicate, Nat.mul_comm]

theorem choiceSeqs_total {k n : Nat} (h : k ≤ n) :
    (choiceSeqs k n).length * k.factorial = n.factorial := by
  induction n, h using Nat.le_induction with
  | base => simp [choiceSeqs_fill (Nat.le_refl k)]
  | succ n h ih => rw [choiceSeqs_length_succ h, Nat.mul_assoc, ih, Nat.factorial_succ]

/-- a draw `j` is valid at observation `t+1` -/
def ValidDraw (k t j : Nat) : Prop := if t + 1 ≤ k then j = 1 else 1 ≤ j ∧ j ≤ t + 1

theorem mem_choiceSeqs_succ {k n : Nat} {js : List Nat} :
    js ∈ choiceSeqs k (n+1) ↔ ∃ js' ∈ choiceSeqs k n, ∃ c, ValidDraw k n c ∧ js = js' ++ [c] := by
  simp only [choiceSeqs, List.mem_flatMap, ValidDraw]
  constructor
  · rintro ⟨js', hjs', h⟩
    refine ⟨js', hjs', ?_⟩
    split_ifs at h ⊢ with hk
    · exact ⟨1, rfl, by simpa using h⟩
    · simp only [List.mem_map, List.mem_range] at h
      obtain ⟨j, hj, rfl⟩ := h
      exact ⟨j+1, ⟨by omega, by omega⟩, rfl⟩
  · rintro ⟨js', hjs', c, hc, rfl⟩
    refine ⟨js', hjs', ?_⟩
    split_ifs at hc ⊢ with hk
    · simp [hc]
    · simp only [List.mem_map, List.mem_range]
      exact ⟨c - 1, by omega, by rw [Nat.sub_add_cancel hc.1]⟩

theorem mem_choiceSeqs {k n : Nat} {js : List Nat} :
    js ∈ choiceSeqs k n ↔
      js.length = n ∧ ∀ t j, js[t]? = some j → ValidDraw k t j := by
  induction n generalizing js with
  | zero =>
    simp only [choiceSeqs, List.mem_singleton, List.length_eq_zero_iff]
    constructor
    · rintro rfl; simp
    · exact fun h => h.1
  | succ n ih =>
    rw [mem_choiceSeqs_succ]
    constructor
    · rintro ⟨js', hjs', c, hc, rfl⟩
      obtain ⟨hl, hv⟩ := ih.mp hjs'
      refine ⟨by simp [hl], fun t j ht => ?_⟩
      by_cases htn : t < js'.length
      · rw [List.getElem?_append_left htn] at ht; exact hv t j ht
      · rw [List.getElem?_append_right (by omega)] at ht
        have : t = n := by
          by_contra hne
          rw [List.getElem?_eq_none (by simp; omega)] at ht; cases ht
        subst this
        simp [hl] at ht; subst ht; exact hc
    · rintro ⟨hl, hv⟩
      rcases List.eq_nil_or_concat js with rfl | ⟨js', c, rfl⟩
      · simp at hl
      · rw [List.concat_eq_append] at hl hv ⊢
        have hl' : js'.length = n := by simpa using hl
        refine ⟨js', ih.mpr ⟨hl', fun t j ht => hv t j ?_⟩, c, hv n c ?_, rfl⟩
        · have : t < js'.length := by
            by_contra h; rw [List.getElem?_eq_none (by omega)] at ht; cases ht
          rw [List.getElem?_append_left this]; exact ht
        · rw [List.getElem?_append_right (by omega)]; simp [hl']

theorem choiceSeqs_nodup (k n : Nat) : (choiceSeqs k n).Nodup := by
  induction n with
  | zero => simp [choiceSeqs]
  | succ n ih =>
    rw [choiceSeqs, List.nodup_flatMap]
    constructor
    · intro js _
      split_ifs
      · simp
      · refine List.nodup_range.map ?_
        intro a b h
        simpa using h
    · refine ih.imp ?_
      intro js₁ js₂ hne
      have key : ∀ x, (∃ a, x = js₁ ++ [a]) → (∃ b, x = js₂ ++ [b]) → False := by
        rintro x ⟨a, rfl⟩ ⟨b, hb⟩
        exact hne (List.append_inj' hb rfl).1
      simp only [Function.onFun]
      intro x h1 h2
      refine key x ?_ ?_
      · split_ifs at h1
        · exact ⟨1, by simpa using h1⟩
        · simp only [List.mem_map] at h1; obtain ⟨j, _, rfl⟩ := h1; exact ⟨_, rfl⟩
      · split_ifs at h2
        · exact ⟨1, by simpa using h2⟩
        · simp only [List.mem_map] at h2; obtain ⟨j, _, rfl⟩ := h2; exact ⟨_, rfl⟩

/-! ### the full-reservoir invariant -/

/-- state of a reservoir over positions after `n ≥ k` observations -/
structure Full (k n : Nat) (r : Reservoir ℕ) : Prop where
  hk : r.k = k
  hn : r.n = n
  len : r.res.length = k
  nodup : r.res.Nodup
  lt : ∀ y ∈ r.res, y < n

theorem run_full {k n : Nat} {js : List Nat} (hkn : k ≤ n) (hjs : js.length = n) :
    Full k n (run k (List.range n) js) := by
  have hl : js.length = (List.range n).length := by simp [hjs]
  obtain ⟨h1, h2⟩ := run_nodup k (List.range n) js List.nodup_range
  refine ⟨run_k _ _ _, by simpa using run_n k _ js hl, ?_, h1, fun y hy => by simpa using h2 y hy⟩
  rw [run_length k _ js hl]; simp [hkn]

theorem Full.push_hi {k n : Nat} {r : Reservoir ℕ} (h : Full k n r) (hkn : k ≤ n) {j : Nat}
    (hj : k ≤ j) : (r.push n (j+1)).res = r.res := by
  rw [push_skip r n (j+1) (by rw [h.hk, h.hn]; omega) (by rw [h.hk]; omega)]

theorem Full.push_lo {k n : Nat} {r : Reservoir ℕ} (h : Full k n r) (hkn : k ≤ n) {j : Nat}
    (hj : j < k) : (r.push n (j+1)).res = r.res.set j n := by
  rw [push_replace r n (j+1) (by rw [h.hk, h.hn]; omega) (by rw [h.hk]; omega)]; simp

theorem Full.not_mem {k n : Nat} {r : Reservoir ℕ} (h : Full k n r) : n ∉ r.res.toFinset := by
  intro hm; exact Nat.lt_irrefl _ (h.lt n (by simpa using hm))

/-- number of draws at observation `n+1` leading to `S`, when the new position is not in `S` -/
theorem Full.count_skip {k n : Nat} {r : Reservoir ℕ} (h : Full k n r) (hkn : k ≤ n)
    (S : Finset ℕ) (hS : n ∉ S) :
    (List.range (n+1)).countP (fun j => decide ((r.push n (j+1)).res.toFinset = S)) =
      (n + 1 - k) * (if r.res.toFinset = S then 1 else 0) := by
  have e : n + 1 = k + (n + 1 - k) := by omega
  rw [e, List.range_add, List.countP_append, List.countP_map]
  have h0 : (List.range k).countP (fun j => decide ((r.push n (j+1)).res.toFinset = S)) = 0 := by
    rw [List.countP_eq_zero]
    intro j hj
    rw [List.mem_range] at hj
    rw [h.push_lo hkn hj, toFinset_set_of_nodup h.nodup (by rw [h.len]; exact hj)]
    simp only [decide_eq_true_eq]
    intro he; exact hS (he ▸ Finset.mem_insert_self _ _)
  rw [h0, Nat.zero_add]
  have h1 : ∀ j ∈ List.range (n + 1 - k),
      ((fun j => decide ((r.push n (j+1)).res.toFinset = S)) ∘ fun x => k + x) j =
        decide (r.res.toFinset = S) := by
    intro j _
    simp only [Function.comp]
    rw [h.push_hi hkn (by omega)]
  rw [List.countP_congr (q := fun _ => decide (r.res.toFinset = S)) (by
    intro j hj; rw [h1 j hj])]
  by_cases hT : r.res.toFinset = S
  · simp [hT]
  · simp [hT]

/-- number of draws at observation `n+1` leading to `S`, when the new position is in `S` -/
theorem Full.count_replace {k n : Nat} {r : Reservoir ℕ} (h : Full k n r) (hkn : k ≤ n)
    (S : Finset ℕ) (hS : n ∈ S) :
    (List.range (n+1)).countP (fun j => decide ((r.push n (j+1)).res.toFinset = S)) =
      ((Finset.range n \ S.erase n).filter
        (fun y => r.res.toFinset = insert y (S.erase n))).card := by
  have e : n + 1 = k + (n + 1 - k) := by omega
  rw [e, List.range_add, List.countP_append, List.countP_map]
  have h0 : (List.range (n + 1 - k)).countP
      ((fun j => decide ((r.push n (j+1)).res.toFinset = S)) ∘ fun x => k + x) = 0 := by
    rw [List.countP_eq_zero]
    intro j _
    simp only [Function.comp, decide_eq_true_eq]
    rw [h.push_hi hkn (by omega)]
    intro he; exact h.not_mem (he ▸ hS)
  rw [h0, Nat.add_zero]
  have h1 : ∀ j ∈ List.range k, decide ((r.push n (j+1)).res.toFinset = S) =
      (fun o : Option ℕ => o.elim false
        (fun y => decide (r.res.toFinset.erase y = S.erase n))) r.res[j]? := by
    intro j hj
    rw [List.mem_range] at hj
    have hj' : j < r.res.length := by rw [h.len]; exact hj
    rw [h.push_lo hkn hj, toFinset_set_of_nodup h.nodup hj', List.getElem?_eq_getElem hj']
    simp only [Option.elim_some]
    congr 1
    apply propext
    constructor
    · intro he
      rw [← he, Finset.erase_insert]
      intro hm; exact h.not_mem (Finset.mem_of_mem_erase hm)
    · intro he
      rw [he, Finset.insert_erase hS]
  rw [List.countP_congr (q := fun j => (fun o : Option ℕ => o.elim false
        (fun y => decide (r.res.toFinset.erase y = S.erase n))) r.res[j]?)
        (fun j hj => by rw [h1 j hj])]
  conv_lhs => rw [← h.len]
  rw [countP_range_getElem? r.res (fun o : Option ℕ => o.elim false
        (fun y => decide (r.res.toFinset.erase y = S.erase n)))]
  simp only [Option.elim_some]
  rw [List.countP_eq_length_filter, ← List.toFinset_card_of_nodup (h.nodup.filter _),
    List.toFinset_filter]
  congr 1
  ext y
  simp only [Finset.mem_filter, List.mem_toFinset, decide_eq_true_eq, Finset.mem_sdiff,
    Finset.mem_range]
  constructor
  · rintro ⟨hy, he⟩
    refine ⟨⟨h.lt y hy, ?_⟩, ?_⟩
    · rw [← he]; simp
    · rw [← he, Finset.insert_erase (by simpa using hy)]
  · rintro ⟨⟨_, hy⟩, he⟩
    refine ⟨?_, ?_⟩
    · have : y ∈ r.res.toFinset := by rw [he]; exact Finset.mem_insert_self _ _
      simpa using this
    · rw [he, Finset.erase_insert hy]

/-! ### counting -/

/-- the set of positions retained after `n` observations with draws `js` -/
def finalSet (k n : Nat) (js : List Nat) : Finset ℕ := (run k (List.range n) js).res.toFinset

/-- number of choice sequences whose final reservoir is `S` -/
def cnt (k n : Nat) (S : Finset ℕ) : Nat :=
  (choiceSeqs k n).countP (fun js => decide (finalSet k n js = S))

theorem cnt_succ {k n : Nat} (hkn : k ≤ n) (S : Finset ℕ) :
    cnt k (n+1) S = ((choiceSeqs k n).map (fun js => (List.range (n+1)).countP
      (fun j => decide (((run k (List.range n) js).push n (j+1)).res.toFinset = S)))).sum := by
  unfold cnt
  rw [choiceSeqs, List.countP_flatMap]
  congr 1
  apply List.map_congr_left
  intro js hjs
  have hl := length_of_mem_choiceSeqs hjs
  simp only [Function.comp, if_neg (by omega : ¬ n + 1 ≤ k)]
  rw [List.countP_map]
  apply List.countP_congr
  intro j _
  have hfs : finalSet k (n+1) (js ++ [j+1]) =
      ((run k (List.range n) js).push n (j+1)).res.toFinset := by
    unfold finalSet
    rw [List.range_succ, run_snoc k _ js n (j+1) (by simp [hl])]
  simp only [Function.comp, decide_eq_true_eq, hfs]

theorem sum_map_mul_ite {α : Type} (l : List α) (c : Nat) (p : α → Prop) [DecidablePred p] :
    (l.map (fun a => c * (if p a then 1 else 0))).sum = c * l.countP (fun a => decide (p a)) := by
  induction l with
  | nil => simp
  | cons a l ih =>
    simp only [List.map_cons, List.sum_cons, ih, List.countP_cons]
    by_cases h : p a <;> simp [h, Nat.mul_add, Nat.add_comm]

theorem sum_map_card_filter {α : Type} (l : List α) (F : Finset ℕ) (q : α → ℕ → Prop)
    [∀ a, DecidablePred (q a)] :
    (l.map (fun a => (F.filter (q a)).card)).sum =
      ∑ y ∈ F, l.countP (fun a => decide (q a y)) := by
  induction l with
  | nil => simp
  | cons a l ih =>
    rw [List.map_cons, List.sum_cons, ih, Finset.card_filter]
    simp only [List.countP_cons, Finset.sum_add_distrib]
    rw [Nat.add_comm]
    congr 1
    apply Finset.sum_congr rfl
    intro y _
    by_cases h : q a y <;> simp [h]

theorem cnt_eq {k n : Nat} (hkn : k ≤ n) (S : Finset ℕ) (hS : S ⊆ Finset.range n)
    (hc : S.card = k) : cnt k n S = (n - k).factorial := by
  induction n, hkn using Nat.le_induction generalizing S with
  | base =>
    have hSk : S = Finset.range k :=
      Finset.eq_of_subset_of_card_le hS (by simp [hc])
    have hf : finalSet k k (List.replicate k 1) = S := by
      rw [finalSet, run_fill k _ _ (by simp) (by simp), hSk]
      ext a; simp
    simp [cnt, choiceSeqs_fill (Nat.le_refl k), hf]
  | succ n hkn ih =>
    rw [cnt_succ hkn]
    have hfac : (n + 1 - k).factorial = (n + 1 - k) * (n - k).factorial := by
      rw [show n + 1 - k = (n - k) + 1 by omega, Nat.factorial_succ]
    by_cases hn : n ∈ S
    · -- the new position is retained
      have hk1 : 1 ≤ k := by rw [← hc]; exact Finset.card_pos.mpr ⟨n, hn⟩
      have hS' : S.erase n ⊆ Finset.range n := by
        intro y hy
        have h1 := hS (Finset.mem_of_mem_erase hy)
        have h2 := Finset.ne_of_mem_erase hy
        simp only [Finset.mem_range] at h1 ⊢; omega
      have hc' : (S.erase n).card = k - 1 := by rw [Finset.card_erase_of_mem hn, hc]
      rw [List.map_congr_left (fun js hjs =>
        (run_full hkn (length_of_mem_choiceSeqs hjs)).count_replace hkn S hn)]
      rw [sum_map_card_filter (choiceSeqs k n) (Finset.range n \ S.erase n)
        (fun js y => (run k (List.range n) js).res.toFinset = insert y (S.erase n))]
      rw [Finset.sum_congr rfl (g := fun _ => (n - k).factorial)]
      · rw [Finset.sum_const, Finset.card_sdiff_of_subset hS', hc', Finset.card_range, hfac,
          smul_eq_mul]
        congr 1; omega
      · intro y hy
        rw [Finset.mem_sdiff, Finset.mem_range] at hy
        refine ih (insert y (S.erase n)) ?_ ?_
        · intro z hz
          rcases Finset.mem_insert.mp hz with rfl | hz
          · simpa using hy.1
          · exact hS' hz
        · rw [Finset.card_insert_of_notMem hy.2, hc']; omega
    · -- the new position is not retained
      have hS' : S ⊆ Finset.range n := by
        intro y hy
        have h1 := hS hy
        have h2 : y ≠ n := fun e => hn (e ▸ hy)
        simp only [Finset.mem_range] at h1 ⊢; omega
      rw [List.map_congr_left (fun js hjs =>
        (run_full hkn (length_of_mem_choiceSeqs hjs)).count_skip hkn S hn)]
      rw [sum_map_mul_ite, hfac]
      congr 1
      exact ih S hS' hc

/-! ### inclusion probability -/

theorem finalSet_mem_powersetCard {k n : Nat} {js : List Nat} (hkn : k ≤ n)
    (hjs : js.length = n) : finalSet k n js ∈ (Finset.range n).powersetCard k := by
  have h := run_full hkn hjs
  rw [Finset.mem_powersetCard, finalSet, List.toFinset_card_of_nodup h.nodup, h.len]
  refine ⟨fun y hy => ?_, rfl⟩
  rw [List.mem_toFinset] at hy
  exact Finset.mem_range.mpr (h.lt y hy)

theorem countP_fiber {α β : Type} [DecidableEq β] (l : List α) (f : α → β) (P : Finset β)
    (hf : ∀ a ∈ l, f a ∈ P) (p : β → Prop) [DecidablePred p] :
    l.countP (fun a => decide (p (f a))) =
      ∑ S ∈ P.filter p, l.countP (fun a => decide (f a = S)) := by
  induction l with
  | nil => simp
  | cons a l ih =>
    simp only [List.countP_cons, Finset.sum_add_distrib]
    rw [ih (fun b hb => hf b (List.mem_cons_of_mem _ hb))]
    congr 1
    simp only [decide_eq_true_eq]
    rw [Finset.sum_ite_eq]
    have : f a ∈ P.filter p ↔ p (f a) := by
      rw [Finset.mem_filter]; exact ⟨fun h => h.2, fun h => ⟨hf a (List.mem_cons_self), h⟩⟩
    by_cases h : p (f a) <;> simp [this, h]

theorem incl_count {k n i : Nat} (hkn : k ≤ n) (hi : i < n) :
    (choiceSeqs k n).countP (fun js => decide (i ∈ finalSet k n js)) * n =
      k * (choiceSeqs k n).length := by
  have h1 := countP_fiber (choiceSeqs k n) (finalSet k n) ((Finset.range n).powersetCard k)
    (fun js hjs => finalSet_mem_powersetCard hkn (length_of_mem_choiceSeqs hjs)) (fun S => i ∈ S)
  rw [h1]
  rw [Finset.sum_congr rfl (g := fun _ => (n - k).factorial) (fun S hS => by
    rw [Finset.mem_filter, Finset.mem_powersetCard] at hS
    exact cnt_eq hkn S hS.1.1 hS.1.2)]
  rw [Finset.sum_const, smul_eq_mul]
  apply Nat.eq_of_mul_eq_mul_right (Nat.factorial_pos k)
  rw [Nat.mul_assoc k, choiceSeqs_total hkn]
  have hfil : ((Finset.range n).powersetCard k).filter (fun S => i ∈ S) =
      ((Finset.range n).powersetCard k).filter (fun S => {i} ⊆ S) := by
    apply Finset.filter_congr; intro S _; exact Finset.singleton_subset_iff.symm
  rw [hfil]
  cases k with
  | zero =>
    have : ((Finset.range n).powersetCard 0).filter (fun S => {i} ⊆ S) = ∅ := by
      simp
    rw [this]; simp
  | succ k' =>
    obtain ⟨m, rfl⟩ : ∃ m, n = m + 1 := ⟨n - 1, by omega⟩
    rw [Finset.card_filter_powersetCard_subset {i} (Finset.range (m+1)) (k'+1)
      (by simpa using hi) (by simp)]
    simp only [Finset.card_range, Finset.card_singleton, Nat.add_sub_cancel]
    have hmk : k' ≤ m := by omega
    have hc := Nat.choose_mul_factorial_mul_factorial hmk
    rw [show m + 1 - (k' + 1) = m - k' by omega, Nat.factorial_succ m, Nat.factorial_succ k', ← hc]
    ring

end Reservoir
end Gpv
