/-
  Gpv.Proofs.StageInv — several streams of ONE stage (`Gpv.Model.Stage`): the state of a stream
  without the two counters (`PS.core`), `step?` commutes with changing the counters, and the
  simulation `Sim` between a stage and the list of its streams run alone from `PS.init 0 0`.
-/
import Gpv.Model.Stage
import Gpv.Proofs.PipelineRun

namespace Gpv.Pipe
variable {α β ε : Type}

/-! ### the state of a stream without the counters -/

structure Core (β ε : Type) where
  pc : PC
  drawn : Nat
  taken : Nat
  cache : List (Nat × TStat)
  out : List (Obs β ε)
  pool : PoolSt
  pending : Option ε

def PS.core (s : PS β ε) : Core β ε := ⟨s.pc, s.drawn, s.taken, s.cache, s.out, s.pool, s.pending⟩

/-- the same stream with other counters -/
def PS.withCounters (p y : Nat) (s : PS β ε) : PS β ε := { s with processed := p, yielded := y }

@[simp] theorem PS.core_withCounters (p y : Nat) (s : PS β ε) : (s.withCounters p y).core = s.core := rfl
@[simp] theorem PS.core_shift (p y : Nat) (s : PS β ε) : (s.shift p y).core = s.core := rfl

theorem PS.eq_of_core {s t : PS β ε} (h : s.core = t.core) :
    s = t.withCounters s.processed s.yielded := by
  cases s; cases t
  simp only [PS.core, Core.mk.injEq] at h
  obtain ⟨h1, h2, h3, h4, h5, h6, h7⟩ := h
  subst h1 h2 h3 h4 h5 h6 h7
  rfl

theorem PS.withCounters_eq_shift (p y : Nat) (s : PS β ε) :
    s.withCounters p y = (s.withCounters 0 0).shift p y := rfl

/-- a step with counters `(p, y)` is the step with counters `(0, 0)`, shifted by `(p, y)` -/
theorem step?_withCounters (c : Cfg) (xs : List α) (tail : Option ε) (f : α → Outcome β ε) (p y : Nat)
    (s : PS β ε) (l : Label ε) :
    step? c xs tail f (s.withCounters p y) l
      = (step? c xs tail f (s.withCounters 0 0) l).map (PS.shift p y) := by
  rw [PS.withCounters_eq_shift, step?_shift]

/-- `step?` commutes with changing the counters -/
theorem step?_core (c : Cfg) (xs : List α) (tail : Option ε) (f : α → Outcome β ε) (s : PS β ε) (l : Label ε)
    (p y p' y' : Nat) {s1 : PS β ε}
    (h : step? c xs tail f { s with processed := p, yielded := y } l = some s1) :
    ∃ s2, step? c xs tail f { s with processed := p', yielded := y' } l = some s2 ∧
      s2.core = s1.core ∧ s2.processed - p' = s1.processed - p ∧ s2.yielded - y' = s1.yielded - y ∧
      p ≤ s1.processed ∧ y ≤ s1.yielded ∧ p' ≤ s2.processed ∧ y' ≤ s2.yielded := by
  have h1 := step?_withCounters c xs tail f p y s l
  have h2 := step?_withCounters c xs tail f p' y' s l
  change step? c xs tail f (s.withCounters p y) l = some s1 at h
  rw [h1] at h
  cases h0 : step? c xs tail f (s.withCounters 0 0) l with
  | none => rw [h0] at h; cases h
  | some s0 =>
    rw [h0] at h h2
    cases h
    refine ⟨s0.shift p' y', h2, rfl, ?_, ?_, ?_, ?_, ?_, ?_⟩ <;> simp [PS.shift]

/-- enabledness and the resulting core depend on the core only -/
theorem step?_core_eq (c : Cfg) (xs : List α) (tail : Option ε) (f : α → Outcome β ε) {s t : PS β ε}
    (hc : s.core = t.core) (l : Label ε) :
    (step? c xs tail f s l).map PS.core = (step? c xs tail f t l).map PS.core := by
  rw [PS.eq_of_core hc, step?_withCounters]
  have : t = t.withCounters t.processed t.yielded := rfl
  conv => rhs; rw [this, step?_withCounters]
  cases step? c xs tail f (t.withCounters 0 0) l <;> simp

theorem step?_isSome_core (c : Cfg) (xs : List α) (tail : Option ε) (f : α → Outcome β ε) {s t : PS β ε}
    (hc : s.core = t.core) (l : Label ε) :
    (step? c xs tail f s l).isSome = (step? c xs tail f t l).isSome := by
  have := congrArg Option.isSome (step?_core_eq c xs tail f hc l)
  simpa using this

/-! ### the simulation -/

/-- `ss` are the streams run alone with counters started at `(0, 0)` -/
structure Sim (p0 y0 : Nat) (st : Stage β ε) (ss : List (PS β ε)) : Prop where
  cores : st.streams.map PS.core = ss.map PS.core
  proc : st.processed = p0 + (ss.map fun s => s.processed).sum
  yld : st.yielded = y0 + (ss.map fun s => s.yielded).sum

theorem Sim.init (p0 y0 : Nat) : Sim p0 y0 (Stage.init p0 y0 : Stage β ε) [] := ⟨rfl, rfl, rfl⟩

theorem Sim.length {p0 y0 : Nat} {st : Stage β ε} {ss : List (PS β ε)} (h : Sim p0 y0 st ss) :
    st.streams.length = ss.length := by
  have := congrArg List.length h.cores
  simpa using this

theorem Sim.core_at {p0 y0 : Nat} {st : Stage β ε} {ss : List (PS β ε)} (h : Sim p0 y0 st ss)
    {i : Nat} {s : PS β ε} (hs : st.streams[i]? = some s) : ∃ t, ss[i]? = some t ∧ s.core = t.core := by
  have h1 : (st.streams.map PS.core)[i]? = some s.core := by simp [hs]
  rw [h.cores] at h1
  simp only [List.getElem?_map, Option.map_eq_some_iff] at h1
  obtain ⟨t, ht, hc⟩ := h1
  exact ⟨t, ht, hc.symm⟩

theorem Sim.create {p0 y0 : Nat} {st : Stage β ε} {ss : List (PS β ε)} (h : Sim p0 y0 st ss) :
    Sim p0 y0 st.create (ss ++ [PS.init 0 0]) := by
  refine ⟨?_, ?_, ?_⟩
  · simp only [Stage.create, List.map_append, h.cores]; rfl
  · simp [Stage.create, h.proc, PS.init]
  · simp [Stage.create, h.yld, PS.init]

theorem sum_map_set (ss : List (PS β ε)) (i : Nat) (t t' : PS β ε) (φ : PS β ε → Nat) (k : Nat)
    (ht : ss[i]? = some t) (hφ : φ t' = φ t + k) :
    ((ss.set i t').map φ).sum = (ss.map φ).sum + k := by
  induction ss generalizing i with
  | nil => simp at ht
  | cons a r ih =>
    cases i with
    | zero =>
      simp only [List.getElem?_cons_zero, Option.some.injEq] at ht
      subst ht
      simp only [List.set_cons_zero, List.map_cons, List.sum_cons, hφ]; omega
    | succ i =>
      simp only [List.getElem?_cons_succ] at ht
      simp only [List.set_cons_succ, List.map_cons, List.sum_cons, ih i ht]; omega

/-- one step of stream `i` in the stage is the same step of stream `i` alone -/
theorem Sim.step {c : Cfg} {srcs : List (List α × Option ε)} {f : α → Outcome β ε} {p0 y0 : Nat}
    {st st' : Stage β ε} {ss : List (PS β ε)} (h : Sim p0 y0 st ss) {i : Nat} {l : Label ε}
    (hs : Stage.step c srcs f st i l = some st') :
    ∃ src t t', srcs[i]? = some src ∧ ss[i]? = some t ∧ step? c src.1 src.2 f t l = some t' ∧
      Sim p0 y0 st' (ss.set i t') := by
  unfold Stage.step at hs
  cases hsi : st.streams[i]? with
  | none => simp [hsi] at hs
  | some s =>
    cases hsrc : srcs[i]? with
    | none => simp [hsi, hsrc] at hs
    | some src =>
      simp only [hsi, hsrc] at hs
      obtain ⟨t, ht, hc⟩ := h.core_at hsi
      -- the stored stream, with the stage's counters, is the solo stream with those counters
      have e : ({ s with processed := st.processed, yielded := st.yielded } : PS β ε)
          = t.withCounters st.processed st.yielded := by
        rw [PS.eq_of_core hc]; rfl
      rw [e, step?_withCounters] at hs
      -- the solo step
      have hsolo : step? c src.1 src.2 f t l
          = (step? c src.1 src.2 f (t.withCounters 0 0) l).map (PS.shift t.processed t.yielded) := by
        have : t = t.withCounters t.processed t.yielded := rfl
        conv => lhs; rw [this, step?_withCounters]
      cases h0 : step? c src.1 src.2 f (t.withCounters 0 0) l with
      | none => rw [h0] at hs; cases hs
      | some u =>
        rw [h0] at hs hsolo
        simp only [Option.map_some, Option.some.injEq] at hs hsolo
        subst hs
        refine ⟨src, t, u.shift t.processed t.yielded, rfl, ht, hsolo, ?_, ?_, ?_⟩
        · simp only [List.map_set, h.cores]; rfl
        · have := sum_map_set ss i t (u.shift t.processed t.yielded) (fun s => s.processed) u.processed ht
            (by simp [PS.shift])
          rw [this, ← Nat.add_assoc, ← h.proc]; rfl
        · have := sum_map_set ss i t (u.shift t.processed t.yielded) (fun s => s.yielded) u.yielded ht
            (by simp [PS.shift])
          rw [this, ← Nat.add_assoc, ← h.yld]; rfl

/-- a step of stream `j` leaves every other stream of the stage alone -/
theorem Stage.step_other {c : Cfg} {srcs : List (List α × Option ε)} {f : α → Outcome β ε}
    {st st' : Stage β ε} {i j : Nat} {l : Label ε} (hs : Stage.step c srcs f st j l = some st')
    (hij : i ≠ j) : st'.streams[i]? = st.streams[i]? := by
  unfold Stage.step at hs
  cases hsj : st.streams[j]? with
  | none => simp [hsj] at hs
  | some s =>
    cases hsrc : srcs[j]? with
    | none => simp [hsj, hsrc] at hs
    | some src =>
      simp only [hsj, hsrc] at hs
      cases h0 : step? c src.1 src.2 f { s with processed := st.processed, yielded := st.yielded } l with
      | none => rw [h0] at hs; cases hs
      | some u =>
        rw [h0] at hs
        simp only [Option.map_some, Option.some.injEq] at hs
        subst hs
        simp [List.getElem?_set_ne (Ne.symm hij)]

theorem getD_append_init (ss : List (PS β ε)) (i : Nat) :
    ((ss ++ [PS.init 0 0])[i]?).getD (PS.init 0 0) = (ss[i]?).getD (PS.init 0 0) := by
  rcases Nat.lt_trichotomy i ss.length with h | h | h
  · rw [List.getElem?_append_left h]
  · subst h; simp
  · rw [List.getElem?_eq_none (by simp; omega), List.getElem?_eq_none (by omega)]

/-- the whole history: every stream's labels, run alone, lead to its solo state -/
theorem Sim.run {c : Cfg} {srcs : List (List α × Option ε)} {f : α → Outcome β ε} {p0 y0 : Nat}
    (ops : List (StageOp ε)) : ∀ {st st' : Stage β ε} {ss : List (PS β ε)}, Sim p0 y0 st ss →
    Stage.run c srcs f st ops = some st' →
    ∃ ss', Sim p0 y0 st' ss' ∧
      (∀ i src, srcs[i]? = some src →
        runLabels c src.1 src.2 f ((ss[i]?).getD (PS.init 0 0)) (opsOf i ops)
          = some ((ss'[i]?).getD (PS.init 0 0))) ∧
      (∀ i : Nat, srcs[i]? = none → (ss'[i]?).getD (PS.init 0 0) = (ss[i]?).getD (PS.init 0 0)) := by
  induction ops with
  | nil =>
    intro st st' ss h hr
    cases hr
    exact ⟨ss, h, fun i src _ => rfl, fun i _ => rfl⟩
  | cons op ops ih =>
    intro st st' ss h hr
    cases op with
    | create =>
      simp only [Stage.run] at hr
      obtain ⟨ss', h', hrun, hnone⟩ := ih h.create hr
      refine ⟨ss', h', ?_, ?_⟩
      · intro i src hsrc
        have := hrun i src hsrc
        rw [getD_append_init] at this
        exact this
      · intro i hi
        rw [hnone i hi, getD_append_init]
    | act j l =>
      simp only [Stage.run] at hr
      cases h1 : Stage.step c srcs f st j l with
      | none => rw [h1] at hr; cases hr
      | some st1 =>
        rw [h1] at hr
        simp only [Option.bind_some] at hr
        obtain ⟨srcj, t, t', hsrcj, ht, hstep, hsim⟩ := h.step h1
        obtain ⟨ss', h', hrun, hnone⟩ := ih hsim hr
        have hjlt : j < ss.length := by
          rcases Nat.lt_or_ge j ss.length with h' | h'
          · exact h'
          · rw [List.getElem?_eq_none h'] at ht; cases ht
        refine ⟨ss', h', ?_, ?_⟩
        · intro i src hsrc
          have := hrun i src hsrc
          by_cases hij : j = i
          · subst hij
            rw [hsrcj] at hsrc; cases hsrc
            simp only [opsOf, if_true, runLabels, ht, Option.getD_some, hstep, Option.bind_some]
            rw [List.getElem?_set_self hjlt] at this
            exact this
          · simp only [opsOf, if_neg hij]
            rw [List.getElem?_set_ne hij] at this
            exact this
        · intro i hi
          have hij : j ≠ i := by intro e; subst e; rw [hsrcj] at hi; cases hi
          rw [hnone i hi, List.getElem?_set_ne hij]

end Gpv.Pipe
