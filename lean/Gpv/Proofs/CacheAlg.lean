/-
  Gpv.Proofs.CacheAlg — algebra behind C16 (CacheAccumulator / CacheMaximum).

  * `takeLast` calculus, a generic "the last `L` of a merge only depend on the last `L` of
    each input" lemma for core's `List.merge`, and `mergeByTime = List.merge …`;
  * `CacheAcc.run`, `CacheMax.run` (`List.foldl` of the executable one-observation updates of
    `Gpv.Model.Cache`) with their invariants;
  * key-level algebra of "the `L` largest" (`topK`).
-/
import Gpv.Model.Cache

namespace Gpv
open List

/-! ### `takeLast` -/
section TakeLast
variable {α : Type}

theorem length_takeLast (k : Nat) (l : List α) : (takeLast k l).length = min l.length k := by
  simp only [takeLast, length_drop]; omega

theorem takeLast_of_length_le {k : Nat} {l : List α} (h : l.length ≤ k) : takeLast k l = l := by
  simp only [takeLast]; rw [Nat.sub_eq_zero_of_le h]; rfl

theorem takeLast_min (k : Nat) (l : List α) : takeLast (min l.length k) l = takeLast k l := by
  rcases Nat.le_total l.length k with h | h
  · rw [Nat.min_eq_left h, takeLast_of_length_le h, takeLast_of_length_le (Nat.le_refl _)]
  · rw [Nat.min_eq_right h]

theorem takeLast_append_of_le {k : Nat} (p m : List α) (h : k ≤ m.length) :
    takeLast k (p ++ m) = takeLast k m := by
  simp only [takeLast, length_append, drop_append]
  have h1 : p.length + m.length - k - p.length = m.length - k := by omega
  rw [h1, drop_eq_nil_of_le (by omega), nil_append]

/-- a bounded deque: appending to the truncated content = truncating the appended content -/
theorem takeLast_takeLast_append (k : Nat) (l r : List α) :
    takeLast k (takeLast k l ++ r) = takeLast k (l ++ r) := by
  rcases Nat.le_total l.length k with h | h
  · rw [takeLast_of_length_le h]
  · have hl : l ++ r = take (l.length - k) l ++ (takeLast k l ++ r) := by
      rw [← append_assoc]; simp [takeLast]
    rw [hl, takeLast_append_of_le (take (l.length - k) l)]
    rw [length_append, length_takeLast]; omega

theorem takeLast_map {β : Type} (f : α → β) (k : Nat) (l : List α) :
    takeLast k (l.map f) = (takeLast k l).map f := by
  simp [takeLast, map_drop]

theorem takeLast_sublist (k : Nat) (l : List α) : (takeLast k l).Sublist l := drop_sublist _ _

theorem take_reverse_eq_takeLast (k : Nat) (l : List α) :
    l.reverse.take k = (takeLast k l).reverse := by
  rw [take_reverse]; rfl

end TakeLast

/-! ### the last `L` elements of a merge of two sorted lists -/
section Merge
variable {α : Type} (le : α → α → Bool)

private theorem merge_split_left
    (trans : ∀ a b c : α, le a b → le b c → le a c)
    (x : α) (xs : List α) (hx : ∀ z ∈ xs, le x z) (ys : List α) :
    ∃ pre M, merge (x :: xs) ys le = pre ++ x :: M ∧ merge xs ys le = pre ++ M ∧
      xs.length ≤ M.length := by
  induction ys with
  | nil => exact ⟨[], xs, by simp, by simp, Nat.le_refl _⟩
  | cons y ys ih =>
    by_cases hxy : le x y = true
    · exact ⟨[], merge xs (y :: ys) le, by simp [hxy], by simp, by simp⟩
    · obtain ⟨pre, M, h1, h2, h3⟩ := ih
      refine ⟨y :: pre, M, ?_, ?_, h3⟩
      · rw [cons_merge_cons_neg le _ _ hxy, h1]; rfl
      · cases xs with
        | nil => simp only [nil_merge] at h2 ⊢; rw [h2]; rfl
        | cons x2 xs2 =>
          have hn : ¬ le x2 y = true := fun h => hxy (trans _ _ _ (hx x2 mem_cons_self) h)
          rw [cons_merge_cons_neg le _ _ hn, h2]; rfl

private theorem merge_split_right
    (trans : ∀ a b c : α, le a b → le b c → le a c)
    (y : α) (ys : List α) (hy : ∀ z ∈ ys, le y z) (xs : List α) :
    ∃ pre M, merge xs (y :: ys) le = pre ++ y :: M ∧ merge xs ys le = pre ++ M ∧
      ys.length ≤ M.length := by
  induction xs with
  | nil => exact ⟨[], ys, by simp, by simp, Nat.le_refl _⟩
  | cons x xs ih =>
    by_cases hxy : le x y = true
    · obtain ⟨pre, M, h1, h2, h3⟩ := ih
      refine ⟨x :: pre, M, ?_, ?_, h3⟩
      · rw [cons_merge_cons_pos le _ _ hxy, h1]; rfl
      · cases ys with
        | nil => simp only [merge_right] at h2 ⊢; rw [h2]; rfl
        | cons y2 ys2 =>
          have hp : le x y2 = true := trans _ _ _ hxy (hy y2 mem_cons_self)
          rw [cons_merge_cons_pos le _ _ hp, h2]; rfl
    · exact ⟨[], merge (x :: xs) ys le, by simp [hxy], by simp, by simp⟩

theorem takeLast_merge_drop_left
    (trans : ∀ a b c : α, le a b → le b c → le a c)
    (L : Nat) (ys : List α) : ∀ (k : Nat) (xs : List α), xs.Pairwise (fun a b => le a b) →
      L ≤ (xs.drop k).length →
      takeLast L (merge (xs.drop k) ys le) = takeLast L (merge xs ys le)
  | 0, xs, _, _ => by simp
  | k + 1, [], _, _ => by simp
  | k + 1, x :: xs, hs, hL => by
    rw [drop_succ_cons] at hL ⊢
    rw [takeLast_merge_drop_left trans L ys k xs hs.tail hL]
    obtain ⟨pre, M, h1, h2, h3⟩ :=
      merge_split_left le trans x xs (fun z hz => rel_of_pairwise_cons hs hz) ys
    have hM : L ≤ M.length := by
      have : (drop k xs).length ≤ xs.length := by simp only [length_drop]; omega
      omega
    rw [h1, h2, takeLast_append_of_le _ _ hM,
      show pre ++ x :: M = (pre ++ [x]) ++ M by simp, takeLast_append_of_le _ _ hM]

theorem takeLast_merge_drop_right
    (trans : ∀ a b c : α, le a b → le b c → le a c)
    (L : Nat) (xs : List α) : ∀ (k : Nat) (ys : List α), ys.Pairwise (fun a b => le a b) →
      L ≤ (ys.drop k).length →
      takeLast L (merge xs (ys.drop k) le) = takeLast L (merge xs ys le)
  | 0, ys, _, _ => by simp
  | k + 1, [], _, _ => by simp
  | k + 1, y :: ys, hs, hL => by
    rw [drop_succ_cons] at hL ⊢
    rw [takeLast_merge_drop_right trans L xs k ys hs.tail hL]
    obtain ⟨pre, M, h1, h2, h3⟩ :=
      merge_split_right le trans y ys (fun z hz => rel_of_pairwise_cons hs hz) xs
    have hM : L ≤ M.length := by
      have : (drop k ys).length ≤ ys.length := by simp only [length_drop]; omega
      omega
    rw [h1, h2, takeLast_append_of_le _ _ hM,
      show pre ++ y :: M = (pre ++ [y]) ++ M by simp, takeLast_append_of_le _ _ hM]

/-- **key lemma**: the last `L` elements of the merge of two sorted lists only depend on the
    last `L` elements of each of them -/
theorem takeLast_merge_takeLast
    (trans : ∀ a b c : α, le a b → le b c → le a c)
    (L : Nat) (xs ys : List α) (hx : xs.Pairwise (fun a b => le a b))
    (hy : ys.Pairwise (fun a b => le a b)) :
    takeLast L (merge (takeLast L xs) (takeLast L ys) le) = takeLast L (merge xs ys le) := by
  have e1 : takeLast L (merge (takeLast L xs) (takeLast L ys) le)
      = takeLast L (merge xs (takeLast L ys) le) := by
    rcases Nat.le_total xs.length L with h | h
    · rw [takeLast_of_length_le h]
    · exact takeLast_merge_drop_left le trans L _ _ xs hx (by simp only [length_drop]; omega)
  have e2 : takeLast L (merge xs (takeLast L ys) le) = takeLast L (merge xs ys le) := by
    rcases Nat.le_total ys.length L with h | h
    · rw [takeLast_of_length_le h]
    · exact takeLast_merge_drop_right le trans L xs _ ys hy (by simp only [length_drop]; omega)
  rw [e1, e2]

end Merge

/-! ### `mergeByTime` is core's stable `List.merge` on the time stamp -/
section MergeByTime
variable {α : Type}

/-- "time stamps are non-decreasing" -/
abbrev TimeSorted (l : List (Nat × α)) : Prop := l.Pairwise (fun a b => a.1 ≤ b.1)

def timeLe (p q : Nat × α) : Bool := decide (p.1 ≤ q.1)

theorem timeLe_trans (a b c : Nat × α) : timeLe a b → timeLe b c → timeLe a c := by
  simp only [timeLe, decide_eq_true_eq]; omega

theorem timeLe_total (a b : Nat × α) : timeLe a b || timeLe b a := by
  simp only [timeLe, Bool.or_eq_true, decide_eq_true_eq]; omega

theorem timeSorted_iff (l : List (Nat × α)) :
    TimeSorted l ↔ l.Pairwise (fun a b => timeLe a b = true) := by
  simp [TimeSorted, timeLe]

theorem mergeByTime_eq_merge (as bs : List (Nat × α)) :
    mergeByTime as bs = merge as bs timeLe := by
  fun_induction mergeByTime as bs <;> simp_all [timeLe]

theorem mergeByTime_perm (as bs : List (Nat × α)) : mergeByTime as bs ~ as ++ bs := by
  rw [mergeByTime_eq_merge]; exact merge_perm_append _

theorem mergeByTime_timeSorted (as bs : List (Nat × α)) (ha : TimeSorted as) (hb : TimeSorted bs) :
    TimeSorted (mergeByTime as bs) := by
  rw [mergeByTime_eq_merge, timeSorted_iff]
  exact pairwise_merge timeLe_trans timeLe_total as bs
    ((timeSorted_iff as).1 ha) ((timeSorted_iff bs).1 hb)

theorem mergeByTime_sublist_left (as bs : List (Nat × α)) : as.Sublist (mergeByTime as bs) := by
  fun_induction mergeByTime as bs with
  | case1 ys => simp
  | case2 xs => simp
  | case3 x xs y ys h ih => exact ih.cons _
  | case4 x xs y ys h ih => exact ih.cons_cons _

theorem mergeByTime_sublist_right (as bs : List (Nat × α)) : bs.Sublist (mergeByTime as bs) := by
  fun_induction mergeByTime as bs with
  | case1 ys => simp
  | case2 xs => simp
  | case3 x xs y ys h ih => exact ih.cons_cons _
  | case4 x xs y ys h ih => exact ih.cons _

/-- stability: among equal time stamps the receiver's elements come first, each side in its
    original order -/
theorem mergeByTime_stable (as bs : List (Nat × α)) (ha : TimeSorted as) (t : Nat) :
    (mergeByTime as bs).filter (fun p => p.1 = t)
      = as.filter (fun p => p.1 = t) ++ bs.filter (fun p => p.1 = t) := by
  fun_induction mergeByTime as bs with
  | case1 ys => simp
  | case2 xs => simp
  | case3 x xs y ys h ih =>
    rw [filter_cons, ih ha]
    by_cases hy : y.1 = t
    · have hnil : (x :: xs).filter (fun p => decide (p.1 = t)) = [] := by
        rw [filter_eq_nil_iff]
        intro z hz
        have : x.1 ≤ z.1 := by
          rcases mem_cons.1 hz with rfl | hz
          · exact Nat.le_refl _
          · exact rel_of_pairwise_cons ha hz
        simp only [decide_eq_true_eq]; omega
      simp [hy, hnil]
    · simp [hy]
  | case4 x xs y ys h ih =>
    rw [filter_cons, ih ha.tail]
    by_cases hx : x.1 = t <;> simp [hx]

theorem takeLast_mergeByTime_takeLast (L : Nat) (as bs : List (Nat × α))
    (ha : TimeSorted as) (hb : TimeSorted bs) :
    takeLast L (mergeByTime (takeLast L as) (takeLast L bs)) = takeLast L (mergeByTime as bs) := by
  simp only [mergeByTime_eq_merge]
  exact takeLast_merge_takeLast timeLe timeLe_trans L as bs
    ((timeSorted_iff as).1 ha) ((timeSorted_iff bs).1 hb)

end MergeByTime

/-! ### `CacheAcc.run` -/
section CacheAcc
variable {α : Type}

/-- feed a list of `(time stamp, object)` pairs into an empty cache of length `L` -/
def CacheAcc.run (L : Nat) (ps : List (Nat × α)) : CacheAcc α :=
  ps.foldl (fun s p => s.push p.1 p.2) (CacheAcc.init L)

theorem CacheAcc.foldl_push (ps : List (Nat × α)) : ∀ (s : CacheAcc α), s.items.length ≤ s.length →
    let r := ps.foldl (fun s p => s.push p.1 p.2) s
    r.length = s.length ∧ r.n = s.n + ps.length ∧ r.items = takeLast s.length (s.items ++ ps) := by
  induction ps with
  | nil => intro s hs; simp [takeLast_of_length_le hs]
  | cons p ps ih =>
    intro s hs
    have h := ih (s.push p.1 p.2) (by simp only [CacheAcc.push, length_takeLast]; omega)
    simp only [foldl_cons, length_cons]
    refine ⟨h.1, by rw [h.2.1]; simp only [CacheAcc.push]; omega, ?_⟩
    rw [h.2.2]
    simp only [CacheAcc.push, takeLast_takeLast_append, append_assoc, singleton_append]

theorem CacheAcc.run_spec (L : Nat) (ps : List (Nat × α)) :
    (CacheAcc.run L ps).length = L ∧ (CacheAcc.run L ps).n = ps.length ∧
      (CacheAcc.run L ps).items = takeLast L ps := by
  have := CacheAcc.foldl_push ps (CacheAcc.init L) (by simp [CacheAcc.init])
  simpa [CacheAcc.run, CacheAcc.init] using this

end CacheAcc

/-! ### the `(key, time)` order of heap entries -/
section Entry
variable {α : Type}

theorem CMEntry.lt_iff (a b : CMEntry α) :
    a.lt b = true ↔ a.key < b.key ∨ (a.key = b.key ∧ a.time < b.time) := by
  simp [CMEntry.lt]

theorem CMEntry.not_lt_iff (a b : CMEntry α) :
    ¬ a.lt b = true ↔ b.key < a.key ∨ (b.key = a.key ∧ b.time ≤ a.time) := by
  rw [CMEntry.lt_iff]; omega

theorem CMEntry.key_le_of_not_lt {a b : CMEntry α} (h : ¬ a.lt b = true) : b.key ≤ a.key := by
  rw [CMEntry.not_lt_iff] at h; omega

theorem argMin_eq_none {l : List (CMEntry α)} : argMin l = none ↔ l = [] := by
  cases l with
  | nil => simp [argMin]
  | cons e es =>
    simp only [argMin]
    cases argMin es with
    | none => simp
    | some m => by_cases h : m.lt e = true <;> simp [h]

theorem argMin_mem {l : List (CMEntry α)} {m : CMEntry α} (h : argMin l = some m) : m ∈ l := by
  induction l generalizing m with
  | nil => simp [argMin] at h
  | cons e es ih =>
    simp only [argMin] at h
    cases h' : argMin es with
    | none => rw [h'] at h; simp at h; simp [h]
    | some m' =>
      rw [h'] at h
      by_cases hl : m'.lt e = true
      · simp [hl] at h; subst h; exact mem_cons_of_mem _ (ih h')
      · simp [hl] at h; simp [h]

/-- `argMin` is a minimum of the `(key, time)` order -/
theorem argMin_le {l : List (CMEntry α)} {m : CMEntry α} (h : argMin l = some m) :
    ∀ x ∈ l, ¬ x.lt m = true := by
  induction l generalizing m with
  | nil => simp [argMin] at h
  | cons e es ih =>
    simp only [argMin] at h
    cases h' : argMin es with
    | none =>
      rw [h'] at h; simp at h; subst h
      have : es = [] := argMin_eq_none.1 h'
      subst this
      intro x hx; simp at hx; subst hx
      rw [CMEntry.not_lt_iff]; omega
    | some m' =>
      rw [h'] at h
      have ih' := ih h'
      by_cases hl : m'.lt e = true
      · simp [hl] at h; subst h
        intro x hx
        rcases mem_cons.1 hx with rfl | hx
        · rw [CMEntry.lt_iff] at hl; rw [CMEntry.not_lt_iff]; omega
        · exact ih' x hx
      · simp [hl] at h; subst h
        intro x hx
        rcases mem_cons.1 hx with rfl | hx
        · rw [CMEntry.not_lt_iff]; omega
        · have := ih' x hx
          rw [CMEntry.not_lt_iff] at this hl ⊢; omega

theorem exists_argMin_of_ne_nil {l : List (CMEntry α)} (h : l ≠ []) : ∃ m, argMin l = some m := by
  cases h' : argMin l with
  | none => exact absurd (argMin_eq_none.1 h') h
  | some m => exact ⟨m, rfl⟩

/-! ### the insertion sorts -/

theorem insertByTimeDesc_perm (e : CMEntry α) (l : List (CMEntry α)) :
    insertByTimeDesc e l ~ e :: l := by
  induction l with
  | nil => simp [insertByTimeDesc]
  | cons x xs ih =>
    simp only [insertByTimeDesc]
    split
    · exact Perm.refl _
    · exact (ih.cons x).trans (Perm.swap e x xs)

theorem sortByTimeDesc_perm (l : List (CMEntry α)) : sortByTimeDesc l ~ l := by
  induction l with
  | nil => simp [sortByTimeDesc]
  | cons x xs ih =>
    simp only [sortByTimeDesc, foldr_cons] at ih ⊢
    exact (insertByTimeDesc_perm x _).trans (ih.cons x)

theorem insertByKeyDesc_perm (e : CMEntry α) (l : List (CMEntry α)) :
    insertByKeyDesc e l ~ e :: l := by
  induction l with
  | nil => simp [insertByKeyDesc]
  | cons x xs ih =>
    simp only [insertByKeyDesc]
    split
    · exact Perm.refl _
    · exact (ih.cons x).trans (Perm.swap e x xs)

theorem sortByKeyDesc_perm (l : List (CMEntry α)) : sortByKeyDesc l ~ l := by
  induction l with
  | nil => simp [sortByKeyDesc]
  | cons x xs ih =>
    simp only [sortByKeyDesc, foldr_cons] at ih ⊢
    exact (insertByKeyDesc_perm x _).trans (ih.cons x)

theorem insertByKeyDesc_sorted (e : CMEntry α) (l : List (CMEntry α))
    (h : l.Pairwise (fun a b => b.key ≤ a.key)) :
    (insertByKeyDesc e l).Pairwise (fun a b => b.key ≤ a.key) := by
  induction l with
  | nil => simp [insertByKeyDesc]
  | cons x xs ih =>
    simp only [insertByKeyDesc]
    split
    · rename_i hlt
      refine Pairwise.cons ?_ h
      intro z hz
      rcases mem_cons.1 hz with rfl | hz
      · omega
      · have := rel_of_pairwise_cons h hz; omega
    · rename_i hlt
      refine Pairwise.cons ?_ (ih h.tail)
      intro z hz
      rcases mem_cons.1 ((insertByKeyDesc_perm e xs).subset hz) with rfl | hz
      · omega
      · exact rel_of_pairwise_cons h hz

theorem sortByKeyDesc_sorted (l : List (CMEntry α)) :
    (sortByKeyDesc l).Pairwise (fun a b => b.key ≤ a.key) := by
  induction l with
  | nil => simp [sortByKeyDesc]
  | cons x xs ih =>
    simp only [sortByKeyDesc, foldr_cons] at ih ⊢
    exact insertByKeyDesc_sorted x _ ih

/-! ### `popMin` -/
variable [DecidableEq α]

theorem popMin_of_argMin {l : List (CMEntry α)} {m : CMEntry α} (h : argMin l = some m) :
    popMin l = l.erase m := by simp [popMin, h]

theorem popMin_subset (l : List (CMEntry α)) : ∀ x ∈ popMin l, x ∈ l := by
  intro x hx
  unfold popMin at hx
  split at hx
  · exact hx
  · exact mem_of_mem_erase hx

theorem length_popMin {l : List (CMEntry α)} (h : l ≠ []) : (popMin l).length = l.length - 1 := by
  obtain ⟨m, hm⟩ := exists_argMin_of_ne_nil h
  rw [popMin_of_argMin hm, length_erase_of_mem (argMin_mem hm)]

end Entry

/-! ### `CacheMax.run` and its invariants -/
section CacheMax
variable {α : Type} [DecidableEq α]

/-- push the entries `(key, time, obj)` one after the other into an empty cache -/
def CacheMax.run (L : Nat) (tmo : Option Nat) (es : List (CMEntry α)) : CacheMax α :=
  es.foldl (fun s e => s.push e.key e.time e.obj) (CacheMax.init L tmo)

/-- size/count/provenance invariant, any timeout -/
structure CacheMax.Inv (s : CacheMax α) (L : Nat) (tmo : Option Nat) (seen : List (CMEntry α)) :
    Prop where
  len : s.length = L
  tmo : s.timeout = tmo
  n : s.n = seen.length
  size : s.items.length = min seen.length L
  sub : ∀ x ∈ s.items, x ∈ seen

omit [DecidableEq α] in
theorem CacheMax.Inv.init (L : Nat) (tmo : Option Nat) :
    (CacheMax.init L tmo : CacheMax α).Inv L tmo [] :=
  ⟨rfl, rfl, rfl, by simp [CacheMax.init], by simp [CacheMax.init]⟩

theorem CacheMax.Inv.push {s : CacheMax α} {L tmo seen} (h : s.Inv L tmo seen) (e : CMEntry α) :
    (s.push e.key e.time e.obj).Inv L tmo (seen ++ [e]) := by
  obtain ⟨hlen, htmo, hn, hsize, hsub⟩ := h
  have hsub' : ∀ x ∈ s.items ++ [e], x ∈ seen ++ [e] := by
    intro x hx
    rcases mem_append.1 hx with hx | hx
    · exact mem_append_left _ (hsub x hx)
    · exact mem_append_right _ hx
  have hne : s.items ++ [e] ≠ [] := by simp
  have heta : (⟨e.key, e.time, e.obj⟩ : CMEntry α) = e := rfl
  unfold CacheMax.push
  simp only [heta]
  by_cases h1 : s.n + 1 ≤ s.length
  · rw [if_pos h1]
    exact ⟨hlen, htmo, by simp [hn], by simp only [length_append, length_singleton]; omega, hsub'⟩
  · rw [if_neg h1]
    have hpop : (popMin (s.items ++ [e])).length = min (seen ++ [e]).length L := by
      rw [length_popMin hne]; simp only [length_append, length_singleton]; omega
    have hpops : ∀ x ∈ popMin (s.items ++ [e]), x ∈ seen ++ [e] :=
      fun x hx => hsub' x (popMin_subset _ x hx)
    cases htm : s.timeout with
    | none =>
      simp only []
      exact ⟨hlen, htmo ▸ htm.symm ▸ rfl, by simp [hn], hpop, hpops⟩
    | some t =>
      simp only []
      split
      · refine ⟨hlen, htmo ▸ htm.symm ▸ rfl, by simp [hn], ?_, ?_⟩
        · simp only [length_take, (sortByTimeDesc_perm _).length_eq, length_append,
            length_singleton]; omega
        · intro x hx
          exact hsub' x ((sortByTimeDesc_perm _).subset (mem_of_mem_take hx))
      · exact ⟨hlen, htmo ▸ htm.symm ▸ rfl, by simp [hn], hpop, hpops⟩

theorem CacheMax.Inv.foldl (es : List (CMEntry α)) : ∀ {s : CacheMax α} {L tmo seen},
    s.Inv L tmo seen → (es.foldl (fun s e => s.push e.key e.time e.obj) s).Inv L tmo (seen ++ es) := by
  induction es with
  | nil => intro s L tmo seen h; simpa using h
  | cons e es ih =>
    intro s L tmo seen h
    have := ih (h.push e)
    simpa using this

theorem CacheMax.run_inv (L : Nat) (tmo : Option Nat) (es : List (CMEntry α)) :
    (CacheMax.run L tmo es).Inv L tmo es := by
  simpa [CacheMax.run] using CacheMax.Inv.foldl es (CacheMax.Inv.init L tmo)

/-- without timeout: the content and a list of dropped entries partition everything seen, and no
    dropped entry is above a retained one in the `(key, time)` order -/
def CacheMax.Split (s : CacheMax α) (seen : List (CMEntry α)) : Prop :=
  ∃ dropped, seen ~ s.items ++ dropped ∧ ∀ r ∈ s.items, ∀ d ∈ dropped, ¬ r.lt d = true

theorem CacheMax.Split.push {s : CacheMax α} {L seen} (h : s.Inv L none seen) (hs : s.Split seen)
    (e : CMEntry α) : (s.push e.key e.time e.obj).Split (seen ++ [e]) := by
  obtain ⟨hlen, htmo, hn, hsize, hsub⟩ := h
  obtain ⟨dropped, hperm, hcross⟩ := hs
  have heta : (⟨e.key, e.time, e.obj⟩ : CMEntry α) = e := rfl
  unfold CacheMax.push
  simp only [heta]
  have hlenp := hperm.length_eq
  simp only [length_append] at hlenp
  by_cases h1 : s.n + 1 ≤ s.length
  · rw [if_pos h1]
    have hd : dropped = [] := by
      apply eq_nil_of_length_eq_zero; omega
    subst hd
    refine ⟨[], ?_, by simp⟩
    simpa using hperm.append_right [e]
  · rw [if_neg h1, htmo]
    simp only []
    obtain ⟨m, hm⟩ := exists_argMin_of_ne_nil (l := s.items ++ [e]) (by simp)
    have hmm := argMin_mem hm
    have hmin := argMin_le hm
    rw [popMin_of_argMin hm]
    refine ⟨m :: dropped, ?_, ?_⟩
    · have p1 : seen ++ [e] ~ (s.items ++ [e]) ++ dropped :=
        (hperm.append_right [e]).trans (by
          rw [append_assoc, append_assoc]; exact (perm_append_comm).append_left _)
      have p2 : s.items ++ [e] ~ m :: (s.items ++ [e]).erase m := perm_cons_erase hmm
      exact p1.trans ((p2.append_right dropped).trans (by
        simpa using (perm_middle (a := m) (l₁ := (s.items ++ [e]).erase m) (l₂ := dropped)).symm))
    · intro r hr d hd
      have hr' : r ∈ s.items ++ [e] := mem_of_mem_erase hr
      rcases mem_cons.1 hd with rfl | hd
      · exact hmin r hr'
      · by_cases hri : r ∈ s.items
        · exact hcross r hri d hd
        · have hre : r = e := by
            rcases mem_append.1 hr' with h | h
            · exact absurd h hri
            · simpa using h
          subst hre
          have hmne : m ≠ r := by
            intro hmr; subst hmr
            rw [erase_append_right _ hri] at hr
            simp at hr; exact hri hr
          have hmi : m ∈ s.items := by
            rcases mem_append.1 hmm with h | h
            · exact h
            · exact absurd (by simpa using h) hmne
          have a1 := hcross m hmi d hd
          have a2 := hmin r hr'
          rw [CMEntry.not_lt_iff] at a1 a2 ⊢; omega

theorem CacheMax.Split.foldl (es : List (CMEntry α)) : ∀ {s : CacheMax α} {L seen},
    s.Inv L none seen → s.Split seen →
      (es.foldl (fun s e => s.push e.key e.time e.obj) s).Split (seen ++ es) := by
  induction es with
  | nil => intro s L seen _ h; simpa using h
  | cons e es ih =>
    intro s L seen hi h
    have := ih (hi.push e) (h.push hi e)
    simpa using this

theorem CacheMax.run_split (L : Nat) (es : List (CMEntry α)) :
    (CacheMax.run L none es).Split es := by
  have h0 : (CacheMax.init L none : CacheMax α).Split [] := ⟨[], by simp [CacheMax.init], by simp⟩
  simpa [CacheMax.run] using CacheMax.Split.foldl es (CacheMax.Inv.init L none) h0

end CacheMax

/-! ### key level: sorted key lists and "the `L` largest" -/
section Keys

def intLe (a b : Int) : Bool := decide (a ≤ b)

theorem intLe_trans (a b c : Int) : intLe a b → intLe b c → intLe a c := by
  simp only [intLe, decide_eq_true_eq]; omega

theorem intLe_total (a b : Int) : intLe a b || intLe b a := by
  simp only [intLe, Bool.or_eq_true, decide_eq_true_eq]; omega

/-- the ascending sort of a list of keys -/
def sortAsc (ks : List Int) : List Int := ks.mergeSort intLe

/-- the `L` largest keys of `ks`, ascending -/
def topK (L : Nat) (ks : List Int) : List Int := takeLast L (sortAsc ks)

theorem sortAsc_perm (ks : List Int) : sortAsc ks ~ ks := mergeSort_perm ks intLe

theorem sortAsc_sorted (ks : List Int) : (sortAsc ks).Pairwise (· ≤ ·) := by
  have := pairwise_mergeSort intLe_trans intLe_total ks
  simpa [intLe, sortAsc] using this

@[simp] theorem length_sortAsc (ks : List Int) : (sortAsc ks).length = ks.length :=
  (sortAsc_perm ks).length_eq

theorem eq_of_sorted_perm {l l' : List Int} (hp : l ~ l') (hl : l.Pairwise (· ≤ ·))
    (hl' : l'.Pairwise (· ≤ ·)) : l = l' :=
  Perm.eq_of_pairwise (le := (· ≤ ·)) (fun _ _ _ _ h1 h2 => Int.le_antisymm h1 h2) hl hl' hp

/-- a sorted permutation of `l` *is* `sortAsc l` -/
theorem eq_sortAsc {l l' : List Int} (hp : l' ~ l) (hl' : l'.Pairwise (· ≤ ·)) :
    l' = sortAsc l :=
  eq_of_sorted_perm (hp.trans (sortAsc_perm l).symm) hl' (sortAsc_sorted l)

theorem sortAsc_congr {l l' : List Int} (hp : l ~ l') : sortAsc l = sortAsc l' :=
  eq_sortAsc ((sortAsc_perm l).trans hp) (sortAsc_sorted l)

theorem sortAsc_of_sorted {l : List Int} (h : l.Pairwise (· ≤ ·)) : sortAsc l = l :=
  (eq_sortAsc (Perm.refl l) h).symm

theorem topK_congr (L : Nat) {l l' : List Int} (hp : l ~ l') : topK L l = topK L l' := by
  rw [topK, topK, sortAsc_congr hp]

theorem topK_sorted (L : Nat) (l : List Int) : (topK L l).Pairwise (· ≤ ·) :=
  (sortAsc_sorted l).sublist (takeLast_sublist _ _)

theorem sortAsc_append_of_le {D I : List Int} (h : ∀ d ∈ D, ∀ i ∈ I, d ≤ i) :
    sortAsc (D ++ I) = sortAsc D ++ sortAsc I := by
  symm
  apply eq_sortAsc ((sortAsc_perm D).append (sortAsc_perm I))
  rw [pairwise_append]
  refine ⟨sortAsc_sorted D, sortAsc_sorted I, fun d hd i hi => ?_⟩
  exact h d ((sortAsc_perm D).subset hd) i ((sortAsc_perm I).subset hi)

theorem sortAsc_append (X Y : List Int) :
    sortAsc (X ++ Y) = merge (sortAsc X) (sortAsc Y) intLe := by
  symm
  apply eq_sortAsc ((merge_perm_append intLe).trans ((sortAsc_perm X).append (sortAsc_perm Y)))
  have := pairwise_merge intLe_trans intLe_total (sortAsc X) (sortAsc Y)
    (by simpa [intLe] using sortAsc_sorted X) (by simpa [intLe] using sortAsc_sorted Y)
  simpa [intLe] using this

/-- characterisation of the `L` largest: a sub-multiset `I` of the right size all of whose
    elements dominate the rest `D` -/
theorem topK_of_split {L : Nat} {A I D : List Int} (hp : A ~ I ++ D)
    (hle : ∀ i ∈ I, ∀ d ∈ D, d ≤ i) (hsz : I.length = min A.length L) :
    sortAsc I = topK L A := by
  have h1 : sortAsc A = sortAsc D ++ sortAsc I := by
    rw [sortAsc_congr (hp.trans perm_append_comm)]
    exact sortAsc_append_of_le (fun d hd i hi => hle i hi d hd)
  rw [topK, ← takeLast_min, length_sortAsc, ← hsz, h1,
    takeLast_append_of_le _ _ (by simp), takeLast_of_length_le (by simp)]

/-- **top-`L` of a union only needs the top-`L` of the parts** -/
theorem topK_append_topK (L : Nat) (A B : List Int) :
    topK L (topK L A ++ topK L B) = topK L (A ++ B) := by
  have hA : (sortAsc A).Pairwise (fun a b => intLe a b = true) := by
    simpa [intLe] using sortAsc_sorted A
  have hB : (sortAsc B).Pairwise (fun a b => intLe a b = true) := by
    simpa [intLe] using sortAsc_sorted B
  rw [topK, sortAsc_append, sortAsc_of_sorted (topK_sorted L A), sortAsc_of_sorted (topK_sorted L B),
    topK, topK, takeLast_merge_takeLast intLe intLe_trans L _ _ hA hB, ← sortAsc_append, topK]

end Keys

/-! ### the keys read-out of a `CacheMax` -/
section CacheMaxKeys
variable {α : Type}

theorem CacheMax.keys_sorted' (s : CacheMax α) : s.keys.Pairwise (· ≤ ·) := by
  unfold CacheMax.keys
  rw [pairwise_map, pairwise_reverse]
  exact sortByKeyDesc_sorted s.items

theorem CacheMax.keys_perm (s : CacheMax α) : s.keys ~ s.items.map (·.key) := by
  unfold CacheMax.keys
  exact ((reverse_perm _).trans (sortByKeyDesc_perm s.items)).map _

theorem CacheMax.keys_eq_sortAsc (s : CacheMax α) : s.keys = sortAsc (s.items.map (·.key)) :=
  eq_sortAsc s.keys_perm s.keys_sorted'

/-- the descending key sort, read off at key level -/
theorem map_key_sortByKeyDesc (l : List (CMEntry α)) :
    (sortByKeyDesc l).map (·.key) = (sortAsc (l.map (·.key))).reverse := by
  have h : ((sortByKeyDesc l).map (·.key)).reverse = sortAsc (l.map (·.key)) := by
    apply eq_sortAsc
    · exact (reverse_perm _).trans ((sortByKeyDesc_perm l).map _)
    · rw [pairwise_reverse, pairwise_map]; exact sortByKeyDesc_sorted l
  rw [← h, reverse_reverse]

/-- the repaired merge keeps the `length` largest keys of both contents -/
theorem CacheMax.keys_merge (s o : CacheMax α) :
    (s.merge o).keys = topK s.length (s.items.map (·.key) ++ o.items.map (·.key)) := by
  rw [CacheMax.keys_eq_sortAsc]
  simp only [CacheMax.merge]
  rw [map_take, map_key_sortByKeyDesc, take_reverse_eq_takeLast, map_append,
    sortAsc_congr (reverse_perm _)]
  exact sortAsc_of_sorted (topK_sorted _ _)

end CacheMaxKeys

end Gpv
