/-
  Rounding-error analysis of whole MERGE TREES of `Covariance` accumulators, ONE ENTRY `(i, j)`.

  Entry `(i, j)` of a `Covariance` accumulator carries (mean_i, mean_j, population covariance
  entry, count) — the two-component model `Cov2` (Gpv/Model/Accum.lean).  In a float evaluation
  of a merge tree `t : MTree (K × K)` (leaves = chunks of pairs `(x_i, x_j)`)
    * every leaf is a float streaming covariance run over its chunk
      (`FlCovRun`, Gpv/Proofs/FloatCov.lean),
    * every inner node merges its two children as `Covariance._accumulate_other` does:
        dmean  = self.mean.value - other.mean.value ;  newn = self.n + other.n
        newvar = self._cov.sum + other._cov.sum + np.outer(dmean, dmean) * self.n * other.n / newn
        self.mean += other.mean                       -- `FlMerge` per component (FloatMerge.lean)
        self._cov = Mean(value=newvar / newn, n=newn) -- `FlCovMerge` per entry (FloatCovMerge.lean)
      all applied to the children's FLOAT means and entries and their exact counts (`dmean` is
      formed from the old means, before `self.mean` is updated).
  `FlCovTree u t ai aj c` : `(ai, aj, c)` is a possible float (mean_i, mean_j, entry) of `t`.

  The invariant (`FlCovTree.inv`), for data `|x| ≤ Mx`, `|y| ≤ My`, `N` pairs under the node,
  `Sxy = Σ (x − x̄)(y − ȳ)` over all of them, depth `d`, longest leaf `L` (`64·L·u ≤ 1`):
      |N·c − Sxy| ≤ N·T(L,d)·Mx·My ,
      |ai − x̄| ≤ Mx·ε(L,d) ,  |aj − ȳ| ≤ My·ε(L,d) ,   ε(L,d) = (1+6Lu)(1+u)^(3d) − 1
  with  T(L,0) = 62·L·u ,
        T(L,d+1) = (1+u)⁴·T(L,d) + ((1+u)⁴ − 1) + ((1+u)⁸ − 1) + (1+u)⁸·(2ε(L,d) + ε(L,d)²).
  There is NO relative part: the exact entry `Sxy` has no sign and can vanish while its three
  Chan terms do not (`C06FloatCov.no_relative_bound`), so every term is bounded through
  `|Sxy(child)| ≤ n·Mx·My`, `|Δx̄| ≤ 2Mx`, `|Δȳ| ≤ 2My`; that is where the two extra summands
  `γ₄ + γ₈` per level come from (in the variance tree they are the relative factor instead).
  No smallness hypothesis on the depth is needed for the invariant; the linearisation
  (`covTreeT_lin`, `64·d·u ≤ 1`) gives   T(L,d) ≤ (67·L + 30·d·(L+d))·u .
  The node step is `FlCovMerge.compose` (division-free, perturbed operands) + the Chan identity
  `C06FloatCov.sumProdDev_append`; the weight `n·m/N ≤ N/4` of the `dmean` term is what makes
  the bound LINEAR in `N` (so that, divided by `N`, it does not depend on the number of chunks).
-/
import Gpv.Proofs.FloatVarTree
import Gpv.Props.C06FloatCov
set_option linter.unusedSectionVars false

namespace Gpv
variable {K : Type} [Field K] [LinearOrder K] [IsStrictOrderedRing K]

/-! ### projecting a tree of pairs to a tree of components -/

/-- apply `f` to every observation of a merge tree (same shape) -/
def C06.MTree.map {α β : Type} (f : α → β) : C06.MTree α → C06.MTree β
  | .leaf xs => .leaf (xs.map f)
  | .node l r => .node (l.map f) (r.map f)

theorem C06.MTree.flatten_map {α β : Type} (f : α → β) (t : C06.MTree α) :
    (t.map f).flatten = t.flatten.map f := by
  induction t with
  | leaf xs => rfl
  | node l r ihl ihr => simp only [C06.MTree.map, C06.MTree.flatten, ihl, ihr, List.map_append]

theorem C06.MTree.length_flatten_map {α β : Type} (f : α → β) (t : C06.MTree α) :
    (t.map f).flatten.length = t.flatten.length := by
  rw [C06.MTree.flatten_map, List.length_map]

theorem C06.MTree.depth_map {α β : Type} (f : α → β) (t : C06.MTree α) :
    (t.map f).depth = t.depth := by
  induction t with
  | leaf xs => rfl
  | node l r ihl ihr => simp only [C06.MTree.map, C06.MTree.depth, ihl, ihr]

theorem C06.MTree.maxLeaf_map {α β : Type} (f : α → β) (t : C06.MTree α) :
    (t.map f).maxLeaf = t.maxLeaf := by
  induction t with
  | leaf xs => simp only [C06.MTree.map, C06.MTree.maxLeaf, List.length_map]
  | node l r ihl ihr => simp only [C06.MTree.map, C06.MTree.maxLeaf, ihl, ihr]

/-! ### the relation -/

/-- `(ai, aj, c)` is a possible floating-point (mean_i, mean_j, population covariance entry
    `(i, j)`) of the merge tree `t` of pairs: leaves are float streaming covariance runs, every
    node merges the two mean components with `FlMerge` and the entry with `FlCovMerge`, all on
    the children's float values and exact counts -/
inductive FlCovTree (u : K) : C06.MTree (K × K) → K → K → K → Prop
  | leaf {ps : List (K × K)} {ai aj c : K} : FlCovRun u ps ai aj c → FlCovTree u (.leaf ps) ai aj c
  | node {l r : C06.MTree (K × K)} {ai aj ca bi bj cb ci cj cc : K} :
      FlCovTree u l ai aj ca → FlCovTree u r bi bj cb →
      FlMerge u ai l.flatten.length bi r.flatten.length ci →
      FlMerge u aj l.flatten.length bj r.flatten.length cj →
      FlCovMerge u ai aj ca l.flatten.length bi bj cb r.flatten.length cc →
      FlCovTree u (.node l r) ci cj cc

theorem FlCovTree.mono {u u' : K} (h : u ≤ u') {t : C06.MTree (K × K)} {ai aj c : K}
    (ht : FlCovTree u t ai aj c) : FlCovTree u' t ai aj c := by
  induction ht with
  | leaf hr => exact FlCovTree.leaf (hr.mono h)
  | node _ _ hi hj hc ihl ihr => exact FlCovTree.node ihl ihr (hi.mono h) (hj.mono h) (hc.mono h)

/-- the first mean component of a covariance tree is a mean tree (`FlTree`, FloatMerge.lean)
    over the first components -/
theorem FlCovTree.mean_tree_x {u : K} {t : C06.MTree (K × K)} {ai aj c : K}
    (ht : FlCovTree u t ai aj c) : FlTree u (t.map Prod.fst) ai := by
  induction ht with
  | leaf hr => exact FlTree.leaf hr.mean_run_x
  | @node l r ai aj ca bi bj cb ci cj cc _ _ hi _ _ ihl ihr =>
    refine FlTree.node ihl ihr ?_
    rw [C06.MTree.length_flatten_map, C06.MTree.length_flatten_map]
    exact hi

/-- the second mean component of a covariance tree is a mean tree over the second components -/
theorem FlCovTree.mean_tree_y {u : K} {t : C06.MTree (K × K)} {ai aj c : K}
    (ht : FlCovTree u t ai aj c) : FlTree u (t.map Prod.snd) aj := by
  induction ht with
  | leaf hr => exact FlTree.leaf hr.mean_run_y
  | @node l r ai aj ca bi bj cb ci cj cc _ _ _ hj _ ihl ihr =>
    refine FlTree.node ihl ihr ?_
    rw [C06.MTree.length_flatten_map, C06.MTree.length_flatten_map]
    exact hj

/-- the source's mean merge applied to the first means of two exact covariance runs -/
theorem covMx_mergeVal_run (ps qs : List (K × K)) :
    mergeVal (Cov2.run ps).mx.val ps.length (Cov2.run qs).mx.val qs.length
      = (Cov2.run (ps ++ qs)).mx.val := by
  rw [Cov2.run_mx, Cov2.run_mx, Cov2.run_mx, List.map_append]
  have := mergeVal_run (ps.map Prod.fst) (qs.map Prod.fst)
  rwa [List.length_map, List.length_map] at this

/-- the source's mean merge applied to the second means of two exact covariance runs -/
theorem covMy_mergeVal_run (ps qs : List (K × K)) :
    mergeVal (Cov2.run ps).my.val ps.length (Cov2.run qs).my.val qs.length
      = (Cov2.run (ps ++ qs)).my.val := by
  rw [Cov2.run_my, Cov2.run_my, Cov2.run_my, List.map_append]
  have := mergeVal_run (ps.map Prod.snd) (qs.map Prod.snd)
  rwa [List.length_map, List.length_map] at this

/-- the exact streaming state of all pairs is a possible float evaluation of every tree -/
theorem FlCovTree.of_exact {u : K} (hu : 0 ≤ u) (t : C06.MTree (K × K)) :
    FlCovTree u t (Cov2.run t.flatten).mx.val (Cov2.run t.flatten).my.val
      (Cov2.run t.flatten).c.val := by
  induction t with
  | leaf ps => exact FlCovTree.leaf (FlCovRun.of_exact hu ps)
  | node l r ihl ihr =>
    refine FlCovTree.node ihl ihr ?_ ?_ ?_
    · simp only [C06.MTree.flatten]
      rw [← covMx_mergeVal_run]
      exact FlMerge.of_exact hu _ _ _ _
    · simp only [C06.MTree.flatten]
      rw [← covMy_mergeVal_run]
      exact FlMerge.of_exact hu _ _ _ _
    · simp only [C06.MTree.flatten]
      rw [← covMergeVal_run]
      exact FlCovMerge.of_exact hu _ _ _ _ _ _ _ _

/-- with `u = 0` the only possible evaluation is the exact one -/
theorem flCovTree_zero_iff (t : C06.MTree (K × K)) (ai aj c : K) :
    FlCovTree 0 t ai aj c
      ↔ ai = (Cov2.run t.flatten).mx.val ∧ aj = (Cov2.run t.flatten).my.val
        ∧ c = (Cov2.run t.flatten).c.val := by
  constructor
  · intro h
    induction h with
    | leaf hr => exact (flCovRun_zero_iff _ _ _ _).mp hr
    | @node l r ai aj ca bi bj cb ci cj cc _ _ hi hj hc ihl ihr =>
      rw [flMerge_zero_iff] at hi hj
      rw [flCovMerge_zero_iff] at hc
      obtain ⟨l1, l2, l3⟩ := ihl
      obtain ⟨r1, r2, r3⟩ := ihr
      simp only [C06.MTree.flatten]
      refine ⟨?_, ?_, ?_⟩
      · rw [hi, l1, r1, covMx_mergeVal_run]
      · rw [hj, l2, r2, covMy_mergeVal_run]
      · rw [hc, l1, l2, l3, r1, r2, r3, covMergeVal_run]
  · rintro ⟨rfl, rfl, rfl⟩; exact FlCovTree.of_exact le_rfl t

/-! ### empty trees: everything is 0 -/

theorem flCovMerge_zero_counts {u ai aj ca bi bj cb r : K}
    (h : FlCovMerge u ai aj ca 0 bi bj cb 0 r) : r = 0 := by
  obtain ⟨di, dj, sa, sb, q, q1, q2, q3, s1, s2, ⟨δ1, _, rfl⟩, ⟨δ2, _, rfl⟩, ⟨δ3, _, rfl⟩,
    ⟨δ4, _, rfl⟩, ⟨δ5, _, rfl⟩, ⟨δ6, _, rfl⟩, ⟨δ7, _, rfl⟩, ⟨δ8, _, rfl⟩, ⟨δ9, _, rfl⟩,
    ⟨δ10, _, rfl⟩, ⟨δ11, _, rfl⟩⟩ := h
  simp

theorem FlCovTree.empty {u : K} {t : C06.MTree (K × K)} {ai aj c : K} (h : FlCovTree u t ai aj c)
    (he : t.flatten = []) : ai = 0 ∧ aj = 0 ∧ c = 0 := by
  induction h with
  | @leaf ps ai aj c hr =>
    simp only [C06.MTree.flatten] at he
    subst he
    exact hr.nil_inv
  | @node l r ai aj ca bi bj cb ci cj cc _ _ hi hj hc _ _ =>
    simp only [C06.MTree.flatten, List.append_eq_nil_iff] at he
    obtain ⟨h1, h2⟩ := he
    rw [h1, h2] at hi hj hc
    exact ⟨flMerge_zero_counts hi, flMerge_zero_counts hj, flCovMerge_zero_counts hc⟩

theorem Cov2.run_nil_vals :
    (Cov2.run ([] : List (K × K))).mx.val = 0 ∧ (Cov2.run ([] : List (K × K))).my.val = 0
      ∧ (Cov2.run ([] : List (K × K))).c.val = 0 := by
  simp [Cov2.run, Cov2.init, Mean.init]

/-! ### the coefficient -/

/-- the bound (per pair, in units of `Mx·My`) of the covariance-entry tree:
    `T(L,0) = 62·L·u`,
    `T(L,d+1) = (1+u)⁴·T(L,d) + ((1+u)⁴ − 1) + ((1+u)⁸ − 1) + (1+u)⁸·(2ε(L,d) + ε(L,d)²)`,
    `ε = varTreeE` the relative error of the float means of a tree -/
def covTreeT (u : K) (L : ℕ) : ℕ → K
  | 0 => 62 * (L : K) * u
  | d + 1 => (1 + u) ^ 4 * covTreeT u L d + ((1 + u) ^ 4 - 1) + ((1 + u) ^ 8 - 1)
      + (1 + u) ^ 8 * (2 * varTreeE u L d + varTreeE u L d ^ 2)

theorem covTreeT_zero (u : K) (L : ℕ) : covTreeT u L 0 = 62 * (L : K) * u := rfl

theorem covTreeT_succ (u : K) (L d : ℕ) :
    covTreeT u L (d + 1) = (1 + u) ^ 4 * covTreeT u L d + ((1 + u) ^ 4 - 1) + ((1 + u) ^ 8 - 1)
      + (1 + u) ^ 8 * (2 * varTreeE u L d + varTreeE u L d ^ 2) := rfl

theorem covTreeT_nonneg {u : K} (hu : 0 ≤ u) (L d : ℕ) : 0 ≤ covTreeT u L d := by
  induction d with
  | zero => rw [covTreeT_zero]; positivity
  | succ d ih =>
    rw [covTreeT_succ]
    have hε := varTreeE_nonneg hu L d
    have g4 := gam_nonneg hu 4
    have g8 := gam_nonneg hu 8
    positivity

theorem covTreeT_le_succ {u : K} (hu : 0 ≤ u) (L d : ℕ) :
    covTreeT u L d ≤ covTreeT u L (d + 1) := by
  rw [covTreeT_succ]
  have hε := varTreeE_nonneg hu L d
  have hT := covTreeT_nonneg hu L d
  have g4 := gam_nonneg hu 4
  have g8 := gam_nonneg hu 8
  have h4 : (1 : K) ≤ (1 + u) ^ 4 := one_le_pow₀ (by linarith)
  have h1 : covTreeT u L d ≤ (1 + u) ^ 4 * covTreeT u L d := by
    calc covTreeT u L d = 1 * covTreeT u L d := by ring
      _ ≤ (1 + u) ^ 4 * covTreeT u L d := mul_le_mul_of_nonneg_right h4 hT
  have h2 : 0 ≤ (1 + u) ^ 8 * (2 * varTreeE u L d + varTreeE u L d ^ 2) := by positivity
  linarith

theorem covTreeT_mono_d {u : K} (hu : 0 ≤ u) (L : ℕ) {d d' : ℕ} (hd : d ≤ d') :
    covTreeT u L d ≤ covTreeT u L d' := by
  induction hd with
  | refl => exact le_rfl
  | step _ ih => exact ih.trans (covTreeT_le_succ hu L _)

theorem covTreeT_mono_L {u : K} (hu : 0 ≤ u) {L L' : ℕ} (hL : L ≤ L') (d : ℕ) :
    covTreeT u L d ≤ covTreeT u L' d := by
  induction d with
  | zero =>
    rw [covTreeT_zero, covTreeT_zero]
    have hLK : (L : K) ≤ (L' : K) := Nat.cast_le.mpr hL
    have := mul_le_mul_of_nonneg_right hLK hu
    linarith
  | succ d ih =>
    rw [covTreeT_succ, covTreeT_succ]
    have hg := two_add_sq_mono (varTreeE_nonneg hu L d) (varTreeE_mono hu hL (le_refl d))
    have h4 : (0 : K) ≤ (1 + u) ^ 4 := by positivity
    have h8 : (0 : K) ≤ (1 + u) ^ 8 := by positivity
    have a1 := mul_le_mul_of_nonneg_left ih h4
    have a2 := mul_le_mul_of_nonneg_left hg h8
    linarith

theorem covTreeT_mono {u : K} (hu : 0 ≤ u) {L L' d d' : ℕ} (hL : L ≤ L') (hd : d ≤ d') :
    covTreeT u L d ≤ covTreeT u L' d' :=
  (covTreeT_mono_L hu hL d).trans (covTreeT_mono_d hu L' hd)

/-! ### the errors of the two float means of a covariance tree -/

/-- the error of the float mean of a mean tree, relative to the data bound:
    `|a − x̄| ≤ M·((1+6Lu)(1+u)^(3d) − 1)` for trees with observations -/
theorem FlTree.mean_error {u M : K} (hu : 0 ≤ u) (hM : 0 ≤ M) {t : C06.MTree K} {a : K}
    (h : FlTree u t a) (hne : t.flatten ≠ []) (hx : ∀ x ∈ t.flatten, |x| ≤ M)
    (hsmall : 8 * (t.maxLeaf : K) * u ≤ 1) :
    |a - (Mean.run t.flatten).val| ≤ M * varTreeE u t.maxLeaf t.depth := by
  have hn : (0 : K) < (t.flatten.length : K) := Nat.cast_pos.mpr (List.length_pos_iff.mpr hne)
  have hd := (FlTree.inv hu hM h hx hsmall).1
  rw [treeB_sub_eq] at hd
  have hi := (Mean.run_inv t.flatten).2
  rw [← hi] at hd
  have e : (t.flatten.length : K) * a - (Mean.run t.flatten).val * (t.flatten.length : K)
      = (t.flatten.length : K) * (a - (Mean.run t.flatten).val) := by ring
  rw [e, abs_mul, abs_of_pos hn] at hd
  exact le_of_mul_le_mul_left hd hn

/-- `|ai − x̄| ≤ Mx·ε(L,d)` and `|aj − ȳ| ≤ My·ε(L,d)`, `ε(L,d) = (1+6Lu)(1+u)^(3d) − 1`, also
    for empty trees (there everything is 0) -/
theorem FlCovTree.mean_errors {u Mx My : K} (hu : 0 ≤ u) (hMx : 0 ≤ Mx) (hMy : 0 ≤ My)
    {t : C06.MTree (K × K)} {ai aj c : K} (h : FlCovTree u t ai aj c)
    (hx : ∀ p ∈ t.flatten, |p.1| ≤ Mx) (hy : ∀ p ∈ t.flatten, |p.2| ≤ My)
    (hsmall : 8 * (t.maxLeaf : K) * u ≤ 1) :
    |ai - (Cov2.run t.flatten).mx.val| ≤ Mx * varTreeE u t.maxLeaf t.depth
      ∧ |aj - (Cov2.run t.flatten).my.val| ≤ My * varTreeE u t.maxLeaf t.depth := by
  by_cases he : t.flatten = []
  · obtain ⟨h1, h2, _⟩ := h.empty he
    obtain ⟨e1, e2, _⟩ := Cov2.run_nil_vals (K := K)
    rw [h1, h2, he, e1, e2, sub_zero, abs_zero]
    exact ⟨mul_nonneg hMx (varTreeE_nonneg hu _ _), mul_nonneg hMy (varTreeE_nonneg hu _ _)⟩
  · have hnx : (t.map Prod.fst).flatten ≠ [] := by
      rw [C06.MTree.flatten_map]; simpa using he
    have hny : (t.map Prod.snd).flatten ≠ [] := by
      rw [C06.MTree.flatten_map]; simpa using he
    have h1 := FlTree.mean_error hu hMx h.mean_tree_x hnx
      (by rw [C06.MTree.flatten_map]; exact mem_map_fst_le hx)
      (by rw [C06.MTree.maxLeaf_map]; exact hsmall)
    have h2 := FlTree.mean_error hu hMy h.mean_tree_y hny
      (by rw [C06.MTree.flatten_map]; exact mem_map_snd_le hy)
      (by rw [C06.MTree.maxLeaf_map]; exact hsmall)
    rw [C06.MTree.flatten_map, C06.MTree.maxLeaf_map, C06.MTree.depth_map] at h1 h2
    rw [Cov2.run_mx, Cov2.run_my]
    exact ⟨h1, h2⟩

/-! ### the node step, as a scalar inequality -/

/-- the scalar inequality that closes the node step of `FlCovTree.inv`: `τ` is the children's
    coefficient, `ε` the relative error of their means, `P = Mx·My`;
    `γ4 = (1+u)⁴ − 1`, `γ8 = (1+u)⁸ − 1`, `P4 = (1+u)⁴`, `P8 = (1+u)⁸` -/
theorem cov_tree_node_poly {Mx My n m Sa Sb Di Dj w ε τ γ4 γ8 P4 P8 : K} (hMx : 0 ≤ Mx)
    (hMy : 0 ≤ My) (hn : 0 ≤ n) (hm : 0 ≤ m) (hN : 0 < n + m) (hε : 0 ≤ ε)
    (hw : w = n * m / (n + m)) (hSa : |Sa| ≤ n * (Mx * My)) (hSb : |Sb| ≤ m * (Mx * My))
    (hDi : |Di| ≤ 2 * Mx) (hDj : |Dj| ≤ 2 * My) (hγ4 : 0 ≤ γ4) (hγ8 : 0 ≤ γ8) (hP8 : 0 ≤ P8) :
    γ4 * (|Sa| + |Sb|) + γ8 * (|Di| * |Dj| * w)
        + P4 * (n * τ * (Mx * My) + m * τ * (Mx * My))
        + P8 * ((|Di| * (2 * (My * ε)) + |Dj| * (2 * (Mx * ε)) + 2 * (Mx * ε) * (2 * (My * ε))) * w)
      ≤ (n + m) * (P4 * τ + γ4 + γ8 + P8 * (2 * ε + ε ^ 2)) * (Mx * My) := by
  have hw0 : 0 ≤ w := by rw [hw]; positivity
  have hw4 : w ≤ (n + m) / 4 := by rw [hw]; exact harmonic_weight_le hN
  have hP : 0 ≤ Mx * My := mul_nonneg hMx hMy
  have hMxε : 0 ≤ Mx * ε := mul_nonneg hMx hε
  have hMyε : 0 ≤ My * ε := mul_nonneg hMy hε
  -- the `.sum` terms
  have z1 : γ4 * (|Sa| + |Sb|) ≤ γ4 * ((n + m) * (Mx * My)) :=
    mul_le_mul_of_nonneg_left (by linarith) hγ4
  -- the exact `dmean` term
  have hdd : |Di| * |Dj| ≤ 4 * (Mx * My) := by
    calc |Di| * |Dj| ≤ (2 * Mx) * (2 * My) := mul_le_mul hDi hDj (abs_nonneg _) (by positivity)
      _ = 4 * (Mx * My) := by ring
  have hddw : |Di| * |Dj| * w ≤ (n + m) * (Mx * My) := by
    calc |Di| * |Dj| * w ≤ (4 * (Mx * My)) * ((n + m) / 4) :=
          mul_le_mul hdd hw4 hw0 (by positivity)
      _ = (n + m) * (Mx * My) := by ring
  have z2 : γ8 * (|Di| * |Dj| * w) ≤ γ8 * ((n + m) * (Mx * My)) :=
    mul_le_mul_of_nonneg_left hddw hγ8
  -- the errors of the means
  have e1 : |Di| * (2 * (My * ε)) ≤ (2 * Mx) * (2 * (My * ε)) :=
    mul_le_mul_of_nonneg_right hDi (by positivity)
  have e2 : |Dj| * (2 * (Mx * ε)) ≤ (2 * My) * (2 * (Mx * ε)) :=
    mul_le_mul_of_nonneg_right hDj (by positivity)
  have hE0 : 0 ≤ |Di| * (2 * (My * ε)) + |Dj| * (2 * (Mx * ε)) + 2 * (Mx * ε) * (2 * (My * ε)) := by
    positivity
  have z3 : (|Di| * (2 * (My * ε)) + |Dj| * (2 * (Mx * ε)) + 2 * (Mx * ε) * (2 * (My * ε))) * w
      ≤ ((2 * Mx) * (2 * (My * ε)) + (2 * My) * (2 * (Mx * ε)) + 2 * (Mx * ε) * (2 * (My * ε)))
        * ((n + m) / 4) :=
    mul_le_mul (by linarith) hw4 hw0 (by positivity)
  have z4 : ((2 * Mx) * (2 * (My * ε)) + (2 * My) * (2 * (Mx * ε)) + 2 * (Mx * ε) * (2 * (My * ε)))
        * ((n + m) / 4) = (n + m) * (2 * ε + ε ^ 2) * (Mx * My) := by ring
  have z5 : P8 * ((|Di| * (2 * (My * ε)) + |Dj| * (2 * (Mx * ε))
        + 2 * (Mx * ε) * (2 * (My * ε))) * w)
      ≤ P8 * ((n + m) * (2 * ε + ε ^ 2) * (Mx * My)) := by
    rw [← z4]; exact mul_le_mul_of_nonneg_left z3 hP8
  have e : (n + m) * (P4 * τ + γ4 + γ8 + P8 * (2 * ε + ε ^ 2)) * (Mx * My)
      = γ4 * ((n + m) * (Mx * My)) + γ8 * ((n + m) * (Mx * My))
        + P4 * (n * τ * (Mx * My) + m * τ * (Mx * My))
        + P8 * ((n + m) * (2 * ε + ε ^ 2) * (Mx * My)) := by ring
  rw [e]
  linarith

/-! ### the invariant -/

/-- **the invariant of every float evaluation of a covariance-entry merge tree**,
    division-free: `|N·c − Sxy| ≤ N·T(L,d)·Mx·My` -/
theorem FlCovTree.inv {u Mx My : K} (hu : 0 ≤ u) (hMx : 0 ≤ Mx) (hMy : 0 ≤ My)
    {t : C06.MTree (K × K)} {ai aj c : K} (h : FlCovTree u t ai aj c)
    (hx : ∀ p ∈ t.flatten, |p.1| ≤ Mx) (hy : ∀ p ∈ t.flatten, |p.2| ≤ My)
    (hsmall : 64 * (t.maxLeaf : K) * u ≤ 1) :
    |(t.flatten.length : K) * c - sumProdDev t.flatten|
      ≤ (t.flatten.length : K) * covTreeT u t.maxLeaf t.depth * (Mx * My) := by
  induction h with
  | @leaf ps ai aj c hr =>
    simp only [C06.MTree.flatten, C06.MTree.maxLeaf, C06.MTree.depth] at hx hy hsmall ⊢
    refine (C06FloatCov.cov_float_defect_abs' hu hx hy hsmall hr).trans (le_of_eq ?_)
    rw [covTreeT_zero]
    ring
  | @node l r ai aj ca bi bj cb ci cj cc hl hr hi hj hc ihl ihr =>
    simp only [C06.MTree.flatten, C06.MTree.maxLeaf, C06.MTree.depth] at hx hy hsmall ⊢
    have hLl : ((l.maxLeaf : ℕ) : K) ≤ ((max l.maxLeaf r.maxLeaf : ℕ) : K) :=
      Nat.cast_le.mpr (le_max_left _ _)
    have hLr : ((r.maxLeaf : ℕ) : K) ≤ ((max l.maxLeaf r.maxLeaf : ℕ) : K) :=
      Nat.cast_le.mpr (le_max_right _ _)
    have hsl : 64 * (l.maxLeaf : K) * u ≤ 1 := by
      have := mul_le_mul_of_nonneg_right hLl hu
      linarith
    have hsr : 64 * (r.maxLeaf : K) * u ≤ 1 := by
      have := mul_le_mul_of_nonneg_right hLr hu
      linarith
    have hxl : ∀ p ∈ l.flatten, |p.1| ≤ Mx := fun p hp => hx p (List.mem_append.mpr (Or.inl hp))
    have hxr : ∀ p ∈ r.flatten, |p.1| ≤ Mx := fun p hp => hx p (List.mem_append.mpr (Or.inr hp))
    have hyl : ∀ p ∈ l.flatten, |p.2| ≤ My := fun p hp => hy p (List.mem_append.mpr (Or.inl hp))
    have hyr : ∀ p ∈ r.flatten, |p.2| ≤ My := fun p hp => hy p (List.mem_append.mpr (Or.inr hp))
    by_cases hN0 : l.flatten.length + r.flatten.length = 0
    · have h1 : l.flatten = [] := List.length_eq_zero_iff.mp (by omega)
      have h2 : r.flatten = [] := List.length_eq_zero_iff.mp (by omega)
      rw [h1, h2]
      simp [sumProdDev]
    · have il := ihl hxl hyl hsl
      have ir := ihr hxr hyr hsr
      have hn0 : (0 : K) ≤ (l.flatten.length : K) := Nat.cast_nonneg _
      have hm0 : (0 : K) ≤ (r.flatten.length : K) := Nat.cast_nonneg _
      have hP : 0 ≤ Mx * My := mul_nonneg hMx hMy
      obtain ⟨hmli, hmlj⟩ := hl.mean_errors hu hMx hMy hxl hyl (by linarith)
      obtain ⟨hmri, hmrj⟩ := hr.mean_errors hu hMx hMy hxr hyr (by linarith)
      -- common coefficients
      have hτl := covTreeT_mono hu (le_max_left l.maxLeaf r.maxLeaf) (le_max_left l.depth r.depth)
      have hτr := covTreeT_mono hu (le_max_right l.maxLeaf r.maxLeaf) (le_max_right l.depth r.depth)
      have hεl := varTreeE_mono hu (le_max_left l.maxLeaf r.maxLeaf) (le_max_left l.depth r.depth)
      have hεr := varTreeE_mono hu (le_max_right l.maxLeaf r.maxLeaf) (le_max_right l.depth r.depth)
      set L : ℕ := max l.maxLeaf r.maxLeaf with hLdef
      set d : ℕ := max l.depth r.depth with hddef
      have il' : |(l.flatten.length : K) * ca - sumProdDev l.flatten|
          ≤ (l.flatten.length : K) * covTreeT u L d * (Mx * My) :=
        il.trans (mul_le_mul_of_nonneg_right (mul_le_mul_of_nonneg_left hτl hn0) hP)
      have ir' : |(r.flatten.length : K) * cb - sumProdDev r.flatten|
          ≤ (r.flatten.length : K) * covTreeT u L d * (Mx * My) :=
        ir.trans (mul_le_mul_of_nonneg_right (mul_le_mul_of_nonneg_left hτr hm0) hP)
      set μai := (Cov2.run l.flatten).mx.val with hμaidef
      set μaj := (Cov2.run l.flatten).my.val with hμajdef
      set μbi := (Cov2.run r.flatten).mx.val with hμbidef
      set μbj := (Cov2.run r.flatten).my.val with hμbjdef
      have hεn := varTreeE_nonneg hu L d
      have hmli' : |ai - μai| ≤ Mx * varTreeE u L d :=
        hmli.trans (mul_le_mul_of_nonneg_left hεl hMx)
      have hmri' : |bi - μbi| ≤ Mx * varTreeE u L d :=
        hmri.trans (mul_le_mul_of_nonneg_left hεr hMx)
      have hmlj' : |aj - μaj| ≤ My * varTreeE u L d :=
        hmlj.trans (mul_le_mul_of_nonneg_left hεl hMy)
      have hmrj' : |bj - μbj| ≤ My * varTreeE u L d :=
        hmrj.trans (mul_le_mul_of_nonneg_left hεr hMy)
      have hEi : |(ai - bi) - (μai - μbi)| ≤ 2 * (Mx * varTreeE u L d) := by
        have e : (ai - bi) - (μai - μbi) = (ai - μai) - (bi - μbi) := by ring
        rw [e]
        refine (abs_sub _ _).trans ((add_le_add hmli' hmri').trans (le_of_eq ?_))
        ring
      have hEj : |(aj - bj) - (μaj - μbj)| ≤ 2 * (My * varTreeE u L d) := by
        have e : (aj - bj) - (μaj - μbj) = (aj - μaj) - (bj - μbj) := by ring
        rw [e]
        refine (abs_sub _ _).trans ((add_le_add hmlj' hmrj').trans (le_of_eq ?_))
        ring
      have hcmp := hc.compose il' ir' hEi hEj
      have happ := C06FloatCov.sumProdDev_append l.flatten r.flatten hN0
      rw [List.length_append, happ]
      refine hcmp.trans ?_
      have hμai := exact_mx_abs_le hMx l.flatten hxl
      have hμaj := exact_my_abs_le hMy l.flatten hyl
      have hμbi := exact_mx_abs_le hMx r.flatten hxr
      have hμbj := exact_my_abs_le hMy r.flatten hyr
      have hDi : |μai - μbi| ≤ 2 * Mx := (abs_sub _ _).trans (by linarith)
      have hDj : |μaj - μbj| ≤ 2 * My := (abs_sub _ _).trans (by linarith)
      have hSa := C06FloatCov.sumProdDev_abs_le_box hMx hMy l.flatten hxl hyl
      have hSb := C06FloatCov.sumProdDev_abs_le_box hMx hMy r.flatten hxr hyr
      have hcast : ((l.flatten.length + r.flatten.length : ℕ) : K)
          = (l.flatten.length : K) + (r.flatten.length : K) := by push_cast; rfl
      have hN : (0 : K) < (l.flatten.length : K) + (r.flatten.length : K) := by
        rw [← hcast]; exact Nat.cast_pos.mpr (by omega)
      have hP8 : (0 : K) ≤ (1 + u) ^ 8 := by positivity
      have hpoly := cov_tree_node_poly (Mx := Mx) (My := My) (n := (l.flatten.length : K))
        (m := (r.flatten.length : K)) (Sa := sumProdDev l.flatten) (Sb := sumProdDev r.flatten)
        (Di := μai - μbi) (Dj := μaj - μbj)
        (w := (l.flatten.length : K) * (r.flatten.length : K)
          / ((l.flatten.length + r.flatten.length : ℕ) : K))
        (ε := varTreeE u L d) (τ := covTreeT u L d)
        (γ4 := (1 + u) ^ 4 - 1) (γ8 := (1 + u) ^ 8 - 1) (P4 := (1 + u) ^ 4) (P8 := (1 + u) ^ 8)
        hMx hMy hn0 hm0 hN hεn (by rw [hcast]) hSa hSb hDi hDj (gam_nonneg hu 4) (gam_nonneg hu 8)
        hP8
      rw [covTreeT_succ, hcast] at *
      refine le_trans (le_of_eq ?_) (hpoly.trans (le_of_eq ?_))
      · ring
      · ring

/-! ### closed-form and linear upper bounds for the coefficient -/

/-- `T(L,d) ≤ (1+u)^(4d)·(62·L·u + d·(γ₄ + γ₈ + (1+u)⁸·(2ε(L,d) + ε(L,d)²)))` -/
theorem covTreeT_le_closed {u : K} (hu : 0 ≤ u) (L d : ℕ) :
    covTreeT u L d
      ≤ (1 + u) ^ (4 * d)
        * (62 * (L : K) * u + (d : K) * (((1 + u) ^ 4 - 1) + ((1 + u) ^ 8 - 1)
            + (1 + u) ^ 8 * (2 * varTreeE u L d + varTreeE u L d ^ 2))) := by
  induction d with
  | zero => rw [covTreeT_zero]; simp
  | succ d ih =>
    rw [covTreeT_succ]
    have hg := two_add_sq_mono (varTreeE_nonneg hu L d) (varTreeE_mono hu (le_refl L) (Nat.le_succ d))
    have hg0 : 0 ≤ 2 * varTreeE u L d + varTreeE u L d ^ 2 := by
      have := varTreeE_nonneg hu L d; positivity
    have g4 := gam_nonneg hu 4
    have g8 := gam_nonneg hu 8
    set g := 2 * varTreeE u L d + varTreeE u L d ^ 2 with hgdef
    set g' := 2 * varTreeE u L (d + 1) + varTreeE u L (d + 1) ^ 2 with hg'def
    set γ := ((1 + u) ^ 4 - 1) + ((1 + u) ^ 8 - 1) with hγdef
    have hγ0 : 0 ≤ γ := by rw [hγdef]; linarith
    have h4 : (0 : K) ≤ (1 + u) ^ 4 := by positivity
    have h8 : (0 : K) ≤ (1 + u) ^ 8 := by positivity
    have hd0 : (0 : K) ≤ (d : K) := Nat.cast_nonneg d
    have hpd : (1 : K) ≤ (1 + u) ^ (4 * (d + 1)) := one_le_pow₀ (by linarith)
    have hpd0 : (0 : K) ≤ (1 + u) ^ (4 * d) := by positivity
    have hgg : γ + (1 + u) ^ 8 * g ≤ γ + (1 + u) ^ 8 * g' := by
      have := mul_le_mul_of_nonneg_left hg h8; linarith
    have hgg0 : 0 ≤ γ + (1 + u) ^ 8 * g := by positivity
    -- P4·T(d) ≤ P4^(d+1)·(62Lu + d·(γ + P8·g'))
    have s1 : (1 + u) ^ 4 * covTreeT u L d
        ≤ (1 + u) ^ 4 * ((1 + u) ^ (4 * d)
          * (62 * (L : K) * u + (d : K) * (γ + (1 + u) ^ 8 * g'))) := by
      refine mul_le_mul_of_nonneg_left (ih.trans ?_) h4
      refine mul_le_mul_of_nonneg_left ?_ hpd0
      have : (d : K) * (γ + (1 + u) ^ 8 * g) ≤ (d : K) * (γ + (1 + u) ^ 8 * g') :=
        mul_le_mul_of_nonneg_left hgg hd0
      linarith
    -- γ + P8·g ≤ P4^(d+1)·(γ + P8·g')
    have s2 : γ + (1 + u) ^ 8 * g ≤ (1 + u) ^ (4 * (d + 1)) * (γ + (1 + u) ^ 8 * g') := by
      have a2 : 0 ≤ γ + (1 + u) ^ 8 * g' := hgg0.trans hgg
      calc γ + (1 + u) ^ 8 * g ≤ 1 * (γ + (1 + u) ^ 8 * g') := by linarith
        _ ≤ (1 + u) ^ (4 * (d + 1)) * (γ + (1 + u) ^ 8 * g') := mul_le_mul_of_nonneg_right hpd a2
    have e : (1 + u) ^ 4 * covTreeT u L d + ((1 + u) ^ 4 - 1) + ((1 + u) ^ 8 - 1) + (1 + u) ^ 8 * g
        = (1 + u) ^ 4 * covTreeT u L d + (γ + (1 + u) ^ 8 * g) := by rw [hγdef]; ring
    rw [e]
    refine (add_le_add s1 s2).trans (le_of_eq ?_)
    push_cast
    ring

/-- `(d : K) ≤ d·(L + d)` for natural numbers -/
theorem natCast_le_mul_add (L d : ℕ) : (d : K) ≤ (d : K) * ((L : K) + (d : K)) := by
  have hL0 : (0 : K) ≤ (L : K) := Nat.cast_nonneg L
  have hd0 : (0 : K) ≤ (d : K) := Nat.cast_nonneg d
  rcases Nat.eq_zero_or_pos d with h0 | hpos
  · subst h0; simp
  · have h1 : (1 : K) ≤ (d : K) := by exact_mod_cast hpos
    calc (d : K) = (d : K) * 1 := by ring
      _ ≤ (d : K) * ((L : K) + (d : K)) := mul_le_mul_of_nonneg_left (by linarith) hd0

/-- `T(L,d) ≤ (67·L + 30·d·(L+d))·u` for `64·L·u ≤ 1`, `64·d·u ≤ 1` -/
theorem covTreeT_lin {u : K} (hu : 0 ≤ u) (L d : ℕ) (hL : 64 * (L : K) * u ≤ 1)
    (hd : 64 * (d : K) * u ≤ 1) :
    covTreeT u L d ≤ (67 * (L : K) + 30 * (d : K) * ((L : K) + (d : K))) * u := by
  have hL0 : (0 : K) ≤ (L : K) := Nat.cast_nonneg L
  have hd0 : (0 : K) ≤ (d : K) := Nat.cast_nonneg d
  have hLu : 0 ≤ (L : K) * u := mul_nonneg hL0 hu
  have hdu : 0 ≤ (d : K) * u := mul_nonneg hd0 hu
  refine (covTreeT_le_closed hu L d).trans ?_
  -- ε ≤ 6(L+d)u ≤ 3/16
  have hε0 := varTreeE_nonneg hu L d
  have hε : varTreeE u L d ≤ 6 * ((L : K) + (d : K)) * u := by
    have := treeB_lin hu (zero_le_one (α := K)) L d (by linarith) (by linarith)
    rw [treeB_sub_eq] at this
    linarith
  have hε1 : varTreeE u L d ≤ 3 / 16 := by linarith
  set ε := varTreeE u L d with hεdef
  have hg : 2 * ε + ε ^ 2 ≤ 105 / 8 * (((L : K) + (d : K)) * u) := by
    have : ε * ε ≤ ε * (3 / 16) := mul_le_mul_of_nonneg_left hε1 hε0
    nlinarith
  have hg0 : 0 ≤ 2 * ε + ε ^ 2 := by positivity
  have g4n := gam_nonneg hu 4
  have g8n := gam_nonneg hu 8
  have h8 : (0 : K) ≤ (1 + u) ^ 8 := by positivity
  -- (1+u)^(4d) ≤ 273/256
  have hP : (1 + u) ^ (4 * d) ≤ 273 / 256 := by
    set x : K := ((4 * d : ℕ) : K) * u with hx
    have hxe : x = 4 * (d : K) * u := by rw [hx]; push_cast; ring
    have hx0 : 0 ≤ x := by rw [hxe]; positivity
    have hx1 : x ≤ 1 / 16 := by rw [hxe]; linarith
    have hp := one_add_pow_le hu (4 * d) (by rw [← hx]; linarith)
    rw [← hx] at hp
    have hxx : x * x ≤ x * (1 / 16) := mul_le_mul_of_nonneg_left hx1 hx0
    nlinarith
  have hLdu : 0 ≤ ((L : K) + (d : K)) * u := by positivity
  -- d·(γ₄ + γ₈ + P8·g) ≤ d·(101/8·u + 1133/1000·105/8·(L+d)u)
  have hdG : (d : K) * (((1 + u) ^ 4 - 1) + ((1 + u) ^ 8 - 1) + (1 + u) ^ 8 * (2 * ε + ε ^ 2))
      ≤ (d : K) * (101 / 8 * u + 1133 / 1000 * (105 / 8 * (((L : K) + (d : K)) * u))) := by
    rcases Nat.eq_zero_or_pos d with h0 | hpos
    · subst h0; simp
    · have h1 : (1 : K) ≤ (d : K) := by exact_mod_cast hpos
      have hu64 : u ≤ 1 / 64 := by
        have : u * 1 ≤ u * (d : K) := mul_le_mul_of_nonneg_left h1 hu
        linarith
      have g4 := gam4_le_64th hu hu64
      have g8 := gam8_le_64th hu hu64
      have hP8 : (1 + u) ^ 8 ≤ 1133 / 1000 := by linarith
      have hm : (1 + u) ^ 8 * (2 * ε + ε ^ 2)
          ≤ 1133 / 1000 * (105 / 8 * (((L : K) + (d : K)) * u)) :=
        mul_le_mul hP8 hg hg0 (by norm_num)
      exact mul_le_mul_of_nonneg_left (by linarith) hd0
  have hinner : 62 * (L : K) * u
        + (d : K) * (((1 + u) ^ 4 - 1) + ((1 + u) ^ 8 - 1) + (1 + u) ^ 8 * (2 * ε + ε ^ 2))
      ≤ 62 * (L : K) * u
        + (d : K) * (101 / 8 * u + 1133 / 1000 * (105 / 8 * (((L : K) + (d : K)) * u))) := by
    linarith
  have hinner0 : 0 ≤ 62 * (L : K) * u
      + (d : K) * (((1 + u) ^ 4 - 1) + ((1 + u) ^ 8 - 1) + (1 + u) ^ 8 * (2 * ε + ε ^ 2)) := by
    positivity
  have houter := mul_le_mul hP hinner hinner0 (by norm_num : (0 : K) ≤ 273 / 256)
  refine houter.trans ?_
  have hdLu : 0 ≤ (d : K) * (((L : K) + (d : K)) * u) := by positivity
  -- d·u ≤ d·(L+d)·u
  have hdd : (d : K) * u ≤ (d : K) * (((L : K) + (d : K)) * u) := by
    have := mul_le_mul_of_nonneg_right (natCast_le_mul_add (K := K) L d) hu
    calc (d : K) * u ≤ (d : K) * ((L : K) + (d : K)) * u := this
      _ = (d : K) * (((L : K) + (d : K)) * u) := by ring
  have e : 273 / 256 * (62 * (L : K) * u
        + (d : K) * (101 / 8 * u + 1133 / 1000 * (105 / 8 * (((L : K) + (d : K)) * u))))
      = 273 / 256 * 62 * ((L : K) * u) + 273 / 256 * (101 / 8) * ((d : K) * u)
        + 273 / 256 * (1133 / 1000) * (105 / 8) * ((d : K) * (((L : K) + (d : K)) * u)) := by ring
  have e' : (67 * (L : K) + 30 * (d : K) * ((L : K) + (d : K))) * u
      = 67 * ((L : K) * u) + 30 * ((d : K) * (((L : K) + (d : K)) * u)) := by ring
  rw [e, e']
  have c1 : (273 / 256 * 62 : K) ≤ 67 := by norm_num
  have c2 : (273 / 256 * (101 / 8) : K) ≤ 14 := by norm_num
  have c3 : (273 / 256 * (1133 / 1000) * (105 / 8) : K) ≤ 16 := by norm_num
  have t1 := mul_le_mul_of_nonneg_right c1 hLu
  have t2 := mul_le_mul_of_nonneg_right c2 hdu
  have t3 := mul_le_mul_of_nonneg_right c3 hdLu
  linarith

end Gpv
