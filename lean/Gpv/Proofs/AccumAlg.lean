/-
  Helper lemmas: the algebra of Mean / Variance / Cov2 over an arbitrary field of
  characteristic 0 (so: ℚ, ℝ, ℂ, …).  The definitions are the executable ones of
  `Gpv.Model.Accum`, instantiated at the field's own operations.
-/
import Gpv.Model.Accum
import Mathlib.Tactic.Ring
import Mathlib.Tactic.FieldSimp
import Mathlib.Tactic.LinearCombination
import Mathlib.Algebra.BigOperators.Group.List.Basic
import Mathlib.Algebra.Field.Basic
import Mathlib.Algebra.CharZero.Defs
import Mathlib.Data.Nat.Cast.Field
import Mathlib.Data.List.Induction
set_option linter.unusedSectionVars false

namespace Gpv
variable {K : Type} [Field K] [CharZero K]

/-- fold of the one-observation update over a sequence -/
def Mean.run (xs : List K) : Mean K := xs.foldl Mean.push Mean.init
def Variance.run (xs : List K) : Variance K := xs.foldl Variance.push Variance.init
def Cov2.run (ps : List (K × K)) : Cov2 K := ps.foldl (fun s p => s.push p.1 p.2) Cov2.init

theorem Mean.run_snoc (xs : List K) (x : K) : Mean.run (xs ++ [x]) = (Mean.run xs).push x := by
  simp [Mean.run, List.foldl_append]
theorem Variance.run_snoc (xs : List K) (x : K) : Variance.run (xs ++ [x]) = (Variance.run xs).push x := by
  simp [Variance.run, List.foldl_append]
theorem Cov2.run_snoc (ps : List (K × K)) (p : K × K) : Cov2.run (ps ++ [p]) = (Cov2.run ps).push p.1 p.2 := by
  simp [Cov2.run, List.foldl_append]

/-- sum of squares -/
def sumSq (xs : List K) : K := (xs.map fun x => x * x).sum
/-- sum of products -/
def sumProd (ps : List (K × K)) : K := (ps.map fun p => p.1 * p.2).sum

@[simp] theorem sumSq_nil : sumSq ([] : List K) = 0 := by simp [sumSq]
@[simp] theorem sumSq_snoc (xs : List K) (x : K) : sumSq (xs ++ [x]) = sumSq xs + x * x := by simp [sumSq]
@[simp] theorem sumProd_nil : sumProd ([] : List (K × K)) = 0 := by simp [sumProd]
@[simp] theorem sumProd_snoc (ps : List (K × K)) (p : K × K) : sumProd (ps ++ [p]) = sumProd ps + p.1 * p.2 := by
  simp [sumProd]

/-- the one-step mean identity: `val' * (n+1) = val * n + x` -/
theorem Mean.push_val (s : Mean K) (x : K) :
    (s.push x).val * ((s.n + 1 : Nat) : K) = s.val * (s.n : K) + x := by
  have h : ((s.n + 1 : Nat) : K) ≠ 0 := Nat.cast_ne_zero.mpr (Nat.succ_ne_zero _)
  simp only [Mean.push]
  field_simp
  push_cast
  ring

@[simp] theorem Mean.push_n (s : Mean K) (x : K) : (s.push x).n = s.n + 1 := rfl

/-- invariant of `Mean`: count and `val * n = Σ x` -/
theorem Mean.run_inv (xs : List K) :
    (Mean.run xs).n = xs.length ∧ (Mean.run xs).val * (xs.length : K) = xs.sum := by
  induction xs using List.reverseRec with
  | nil => simp [Mean.run, Mean.init]
  | append_singleton xs x ih =>
    obtain ⟨hn, hv⟩ := ih
    rw [Mean.run_snoc]
    refine ⟨by simp [hn], ?_⟩
    have := Mean.push_val (Mean.run xs) x
    rw [hn] at this
    simp only [List.length_append, List.length_singleton, List.sum_append, List.sum_singleton]
    rw [this, hv]

theorem Mean.run_val (xs : List K) (h : xs ≠ []) : (Mean.run xs).val = xs.sum / (xs.length : K) := by
  have hl : (xs.length : K) ≠ 0 := Nat.cast_ne_zero.mpr (by simpa using h)
  rw [eq_div_iff hl]; exact (Mean.run_inv xs).2

/-- invariant of `Variance` (Welford): with `n`, `S₁ = Σx`, `S₂ = Σx²` of the prefix,
    `mean.val·n = S₁` and `var.val·n·n = n·S₂ − S₁²`. -/
structure Variance.Inv (s : Variance K) (xs : List K) : Prop where
  mean_n : s.mean.n = xs.length
  var_n : s.var.n = xs.length
  mean_val : s.mean.val * (xs.length : K) = xs.sum
  var_val : s.var.val * (xs.length : K) * (xs.length : K) = (xs.length : K) * sumSq xs - xs.sum ^ 2

theorem Variance.push_inv (s : Variance K) (xs : List K) (x : K) (h : s.Inv xs) :
    (s.push x).Inv (xs ++ [x]) := by
  obtain ⟨hmn, hvn, hmv, hvv⟩ := h
  have hm' := Mean.push_val s.mean x
  rw [hmn, hmv] at hm'
  have hv' := Mean.push_val s.var ((x - s.mean.val) * (x - (s.mean.push x).val))
  rw [hvn] at hv'
  refine ⟨by simp [Variance.push, hmn], by simp [Variance.push, hvn], ?_, ?_⟩
  · simpa [Variance.push] using hm'
  · simp only [Variance.push, List.length_append, List.length_singleton, List.sum_append,
      List.sum_singleton, sumSq_snoc]
    rcases Nat.eq_zero_or_pos xs.length with h0 | hpos
    · -- first observation: S₁ = 0, S₂ = 0 because the prefix is empty
      have hx : xs = [] := List.length_eq_zero_iff.mp h0
      subst hx
      simp only [List.length_nil, Nat.cast_zero, mul_zero, List.sum_nil, zero_add, Nat.cast_one,
        mul_one] at hm' hv' ⊢
      simp only [sumSq_nil, zero_add, one_mul]
      rw [hv', hm']; ring
    · have hn : (xs.length : K) ≠ 0 := Nat.cast_ne_zero.mpr (Nat.pos_iff_ne_zero.mp hpos)
      have hn1 : ((xs.length + 1 : Nat) : K) ≠ 0 := Nat.cast_ne_zero.mpr (Nat.succ_ne_zero _)
      -- express the old mean / var and the new mean through the sums
      set n : K := (xs.length : K) with hndef
      have e1 : s.mean.val = xs.sum / n := by rw [eq_div_iff hn]; exact hmv
      have e2 : s.var.val = (n * sumSq xs - xs.sum ^ 2) / (n * n) := by
        rw [eq_div_iff (mul_ne_zero hn hn)]; rw [← mul_assoc]; exact hvv
      have hc : ((xs.length + 1 : Nat) : K) = n + 1 := by push_cast; rfl
      rw [hc] at hm' hv' hn1 ⊢
      have e3 : (s.mean.push x).val = (xs.sum + x) / (n + 1) := by rw [eq_div_iff hn1]; exact hm'
      have key : (s.var.push ((x - s.mean.val) * (x - (s.mean.push x).val))).val * (n + 1)
          = s.var.val * n + (x - s.mean.val) * (x - (s.mean.push x).val) := hv'
      have : (s.var.push ((x - s.mean.val) * (x - (s.mean.push x).val))).val * (n + 1) * (n + 1)
          = (s.var.val * n + (x - s.mean.val) * (x - (s.mean.push x).val)) * (n + 1) := by rw [key]
      rw [this, e1, e2, e3]
      field_simp
      ring

theorem Variance.run_inv (xs : List K) : (Variance.run xs).Inv xs := by
  induction xs using List.reverseRec with
  | nil => exact ⟨rfl, rfl, by simp, by simp⟩
  | append_singleton xs x ih => rw [Variance.run_snoc]; exact Variance.push_inv _ _ _ ih

/-- invariant of `Cov2` -/
structure Cov2.Inv (s : Cov2 K) (ps : List (K × K)) : Prop where
  mx_n : s.mx.n = ps.length
  my_n : s.my.n = ps.length
  c_n : s.c.n = ps.length
  mx_val : s.mx.val * (ps.length : K) = (ps.map Prod.fst).sum
  my_val : s.my.val * (ps.length : K) = (ps.map Prod.snd).sum
  c_val : s.c.val * (ps.length : K) * (ps.length : K)
      = (ps.length : K) * sumProd ps - (ps.map Prod.fst).sum * (ps.map Prod.snd).sum

theorem Cov2.push_inv (s : Cov2 K) (ps : List (K × K)) (p : K × K) (h : s.Inv ps) :
    (s.push p.1 p.2).Inv (ps ++ [p]) := by
  obtain ⟨hxn, hyn, hcn, hxv, hyv, hcv⟩ := h
  obtain ⟨x, y⟩ := p
  have hx' := Mean.push_val s.mx x
  rw [hxn, hxv] at hx'
  have hy' := Mean.push_val s.my y
  rw [hyn, hyv] at hy'
  have hc' := Mean.push_val s.c ((x - s.mx.val) * (y - (s.my.push y).val))
  rw [hcn] at hc'
  refine ⟨by simp [Cov2.push, hxn], by simp [Cov2.push, hyn], by simp [Cov2.push, hcn], ?_, ?_, ?_⟩
  · simpa [Cov2.push] using hx'
  · simpa [Cov2.push] using hy'
  · simp only [Cov2.push, List.length_append, List.length_singleton, List.map_append, List.map_cons,
      List.map_nil, List.sum_append, List.sum_singleton, sumProd_snoc]
    rcases Nat.eq_zero_or_pos ps.length with h0 | hpos
    · have hp : ps = [] := List.length_eq_zero_iff.mp h0
      subst hp
      simp only [List.length_nil, Nat.cast_zero, mul_zero, List.map_nil, List.sum_nil, zero_add,
        Nat.cast_one, mul_one] at hx' hy' hc' ⊢
      simp only [sumProd_nil, zero_add, one_mul]
      rw [hc', hy']; ring
    · have hn : (ps.length : K) ≠ 0 := Nat.cast_ne_zero.mpr (Nat.pos_iff_ne_zero.mp hpos)
      have hn1 : ((ps.length + 1 : Nat) : K) ≠ 0 := Nat.cast_ne_zero.mpr (Nat.succ_ne_zero _)
      set n : K := (ps.length : K) with hndef
      have e1 : s.mx.val = (ps.map Prod.fst).sum / n := by rw [eq_div_iff hn]; exact hxv
      have e1' : s.my.val = (ps.map Prod.snd).sum / n := by rw [eq_div_iff hn]; exact hyv
      have e2 : s.c.val = (n * sumProd ps - (ps.map Prod.fst).sum * (ps.map Prod.snd).sum) / (n * n) := by
        rw [eq_div_iff (mul_ne_zero hn hn)]; rw [← mul_assoc]; exact hcv
      have hc : ((ps.length + 1 : Nat) : K) = n + 1 := by push_cast; rfl
      rw [hc] at hx' hy' hc' hn1 ⊢
      have e3 : (s.my.push y).val = ((ps.map Prod.snd).sum + y) / (n + 1) := by
        rw [eq_div_iff hn1]; exact hy'
      have : (s.c.push ((x - s.mx.val) * (y - (s.my.push y).val))).val * (n + 1) * (n + 1)
          = (s.c.val * n + (x - s.mx.val) * (y - (s.my.push y).val)) * (n + 1) := by rw [hc']
      rw [this, e1, e2, e3]
      field_simp
      ring

theorem Cov2.run_inv (ps : List (K × K)) : (Cov2.run ps).Inv ps := by
  induction ps using List.reverseRec with
  | nil => exact ⟨rfl, rfl, rfl, by simp, by simp, by simp⟩
  | append_singleton ps p ih => rw [Cov2.run_snoc]; exact Cov2.push_inv _ _ _ ih

end Gpv
