/-
  Gpv.Proofs.FailInv — why a stream is in `failed`, and where its counters stand then.

  Parallel machine (`PS` / `step?`), consumer that only calls `next` (`ReachN`): `failed` is
  entered either by a `get` of an `err` outcome — and then the element at index `taken` is
  the failing one, `taken` itself is NOT incremented by that `get` — or by the flush of a
  pending source exception with everything taken (`FailCause`).

  Serial machine (`SS` / `sstep?`): `SReachN` (consumer only calls `next`), the invariant
  `SFInv` (every element before the last drawn one returned; the output at a function failure)
  and `SFailCause` (under `SReachN`, `failed` is the failure of the last drawn element or of
  the source).
-/
import Gpv.Proofs.PipelineInv
import Gpv.Proofs.PipelineRun
import Gpv.Proofs.FlatMapInv

namespace Gpv.Pipe
variable {α β ε : Type}

/-! ### generalities on lists -/

theorem getElem?_mem_take {xs : List α} {k n : Nat} {x : α} (h : xs[k]? = some x) (hk : k < n) :
    x ∈ xs.take n := by
  have : (xs.take n)[k]? = some x := by rw [List.getElem?_take_of_lt hk]; exact h
  exact List.mem_of_getElem? this

theorem getElem?_split_pre {pre post : List α} {x : α} {k : Nat} (hk : k < pre.length) :
    ∃ y, (pre ++ x :: post)[k]? = some y ∧ y ∈ pre := by
  refine ⟨pre[k], ?_, List.getElem_mem hk⟩
  rw [List.getElem?_append_left hk, List.getElem?_eq_getElem hk]

theorem getElem?_split_mid (pre post : List α) (x : α) : (pre ++ x :: post)[pre.length]? = some x := by
  simp

/-! ### parallel machine: the cause of `failed` under a `next`-only consumer -/

theorem isErrAt_iff {xs : List α} {f : α → Outcome β ε} {i : Nat} :
    isErrAt xs f i = true ↔ ∃ x e, xs[i]? = some x ∧ f x = .err e := by
  unfold isErrAt
  cases h : xs[i]? with
  | none => simp
  | some x =>
    cases hf : f x with
    | val v => simp [hf]
    | err e => simp [hf]

/-- in `failed`: the element at index `taken` is the failing one (its result was never taken out of
    the window as a counted result; it and the `cache.length` elements still in the window were
    drawn), or the source failed and every element had been taken -/
def FailCause (xs : List α) (tail : Option ε) (f : α → Outcome β ε) (s : PS β ε) : Prop :=
  s.pc = .failed →
    (isErrAt xs f s.taken = true ∧ s.taken + s.cache.length + 1 = s.drawn) ∨
    (s.taken = xs.length ∧ tail.isSome = true)

section par
variable {c : Cfg} {xs : List α} {tail : Option ε} {f : α → Outcome β ε} {p0 y0 : Nat} {s s' : PS β ε}

theorem FailCause.init : FailCause xs tail f (PS.init p0 y0 : PS β ε) := by
  intro h; cases h

theorem FailCause.getStep {pY pS : PC} (hp : PInv c xs tail f p0 y0 s)
    (hpc : (s.pc = .waitLoop ∧ pY = .yieldLoop ∧ pS = .loopHead) ∨
           (s.pc = .waitFlush ∧ pY = .yieldFlush ∧ pS = .flushHead))
    (hs : Pipe.getStep c xs f s pY pS = some s') : FailCause xs tail f s' := by
  obtain ⟨i, rest, x, hc, hx, hcase⟩ := getStep_some hs
  have g := hp.g
  have hnf : s.pc ≠ .failed := by rcases hpc with ⟨h, -⟩ | ⟨h, -⟩ <;> simp [h]
  have hi : i = s.taken := by
    have h5 := g.idx
    have h3 := g.win_eq hnf
    rw [hc] at h5 h3
    simp only [List.map_cons, List.length_cons, List.range'_succ] at h5 h3
    have := (List.cons.inj h5).1
    omega
  subst hi
  have hpY : pY ≠ .failed := by rcases hpc with ⟨-, rfl, -⟩ | ⟨-, rfl, -⟩ <;> simp
  have hpS : pS ≠ .failed := by rcases hpc with ⟨-, -, rfl⟩ | ⟨-, -, rfl⟩ <;> simp
  rcases hcase with ⟨v, -, -, rfl⟩ | ⟨v, -, -, rfl⟩ | ⟨e, he, rfl⟩
  · intro h; exact absurd h hpY
  · intro h; exact absurd h hpS
  · intro _
    refine .inl ⟨isErrAt_iff.2 ⟨x, e, hx, he⟩, ?_⟩
    have h3 := g.win_eq hnf
    rw [hc] at h3
    simp only [List.length_cons] at h3
    show s.taken + rest.length + 1 = s.drawn
    omega

theorem FailCause.step {l : Label ε} (hp : PInv c xs tail f p0 y0 s) (hc : FailCause xs tail f s)
    (hl : l.isConsumerAbort = false) (hs : step? c xs tail f s l = some s') : FailCause xs tail f s' := by
  cases l with
  | close => cases hl
  | throw e => cases hl
  | next =>
    simp only [step?] at hs
    split at hs <;> (try cases hs) <;> (try exact hc) <;> (intro h; cases h)
  | draw =>
    simp only [step?] at hs
    by_cases hpc : s.pc = .loopHead
    case neg => rw [if_neg hpc] at hs; cases hs
    rw [if_pos hpc] at hs
    split at hs
    · cases hs
      intro h
      simp only at h
      split at h <;> cases h
    · cases hs; intro h; cases h
  | start i =>
    simp only [step?] at hs
    split at hs
    · cases hs
      intro h
      rcases hc h with ⟨a, b⟩ | d
      · exact .inl ⟨a, by simpa using b⟩
      · exact .inr d
    · cases hs
  | finish i =>
    simp only [step?] at hs
    split at hs
    · cases hs
      intro h
      rcases hc h with ⟨a, b⟩ | d
      · exact .inl ⟨a, by simpa using b⟩
      · exact .inr d
    · cases hs
  | get =>
    simp only [step?] at hs
    split at hs
    · exact FailCause.getStep hp (.inl ⟨by assumption, rfl, rfl⟩) hs
    · exact FailCause.getStep hp (.inr ⟨by assumption, rfl, rfl⟩) hs
    · cases hs
  | flush =>
    simp only [step?] at hs
    by_cases hpc : s.pc = .flushHead
    case neg => rw [if_neg hpc] at hs; cases hs
    rw [if_pos hpc] at hs
    have g := hp.g
    split at hs
    · rename_i hemp
      have hemp : s.cache = [] := by simpa using hemp
      obtain ⟨hpend, hdr⟩ := g.pend_flush (by simp [hpc, PC.inFlush])
      have htk : s.taken = xs.length := by
        have := g.win_eq (by simp [hpc]); simp [hemp] at this; omega
      split at hs <;> cases hs <;> rename_i hp'
      · intro _
        refine .inr ⟨htk, ?_⟩
        rw [← hpend, hp']; rfl
      · intro h; cases h
    · cases hs; intro h; cases h

theorem ReachN.failCause (h : ReachN c xs tail f p0 y0 s) : FailCause xs tail f s := by
  induction h with
  | init => exact FailCause.init
  | step l hr hl hs ih => exact ih.step hr.pinv hl hs

/-- a function failure: at `failed` exactly the elements before the failing one have been taken -/
theorem ReachN.taken_at_function_failure (h : ReachN c xs tail f p0 y0 s) (hf : s.pc = .failed)
    {pre post : List α} {x : α} {e : ε} (hxs : xs = pre ++ x :: post) (hpre : NoErr f pre)
    (hx : f x = .err e) : s.taken = pre.length := by
  have hne := h.pinv.noerr
  have hle : s.taken ≤ pre.length := by
    rcases Nat.lt_or_ge pre.length s.taken with hlt | hge
    · exfalso
      have hm : x ∈ xs.take s.taken := by
        apply getElem?_mem_take (k := pre.length) _ hlt
        rw [hxs]; exact getElem?_split_mid pre post x
      obtain ⟨v, hv⟩ := hne x hm
      rw [hx] at hv; cases hv
    · exact hge
  rcases h.failCause hf with ⟨hc, -⟩ | ⟨hc, -⟩
  · obtain ⟨y, e', hy, he'⟩ := isErrAt_iff.1 hc
    rcases Nat.lt_or_ge s.taken pre.length with hlt | hge
    · exfalso
      obtain ⟨y', hy', hmem⟩ := getElem?_split_pre (post := post) (x := x) hlt
      rw [hxs, hy'] at hy; cases hy
      obtain ⟨v, hv⟩ := hpre y hmem
      rw [he'] at hv; cases hv
    · omega
  · exfalso
    rw [hc, List.take_length] at hne
    obtain ⟨v, hv⟩ := hne x (by rw [hxs]; simp)
    rw [hx] at hv; cases hv

/-- a function failure: the failing element and the `cache.length` elements still in the window
    have been drawn but are not counted -/
theorem ReachN.drawn_at_function_failure (h : ReachN c xs tail f p0 y0 s) (hf : s.pc = .failed)
    {pre post : List α} {x : α} {e : ε} (hxs : xs = pre ++ x :: post) (hpre : NoErr f pre)
    (hx : f x = .err e) : s.drawn = pre.length + 1 + s.cache.length := by
  have ht := h.taken_at_function_failure hf hxs hpre hx
  rcases h.failCause hf with ⟨-, hd⟩ | ⟨hc, -⟩
  · omega
  · exfalso
    rw [ht, hxs] at hc
    simp at hc

/-- a source failure: at `failed` every element has been taken -/
theorem ReachN.taken_at_source_failure (h : ReachN c xs tail f p0 y0 s) (hf : s.pc = .failed)
    (hall : NoErr f xs) : s.taken = xs.length ∧ tail.isSome = true := by
  rcases h.failCause hf with ⟨hc, -⟩ | hc
  · exfalso
    obtain ⟨y, e', hy, he'⟩ := isErrAt_iff.1 hc
    obtain ⟨v, hv⟩ := hall y (List.mem_of_getElem? hy)
    rw [he'] at hv; cases hv
  · exact hc

end par

/-! ### serial machine -/

/-- the consumer gives up: `close()` or `throw(e)` -/
def SLabel.isConsumerAbort : SLabel ε → Bool
  | .close => true
  | .throw _ => true
  | _ => false

/-- states of the serial machine reachable when the consumer only ever calls `next` -/
inductive SReachN (c : Cfg) (xs : List α) (tail : Option ε) (g : α → SOutcome β ε) (p0 y0 : Nat) :
    SS β ε → Prop where
  | init : SReachN c xs tail g p0 y0 (SS.init p0 y0)
  | step {s s' : SS β ε} (l : SLabel ε) : SReachN c xs tail g p0 y0 s →
      l.isConsumerAbort = false →
      sstep? c xs tail g s l = some s' → SReachN c xs tail g p0 y0 s'

theorem SReachN.sreach {c : Cfg} {xs : List α} {tail : Option ε} {g : α → SOutcome β ε} {p0 y0 : Nat}
    {s : SS β ε} (h : SReachN c xs tail g p0 y0 s) : SReach c xs tail g p0 y0 s := by
  induction h with
  | init => exact .init
  | step l _ _ hs ih => exact .step l ih hs

def SS.isFinal (s : SS β ε) : Bool := s.pc = .done || s.pc = .failed || s.pc = .closed

/-- every consumer: all elements before the last drawn one returned (also in `failed`), and if
    the stream is in `failed` and the last drawn element is a failing one, the output is the
    expansions of the elements before it and then its exception -/
structure SFInv (c : Cfg) (xs : List α) (g : α → SOutcome β ε) (s : SS β ε) : Prop where
  before : ∀ y ∈ xs.take (s.drawn - 1), (g y).returned = true
  fn_out : s.pc = .failed → 1 ≤ s.drawn → ∀ x e, xs[s.drawn - 1]? = some x → g x = .err e →
    s.out = flatOut c g (xs.take (s.drawn - 1)) ++ [.raised e]

/-- `next`-only consumer: `failed` is the failure of the last drawn element or that of the source -/
def SFailCause (xs : List α) (tail : Option ε) (g : α → SOutcome β ε) (s : SS β ε) : Prop :=
  s.pc = .failed →
    (1 ≤ s.drawn ∧ ∃ x e, xs[s.drawn - 1]? = some x ∧ g x = .err e) ∨
    (s.drawn = xs.length ∧ tail.isSome = true ∧ ∀ y ∈ xs, (g y).returned = true)

section ser
variable {c : Cfg} {xs : List α} {tail : Option ε} {g : α → SOutcome β ε} {p0 y0 : Nat} {s s' : SS β ε}

/-- a finished serial stream is inert (no reachability needed) -/
theorem sfinal_step_eq (hfin : s.isFinal = true) {l : SLabel ε}
    (hs : sstep? c xs tail g s l = some s') : s' = s := by
  cases l <;> cases hpc : s.pc <;> simp_all [SS.isFinal, sstep?]

theorem sfinal_run_eq (hfin : s.isFinal = true) (ls : List (SLabel ε))
    (hr : srun c xs tail g s ls = some s') : s' = s := by
  induction ls with
  | nil => exact (Option.some.inj hr).symm
  | cons l ls ih =>
    simp only [srun] at hr
    cases h1 : sstep? c xs tail g s l with
    | none => rw [h1] at hr; cases hr
    | some s1 =>
      rw [h1] at hr
      have := sfinal_step_eq hfin h1
      subst this
      exact ih hr

theorem take_pred_subset {y : α} {n : Nat} (h : y ∈ xs.take (n - 1)) : y ∈ xs.take n := by
  have : xs.take (n - 1) = (xs.take n).take (n - 1) := by
    rw [List.take_take]; congr 1; omega
  rw [this] at h
  exact List.mem_of_mem_take h

theorem SFInv.init : SFInv c xs g (SS.init p0 y0 : SS β ε) := by
  constructor <;> simp [SS.init]

/-- outside `failed` the clause `before` is a consequence of `FInv.noerr` -/
theorem SFInv.of_not_failed (hf : FInv c xs tail g s) (hnf : s.pc ≠ .failed) : SFInv c xs g s :=
  ⟨fun y hy => hf.noerr hnf y (take_pred_subset hy), fun h => absurd h hnf⟩

theorem SFInv.step {l : SLabel ε} (hf : FInv c xs tail g s) (hf' : FInv c xs tail g s')
    (h : SFInv c xs g s) (hs : sstep? c xs tail g s l = some s') : SFInv c xs g s' := by
  by_cases hnf' : s'.pc ≠ .failed
  · exact SFInv.of_not_failed hf' hnf'
  have hfail' : s'.pc = .failed := by simpa using hnf'
  by_cases hfin : s.isFinal = true
  · rw [sfinal_step_eq hfin hs]; exact h
  have hnf : s.pc ≠ .failed := by
    intro e; apply hfin; simp [SS.isFinal, e]
  have hne := hf.noerr hnf
  -- the last drawn element of `s` returned
  have hlast : ∀ x, 1 ≤ s.drawn → xs[s.drawn - 1]? = some x → (g x).returned = true := by
    intro x hpos hx
    exact hne x (getElem?_mem_take hx (by omega))
  cases l with
  | next =>
    simp only [sstep?] at hs
    split at hs <;> (try cases hs) <;> simp_all [SS.isFinal]
  | close =>
    simp only [sstep?] at hs
    split at hs <;> (try cases hs) <;> simp_all [SS.isFinal]
  | pull =>
    simp only [sstep?] at hs
    split at hs
    · rename_i hpc
      split at hs
      · cases hs; cases hfail'
      · split at hs <;> cases hs
        · cases hfail'
        · exact absurd hfail' (by simp [hpc])
    · cases hs
  | throw e =>
    simp only [sstep?] at hs
    split at hs <;> (try cases hs)
    all_goals
      refine ⟨h.before, ?_⟩
      intro _ hpos x e' hx he'
      have := hlast x hpos hx
      rw [he'] at this; cases this
  | draw =>
    simp only [sstep?] at hs
    by_cases hpc : s.pc = .loopHead
    case neg => rw [if_neg hpc] at hs; cases hs
    rw [if_pos hpc] at hs
    obtain ⟨-, hout, -⟩ := hf.head hpc
    split at hs
    · rename_i x hx
      split at hs <;> cases hs
      · cases hfail'
      · cases hfail'
      · rename_i e hg
        refine ⟨fun y hy => hne y (by simpa using hy), ?_⟩
        intro _ _ x' e' hx' he'
        have hx'' : xs[s.drawn]? = some x' := by simpa using hx'
        rw [hx] at hx''; cases hx''
        rw [hg] at he'; cases he'
        show s.out ++ _ = _
        rw [hout]; simp
    · split at hs <;> cases hs
      · refine ⟨h.before, ?_⟩
        intro _ hpos x e' hx he'
        have := hlast x hpos hx
        rw [he'] at this; cases this
      · cases hfail'

theorem SReach.sfinv (h : SReach c xs tail g p0 y0 s) : SFInv c xs g s := by
  induction h with
  | init => exact SFInv.init
  | step l hr hs ih => exact ih.step hr.finv (hr.finv.step hs) hs

theorem SFailCause.init : SFailCause xs tail g (SS.init p0 y0 : SS β ε) := by
  intro h; cases h

theorem SFailCause.step {l : SLabel ε} (hf : FInv c xs tail g s) (h : SFailCause xs tail g s)
    (hl : l.isConsumerAbort = false) (hs : sstep? c xs tail g s l = some s') :
    SFailCause xs tail g s' := by
  cases l with
  | close => cases hl
  | throw e => cases hl
  | next =>
    simp only [sstep?] at hs
    split at hs <;> (try cases hs) <;> (try exact h) <;> (intro h'; cases h')
  | pull =>
    simp only [sstep?] at hs
    split at hs
    · rename_i hpc
      split at hs
      · cases hs; intro h'; cases h'
      · split at hs <;> cases hs
        · intro h'; cases h'
        · intro h'; exact absurd h' (by simp [hpc])
    · cases hs
  | draw =>
    simp only [sstep?] at hs
    by_cases hpc : s.pc = .loopHead
    case neg => rw [if_neg hpc] at hs; cases hs
    rw [if_pos hpc] at hs
    have hne := hf.noerr (by simp [hpc])
    split at hs
    · rename_i x hx
      split at hs <;> cases hs
      · intro h'; cases h'
      · intro h'; cases h'
      · rename_i e hg
        intro _
        exact .inl ⟨by show 1 ≤ s.drawn + 1; omega, x, e, by simpa using hx, hg⟩
    · rename_i hx
      have hge : xs.length ≤ s.drawn := by
        rcases Nat.lt_or_ge s.drawn xs.length with h' | h'
        · rw [List.getElem?_eq_getElem h'] at hx; cases hx
        · exact h'
      have hd := hf.drawn_le
      have hall : xs.take s.drawn = xs := List.take_of_length_le hge
      rw [hall] at hne
      split at hs <;> cases hs
      · intro _
        exact .inr ⟨by show s.drawn = _; omega, rfl, hne⟩
      · intro h'; cases h'

theorem SReachN.sfailCause (h : SReachN c xs tail g p0 y0 s) : SFailCause xs tail g s := by
  induction h with
  | init => exact SFailCause.init
  | step l hr hl hs ih => exact ih.step hr.sreach.finv hl hs

/-! ### the serial counters relative to the first failing element -/

theorem returned_false_of_err {r : SOutcome β ε} {e : ε} (h : r = .err e) : r.returned = false := by
  rw [h]; rfl

/-- every consumer: never more than the failing element is drawn -/
theorem SReach.drawn_le_failure (h : SReach c xs tail g p0 y0 s)
    {pre post : List α} {x : α} {e : ε} (hxs : xs = pre ++ x :: post) (hx : g x = .err e) :
    s.drawn ≤ pre.length + 1 := by
  rcases Nat.lt_or_ge (pre.length + 1) s.drawn with hlt | hge
  · exfalso
    have hm : x ∈ xs.take (s.drawn - 1) := by
      apply getElem?_mem_take (k := pre.length) _ (by omega)
      rw [hxs]; exact getElem?_split_mid pre post x
    have := h.sfinv.before x hm
    rw [returned_false_of_err hx] at this; cases this
  · exact hge

theorem count_returned_take (g : α → SOutcome β ε) {pre post : List α} {x : α} {e : ε}
    (hpre : ∀ y ∈ pre, (g y).returned = true) (hx : g x = .err e) (d : Nat) (hd : d ≤ pre.length + 1) :
    (((pre ++ x :: post).take d).filter fun x => (g x).returned).length = min d pre.length := by
  rcases Nat.lt_or_ge pre.length d with hlt | hge
  · have hd' : d = pre.length + 1 := by omega
    subst hd'
    have : (pre ++ x :: post).take (pre.length + 1) = pre ++ [x] := by
      rw [List.take_append]; simp [List.take_of_length_le]
    rw [this, List.filter_append, List.length_append]
    have h1 : pre.filter (fun x => (g x).returned) = pre := List.filter_eq_self.2 hpre
    rw [h1]
    simp [returned_false_of_err hx]
  · rw [List.take_append_of_le_length hge]
    have h1 : (pre.take d).filter (fun x => (g x).returned) = pre.take d :=
      List.filter_eq_self.2 fun y hy => hpre y (List.mem_of_mem_take hy)
    rw [h1, List.length_take]

/-- every consumer, every reachable state: `processed` counts the drawn elements, except the failing one -/
theorem SReach.processed_min (h : SReach c xs tail g p0 y0 s)
    {pre post : List α} {x : α} {e : ε} (hxs : xs = pre ++ x :: post)
    (hpre : ∀ y ∈ pre, (g y).returned = true) (hx : g x = .err e) :
    s.processed = p0 + min s.drawn pre.length := by
  have hd := h.drawn_le_failure hxs hx
  rw [h.sinv.proc]
  subst hxs
  rw [count_returned_take g hpre hx s.drawn hd]

/-- every consumer: the failing element has been drawn exactly in the states `failed` by its failure -/
theorem SReach.failed_of_drawn_failing (h : SReach c xs tail g p0 y0 s)
    {pre post : List α} {x : α} {e : ε} (hxs : xs = pre ++ x :: post) (hx : g x = .err e)
    (hd : s.drawn = pre.length + 1) : s.pc = .failed := by
  apply Classical.byContradiction
  intro hnf
  have hm : x ∈ xs.take s.drawn := by
    apply getElem?_mem_take (k := pre.length) _ (by omega)
    rw [hxs]; exact getElem?_split_mid pre post x
  have := h.finv.noerr hnf x hm
  rw [returned_false_of_err hx] at this; cases this

/-- `next`-only consumer: `failed` means that the failing element has just been drawn -/
theorem SReachN.drawn_at_function_failure (h : SReachN c xs tail g p0 y0 s) (hf : s.pc = .failed)
    {pre post : List α} {x : α} {e : ε} (hxs : xs = pre ++ x :: post)
    (hpre : ∀ y ∈ pre, (g y).returned = true) (hx : g x = .err e) : s.drawn = pre.length + 1 := by
  have hle := h.sreach.drawn_le_failure hxs hx
  rcases h.sfailCause hf with ⟨hpos, y, e', hy, he'⟩ | ⟨-, -, hall⟩
  · rcases Nat.lt_or_ge (s.drawn - 1) pre.length with hlt | hge
    · exfalso
      obtain ⟨y', hy', hmem⟩ := getElem?_split_pre (post := post) (x := x) hlt
      rw [hxs, hy'] at hy; cases hy
      have := hpre y hmem
      rw [returned_false_of_err he'] at this; cases this
    · omega
  · exfalso
    have := hall x (by rw [hxs]; simp)
    rw [returned_false_of_err hx] at this; cases this

/-- the output at a function failure (every consumer, given that the failing element was drawn) -/
theorem SReach.out_at_function_failure (h : SReach c xs tail g p0 y0 s)
    {pre post : List α} {x : α} {e : ε} (hxs : xs = pre ++ x :: post) (hx : g x = .err e)
    (hd : s.drawn = pre.length + 1) : s.out = flatOut c g pre ++ [.raised e] := by
  have hf := h.failed_of_drawn_failing hxs hx hd
  have hmid : xs[s.drawn - 1]? = some x := by
    rw [hd, hxs]; simp
  have := h.sfinv.fn_out hf (by omega) x e hmid hx
  rw [this, hd, hxs]
  simp

end ser

end Gpv.Pipe
