/-
  Helper lemmas for C12 (P² part): the array estimator `P2V` of `Gpv.Model.P2Vec`
  (whole-row numpy operations, `np.where` selections) is, component by component, the scalar
  estimator `P2` of `Gpv.Model.P2`.
-/
import Gpv.Model.P2Vec
import Gpv.Proofs.P2Alg
set_option linter.unusedSectionVars false

namespace Gpv
variable {K : Type} [Field K] [LinearOrder K] [IsStrictOrderedRing K]

/-! ### rows: `getD` of the numpy-style row operations -/

theorem length_rmap₂ {α β γ : Type} (f : α → β → γ) (a : List α) (b : List β) :
    (rmap₂ f a b).length = min a.length b.length := by simp [rmap₂]

theorem getD_rmap₂ {α β γ : Type} (f : α → β → γ) (a : List α) (b : List β) (c : ℕ)
    (za : α) (zb : β) (zc : γ) (ha : c < a.length) (hb : c < b.length) :
    (rmap₂ f a b).getD c zc = f (a.getD c za) (b.getD c zb) := by
  simp [rmap₂, List.getD_eq_getElem?_getD, ha, hb]

theorem getD_rmap₂_KK (f : K → K → K) (a b : List K) (c : ℕ) (ha : c < a.length)
    (hb : c < b.length) : (rmap₂ f a b).getD c 0 = f (a.getD c 0) (b.getD c 0) :=
  getD_rmap₂ f a b c 0 0 0 ha hb

theorem getD_rmap₂_KB (f : K → K → Bool) (a b : List K) (c : ℕ) (ha : c < a.length)
    (hb : c < b.length) : (rmap₂ f a b).getD c false = f (a.getD c 0) (b.getD c 0) :=
  getD_rmap₂ f a b c 0 0 false ha hb

theorem getD_rmap₂_BB (f : Bool → Bool → Bool) (a b : List Bool) (c : ℕ) (ha : c < a.length)
    (hb : c < b.length) : (rmap₂ f a b).getD c false = f (a.getD c false) (b.getD c false) :=
  getD_rmap₂ f a b c false false false ha hb

theorem length_rwhere (cnd : List Bool) (a b : Row K) :
    (rwhere cnd a b).length = min (min cnd.length a.length) b.length := by simp [rwhere]

theorem getD_rwhere (cnd : List Bool) (a b : Row K) (c : ℕ) (z : K) (hc : c < cnd.length)
    (ha : c < a.length) (hb : c < b.length) :
    (rwhere cnd a b).getD c z = if cnd.getD c false then a.getD c z else b.getD c z := by
  simp [rwhere, List.getD_eq_getElem?_getD, hc, ha, hb]

theorem length_rbc (d : ℕ) (x : K) : (rbc d x).length = d := by simp [rbc]

theorem getD_rbc (d : ℕ) (x z : K) (c : ℕ) (hc : c < d) : (rbc d x).getD c z = x := by
  simp [rbc, List.getD_eq_getElem?_getD, hc]

theorem getD_map' {α β : Type} (f : α → β) (l : List α) (c : ℕ) (z : β) (z' : α)
    (hc : c < l.length) : (l.map f).getD c z = f (l.getD c z') := by
  simp [List.getD_eq_getElem?_getD, hc]

theorem getD_map_KK (f : K → K) (l : List K) (c : ℕ) (hc : c < l.length) :
    (l.map f).getD c 0 = f (l.getD c 0) := getD_map' f l c 0 0 hc

theorem getD_map_KB (f : K → Bool) (l : List K) (c : ℕ) (hc : c < l.length) :
    (l.map f).getD c false = f (l.getD c 0) := getD_map' f l c false 0 hc

theorem getD_ofFn {d : ℕ} (f : Fin d → K) (c : ℕ) (z : K) (hc : c < d) :
    (List.ofFn f).getD c z = f ⟨c, hc⟩ := by
  simp [List.getD_eq_getElem?_getD, hc]


/-! ### one marker of step B3: rows against scalars -/

/-- the body of `adjustOneV` as a function of the six rows involved (`t` = q[i]·n) -/
def stepRows (d : ℕ) (t : K) (h0 h1 h2 p0 p1 p2 : Row K) : Row K × Row K :=
  let zero : K := ((0 : Nat) : K)
  let one : K := ((1 : Nat) : K)
  let posdiff := rmap₂ (· - ·) (rbc d t) p1
  let dir := posdiff.map sign
  let par := List.ofFn fun (c : Fin d) =>
    parabolic (h0.getD c zero) (h1.getD c zero) (h2.getD c zero) (p0.getD c zero) (p1.getD c zero) (p2.getD c zero)
      (dir.getD c zero)
  let neg := dir.map fun x => decide (x < zero)
  let hd := rwhere neg h0 h2
  let pd := rwhere neg p0 p2
  let lin := List.ofFn fun (c : Fin d) =>
    linear (h1.getD c zero) (hd.getD c zero) (p1.getD c zero) (pd.getD c zero) (dir.getD c zero)
  let lstep := rmap₂ (fun a b => a && b) (posdiff.map fun x => decide (x ≤ -one))
                 ((rmap₂ (· - ·) p0 p1).map fun x => decide (x < -one))
  let rstep := rmap₂ (fun a b => a && b) (posdiff.map fun x => decide (one ≤ x))
                 ((rmap₂ (· - ·) p2 p1).map fun x => decide (one < x))
  let adj := rmap₂ (fun a b => a || b) lstep rstep
  let ok := rmap₂ (fun a b => a && b) (rmap₂ (fun a b => decide (a < b)) h0 par) (rmap₂ (fun a b => decide (a < b)) par h2)
  let hnew := rwhere adj (rwhere ok par lin) h1
  let pnew := rwhere adj (rmap₂ (· + ·) p1 dir) p1
  (hnew, pnew)

theorem adjustOneV_eq (q : List K) (d n : ℕ) (h pos : List (Row K)) (i : ℕ) :
    adjustOneV q d n (h, pos) i =
      (h.set i (stepRows d (nth q i * (n : K)) (rowAt h (i - 1)) (rowAt h i) (rowAt h (i + 1))
          (rowAt pos (i - 1)) (rowAt pos i) (rowAt pos (i + 1))).1,
       pos.set i (stepRows d (nth q i * (n : K)) (rowAt h (i - 1)) (rowAt h i) (rowAt h (i + 1))
          (rowAt pos (i - 1)) (rowAt pos i) (rowAt pos (i + 1))).2) := rfl

/-- the body of the scalar `adjustOne`: new height and new rank of marker i -/
def stepScalar (t h0 h1 h2 p0 p1 p2 : K) : K × K :=
  let posdiff := t - p1
  let d := sign posdiff
  let par := parabolic h0 h1 h2 p0 p1 p2 d
  let lin := linear h1 (if d < 0 then h0 else h2) p1 (if d < 0 then p0 else p2) d
  if (posdiff ≤ -1 ∧ p0 - p1 < -1) ∨ (1 ≤ posdiff ∧ 1 < p2 - p1) then
    (if h0 < par ∧ par < h2 then par else lin, p1 + d)
  else (h1, p1)

theorem adjustOne_eq (q : List K) (n : ℕ) (h pos : List K) (i : ℕ) :
    adjustOne q n (h, pos) i =
      (h.set i (stepScalar (nth q i * (n : K)) (nth h (i - 1)) (nth h i) (nth h (i + 1))
          (nth pos (i - 1)) (nth pos i) (nth pos (i + 1))).1,
       pos.set i (stepScalar (nth q i * (n : K)) (nth h (i - 1)) (nth h i) (nth h (i + 1))
          (nth pos (i - 1)) (nth pos i) (nth pos (i + 1))).2) := by
  simp only [adjustOne, stepScalar, Nat.cast_zero, Nat.cast_one]
  split_ifs <;> simp [set_nth_self]

/-- per component, the `np.where` selections of the row computation are the scalar `if`s —
    whatever branches the other components take -/
theorem stepRows_getD (d : ℕ) (t : K) (h0 h1 h2 p0 p1 p2 : Row K) (c : ℕ) (hc : c < d)
    (l0 : h0.length = d) (l1 : h1.length = d) (l2 : h2.length = d)
    (m0 : p0.length = d) (m1 : p1.length = d) (m2 : p2.length = d) :
    ((stepRows d t h0 h1 h2 p0 p1 p2).1.getD c 0, (stepRows d t h0 h1 h2 p0 p1 p2).2.getD c 0) =
      stepScalar t (h0.getD c 0) (h1.getD c 0) (h2.getD c 0) (p0.getD c 0) (p1.getD c 0) (p2.getD c 0) := by
  simp only [stepRows, stepScalar, Nat.cast_zero, Nat.cast_one]
  simp [rmap₂, rwhere, rbc, l0, l1, l2, m0, m1, m2, hc]
  split_ifs <;> rfl

theorem stepRows_length (d : ℕ) (t : K) (h0 h1 h2 p0 p1 p2 : Row K)
    (l0 : h0.length = d) (l1 : h1.length = d) (l2 : h2.length = d)
    (m0 : p0.length = d) (m1 : p1.length = d) (m2 : p2.length = d) :
    (stepRows d t h0 h1 h2 p0 p1 p2).1.length = d ∧ (stepRows d t h0 h1 h2 p0 p1 p2).2.length = d := by
  simp [stepRows, rmap₂, rwhere, rbc, l0, l1, l2, m0, m1, m2]

/-! ### tables: columns -/

/-- column `c` of a marker table -/
def colOf (c : ℕ) (t : List (Row K)) : List K := t.map fun r => r.getD c 0

/-- all rows have `d` components -/
def RowsOK (d : ℕ) (t : List (Row K)) : Prop := ∀ r ∈ t, r.length = d

theorem P2V.col_eq (s : P2V K) (c : ℕ) : s.col c = ⟨s.q, s.n, colOf c s.h, colOf c s.pos⟩ := by
  simp [P2V.col, colOf]

@[simp] theorem colOf_length (c : ℕ) (t : List (Row K)) : (colOf c t).length = t.length := by
  simp [colOf]

theorem getD_rowAt (t : List (Row K)) (i c : ℕ) : (rowAt t i).getD c 0 = nth (colOf c t) i := by
  by_cases hi : i < t.length
  · simp [rowAt, nth, colOf, hi]
  · simp [rowAt, nth, colOf, hi]

theorem rowAt_length {d : ℕ} {t : List (Row K)} (ok : RowsOK d t) {i : ℕ} (hi : i < t.length) :
    (rowAt t i).length = d := by
  have : rowAt t i = t[i] := by simp [rowAt, hi]
  rw [this]; exact ok _ (List.getElem_mem hi)

theorem colOf_set (c : ℕ) (t : List (Row K)) (i : ℕ) (r : Row K) :
    colOf c (t.set i r) = (colOf c t).set i (r.getD c 0) := by
  simp [colOf, List.map_set]

theorem RowsOK.set {d : ℕ} {t : List (Row K)} (ok : RowsOK d t) (i : ℕ) {r : Row K}
    (hr : r.length = d) : RowsOK d (t.set i r) := by
  intro r' hr'
  rcases List.mem_or_eq_of_mem_set hr' with h | h
  · exact ok _ h
  · rw [h]; exact hr

/-- the heart: column `c` of the row-wise step B3 at marker `i` is the scalar step on column `c`,
    whatever the other components do -/
theorem adjustOneV_col (q : List K) (d n : ℕ) (h pos : List (Row K)) (i c : ℕ)
    (hh : RowsOK d h) (hp : RowsOK d pos) (hih : i + 1 < h.length) (hip : i + 1 < pos.length)
    (hc : c < d) :
    (colOf c (adjustOneV q d n (h, pos) i).1, colOf c (adjustOneV q d n (h, pos) i).2) =
      adjustOne q n (colOf c h, colOf c pos) i ∧
    RowsOK d (adjustOneV q d n (h, pos) i).1 ∧ RowsOK d (adjustOneV q d n (h, pos) i).2 ∧
    (adjustOneV q d n (h, pos) i).1.length = h.length ∧
    (adjustOneV q d n (h, pos) i).2.length = pos.length := by
  have l0 := rowAt_length hh (show i - 1 < h.length by omega)
  have l1 := rowAt_length hh (show i < h.length by omega)
  have l2 := rowAt_length hh hih
  have m0 := rowAt_length hp (show i - 1 < pos.length by omega)
  have m1 := rowAt_length hp (show i < pos.length by omega)
  have m2 := rowAt_length hp hip
  have hg := stepRows_getD d (nth q i * (n : K)) _ _ _ _ _ _ c hc l0 l1 l2 m0 m1 m2
  have hl := stepRows_length d (nth q i * (n : K)) _ _ _ _ _ _ l0 l1 l2 m0 m1 m2
  rw [adjustOneV_eq, adjustOne_eq]
  simp only [getD_rowAt] at hg
  refine ⟨?_, hh.set i hl.1, hp.set i hl.2, by simp, by simp⟩
  rw [colOf_set, colOf_set, ← hg]

theorem foldAdjustV_col (q : List K) (d n m c : ℕ) (hc : c < d) (l : List ℕ)
    (hl : ∀ i ∈ l, i + 1 < m) :
    ∀ (h pos : List (Row K)), RowsOK d h → RowsOK d pos → h.length = m → pos.length = m →
      (colOf c (l.foldl (adjustOneV q d n) (h, pos)).1,
        colOf c (l.foldl (adjustOneV q d n) (h, pos)).2) =
        l.foldl (adjustOne q n) (colOf c h, colOf c pos) ∧
      RowsOK d (l.foldl (adjustOneV q d n) (h, pos)).1 ∧
      RowsOK d (l.foldl (adjustOneV q d n) (h, pos)).2 ∧
      (l.foldl (adjustOneV q d n) (h, pos)).1.length = m ∧
      (l.foldl (adjustOneV q d n) (h, pos)).2.length = m := by
  induction l with
  | nil => intro h pos hh hp h1 h2; exact ⟨rfl, hh, hp, h1, h2⟩
  | cons i l ih =>
    intro h pos hh hp h1 h2
    have hi := hl i (by simp)
    obtain ⟨e, ok1, ok2, e1, e2⟩ :=
      adjustOneV_col q d n h pos i c hh hp (by omega) (by omega) hc
    rw [List.foldl_cons, List.foldl_cons, ← e]
    exact ih (fun j hj => hl j (by simp [hj])) (adjustOneV q d n (h, pos) i).1
      (adjustOneV q d n (h, pos) i).2 ok1 ok2 (by rw [e1, h1]) (by rw [e2, h2])

theorem adjustAllV_col (q : List K) (d n : ℕ) (h pos : List (Row K)) (c : ℕ)
    (hh : RowsOK d h) (hp : RowsOK d pos) (hlh : h.length = q.length)
    (hlp : pos.length = q.length) (hc : c < d) :
    (colOf c (adjustAllV q d n h pos).1, colOf c (adjustAllV q d n h pos).2) =
      adjustAll q n (colOf c h) (colOf c pos) ∧
    RowsOK d (adjustAllV q d n h pos).1 ∧ RowsOK d (adjustAllV q d n h pos).2 ∧
    (adjustAllV q d n h pos).1.length = q.length ∧ (adjustAllV q d n h pos).2.length = q.length := by
  have hl : ∀ i ∈ List.range' 1 (q.length - 2), i + 1 < q.length := by
    intro i hi; rw [List.mem_range'_1] at hi; omega
  exact foldAdjustV_col q d n q.length c hc _ hl h pos hh hp hlh hlp

/-! ### `np.sort(axis=0)` -/

theorem sortK_length (l : List K) : (sortK l).length = l.length := by
  simp [sortK, List.length_mergeSort]

theorem sortColumns_col (d : ℕ) (rows : List (Row K)) (c : ℕ) (hc : c < d) :
    colOf c (sortColumns d rows) = sortK (colOf c rows) := by
  apply List.ext_getElem
  · simp [sortColumns, sortK_length, colOf]
  · intro i h1 h2
    have hi : i < rows.length := by simpa [sortColumns, colOf] using h1
    simp [colOf, sortColumns, hc, hi, sortK_length]

theorem sortColumns_ok (d : ℕ) (rows : List (Row K)) :
    RowsOK d (sortColumns d rows) ∧ (sortColumns d rows).length = rows.length := by
  constructor
  · intro r hr
    simp only [sortColumns, List.mem_map] at hr
    obtain ⟨i, _, rfl⟩ := hr
    simp
  · simp [sortColumns]

/-! ### placing the observation -/

theorem rowMin_getD {d : ℕ} (x f : Row K) (c : ℕ) (hc : c < d) (hx : x.length = d)
    (hf : f.length = d) :
    (rwhere (rmap₂ (fun a b => decide (a < b)) x f) x f).getD c 0 =
      (if x.getD c 0 < f.getD c 0 then x.getD c 0 else f.getD c 0) ∧
    (rwhere (rmap₂ (fun a b => decide (a < b)) x f) x f).length = d := by
  constructor
  · simp [rmap₂, rwhere, hx, hf, hc]
  · simp [rmap₂, rwhere, hx, hf]

theorem rowMax_getD {d : ℕ} (x l : Row K) (c : ℕ) (hc : c < d) (hx : x.length = d)
    (hl : l.length = d) :
    (rwhere (rmap₂ (fun a b => decide (a < b)) l x) x l).getD c 0 =
      (if l.getD c 0 < x.getD c 0 then x.getD c 0 else l.getD c 0) ∧
    (rwhere (rmap₂ (fun a b => decide (a < b)) l x) x l).length = d := by
  constructor
  · simp [rmap₂, rwhere, hx, hl, hc]
  · simp [rmap₂, rwhere, hx, hl]

theorem rowInc_getD {d : ℕ} (p x r : Row K) (c : ℕ) (hc : c < d) (hp : p.length = d)
    (hx : x.length = d) (hr : r.length = d) :
    (rmap₂ (fun (pv : K) (cb : Bool) => if cb then pv + 1 else pv) p
        (rmap₂ (fun a b => decide (a ≤ b)) x r)).getD c 0 =
      (if x.getD c 0 ≤ r.getD c 0 then p.getD c 0 + 1 else p.getD c 0) ∧
    (rmap₂ (fun (pv : K) (cb : Bool) => if cb then pv + 1 else pv) p
        (rmap₂ (fun a b => decide (a ≤ b)) x r)).length = d := by
  constructor
  · simp [rmap₂, hp, hx, hr, hc]
  · simp [rmap₂, hp, hx, hr]

theorem placeObsV_col (d : ℕ) (h pos : List (Row K)) (x : Row K) (c : ℕ)
    (hh : RowsOK d h) (hp : RowsOK d pos) (hx : x.length = d) (hlen : pos.length ≤ h.length)
    (hc : c < d) :
    (colOf c (placeObsV h pos x).1, colOf c (placeObsV h pos x).2) =
      placeObs (colOf c h) (colOf c pos) (x.getD c 0) ∧
    RowsOK d (placeObsV h pos x).1 ∧ RowsOK d (placeObsV h pos x).2 ∧
    (placeObsV h pos x).1.length = h.length ∧ (placeObsV h pos x).2.length = pos.length := by
  rcases Nat.eq_zero_or_pos h.length with h0 | hpos
  · have e1 : h = [] := List.length_eq_zero_iff.mp h0
    have e2 : pos = [] := List.length_eq_zero_iff.mp (by omega)
    subst e1 e2
    simp [placeObsV, placeObs, colOf, RowsOK]
  · -- first marker
    obtain ⟨g0, k0⟩ := rowMin_getD x (rowAt h 0) c hc hx (rowAt_length hh hpos)
    set R0 := rwhere (rmap₂ (fun a b => decide (a < b)) x (rowAt h 0)) x (rowAt h 0) with hR0
    have ok1 : RowsOK d (h.set 0 R0) := hh.set 0 k0
    have len1 : (h.set 0 R0).length = h.length := by simp
    -- last marker
    obtain ⟨g1, k1⟩ := rowMax_getD x (rowAt (h.set 0 R0) (h.length - 1)) c hc hx
      (rowAt_length ok1 (by rw [len1]; omega))
    set R1 := rwhere (rmap₂ (fun a b => decide (a < b)) (rowAt (h.set 0 R0) (h.length - 1)) x) x
      (rowAt (h.set 0 R0) (h.length - 1)) with hR1
    have ok2 : RowsOK d ((h.set 0 R0).set (h.length - 1) R1) := ok1.set _ k1
    have len2 : ((h.set 0 R0).set (h.length - 1) R1).length = h.length := by simp
    have eh : (placeObsV h pos x).1 = (h.set 0 R0).set (h.length - 1) R1 := rfl
    have ech : colOf c (placeObsV h pos x).1 = (placeObs (colOf c h) (colOf c pos) (x.getD c 0)).1 := by
      rw [eh, colOf_set, colOf_set, g1, g0]
      simp only [getD_rowAt, colOf_set, g0, placeObs, colOf_length]
    have ep : (placeObsV h pos x).2 = pos.mapIdx fun j p =>
        if 1 ≤ j then rmap₂ (fun (pv : K) (cb : Bool) => if cb then pv + 1 else pv) p
          (rmap₂ (fun a b => decide (a ≤ b)) x (rowAt ((h.set 0 R0).set (h.length - 1) R1) j))
        else p := by
      simp only [placeObsV, Nat.cast_one, ← hR0, ← hR1]
    have esp : (placeObs (colOf c h) (colOf c pos) (x.getD c 0)).2 = (colOf c pos).mapIdx fun j p =>
        if 1 ≤ j ∧ x.getD c 0 ≤ nth (colOf c (placeObsV h pos x).1) j then p + 1 else p := by
      rw [ech]; simp only [placeObs, Nat.cast_one]
    refine ⟨?_, by rw [eh]; exact ok2, ?_, by rw [eh, len2], by rw [ep]; simp⟩
    · rw [Prod.ext_iff]
      refine ⟨ech, ?_⟩
      show colOf c (placeObsV h pos x).2 = _
      rw [esp, ep, eh]
      apply List.ext_getElem
      · simp
      · intro j h1 h2
        have hj : j < pos.length := by simpa using h1
        have hrow : (pos[j]).length = d := hp _ (List.getElem_mem hj)
        simp only [colOf, List.getElem_map, List.getElem_mapIdx]
        by_cases c1 : 1 ≤ j
        · obtain ⟨g, _⟩ := rowInc_getD pos[j] x (rowAt ((h.set 0 R0).set (h.length - 1) R1) j) c hc
            hrow hx (rowAt_length ok2 (by rw [len2]; omega))
          rw [if_pos c1, g, getD_rowAt]
          simp only [c1, true_and, colOf]
          congr 1
        · rw [if_neg c1, if_neg (fun hh' => c1 hh'.1)]
    · rw [ep]
      intro r hr
      obtain ⟨j, hj, rfl⟩ := List.mem_iff_getElem.mp hr
      have hj' : j < pos.length := by simpa using hj
      have hrow : (pos[j]).length = d := hp _ (List.getElem_mem hj')
      simp only [List.getElem_mapIdx]
      by_cases c1 : 1 ≤ j
      · rw [if_pos c1]
        exact (rowInc_getD pos[j] x _ c hc hrow hx (rowAt_length ok2 (by rw [len2]; omega))).2
      · rw [if_neg c1]; exact hrow

/-! ### the estimator -/

/-- well-shapedness of the array estimator state.  (`hlen` — the table of heights holds the
    observations so far during the fill and has one row per marker afterwards — is needed: with
    a shorter table `rowAt` yields empty rows and the row operations truncate.) -/
structure P2V.WF (s : P2V K) : Prop where
  hrows : RowsOK s.d s.h
  prows : RowsOK s.d s.pos
  plen : s.pos.length = s.q.length
  hlen : s.h.length = min s.n s.q.length

theorem colOf_append (c : ℕ) (t : List (Row K)) (x : Row K) :
    colOf c (t ++ [x]) = colOf c t ++ [x.getD c 0] := by simp [colOf]

theorem RowsOK.append {d : ℕ} {t : List (Row K)} (ok : RowsOK d t) {x : Row K} (hx : x.length = d) :
    RowsOK d (t ++ [x]) := by
  intro r hr
  rcases List.mem_append.mp hr with h | h
  · exact ok r h
  · rw [List.mem_singleton.mp h]; exact hx

theorem P2V.push_col (s : P2V K) (x : Row K) (c : ℕ) (wf : s.WF) (hx : x.length = s.d)
    (hc : c < s.d) :
    (s.push x).col c = (s.col c).push (x.getD c 0) ∧ (s.push x).WF := by
  have hn : (s.col c).n = s.n := rfl
  have hm : (s.col c).m = s.m := rfl
  have hmq : s.m = s.q.length := rfl
  by_cases c1 : s.n + 1 < s.m
  · have e1 : s.push x = { s with h := s.h ++ [x], n := s.n + 1 } := by
      simp only [P2V.push, if_pos c1]
    have e2 : (s.col c).push (x.getD c 0) =
        { s.col c with h := (s.col c).h ++ [x.getD c 0], n := (s.col c).n + 1 } := by
      simp only [P2.push]; rw [if_pos (by rw [hn, hm]; exact c1)]
    rw [e1, e2]
    refine ⟨by simp [P2V.col_eq, colOf_append], wf.hrows.append hx, wf.prows, wf.plen, ?_⟩
    have := wf.hlen
    simp only [List.length_append, List.length_singleton]; omega
  by_cases c2 : s.n + 1 = s.m
  · have e1 : s.push x = { s with
        h := (adjustAllV s.q s.d s.n (sortColumns s.d (s.h ++ [x])) s.pos).1,
        pos := (adjustAllV s.q s.d s.n (sortColumns s.d (s.h ++ [x])) s.pos).2, n := s.n + 1 } := by
      simp only [P2V.push, if_neg c1, if_pos c2]
    have e2 : (s.col c).push (x.getD c 0) = { s.col c with
        h := (adjustAll s.q s.n (sortK ((s.col c).h ++ [x.getD c 0])) (s.col c).pos).1,
        pos := (adjustAll s.q s.n (sortK ((s.col c).h ++ [x.getD c 0])) (s.col c).pos).2,
        n := s.n + 1 } := by
      simp only [P2.push]
      rw [if_neg (by rw [hn, hm]; exact c1), if_pos (by rw [hn, hm]; exact c2)]; rfl
    obtain ⟨ok, len⟩ := sortColumns_ok s.d (s.h ++ [x])
    have hl : (sortColumns s.d (s.h ++ [x])).length = s.q.length := by
      rw [len, List.length_append, wf.hlen, List.length_singleton]; omega
    obtain ⟨e, r1, r2, l1, l2⟩ := adjustAllV_col s.q s.d s.n _ s.pos c ok wf.prows hl wf.plen hc
    rw [sortColumns_col _ _ _ hc, colOf_append] at e
    rw [e1, e2]
    refine ⟨?_, r1, r2, l2, ?_⟩
    · rw [P2V.col_eq, P2V.col_eq]
      simp only
      rw [← e]
    · simp only; rw [l1]; omega
  · have e1 : s.push x = { s with
        h := (adjustAllV s.q s.d s.n (placeObsV s.h s.pos x).1 (placeObsV s.h s.pos x).2).1,
        pos := (adjustAllV s.q s.d s.n (placeObsV s.h s.pos x).1 (placeObsV s.h s.pos x).2).2,
        n := s.n + 1 } := by
      simp only [P2V.push, if_neg c1, if_neg c2]
    have e2 : (s.col c).push (x.getD c 0) = { s.col c with
        h := (adjustAll s.q s.n (placeObs (s.col c).h (s.col c).pos (x.getD c 0)).1
          (placeObs (s.col c).h (s.col c).pos (x.getD c 0)).2).1,
        pos := (adjustAll s.q s.n (placeObs (s.col c).h (s.col c).pos (x.getD c 0)).1
          (placeObs (s.col c).h (s.col c).pos (x.getD c 0)).2).2,
        n := s.n + 1 } := by
      simp only [P2.push]
      rw [if_neg (by rw [hn, hm]; exact c1), if_neg (by rw [hn, hm]; exact c2)]; rfl
    have hlh : s.h.length = s.q.length := by rw [wf.hlen]; omega
    obtain ⟨e, r1, r2, l1, l2⟩ := placeObsV_col s.d s.h s.pos x c wf.hrows wf.prows hx
      (by rw [wf.plen, hlh]) hc
    obtain ⟨e', r1', r2', l1', l2'⟩ := adjustAllV_col s.q s.d s.n _ _ c r1 r2
      (by rw [l1, hlh]) (by rw [l2, wf.plen]) hc
    rw [e1, e2]
    refine ⟨?_, r1', r2', l2', ?_⟩
    · rw [P2V.col_eq, P2V.col_eq]
      simp only
      have ea := congrArg Prod.fst e
      have eb := congrArg Prod.snd e
      simp only at ea eb
      rw [← ea, ← eb, ← e']
    · simp only; rw [l1']; omega

/-- the three branches of `P2V.push` on an explicit state -/
theorem P2V.push_fill (q : List K) (d n : ℕ) (h pos : List (Row K)) (x : Row K)
    (c : n + 1 < q.length) :
    (⟨q, d, n, h, pos⟩ : P2V K).push x = ⟨q, d, n + 1, h ++ [x], pos⟩ := by
  simp only [P2V.push]; split_ifs with a b
  exacts [rfl, absurd c a, absurd c a]

theorem P2V.push_sort (q : List K) (d n : ℕ) (h pos : List (Row K)) (x : Row K)
    (c : n + 1 = q.length) :
    (⟨q, d, n, h, pos⟩ : P2V K).push x =
      ⟨q, d, n + 1, (adjustAllV q d n (sortColumns d (h ++ [x])) pos).1,
        (adjustAllV q d n (sortColumns d (h ++ [x])) pos).2⟩ := by
  have c' : ¬ (n + 1 < q.length) := by omega
  simp only [P2V.push]; split_ifs with a b
  exacts [absurd a c', rfl, absurd c b]

theorem P2V.push_place (q : List K) (d n : ℕ) (h pos : List (Row K)) (x : Row K)
    (c : q.length < n + 1) :
    (⟨q, d, n, h, pos⟩ : P2V K).push x =
      ⟨q, d, n + 1, (adjustAllV q d n (placeObsV h pos x).1 (placeObsV h pos x).2).1,
        (adjustAllV q d n (placeObsV h pos x).1 (placeObsV h pos x).2).2⟩ := by
  have c1 : ¬ (n + 1 < q.length) := by omega
  have c2 : ¬ (n + 1 = q.length) := by omega
  simp only [P2V.push]; split_ifs with a b
  exacts [absurd a c1, absurd b c2, rfl]

theorem P2V.run_snoc (q : List K) (d : ℕ) (xs : List (Row K)) (x : Row K) :
    P2V.run q d (xs ++ [x]) = (P2V.run q d xs).push x := by
  simp [P2V.run, List.foldl_append]

@[simp] theorem P2V.push_d (s : P2V K) (x : Row K) : (s.push x).d = s.d := by
  simp only [P2V.push]; split_ifs <;> rfl

@[simp] theorem P2V.run_d (q : List K) (d : ℕ) (xs : List (Row K)) : (P2V.run q d xs).d = d := by
  induction xs using List.reverseRec with
  | nil => rfl
  | append_singleton xs x ih => rw [P2V.run_snoc, P2V.push_d, ih]

theorem P2V.init_wf (q : List K) (d : ℕ) : (P2V.init q d).WF where
  hrows := by intro r hr; simp [P2V.init] at hr
  prows := by
    intro r hr
    simp only [P2V.init, List.mem_map] at hr
    obtain ⟨i, _, rfl⟩ := hr
    exact length_rbc d _
  plen := by simp [P2V.init]
  hlen := by simp [P2V.init]

theorem P2V.init_col (q : List K) (d c : ℕ) (hc : c < d) : (P2V.init q d).col c = P2.init q := by
  rw [P2V.col_eq]
  simp only [P2V.init, P2.init, colOf, List.map_map, List.map_nil]
  congr 1
  apply List.map_congr_left
  intro i _
  simp [rbc, hc]

/-- after every observation, component `c` of the array estimator is the scalar estimator fed
    component `c` of the observations -/
theorem P2V.run_col_wf (q : List K) (d : ℕ) (xs : List (Row K)) (hxs : ∀ x ∈ xs, x.length = d)
    (c : ℕ) (hc : c < d) :
    (P2V.run q d xs).col c = P2.run q (xs.map fun x => x.getD c 0) ∧ (P2V.run q d xs).WF := by
  induction xs using List.reverseRec with
  | nil => exact ⟨P2V.init_col q d c hc, P2V.init_wf q d⟩
  | append_singleton xs x ih =>
    obtain ⟨e, wf⟩ := ih fun y hy => hxs y (List.mem_append_left _ hy)
    have hx : x.length = (P2V.run q d xs).d := by
      rw [P2V.run_d]; exact hxs x (by simp)
    obtain ⟨e', wf'⟩ := P2V.push_col (P2V.run q d xs) x c wf hx (by rw [P2V.run_d]; exact hc)
    rw [P2V.run_snoc, List.map_append, List.map_singleton, P2.run_snoc, ← e]
    exact ⟨e', wf'⟩
end Gpv
