/-
  Rounding-error analysis of the exponential running VARIANCE (`RVariance.push`,
  Gpv/Model/Running.lean; Python `RunningVariance`, whose `_accumulate_obj` is
  `Variance._accumulate_obj` acting on two `RunningMean`s):

      delta1 = obj - mean.acc                 -- the OLD mean
      mean   = mean.push obj                  -- running-mean step, weight a = max(alpha, 1/n')
      var    = var.push (delta1 * (obj - mean.acc))   -- the NEW mean; same weight a

  in the standard model of `Gpv/Proofs/FloatMean.lean` (`Rnd u e r : r = e (1 + δ), |δ| ≤ u`)
  on top of the running-mean step `FlRStep` of `Gpv/Proofs/FloatRunning.lean`.

  One float step performs ELEVEN rounded operations (δ's arbitrary and independent):
      `d1 = fl(x − m)`,
      `m' =` float running-mean step of `m` with `x`      (4 roundings, `FlRStep`),
      `d2 = fl(x − m')`,  `q = fl(d1 · d2)`,
      `v' =` float running-mean step of `v` with `q`      (4 roundings, `FlRStep`).
  As in `FloatRunning.lean` the weight `a` of a step is GIVEN (the float the program holds
  after `max(alpha, 1/n')`, a number in `[0, 1]`, the same for both accumulators because both
  have the same `alpha` and the same count) and the exact reference uses the SAME weights;
  counts are exact.  A run is over a list of `(weight, observation)` pairs from a state `(m, v)`.

  Main results: `FlRVStep.inv`, `FlRVRun.inv` (a ball `|m − μ| ≤ Em`, `|v − w| ≤ E` around the
  exact run that every float step maps into itself — hence no growth with the number of
  steps), `steady_var` / `rvE_le` (explicit `Em`, `E`).
-/
import Gpv.Proofs.FloatRunning
set_option linter.unusedSectionVars false

namespace Gpv
variable {K : Type} [Field K] [LinearOrder K] [IsStrictOrderedRing K]

/-! ### the exact recursion -/

/-- the exact step: `μ' = μ(1−a) + x a`, `w' = w(1−a) + (x − μ)(x − μ') a` -/
def wvstep (a μ w x : K) : K × K :=
  (wstep a μ x, wstep a w ((x - μ) * (x - wstep a μ x)))

/-- the exact recursion over a list of `(weight, observation)` pairs, from `(μ, w)` -/
def wvrun (μ w : K) : List (K × K) → K × K
  | [] => (μ, w)
  | p :: ps => wvrun (wvstep p.1 μ w p.2).1 (wvstep p.1 μ w p.2).2 ps

theorem wvrun_nil (μ w : K) : wvrun μ w [] = (μ, w) := rfl

theorem wvrun_cons (μ w : K) (p : K × K) (ps : List (K × K)) :
    wvrun μ w (p :: ps) = wvrun (wvstep p.1 μ w p.2).1 (wvstep p.1 μ w p.2).2 ps := rfl

/-- the mean component of the exact recursion is the running-mean recursion -/
theorem wvrun_fst (μ w : K) (ps : List (K × K)) : (wvrun μ w ps).1 = wrun μ ps := by
  induction ps generalizing μ w with
  | nil => rfl
  | cons p ps ih => rw [wvrun_cons, ih]; rfl

/-! ### the float step and run -/

/-- one floating-point `RVariance.push` with the given weight `a`:
    `d1 = fl(x − m)`, `m' =` float running-mean step, `d2 = fl(x − m')`, `q = fl(d1 * d2)`,
    `v' =` float running-mean step of the `var` accumulator fed `q` -/
def FlRVStep (u a m v x m' v' : K) : Prop :=
  ∃ d1 d2 q : K, Rnd u (x - m) d1 ∧ FlRStep u a m x m' ∧ Rnd u (x - m') d2
    ∧ Rnd u (d1 * d2) q ∧ FlRStep u a v q v'

/-- `(m', v')` is a possible floating-point state `(mean.acc, var.acc)` after the steps `ps`,
    started at `(m, v)` -/
def FlRVRun (u : K) (m v : K) : List (K × K) → K → K → Prop
  | [], m', v' => m' = m ∧ v' = v
  | p :: ps, m', v' => ∃ m1 v1, FlRVStep u p.1 m v p.2 m1 v1 ∧ FlRVRun u m1 v1 ps m' v'

theorem flRVRun_nil_iff (u m v m' v' : K) : FlRVRun u m v [] m' v' ↔ m' = m ∧ v' = v := Iff.rfl

theorem flRVRun_cons_iff (u m v : K) (p : K × K) (ps : List (K × K)) (m' v' : K) :
    FlRVRun u m v (p :: ps) m' v'
      ↔ ∃ m1 v1, FlRVStep u p.1 m v p.2 m1 v1 ∧ FlRVRun u m1 v1 ps m' v' := Iff.rfl

theorem FlRVStep.mono {u u' : K} (h : u ≤ u') {a m v x m' v' : K} :
    FlRVStep u a m v x m' v' → FlRVStep u' a m v x m' v' := by
  rintro ⟨d1, d2, q, h1, h2, h3, h4, h5⟩
  exact ⟨d1, d2, q, h1.mono h, h2.mono h, h3.mono h, h4.mono h, h5.mono h⟩

theorem FlRVRun.mono {u u' : K} (h : u ≤ u') {ps : List (K × K)} {m v m' v' : K}
    (hr : FlRVRun u m v ps m' v') : FlRVRun u' m v ps m' v' := by
  induction ps generalizing m v with
  | nil => exact hr
  | cons p ps ih =>
    obtain ⟨m1, v1, hs, hr'⟩ := hr
    exact ⟨m1, v1, hs.mono h, ih hr'⟩

/-- the exact step is a possible float step -/
theorem FlRVStep.exact {u : K} (hu : 0 ≤ u) (a m v x : K) :
    FlRVStep u a m v x (wvstep a m v x).1 (wvstep a m v x).2 :=
  ⟨_, _, _, Rnd.exact hu _, FlRStep.exact hu a m x, Rnd.exact hu _, Rnd.exact hu _,
    FlRStep.exact hu a v _⟩

theorem flRVStep_zero_iff (a m v x m' v' : K) :
    FlRVStep 0 a m v x m' v' ↔ m' = (wvstep a m v x).1 ∧ v' = (wvstep a m v x).2 := by
  constructor
  · rintro ⟨d1, d2, q, h1, h2, h3, h4, h5⟩
    rw [rnd_zero_iff] at h1 h3 h4
    rw [flRStep_zero_iff] at h2 h5
    subst h1 h2 h3 h4
    exact ⟨rfl, h5⟩
  · rintro ⟨rfl, rfl⟩; exact FlRVStep.exact le_rfl a m v x

/-- a float step from explicit relative errors: `ε` for the three operations of the increment,
    `a₁…a₄` for the mean step, `b₁…b₄` for the var step -/
theorem flRVStep_of_deltas {u : K} (a m v x ε1 ε2 ε3 a1 a2 a3 a4 b1 b2 b3 b4 : K)
    (h1 : |ε1| ≤ u) (h2 : |ε2| ≤ u) (h3 : |ε3| ≤ u)
    (ha1 : |a1| ≤ u) (ha2 : |a2| ≤ u) (ha3 : |a3| ≤ u) (ha4 : |a4| ≤ u)
    (hb1 : |b1| ≤ u) (hb2 : |b2| ≤ u) (hb3 : |b3| ≤ u) (hb4 : |b4| ≤ u) :
    FlRVStep u a m v x
      ((m * ((1 - a) * (1 + a1)) * (1 + a2) + x * a * (1 + a3)) * (1 + a4))
      ((v * ((1 - a) * (1 + b1)) * (1 + b2)
          + (x - m) * (1 + ε1)
              * ((x - (m * ((1 - a) * (1 + a1)) * (1 + a2) + x * a * (1 + a3)) * (1 + a4))
                  * (1 + ε2)) * (1 + ε3) * a * (1 + b3)) * (1 + b4)) :=
  ⟨_, _, _, ⟨ε1, h1, rfl⟩, flRStep_of_deltas a m x a1 a2 a3 a4 ha1 ha2 ha3 ha4,
    ⟨ε2, h2, rfl⟩, ⟨ε3, h3, rfl⟩, flRStep_of_deltas a v _ b1 b2 b3 b4 hb1 hb2 hb3 hb4⟩

theorem FlRVRun.of_exact {u : K} (hu : 0 ≤ u) (m v : K) (ps : List (K × K)) :
    FlRVRun u m v ps (wvrun m v ps).1 (wvrun m v ps).2 := by
  induction ps generalizing m v with
  | nil => exact ⟨rfl, rfl⟩
  | cons p ps ih => exact ⟨_, _, FlRVStep.exact hu p.1 m v p.2, ih _ _⟩

theorem flRVRun_zero_iff (m v : K) (ps : List (K × K)) (m' v' : K) :
    FlRVRun 0 m v ps m' v' ↔ m' = (wvrun m v ps).1 ∧ v' = (wvrun m v ps).2 := by
  constructor
  · intro h
    induction ps generalizing m v with
    | nil => exact h
    | cons p ps ih =>
      obtain ⟨m1, v1, hs, hr⟩ := h
      rw [flRVStep_zero_iff] at hs
      obtain ⟨rfl, rfl⟩ := hs
      exact ih _ _ hr
  · rintro ⟨rfl, rfl⟩; exact FlRVRun.of_exact le_rfl m v ps

theorem FlRVRun.append {u : K} {ps qs : List (K × K)} {m v m1 v1 m2 v2 : K}
    (h1 : FlRVRun u m v ps m1 v1) (h2 : FlRVRun u m1 v1 qs m2 v2) :
    FlRVRun u m v (ps ++ qs) m2 v2 := by
  induction ps generalizing m v with
  | nil => obtain ⟨rfl, rfl⟩ := h1; exact h2
  | cons p ps ih =>
    obtain ⟨m', v', hs, hr⟩ := h1
    exact ⟨m', v', hs, ih hr⟩

/-- the mean component of a variance run is a running-mean run -/
theorem FlRVRun.mean_run {u : K} {ps : List (K × K)} {m v m' v' : K}
    (h : FlRVRun u m v ps m' v') : FlRRun u m ps m' := by
  induction ps generalizing m v with
  | nil => exact h.1
  | cons p ps ih =>
    obtain ⟨m1, v1, ⟨_, _, _, _, hs, _⟩, hr⟩ := h
    exact ⟨m1, hs, ih hr⟩

/-! ### the exact increment `s = (x − μ)(x − μ') = (1 − a)(x − μ)²` -/

theorem sub_wstep (a μ x : K) : x - wstep a μ x = (1 - a) * (x - μ) := by
  unfold wstep; ring

/-- the exact increment is non-negative and at most `4M²` -/
theorem wv_incr_bounds {a μ x M : K} (ha1 : a ≤ 1) (ha0 : 0 ≤ a) (hμ : |μ| ≤ M) (hx : |x| ≤ M) :
    0 ≤ (x - μ) * (x - wstep a μ x) ∧ (x - μ) * (x - wstep a μ x) ≤ 4 * M ^ 2 := by
  rw [sub_wstep]
  have h1a : 0 ≤ 1 - a := sub_nonneg.mpr ha1
  have hd : |x - μ| ≤ 2 * M := (abs_sub _ _).trans (by linarith)
  have hsq : (x - μ) ^ 2 ≤ (2 * M) ^ 2 := by
    rw [← sq_abs (x - μ)]
    exact pow_le_pow_left₀ (abs_nonneg _) hd 2
  have e : (x - μ) * ((1 - a) * (x - μ)) = (1 - a) * (x - μ) ^ 2 := by ring
  rw [e]
  constructor
  · positivity
  · nlinarith [sq_nonneg (x - μ)]

theorem wstep_nonneg {a w s : K} (ha0 : 0 ≤ a) (ha1 : a ≤ 1) (hw : 0 ≤ w) (hs : 0 ≤ s) :
    0 ≤ wstep a w s := by
  have h1a : 0 ≤ 1 - a := sub_nonneg.mpr ha1
  unfold wstep; positivity

theorem wstep_le {a w s B : K} (ha0 : 0 ≤ a) (ha1 : a ≤ 1) (hw : w ≤ B) (hs : s ≤ B) :
    wstep a w s ≤ B := by
  have h1a : 0 ≤ 1 - a := sub_nonneg.mpr ha1
  unfold wstep
  nlinarith [mul_le_mul_of_nonneg_right hw h1a, mul_le_mul_of_nonneg_right hs ha0]

/-! ### the rounded increment -/

/-- the rounded increment `q = fl(fl(x − m)·fl(x − m'))` against the exact increment
    `s = (x − μ)(x − μ')`, with the spread `D ≥ |x − μ|, |x − μ'|` and the error `E` of the
    float means; three roundings: `γ = (1+u)³ − 1` -/
theorem rq_error {u D E : K} (hD : 0 ≤ D) (hE0 : 0 ≤ E) {x μ μ' m m' ε1 ε2 ε3 : K}
    (ha : |x - μ| ≤ D) (hb : |x - μ'| ≤ D) (he : |m - μ| ≤ E) (he' : |m' - μ'| ≤ E)
    (h1 : |ε1| ≤ u) (h2 : |ε2| ≤ u) (h3 : |ε3| ≤ u) :
    |(x - m) * (1 + ε1) * ((x - m') * (1 + ε2)) * (1 + ε3) - (x - μ) * (x - μ')|
        ≤ ((1 + u) ^ 3 - 1) * D ^ 2 + (1 + u) ^ 3 * (2 * D * E + E ^ 2)
      ∧ |(x - m) * (1 + ε1) * ((x - m') * (1 + ε2)) * (1 + ε3)| ≤ (1 + u) ^ 3 * (D + E) ^ 2 := by
  have hu : 0 ≤ u := (abs_nonneg _).trans h1
  set a := x - μ with ha_def
  set b := x - μ' with hb_def
  set e := m - μ with he_def
  set e' := m' - μ' with he'_def
  set π := (1 + ε1) * (1 + ε2) * (1 + ε3) with hπ_def
  have hπ1 : |π - 1| ≤ (1 + u) ^ 3 - 1 := abs_prod3_sub_one h1 h2 h3
  have hπ : |π| ≤ (1 + u) ^ 3 := abs_prod3_le h1 h2 h3
  have hγ : 0 ≤ (1 + u) ^ 3 - 1 := gam3_nonneg hu
  have hq : (x - m) * (1 + ε1) * ((x - m') * (1 + ε2)) * (1 + ε3) = (a - e) * (b - e') * π := by
    simp only [ha_def, hb_def, he_def, he'_def, hπ_def]; ring
  rw [hq]
  constructor
  · have hid : (a - e) * (b - e') * π - a * b
        = a * b * (π - 1) + (-(a * e') - e * b + e * e') * π := by ring
    rw [hid]
    have t1 : |a * b * (π - 1)| ≤ D ^ 2 * ((1 + u) ^ 3 - 1) := by
      rw [abs_mul, abs_mul, pow_two]
      exact mul_le_mul (mul_le_mul ha hb (abs_nonneg _) hD) hπ1 (abs_nonneg _) (by positivity)
    have t2 : |-(a * e') - e * b + e * e'| ≤ 2 * D * E + E ^ 2 := by
      calc |-(a * e') - e * b + e * e'| ≤ |-(a * e') - e * b| + |e * e'| := abs_add_le _ _
        _ ≤ (|-(a * e')| + |e * b|) + |e * e'| := add_le_add (abs_sub _ _) le_rfl
        _ = |a| * |e'| + |e| * |b| + |e| * |e'| := by rw [abs_neg, abs_mul, abs_mul, abs_mul]
        _ ≤ D * E + E * D + E * E := by
            apply add_le_add (add_le_add _ _) _
            · exact mul_le_mul ha he' (abs_nonneg _) hD
            · exact mul_le_mul he hb (abs_nonneg _) hE0
            · exact mul_le_mul he he' (abs_nonneg _) hE0
        _ = 2 * D * E + E ^ 2 := by ring
    have t2nn : 0 ≤ 2 * D * E + E ^ 2 := by positivity
    have t3 : |(-(a * e') - e * b + e * e') * π| ≤ (2 * D * E + E ^ 2) * (1 + u) ^ 3 := by
      rw [abs_mul]
      exact mul_le_mul t2 hπ (abs_nonneg _) t2nn
    calc |a * b * (π - 1) + (-(a * e') - e * b + e * e') * π|
        ≤ |a * b * (π - 1)| + |(-(a * e') - e * b + e * e') * π| := abs_add_le _ _
      _ ≤ D ^ 2 * ((1 + u) ^ 3 - 1) + (2 * D * E + E ^ 2) * (1 + u) ^ 3 := add_le_add t1 t3
      _ = _ := by ring
  · have f1 : |a - e| ≤ D + E := (abs_sub _ _).trans (add_le_add ha he)
    have f2 : |b - e'| ≤ D + E := (abs_sub _ _).trans (add_le_add hb he')
    have hDE : 0 ≤ D + E := add_nonneg hD hE0
    rw [abs_mul, abs_mul]
    calc |a - e| * |b - e'| * |π| ≤ (D + E) * (D + E) * (1 + u) ^ 3 := by
          apply mul_le_mul _ hπ (abs_nonneg _) (by positivity)
          exact mul_le_mul f1 f2 (abs_nonneg _) hDE
      _ = (1 + u) ^ 3 * (D + E) ^ 2 := by ring

/-! ### the invariant ball -/

/-- bound of the rounded increment: `|q| ≤ (1+u)³ (2M + Em)²` when `|m − μ| ≤ Em` -/
def rvMq (u M Em : K) : K := (1 + u) ^ 3 * (2 * M + Em) ^ 2

/-- bound of `|q − s|`: `((1+u)³ − 1)·4M² + (1+u)³ (4 M Em + Em²)` -/
def rvG (u M Em : K) : K := ((1 + u) ^ 3 - 1) * (4 * M ^ 2) + (1 + u) ^ 3 * (4 * M * Em + Em ^ 2)

theorem rvG_nonneg {u M Em : K} (hu : 0 ≤ u) (hM : 0 ≤ M) (hEm : 0 ≤ Em) : 0 ≤ rvG u M Em := by
  have := gam3_nonneg hu
  unfold rvG; positivity

theorem rvMq_nonneg {u M Em : K} (hu : 0 ≤ u) : 0 ≤ rvMq u M Em := by
  unfold rvMq; positivity

theorem four_sq_le_rvMq {u M Em : K} (hu : 0 ≤ u) (hM : 0 ≤ M) (hEm : 0 ≤ Em) :
    4 * M ^ 2 ≤ rvMq u M Em := by
  have hγ := gam3_nonneg hu
  have h1 : 4 * M ^ 2 ≤ (2 * M + Em) ^ 2 := by nlinarith [mul_nonneg hM hEm, sq_nonneg Em]
  have h2 : 0 ≤ (2 * M + Em) ^ 2 := by positivity
  unfold rvMq
  nlinarith

/-- feeding `q` instead of `s` into a step changes the result by `a (q − s)` -/
theorem abs_sub_wstep_le {a : K} (ha0 : 0 ≤ a) (v' w q s : K) :
    |v' - wstep a w s| ≤ |v' - wstep a w q| + a * |q - s| := by
  have e : v' - wstep a w s = (v' - wstep a w q) + a * (q - s) := by unfold wstep; ring
  rw [e]
  refine (abs_add_le _ _).trans ?_
  rw [abs_mul, abs_of_nonneg ha0]

/-- the scalar inequality that closes one step: the bound is affine in the weight `a`, and
    decreasing because `G ≤ E ≤ Γ E` -/
theorem rv_step_scalar {a amin Γ E Mq G ev aw aq dq : K} (ha0 : 0 ≤ a) (ha1 : a ≤ 1)
    (ha : amin ≤ a) (hΓ1 : 1 ≤ Γ) (hev : ev ≤ E) (haw : aw ≤ Mq) (haq : aq ≤ Mq) (hdq : dq ≤ G)
    (hGE : G ≤ E) (hG0 : 0 ≤ G) (hE : (1 - amin) * Γ * E + (Γ - 1) * Mq + amin * G ≤ E) :
    (1 - a) * Γ * ev + (Γ - 1) * ((1 - a) * aw + a * aq) + a * dq ≤ E := by
  have h1a : 0 ≤ 1 - a := sub_nonneg.mpr ha1
  have hΓ0 : 0 ≤ Γ := by linarith
  have hE0 : 0 ≤ E := hG0.trans hGE
  have t1 : (1 - a) * Γ * ev ≤ (1 - a) * Γ * E :=
    mul_le_mul_of_nonneg_left hev (mul_nonneg h1a hΓ0)
  have t2 : (1 - a) * aw + a * aq ≤ Mq := by
    have e1 := mul_le_mul_of_nonneg_left haw h1a
    have e2 := mul_le_mul_of_nonneg_left haq ha0
    linarith
  have t2' : (Γ - 1) * ((1 - a) * aw + a * aq) ≤ (Γ - 1) * Mq :=
    mul_le_mul_of_nonneg_left t2 (by linarith)
  have t3 : a * dq ≤ a * G := mul_le_mul_of_nonneg_left hdq ha0
  have hΓE : G ≤ Γ * E := by
    have : 1 * E ≤ Γ * E := mul_le_mul_of_nonneg_right hΓ1 hE0
    linarith
  have t4 : 0 ≤ (a - amin) * (Γ * E - G) := mul_nonneg (by linarith) (by linarith)
  have key : (1 - a) * Γ * E + (Γ - 1) * Mq + a * G
      = ((1 - amin) * Γ * E + (Γ - 1) * Mq + amin * G) - (a - amin) * (Γ * E - G) := by ring
  linarith

/-- **one step of the invariant.**  Reference `(μ, w)` with `|μ| ≤ M`, `0 ≤ w ≤ 4M²`; float
    state `(m, v)` with `|m − μ| ≤ Em`, `|v − w| ≤ E`; weight in `[amin, 1]`, `|x| ≤ M`.
    If `Em` is a steady state of the running-mean error recursion and `E` one of
        `e' ≤ (1−a)(1+u)³ e + ((1+u)³ − 1)·Mq + a·G`
    (`Mq`, `G` bounds of the rounded increment and of its error; note the factor `a` in front
    of `G`: the increment enters the accumulator with weight `a`) then the same holds after
    the step, for the stepped reference. -/
theorem FlRVStep.inv {u a amin M Em E m v x m' v' μ w : K} (hu : 0 ≤ u) (hM : 0 ≤ M)
    (h : FlRVStep u a m v x m' v') (hamin : 0 ≤ amin) (ha : amin ≤ a) (ha1 : a ≤ 1)
    (hx : |x| ≤ M) (hEm0 : 0 ≤ Em)
    (hEm : (1 - amin) * (1 + u) ^ 3 * Em + ((1 + u) ^ 3 - 1) * M ≤ Em)
    (hGE : rvG u M Em ≤ E)
    (hE : (1 - amin) * (1 + u) ^ 3 * E + ((1 + u) ^ 3 - 1) * rvMq u M Em + amin * rvG u M Em ≤ E)
    (hμ : |μ| ≤ M) (hw0 : 0 ≤ w) (hw : w ≤ 4 * M ^ 2) (hm : |m - μ| ≤ Em) (hv : |v - w| ≤ E) :
    |(wvstep a μ w x).1| ≤ M ∧ 0 ≤ (wvstep a μ w x).2 ∧ (wvstep a μ w x).2 ≤ 4 * M ^ 2
      ∧ |m' - (wvstep a μ w x).1| ≤ Em ∧ |v' - (wvstep a μ w x).2| ≤ E := by
  obtain ⟨d1, d2, q, ⟨ε1, h1, rfl⟩, hms, ⟨ε2, h2, rfl⟩, ⟨ε3, h3, rfl⟩, hvs⟩ := h
  have ha0 : 0 ≤ a := hamin.trans ha
  have h1a : 0 ≤ 1 - a := sub_nonneg.mpr ha1
  have hμ' : |wstep a μ x| ≤ M := wstep_abs_le ha0 ha1 hμ hx
  obtain ⟨hs0, hs4⟩ := wv_incr_bounds ha1 ha0 hμ hx
  have hγ := gam3_nonneg hu
  have hΓ0 : (0 : K) ≤ (1 + u) ^ 3 := by positivity
  -- the mean
  have hme : |m' - wstep a μ x| ≤ Em := by
    refine (hms.err_min hamin ha ha1 hμ hx).trans (le_trans ?_ hEm)
    have : (1 - amin) * (1 + u) ^ 3 * |m - μ| ≤ (1 - amin) * (1 + u) ^ 3 * Em :=
      mul_le_mul_of_nonneg_left hm (mul_nonneg (by linarith) hΓ0)
    linarith
  -- the rounded increment
  have hda : |x - μ| ≤ 2 * M := (abs_sub _ _).trans (by linarith)
  have hdb : |x - wstep a μ x| ≤ 2 * M := (abs_sub _ _).trans (by linarith)
  obtain ⟨qe, qm⟩ := rq_error (by positivity : (0 : K) ≤ 2 * M) hEm0 hda hdb hm hme h1 h2 h3
  have eG : ((1 + u) ^ 3 - 1) * (2 * M) ^ 2 + (1 + u) ^ 3 * (2 * (2 * M) * Em + Em ^ 2)
      = rvG u M Em := by unfold rvG; ring
  rw [eG] at qe
  change _ ≤ rvMq u M Em at qm
  have hG0 := rvG_nonneg hu hM hEm0
  have h4Mq := four_sq_le_rvMq hu hM hEm0
  have hE0 : 0 ≤ E := hG0.trans hGE
  refine ⟨hμ', wstep_nonneg ha0 ha1 hw0 hs0, wstep_le ha0 ha1 hw hs4, hme, ?_⟩
  -- the var accumulator
  change |v' - wstep a w ((x - μ) * (x - wstep a μ x))| ≤ E
  have hve := hvs.err ha0 ha1 w
  have hwabs : |w| ≤ rvMq u M Em := by rw [abs_of_nonneg hw0]; linarith
  refine (abs_sub_wstep_le ha0 v' w ((x - m) * (1 + ε1) * ((x - m') * (1 + ε2)) * (1 + ε3)) _).trans ?_
  refine (add_le_add hve (mul_le_mul_of_nonneg_left qe ha0)).trans ?_
  exact rv_step_scalar ha0 ha1 ha (by linarith) hv hwabs qm le_rfl hGE hG0 hE

/-- **the invariant of a run**, uniformly in the number of steps -/
theorem FlRVRun.inv {u amin M Em E : K} (hu : 0 ≤ u) (hM : 0 ≤ M) (hamin : 0 ≤ amin)
    (hEm0 : 0 ≤ Em)
    (hEm : (1 - amin) * (1 + u) ^ 3 * Em + ((1 + u) ^ 3 - 1) * M ≤ Em)
    (hGE : rvG u M Em ≤ E)
    (hE : (1 - amin) * (1 + u) ^ 3 * E + ((1 + u) ^ 3 - 1) * rvMq u M Em + amin * rvG u M Em ≤ E)
    {ps : List (K × K)} (hok : StepsOK amin M ps) {m v m' v' μ w : K}
    (h : FlRVRun u m v ps m' v')
    (hμ : |μ| ≤ M) (hw0 : 0 ≤ w) (hw : w ≤ 4 * M ^ 2) (hm : |m - μ| ≤ Em) (hv : |v - w| ≤ E) :
    |(wvrun μ w ps).1| ≤ M ∧ 0 ≤ (wvrun μ w ps).2 ∧ (wvrun μ w ps).2 ≤ 4 * M ^ 2
      ∧ |m' - (wvrun μ w ps).1| ≤ Em ∧ |v' - (wvrun μ w ps).2| ≤ E := by
  induction ps generalizing m v μ w with
  | nil => obtain ⟨rfl, rfl⟩ := h; exact ⟨hμ, hw0, hw, hm, hv⟩
  | cons p ps ih =>
    obtain ⟨m1, v1, hs, hr⟩ := h
    obtain ⟨h1, h2, h3⟩ := hok.head
    obtain ⟨b1, b2, b3, b4, b5⟩ :=
      hs.inv hu hM hamin h1 h2 h3 hEm0 hEm hGE hE hμ hw0 hw hm hv
    exact ih hok.tail hr b1 b2 b3 b4 b5

/-- the exact recursion alone: `|μ| ≤ M`, `0 ≤ w ≤ 4M²` are preserved -/
theorem wvrun_bounds {amin M : K} (hamin : 0 ≤ amin) {ps : List (K × K)} (hok : StepsOK amin M ps)
    {μ w : K} (hμ : |μ| ≤ M) (hw0 : 0 ≤ w) (hw : w ≤ 4 * M ^ 2) :
    |(wvrun μ w ps).1| ≤ M ∧ 0 ≤ (wvrun μ w ps).2 ∧ (wvrun μ w ps).2 ≤ 4 * M ^ 2 := by
  induction ps generalizing μ w with
  | nil => exact ⟨hμ, hw0, hw⟩
  | cons p ps ih =>
    obtain ⟨h1, h2, h3⟩ := hok.head
    have ha0 := hamin.trans h1
    obtain ⟨hs0, hs4⟩ := wv_incr_bounds h2 ha0 hμ h3
    exact ih hok.tail (wstep_abs_le ha0 h2 hμ h3) (wstep_nonneg ha0 h2 hw0 hs0)
      (wstep_le ha0 h2 hw hs4)

/-! ### explicit steady states -/

/-- the explicit steady state `E = (4u·T + amin·G)/(amin − 4u)` of
    `e' ≤ (1 − amin)(1+u)³ e + ((1+u)³ − 1) T + amin G` (`u ≤ 1/4`, `4u < amin`);
    it dominates `G` -/
theorem steady_var {u amin T G : K} (hu : 0 ≤ u) (hu4 : u ≤ 1 / 4) (hT : 0 ≤ T) (hG : 0 ≤ G)
    (ha : 4 * u < amin) :
    G ≤ (4 * u * T + amin * G) / (amin - 4 * u)
      ∧ (1 - amin) * (1 + u) ^ 3 * ((4 * u * T + amin * G) / (amin - 4 * u))
          + ((1 + u) ^ 3 - 1) * T + amin * G ≤ (4 * u * T + amin * G) / (amin - 4 * u) := by
  have hd : 0 < amin - 4 * u := by linarith
  have ha0 : 0 ≤ amin := by linarith
  have hg := gam3_le_four hu hu4
  have hγ := gam3_nonneg hu
  have hnum : 0 ≤ 4 * u * T + amin * G := by positivity
  set E : K := (4 * u * T + amin * G) / (amin - 4 * u) with hEdef
  have hE0 : 0 ≤ E := div_nonneg hnum hd.le
  have hEeq : E * (amin - 4 * u) = 4 * u * T + amin * G := div_mul_cancel₀ _ hd.ne'
  constructor
  · rw [hEdef, le_div_iff₀ hd]
    nlinarith [mul_nonneg hu hT, mul_nonneg hu hG]
  · set γ : K := (1 + u) ^ 3 - 1 with hγdef
    have hg3 : (1 + u) ^ 3 = 1 + γ := by rw [hγdef]; ring
    rw [hg3]
    have k1 : 0 ≤ (4 * u - γ) * T := mul_nonneg (by linarith) hT
    have k2 : 0 ≤ E * (4 * u - γ) := mul_nonneg hE0 (by linarith)
    have k3 : 0 ≤ E * γ * amin := mul_nonneg (mul_nonneg hE0 hγ) ha0
    nlinarith [k1, k2, k3, hEeq]

/-- monotonicity of the two bounds in the mean error -/
theorem rvMq_mono {u M Em Em' : K} (hu : 0 ≤ u) (hM : 0 ≤ M) (h0 : 0 ≤ Em) (h : Em ≤ Em') :
    rvMq u M Em ≤ rvMq u M Em' := by
  unfold rvMq
  have h1 : (2 * M + Em) ^ 2 ≤ (2 * M + Em') ^ 2 :=
    pow_le_pow_left₀ (by positivity) (by linarith) 2
  exact mul_le_mul_of_nonneg_left h1 (by positivity)

theorem rvG_mono {u M Em Em' : K} (hu : 0 ≤ u) (hM : 0 ≤ M) (h0 : 0 ≤ Em) (h : Em ≤ Em') :
    rvG u M Em ≤ rvG u M Em' := by
  unfold rvG
  have h1 : Em ^ 2 ≤ Em' ^ 2 := pow_le_pow_left₀ h0 h 2
  have h2 : 4 * M * Em ≤ 4 * M * Em' := mul_le_mul_of_nonneg_left h (by positivity)
  have h3 : (1 + u) ^ 3 * (4 * M * Em + Em ^ 2) ≤ (1 + u) ^ 3 * (4 * M * Em' + Em' ^ 2) :=
    mul_le_mul_of_nonneg_left (by linarith) (by positivity)
  linarith

/-- **the constants for the model's weights** `amin = 1/l`, `l ≥ 1`, `t = l·u`.
    Given numerical bounds `(1+u)³ ≤ g`, `(1+u)³ − 1 ≤ c·u`, `1/(1 − 4t) ≤ d`, `4 d t ≤ e₀`:
    the steady-state mean error is at most `4 d t M` and the steady-state variance error at most
    `C t M²` for any `C ≥ d (4 g (2+e₀)² + 4 c + 4 d g (4+e₀))`. -/
theorem rvE_le {u l M g c d e0 C Em : K} (hu : 0 ≤ u) (hM : 0 ≤ M) (hl : 1 ≤ l)
    (hul : 4 * u * l < 1) (hg : (1 + u) ^ 3 ≤ g) (hc0 : 0 ≤ c) (hc : (1 + u) ^ 3 - 1 ≤ c * u)
    (hd : 1 ≤ d * (1 - 4 * u * l)) (he0 : 4 * d * (l * u) ≤ e0)
    (hC : d * (4 * g * (2 + e0) ^ 2 + 4 * c + g * (4 * d) * (4 + e0)) ≤ C)
    (hEm : Em = 4 * u * M / (1 / l - 4 * u)) :
    0 ≤ Em ∧ Em ≤ 4 * d * (l * u) * M
      ∧ (4 * u * rvMq u M Em + 1 / l * rvG u M Em) / (1 / l - 4 * u) ≤ C * (l * u) * M ^ 2 := by
  have hl0 : 0 < l := by linarith
  have hden : 0 < 1 - 4 * u * l := by linarith
  have hd0 : 0 < d := by
    by_contra hneg
    have : d * (1 - 4 * u * l) ≤ 0 := mul_nonpos_of_nonpos_of_nonneg (not_lt.mp hneg) hden.le
    linarith
  have hal : 0 < 1 / l - 4 * u := by
    have : 4 * u < 1 / l := by rw [lt_div_iff₀ hl0]; exact hul
    linarith
  set t : K := l * u with ht
  have ht0 : 0 ≤ t := mul_nonneg hl0.le hu
  have hut : u ≤ t := by rw [ht]; nlinarith
  have hEm' : Em = 4 * t * M / (1 - 4 * u * l) := by
    rw [hEm, ht]
    have h1 : 1 / l - 4 * u ≠ 0 := hal.ne'
    have h2 : 1 - 4 * u * l ≠ 0 := hden.ne'
    field_simp
  have hEm0 : 0 ≤ Em := by rw [hEm']; positivity
  have hEmle : Em ≤ 4 * d * t * M := by
    rw [hEm', div_le_iff₀ hden]
    have h4 : 0 ≤ 4 * t * M := by positivity
    calc 4 * t * M = 4 * t * M * 1 := by ring
      _ ≤ 4 * t * M * (d * (1 - 4 * u * l)) := mul_le_mul_of_nonneg_left hd h4
      _ = 4 * d * t * M * (1 - 4 * u * l) := by ring
  refine ⟨hEm0, hEmle, ?_⟩
  have hEme0 : Em ≤ e0 * M := hEmle.trans (mul_le_mul_of_nonneg_right he0 hM)
  have he00 : 0 ≤ e0 := le_trans (by positivity) he0
  have hg1 : 1 ≤ g := le_trans (by linarith [gam3_nonneg hu]) hg
  have hM2 : 0 ≤ M ^ 2 := by positivity
  -- the increment bound
  have hMq : rvMq u M Em ≤ g * (2 + e0) ^ 2 * M ^ 2 := by
    unfold rvMq
    have h1 : (2 * M + Em) ^ 2 ≤ ((2 + e0) * M) ^ 2 :=
      pow_le_pow_left₀ (by positivity) (by linarith) 2
    calc (1 + u) ^ 3 * (2 * M + Em) ^ 2 ≤ g * ((2 + e0) * M) ^ 2 :=
          mul_le_mul hg h1 (by positivity) (by linarith)
      _ = g * (2 + e0) ^ 2 * M ^ 2 := by ring
  -- the increment error
  have hG : rvG u M Em ≤ (4 * c + g * (4 * d) * (4 + e0)) * t * M ^ 2 := by
    unfold rvG
    have h1 : ((1 + u) ^ 3 - 1) * (4 * M ^ 2) ≤ c * t * (4 * M ^ 2) := by
      refine mul_le_mul_of_nonneg_right (hc.trans ?_) (by positivity)
      exact mul_le_mul_of_nonneg_left hut hc0
    have h2 : 4 * M * Em + Em ^ 2 ≤ (4 + e0) * M * (4 * d * t * M) := by
      have : 4 * M * Em + Em ^ 2 = (4 * M + Em) * Em := by ring
      rw [this]
      exact mul_le_mul (by linarith) hEmle hEm0 (by positivity)
    have h3 : (1 + u) ^ 3 * (4 * M * Em + Em ^ 2) ≤ g * ((4 + e0) * M * (4 * d * t * M)) :=
      mul_le_mul hg h2 (by positivity) (by linarith)
    calc _ ≤ c * t * (4 * M ^ 2) + g * ((4 + e0) * M * (4 * d * t * M)) := add_le_add h1 h3
      _ = _ := by ring
  -- assemble
  have hE' : (4 * u * rvMq u M Em + 1 / l * rvG u M Em) / (1 / l - 4 * u)
      = (4 * t * rvMq u M Em + rvG u M Em) / (1 - 4 * u * l) := by
    rw [ht]
    have h1 : 1 / l - 4 * u ≠ 0 := hal.ne'
    have h2 : 1 - 4 * u * l ≠ 0 := hden.ne'
    field_simp
  rw [hE', div_le_iff₀ hden]
  have hnum : 4 * t * rvMq u M Em + rvG u M Em
      ≤ (4 * g * (2 + e0) ^ 2 + 4 * c + g * (4 * d) * (4 + e0)) * t * M ^ 2 := by
    have := mul_le_mul_of_nonneg_left hMq (by positivity : (0 : K) ≤ 4 * t)
    calc _ ≤ 4 * t * (g * (2 + e0) ^ 2 * M ^ 2)
          + (4 * c + g * (4 * d) * (4 + e0)) * t * M ^ 2 := add_le_add this hG
      _ = _ := by ring
  have hS0 : 0 ≤ (4 * g * (2 + e0) ^ 2 + 4 * c + g * (4 * d) * (4 + e0)) * t * M ^ 2 := by
    positivity
  have htM : 0 ≤ t * M ^ 2 := by positivity
  calc 4 * t * rvMq u M Em + rvG u M Em
      ≤ (4 * g * (2 + e0) ^ 2 + 4 * c + g * (4 * d) * (4 + e0)) * t * M ^ 2 := hnum
    _ = (4 * g * (2 + e0) ^ 2 + 4 * c + g * (4 * d) * (4 + e0)) * t * M ^ 2 * 1 := by ring
    _ ≤ (4 * g * (2 + e0) ^ 2 + 4 * c + g * (4 * d) * (4 + e0)) * t * M ^ 2
          * (d * (1 - 4 * u * l)) := mul_le_mul_of_nonneg_left hd hS0
    _ = d * (4 * g * (2 + e0) ^ 2 + 4 * c + g * (4 * d) * (4 + e0)) * (t * M ^ 2)
          * (1 - 4 * u * l) := by ring
    _ ≤ C * (t * M ^ 2) * (1 - 4 * u * l) :=
        mul_le_mul_of_nonneg_right (mul_le_mul_of_nonneg_right hC htM) hden.le
    _ = C * t * M ^ 2 * (1 - 4 * u * l) := by ring

/-! ### the weights of the model -/

/-- the exact recursion over the model's weights IS the model (`RVariance.push` folded), as
    long as both accumulators share `alpha` and the count -/
theorem foldl_rvpush (s : RVariance K) (xs : List K) (hα : s.var.alpha = s.mean.alpha)
    (hn : s.var.n = s.mean.n) :
    ((xs.foldl RVariance.push s).mean.acc, (xs.foldl RVariance.push s).var.acc)
      = wvrun s.mean.acc s.var.acc (modelPairs s.mean.alpha s.mean.n xs) := by
  induction xs generalizing s with
  | nil => rfl
  | cons x xs ih =>
    rw [List.foldl_cons, ih (s.push x) (by simp [RVariance.push, hα]) (by simp [RVariance.push, hn])]
    simp only [modelPairs, wvrun_cons, wvstep, wstep, RVariance.push, RMean.push_acc, RMean.push_n,
      RMean.push_alpha, hα, hn]

theorem RVariance.run_eq_wvrun (l : K) (xs : List K) :
    ((RVariance.run l xs).mean.acc, (RVariance.run l xs).var.acc)
      = wvrun 0 0 (modelPairs (1 / l) 0 xs) := by
  rw [RVariance.run, foldl_rvpush _ _ rfl rfl]
  simp [RVariance.init, RMean.init]

theorem RVariance.run_n (l : K) (xs : List K) :
    (RVariance.run l xs).mean.n = xs.length ∧ (RVariance.run l xs).var.n = xs.length := by
  induction xs using List.reverseRec with
  | nil => simp [RVariance.run, RVariance.init, RMean.init]
  | append_singleton xs x ih =>
    rw [RVariance.run_snoc]
    simp [RVariance.push, ih.1, ih.2]

end Gpv
