/-
  Gpv.Proofs.FlatMapInv — the flat-map invariant `FInv` of the in-process machine
  (`SS` / `sstep?` of `Gpv.Model.Pipeline`): where the inner iterator stands, what has
  been delivered, and that nothing is pulled or drawn ahead; `sspec` as a flat-map.
-/
import Gpv.Proofs.PipelineRun

namespace Gpv.Pipe
variable {α β ε : Type}

/-- the items one result stands for: a plain result is the one-item tuple `(ret,)` -/
def itemsOf : SOutcome β ε → List (Option β)
  | .plain v => [v]
  | .iter l => l
  | .err _ => []

/-- kept items as observations -/
def keptObs (c : Cfg) (l : List (Option β)) : List (Obs β ε) := (l.filter (keep c)).map Obs.value

/-- concatenation of the per-element expansions -/
def flatOut (c : Cfg) (g : α → SOutcome β ε) (l : List α) : List (Obs β ε) :=
  l.flatMap fun x => expand c (g x)

theorem returned_iff (r : SOutcome β ε) : r.returned = true ↔ ∀ e, r ≠ .err e := by
  cases r <;> simp [SOutcome.returned]

theorem expand_eq_keptObs (c : Cfg) (r : SOutcome β ε) (h : r.returned = true) :
    expand c r = keptObs c (itemsOf r) := by
  cases r with
  | plain v => by_cases hk : keep c v = true <;> simp [expand, keptObs, itemsOf, hk]
  | iter l => rfl
  | err e => cases h

@[simp] theorem flatOut_nil (c : Cfg) (g : α → SOutcome β ε) : flatOut c g [] = [] := rfl
theorem flatOut_append (c : Cfg) (g : α → SOutcome β ε) (a b : List α) :
    flatOut c g (a ++ b) = flatOut c g a ++ flatOut c g b := by simp [flatOut]
theorem flatOut_cons (c : Cfg) (g : α → SOutcome β ε) (x : α) (l : List α) :
    flatOut c g (x :: l) = expand c (g x) ++ flatOut c g l := by simp [flatOut]

theorem keptObs_take_succ (c : Cfg) (l : List (Option β)) (n : Nat) (r : Option β) (h : l[n]? = some r) :
    (keptObs c (l.take (n + 1)) : List (Obs β ε))
      = keptObs c (l.take n) ++ (if keep c r then [Obs.value r] else []) := by
  rw [take_succ_of_getElem? h]
  by_cases hk : keep c r = true <;> simp [keptObs, List.filter_append, hk]

theorem drop_eq_cons {l : List (Option β)} {n : Nat} {r : Option β} {rest : List (Option β)}
    (h : l.drop n = r :: rest) : l[n]? = some r ∧ rest = l.drop (n + 1) ∧ n < l.length := by
  have h0 : (l.drop n)[0]? = some r := by rw [h]; rfl
  rw [List.getElem?_drop] at h0
  have hlt : n < l.length := by
    rcases Nat.lt_or_ge n l.length with h' | h'
    · exact h'
    · rw [List.drop_eq_nil_of_le h'] at h; cases h
  refine ⟨by simpa using h0, ?_, hlt⟩
  have : (l.drop n).drop 1 = rest := by rw [h]; rfl
  rw [← this, List.drop_drop]

/-! ### the invariant -/

structure FInv (c : Cfg) (xs : List α) (tail : Option ε) (g : α → SOutcome β ε) (s : SS β ε) : Prop where
  drawn_le : s.drawn ≤ xs.length
  /-- every call so far returned, unless the stream failed -/
  noerr : s.pc ≠ .failed → ∀ x ∈ xs.take s.drawn, (g x).returned = true
  ns : s.pc = .notStarted → s.drawn = 0 ∧ s.out = [] ∧ s.inner = [] ∧ s.pulls = 0
  /-- inside the expansion of element `drawn - 1` -/
  inn : s.pc = .innerHead ∨ s.pc = .atYield → 1 ≤ s.drawn ∧ ∃ x, xs[s.drawn - 1]? = some x ∧
    s.inner = (itemsOf (g x)).drop s.pulls ∧ s.pulls ≤ (itemsOf (g x)).length ∧
    s.out = flatOut c g (xs.take (s.drawn - 1)) ++ keptObs c ((itemsOf (g x)).take s.pulls)
  /-- suspended at the yield: the item just handed over is the last one pulled, and it is a kept one -/
  yld : s.pc = .atYield → 1 ≤ s.pulls ∧ ∃ x r, xs[s.drawn - 1]? = some x ∧
    (itemsOf (g x))[s.pulls - 1]? = some r ∧ keep c r = true ∧ s.out.getLast? = some (.value r)
  /-- between elements: everything drawn is fully expanded, the inner iterator is exhausted -/
  head : s.pc = .loopHead → s.inner = [] ∧ s.out = flatOut c g (xs.take s.drawn) ∧
    (0 < s.drawn → ∃ x, xs[s.drawn - 1]? = some x ∧ s.pulls = (itemsOf (g x)).length)
  fin : s.pc = .done → s.drawn = xs.length ∧ tail = none ∧ s.out = flatOut c g xs ++ [.stop]

theorem FInv.init (c : Cfg) (xs : List α) (tail : Option ε) (g : α → SOutcome β ε) (p0 y0 : Nat) :
    FInv c xs tail g (SS.init p0 y0) := by
  constructor <;> simp [SS.init]

variable {c : Cfg} {xs : List α} {tail : Option ε} {g : α → SOutcome β ε} {p0 y0 : Nat} {s s' : SS β ε}

theorem FInv.next (h : FInv c xs tail g s) (hs : sstep? c xs tail g s .next = some s') :
    FInv c xs tail g s' := by
  simp only [sstep?] at hs
  split at hs <;> (try cases hs) <;> (try exact h) <;> rename_i hpc
  · obtain ⟨hd, ho, hi, hp⟩ := h.ns hpc
    constructor <;> simp [hd, ho, hi]
  · obtain ⟨h1, h2, h3, h4, h5, h6, h7⟩ := h
    have := h4 (.inr hpc)
    constructor <;> simp_all

theorem FInv.close (h : FInv c xs tail g s) (hs : sstep? c xs tail g s .close = some s') :
    FInv c xs tail g s' := by
  simp only [sstep?] at hs
  obtain ⟨h1, h2, h3, h4, h5, h6, h7⟩ := h
  split at hs <;> (try cases hs) <;> (try exact ⟨h1, h2, h3, h4, h5, h6, h7⟩) <;> rename_i hpc
  all_goals (constructor <;> simp_all)

theorem FInv.throw {e : ε} (h : FInv c xs tail g s) (hs : sstep? c xs tail g s (.throw e) = some s') :
    FInv c xs tail g s' := by
  simp only [sstep?] at hs
  obtain ⟨h1, h2, h3, h4, h5, h6, h7⟩ := h
  split at hs <;> (try cases hs) <;> rename_i hpc
  all_goals (constructor <;> simp_all)

theorem FInv.pull (h : FInv c xs tail g s) (hs : sstep? c xs tail g s .pull = some s') :
    FInv c xs tail g s' := by
  simp only [sstep?] at hs
  by_cases hpc : s.pc = .innerHead
  case neg => rw [if_neg hpc] at hs; cases hs
  rw [if_pos hpc] at hs
  obtain ⟨h1, h2, h3, h4, h5, h6, h7⟩ := h
  obtain ⟨hpos, x, hx, hin, hpl, hout⟩ := h4 (.inl hpc)
  have hne := h2 (by simp [hpc])
  split at hs
  · -- exhausted: back to the loop head
    rename_i hnil
    cases hs
    rw [hnil] at hin
    have hlen : s.pulls = (itemsOf (g x)).length := by
      have := congrArg List.length hin
      simp at this; omega
    have hret : (g x).returned = true := by
      apply hne x
      rw [show s.drawn = (s.drawn - 1) + 1 by omega, take_succ_of_getElem? hx]
      simp
    have htk : xs.take s.drawn = xs.take (s.drawn - 1) ++ [x] := by
      conv => lhs; rw [show s.drawn = (s.drawn - 1) + 1 by omega]
      exact take_succ_of_getElem? hx
    refine ⟨h1, by simpa using hne, by simp, by simp, by simp, ?_, by simp⟩
    intro _
    refine ⟨hnil, ?_, fun _ => ⟨x, hx, hlen⟩⟩
    show s.out = _
    rw [hout, htk, flatOut_append, flatOut_cons, flatOut_nil, expand_eq_keptObs c _ hret, hlen,
      List.take_length, List.append_nil]
  · rename_i r rest hcons
    rw [hcons] at hin
    obtain ⟨hr, hrest, hlt⟩ := drop_eq_cons hin.symm
    have hk := keptObs_take_succ (ε := ε) c (itemsOf (g x)) s.pulls r hr
    split at hs <;> cases hs <;> rename_i hkeep
    · rw [if_pos hkeep] at hk
      refine ⟨h1, by simpa using hne, by simp, ?_, ?_, by simp, by simp⟩
      · intro _
        exact ⟨hpos, x, hx, hrest, by show s.pulls + 1 ≤ _; omega, by
          show s.out ++ _ = _
          rw [hk, hout, List.append_assoc]⟩
      · intro _
        exact ⟨by show 1 ≤ s.pulls + 1; omega, x, r, hx, by simpa using hr, hkeep, by simp⟩
    · rw [if_neg hkeep, List.append_nil] at hk
      refine ⟨h1, by simpa [hpc] using hne, by simp [hpc], ?_, by simp [hpc], by simp [hpc], by simp [hpc]⟩
      intro _
      exact ⟨hpos, x, hx, hrest, by show s.pulls + 1 ≤ _; omega, by
        show s.out = _
        rw [hk, hout]⟩

theorem FInv.draw (h : FInv c xs tail g s) (hs : sstep? c xs tail g s .draw = some s') :
    FInv c xs tail g s' := by
  simp only [sstep?] at hs
  by_cases hpc : s.pc = .loopHead
  case neg => rw [if_neg hpc] at hs; cases hs
  rw [if_pos hpc] at hs
  obtain ⟨h1, h2, h3, h4, h5, h6, h7⟩ := h
  obtain ⟨hin, hout, hprev⟩ := h6 hpc
  have hne := h2 (by simp [hpc])
  split at hs
  · rename_i x hx
    have hlt : s.drawn < xs.length := by
      rcases Nat.lt_or_ge s.drawn xs.length with h' | h'
      · exact h'
      · rw [List.getElem?_eq_none h'] at hx; cases hx
    have htk := take_succ_of_getElem? hx
    have started : ∀ (l : List (Option β)), (g x).returned = true → itemsOf (g x) = l →
        FInv c xs tail g { s with drawn := s.drawn + 1, processed := s.processed + 1,
                                  inner := l, pulls := 0, pc := .innerHead } := by
      intro l hret hl
      refine ⟨by show s.drawn + 1 ≤ _; omega, ?_, by simp, ?_, by simp, by simp, by simp⟩
      · intro _ y hy
        change y ∈ xs.take (s.drawn + 1) at hy
        rw [htk, List.mem_append] at hy
        rcases hy with hy | hy
        · exact hne y hy
        · simp at hy; rw [hy]; exact hret
      · intro _
        refine ⟨by show 1 ≤ s.drawn + 1; omega, x, by simpa using hx, by simp [hl], by simp, ?_⟩
        show s.out = _
        simp [hout, keptObs]
    split at hs <;> cases hs <;> rename_i hg
    · exact started [_] (by rw [hg]; rfl) (by rw [hg]; rfl)
    · exact started _ (by rw [hg]; rfl) (by rw [hg]; rfl)
    · refine ⟨by show s.drawn + 1 ≤ _; omega, by simp, by simp, by simp, by simp, by simp, by simp⟩
  · rename_i hx
    have hge : xs.length ≤ s.drawn := by
      rcases Nat.lt_or_ge s.drawn xs.length with h' | h'
      · rw [List.getElem?_eq_getElem h'] at hx; cases hx
      · exact h'
    have hall : xs.take s.drawn = xs := List.take_of_length_le hge
    split at hs <;> cases hs
    · constructor <;> simp [h1]
    · refine ⟨h1, by simpa using hne, by simp, by simp, by simp, by simp, ?_⟩
      intro _
      refine ⟨by show s.drawn = _; omega, rfl, ?_⟩
      show s.out ++ _ = _
      rw [hout, hall]

theorem FInv.step {l : SLabel ε} (h : FInv c xs tail g s) (hs : sstep? c xs tail g s l = some s') :
    FInv c xs tail g s' := by
  cases l with
  | next => exact h.next hs
  | close => exact h.close hs
  | throw e => exact h.throw hs
  | draw => exact h.draw hs
  | pull => exact h.pull hs

theorem SReach.finv (h : SReach c xs tail g p0 y0 s) : FInv c xs tail g s := by
  induction h with
  | init => exact FInv.init ..
  | step l _ hs ih => exact ih.step hs

/-! ### runs of the serial machine -/

/-- run a list of labels; `none` if some label is not enabled -/
def srun (c : Cfg) (xs : List α) (tail : Option ε) (g : α → SOutcome β ε) (s : SS β ε) :
    List (SLabel ε) → Option (SS β ε)
  | [] => some s
  | l :: ls => (sstep? c xs tail g s l).bind fun s' => srun c xs tail g s' ls

theorem SReach.srun (h : SReach c xs tail g p0 y0 s) {ls : List (SLabel ε)}
    (hr : srun c xs tail g s ls = some s') : SReach c xs tail g p0 y0 s' := by
  induction ls generalizing s with
  | nil => cases hr; exact h
  | cons l ls ih =>
    simp only [Pipe.srun] at hr
    cases h1 : sstep? c xs tail g s l with
    | none => rw [h1] at hr; cases hr
    | some s1 => rw [h1] at hr; exact ih (.step l h h1) hr

/-- `k` pulls from the inner head that end at a yield: the first `k - 1` items were dropped,
    the last one is kept and is the only thing delivered -/
theorem pulls_to_yield (items : List (Option β)) (k : Nat) : ∀ s : SS β ε, s.pc = .innerHead →
    s.inner = items.drop s.pulls →
    srun c xs tail g s (List.replicate k .pull) = some s' → s'.pc = .atYield →
    1 ≤ k ∧ s'.drawn = s.drawn ∧ s'.pulls = s.pulls + k ∧
    (∀ j, s.pulls ≤ j → j + 1 < s.pulls + k → ∃ r, items[j]? = some r ∧ keep c r = false) ∧
    ∃ r, items[s.pulls + k - 1]? = some r ∧ keep c r = true ∧ s'.out = s.out ++ [.value r] := by
  induction k with
  | zero =>
    intro s hpc _ hr hy
    cases hr; rw [hpc] at hy; cases hy
  | succ k ih =>
    intro s hpc hin hr hy
    simp only [List.replicate_succ, srun, sstep?, if_pos hpc] at hr
    cases hi : s.inner with
    | nil =>
      rw [hi] at hr
      simp only [Option.bind_some] at hr
      cases k with
      | zero => cases hr; cases hy
      | succ k => simp [List.replicate_succ, srun, sstep?] at hr
    | cons r rest =>
      rw [hi] at hr hin
      obtain ⟨hr0, hrest, hlt⟩ := drop_eq_cons hin.symm
      by_cases hk : keep c r = true
      · simp only [hk, if_true, Option.bind_some] at hr
        cases k with
        | zero =>
          cases hr
          refine ⟨by omega, rfl, rfl, ?_, r, by simpa using hr0, hk, rfl⟩
          intro j h1 h2; omega
        | succ k => simp [List.replicate_succ, srun, sstep?] at hr
      · simp only [hk, Bool.false_eq_true, if_false, Option.bind_some] at hr
        obtain ⟨h1, h2, h3, h4, r', h5, h6, h7⟩ :=
          ih { s with inner := rest, pulls := s.pulls + 1 } hpc hrest hr hy
        refine ⟨by omega, h2, by rw [h3]; show s.pulls + 1 + k = _; omega, ?_, r', ?_, h6, h7⟩
        · intro j hj1 hj2
          by_cases hj : j = s.pulls
          · subst hj; exact ⟨r, hr0, by simpa using hk⟩
          · exact h4 j (by show s.pulls + 1 ≤ j; omega) (by show j + 1 < s.pulls + 1 + k; omega)
        · have : s.pulls + (k + 1) - 1 = s.pulls + 1 + k - 1 := by omega
          rw [this]; exact h5

/-! ### `sspec` is the flat-map of the expansions -/

theorem sspec_returned (c : Cfg) (g : α → SOutcome β ε) (tail : Option ε) (xs : List α)
    (h : ∀ x ∈ xs, (g x).returned = true) :
    sspec c g tail xs = flatOut c g xs ++ [match tail with | none => Obs.stop | some e => Obs.raised e] := by
  induction xs with
  | nil => cases tail <;> rfl
  | cons x xs ih =>
    have hx := h x List.mem_cons_self
    have ih := ih fun y hy => h y (List.mem_cons_of_mem _ hy)
    rw [flatOut_cons, List.append_assoc, ← ih]
    cases hg : g x with
    | err e => rw [hg] at hx; cases hx
    | plain v => simp [sspec, hg]
    | iter l => simp [sspec, hg]

theorem sspec_err (c : Cfg) (g : α → SOutcome β ε) (tail : Option ε) (pre post : List α) (x : α) (e : ε)
    (h : ∀ y ∈ pre, (g y).returned = true) (hx : g x = .err e) :
    sspec c g tail (pre ++ x :: post) = flatOut c g pre ++ [.raised e] := by
  induction pre with
  | nil => simp [sspec, hx]
  | cons y pre ih =>
    have hy := h y List.mem_cons_self
    have ih := ih fun z hz => h z (List.mem_cons_of_mem _ hz)
    rw [flatOut_cons, List.append_assoc, ← ih]
    cases hg : g y with
    | err e => rw [hg] at hy; cases hy
    | plain v => simp [sspec, hg]
    | iter l => simp [sspec, hg]

end Gpv.Pipe
