/-
  Rounding-error analysis of the pooled-mean merge
      `ntot = n + m;  val = a * (n / ntot) + b * (m / ntot)`     (`Mean.merge`, Gpv/Model/Accum.lean)
  in the standard model of `Gpv/Proofs/FloatMean.lean` (`Rnd u e r : r = e (1 + δ), |δ| ≤ u`):
  the integer counts `n`, `m`, `ntot` are exact, each of the five floating-point operations
  (two quotients, two products, one sum) is rounded once.

  Also: merge TREES whose leaves are float runs of the incremental mean (`FlRun`).
-/
import Gpv.Proofs.FloatMean
import Gpv.Props.C06
set_option linter.unusedSectionVars false

namespace Gpv
variable {K : Type} [Field K] [LinearOrder K] [IsStrictOrderedRing K]

/-! ### accumulated relative errors `(1 + δ₁)(1 + δ₂)… − 1` -/

theorem abs_one_add_le {u δ : K} (h : |δ| ≤ u) : |1 + δ| ≤ 1 + u := by
  refine (abs_add_le _ _).trans ?_
  rw [abs_one]; exact add_le_add le_rfl h

/-- relative errors compose multiplicatively: `(1+α)(1+β) − 1` -/
theorem abs_mul_sub_one {a b α β : K} (ha : |a - 1| ≤ α) (hb : |b - 1| ≤ β) :
    |a * b - 1| ≤ (1 + α) * (1 + β) - 1 := by
  have hα : 0 ≤ α := (abs_nonneg _).trans ha
  have e : a * b - 1 = (a - 1) * (b - 1) + (a - 1) + (b - 1) := by ring
  rw [e]
  calc |(a - 1) * (b - 1) + (a - 1) + (b - 1)|
      ≤ |(a - 1) * (b - 1)| + |a - 1| + |b - 1| :=
        (abs_add_le _ _).trans (add_le_add (abs_add_le _ _) le_rfl)
    _ ≤ α * β + α + β := by
        rw [abs_mul]
        exact add_le_add (add_le_add (mul_le_mul ha hb (abs_nonneg _) hα) ha) hb
    _ = (1 + α) * (1 + β) - 1 := by ring

theorem abs_prod2_sub_one {u δ1 δ2 : K} (h1 : |δ1| ≤ u) (h2 : |δ2| ≤ u) :
    |(1 + δ1) * (1 + δ2) - 1| ≤ (1 + u) ^ 2 - 1 := by
  have := abs_mul_sub_one (a := 1 + δ1) (b := 1 + δ2) (α := u) (β := u)
    (by simpa using h1) (by simpa using h2)
  calc |(1 + δ1) * (1 + δ2) - 1| ≤ (1 + u) * (1 + u) - 1 := this
    _ = (1 + u) ^ 2 - 1 := by ring

theorem abs_prod3_sub_one {u δ1 δ2 δ3 : K} (h1 : |δ1| ≤ u) (h2 : |δ2| ≤ u) (h3 : |δ3| ≤ u) :
    |(1 + δ1) * (1 + δ2) * (1 + δ3) - 1| ≤ (1 + u) ^ 3 - 1 := by
  have := abs_mul_sub_one (a := (1 + δ1) * (1 + δ2)) (b := 1 + δ3) (α := (1 + u) ^ 2 - 1) (β := u)
    (abs_prod2_sub_one h1 h2) (by simpa using h3)
  calc |(1 + δ1) * (1 + δ2) * (1 + δ3) - 1| ≤ (1 + ((1 + u) ^ 2 - 1)) * (1 + u) - 1 := this
    _ = (1 + u) ^ 3 - 1 := by ring

theorem gam2_le_gam3 {u : K} (hu : 0 ≤ u) : (1 + u) ^ 2 - 1 ≤ (1 + u) ^ 3 - 1 := by
  have : (1 + u) ^ 3 = (1 + u) ^ 2 * (1 + u) := by ring
  have h2 : 0 ≤ (1 + u) ^ 2 := by positivity
  nlinarith

theorem gam3_nonneg {u : K} (hu : 0 ≤ u) : 0 ≤ (1 + u) ^ 3 - 1 := by
  have : (1 + u) ^ 3 - 1 = u * (3 + 3 * u + u ^ 2) := by ring
  rw [this]; positivity

/-- `(1+u)³ − 1 ≤ 4u` for `u ≤ 1/4` -/
theorem gam3_le_four {u : K} (hu : 0 ≤ u) (h : u ≤ 1 / 4) : (1 + u) ^ 3 - 1 ≤ 4 * u := by
  have e : (1 + u) ^ 3 - 1 = u * (3 + 3 * u + u * u) := by ring
  have h2 : u * u ≤ 1 / 16 := by nlinarith
  rw [e]
  have : 3 + 3 * u + u * u ≤ 4 := by linarith
  calc u * (3 + 3 * u + u * u) ≤ u * 4 := mul_le_mul_of_nonneg_left this hu
    _ = 4 * u := by ring

/-- `(1+u)³ − 1 ≤ (217/64)·u ≤ 3.4·u` for `u ≤ 1/8` -/
theorem gam3_le_eighth {u : K} (hu : 0 ≤ u) (h : u ≤ 1 / 8) : (1 + u) ^ 3 - 1 ≤ 217 / 64 * u := by
  have e : (1 + u) ^ 3 - 1 = u * (3 + 3 * u + u * u) := by ring
  have h2 : u * u ≤ 1 / 64 := by nlinarith
  rw [e]
  have : 3 + 3 * u + u * u ≤ 217 / 64 := by linarith
  calc u * (3 + 3 * u + u * u) ≤ u * (217 / 64) := mul_le_mul_of_nonneg_left this hu
    _ = 217 / 64 * u := by ring

theorem abs_le_of_sub_one {t γ : K} (h : |t - 1| ≤ γ) : |t| ≤ 1 + γ := by
  have e : t = 1 + (t - 1) := by ring
  rw [e]
  refine (abs_add_le _ _).trans ?_
  rw [abs_one]; exact add_le_add le_rfl h

theorem abs_prod3_le {u δ1 δ2 δ3 : K} (h1 : |δ1| ≤ u) (h2 : |δ2| ≤ u) (h3 : |δ3| ≤ u) :
    |(1 + δ1) * (1 + δ2) * (1 + δ3)| ≤ (1 + u) ^ 3 := by
  have := abs_le_of_sub_one (abs_prod3_sub_one h1 h2 h3)
  linarith

/-- two terms with non-negative weights and a common bound -/
theorem two_term_bound {p q a b t1 t2 A γ : K} (hp : 0 ≤ p) (hq : 0 ≤ q)
    (ha : |a| ≤ A) (hb : |b| ≤ A) (h1 : |t1| ≤ γ) (h2 : |t2| ≤ γ) :
    |p * a * t1 + q * b * t2| ≤ (p + q) * A * γ := by
  have hA : 0 ≤ A := (abs_nonneg _).trans ha
  have e1 : |p * a * t1| ≤ p * A * γ := by
    rw [abs_mul, abs_mul, abs_of_nonneg hp]
    exact mul_le_mul (mul_le_mul_of_nonneg_left ha hp) h1 (abs_nonneg _) (mul_nonneg hp hA)
  have e2 : |q * b * t2| ≤ q * A * γ := by
    rw [abs_mul, abs_mul, abs_of_nonneg hq]
    exact mul_le_mul (mul_le_mul_of_nonneg_left hb hq) h2 (abs_nonneg _) (mul_nonneg hq hA)
  calc |p * a * t1 + q * b * t2| ≤ |p * a * t1| + |q * b * t2| := abs_add_le _ _
    _ ≤ p * A * γ + q * A * γ := add_le_add e1 e2
    _ = (p + q) * A * γ := by ring

/-- `(1+u)^k ≤ 1 + k u + (k u)²` as long as `k u ≤ 1` -/
theorem one_add_pow_le {u : K} (hu : 0 ≤ u) (k : ℕ) (h : (k : K) * u ≤ 1) :
    (1 + u) ^ k ≤ 1 + (k : K) * u + ((k : K) * u) ^ 2 := by
  induction k with
  | zero => simp
  | succ k ih =>
    have hk : (0 : K) ≤ (k : K) := Nat.cast_nonneg k
    have hk1 : (k : K) * u ≤ 1 := by
      push_cast at h; nlinarith
    have ih' := ih hk1
    have hku : 0 ≤ (k : K) * u := mul_nonneg hk hu
    have a1 : (k : K) * u * ((k : K) * u * u) ≤ 1 * ((k : K) * u * u) :=
      mul_le_mul_of_nonneg_right hk1 (mul_nonneg hku hu)
    have hstep : (1 + u) ^ (k + 1) ≤ (1 + (k : K) * u + ((k : K) * u) ^ 2) * (1 + u) := by
      rw [pow_succ]
      exact mul_le_mul_of_nonneg_right ih' (by positivity)
    refine hstep.trans ?_
    push_cast
    nlinarith [a1, mul_nonneg hu hu]

/-! ### the merge in the standard model -/

/-- `r` is a possible floating-point value of
    `a * (n / ntot) + b * (m / ntot)`, `ntot = n + m`:
    `p = fl(n / ntot)`, `q = fl(m / ntot)`, `s = fl(a * p)`, `t = fl(b * q)`, `r = fl(s + t)` -/
def FlMerge (u a : K) (n : ℕ) (b : K) (m : ℕ) (r : K) : Prop :=
  ∃ p q s t : K, Rnd u ((n : K) / ((n + m : ℕ) : K)) p ∧ Rnd u ((m : K) / ((n + m : ℕ) : K)) q
    ∧ Rnd u (a * p) s ∧ Rnd u (b * q) t ∧ Rnd u (s + t) r

/-- the exact value of the merged mean, as the source computes it -/
def mergeVal (a : K) (n : ℕ) (b : K) (m : ℕ) : K :=
  a * ((n : K) / ((n + m : ℕ) : K)) + b * ((m : K) / ((n + m : ℕ) : K))

theorem mergeVal_eq (a b : K) {n m : ℕ} (h : n + m ≠ 0) :
    mergeVal a n b m = ((n : K) * a + (m : K) * b) / ((n + m : ℕ) : K) := by
  have hN : ((n + m : ℕ) : K) ≠ 0 := Nat.cast_ne_zero.mpr h
  unfold mergeVal
  field_simp

/-- the model's `Mean.merge` computes `mergeVal` (when `ntot ≠ 0`) -/
theorem Mean.merge_val (a b : K) {n m : ℕ} (h : n + m ≠ 0) :
    ((⟨a, n⟩ : Mean K).merge ⟨b, m⟩).val = mergeVal a n b m
      ∧ ((⟨a, n⟩ : Mean K).merge ⟨b, m⟩).n = n + m := by
  unfold Mean.merge mergeVal
  simp only [if_neg h, and_self]

theorem FlMerge.mono {u u' : K} (h : u ≤ u') {a b r : K} {n m : ℕ} :
    FlMerge u a n b m r → FlMerge u' a n b m r := by
  rintro ⟨p, q, s, t, h1, h2, h3, h4, h5⟩
  exact ⟨p, q, s, t, h1.mono h, h2.mono h, h3.mono h, h4.mono h, h5.mono h⟩

theorem FlMerge.of_exact {u : K} (hu : 0 ≤ u) (a : K) (n : ℕ) (b : K) (m : ℕ) :
    FlMerge u a n b m (mergeVal a n b m) :=
  ⟨_, _, _, _, Rnd.exact hu _, Rnd.exact hu _, Rnd.exact hu _, Rnd.exact hu _, Rnd.exact hu _⟩

theorem flMerge_zero_iff (a : K) (n : ℕ) (b : K) (m : ℕ) (r : K) :
    FlMerge 0 a n b m r ↔ r = mergeVal a n b m := by
  constructor
  · rintro ⟨p, q, s, t, h1, h2, h3, h4, h5⟩
    rw [rnd_zero_iff] at h1 h2 h3 h4 h5
    subst h1 h2 h3 h4; exact h5
  · rintro rfl; exact FlMerge.of_exact le_rfl a n b m

/-- a merge with explicit relative errors -/
theorem flMerge_of_deltas {u : K} (a : K) (n : ℕ) (b : K) (m : ℕ) (δ1 δ2 δ3 δ4 δ5 : K)
    (h1 : |δ1| ≤ u) (h2 : |δ2| ≤ u) (h3 : |δ3| ≤ u) (h4 : |δ4| ≤ u) (h5 : |δ5| ≤ u) :
    FlMerge u a n b m
      ((a * ((n : K) / ((n + m : ℕ) : K) * (1 + δ1)) * (1 + δ3)
        + b * ((m : K) / ((n + m : ℕ) : K) * (1 + δ2)) * (1 + δ4)) * (1 + δ5)) :=
  ⟨_, _, _, _, ⟨δ1, h1, rfl⟩, ⟨δ2, h2, rfl⟩, ⟨δ3, h3, rfl⟩, ⟨δ4, h4, rfl⟩, ⟨δ5, h5, rfl⟩⟩

/-- the identity behind the bound: each operand carries three roundings -/
theorem merge_identity (N n m a b δ1 δ2 δ3 δ4 δ5 : K) (hN : N ≠ 0) :
    N * ((a * (n / N * (1 + δ1)) * (1 + δ3) + b * (m / N * (1 + δ2)) * (1 + δ4)) * (1 + δ5))
        - (n * a + m * b)
      = n * a * ((1 + δ1) * (1 + δ3) * (1 + δ5) - 1) + m * b * ((1 + δ2) * (1 + δ4) * (1 + δ5) - 1) := by
  field_simp
  ring

/-- division-free form of the merge error, valid also for `n + m = 0` -/
theorem FlMerge.defect {u A a b r : K} {n m : ℕ} (h : FlMerge u a n b m r)
    (ha : |a| ≤ A) (hb : |b| ≤ A) :
    |((n + m : ℕ) : K) * r - ((n : K) * a + (m : K) * b)|
      ≤ ((n + m : ℕ) : K) * A * ((1 + u) ^ 3 - 1) := by
  obtain ⟨p, q, s, t, ⟨δ1, h1, rfl⟩, ⟨δ2, h2, rfl⟩, ⟨δ3, h3, rfl⟩, ⟨δ4, h4, rfl⟩, ⟨δ5, h5, rfl⟩⟩ := h
  rcases Nat.eq_zero_or_pos (n + m) with h0 | hpos
  · have hn : n = 0 := by omega
    have hm : m = 0 := by omega
    subst hn hm; simp
  · have hN : ((n + m : ℕ) : K) ≠ 0 := Nat.cast_ne_zero.mpr (by omega)
    rw [merge_identity _ _ _ _ _ _ _ _ _ _ hN]
    have := two_term_bound (Nat.cast_nonneg n) (Nat.cast_nonneg m) ha hb
      (abs_prod3_sub_one h1 h3 h5) (abs_prod3_sub_one h2 h4 h5)
    have hc : ((n + m : ℕ) : K) = (n : K) + (m : K) := by push_cast; rfl
    rw [hc]; exact this

/-- the merged value does not exceed the operands by more than three roundings -/
theorem FlMerge.magnitude {u A a b r : K} {n m : ℕ} (h : FlMerge u a n b m r)
    (ha : |a| ≤ A) (hb : |b| ≤ A) : |r| ≤ A * (1 + u) ^ 3 := by
  obtain ⟨p, q, s, t, ⟨δ1, h1, rfl⟩, ⟨δ2, h2, rfl⟩, ⟨δ3, h3, rfl⟩, ⟨δ4, h4, rfl⟩, ⟨δ5, h5, rfl⟩⟩ := h
  have hA : 0 ≤ A := (abs_nonneg _).trans ha
  have hu : 0 ≤ u := (abs_nonneg _).trans h1
  set N : K := ((n + m : ℕ) : K) with hNdef
  have hN0 : 0 ≤ N := Nat.cast_nonneg _
  have hwn : 0 ≤ (n : K) / N := div_nonneg (Nat.cast_nonneg n) hN0
  have hwm : 0 ≤ (m : K) / N := div_nonneg (Nat.cast_nonneg m) hN0
  have hw : (n : K) / N + (m : K) / N ≤ 1 := by
    rw [← add_div]
    have : (n : K) + (m : K) = N := by rw [hNdef]; push_cast; rfl
    rw [this]; exact div_self_le_one N
  have e : (a * ((n : K) / N * (1 + δ1)) * (1 + δ3) + b * ((m : K) / N * (1 + δ2)) * (1 + δ4)) * (1 + δ5)
      = (n : K) / N * a * ((1 + δ1) * (1 + δ3) * (1 + δ5))
        + (m : K) / N * b * ((1 + δ2) * (1 + δ4) * (1 + δ5)) := by ring
  rw [e]
  have := two_term_bound hwn hwm ha hb (abs_prod3_le h1 h3 h5) (abs_prod3_le h2 h4 h5)
  refine this.trans ?_
  have hg : 0 ≤ A * (1 + u) ^ 3 := by positivity
  calc ((n : K) / N + (m : K) / N) * A * (1 + u) ^ 3
      = ((n : K) / N + (m : K) / N) * (A * (1 + u) ^ 3) := by ring
    _ ≤ 1 * (A * (1 + u) ^ 3) := mul_le_mul_of_nonneg_right hw hg
    _ = A * (1 + u) ^ 3 := by ring

/-- the error of one merge against the exact pooled mean of its operands -/
theorem FlMerge.error {u A a b r : K} {n m : ℕ} (hnm : n + m ≠ 0) (h : FlMerge u a n b m r)
    (ha : |a| ≤ A) (hb : |b| ≤ A) :
    |r - ((n : K) * a + (m : K) * b) / ((n + m : ℕ) : K)| ≤ A * ((1 + u) ^ 3 - 1) := by
  have hN : (0 : K) < ((n + m : ℕ) : K) := Nat.cast_pos.mpr (by omega)
  have hd := h.defect ha hb
  have e : r - ((n : K) * a + (m : K) * b) / ((n + m : ℕ) : K)
      = (((n + m : ℕ) : K) * r - ((n : K) * a + (m : K) * b)) / ((n + m : ℕ) : K) := by
    field_simp
  rw [e, abs_div, abs_of_pos hN, div_le_iff₀ hN]
  calc _ ≤ ((n + m : ℕ) : K) * A * ((1 + u) ^ 3 - 1) := hd
    _ = A * ((1 + u) ^ 3 - 1) * ((n + m : ℕ) : K) := by ring

/-! ### composition: operands that are themselves approximations of chunk means -/

/-- if `a`, `b` approximate the means of chunks with sums `S₁`, `S₂` within `E`
    (division-free: `|n a − S₁| ≤ n E`), and are bounded by `B`, the merged value
    approximates the pooled mean within `E + B·((1+u)³ − 1)` -/
theorem FlMerge.compose {u B E a b r S1 S2 : K} {n m : ℕ} (h : FlMerge u a n b m r)
    (ha : |a| ≤ B) (hb : |b| ≤ B)
    (h1 : |(n : K) * a - S1| ≤ (n : K) * E) (h2 : |(m : K) * b - S2| ≤ (m : K) * E) :
    |((n + m : ℕ) : K) * r - (S1 + S2)| ≤ ((n + m : ℕ) : K) * (E + B * ((1 + u) ^ 3 - 1)) := by
  have hd := h.defect ha hb
  have e : ((n + m : ℕ) : K) * r - (S1 + S2)
      = (((n + m : ℕ) : K) * r - ((n : K) * a + (m : K) * b)) + ((n : K) * a - S1) + ((m : K) * b - S2) := by
    ring
  rw [e]
  have hc : ((n + m : ℕ) : K) = (n : K) + (m : K) := by push_cast; rfl
  calc _ ≤ |((n + m : ℕ) : K) * r - ((n : K) * a + (m : K) * b)| + |(n : K) * a - S1| + |(m : K) * b - S2| :=
        (abs_add_le _ _).trans (add_le_add (abs_add_le _ _) le_rfl)
    _ ≤ ((n + m : ℕ) : K) * B * ((1 + u) ^ 3 - 1) + (n : K) * E + (m : K) * E :=
        add_le_add (add_le_add hd h1) h2
    _ = ((n + m : ℕ) : K) * (E + B * ((1 + u) ^ 3 - 1)) := by rw [hc]; ring

/-! ### merge trees over float runs -/

/-- depth of a merge tree (a leaf has depth 0) -/
def C06.MTree.depth {α : Type} : C06.MTree α → ℕ
  | .leaf _ => 0
  | .node l r => max l.depth r.depth + 1

/-- length of the longest leaf chunk -/
def C06.MTree.maxLeaf {α : Type} : C06.MTree α → ℕ
  | .leaf xs => xs.length
  | .node l r => max l.maxLeaf r.maxLeaf

/-- `v` is a possible floating-point value of the merge tree `t`: the leaves are float
    runs of the incremental mean, every node is a float merge of its children with their
    (exact, integer) observation counts -/
inductive FlTree (u : K) : C06.MTree K → K → Prop
  | leaf {xs : List K} {v : K} : FlRun u xs v → FlTree u (.leaf xs) v
  | node {l r : C06.MTree K} {a b v : K} : FlTree u l a → FlTree u r b →
      FlMerge u a l.flatten.length b r.flatten.length v → FlTree u (.node l r) v

theorem FlTree.mono {u u' : K} (h : u ≤ u') {t : C06.MTree K} {v : K} (ht : FlTree u t v) :
    FlTree u' t v := by
  induction ht with
  | leaf hr => exact FlTree.leaf (hr.mono h)
  | node _ _ hm ihl ihr => exact FlTree.node ihl ihr (hm.mono h)

/-- the magnitude bound carried through the tree:
    `M (1 + 6 L u) (1 + u)^(3 d)`, `L` the longest leaf, `d` the depth -/
def treeB (u M : K) (L d : ℕ) : K := M * (1 + 6 * (L : K) * u) * (1 + u) ^ (3 * d)

theorem treeB_mono {u M : K} (hu : 0 ≤ u) (hM : 0 ≤ M) {L L' d d' : ℕ} (hL : L ≤ L') (hd : d ≤ d') :
    treeB u M L d ≤ treeB u M L' d' := by
  unfold treeB
  have h1 : (1 : K) ≤ 1 + u := by linarith
  have hp : (1 + u) ^ (3 * d) ≤ (1 + u) ^ (3 * d') := pow_le_pow_right₀ h1 (by omega)
  have hLK : (L : K) ≤ (L' : K) := Nat.cast_le.mpr hL
  have hL0 : (0 : K) ≤ (L : K) := Nat.cast_nonneg L
  have hq : M * (1 + 6 * (L : K) * u) ≤ M * (1 + 6 * (L' : K) * u) := by
    apply mul_le_mul_of_nonneg_left _ hM
    have := mul_le_mul_of_nonneg_right hLK hu
    linarith
  exact mul_le_mul hq hp (by positivity) (by positivity)

theorem treeB_succ (u M : K) (L d : ℕ) : treeB u M L (d + 1) = treeB u M L d * (1 + u) ^ 3 := by
  unfold treeB
  rw [show 3 * (d + 1) = 3 * d + 3 by ring, pow_add]
  ring

theorem treeB_ge {u M : K} (hu : 0 ≤ u) (hM : 0 ≤ M) (L d : ℕ) : M ≤ treeB u M L d := by
  unfold treeB
  have h1 : (1 : K) ≤ (1 + u) ^ (3 * d) := one_le_pow₀ (by linarith)
  have hL0 : (0 : K) ≤ (L : K) := Nat.cast_nonneg L
  have h2 : (1 : K) ≤ 1 + 6 * (L : K) * u := by
    have : 0 ≤ 6 * (L : K) * u := by positivity
    linarith
  calc M = M * 1 * 1 := by ring
    _ ≤ M * (1 + 6 * (L : K) * u) * (1 + u) ^ (3 * d) :=
      mul_le_mul (mul_le_mul_of_nonneg_left h2 hM) h1 zero_le_one (by positivity)

/-- the invariant of every float evaluation of a merge tree -/
theorem FlTree.inv {u M : K} (hu : 0 ≤ u) (hM : 0 ≤ M) {t : C06.MTree K} {v : K} (h : FlTree u t v)
    (hx : ∀ x ∈ t.flatten, |x| ≤ M) (hsmall : 8 * (t.maxLeaf : K) * u ≤ 1) :
    |(t.flatten.length : K) * v - t.flatten.sum|
        ≤ (t.flatten.length : K) * (treeB u M t.maxLeaf t.depth - M)
      ∧ |v| ≤ treeB u M t.maxLeaf t.depth := by
  induction h with
  | @leaf xs v hr =>
    simp only [C06.MTree.flatten, C06.MTree.maxLeaf, C06.MTree.depth] at hx hsmall ⊢
    obtain ⟨h1, h2⟩ := FlRun.inv hu hM hr hx (by linarith)
    have hB : treeB u M xs.length 0 = M * (1 + 6 * (xs.length : K) * u) := by simp [treeB]
    rw [hB]
    refine ⟨h1.trans (le_of_eq ?_), h2⟩
    ring
  | @node l r a b v hl hr hm ihl ihr =>
    simp only [C06.MTree.flatten, C06.MTree.maxLeaf, C06.MTree.depth] at hx hsmall ⊢
    have hLl : ((l.maxLeaf : ℕ) : K) ≤ ((max l.maxLeaf r.maxLeaf : ℕ) : K) :=
      Nat.cast_le.mpr (le_max_left _ _)
    have hLr : ((r.maxLeaf : ℕ) : K) ≤ ((max l.maxLeaf r.maxLeaf : ℕ) : K) :=
      Nat.cast_le.mpr (le_max_right _ _)
    have hsl : 8 * (l.maxLeaf : K) * u ≤ 1 := by
      have := mul_le_mul_of_nonneg_right hLl hu
      linarith
    have hsr : 8 * (r.maxLeaf : K) * u ≤ 1 := by
      have := mul_le_mul_of_nonneg_right hLr hu
      linarith
    obtain ⟨l1, l2⟩ := ihl (fun x hx' => hx x (List.mem_append.mpr (Or.inl hx'))) hsl
    obtain ⟨r1, r2⟩ := ihr (fun x hx' => hx x (List.mem_append.mpr (Or.inr hx'))) hsr
    set B : K := treeB u M (max l.maxLeaf r.maxLeaf) (max l.depth r.depth) with hBdef
    have hBl : treeB u M l.maxLeaf l.depth ≤ B :=
      treeB_mono hu hM (le_max_left _ _) (le_max_left _ _)
    have hBr : treeB u M r.maxLeaf r.depth ≤ B :=
      treeB_mono hu hM (le_max_right _ _) (le_max_right _ _)
    have hn0 : (0 : K) ≤ (l.flatten.length : K) := Nat.cast_nonneg _
    have hm0 : (0 : K) ≤ (r.flatten.length : K) := Nat.cast_nonneg _
    have l1' : |(l.flatten.length : K) * a - l.flatten.sum| ≤ (l.flatten.length : K) * (B - M) :=
      l1.trans (mul_le_mul_of_nonneg_left (by linarith) hn0)
    have r1' : |(r.flatten.length : K) * b - r.flatten.sum| ≤ (r.flatten.length : K) * (B - M) :=
      r1.trans (mul_le_mul_of_nonneg_left (by linarith) hm0)
    have hc := hm.compose (l2.trans hBl) (r2.trans hBr) l1' r1'
    rw [treeB_succ, ← hBdef, List.length_append, List.sum_append]
    refine ⟨hc.trans (le_of_eq ?_), hm.magnitude (l2.trans hBl) (r2.trans hBr)⟩
    ring

/-- linearisation of the tree bound: for `8 L u ≤ 1` and `21 d u ≤ 1`,
    `(1 + 6 L u)(1 + u)^(3d) − 1 ≤ 6 (L + d) u` -/
theorem treeB_lin {u M : K} (hu : 0 ≤ u) (hM : 0 ≤ M) (L d : ℕ)
    (hL : 8 * (L : K) * u ≤ 1) (hd : 21 * (d : K) * u ≤ 1) :
    treeB u M L d - M ≤ 6 * ((L : K) + (d : K)) * u * M := by
  unfold treeB
  have hL0 : (0 : K) ≤ (L : K) := Nat.cast_nonneg L
  have hd0 : (0 : K) ≤ (d : K) := Nat.cast_nonneg d
  set t : K := 6 * (L : K) * u with ht
  set x : K := ((3 * d : ℕ) : K) * u with hx
  have hxe : x = 3 * (d : K) * u := by rw [hx]; push_cast; ring
  have ht0 : 0 ≤ t := by positivity
  have hx0 : 0 ≤ x := by rw [hxe]; positivity
  have ht1 : t ≤ 3 / 4 := by rw [ht]; linarith
  have hx1 : x ≤ 1 / 7 := by rw [hxe]; linarith
  have hp := one_add_pow_le hu (3 * d) (by rw [← hx]; linarith)
  rw [← hx] at hp
  have hxx : x * x ≤ x * (1 / 7) := mul_le_mul_of_nonneg_left hx1 hx0
  have hq : (1 + t) * (1 + x + x ^ 2) - 1 ≤ t + 2 * x := by
    have a1 : t * (x + x * x) ≤ 3 / 4 * (x + x * x) :=
      mul_le_mul_of_nonneg_right ht1 (by positivity)
    nlinarith [a1, hxx]
  have h1t : 0 ≤ 1 + t := by linarith
  have hmain : (1 + t) * (1 + u) ^ (3 * d) - 1 ≤ t + 2 * x :=
    le_trans (by linarith [mul_le_mul_of_nonneg_left hp h1t]) hq
  calc M * (1 + t) * (1 + u) ^ (3 * d) - M = M * ((1 + t) * (1 + u) ^ (3 * d) - 1) := by ring
    _ ≤ M * (t + 2 * x) := mul_le_mul_of_nonneg_left hmain hM
    _ = 6 * ((L : K) + (d : K)) * u * M := by rw [ht, hxe]; ring

/-! ### the exact tree is a float tree; `u = 0` forces it -/

theorem Mean.eta_run (xs : List K) : Mean.run xs = ⟨(Mean.run xs).val, xs.length⟩ := by
  rw [← (Mean.run_inv xs).1]

/-- the source formula applied to two exact runs gives the exact run of the concatenation -/
theorem mergeVal_run (xs ys : List K) :
    mergeVal (Mean.run xs).val xs.length (Mean.run ys).val ys.length = (Mean.run (xs ++ ys)).val := by
  by_cases h : xs.length + ys.length = 0
  · have h1 : xs = [] := List.length_eq_zero_iff.mp (by omega)
    have h2 : ys = [] := List.length_eq_zero_iff.mp (by omega)
    subst h1 h2
    simp [mergeVal, Mean.run, Mean.init]
  · have hv := (Mean.merge_val (K := K) (Mean.run xs).val (Mean.run ys).val h).1
    rw [← Mean.eta_run, ← Mean.eta_run, Mean.merge_run] at hv
    exact hv.symm

theorem FlTree.of_exact {u : K} (hu : 0 ≤ u) (t : C06.MTree K) :
    FlTree u t (Mean.run t.flatten).val := by
  induction t with
  | leaf xs => exact FlTree.leaf (FlRun.of_exact hu xs)
  | node l r ihl ihr =>
    refine FlTree.node ihl ihr ?_
    simp only [C06.MTree.flatten]
    rw [← mergeVal_run]
    exact FlMerge.of_exact hu _ _ _ _

theorem flTree_zero_iff (t : C06.MTree K) (v : K) :
    FlTree 0 t v ↔ v = (Mean.run t.flatten).val := by
  constructor
  · intro h
    induction h with
    | leaf hr => exact (flRun_zero_iff _ _).mp hr
    | @node l r a b v _ _ hm ihl ihr =>
      rw [flMerge_zero_iff] at hm
      simp only [C06.MTree.flatten]
      rw [hm, ihl, ihr, mergeVal_run]
  · rintro rfl; exact FlTree.of_exact le_rfl t

end Gpv
