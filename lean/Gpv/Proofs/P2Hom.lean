/-
  Gpv.Proofs.P2Hom — the generic P² model commutes with every map `f : K → K'` that preserves
  the operations and reflects/preserves the order (no algebraic law is used).

  Application (`Gpv.Props.C07Float`): `Fl.val : Fl (Rounding.id F N) → F` is such a map, so the
  rounded model with the identity rounding IS the exact-field model — the rounded theory is a
  conservative extension of the exact one.
-/
import Gpv.Proofs.P2Rounded
set_option linter.unusedSectionVars false

namespace Gpv.Rnd
open Gpv

section hom
variable {K : Type} [Add K] [Sub K] [Mul K] [Div K] [Neg K] [NatCast K]
  [LT K] [DecidableLT K] [LE K] [DecidableLE K]
variable {K' : Type} [Add K'] [Sub K'] [Mul K'] [Div K'] [Neg K'] [NatCast K']
  [LT K'] [DecidableLT K'] [LE K'] [DecidableLE K']

/-- `f` preserves every primitive the P² model uses -/
structure OpHom (f : K → K') : Prop where
  add : ∀ a b, f (a + b) = f a + f b
  sub : ∀ a b, f (a - b) = f a - f b
  mul : ∀ a b, f (a * b) = f a * f b
  div : ∀ a b, f (a / b) = f a / f b
  neg : ∀ a, f (-a) = -f a
  nat : ∀ n : ℕ, f ((n : ℕ) : K) = ((n : ℕ) : K')
  lt : ∀ a b, a < b ↔ f a < f b
  le : ∀ a b, a ≤ b ↔ f a ≤ f b

/-- image of a state -/
def mapP2 (f : K → K') (s : P2 K) : P2 K' := ⟨s.q.map f, s.n, s.h.map f, s.pos.map f⟩

theorem ite_hom (f : K → K') {c c' : Prop} [Decidable c] [Decidable c'] (h : c ↔ c') (a b : K) :
    f (if c then a else b) = if c' then f a else f b := by
  by_cases hc : c
  · rw [if_pos hc, if_pos (h.mp hc)]
  · rw [if_neg hc, if_neg (fun h' => hc (h.mpr h'))]

variable {f : K → K'} (hf : OpHom f)
include hf

theorem nth_map (l : List K) (i : ℕ) : nth (l.map f) i = f (nth l i) := by
  unfold nth
  rw [← hf.nat 0]
  rcases Nat.lt_or_ge i l.length with h | h
  · simp [h]
  · simp [h]

theorem sign_hom (x : K) : f (sign x) = sign (f x) := by
  unfold sign
  rw [ite_hom f (c' := ((0 : ℕ) : K') < f x) (by rw [hf.lt, hf.nat]),
    ite_hom f (c' := f x < ((0 : ℕ) : K')) (by rw [hf.lt, hf.nat]), hf.neg, hf.nat, hf.nat]

theorem parabolic_hom (q1 q2 q3 n1 n2 n3 d : K) :
    f (parabolic q1 q2 q3 n1 n2 n3 d) = parabolic (f q1) (f q2) (f q3) (f n1) (f n2) (f n3) (f d) := by
  simp only [parabolic, hf.add, hf.sub, hf.mul, hf.div]

theorem linear_hom (qi qd ni nd d : K) :
    f (linear qi qd ni nd d) = linear (f qi) (f qd) (f ni) (f nd) (f d) := by
  simp only [linear, hf.add, hf.sub, hf.mul, hf.div]

theorem posdiff_hom (q : List K) (n : ℕ) (pos : List K) (i : ℕ) :
    f (posdiff q n pos i) = posdiff (q.map f) n (pos.map f) i := by
  simp only [posdiff, hf.sub, hf.mul, hf.nat, nth_map hf]

theorem stepCond_hom (q : List K) (n : ℕ) (pos : List K) (i : ℕ) :
    StepCond q n pos i ↔ StepCond (q.map f) n (pos.map f) i := by
  unfold StepCond
  rw [hf.le, hf.lt, hf.le, hf.lt]
  simp only [hf.neg, hf.nat, hf.sub, posdiff_hom hf, nth_map hf]

theorem cand_hom (q : List K) (n : ℕ) (h pos : List K) (i : ℕ) :
    f (cand q n h pos i) = cand (q.map f) n (h.map f) (pos.map f) i := by
  have hd : (sign (posdiff q n pos i) < ((0 : ℕ) : K)) ↔
      (sign (posdiff (q.map f) n (pos.map f) i) < ((0 : ℕ) : K')) := by
    rw [hf.lt, sign_hom hf, posdiff_hom hf, hf.nat]
  unfold cand
  dsimp only
  rw [ite_hom f (c' := nth (h.map f) (i - 1) <
        parabolic (nth (h.map f) (i - 1)) (nth (h.map f) i) (nth (h.map f) (i + 1))
          (nth (pos.map f) (i - 1)) (nth (pos.map f) i) (nth (pos.map f) (i + 1))
          (sign (posdiff (q.map f) n (pos.map f) i)) ∧
        parabolic (nth (h.map f) (i - 1)) (nth (h.map f) i) (nth (h.map f) (i + 1))
          (nth (pos.map f) (i - 1)) (nth (pos.map f) i) (nth (pos.map f) (i + 1))
          (sign (posdiff (q.map f) n (pos.map f) i)) < nth (h.map f) (i + 1))
      (by rw [hf.lt, hf.lt]
          simp only [parabolic_hom hf, sign_hom hf, posdiff_hom hf, nth_map hf])]
  rw [parabolic_hom hf, linear_hom hf, ite_hom f hd, ite_hom f hd]
  simp only [sign_hom hf, posdiff_hom hf, nth_map hf]

theorem adjustOne_hom (q : List K) (n : ℕ) (h pos : List K) (i : ℕ) :
    adjustOne (q.map f) n (h.map f, pos.map f) i =
      ((adjustOne q n (h, pos) i).1.map f, (adjustOne q n (h, pos) i).2.map f) := by
  by_cases hs : StepCond q n pos i
  · rw [adjustOne_step _ _ _ _ _ hs, adjustOne_step _ _ _ _ _ ((stepCond_hom hf q n pos i).mp hs)]
    simp only [List.map_set, cand_hom hf, hf.add, sign_hom hf, posdiff_hom hf, nth_map hf]
  · rw [adjustOne_nostep _ _ _ _ _ hs,
      adjustOne_nostep _ _ _ _ _ (fun h' => hs ((stepCond_hom hf q n pos i).mpr h'))]

theorem foldAdjust_hom (q : List K) (n : ℕ) (l : List ℕ) : ∀ (h pos : List K),
    l.foldl (adjustOne (q.map f) n) (h.map f, pos.map f) =
      ((l.foldl (adjustOne q n) (h, pos)).1.map f, (l.foldl (adjustOne q n) (h, pos)).2.map f) := by
  induction l with
  | nil => intro h pos; rfl
  | cons i l ih =>
    intro h pos
    rw [List.foldl_cons, List.foldl_cons, adjustOne_hom hf, ih]

theorem adjustAll_hom (q : List K) (n : ℕ) (h pos : List K) :
    adjustAll (q.map f) n (h.map f) (pos.map f) =
      ((adjustAll q n h pos).1.map f, (adjustAll q n h pos).2.map f) := by
  unfold adjustAll
  rw [List.length_map]
  exact foldAdjust_hom hf q n _ h pos

theorem placeObs_hom (h pos : List K) (x : K) :
    placeObs (h.map f) (pos.map f) (f x) =
      ((placeObs h pos x).1.map f, (placeObs h pos x).2.map f) := by
  have e0 : f (if x < nth h 0 then x else nth h 0) =
      if f x < nth (h.map f) 0 then f x else nth (h.map f) 0 := by
    rw [ite_hom f (c' := f x < nth (h.map f) 0) (by rw [hf.lt, nth_map hf]), nth_map hf]
  unfold placeObs
  dsimp only
  rw [List.length_map]
  have e1 : List.map f (h.set 0 (if x < nth h 0 then x else nth h 0)) =
      (List.map f h).set 0 (if f x < nth (h.map f) 0 then f x else nth (h.map f) 0) := by
    rw [List.map_set, e0]
  rw [← e1]
  generalize h.set 0 (if x < nth h 0 then x else nth h 0) = h1
  have e2 : f (if nth h1 (h.length - 1) < x then x else nth h1 (h.length - 1)) =
      if nth (h1.map f) (h.length - 1) < f x then f x else nth (h1.map f) (h.length - 1) := by
    rw [ite_hom f (c' := nth (h1.map f) (h.length - 1) < f x) (by rw [hf.lt, nth_map hf]),
      nth_map hf]
  have e3 : List.map f (h1.set (h.length - 1)
        (if nth h1 (h.length - 1) < x then x else nth h1 (h.length - 1))) =
      (List.map f h1).set (h.length - 1)
        (if nth (h1.map f) (h.length - 1) < f x then f x else nth (h1.map f) (h.length - 1)) := by
    rw [List.map_set, e2]
  rw [← e3]
  generalize h1.set (h.length - 1)
    (if nth h1 (h.length - 1) < x then x else nth h1 (h.length - 1)) = h2
  refine Prod.ext rfl ?_
  apply List.ext_getElem?
  intro j
  simp only [List.getElem?_mapIdx, List.getElem?_map, Option.map_map]
  congr 1
  funext p
  simp only [Function.comp]
  rw [ite_hom f (c' := 1 ≤ j ∧ f x ≤ nth (h2.map f) j) (by rw [hf.le, nth_map hf]), hf.add,
    hf.nat]

theorem sortK_hom (l : List K) : sortK (l.map f) = (sortK l).map f := by
  unfold sortK
  symm
  apply List.map_mergeSort
  intro a _ b _
  by_cases h : a ≤ b
  · simp [h, (hf.le a b).mp h]
  · simp [h, mt (hf.le a b).mpr h]

theorem push_hom (s : P2 K) (x : K) : (mapP2 f s).push (f x) = mapP2 f (s.push x) := by
  rcases Nat.lt_trichotomy (s.n + 1) s.q.length with c | c | c
  · have c' : (mapP2 f s).n + 1 < (mapP2 f s).m := by
      simp only [mapP2, P2.m, List.length_map]; exact c
    have c0 : s.n + 1 < s.m := c
    simp only [P2.push, if_pos c', if_pos c0]
    simp [mapP2]
  · rw [push_sort s x c, push_sort (mapP2 f s) (f x) (by simpa [mapP2] using c)]
    simp only [mapP2]
    rw [← List.map_singleton, ← List.map_append, sortK_hom hf, adjustAll_hom hf]
  · rw [push_place s x c, push_place (mapP2 f s) (f x) (by simpa [mapP2] using c)]
    simp only [mapP2]
    rw [placeObs_hom hf, adjustAll_hom hf]

theorem init_hom (q : List K) : P2.init (q.map f) = mapP2 f (P2.init q) := by
  simp only [P2.init, mapP2, List.length_map, List.map_map, List.map_nil]
  congr 1
  apply List.map_congr_left
  intro i _
  exact (hf.nat i).symm

theorem run_hom (q xs : List K) : P2.run (q.map f) (xs.map f) = mapP2 f (P2.run q xs) := by
  induction xs using List.reverseRec with
  | nil => exact init_hom hf q
  | append_singleton xs x ih =>
    rw [List.map_append, List.map_singleton, run_snoc, run_snoc, ih, push_hom hf]

end hom
end Gpv.Rnd
