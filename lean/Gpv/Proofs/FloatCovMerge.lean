/-
  Rounding-error analysis of ONE ENTRY `(i, j)` of the COVARIANCE merge (Chan et al. pooled
  update of the co-moment matrix)
      dmean  = self.mean.value - other.mean.value                        (a vector)
      newn   = self.n + other.n
      newvar = self._cov.sum + other._cov.sum + np.outer(dmean, dmean) * self.n * other.n / newn
      self._cov = Mean(value=newvar / newn, n=newn)
  (`Covariance._accumulate_other`, accumulators.py; entry `(i, j)` of the matrix model
  `Covariance.merge` is `Cov2.merge` of the entries — `Covariance.merge_entry`,
  Gpv/Proofs/ValHom.lean; `.sum` is the rounded product `_val * n`) in the standard model of
  `Gpv/Proofs/FloatMean.lean` (`Rnd u e r : r = e (1 + δ), |δ| ≤ u`).

  Eleven floating-point operations, each rounded once, δ's arbitrary and independent; the
  integer counts `n`, `m`, `newn = n + m` are exact:
      di = fl(ai − bi)       dj = fl(aj − bj)      sa = fl(ca · n)      sb = fl(cb · m)
      q  = fl(di · dj)       q1 = fl(q · n)        q2 = fl(q1 · m)      q3 = fl(q2 / newn)
      s1 = fl(sa + sb)       s2 = fl(s1 + q3)      r  = fl(s2 / newn)
  (entry `(i, j)` of `np.outer(dmean, dmean)` is the single rounded product
  `dmean[i] * dmean[j]`; `*`, `/` associate to the left; the two additions are evaluated
  left to right; all of it elementwise.)

  Every term of the exact result
      N·C = n·ca + m·cb + (ai − bi)(aj − bj)·n·m/N ,   N = n + m
  is multiplied by a product of `1 + δ`'s: four for the two `.sum` terms, eight for the
  `dmean` term.  That is `FlCovMerge.expand`; everything else is inequalities.  Unlike the
  variance merge (`FloatVarMerge.lean`) the three terms have NO sign, so the bounds are in
  terms of `n|ca| + m|cb| + |ai − bi||aj − bj|·n·m/N`, not of `|N·C|`.

  On the diagonal `i = j` Python uses the SAME rounded number `dmean[i]` twice; the model
  here rounds the two differences independently, so `FlCovMerge u a a va n b b vb m` contains
  `FlVarMerge u a va n b vb m` (`FlVarMerge.to_cov`) and obeys the same bounds
  (`FlCovMerge.diag_defect`).
-/
import Gpv.Proofs.FloatVarMerge
import Gpv.Proofs.FloatCov
set_option linter.unusedSectionVars false

namespace Gpv
variable {K : Type} [Field K] [LinearOrder K] [IsStrictOrderedRing K]

/-! ### accumulated relative errors, continued from `FloatVarMerge.lean` -/

/-- the eight roundings that hit the `dmean` term of a covariance entry: two independent
    rounded differences, the product, `·n`, `·m`, `/N`, the second addition, the final `/N` -/
theorem abs_prod8_sub_one' {u δ1 δ2 δ5 δ6 δ7 δ8 δ10 δ11 : K} (h1 : |δ1| ≤ u) (h2 : |δ2| ≤ u)
    (h5 : |δ5| ≤ u) (h6 : |δ6| ≤ u) (h7 : |δ7| ≤ u) (h8 : |δ8| ≤ u) (h10 : |δ10| ≤ u)
    (h11 : |δ11| ≤ u) :
    |(1 + δ1) * (1 + δ2) * (1 + δ5) * (1 + δ6) * (1 + δ7) * (1 + δ8) * (1 + δ10) * (1 + δ11) - 1|
      ≤ (1 + u) ^ 8 - 1 :=
  abs_mul_one_add_sub_one (abs_mul_one_add_sub_one (abs_mul_one_add_sub_one
    (abs_mul_one_add_sub_one (abs_mul_one_add_sub_one (abs_prod3_sub_one h1 h2 h5) h6) h7) h8) h10) h11

/-- `(1+u)⁴ − 1 ≤ 5·u` for `u ≤ 1/8` (the true factor at `u = 1/8` is 4.81) -/
theorem gam4_le_eighth {u : K} (hu : 0 ≤ u) (h : u ≤ 1 / 8) : (1 + u) ^ 4 - 1 ≤ 5 * u := by
  rw [gam4_eq]
  have p2 := pow_le_of_le hu h 2
  have p3 := pow_le_of_le hu h 3
  have : 4 + 6 * u + 4 * u ^ 2 + u ^ 3 ≤ 5 := by
    norm_num at p2 p3
    linarith
  calc u * _ ≤ u * 5 := mul_le_mul_of_nonneg_left this hu
    _ = 5 * u := by ring

/-- `4·n·m ≤ (n + m)²`, i.e. the weight `n·m/N²` of the `dmean` term is at most `1/4` -/
theorem four_mul_le_sq_add (n m : K) : 4 * (n * m) ≤ (n + m) ^ 2 := by
  nlinarith [sq_nonneg (n - m)]

/-- `n·m/N/N ≤ 1/4` for `N = n + m > 0` -/
theorem weight_le_quarter {n m : ℕ} (h : n + m ≠ 0) :
    (n : K) * (m : K) / ((n + m : ℕ) : K) / ((n + m : ℕ) : K) ≤ 1 / 4 := by
  have hN : (0 : K) < ((n + m : ℕ) : K) := Nat.cast_pos.mpr (by omega)
  have h4 := four_mul_le_sq_add (n : K) (m : K)
  rw [div_div, div_le_iff₀ (mul_pos hN hN)]
  push_cast
  nlinarith

/-! ### the covariance-entry merge in the standard model -/

/-- `r` is a possible floating-point value of entry `(i, j)` of the new population covariance
    `(ca·n + cb·m + (ai − bi)(aj − bj)·n·m / newn) / newn`, `newn = n + m`, when merging
    (means `ai`, `aj`, population covariance entry `ca`, count `n`) with (`bi`, `bj`, `cb`,
    `m`); the eleven operations in the order Python evaluates them -/
def FlCovMerge (u ai aj ca : K) (n : ℕ) (bi bj cb : K) (m : ℕ) (r : K) : Prop :=
  ∃ di dj sa sb q q1 q2 q3 s1 s2 : K,
    Rnd u (ai - bi) di ∧ Rnd u (aj - bj) dj
      ∧ Rnd u (ca * (n : K)) sa ∧ Rnd u (cb * (m : K)) sb
      ∧ Rnd u (di * dj) q ∧ Rnd u (q * (n : K)) q1 ∧ Rnd u (q1 * (m : K)) q2
      ∧ Rnd u (q2 / ((n + m : ℕ) : K)) q3
      ∧ Rnd u (sa + sb) s1 ∧ Rnd u (s1 + q3) s2 ∧ Rnd u (s2 / ((n + m : ℕ) : K)) r

/-- the exact value of the merged population covariance entry, as the source computes it -/
def covMergeVal (ai aj ca : K) (n : ℕ) (bi bj cb : K) (m : ℕ) : K :=
  (ca * (n : K) + cb * (m : K) + (ai - bi) * (aj - bj) * (n : K) * (m : K) / ((n + m : ℕ) : K))
    / ((n + m : ℕ) : K)

theorem covMergeVal_eq (ai aj ca bi bj cb : K) (n m : ℕ) :
    covMergeVal ai aj ca n bi bj cb m
      = ((n : K) * ca + (m : K) * cb
          + (ai - bi) * (aj - bj) * (n : K) * (m : K) / ((n + m : ℕ) : K))
          / ((n + m : ℕ) : K) := by
  unfold covMergeVal
  ring

/-- on the diagonal the exact covariance-entry merge is the exact variance merge -/
theorem covMergeVal_diag (a va b vb : K) (n m : ℕ) :
    covMergeVal a a va n b b vb m = varMergeVal a va n b vb m := rfl

/-- the exact merge is symmetric in `(i, j)` -/
theorem covMergeVal_swap (ai aj ca bi bj cb : K) (n m : ℕ) :
    covMergeVal aj ai ca n bj bi cb m = covMergeVal ai aj ca n bi bj cb m := by
  unfold covMergeVal
  ring

/-- the model's `Cov2.merge` (= entry `(i, j)` of `Covariance.merge`,
    `Covariance.merge_entry`) computes `covMergeVal` in its `c` component (when `newn ≠ 0`),
    and merges the two means with `Mean.merge` -/
theorem Cov2.merge_c_val (ai aj ca bi bj cb : K) {n m : ℕ} (h : n + m ≠ 0) :
    ((⟨⟨ai, n⟩, ⟨aj, n⟩, ⟨ca, n⟩⟩ : Cov2 K).merge ⟨⟨bi, m⟩, ⟨bj, m⟩, ⟨cb, m⟩⟩).c.val
        = covMergeVal ai aj ca n bi bj cb m
      ∧ ((⟨⟨ai, n⟩, ⟨aj, n⟩, ⟨ca, n⟩⟩ : Cov2 K).merge ⟨⟨bi, m⟩, ⟨bj, m⟩, ⟨cb, m⟩⟩).c.n = n + m
      ∧ ((⟨⟨ai, n⟩, ⟨aj, n⟩, ⟨ca, n⟩⟩ : Cov2 K).merge ⟨⟨bi, m⟩, ⟨bj, m⟩, ⟨cb, m⟩⟩).mx
          = (⟨ai, n⟩ : Mean K).merge ⟨bi, m⟩
      ∧ ((⟨⟨ai, n⟩, ⟨aj, n⟩, ⟨ca, n⟩⟩ : Cov2 K).merge ⟨⟨bi, m⟩, ⟨bj, m⟩, ⟨cb, m⟩⟩).my
          = (⟨aj, n⟩ : Mean K).merge ⟨bj, m⟩ := by
  have h' : (⟨⟨ai, n⟩, ⟨aj, n⟩, ⟨ca, n⟩⟩ : Cov2 K).mx.n
      + (⟨⟨bi, m⟩, ⟨bj, m⟩, ⟨cb, m⟩⟩ : Cov2 K).mx.n ≠ 0 := h
  unfold Cov2.merge covMergeVal
  simp only [if_neg h']
  simp only [Mean.sum, and_self]

theorem FlCovMerge.mono {u u' : K} (h : u ≤ u') {ai aj ca bi bj cb r : K} {n m : ℕ} :
    FlCovMerge u ai aj ca n bi bj cb m r → FlCovMerge u' ai aj ca n bi bj cb m r := by
  rintro ⟨di, dj, sa, sb, q, q1, q2, q3, s1, s2, h1, h2, h3, h4, h5, h6, h7, h8, h9, h10, h11⟩
  exact ⟨di, dj, sa, sb, q, q1, q2, q3, s1, s2, h1.mono h, h2.mono h, h3.mono h, h4.mono h,
    h5.mono h, h6.mono h, h7.mono h, h8.mono h, h9.mono h, h10.mono h, h11.mono h⟩

theorem FlCovMerge.of_exact {u : K} (hu : 0 ≤ u) (ai aj ca : K) (n : ℕ) (bi bj cb : K) (m : ℕ) :
    FlCovMerge u ai aj ca n bi bj cb m (covMergeVal ai aj ca n bi bj cb m) :=
  ⟨_, _, _, _, _, _, _, _, _, _, Rnd.exact hu _, Rnd.exact hu _, Rnd.exact hu _, Rnd.exact hu _,
    Rnd.exact hu _, Rnd.exact hu _, Rnd.exact hu _, Rnd.exact hu _, Rnd.exact hu _, Rnd.exact hu _,
    Rnd.exact hu _⟩

theorem flCovMerge_zero_iff (ai aj ca : K) (n : ℕ) (bi bj cb : K) (m : ℕ) (r : K) :
    FlCovMerge 0 ai aj ca n bi bj cb m r ↔ r = covMergeVal ai aj ca n bi bj cb m := by
  constructor
  · rintro ⟨di, dj, sa, sb, q, q1, q2, q3, s1, s2, h1, h2, h3, h4, h5, h6, h7, h8, h9, h10, h11⟩
    rw [rnd_zero_iff] at h1 h2 h3 h4 h5 h6 h7 h8 h9 h10 h11
    subst h1 h2 h3 h4 h5 h6 h7 h8 h9 h10; exact h11
  · rintro rfl; exact FlCovMerge.of_exact le_rfl ai aj ca n bi bj cb m

theorem FlCovMerge.u_nonneg {u ai aj ca bi bj cb r : K} {n m : ℕ}
    (h : FlCovMerge u ai aj ca n bi bj cb m r) : 0 ≤ u := by
  obtain ⟨di, dj, sa, sb, q, q1, q2, q3, s1, s2, ⟨δ1, h1, _⟩, _⟩ := h
  exact (abs_nonneg _).trans h1

/-- the float merge is symmetric in `(i, j)` (the product `di * dj` commutes exactly): entry
    `(j, i)` of the float merged matrix can take exactly the values entry `(i, j)` can -/
theorem FlCovMerge.swap {u ai aj ca bi bj cb r : K} {n m : ℕ}
    (h : FlCovMerge u ai aj ca n bi bj cb m r) : FlCovMerge u aj ai ca n bj bi cb m r := by
  obtain ⟨di, dj, sa, sb, q, q1, q2, q3, s1, s2, h1, h2, h3, h4, h5, h6, h7, h8, h9, h10, h11⟩ := h
  exact ⟨dj, di, sa, sb, q, q1, q2, q3, s1, s2, h2, h1, h3, h4, h5.mul_comm', h6, h7, h8, h9, h10,
    h11⟩

/-- every float VARIANCE merge is a float covariance-entry merge on the diagonal (the same
    rounded difference used twice).  The converse is not a matter of unfolding: a diagonal
    `FlCovMerge` witness may round the two (equal) differences differently. -/
theorem FlVarMerge.to_cov {u a va b vb r : K} {n m : ℕ} (h : FlVarMerge u a va n b vb m r) :
    FlCovMerge u a a va n b b vb m r := by
  obtain ⟨d, sa, sb, q, q1, q2, q3, s1, s2, h1, h2, h3, h4, h5, h6, h7, h8, h9, h10⟩ := h
  exact ⟨d, d, sa, sb, q, q1, q2, q3, s1, s2, h1, h1, h2, h3, h4, h5, h6, h7, h8, h9, h10⟩

/-- a diagonal covariance-entry merge whose two rounded differences coincide is a variance
    merge: `FlVarMerge` is exactly `FlCovMerge` on the diagonal with `di = dj` -/
theorem flVarMerge_iff_cov_same_diff (u a va : K) (n : ℕ) (b vb : K) (m : ℕ) (r : K) :
    FlVarMerge u a va n b vb m r ↔ ∃ d sa sb q q1 q2 q3 s1 s2 : K,
      Rnd u (a - b) d ∧ Rnd u (a - b) d
        ∧ Rnd u (va * (n : K)) sa ∧ Rnd u (vb * (m : K)) sb
        ∧ Rnd u (d * d) q ∧ Rnd u (q * (n : K)) q1 ∧ Rnd u (q1 * (m : K)) q2
        ∧ Rnd u (q2 / ((n + m : ℕ) : K)) q3
        ∧ Rnd u (sa + sb) s1 ∧ Rnd u (s1 + q3) s2 ∧ Rnd u (s2 / ((n + m : ℕ) : K)) r := by
  constructor
  · rintro ⟨d, sa, sb, q, q1, q2, q3, s1, s2, h1, h2, h3, h4, h5, h6, h7, h8, h9, h10⟩
    exact ⟨d, sa, sb, q, q1, q2, q3, s1, s2, h1, h1, h2, h3, h4, h5, h6, h7, h8, h9, h10⟩
  · rintro ⟨d, sa, sb, q, q1, q2, q3, s1, s2, h1, _, h2, h3, h4, h5, h6, h7, h8, h9, h10⟩
    exact ⟨d, sa, sb, q, q1, q2, q3, s1, s2, h1, h2, h3, h4, h5, h6, h7, h8, h9, h10⟩

/-- a merge with explicit relative errors, one per operation -/
theorem flCovMerge_of_deltas {u : K} (ai aj ca : K) (n : ℕ) (bi bj cb : K) (m : ℕ)
    (δ1 δ2 δ3 δ4 δ5 δ6 δ7 δ8 δ9 δ10 δ11 : K)
    (h1 : |δ1| ≤ u) (h2 : |δ2| ≤ u) (h3 : |δ3| ≤ u) (h4 : |δ4| ≤ u) (h5 : |δ5| ≤ u)
    (h6 : |δ6| ≤ u) (h7 : |δ7| ≤ u) (h8 : |δ8| ≤ u) (h9 : |δ9| ≤ u) (h10 : |δ10| ≤ u)
    (h11 : |δ11| ≤ u) :
    FlCovMerge u ai aj ca n bi bj cb m
      (((ca * (n : K) * (1 + δ3) + cb * (m : K) * (1 + δ4)) * (1 + δ9)
          + (ai - bi) * (1 + δ1) * ((aj - bj) * (1 + δ2)) * (1 + δ5) * (n : K) * (1 + δ6) * (m : K)
              * (1 + δ7) / ((n + m : ℕ) : K) * (1 + δ8)) * (1 + δ10)
        / ((n + m : ℕ) : K) * (1 + δ11)) :=
  ⟨_, _, _, _, _, _, _, _, _, _, ⟨δ1, h1, rfl⟩, ⟨δ2, h2, rfl⟩, ⟨δ3, h3, rfl⟩, ⟨δ4, h4, rfl⟩,
    ⟨δ5, h5, rfl⟩, ⟨δ6, h6, rfl⟩, ⟨δ7, h7, rfl⟩, ⟨δ8, h8, rfl⟩, ⟨δ9, h9, rfl⟩, ⟨δ10, h10, rfl⟩,
    ⟨δ11, h11, rfl⟩⟩

/-- the identity behind all bounds: `N·r` is the exact `N·C` with each of its three terms
    multiplied by its own product of roundings -/
theorem cov_merge_identity (N n m ai aj bi bj ca cb δ1 δ2 δ3 δ4 δ5 δ6 δ7 δ8 δ9 δ10 δ11 : K)
    (hN : N ≠ 0) :
    N * (((ca * n * (1 + δ3) + cb * m * (1 + δ4)) * (1 + δ9)
          + (ai - bi) * (1 + δ1) * ((aj - bj) * (1 + δ2)) * (1 + δ5) * n * (1 + δ6) * m
              * (1 + δ7) / N * (1 + δ8)) * (1 + δ10) / N * (1 + δ11))
      = n * ca * ((1 + δ3) * (1 + δ9) * (1 + δ10) * (1 + δ11))
        + m * cb * ((1 + δ4) * (1 + δ9) * (1 + δ10) * (1 + δ11))
        + (ai - bi) * (aj - bj) * (n * m / N)
          * ((1 + δ1) * (1 + δ2) * (1 + δ5) * (1 + δ6) * (1 + δ7) * (1 + δ8) * (1 + δ10)
              * (1 + δ11)) := by
  field_simp

/-- **the expansion.**  For every possible float merge there are three accumulated
    rounding factors `πa, πb` (four roundings each) and `πc` (eight roundings) with
    `N·r = n·ca·πa + m·cb·πb + (ai − bi)(aj − bj)·(n·m/N)·πc`; for `u ≤ 1` they are
    non-negative -/
theorem FlCovMerge.expand {u ai aj ca bi bj cb r : K} {n m : ℕ}
    (h : FlCovMerge u ai aj ca n bi bj cb m r) :
    ∃ πa πb πc : K, |πa - 1| ≤ (1 + u) ^ 4 - 1 ∧ |πb - 1| ≤ (1 + u) ^ 4 - 1
      ∧ |πc - 1| ≤ (1 + u) ^ 8 - 1 ∧ (u ≤ 1 → 0 ≤ πa ∧ 0 ≤ πb ∧ 0 ≤ πc)
      ∧ ((n + m : ℕ) : K) * r
          = (n : K) * ca * πa + (m : K) * cb * πb
            + (ai - bi) * (aj - bj) * ((n : K) * (m : K) / ((n + m : ℕ) : K)) * πc := by
  obtain ⟨di, dj, sa, sb, q, q1, q2, q3, s1, s2, ⟨δ1, h1, rfl⟩, ⟨δ2, h2, rfl⟩, ⟨δ3, h3, rfl⟩,
    ⟨δ4, h4, rfl⟩, ⟨δ5, h5, rfl⟩, ⟨δ6, h6, rfl⟩, ⟨δ7, h7, rfl⟩, ⟨δ8, h8, rfl⟩, ⟨δ9, h9, rfl⟩,
    ⟨δ10, h10, rfl⟩, ⟨δ11, h11, rfl⟩⟩ := h
  refine ⟨(1 + δ3) * (1 + δ9) * (1 + δ10) * (1 + δ11), (1 + δ4) * (1 + δ9) * (1 + δ10) * (1 + δ11),
    (1 + δ1) * (1 + δ2) * (1 + δ5) * (1 + δ6) * (1 + δ7) * (1 + δ8) * (1 + δ10) * (1 + δ11),
    abs_prod4_sub_one h3 h9 h10 h11, abs_prod4_sub_one h4 h9 h10 h11,
    abs_prod8_sub_one' h1 h2 h5 h6 h7 h8 h10 h11, ?_, ?_⟩
  · intro hu1
    have p1 := one_add_nonneg_of_abs_le h1 hu1
    have p2 := one_add_nonneg_of_abs_le h2 hu1
    have p3 := one_add_nonneg_of_abs_le h3 hu1
    have p4 := one_add_nonneg_of_abs_le h4 hu1
    have p5 := one_add_nonneg_of_abs_le h5 hu1
    have p6 := one_add_nonneg_of_abs_le h6 hu1
    have p7 := one_add_nonneg_of_abs_le h7 hu1
    have p8 := one_add_nonneg_of_abs_le h8 hu1
    have p9 := one_add_nonneg_of_abs_le h9 hu1
    have p10 := one_add_nonneg_of_abs_le h10 hu1
    have p11 := one_add_nonneg_of_abs_le h11 hu1
    exact ⟨by positivity, by positivity, by positivity⟩
  · rcases Nat.eq_zero_or_pos (n + m) with h0 | hpos
    · have hn : n = 0 := by omega
      have hm : m = 0 := by omega
      subst hn hm; simp
    · have hN : ((n + m : ℕ) : K) ≠ 0 := Nat.cast_ne_zero.mpr (by omega)
      exact cov_merge_identity _ _ _ _ _ _ _ _ _ _ _ _ _ _ _ _ _ _ _ _ hN

/-! ### the bounds -/

/-- `|x·y − Dx·Dy| ≤ |Dx|·Ey + |Dy|·Ex + Ex·Ey` when `|x − Dx| ≤ Ex`, `|y − Dy| ≤ Ey` -/
theorem abs_mul_sub_mul_le {x y Dx Dy Ex Ey : K} (hx : |x - Dx| ≤ Ex) (hy : |y - Dy| ≤ Ey) :
    |x * y - Dx * Dy| ≤ |Dx| * Ey + |Dy| * Ex + Ex * Ey := by
  have hEx : 0 ≤ Ex := (abs_nonneg _).trans hx
  have e : x * y - Dx * Dy = Dx * (y - Dy) + Dy * (x - Dx) + (x - Dx) * (y - Dy) := by ring
  rw [e]
  calc |Dx * (y - Dy) + Dy * (x - Dx) + (x - Dx) * (y - Dy)|
      ≤ |Dx * (y - Dy)| + |Dy * (x - Dx)| + |(x - Dx) * (y - Dy)| :=
        (abs_add_le _ _).trans (add_le_add (abs_add_le _ _) le_rfl)
    _ = |Dx| * |y - Dy| + |Dy| * |x - Dx| + |x - Dx| * |y - Dy| := by
        rw [abs_mul, abs_mul, abs_mul]
    _ ≤ |Dx| * Ey + |Dy| * Ex + Ex * Ey := by
        apply add_le_add (add_le_add _ _)
        · exact mul_le_mul hx hy (abs_nonneg _) hEx
        · exact mul_le_mul_of_nonneg_left hy (abs_nonneg _)
        · exact mul_le_mul_of_nonneg_left hx (abs_nonneg _)

/-- **composition (division-free).**  The operands may themselves be approximations:
    `n·ca ≈ Sa` within `Ba`, `m·cb ≈ Sb` within `Bb`, `ai − bi ≈ Di` within `Ei`,
    `aj − bj ≈ Dj` within `Ej`.  Then `N·r` approximates `Sa + Sb + Di·Dj·n·m/N` within
      `γ₄(|Sa| + |Sb|) + γ₈·|Di||Dj|·n·m/N + (1+u)⁴(Ba + Bb)
        + (1+u)⁸(|Di|·Ej + |Dj|·Ei + Ei·Ej)·n·m/N`,
    `γ_k = (1+u)^k − 1`.  No sign or smallness hypotheses. -/
theorem FlCovMerge.compose {u ai aj ca bi bj cb r Sa Sb Di Dj Ba Bb Ei Ej : K} {n m : ℕ}
    (h : FlCovMerge u ai aj ca n bi bj cb m r)
    (h1 : |(n : K) * ca - Sa| ≤ Ba) (h2 : |(m : K) * cb - Sb| ≤ Bb)
    (h3 : |(ai - bi) - Di| ≤ Ei) (h4 : |(aj - bj) - Dj| ≤ Ej) :
    |((n + m : ℕ) : K) * r - (Sa + Sb + Di * Dj * ((n : K) * (m : K) / ((n + m : ℕ) : K)))|
      ≤ ((1 + u) ^ 4 - 1) * (|Sa| + |Sb|)
        + ((1 + u) ^ 8 - 1) * (|Di| * |Dj| * ((n : K) * (m : K) / ((n + m : ℕ) : K)))
        + (1 + u) ^ 4 * (Ba + Bb)
        + (1 + u) ^ 8 * ((|Di| * Ej + |Dj| * Ei + Ei * Ej)
            * ((n : K) * (m : K) / ((n + m : ℕ) : K))) := by
  obtain ⟨πa, πb, πc, ha, hb, hc, _, hr⟩ := h.expand
  rw [hr]
  have hw : 0 ≤ (n : K) * (m : K) / ((n + m : ℕ) : K) :=
    div_nonneg (mul_nonneg (Nat.cast_nonneg n) (Nat.cast_nonneg m)) (Nat.cast_nonneg _)
  set w : K := (n : K) * (m : K) / ((n + m : ℕ) : K) with hwdef
  have t1 := term_bound h1 ha
  have t2 := term_bound h2 hb
  have hpr := abs_mul_sub_mul_le h3 h4
  have h3' : |(ai - bi) * (aj - bj) * w - Di * Dj * w| ≤ (|Di| * Ej + |Dj| * Ei + Ei * Ej) * w := by
    have e : (ai - bi) * (aj - bj) * w - Di * Dj * w = ((ai - bi) * (aj - bj) - Di * Dj) * w := by
      ring
    rw [e, abs_mul, abs_of_nonneg hw]
    exact mul_le_mul_of_nonneg_right hpr hw
  have t3 := term_bound h3' hc
  have hDw : |Di * Dj * w| = |Di| * |Dj| * w := by
    rw [abs_mul, abs_mul, abs_of_nonneg hw]
  rw [hDw] at t3
  have e : (n : K) * ca * πa + (m : K) * cb * πb + (ai - bi) * (aj - bj) * w * πc
        - (Sa + Sb + Di * Dj * w)
      = ((n : K) * ca * πa - Sa) + ((m : K) * cb * πb - Sb)
        + ((ai - bi) * (aj - bj) * w * πc - Di * Dj * w) := by
    ring
  rw [e]
  calc _ ≤ |(n : K) * ca * πa - Sa| + |(m : K) * cb * πb - Sb|
          + |(ai - bi) * (aj - bj) * w * πc - Di * Dj * w| :=
        (abs_add_le _ _).trans (add_le_add (abs_add_le _ _) le_rfl)
    _ ≤ (((1 + u) ^ 4 - 1) * |Sa| + (1 + ((1 + u) ^ 4 - 1)) * Ba)
        + (((1 + u) ^ 4 - 1) * |Sb| + (1 + ((1 + u) ^ 4 - 1)) * Bb)
        + (((1 + u) ^ 8 - 1) * (|Di| * |Dj| * w)
          + (1 + ((1 + u) ^ 8 - 1)) * ((|Di| * Ej + |Dj| * Ei + Ei * Ej) * w)) :=
        add_le_add (add_le_add t1 t2) t3
    _ = _ := by ring

/-- **exact operands, division-free**:
    `|N·r − N·C| ≤ γ₄(n|ca| + m|cb|) + γ₈·|ai − bi||aj − bj|·n·m/N` -/
theorem FlCovMerge.defect {u ai aj ca bi bj cb r : K} {n m : ℕ}
    (h : FlCovMerge u ai aj ca n bi bj cb m r) :
    |((n + m : ℕ) : K) * r
        - ((n : K) * ca + (m : K) * cb
            + (ai - bi) * (aj - bj) * ((n : K) * (m : K) / ((n + m : ℕ) : K)))|
      ≤ ((1 + u) ^ 4 - 1) * ((n : K) * |ca| + (m : K) * |cb|)
        + ((1 + u) ^ 8 - 1)
          * (|ai - bi| * |aj - bj| * ((n : K) * (m : K) / ((n + m : ℕ) : K))) := by
  have := h.compose (Sa := (n : K) * ca) (Sb := (m : K) * cb) (Di := ai - bi) (Dj := aj - bj)
    (Ba := 0) (Bb := 0) (Ei := 0) (Ej := 0) (by simp) (by simp) (by simp) (by simp)
  have hn0 : (0 : K) ≤ (n : K) := Nat.cast_nonneg n
  have hm0 : (0 : K) ≤ (m : K) := Nat.cast_nonneg m
  rw [abs_mul (n : K) ca, abs_mul (m : K) cb, abs_of_nonneg hn0, abs_of_nonneg hm0] at this
  refine this.trans (le_of_eq ?_)
  ring

/-- the diagonal `i = j` with non-negative operand variances: the defect is at most
    `γ₈·N·V`, exactly as for `FlVarMerge` — although the two differences are rounded
    independently here -/
theorem FlCovMerge.diag_defect {u a va b vb r : K} {n m : ℕ} (hva : 0 ≤ va) (hvb : 0 ≤ vb)
    (h : FlCovMerge u a a va n b b vb m r) :
    |((n + m : ℕ) : K) * r
        - ((n : K) * va + (m : K) * vb + (a - b) ^ 2 * ((n : K) * (m : K) / ((n + m : ℕ) : K)))|
      ≤ ((1 + u) ^ 8 - 1)
        * ((n : K) * va + (m : K) * vb
            + (a - b) ^ 2 * ((n : K) * (m : K) / ((n + m : ℕ) : K))) := by
  have hu := h.u_nonneg
  have hn0 : (0 : K) ≤ (n : K) := Nat.cast_nonneg n
  have hm0 : (0 : K) ≤ (m : K) := Nat.cast_nonneg m
  have hd := h.defect
  rw [abs_of_nonneg hva, abs_of_nonneg hvb, abs_mul_abs_self] at hd
  have e : (a - b) ^ 2 = (a - b) * (a - b) := by ring
  rw [e]
  have h48 := gam_mono hu (show 4 ≤ 8 by norm_num)
  have hX : 0 ≤ (n : K) * va + (m : K) * vb := by positivity
  have hmono := mul_le_mul_of_nonneg_right h48 hX
  refine hd.trans ?_
  rw [mul_add ((1 + u) ^ 8 - 1)]
  linarith

/-- on the diagonal, with non-negative variances (and `u ≤ 1`), the float merged entry is
    non-negative -/
theorem FlCovMerge.diag_nonneg {u a va b vb r : K} {n m : ℕ} (hnm : n + m ≠ 0) (hu1 : u ≤ 1)
    (hva : 0 ≤ va) (hvb : 0 ≤ vb) (h : FlCovMerge u a a va n b b vb m r) : 0 ≤ r := by
  obtain ⟨πa, πb, πc, _, _, _, hpos, hr⟩ := h.expand
  obtain ⟨pa, pb, pc⟩ := hpos hu1
  have hN : (0 : K) < ((n + m : ℕ) : K) := Nat.cast_pos.mpr (by omega)
  have hn0 : (0 : K) ≤ (n : K) := Nat.cast_nonneg n
  have hm0 : (0 : K) ≤ (m : K) := Nat.cast_nonneg m
  have hsq : 0 ≤ (a - b) * (a - b) := mul_self_nonneg _
  have : 0 ≤ ((n + m : ℕ) : K) * r := by
    rw [hr]; positivity
  exact nonneg_of_mul_nonneg_right this hN

/-! ### the exact merge of two exact runs -/

theorem Cov2.eta_run (ps : List (K × K)) :
    Cov2.run ps
      = ⟨⟨(Cov2.run ps).mx.val, ps.length⟩, ⟨(Cov2.run ps).my.val, ps.length⟩,
          ⟨(Cov2.run ps).c.val, ps.length⟩⟩ := by
  have hi := Cov2.run_inv ps
  have h1 := hi.mx_n
  have h2 := hi.my_n
  have h3 := hi.c_n
  rcases h : Cov2.run ps with ⟨⟨a, n1⟩, ⟨b, n2⟩, ⟨c, n3⟩⟩
  rw [h] at h1 h2 h3
  simp only at h1 h2 h3
  subst h1 h2 h3
  rfl

/-- the source formula applied to two exact streaming runs gives the `c` component of the
    exact run over the concatenation (this is C06 `cov_merge_eq`, read off at `c.val`) -/
theorem covMergeVal_run (ps qs : List (K × K)) :
    covMergeVal (Cov2.run ps).mx.val (Cov2.run ps).my.val (Cov2.run ps).c.val ps.length
        (Cov2.run qs).mx.val (Cov2.run qs).my.val (Cov2.run qs).c.val qs.length
      = (Cov2.run (ps ++ qs)).c.val := by
  by_cases h : ps.length + qs.length = 0
  · have h1 : ps = [] := List.length_eq_zero_iff.mp (by omega)
    have h2 : qs = [] := List.length_eq_zero_iff.mp (by omega)
    subst h1 h2
    simp [covMergeVal, Cov2.run, Cov2.init, Mean.init]
  · have hv := (Cov2.merge_c_val (K := K) (Cov2.run ps).mx.val (Cov2.run ps).my.val
      (Cov2.run ps).c.val (Cov2.run qs).mx.val (Cov2.run qs).my.val (Cov2.run qs).c.val h).1
    rw [← Cov2.eta_run, ← Cov2.eta_run, Cov2.merge_run] at hv
    exact hv.symm

end Gpv
