/-
  Rounding-error analysis of the streaming variance (`Variance.push`,
  Gpv/Model/Accum.lean)

      delta1 = x − mean.val ; mean' = mean.push x ; var' = var.push (delta1 * (x − mean'.val))

  under the standard model `Rnd u` of `Gpv.Proofs.FloatMean` (every operation returns
  its exact result times `1 + δ`, `|δ| ≤ u`; no overflow/underflow).  The reference is
  the exact run `Variance.run` of the very same definition over the field.
-/
import Gpv.Proofs.FloatMean
set_option linter.unusedSectionVars false

namespace Gpv
variable {K : Type} [Field K] [LinearOrder K] [IsStrictOrderedRing K]

/-! ### the float step and run -/

/-- one floating-point `Variance.push` with count `k = n + 1`:
    `d1 = fl(x − m)`, `m' =` float mean step, `d2 = fl(x − m')`, `q = fl(d1 * d2)`,
    `v' =` float mean step of the `var` accumulator fed `q` -/
def FlVarStep (u : K) (k : ℕ) (m v x m' v' : K) : Prop :=
  ∃ d1 d2 q : K, Rnd u (x - m) d1 ∧ FlStep u k m x m' ∧ Rnd u (x - m') d2
    ∧ Rnd u (d1 * d2) q ∧ FlStep u k v q v'

/-- `(m, v)` is a possible floating-point state `(mean.val, var.val)` after `xs` -/
inductive FlVarRun (u : K) : List K → K → K → Prop
  | nil : FlVarRun u [] 0 0
  | snoc {xs : List K} {m v : K} (x m' v' : K) :
      FlVarRun u xs m v → FlVarStep u (xs.length + 1) m v x m' v' → FlVarRun u (xs ++ [x]) m' v'

theorem FlVarStep.mono {u u' : K} (h : u ≤ u') {k : ℕ} {m v x m' v' : K} :
    FlVarStep u k m v x m' v' → FlVarStep u' k m v x m' v' := by
  rintro ⟨d1, d2, q, h1, h2, h3, h4, h5⟩
  exact ⟨d1, d2, q, h1.mono h, h2.mono h, h3.mono h, h4.mono h, h5.mono h⟩

theorem FlVarRun.mono {u u' : K} (h : u ≤ u') {xs : List K} {m v : K} (hr : FlVarRun u xs m v) :
    FlVarRun u' xs m v := by
  induction hr with
  | nil => exact FlVarRun.nil
  | @snoc xs m v x m' v' _ hs ih => exact FlVarRun.snoc x m' v' ih (hs.mono h)

/-- the mean component of a variance run is a mean run -/
theorem FlVarRun.mean_run {u : K} {xs : List K} {m v : K} (hr : FlVarRun u xs m v) : FlRun u xs m := by
  induction hr with
  | nil => exact FlRun.nil
  | @snoc xs m v x m' v' _ hs ih =>
    obtain ⟨d1, d2, q, _, h2, _, _, _⟩ := hs
    exact FlRun.snoc x m' ih h2

/-! ### the exact run, step by step -/

theorem Variance.run_mean (xs : List K) : (Variance.run xs).mean = Mean.run xs := by
  induction xs using List.reverseRec with
  | nil => rfl
  | append_singleton xs x ih => rw [Variance.run_snoc, Mean.run_snoc, ← ih]; rfl

/-- the exact update, written out (count `k = xs.length + 1`) -/
theorem Variance.run_snoc_vals (xs : List K) (x : K) :
    (Variance.run (xs ++ [x])).mean.val
        = (Variance.run xs).mean.val + (x / ((xs.length + 1 : ℕ) : K)
            - (Variance.run xs).mean.val / ((xs.length + 1 : ℕ) : K))
      ∧ (Variance.run (xs ++ [x])).var.val
        = (Variance.run xs).var.val
          + ((x - (Variance.run xs).mean.val) * (x - (Variance.run (xs ++ [x])).mean.val)
                / ((xs.length + 1 : ℕ) : K)
              - (Variance.run xs).var.val / ((xs.length + 1 : ℕ) : K)) := by
  have hi := Variance.run_inv xs
  rw [Variance.run_snoc]
  simp only [Variance.push, Mean.push, hi.mean_n, hi.var_n, and_self]

/-- the exact step is a possible float step -/
theorem FlVarStep.exact {u : K} (hu : 0 ≤ u) (k : ℕ) (m v x : K) :
    FlVarStep u k m v x (m + (x / (k : K) - m / (k : K)))
      (v + ((x - m) * (x - (m + (x / (k : K) - m / (k : K)))) / (k : K) - v / (k : K))) :=
  ⟨_, _, _, Rnd.exact hu _, FlStep.exact hu k m x, Rnd.exact hu _, Rnd.exact hu _,
    FlStep.exact hu k v _⟩

theorem flVarStep_zero_iff (k : ℕ) (m v x m' v' : K) :
    FlVarStep 0 k m v x m' v' ↔
      m' = m + (x / (k : K) - m / (k : K))
        ∧ v' = v + ((x - m) * (x - m') / (k : K) - v / (k : K)) := by
  constructor
  · rintro ⟨d1, d2, q, h1, h2, h3, h4, h5⟩
    rw [rnd_zero_iff] at h1 h3 h4
    rw [flStep_zero_iff] at h2 h5
    subst h1 h3 h4
    exact ⟨h2, h5⟩
  · rintro ⟨rfl, rfl⟩
    exact FlVarStep.exact le_rfl k m v x

/-- the exact run (`Variance.run`) is a possible float run for every `u ≥ 0` -/
theorem FlVarRun.of_exact {u : K} (hu : 0 ≤ u) (xs : List K) :
    FlVarRun u xs (Variance.run xs).mean.val (Variance.run xs).var.val := by
  induction xs using List.reverseRec with
  | nil =>
    have h1 : (Variance.run ([] : List K)).mean.val = 0 := by simp [Variance.run, Variance.init, Mean.init]
    have h2 : (Variance.run ([] : List K)).var.val = 0 := by simp [Variance.run, Variance.init, Mean.init]
    rw [h1, h2]; exact FlVarRun.nil
  | append_singleton xs x ih =>
    obtain ⟨e1, e2⟩ := Variance.run_snoc_vals xs x
    refine FlVarRun.snoc x _ _ ih ?_
    have := FlVarStep.exact (K := K) hu (xs.length + 1) (Variance.run xs).mean.val
      (Variance.run xs).var.val x
    rw [← e1] at this
    rw [e2]
    exact this

/-- with `u = 0` the only possible run is the exact one -/
theorem flVarRun_zero_iff (xs : List K) (m v : K) :
    FlVarRun 0 xs m v ↔ m = (Variance.run xs).mean.val ∧ v = (Variance.run xs).var.val := by
  constructor
  · intro h
    induction h with
    | nil => simp [Variance.run, Variance.init, Mean.init]
    | @snoc xs m v x m' v' _ hs ih =>
      obtain ⟨e1, e2⟩ := Variance.run_snoc_vals xs x
      rw [flVarStep_zero_iff] at hs
      obtain ⟨h1, h2⟩ := hs
      obtain ⟨i1, i2⟩ := ih
      have hm : m' = (Variance.run (xs ++ [x])).mean.val := by rw [e1, h1, i1]
      refine ⟨hm, ?_⟩
      rw [e2, h2, ← hm, i1, i2]
  · rintro ⟨rfl, rfl⟩; exact FlVarRun.of_exact le_rfl xs

/-! ### exact quantities: `μ` the running mean, `W = n · var.val = Σ (x − x̄)²` -/

theorem exact_mean_abs_le {M : K} (hM : 0 ≤ M) (xs : List K) (hx : ∀ x ∈ xs, |x| ≤ M) :
    |(Variance.run xs).mean.val| ≤ M := by
  rw [Variance.run_mean]
  have hi := Mean.run_inv xs
  rcases Nat.eq_zero_or_pos xs.length with h0 | hpos
  · have : xs = [] := List.length_eq_zero_iff.mp h0
    subst this
    simpa [Mean.run, Mean.init] using hM
  · have hn : (0 : K) < (xs.length : K) := Nat.cast_pos.mpr hpos
    have h1 := abs_sum_le_length_mul xs M hx
    rw [← hi.2, abs_mul, abs_of_pos hn, mul_comm] at h1
    exact le_of_mul_le_mul_left h1 hn

/-- the exact step in division-free form, `j = xs.length`, `k = j + 1`:
    `k·μ' = j·μ + x`, `k·(x − μ') = j·(x − μ)`, `k·w' = j·w + s` with the (non-negative)
    exact increment `s = (x − μ)(x − μ')` -/
theorem exact_step (xs : List K) (x : K) :
    ((xs.length : K) + 1) * (x - (Variance.run (xs ++ [x])).mean.val)
        = (xs.length : K) * (x - (Variance.run xs).mean.val)
      ∧ ((xs.length : K) + 1) * (Variance.run (xs ++ [x])).var.val
        = (xs.length : K) * (Variance.run xs).var.val
          + (x - (Variance.run xs).mean.val) * (x - (Variance.run (xs ++ [x])).mean.val)
      ∧ 0 ≤ (x - (Variance.run xs).mean.val) * (x - (Variance.run (xs ++ [x])).mean.val) := by
  obtain ⟨e1, e2⟩ := Variance.run_snoc_vals xs x
  have hk : ((xs.length + 1 : ℕ) : K) ≠ 0 := Nat.cast_ne_zero.mpr (Nat.succ_ne_zero _)
  have hk' : (0 : K) < (xs.length : K) + 1 := by positivity
  push_cast at e1 e2 hk
  set μ := (Variance.run xs).mean.val
  set μ' := (Variance.run (xs ++ [x])).mean.val
  set w := (Variance.run xs).var.val
  set w' := (Variance.run (xs ++ [x])).var.val
  have a1 : ((xs.length : K) + 1) * (x - μ') = (xs.length : K) * (x - μ) := by
    rw [e1]; field_simp; ring
  have a2 : ((xs.length : K) + 1) * w' = (xs.length : K) * w + (x - μ) * (x - μ') := by
    rw [e2]; field_simp; ring
  refine ⟨a1, a2, ?_⟩
  have : (x - μ') = (xs.length : K) * (x - μ) / ((xs.length : K) + 1) := by
    rw [eq_div_iff hk, mul_comm]; exact a1
  rw [this]
  have hj : (0 : K) ≤ (xs.length : K) := Nat.cast_nonneg _
  have : (x - μ) * ((xs.length : K) * (x - μ) / ((xs.length : K) + 1))
      = (xs.length : K) * (x - μ) ^ 2 / ((xs.length : K) + 1) := by ring
  rw [this]
  positivity

/-- `W = n · var.val ≥ 0` -/
theorem exact_W_nonneg (xs : List K) : 0 ≤ (xs.length : K) * (Variance.run xs).var.val := by
  induction xs using List.reverseRec with
  | nil => simp
  | append_singleton xs x ih =>
    obtain ⟨_, a2, a3⟩ := exact_step xs x
    simp only [List.length_append, List.length_singleton]
    push_cast
    rw [a2]; exact add_nonneg ih a3

/-! ### relative-error bookkeeping -/

theorem rel_compose {p r ε u : K} (hp : |p - 1| ≤ r) (hε : |ε| ≤ u) :
    |p * (1 + ε) - 1| ≤ r + u + r * u := by
  have hr : 0 ≤ r := (abs_nonneg _).trans hp
  have e : p * (1 + ε) - 1 = (p - 1) + ε + (p - 1) * ε := by ring
  rw [e]
  calc |(p - 1) + ε + (p - 1) * ε| ≤ |(p - 1) + ε| + |(p - 1) * ε| := abs_add_le _ _
    _ ≤ (|p - 1| + |ε|) + |p - 1| * |ε| := add_le_add (abs_add_le _ _) (le_of_eq (abs_mul _ _))
    _ ≤ (r + u) + r * u := add_le_add (add_le_add hp hε) (mul_le_mul hp hε (abs_nonneg _) hr)

/-- three roundings: `|(1+ε₁)(1+ε₂)(1+ε₃) − 1| ≤ 4u` once `64 u ≤ 1` -/
theorem prod3_rel {u ε1 ε2 ε3 : K} (h1 : |ε1| ≤ u) (h2 : |ε2| ≤ u) (h3 : |ε3| ≤ u)
    (hu64 : 64 * u ≤ 1) : |(1 + ε1) * (1 + ε2) * (1 + ε3) - 1| ≤ 4 * u := by
  have hu : 0 ≤ u := (abs_nonneg _).trans h1
  have p1 : |(1 + ε1) - 1| ≤ u := by simpa using h1
  have p2 := rel_compose p1 h2
  have p3 := rel_compose p2 h3
  refine p3.trans ?_
  have a5 : u * u ≤ u * (1 / 64) := mul_le_mul_of_nonneg_left (by linarith) hu
  have a6 : u * u * u ≤ u * u * (1 / 64) := mul_le_mul_of_nonneg_left (by linarith) (mul_nonneg hu hu)
  nlinarith [a5, a6]

theorem abs_le_one_add_of_rel {p r : K} (hp : |p - 1| ≤ r) : |p| ≤ 1 + r := by
  have : p = 1 + (p - 1) := by ring
  rw [this]
  calc |1 + (p - 1)| ≤ |(1 : K)| + |p - 1| := abs_add_le _ _
    _ ≤ 1 + r := by rw [abs_one]; exact add_le_add le_rfl hp

/-- the rounded increment `q = fl(fl(x − m) · fl(x − m'))` against the exact increment
    `s = (x − μ)(x − μ')`, given the errors `|m − μ|, |m' − μ'| ≤ 6 k u M` of the float means -/
theorem q_error {u M k : K} (hu : 0 ≤ u) (hM : 0 ≤ M) (hk : 0 ≤ k) (hku : 64 * k * u ≤ 1)
    (hu64 : 64 * u ≤ 1) {x μ μ' m m' ε1 ε2 ε3 : K}
    (ha : |x - μ| ≤ 2 * M) (hb : |x - μ'| ≤ 2 * M)
    (he : |m - μ| ≤ 6 * k * u * M) (he' : |m' - μ'| ≤ 6 * k * u * M)
    (h1 : |ε1| ≤ u) (h2 : |ε2| ≤ u) (h3 : |ε3| ≤ u) (hs : 0 ≤ (x - μ) * (x - μ')) :
    |(x - m) * (1 + ε1) * ((x - m') * (1 + ε2)) * (1 + ε3) - (x - μ) * (x - μ')|
        ≤ 4 * u * ((x - μ) * (x - μ')) + 28 * k * u * M ^ 2
      ∧ |(x - m) * (1 + ε1) * ((x - m') * (1 + ε2)) * (1 + ε3)| ≤ 5 * M ^ 2 := by
  set a := x - μ with ha_def
  set b := x - μ' with hb_def
  set e := m - μ with he_def
  set e' := m' - μ' with he'_def
  set π := (1 + ε1) * (1 + ε2) * (1 + ε3) with hπ_def
  set E := 6 * k * u * M with hE_def
  have hE0 : 0 ≤ E := by positivity
  have hπ1 : |π - 1| ≤ 4 * u := prod3_rel h1 h2 h3 hu64
  have hπ : |π| ≤ 1 + 4 * u := abs_le_one_add_of_rel hπ1
  have hq : (x - m) * (1 + ε1) * ((x - m') * (1 + ε2)) * (1 + ε3) = (a - e) * (b - e') * π := by
    simp only [ha_def, hb_def, he_def, he'_def, hπ_def]; ring
  rw [hq]
  have hku' : k * u ≤ 1 / 64 := by linarith
  have hE : E ≤ 3 / 32 * M := by
    have : 6 * (k * u) * M ≤ 6 * (1 / 64) * M :=
      mul_le_mul_of_nonneg_right (mul_le_mul_of_nonneg_left hku' (by norm_num)) hM
    calc E = 6 * (k * u) * M := by rw [hE_def]; ring
      _ ≤ 6 * (1 / 64) * M := this
      _ = 3 / 32 * M := by ring
  constructor
  · have hid : (a - e) * (b - e') * π - a * b = a * b * (π - 1) + (-(a * e') - e * b + e * e') * π := by
      ring
    rw [hid]
    have t1 : |a * b * (π - 1)| ≤ 4 * u * (a * b) := by
      rw [abs_mul, abs_of_nonneg hs]
      calc a * b * |π - 1| ≤ a * b * (4 * u) := mul_le_mul_of_nonneg_left hπ1 hs
        _ = 4 * u * (a * b) := by ring
    have t2 : |-(a * e') - e * b + e * e'| ≤ 4 * M * E + E * E := by
      calc |-(a * e') - e * b + e * e'| ≤ |-(a * e') - e * b| + |e * e'| := abs_add_le _ _
        _ ≤ (|-(a * e')| + |e * b|) + |e * e'| := add_le_add (abs_sub _ _) le_rfl
        _ = |a| * |e'| + |e| * |b| + |e| * |e'| := by rw [abs_neg, abs_mul, abs_mul, abs_mul]
        _ ≤ 2 * M * E + E * (2 * M) + E * E := by
            apply add_le_add (add_le_add _ _) _
            · exact mul_le_mul ha he' (abs_nonneg _) (by positivity)
            · exact mul_le_mul he hb (abs_nonneg _) hE0
            · exact mul_le_mul he he' (abs_nonneg _) hE0
        _ = 4 * M * E + E * E := by ring
    have t2nn : 0 ≤ 4 * M * E + E * E := by positivity
    have t3 : |(-(a * e') - e * b + e * e') * π| ≤ (4 * M * E + E * E) * (1 + 4 * u) := by
      rw [abs_mul]; exact mul_le_mul t2 hπ (abs_nonneg _) t2nn
    have t4 : (4 * M * E + E * E) * (1 + 4 * u) ≤ 28 * k * u * M ^ 2 := by
      have hkuM : 0 ≤ k * u * M ^ 2 := by positivity
      have hfac : (24 + 36 * (k * u)) * (1 + 4 * u) ≤ 28 := by
        have hku0 : 0 ≤ k * u := mul_nonneg hk hu
        have : k * u * u ≤ k * u * (1 / 64) := mul_le_mul_of_nonneg_left (by linarith) hku0
        nlinarith
      calc (4 * M * E + E * E) * (1 + 4 * u)
          = (24 + 36 * (k * u)) * (1 + 4 * u) * (k * u * M ^ 2) := by rw [hE_def]; ring
        _ ≤ 28 * (k * u * M ^ 2) := mul_le_mul_of_nonneg_right hfac hkuM
        _ = 28 * k * u * M ^ 2 := by ring
    calc |a * b * (π - 1) + (-(a * e') - e * b + e * e') * π|
        ≤ |a * b * (π - 1)| + |(-(a * e') - e * b + e * e') * π| := abs_add_le _ _
      _ ≤ 4 * u * (a * b) + 28 * k * u * M ^ 2 := add_le_add t1 (t3.trans t4)
  · have f1 : |a - e| ≤ 67 / 32 * M := by
      calc |a - e| ≤ |a| + |e| := abs_sub _ _
        _ ≤ 2 * M + E := add_le_add ha he
        _ ≤ 2 * M + 3 / 32 * M := add_le_add le_rfl hE
        _ = 67 / 32 * M := by ring
    have f2 : |b - e'| ≤ 67 / 32 * M := by
      calc |b - e'| ≤ |b| + |e'| := abs_sub _ _
        _ ≤ 2 * M + E := add_le_add hb he'
        _ ≤ 2 * M + 3 / 32 * M := add_le_add le_rfl hE
        _ = 67 / 32 * M := by ring
    have f3 : |π| ≤ 17 / 16 := hπ.trans (by linarith)
    have hM67 : 0 ≤ 67 / 32 * M := by positivity
    rw [abs_mul, abs_mul]
    calc |a - e| * |b - e'| * |π| ≤ (67 / 32 * M) * (67 / 32 * M) * (17 / 16) := by
          apply mul_le_mul _ f3 (abs_nonneg _) (by positivity)
          exact mul_le_mul f1 f2 (abs_nonneg _) hM67
      _ = 76313 / 16384 * M ^ 2 := by ring
      _ ≤ 5 * M ^ 2 := by
          have : 0 ≤ M ^ 2 := by positivity
          linarith

/-- magnitude of the new accumulator value from its defect (`k = j + 1 > 0`) -/
theorem magnitude_of_defect {u M k v' S' : K} (hk : 0 < k)
    (hd : |k * v' - S'| ≤ 6 * k ^ 2 * u * M) (hS' : |S'| ≤ k * M) :
    |v'| ≤ M * (1 + 6 * k * u) := by
  have : k * |v'| ≤ k * (M * (1 + 6 * k * u)) := by
    have e : k * |v'| = |k * v'| := by rw [abs_mul, abs_of_pos hk]
    rw [e]
    calc |k * v'| = |(k * v' - S') + S'| := by ring_nf
      _ ≤ |k * v' - S'| + |S'| := abs_add_le _ _
      _ ≤ 6 * k ^ 2 * u * M + k * M := add_le_add hd hS'
      _ = k * (M * (1 + 6 * k * u)) := by ring
  exact le_of_mul_le_mul_left this hk

/-- error of the float mean against the exact running mean of `Variance.run` -/
theorem FlRun.mean_error {u M : K} (hu : 0 ≤ u) (hM : 0 ≤ M) {xs : List K} {m : K}
    (h : FlRun u xs m) (hne : xs ≠ []) (hx : ∀ x ∈ xs, |x| ≤ M) (hsmall : (xs.length : K) * u ≤ 1 / 8) :
    |m - (Variance.run xs).mean.val| ≤ 6 * (xs.length : K) * u * M := by
  have hn : (0 : K) < (xs.length : K) := Nat.cast_pos.mpr (List.length_pos_iff.mpr hne)
  have hd := (FlRun.inv hu hM h hx hsmall).1
  rw [Variance.run_mean]
  have hi := (Mean.run_inv xs).2
  rw [← hi] at hd
  have e : (xs.length : K) * m - (Mean.run xs).val * (xs.length : K)
      = (xs.length : K) * (m - (Mean.run xs).val) := by ring
  rw [e, abs_mul, abs_of_pos hn] at hd
  have : (xs.length : K) * |m - (Mean.run xs).val| ≤ (xs.length : K) * (6 * (xs.length : K) * u * M) := by
    calc _ ≤ 6 * (xs.length : K) ^ 2 * u * M := hd
      _ = _ := by ring
  exact le_of_mul_le_mul_left this hn

/-! ### the invariant of every possible float variance run -/

/-- With `n = xs.length`, `μ`, `w` the exact `mean.val`, `var.val` of `Variance.run xs`
    (so `n·w = Σ (x − x̄)²`), `|x| ≤ M`, `64·n·u ≤ 1`:
    * the float mean is within `6 n u M` of `μ`;
    * there is a number `Q` (the exact sum of the rounded increments `q`) such that the
      float `var` accumulator is a float *mean* run over the `q`'s (each `|q| ≤ 5M²`):
      `|n·v − Q| ≤ 6 n² u · 5M²`, and `Q` itself is close to `n·w`:
      `|Q − n·w| ≤ 4u·(n·w) + 14·n(n+1)·u·M²`. -/
theorem FlVarRun.inv {u M : K} (hu : 0 ≤ u) (hM : 0 ≤ M) {xs : List K} {m v : K}
    (h : FlVarRun u xs m v) (hx : ∀ x ∈ xs, |x| ≤ M) (hsmall : 64 * (xs.length : K) * u ≤ 1) :
    |m - (Variance.run xs).mean.val| ≤ 6 * (xs.length : K) * u * M
      ∧ ∃ Q : K, |Q| ≤ (xs.length : K) * (5 * M ^ 2)
        ∧ |(xs.length : K) * v - Q| ≤ 6 * (xs.length : K) ^ 2 * u * (5 * M ^ 2)
        ∧ |v| ≤ 5 * M ^ 2 * (1 + 6 * (xs.length : K) * u)
        ∧ |Q - (xs.length : K) * (Variance.run xs).var.val|
            ≤ 4 * u * ((xs.length : K) * (Variance.run xs).var.val)
              + 14 * (xs.length : K) * ((xs.length : K) + 1) * u * M ^ 2 := by
  induction h with
  | nil =>
    refine ⟨by simp [Variance.run, Variance.init, Mean.init], 0, ?_⟩
    simp only [List.length_nil, Nat.cast_zero]
    refine ⟨by simp, by simp, ?_, by simp⟩
    simp only [abs_zero]; positivity
  | @snoc xs m v x m' v' hr hs ih =>
    have hxs : ∀ y ∈ xs, |y| ≤ M := fun y hy => hx y (by simp [hy])
    have hxx : |x| ≤ M := hx x (by simp)
    have hlen : (xs ++ [x]).length = xs.length + 1 := by simp
    have hJ : (0 : K) ≤ (xs.length : K) := Nat.cast_nonneg _
    have hM2 : (0 : K) ≤ 5 * M ^ 2 := by positivity
    rw [hlen] at hsmall ⊢
    push_cast at hsmall ⊢
    set J : K := (xs.length : K) with hJdef
    have hJu : 0 ≤ J * u := mul_nonneg hJ hu
    have hsmallJ : 64 * J * u ≤ 1 := by nlinarith
    have hu64 : 64 * u ≤ 1 := by nlinarith
    obtain ⟨im, Q, q1, q2, q3, q4⟩ := ih hxs hsmallJ
    obtain ⟨d1, d2, q, ⟨ε1, h1, rfl⟩, hms, ⟨ε2, h2, rfl⟩, ⟨ε3, h3, rfl⟩, hvs⟩ := hs
    -- the float mean after the step
    have hmr' : FlRun u (xs ++ [x]) m' := FlRun.snoc x m' hr.mean_run hms
    have he' : |m' - (Variance.run (xs ++ [x])).mean.val| ≤ 6 * (J + 1) * u * M := by
      have := FlRun.mean_error hu hM hmr' (by simp) hx (by rw [hlen]; push_cast; linarith)
      rw [hlen] at this; push_cast at this; exact this
    have he : |m - (Variance.run xs).mean.val| ≤ 6 * (J + 1) * u * M := by
      refine im.trans ?_
      have : 0 ≤ u * M := mul_nonneg hu hM
      nlinarith
    -- exact quantities
    have hμ := exact_mean_abs_le hM xs hxs
    have hμ' := exact_mean_abs_le hM (xs ++ [x]) hx
    obtain ⟨a1, a2, a3⟩ := exact_step xs x
    rw [← hJdef] at a1 a2
    set μ := (Variance.run xs).mean.val
    set μ' := (Variance.run (xs ++ [x])).mean.val
    set w := (Variance.run xs).var.val
    set w' := (Variance.run (xs ++ [x])).var.val
    have ha : |x - μ| ≤ 2 * M := (abs_sub _ _).trans (by linarith)
    have hb : |x - μ'| ≤ 2 * M := (abs_sub _ _).trans (by linarith)
    obtain ⟨qe, qm⟩ := q_error hu hM (k := J + 1) (by positivity) (by linarith) hu64 ha hb he he'
      h1 h2 h3 a3
    set q := (x - m) * (1 + ε1) * ((x - m') * (1 + ε2)) * (1 + ε3) with hq
    -- the `var` accumulator is a float mean step over `q`
    have hd := FlStep.defect hu hM2 (j := xs.length) (S := Q)
      (by push_cast; rw [← hJdef]; linarith) q1 qm q2 q3 hvs
    push_cast at hd
    rw [← hJdef] at hd
    have hQ' : |Q + q| ≤ (J + 1) * (5 * M ^ 2) := by
      calc |Q + q| ≤ |Q| + |q| := abs_add_le _ _
        _ ≤ J * (5 * M ^ 2) + 5 * M ^ 2 := add_le_add q1 qm
        _ = (J + 1) * (5 * M ^ 2) := by ring
    have hmag := magnitude_of_defect (by positivity : (0 : K) < J + 1) hd hQ'
    refine ⟨he', Q + q, hQ', hd, hmag, ?_⟩
    rw [a2]
    have e : Q + q - (J * w + (x - μ) * (x - μ')) = (Q - J * w) + (q - (x - μ) * (x - μ')) := by ring
    rw [e]
    calc |(Q - J * w) + (q - (x - μ) * (x - μ'))|
        ≤ |Q - J * w| + |q - (x - μ) * (x - μ')| := abs_add_le _ _
      _ ≤ (4 * u * (J * w) + 14 * J * (J + 1) * u * M ^ 2)
          + (4 * u * ((x - μ) * (x - μ')) + 28 * (J + 1) * u * M ^ 2) := add_le_add q4 qe
      _ = 4 * u * (J * w + (x - μ) * (x - μ')) + 14 * (J + 1) * (J + 1 + 1) * u * M ^ 2 := by ring

/-! ### a sharper invariant for data in an interval `[c − R, c + R]`

  The float update is not translation invariant (the error of the float *mean* scales
  with `M ≥ max |x|`), but the increments `q` scale with the spread `R`.  Keeping the two
  apart gives a first-order error that is linear — not quadratic — in `M`. -/

theorem sum_map_sub_const (xs : List K) (c : K) :
    (xs.map fun x => x - c).sum = xs.sum - (xs.length : K) * c := by
  induction xs with
  | nil => simp
  | cons x xs ih => simp only [List.map_cons, List.sum_cons, ih, List.length_cons]; push_cast; ring

/-- a running mean of data in `[c − R, c + R]` lies in `[c − R, c + R]` -/
theorem exact_mean_center {c R : K} (xs : List K) (hne : xs ≠ []) (hx : ∀ x ∈ xs, |x - c| ≤ R) :
    |(Variance.run xs).mean.val - c| ≤ R := by
  rw [Variance.run_mean]
  have hi := (Mean.run_inv xs).2
  have hn : (0 : K) < (xs.length : K) := Nat.cast_pos.mpr (List.length_pos_iff.mpr hne)
  have h1 := abs_sum_le_length_mul (xs.map fun x => x - c) R (by
    intro y hy
    obtain ⟨x, hx', rfl⟩ := List.mem_map.mp hy
    exact hx x hx')
  rw [sum_map_sub_const, List.length_map, ← hi] at h1
  have e : (Mean.run xs).val * (xs.length : K) - (xs.length : K) * c
      = (xs.length : K) * ((Mean.run xs).val - c) := by ring
  rw [e, abs_mul, abs_of_pos hn] at h1
  exact le_of_mul_le_mul_left h1 hn

/-- `q_error` with the spread `D ≥ |x − μ|, |x − μ'|` and the mean error `E` kept apart -/
theorem q_error_gen {u D E : K} (_hu : 0 ≤ u) (hD : 0 ≤ D) (hE0 : 0 ≤ E) (hu64 : 64 * u ≤ 1)
    {x μ μ' m m' ε1 ε2 ε3 : K}
    (ha : |x - μ| ≤ D) (hb : |x - μ'| ≤ D) (he : |m - μ| ≤ E) (he' : |m' - μ'| ≤ E)
    (h1 : |ε1| ≤ u) (h2 : |ε2| ≤ u) (h3 : |ε3| ≤ u) (hs : 0 ≤ (x - μ) * (x - μ')) :
    |(x - m) * (1 + ε1) * ((x - m') * (1 + ε2)) * (1 + ε3) - (x - μ) * (x - μ')|
        ≤ 4 * u * ((x - μ) * (x - μ')) + 17 / 16 * (2 * D * E + E ^ 2)
      ∧ |(x - m) * (1 + ε1) * ((x - m') * (1 + ε2)) * (1 + ε3)| ≤ 17 / 16 * (D + E) ^ 2 := by
  set a := x - μ with ha_def
  set b := x - μ' with hb_def
  set e := m - μ with he_def
  set e' := m' - μ' with he'_def
  set π := (1 + ε1) * (1 + ε2) * (1 + ε3) with hπ_def
  have hπ1 : |π - 1| ≤ 4 * u := prod3_rel h1 h2 h3 hu64
  have hπ : |π| ≤ 17 / 16 := (abs_le_one_add_of_rel hπ1).trans (by linarith)
  have hq : (x - m) * (1 + ε1) * ((x - m') * (1 + ε2)) * (1 + ε3) = (a - e) * (b - e') * π := by
    simp only [ha_def, hb_def, he_def, he'_def, hπ_def]; ring
  rw [hq]
  constructor
  · have hid : (a - e) * (b - e') * π - a * b = a * b * (π - 1) + (-(a * e') - e * b + e * e') * π := by
      ring
    rw [hid]
    have t1 : |a * b * (π - 1)| ≤ 4 * u * (a * b) := by
      rw [abs_mul, abs_of_nonneg hs]
      calc a * b * |π - 1| ≤ a * b * (4 * u) := mul_le_mul_of_nonneg_left hπ1 hs
        _ = 4 * u * (a * b) := by ring
    have t2 : |-(a * e') - e * b + e * e'| ≤ 2 * D * E + E ^ 2 := by
      calc |-(a * e') - e * b + e * e'| ≤ |-(a * e') - e * b| + |e * e'| := abs_add_le _ _
        _ ≤ (|-(a * e')| + |e * b|) + |e * e'| := add_le_add (abs_sub _ _) le_rfl
        _ = |a| * |e'| + |e| * |b| + |e| * |e'| := by rw [abs_neg, abs_mul, abs_mul, abs_mul]
        _ ≤ D * E + E * D + E * E := by
            apply add_le_add (add_le_add _ _) _
            · exact mul_le_mul ha he' (abs_nonneg _) hD
            · exact mul_le_mul he hb (abs_nonneg _) hE0
            · exact mul_le_mul he he' (abs_nonneg _) hE0
        _ = 2 * D * E + E ^ 2 := by ring
    have t2nn : 0 ≤ 2 * D * E + E ^ 2 := by positivity
    have t3 : |(-(a * e') - e * b + e * e') * π| ≤ 17 / 16 * (2 * D * E + E ^ 2) := by
      rw [abs_mul, mul_comm (17 / 16 : K)]
      exact mul_le_mul t2 hπ (abs_nonneg _) t2nn
    calc |a * b * (π - 1) + (-(a * e') - e * b + e * e') * π|
        ≤ |a * b * (π - 1)| + |(-(a * e') - e * b + e * e') * π| := abs_add_le _ _
      _ ≤ 4 * u * (a * b) + 17 / 16 * (2 * D * E + E ^ 2) := add_le_add t1 t3
  · have f1 : |a - e| ≤ D + E := (abs_sub _ _).trans (add_le_add ha he)
    have f2 : |b - e'| ≤ D + E := (abs_sub _ _).trans (add_le_add hb he')
    have hDE : 0 ≤ D + E := add_nonneg hD hE0
    rw [abs_mul, abs_mul]
    calc |a - e| * |b - e'| * |π| ≤ (D + E) * (D + E) * (17 / 16) := by
          apply mul_le_mul _ hπ (abs_nonneg _) (by positivity)
          exact mul_le_mul f1 f2 (abs_nonneg _) hDE
      _ = 17 / 16 * (D + E) ^ 2 := by ring

/-- the very first observation: `m = 0`, the float mean becomes `x·(1+δ₁)(1+δ₃)(1+δ₄)`
    and `q = fl(fl(x − 0)·fl(x − m'))` is pure rounding noise, `|q| ≤ 5 u M²`
    (in exact arithmetic it is 0) -/
theorem first_step_q {u M : K} (hu64 : 64 * u ≤ 1) {k : ℕ} (hk : (k : K) = 1)
    {x m' ε1 ε2 ε3 : K} (hx : |x| ≤ M) (hms : FlStep u k 0 x m')
    (h1 : |ε1| ≤ u) (h2 : |ε2| ≤ u) (h3 : |ε3| ≤ u) :
    |(x - 0) * (1 + ε1) * ((x - m') * (1 + ε2)) * (1 + ε3)| ≤ 5 * u * M ^ 2 := by
  have hu : 0 ≤ u := (abs_nonneg _).trans h1
  have hM : 0 ≤ M := (abs_nonneg _).trans hx
  obtain ⟨a, b, c, ⟨δ1, g1, rfl⟩, ⟨δ2, g2, rfl⟩, ⟨δ3, g3, rfl⟩, ⟨δ4, g4, rfl⟩⟩ := hms
  rw [hk]
  have hπm : |(1 + δ1) * (1 + δ3) * (1 + δ4) - 1| ≤ 4 * u := prod3_rel g1 g3 g4 hu64
  have hπ : |(1 + ε1) * (1 + ε2) * (1 + ε3)| ≤ 17 / 16 :=
    (abs_le_one_add_of_rel (prod3_rel h1 h2 h3 hu64)).trans (by linarith)
  have e : (x - 0) * (1 + ε1) * ((x - (0 + (x / 1 * (1 + δ1) - 0 / 1 * (1 + δ2)) * (1 + δ3)) * (1 + δ4))
        * (1 + ε2)) * (1 + ε3)
      = -(x * x * ((1 + δ1) * (1 + δ3) * (1 + δ4) - 1) * ((1 + ε1) * (1 + ε2) * (1 + ε3))) := by
    ring
  rw [e, abs_neg, abs_mul, abs_mul, abs_mul]
  have hxx : |x| * |x| ≤ M * M := mul_le_mul hx hx (abs_nonneg _) hM
  calc |x| * |x| * |(1 + δ1) * (1 + δ3) * (1 + δ4) - 1| * |(1 + ε1) * (1 + ε2) * (1 + ε3)|
      ≤ M * M * (4 * u) * (17 / 16) := by
        apply mul_le_mul _ hπ (abs_nonneg _) (by positivity)
        exact mul_le_mul hxx hπm (abs_nonneg _) (by positivity)
    _ = 17 / 4 * u * M ^ 2 := by ring
    _ ≤ 5 * u * M ^ 2 := by
        have : 0 ≤ u * M ^ 2 := by positivity
        linarith

/-- bounds for the rounded increment `q` of one step (both for the first observation and
    for later ones), with `E = 6·N·u·M`, `G = 17/16·(4RE + E²)`, `Mq = 17/16·(2R + E)² + 5uM²` -/
theorem q_bounds_centered {u M R c : K} (hu : 0 ≤ u) (hM : 0 ≤ M) (hR : 0 ≤ R) (N : ℕ)
    (hN : 64 * (N : K) * u ≤ 1) {xs : List K} {x m m' ε1 ε2 ε3 : K}
    (hx : ∀ y ∈ xs ++ [x], |y| ≤ M) (hc : ∀ y ∈ xs ++ [x], |y - c| ≤ R)
    (hlen : xs.length + 1 ≤ N)
    (im : |m - (Variance.run xs).mean.val| ≤ 6 * (xs.length : K) * u * M)
    (hmr : FlRun u xs m) (hms : FlStep u (xs.length + 1) m x m')
    (h1 : |ε1| ≤ u) (h2 : |ε2| ≤ u) (h3 : |ε3| ≤ u) :
    |m' - (Variance.run (xs ++ [x])).mean.val| ≤ 6 * ((xs.length : K) + 1) * u * M
      ∧ |(x - m) * (1 + ε1) * ((x - m') * (1 + ε2)) * (1 + ε3)
          - (x - (Variance.run xs).mean.val) * (x - (Variance.run (xs ++ [x])).mean.val)|
        ≤ 4 * u * ((x - (Variance.run xs).mean.val) * (x - (Variance.run (xs ++ [x])).mean.val))
          + (if xs = [] then 5 * u * M ^ 2 else 0)
          + 17 / 16 * (4 * R * (6 * N * u * M) + (6 * N * u * M) ^ 2)
      ∧ |(x - m) * (1 + ε1) * ((x - m') * (1 + ε2)) * (1 + ε3)|
        ≤ 17 / 16 * (2 * R + 6 * N * u * M) ^ 2 + 5 * u * M ^ 2 := by
  have hN0 : (0 : K) ≤ (N : K) := Nat.cast_nonneg N
  have hE0 : 0 ≤ 6 * (N : K) * u * M := by positivity
  have hxs : ∀ y ∈ xs, |y| ≤ M := fun y hy => hx y (by simp [hy])
  have hcs : ∀ y ∈ xs, |y - c| ≤ R := fun y hy => hc y (by simp [hy])
  have hxx : |x| ≤ M := hx x (by simp)
  have hxc : |x - c| ≤ R := hc x (by simp)
  have hlen' : (xs ++ [x]).length = xs.length + 1 := by simp
  have hJ : (0 : K) ≤ (xs.length : K) := Nat.cast_nonneg _
  have hJN : (xs.length : K) + 1 ≤ (N : K) := by exact_mod_cast hlen
  have hne' : xs ++ [x] ≠ [] := by simp
  have huM : 0 ≤ u * M := mul_nonneg hu hM
  have hu64 : 64 * u ≤ 1 := by
    have : 64 * u * 1 ≤ 64 * u * (N : K) := mul_le_mul_of_nonneg_left (by linarith) (by positivity)
    linarith
  have hsmall : 64 * ((xs.length : K) + 1) * u ≤ 1 := by
    have : 64 * u * ((xs.length : K) + 1) ≤ 64 * u * (N : K) :=
      mul_le_mul_of_nonneg_left hJN (by positivity)
    linarith
  have hmr' : FlRun u (xs ++ [x]) m' := FlRun.snoc x m' hmr hms
  have he'0 : |m' - (Variance.run (xs ++ [x])).mean.val| ≤ 6 * ((xs.length : K) + 1) * u * M := by
    have := FlRun.mean_error hu hM hmr' hne' hx (by rw [hlen']; push_cast; linarith)
    rw [hlen'] at this; push_cast at this; exact this
  have he' : |m' - (Variance.run (xs ++ [x])).mean.val| ≤ 6 * (N : K) * u * M := by
    refine he'0.trans ?_
    calc 6 * ((xs.length : K) + 1) * u * M = 6 * (u * M) * ((xs.length : K) + 1) := by ring
      _ ≤ 6 * (u * M) * (N : K) := mul_le_mul_of_nonneg_left hJN (by positivity)
      _ = 6 * (N : K) * u * M := by ring
  have he : |m - (Variance.run xs).mean.val| ≤ 6 * (N : K) * u * M := by
    refine im.trans ?_
    calc 6 * (xs.length : K) * u * M = 6 * (u * M) * (xs.length : K) := by ring
      _ ≤ 6 * (u * M) * (N : K) := mul_le_mul_of_nonneg_left (by linarith) (by positivity)
      _ = 6 * (N : K) * u * M := by ring
  obtain ⟨a1, a2, a3⟩ := exact_step xs x
  have hμ'c := exact_mean_center (xs ++ [x]) hne' hc
  refine ⟨he'0, ?_⟩
  by_cases hnil : xs = []
  · subst hnil
    rw [if_pos rfl]
    have hm0 : m = 0 := by
      have : |m - (Variance.run ([] : List K)).mean.val| ≤ 0 := by simpa using im
      have h0 : (Variance.run ([] : List K)).mean.val = 0 := by
        simp [Variance.run, Variance.init, Mean.init]
      rw [h0, sub_zero] at this
      exact abs_nonpos_iff.mp this
    subst hm0
    have hq1 := first_step_q (M := M) hu64 (k := ([] : List K).length + 1) (by simp) hxx hms h1 h2 h3
    have hs0 : (x - (Variance.run ([] : List K)).mean.val)
        * (x - (Variance.run ([] ++ [x])).mean.val) = 0 := by
      have := a1
      simp only [List.length_nil, Nat.cast_zero, zero_add, one_mul, zero_mul] at this
      rw [this, mul_zero]
    rw [hs0, sub_zero, mul_zero]
    have hG0 : (0 : K) ≤ 17 / 16 * (4 * R * (6 * N * u * M) + (6 * N * u * M) ^ 2) := by positivity
    have hsq : (0 : K) ≤ 17 / 16 * (2 * R + 6 * N * u * M) ^ 2 := by positivity
    constructor
    · exact hq1.trans (by linarith)
    · exact hq1.trans (by linarith)
  · rw [if_neg hnil]
    have hμc := exact_mean_center xs hnil hcs
    have ha : |x - (Variance.run xs).mean.val| ≤ 2 * R := by
      have : x - (Variance.run xs).mean.val = (x - c) - ((Variance.run xs).mean.val - c) := by ring
      rw [this]; exact (abs_sub _ _).trans (by linarith)
    have hb : |x - (Variance.run (xs ++ [x])).mean.val| ≤ 2 * R := by
      have : x - (Variance.run (xs ++ [x])).mean.val
          = (x - c) - ((Variance.run (xs ++ [x])).mean.val - c) := by ring
      rw [this]; exact (abs_sub _ _).trans (by linarith)
    obtain ⟨g1, g2⟩ := q_error_gen hu (by positivity : (0 : K) ≤ 2 * R) hE0 hu64 ha hb he he'
      h1 h2 h3 a3
    have hu5 : 0 ≤ 5 * u * M ^ 2 := by positivity
    constructor
    · refine g1.trans (le_of_eq ?_)
      ring
    · exact g2.trans (by linarith)

/-- the sharper invariant.  `N` is any cap on the length with `64·N·u ≤ 1`,
    `E = 6·N·u·M` bounds the error of the float mean,
    `Mq = 17/16·(2R + E)² + 5uM²` bounds every rounded increment `q`,
    `G = 17/16·(4RE + E²)` bounds the non-relative part of `q − s` per step. -/
theorem FlVarRun.inv_centered {u M R c : K} (hu : 0 ≤ u) (hM : 0 ≤ M) (hR : 0 ≤ R) (N : ℕ)
    (hN : 64 * (N : K) * u ≤ 1) {xs : List K} {m v : K}
    (h : FlVarRun u xs m v) (hx : ∀ x ∈ xs, |x| ≤ M) (hc : ∀ x ∈ xs, |x - c| ≤ R)
    (hlen : xs.length ≤ N) :
    |m - (Variance.run xs).mean.val| ≤ 6 * (xs.length : K) * u * M
      ∧ ∃ Q : K, |Q| ≤ (xs.length : K) * (17 / 16 * (2 * R + 6 * N * u * M) ^ 2 + 5 * u * M ^ 2)
        ∧ |(xs.length : K) * v - Q|
            ≤ 6 * (xs.length : K) ^ 2 * u * (17 / 16 * (2 * R + 6 * N * u * M) ^ 2 + 5 * u * M ^ 2)
        ∧ |v| ≤ (17 / 16 * (2 * R + 6 * N * u * M) ^ 2 + 5 * u * M ^ 2) * (1 + 6 * (xs.length : K) * u)
        ∧ |Q - (xs.length : K) * (Variance.run xs).var.val|
            ≤ 4 * u * ((xs.length : K) * (Variance.run xs).var.val)
              + (if xs = [] then 0 else 5 * u * M ^ 2)
              + (xs.length : K) * (17 / 16 * (4 * R * (6 * N * u * M) + (6 * N * u * M) ^ 2)) := by
  have hN0 : (0 : K) ≤ (N : K) := Nat.cast_nonneg N
  have hMq0 : (0 : K) ≤ 17 / 16 * (2 * R + 6 * N * u * M) ^ 2 + 5 * u * M ^ 2 := by positivity
  induction h with
  | nil =>
    refine ⟨by simp [Variance.run, Variance.init, Mean.init], 0, ?_⟩
    simp only [List.length_nil, Nat.cast_zero]
    refine ⟨by simp, by simp, ?_, by simp⟩
    simp only [abs_zero]; positivity
  | @snoc xs m v x m' v' hr hs ih =>
    have hxs : ∀ y ∈ xs, |y| ≤ M := fun y hy => hx y (by simp [hy])
    have hcs : ∀ y ∈ xs, |y - c| ≤ R := fun y hy => hc y (by simp [hy])
    have hlen' : (xs ++ [x]).length = xs.length + 1 := by simp
    have hJ : (0 : K) ≤ (xs.length : K) := Nat.cast_nonneg _
    rw [hlen'] at hlen
    have hJN : (xs.length : K) + 1 ≤ (N : K) := by exact_mod_cast hlen
    have hne' : xs ++ [x] ≠ [] := by simp
    have hsmall : 64 * ((xs.length : K) + 1) * u ≤ 1 := by
      have : 64 * u * ((xs.length : K) + 1) ≤ 64 * u * (N : K) :=
        mul_le_mul_of_nonneg_left hJN (by positivity)
      linarith
    obtain ⟨im, Q, q1, q2, q3, q4⟩ := ih hxs hcs (by omega)
    obtain ⟨d1, d2, q, ⟨ε1, h1, rfl⟩, hms, ⟨ε2, h2, rfl⟩, ⟨ε3, h3, rfl⟩, hvs⟩ := hs
    obtain ⟨he'0, qe, qm⟩ := q_bounds_centered hu hM hR N hN hx hc hlen im hr.mean_run hms h1 h2 h3
    obtain ⟨_, a2, _⟩ := exact_step xs x
    rw [hlen', if_neg hne']
    push_cast
    generalize hMq : 17 / 16 * (2 * R + 6 * (N : K) * u * M) ^ 2 + 5 * u * M ^ 2 = Mq at *
    generalize hG : 17 / 16 * (4 * R * (6 * (N : K) * u * M) + (6 * N * u * M) ^ 2) = G at *
    generalize (Variance.run xs).mean.val = μ at *
    generalize (Variance.run (xs ++ [x])).mean.val = μ' at *
    generalize (Variance.run xs).var.val = w at *
    generalize (Variance.run (xs ++ [x])).var.val = w' at *
    generalize hqdef : (x - m) * (1 + ε1) * ((x - m') * (1 + ε2)) * (1 + ε3) = q at *
    generalize hJdef : (xs.length : K) = J at *
    have hd := FlStep.defect hu hMq0 (j := xs.length) (S := Q)
      (by push_cast; rw [hJdef]; linarith) (by rw [hJdef]; exact q1) qm
      (by rw [hJdef]; exact q2) (by rw [hJdef]; exact q3) hvs
    push_cast at hd
    rw [hJdef] at hd
    have hQ' : |Q + q| ≤ (J + 1) * Mq := by
      calc |Q + q| ≤ |Q| + |q| := abs_add_le _ _
        _ ≤ J * Mq + Mq := add_le_add q1 qm
        _ = (J + 1) * Mq := by ring
    have hmag := magnitude_of_defect (by positivity : (0 : K) < J + 1) hd hQ'
    refine ⟨he'0, Q + q, hQ', hd, hmag, ?_⟩
    rw [a2]
    have e : Q + q - (J * w + (x - μ) * (x - μ')) = (Q - J * w) + (q - (x - μ) * (x - μ')) := by ring
    rw [e]
    have hcase : (if xs = [] then (0 : K) else 5 * u * M ^ 2) + (if xs = [] then 5 * u * M ^ 2 else 0)
        = 5 * u * M ^ 2 := by
      by_cases hnil : xs = [] <;> simp [hnil]
    calc |(Q - J * w) + (q - (x - μ) * (x - μ'))|
        ≤ |Q - J * w| + |q - (x - μ) * (x - μ')| := abs_add_le _ _
      _ ≤ (4 * u * (J * w) + (if xs = [] then 0 else 5 * u * M ^ 2) + J * G)
          + (4 * u * ((x - μ) * (x - μ')) + (if xs = [] then 5 * u * M ^ 2 else 0) + G) :=
          add_le_add q4 qe
      _ = 4 * u * (J * w + (x - μ) * (x - μ'))
          + ((if xs = [] then (0 : K) else 5 * u * M ^ 2) + (if xs = [] then 5 * u * M ^ 2 else 0))
          + (J + 1) * G := by ring
      _ = 4 * u * (J * w + (x - μ) * (x - μ')) + 5 * u * M ^ 2 + (J + 1) * G := by rw [hcase]

end Gpv
