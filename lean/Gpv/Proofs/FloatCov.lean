/-
  Rounding-error analysis of the streaming covariance entry (`Cov2.push`,
  Gpv/Model/Accum.lean)

      d1 = x − mx.val ; mx' = mx.push x ; my' = my.push y ; d2 = y − my'.val ;
      c' = c.push (d1 * d2)

  under the standard model `Rnd u` of `Gpv.Proofs.FloatMean` (every operation returns
  its exact result times `1 + δ`, `|δ| ≤ u`; no overflow/underflow).  The reference is
  the exact run `Cov2.run` of the very same definition over the field.

  The analysis follows `Gpv.Proofs.FloatVar` (the diagonal case `y = x`); the one new
  point is that the exact increment `s = (x − μx)(y − μy')` has no sign, so the
  relative part `4u·|s|` of the error of the rounded increment is summed through the
  weighted AM–GM inequality `2|s| ≤ t·sx + sy/t` (`sx`, `sy` the non-negative Welford
  increments of the two variances, `t > 0` free): `Σ|s| ≤ (t·Sxx + Syy/t)/2`, whose
  infimum over `t` is `√(Sxx·Syy)`.
-/
import Gpv.Proofs.FloatVar
set_option linter.unusedSectionVars false

namespace Gpv
variable {K : Type} [Field K] [LinearOrder K] [IsStrictOrderedRing K]

/-! ### the float step and run -/

/-- one floating-point `Cov2.push` with count `k = n + 1`, in program order:
    `d1 = fl(x − mx)`, `mx' =` float mean step, `my' =` float mean step,
    `d2 = fl(y − my')`, `q = fl(d1 * d2)`, `cv' =` float mean step of the `c`
    accumulator fed `q` -/
def FlCovStep (u : K) (k : ℕ) (mx my cv x y mx' my' cv' : K) : Prop :=
  ∃ d1 d2 q : K, Rnd u (x - mx) d1 ∧ FlStep u k mx x mx' ∧ FlStep u k my y my'
    ∧ Rnd u (y - my') d2 ∧ Rnd u (d1 * d2) q ∧ FlStep u k cv q cv'

/-- `(mx, my, cv)` is a possible floating-point state `(mx.val, my.val, c.val)` after the
    pairs `ps` -/
inductive FlCovRun (u : K) : List (K × K) → K → K → K → Prop
  | nil : FlCovRun u [] 0 0 0
  | snoc {ps : List (K × K)} {mx my cv : K} (p : K × K) (mx' my' cv' : K) :
      FlCovRun u ps mx my cv → FlCovStep u (ps.length + 1) mx my cv p.1 p.2 mx' my' cv'
        → FlCovRun u (ps ++ [p]) mx' my' cv'

theorem FlCovStep.mono {u u' : K} (h : u ≤ u') {k : ℕ} {mx my cv x y mx' my' cv' : K} :
    FlCovStep u k mx my cv x y mx' my' cv' → FlCovStep u' k mx my cv x y mx' my' cv' := by
  rintro ⟨d1, d2, q, h1, h2, h3, h4, h5, h6⟩
  exact ⟨d1, d2, q, h1.mono h, h2.mono h, h3.mono h, h4.mono h, h5.mono h, h6.mono h⟩

theorem FlCovRun.mono {u u' : K} (h : u ≤ u') {ps : List (K × K)} {mx my cv : K}
    (hr : FlCovRun u ps mx my cv) : FlCovRun u' ps mx my cv := by
  induction hr with
  | nil => exact FlCovRun.nil
  | @snoc ps mx my cv p mx' my' cv' _ hs ih => exact FlCovRun.snoc p mx' my' cv' ih (hs.mono h)

theorem FlCovRun.nil_inv {u : K} {mx my cv : K} (h : FlCovRun u [] mx my cv) :
    mx = 0 ∧ my = 0 ∧ cv = 0 := by
  generalize hl : ([] : List (K × K)) = l at h
  cases h with
  | nil => exact ⟨rfl, rfl, rfl⟩
  | snoc p mx' my' cv' _ _ => simp at hl

/-- the `x`-mean component of a covariance run is a float mean run over the first components -/
theorem FlCovRun.mean_run_x {u : K} {ps : List (K × K)} {mx my cv : K}
    (hr : FlCovRun u ps mx my cv) : FlRun u (ps.map Prod.fst) mx := by
  induction hr with
  | nil => exact FlRun.nil
  | @snoc ps mx my cv p mx' my' cv' _ hs ih =>
    obtain ⟨d1, d2, q, _, h2, _, _, _, _⟩ := hs
    rw [List.map_append, List.map_singleton]
    refine FlRun.snoc p.1 mx' ih ?_
    rw [List.length_map]; exact h2

/-- the `y`-mean component of a covariance run is a float mean run over the second components -/
theorem FlCovRun.mean_run_y {u : K} {ps : List (K × K)} {mx my cv : K}
    (hr : FlCovRun u ps mx my cv) : FlRun u (ps.map Prod.snd) my := by
  induction hr with
  | nil => exact FlRun.nil
  | @snoc ps mx my cv p mx' my' cv' _ hs ih =>
    obtain ⟨d1, d2, q, _, _, h3, _, _, _⟩ := hs
    rw [List.map_append, List.map_singleton]
    refine FlRun.snoc p.2 my' ih ?_
    rw [List.length_map]; exact h3

/-! ### the exact run, step by step -/

theorem Cov2.run_mx (ps : List (K × K)) : (Cov2.run ps).mx = Mean.run (ps.map Prod.fst) := by
  induction ps using List.reverseRec with
  | nil => rfl
  | append_singleton ps p ih =>
    rw [Cov2.run_snoc, List.map_append, List.map_singleton, Mean.run_snoc, ← ih]; rfl

theorem Cov2.run_my (ps : List (K × K)) : (Cov2.run ps).my = Mean.run (ps.map Prod.snd) := by
  induction ps using List.reverseRec with
  | nil => rfl
  | append_singleton ps p ih =>
    rw [Cov2.run_snoc, List.map_append, List.map_singleton, Mean.run_snoc, ← ih]; rfl

/-- the exact means of the pair accumulator are those of the two `Variance` accumulators -/
theorem Cov2.run_mx_val (ps : List (K × K)) :
    (Cov2.run ps).mx.val = (Variance.run (ps.map Prod.fst)).mean.val := by
  rw [Cov2.run_mx, Variance.run_mean]

theorem Cov2.run_my_val (ps : List (K × K)) :
    (Cov2.run ps).my.val = (Variance.run (ps.map Prod.snd)).mean.val := by
  rw [Cov2.run_my, Variance.run_mean]

/-- the exact update, written out (count `k = ps.length + 1`) -/
theorem Cov2.run_snoc_vals (ps : List (K × K)) (p : K × K) :
    (Cov2.run (ps ++ [p])).mx.val
        = (Cov2.run ps).mx.val + (p.1 / ((ps.length + 1 : ℕ) : K)
            - (Cov2.run ps).mx.val / ((ps.length + 1 : ℕ) : K))
      ∧ (Cov2.run (ps ++ [p])).my.val
        = (Cov2.run ps).my.val + (p.2 / ((ps.length + 1 : ℕ) : K)
            - (Cov2.run ps).my.val / ((ps.length + 1 : ℕ) : K))
      ∧ (Cov2.run (ps ++ [p])).c.val
        = (Cov2.run ps).c.val
          + ((p.1 - (Cov2.run ps).mx.val) * (p.2 - (Cov2.run (ps ++ [p])).my.val)
                / ((ps.length + 1 : ℕ) : K)
              - (Cov2.run ps).c.val / ((ps.length + 1 : ℕ) : K)) := by
  have hi := Cov2.run_inv ps
  rw [Cov2.run_snoc]
  simp only [Cov2.push, Mean.push, hi.mx_n, hi.my_n, hi.c_n, and_self]

/-- the exact step is a possible float step -/
theorem FlCovStep.exact {u : K} (hu : 0 ≤ u) (k : ℕ) (mx my cv x y : K) :
    FlCovStep u k mx my cv x y (mx + (x / (k : K) - mx / (k : K))) (my + (y / (k : K) - my / (k : K)))
      (cv + ((x - mx) * (y - (my + (y / (k : K) - my / (k : K)))) / (k : K) - cv / (k : K))) :=
  ⟨_, _, _, Rnd.exact hu _, FlStep.exact hu k mx x, FlStep.exact hu k my y, Rnd.exact hu _,
    Rnd.exact hu _, FlStep.exact hu k cv _⟩

theorem flCovStep_zero_iff (k : ℕ) (mx my cv x y mx' my' cv' : K) :
    FlCovStep 0 k mx my cv x y mx' my' cv' ↔
      mx' = mx + (x / (k : K) - mx / (k : K))
        ∧ my' = my + (y / (k : K) - my / (k : K))
        ∧ cv' = cv + ((x - mx) * (y - my') / (k : K) - cv / (k : K)) := by
  constructor
  · rintro ⟨d1, d2, q, h1, h2, h3, h4, h5, h6⟩
    rw [rnd_zero_iff] at h1 h4 h5
    rw [flStep_zero_iff] at h2 h3 h6
    subst h1 h4 h5
    exact ⟨h2, h3, h6⟩
  · rintro ⟨rfl, rfl, rfl⟩
    exact FlCovStep.exact le_rfl k mx my cv x y

/-- the exact run (`Cov2.run`) is a possible float run for every `u ≥ 0` -/
theorem FlCovRun.of_exact {u : K} (hu : 0 ≤ u) (ps : List (K × K)) :
    FlCovRun u ps (Cov2.run ps).mx.val (Cov2.run ps).my.val (Cov2.run ps).c.val := by
  induction ps using List.reverseRec with
  | nil =>
    have h1 : (Cov2.run ([] : List (K × K))).mx.val = 0 := by simp [Cov2.run, Cov2.init, Mean.init]
    have h2 : (Cov2.run ([] : List (K × K))).my.val = 0 := by simp [Cov2.run, Cov2.init, Mean.init]
    have h3 : (Cov2.run ([] : List (K × K))).c.val = 0 := by simp [Cov2.run, Cov2.init, Mean.init]
    rw [h1, h2, h3]; exact FlCovRun.nil
  | append_singleton ps p ih =>
    obtain ⟨e1, e2, e3⟩ := Cov2.run_snoc_vals ps p
    refine FlCovRun.snoc p _ _ _ ih ?_
    have := FlCovStep.exact (K := K) hu (ps.length + 1) (Cov2.run ps).mx.val (Cov2.run ps).my.val
      (Cov2.run ps).c.val p.1 p.2
    rw [← e1, ← e2] at this
    rw [e3]
    exact this

/-- with `u = 0` the only possible run is the exact one -/
theorem flCovRun_zero_iff (ps : List (K × K)) (mx my cv : K) :
    FlCovRun 0 ps mx my cv ↔ mx = (Cov2.run ps).mx.val ∧ my = (Cov2.run ps).my.val
      ∧ cv = (Cov2.run ps).c.val := by
  constructor
  · intro h
    induction h with
    | nil => simp [Cov2.run, Cov2.init, Mean.init]
    | @snoc ps mx my cv p mx' my' cv' _ hs ih =>
      obtain ⟨e1, e2, e3⟩ := Cov2.run_snoc_vals ps p
      rw [flCovStep_zero_iff] at hs
      obtain ⟨h1, h2, h3⟩ := hs
      obtain ⟨i1, i2, i3⟩ := ih
      have hmx : mx' = (Cov2.run (ps ++ [p])).mx.val := by rw [e1, h1, i1]
      have hmy : my' = (Cov2.run (ps ++ [p])).my.val := by rw [e2, h2, i2]
      refine ⟨hmx, hmy, ?_⟩
      rw [e3, h3, ← hmy, i1, i3]
  · rintro ⟨rfl, rfl, rfl⟩; exact FlCovRun.of_exact le_rfl ps

/-! ### exact quantities: `C = n · c.val = Σ (x − x̄)(y − ȳ)` and its increments -/

/-- weighted AM–GM: `|a·b| ≤ (t·a² + b²/t)/2` for every `t > 0` -/
theorem abs_mul_le_weighted {t : K} (ht : 0 < t) (a b : K) :
    |a * b| ≤ (t * a ^ 2 + b ^ 2 / t) / 2 := by
  have h : (t * a ^ 2 + b ^ 2 / t) / 2 - |a * b| = (t * |a| - |b|) ^ 2 / (2 * t) := by
    rw [abs_mul, ← sq_abs a, ← sq_abs b]
    field_simp
    ring
  have h2 : 0 ≤ (t * |a| - |b|) ^ 2 / (2 * t) := by positivity
  linarith

/-- the sign-free exact increment against the two (non-negative) variance increments:
    with `(J+1)·a' = J·a`, `(J+1)·b' = J·b`: `|a·b'| ≤ (t·a·a' + b·b'/t)/2` -/
theorem incr_abs_le {J t a a' b b' : K} (hJ : 0 ≤ J) (ht : 0 < t)
    (h1 : (J + 1) * a' = J * a) (h2 : (J + 1) * b' = J * b) :
    |a * b'| ≤ (t * (a * a') + b * b' / t) / 2 := by
  have hJ1 : (0 : K) < J + 1 := by linarith
  have ea : a' = J * a / (J + 1) := eq_div_of_mul_eq hJ1.ne' (by rw [mul_comm]; exact h1)
  have eb : b' = J * b / (J + 1) := eq_div_of_mul_eq hJ1.ne' (by rw [mul_comm]; exact h2)
  have hρ : 0 ≤ J / (J + 1) := div_nonneg hJ hJ1.le
  rw [ea, eb]
  have e1 : a * (J * b / (J + 1)) = J / (J + 1) * (a * b) := by ring
  have e2 : (t * (a * (J * a / (J + 1))) + b * (J * b / (J + 1)) / t) / 2
      = J / (J + 1) * ((t * a ^ 2 + b ^ 2 / t) / 2) := by ring
  rw [e1, e2, abs_mul, abs_of_nonneg hρ]
  exact mul_le_mul_of_nonneg_left (abs_mul_le_weighted ht a b) hρ

/-- the exact `c` step in division-free form, `J = ps.length`:
    `(J+1)·c' = J·c + s` with the exact increment `s = (x − μx)(y − μy')` -/
theorem exact_cov_step (ps : List (K × K)) (p : K × K) :
    ((ps.length : K) + 1) * (Cov2.run (ps ++ [p])).c.val
      = (ps.length : K) * (Cov2.run ps).c.val
        + (p.1 - (Cov2.run ps).mx.val) * (p.2 - (Cov2.run (ps ++ [p])).my.val) := by
  obtain ⟨_, _, e3⟩ := Cov2.run_snoc_vals ps p
  have hk : ((ps.length + 1 : ℕ) : K) ≠ 0 := Nat.cast_ne_zero.mpr (Nat.succ_ne_zero _)
  push_cast at e3 hk
  rw [e3]; field_simp; ring

/-- `|s| ≤ (t·sx + sy/t)/2` with `sx = (x − μx)(x − μx')`, `sy = (y − μy)(y − μy')` the
    exact Welford increments of the two variances -/
theorem exact_cov_incr_abs_le {t : K} (ht : 0 < t) (ps : List (K × K)) (p : K × K) :
    |(p.1 - (Cov2.run ps).mx.val) * (p.2 - (Cov2.run (ps ++ [p])).my.val)|
      ≤ (t * ((p.1 - (Variance.run (ps.map Prod.fst)).mean.val)
              * (p.1 - (Variance.run (ps.map Prod.fst ++ [p.1])).mean.val))
          + (p.2 - (Variance.run (ps.map Prod.snd)).mean.val)
              * (p.2 - (Variance.run (ps.map Prod.snd ++ [p.2])).mean.val) / t) / 2 := by
  rw [Cov2.run_mx_val, Cov2.run_my_val, List.map_append, List.map_singleton]
  obtain ⟨a1, _, _⟩ := exact_step (ps.map Prod.fst) p.1
  obtain ⟨b1, _, _⟩ := exact_step (ps.map Prod.snd) p.2
  rw [List.length_map] at a1 b1
  exact incr_abs_le (Nat.cast_nonneg _) ht a1 b1

/-- Cauchy–Schwarz in AM–GM form for the exact accumulators:
    `|n·c| ≤ (t·(n·wx) + (n·wy)/t)/2`, i.e. `|Sxy| ≤ (t·Sxx + Syy/t)/2` -/
theorem exact_C_abs_le {t : K} (ht : 0 < t) (ps : List (K × K)) :
    |(ps.length : K) * (Cov2.run ps).c.val|
      ≤ (t * ((ps.length : K) * (Variance.run (ps.map Prod.fst)).var.val)
          + (ps.length : K) * (Variance.run (ps.map Prod.snd)).var.val / t) / 2 := by
  induction ps using List.reverseRec with
  | nil => simp
  | append_singleton ps p ih =>
    have hs := exact_cov_incr_abs_le ht ps p
    have hc := exact_cov_step ps p
    obtain ⟨_, a2, _⟩ := exact_step (ps.map Prod.fst) p.1
    obtain ⟨_, b2, _⟩ := exact_step (ps.map Prod.snd) p.2
    rw [List.length_map] at a2 b2
    simp only [List.length_append, List.length_singleton, List.map_append, List.map_singleton]
    push_cast
    rw [hc, a2, b2]
    refine (abs_add_le _ _).trans ((add_le_add ih hs).trans (le_of_eq ?_))
    ring

/-! ### the rounded increment -/

/-- the rounded increment `q = fl(fl(x − m) · fl(y − n))` against the exact increment
    `s = (x − μ)(y − ν)`; spreads `Dx ≥ |x − μ|`, `Dy ≥ |y − ν|` and mean errors
    `Ex ≥ |m − μ|`, `Ey ≥ |n − ν|` kept apart.  No sign assumption on `s`. -/
theorem q_error_cov {u Dx Dy Ex Ey : K} (hDx : 0 ≤ Dx) (hDy : 0 ≤ Dy) (hEx : 0 ≤ Ex) (hEy : 0 ≤ Ey)
    (hu64 : 64 * u ≤ 1) {x y μ ν m n ε1 ε2 ε3 : K}
    (ha : |x - μ| ≤ Dx) (hb : |y - ν| ≤ Dy) (he : |m - μ| ≤ Ex) (he' : |n - ν| ≤ Ey)
    (h1 : |ε1| ≤ u) (h2 : |ε2| ≤ u) (h3 : |ε3| ≤ u) :
    |(x - m) * (1 + ε1) * ((y - n) * (1 + ε2)) * (1 + ε3) - (x - μ) * (y - ν)|
        ≤ 4 * u * |(x - μ) * (y - ν)| + 17 / 16 * (Dx * Ey + Ex * Dy + Ex * Ey)
      ∧ |(x - m) * (1 + ε1) * ((y - n) * (1 + ε2)) * (1 + ε3)|
        ≤ 17 / 16 * ((Dx + Ex) * (Dy + Ey)) := by
  set a := x - μ with ha_def
  set b := y - ν with hb_def
  set e := m - μ with he_def
  set e' := n - ν with he'_def
  set π := (1 + ε1) * (1 + ε2) * (1 + ε3) with hπ_def
  have hπ1 : |π - 1| ≤ 4 * u := prod3_rel h1 h2 h3 hu64
  have hπ : |π| ≤ 17 / 16 := (abs_le_one_add_of_rel hπ1).trans (by linarith)
  have hq : (x - m) * (1 + ε1) * ((y - n) * (1 + ε2)) * (1 + ε3) = (a - e) * (b - e') * π := by
    simp only [ha_def, hb_def, he_def, he'_def, hπ_def]; ring
  rw [hq]
  constructor
  · have hid : (a - e) * (b - e') * π - a * b = a * b * (π - 1) + (-(a * e') - e * b + e * e') * π := by
      ring
    rw [hid]
    have t1 : |a * b * (π - 1)| ≤ 4 * u * |a * b| := by
      rw [abs_mul (a * b)]
      calc |a * b| * |π - 1| ≤ |a * b| * (4 * u) := mul_le_mul_of_nonneg_left hπ1 (abs_nonneg _)
        _ = 4 * u * |a * b| := by ring
    have t2 : |-(a * e') - e * b + e * e'| ≤ Dx * Ey + Ex * Dy + Ex * Ey := by
      calc |-(a * e') - e * b + e * e'| ≤ |-(a * e') - e * b| + |e * e'| := abs_add_le _ _
        _ ≤ (|-(a * e')| + |e * b|) + |e * e'| := add_le_add (abs_sub _ _) le_rfl
        _ = |a| * |e'| + |e| * |b| + |e| * |e'| := by rw [abs_neg, abs_mul, abs_mul, abs_mul]
        _ ≤ Dx * Ey + Ex * Dy + Ex * Ey := by
            apply add_le_add (add_le_add _ _) _
            · exact mul_le_mul ha he' (abs_nonneg _) hDx
            · exact mul_le_mul he hb (abs_nonneg _) hEx
            · exact mul_le_mul he he' (abs_nonneg _) hEx
    have t2nn : 0 ≤ Dx * Ey + Ex * Dy + Ex * Ey := by positivity
    have t3 : |(-(a * e') - e * b + e * e') * π| ≤ 17 / 16 * (Dx * Ey + Ex * Dy + Ex * Ey) := by
      rw [abs_mul, mul_comm (17 / 16 : K)]
      exact mul_le_mul t2 hπ (abs_nonneg _) t2nn
    calc |a * b * (π - 1) + (-(a * e') - e * b + e * e') * π|
        ≤ |a * b * (π - 1)| + |(-(a * e') - e * b + e * e') * π| := abs_add_le _ _
      _ ≤ 4 * u * |a * b| + 17 / 16 * (Dx * Ey + Ex * Dy + Ex * Ey) := add_le_add t1 t3
  · have f1 : |a - e| ≤ Dx + Ex := (abs_sub _ _).trans (add_le_add ha he)
    have f2 : |b - e'| ≤ Dy + Ey := (abs_sub _ _).trans (add_le_add hb he')
    have hDE : 0 ≤ Dx + Ex := add_nonneg hDx hEx
    rw [abs_mul, abs_mul]
    calc |a - e| * |b - e'| * |π| ≤ (Dx + Ex) * (Dy + Ey) * (17 / 16) := by
          apply mul_le_mul _ hπ (abs_nonneg _) (by positivity)
          exact mul_le_mul f1 f2 (abs_nonneg _) hDE
      _ = 17 / 16 * ((Dx + Ex) * (Dy + Ey)) := by ring

/-- `q_error_cov` for `|x| ≤ Mx`, `|y| ≤ My` (so spreads `2Mx`, `2My`) and mean errors
    `6kuMx`, `6kuMy`, `64ku ≤ 1`: `|q − s| ≤ 4u|s| + 28·k·u·MxMy`, `|q| ≤ 5·MxMy` -/
theorem q_error_cov_crude {u Mx My k : K} (hu : 0 ≤ u) (hMx : 0 ≤ Mx) (hMy : 0 ≤ My) (hk : 0 ≤ k)
    (hku : 64 * k * u ≤ 1) (hu64 : 64 * u ≤ 1) {x y μ ν m n ε1 ε2 ε3 : K}
    (ha : |x - μ| ≤ 2 * Mx) (hb : |y - ν| ≤ 2 * My)
    (he : |m - μ| ≤ 6 * k * u * Mx) (he' : |n - ν| ≤ 6 * k * u * My)
    (h1 : |ε1| ≤ u) (h2 : |ε2| ≤ u) (h3 : |ε3| ≤ u) :
    |(x - m) * (1 + ε1) * ((y - n) * (1 + ε2)) * (1 + ε3) - (x - μ) * (y - ν)|
        ≤ 4 * u * |(x - μ) * (y - ν)| + 28 * k * u * (Mx * My)
      ∧ |(x - m) * (1 + ε1) * ((y - n) * (1 + ε2)) * (1 + ε3)| ≤ 5 * (Mx * My) := by
  obtain ⟨g1, g2⟩ := q_error_cov (by positivity : (0 : K) ≤ 2 * Mx) (by positivity : (0 : K) ≤ 2 * My)
    (by positivity : (0 : K) ≤ 6 * k * u * Mx) (by positivity : (0 : K) ≤ 6 * k * u * My)
    hu64 ha hb he he' h1 h2 h3
  have hκ0 : 0 ≤ k * u := mul_nonneg hk hu
  have hκ : k * u ≤ 1 / 64 := by linarith
  have hP : 0 ≤ Mx * My := mul_nonneg hMx hMy
  have hκ2 : (k * u) ^ 2 ≤ 1 / 64 * (k * u) := by
    rw [pow_two]; exact mul_le_mul_of_nonneg_right hκ hκ0
  constructor
  · refine g1.trans (add_le_add le_rfl ?_)
    have hfac : 17 / 16 * (24 * (k * u) + 36 * (k * u) ^ 2) ≤ 28 * (k * u) := by linarith
    calc 17 / 16 * (2 * Mx * (6 * k * u * My) + 6 * k * u * Mx * (2 * My)
            + 6 * k * u * Mx * (6 * k * u * My))
        = 17 / 16 * (24 * (k * u) + 36 * (k * u) ^ 2) * (Mx * My) := by ring
      _ ≤ 28 * (k * u) * (Mx * My) := mul_le_mul_of_nonneg_right hfac hP
      _ = 28 * k * u * (Mx * My) := by ring
  · refine g2.trans ?_
    have hfac : 17 / 16 * (2 + 6 * (k * u)) ^ 2 ≤ 5 := by nlinarith
    calc 17 / 16 * ((2 * Mx + 6 * k * u * Mx) * (2 * My + 6 * k * u * My))
        = 17 / 16 * (2 + 6 * (k * u)) ^ 2 * (Mx * My) := by ring
      _ ≤ 5 * (Mx * My) := mul_le_mul_of_nonneg_right hfac hP

/-! ### the two float means inside a covariance run -/

theorem mem_map_fst_le {M : K} {ps : List (K × K)} (hx : ∀ p ∈ ps, |p.1| ≤ M) :
    ∀ x ∈ ps.map Prod.fst, |x| ≤ M := by
  intro x hx'
  obtain ⟨q, hq, rfl⟩ := List.mem_map.mp hx'
  exact hx q hq

theorem mem_map_snd_le {M : K} {ps : List (K × K)} (hy : ∀ p ∈ ps, |p.2| ≤ M) :
    ∀ y ∈ ps.map Prod.snd, |y| ≤ M := by
  intro y hy'
  obtain ⟨q, hq, rfl⟩ := List.mem_map.mp hy'
  exact hy q hq

/-- errors of the two float means against the exact running means of `Cov2.run` -/
theorem FlCovRun.mean_errors {u Mx My : K} (hu : 0 ≤ u) (hMx : 0 ≤ Mx) (hMy : 0 ≤ My)
    {ps : List (K × K)} {mx my cv : K} (h : FlCovRun u ps mx my cv)
    (hx : ∀ p ∈ ps, |p.1| ≤ Mx) (hy : ∀ p ∈ ps, |p.2| ≤ My)
    (hsmall : (ps.length : K) * u ≤ 1 / 8) :
    |mx - (Cov2.run ps).mx.val| ≤ 6 * (ps.length : K) * u * Mx
      ∧ |my - (Cov2.run ps).my.val| ≤ 6 * (ps.length : K) * u * My := by
  by_cases hne : ps = []
  · subst hne
    obtain ⟨rfl, rfl, _⟩ := h.nil_inv
    simp [Cov2.run, Cov2.init, Mean.init]
  · have h1 := FlRun.mean_error hu hMx h.mean_run_x (by simpa using hne) (mem_map_fst_le hx)
      (by rw [List.length_map]; exact hsmall)
    have h2 := FlRun.mean_error hu hMy h.mean_run_y (by simpa using hne) (mem_map_snd_le hy)
      (by rw [List.length_map]; exact hsmall)
    rw [List.length_map] at h1 h2
    rw [Cov2.run_mx_val, Cov2.run_my_val]
    exact ⟨h1, h2⟩

theorem exact_mx_abs_le {M : K} (hM : 0 ≤ M) (ps : List (K × K)) (hx : ∀ p ∈ ps, |p.1| ≤ M) :
    |(Cov2.run ps).mx.val| ≤ M := by
  rw [Cov2.run_mx_val]; exact exact_mean_abs_le hM _ (mem_map_fst_le hx)

theorem exact_my_abs_le {M : K} (hM : 0 ≤ M) (ps : List (K × K)) (hy : ∀ p ∈ ps, |p.2| ≤ M) :
    |(Cov2.run ps).my.val| ≤ M := by
  rw [Cov2.run_my_val]; exact exact_mean_abs_le hM _ (mem_map_snd_le hy)

/-! ### the invariant of every possible float covariance run -/

/-- With `n = ps.length`, `c` the exact `c.val` of `Cov2.run ps` (so `n·c = Σ (x − x̄)(y − ȳ)`),
    `wx`, `wy` the exact `var.val` of the two `Variance` runs (`n·wx = Sxx`, `n·wy = Syy`),
    `|x| ≤ Mx`, `|y| ≤ My`, `64·n·u ≤ 1`, `t > 0` arbitrary:
    there is a number `Q` (the exact sum of the rounded increments `q`) such that the float
    `c` accumulator is a float *mean* run over the `q`'s (each `|q| ≤ 5·MxMy`):
    `|n·cv − Q| ≤ 6 n² u · 5MxMy`, and `Q` itself is close to `n·c`:
    `|Q − n·c| ≤ 4u·(t·Sxx + Syy/t)/2 + 14·n(n+1)·u·MxMy`. -/
theorem FlCovRun.inv {u Mx My t : K} (hu : 0 ≤ u) (hMx : 0 ≤ Mx) (hMy : 0 ≤ My) (ht : 0 < t)
    {ps : List (K × K)} {mx my cv : K} (h : FlCovRun u ps mx my cv)
    (hx : ∀ p ∈ ps, |p.1| ≤ Mx) (hy : ∀ p ∈ ps, |p.2| ≤ My)
    (hsmall : 64 * (ps.length : K) * u ≤ 1) :
    ∃ Q : K, |Q| ≤ (ps.length : K) * (5 * (Mx * My))
      ∧ |(ps.length : K) * cv - Q| ≤ 6 * (ps.length : K) ^ 2 * u * (5 * (Mx * My))
      ∧ |cv| ≤ 5 * (Mx * My) * (1 + 6 * (ps.length : K) * u)
      ∧ |Q - (ps.length : K) * (Cov2.run ps).c.val|
          ≤ 4 * u * ((t * ((ps.length : K) * (Variance.run (ps.map Prod.fst)).var.val)
                + (ps.length : K) * (Variance.run (ps.map Prod.snd)).var.val / t) / 2)
            + 14 * (ps.length : K) * ((ps.length : K) + 1) * u * (Mx * My) := by
  induction h with
  | nil =>
    refine ⟨0, ?_⟩
    simp only [List.length_nil, Nat.cast_zero]
    refine ⟨by simp, by simp, ?_, by simp⟩
    simp only [abs_zero]; positivity
  | @snoc ps mx my cv p mx' my' cv' hr hs ih =>
    have hr' := FlCovRun.snoc p mx' my' cv' hr hs
    have hxs : ∀ q ∈ ps, |q.1| ≤ Mx := fun q hq => hx q (by simp [hq])
    have hys : ∀ q ∈ ps, |q.2| ≤ My := fun q hq => hy q (by simp [hq])
    have hxx : |p.1| ≤ Mx := hx p (by simp)
    have hyy : |p.2| ≤ My := hy p (by simp)
    have hlen : (ps ++ [p]).length = ps.length + 1 := by simp
    have hJ : (0 : K) ≤ (ps.length : K) := Nat.cast_nonneg _
    have hP : (0 : K) ≤ 5 * (Mx * My) := by positivity
    have hcast : (((ps ++ [p]).length : ℕ) : K) = (ps.length : K) + 1 := by rw [hlen]; push_cast; rfl
    rw [hcast] at hsmall
    have hJu : 0 ≤ (ps.length : K) * u := mul_nonneg hJ hu
    have hsmallJ : 64 * (ps.length : K) * u ≤ 1 := by nlinarith
    have hu64 : 64 * u ≤ 1 := by nlinarith
    have huMx : 0 ≤ u * Mx := mul_nonneg hu hMx
    -- the float means before and after the step
    obtain ⟨he0, _⟩ := hr.mean_errors hu hMx hMy hxs hys (by linarith)
    obtain ⟨_, hf'⟩ := hr'.mean_errors hu hMx hMy hx hy (by rw [hcast]; linarith)
    rw [hcast] at hf'
    have he : |mx - (Cov2.run ps).mx.val| ≤ 6 * ((ps.length : K) + 1) * u * Mx :=
      he0.trans (by nlinarith)
    -- exact quantities
    have hμ := exact_mx_abs_le hMx ps hxs
    have hν := exact_my_abs_le hMy (ps ++ [p]) hy
    have ha : |p.1 - (Cov2.run ps).mx.val| ≤ 2 * Mx := (abs_sub _ _).trans (by linarith)
    have hb : |p.2 - (Cov2.run (ps ++ [p])).my.val| ≤ 2 * My := (abs_sub _ _).trans (by linarith)
    have hsabs := exact_cov_incr_abs_le ht ps p
    have hc := exact_cov_step ps p
    obtain ⟨_, a2, _⟩ := exact_step (ps.map Prod.fst) p.1
    obtain ⟨_, b2, _⟩ := exact_step (ps.map Prod.snd) p.2
    rw [List.length_map] at a2 b2
    obtain ⟨Q, q1, q2, q3, q4⟩ := ih hxs hys hsmallJ
    obtain ⟨d1, d2, q, ⟨ε1, h1, rfl⟩, _, _, ⟨ε2, h2, rfl⟩, ⟨ε3, h3, rfl⟩, hcs⟩ := hs
    obtain ⟨qe, qm⟩ := q_error_cov_crude hu hMx hMy (k := (ps.length : K) + 1) (by positivity)
      (by linarith) hu64 ha hb he hf' h1 h2 h3
    -- the `c` accumulator is a float mean step over `q`
    have hd := FlStep.defect hu hP (j := ps.length) (S := Q)
      (by push_cast; linarith) q1 qm q2 q3 hcs
    rw [hcast, List.map_append, List.map_singleton, List.map_append, List.map_singleton, hc, a2, b2]
    push_cast at hd
    generalize (Cov2.run ps).mx.val = μ at *
    generalize (Cov2.run (ps ++ [p])).my.val = ν' at *
    generalize (Cov2.run ps).c.val = c at *
    generalize (Variance.run (ps.map Prod.fst)).var.val = wx at *
    generalize (Variance.run (ps.map Prod.snd)).var.val = wy at *
    generalize (p.1 - (Variance.run (ps.map Prod.fst)).mean.val)
      * (p.1 - (Variance.run (ps.map Prod.fst ++ [p.1])).mean.val) = sx at *
    generalize (p.2 - (Variance.run (ps.map Prod.snd)).mean.val)
      * (p.2 - (Variance.run (ps.map Prod.snd ++ [p.2])).mean.val) = sy at *
    generalize hqdef : (p.1 - mx) * (1 + ε1) * ((p.2 - my') * (1 + ε2)) * (1 + ε3) = q at *
    generalize (ps.length : K) = J at *
    have hQ' : |Q + q| ≤ (J + 1) * (5 * (Mx * My)) := by
      calc |Q + q| ≤ |Q| + |q| := abs_add_le _ _
        _ ≤ J * (5 * (Mx * My)) + 5 * (Mx * My) := add_le_add q1 qm
        _ = (J + 1) * (5 * (Mx * My)) := by ring
    have hmag := magnitude_of_defect (by positivity : (0 : K) < J + 1) hd hQ'
    refine ⟨Q + q, hQ', hd, hmag, ?_⟩
    have e : Q + q - (J * c + (p.1 - μ) * (p.2 - ν')) = (Q - J * c) + (q - (p.1 - μ) * (p.2 - ν')) := by
      ring
    rw [e]
    have hs4 : 4 * u * |(p.1 - μ) * (p.2 - ν')| ≤ 4 * u * ((t * sx + sy / t) / 2) :=
      mul_le_mul_of_nonneg_left hsabs (by positivity)
    calc |(Q - J * c) + (q - (p.1 - μ) * (p.2 - ν'))|
        ≤ |Q - J * c| + |q - (p.1 - μ) * (p.2 - ν')| := abs_add_le _ _
      _ ≤ (4 * u * ((t * (J * wx) + J * wy / t) / 2) + 14 * J * (J + 1) * u * (Mx * My))
          + (4 * u * ((t * sx + sy / t) / 2) + 28 * (J + 1) * u * (Mx * My)) :=
          add_le_add q4 (qe.trans (add_le_add hs4 le_rfl))
      _ = 4 * u * ((t * (J * wx + sx) + (J * wy + sy) / t) / 2)
          + 14 * (J + 1) * (J + 1 + 1) * u * (Mx * My) := by ring

/-! ### a sharper invariant for data in a box `[cx ± Rx] × [cy ± Ry]`

  As for the variance: the errors of the float *means* scale with `Mx ≥ max |x|`,
  `My ≥ max |y|`, the increments `q` with the spreads `Rx`, `Ry`. -/

theorem mem_map_fst_center {c R : K} {ps : List (K × K)} (hx : ∀ p ∈ ps, |p.1 - c| ≤ R) :
    ∀ x ∈ ps.map Prod.fst, |x - c| ≤ R := by
  intro x hx'
  obtain ⟨q, hq, rfl⟩ := List.mem_map.mp hx'
  exact hx q hq

theorem mem_map_snd_center {c R : K} {ps : List (K × K)} (hy : ∀ p ∈ ps, |p.2 - c| ≤ R) :
    ∀ y ∈ ps.map Prod.snd, |y - c| ≤ R := by
  intro y hy'
  obtain ⟨q, hq, rfl⟩ := List.mem_map.mp hy'
  exact hy q hq

/-- the very first pair: `mx = 0`, the float `y`-mean becomes `y·(1+δ₁)(1+δ₃)(1+δ₄)` and
    `q = fl(fl(x − 0)·fl(y − my'))` is pure rounding noise, `|q| ≤ 5 u MxMy`
    (in exact arithmetic it is 0) -/
theorem first_step_q_cov {u Mx My : K} (hu64 : 64 * u ≤ 1) {k : ℕ} (hk : (k : K) = 1)
    {x y my' ε1 ε2 ε3 : K} (hx : |x| ≤ Mx) (hy : |y| ≤ My) (hms : FlStep u k 0 y my')
    (h1 : |ε1| ≤ u) (h2 : |ε2| ≤ u) (h3 : |ε3| ≤ u) :
    |(x - 0) * (1 + ε1) * ((y - my') * (1 + ε2)) * (1 + ε3)| ≤ 5 * u * (Mx * My) := by
  have hu : 0 ≤ u := (abs_nonneg _).trans h1
  have hMx : 0 ≤ Mx := (abs_nonneg _).trans hx
  have hMy : 0 ≤ My := (abs_nonneg _).trans hy
  obtain ⟨a, b, c, ⟨δ1, g1, rfl⟩, ⟨δ2, g2, rfl⟩, ⟨δ3, g3, rfl⟩, ⟨δ4, g4, rfl⟩⟩ := hms
  rw [hk]
  have hπm : |(1 + δ1) * (1 + δ3) * (1 + δ4) - 1| ≤ 4 * u := prod3_rel g1 g3 g4 hu64
  have hπ : |(1 + ε1) * (1 + ε2) * (1 + ε3)| ≤ 17 / 16 :=
    (abs_le_one_add_of_rel (prod3_rel h1 h2 h3 hu64)).trans (by linarith)
  have e : (x - 0) * (1 + ε1) * ((y - (0 + (y / 1 * (1 + δ1) - 0 / 1 * (1 + δ2)) * (1 + δ3)) * (1 + δ4))
        * (1 + ε2)) * (1 + ε3)
      = -(x * y * ((1 + δ1) * (1 + δ3) * (1 + δ4) - 1) * ((1 + ε1) * (1 + ε2) * (1 + ε3))) := by
    ring
  rw [e, abs_neg, abs_mul, abs_mul, abs_mul]
  have hxy : |x| * |y| ≤ Mx * My := mul_le_mul hx hy (abs_nonneg _) hMx
  calc |x| * |y| * |(1 + δ1) * (1 + δ3) * (1 + δ4) - 1| * |(1 + ε1) * (1 + ε2) * (1 + ε3)|
      ≤ Mx * My * (4 * u) * (17 / 16) := by
        apply mul_le_mul _ hπ (abs_nonneg _) (by positivity)
        exact mul_le_mul hxy hπm (abs_nonneg _) (by positivity)
    _ = 17 / 4 * u * (Mx * My) := by ring
    _ ≤ 5 * u * (Mx * My) := by
        have : 0 ≤ u * (Mx * My) := by positivity
        linarith

/-- the exact increment of the first pair is 0 -/
theorem exact_first_incr (p : K × K) :
    (p.1 - (Cov2.run ([] : List (K × K))).mx.val) * (p.2 - (Cov2.run ([] ++ [p])).my.val) = 0 := by
  obtain ⟨_, e2, _⟩ := Cov2.run_snoc_vals ([] : List (K × K)) p
  have h0 : (Cov2.run ([] : List (K × K))).my.val = 0 := by simp [Cov2.run, Cov2.init, Mean.init]
  rw [e2, h0]
  simp

/-- bounds for the rounded increment `q` of one step (both for the first pair and for later
    ones), with `Ex = 6·N·u·Mx`, `Ey = 6·N·u·My`,
    `G = 17/16·(2Rx·Ey + Ex·2Ry + Ex·Ey)`, `Mq = 17/16·(2Rx + Ex)(2Ry + Ey) + 5u·MxMy` -/
theorem q_bounds_cov_centered {u Mx My Rx Ry cx cy : K} (hu : 0 ≤ u) (hMx : 0 ≤ Mx) (hMy : 0 ≤ My)
    (hRx : 0 ≤ Rx) (hRy : 0 ≤ Ry) (N : ℕ) (hN : 64 * (N : K) * u ≤ 1)
    {ps : List (K × K)} {p : K × K} {mx my cv my' ε1 ε2 ε3 : K}
    (hx : ∀ q ∈ ps ++ [p], |q.1| ≤ Mx) (hy : ∀ q ∈ ps ++ [p], |q.2| ≤ My)
    (hcx : ∀ q ∈ ps ++ [p], |q.1 - cx| ≤ Rx) (hcy : ∀ q ∈ ps ++ [p], |q.2 - cy| ≤ Ry)
    (hlen : ps.length + 1 ≤ N) (hr : FlCovRun u ps mx my cv)
    (hmys : FlStep u (ps.length + 1) my p.2 my')
    (hf' : |my' - (Cov2.run (ps ++ [p])).my.val| ≤ 6 * ((ps.length : K) + 1) * u * My)
    (h1 : |ε1| ≤ u) (h2 : |ε2| ≤ u) (h3 : |ε3| ≤ u) :
    |(p.1 - mx) * (1 + ε1) * ((p.2 - my') * (1 + ε2)) * (1 + ε3)
          - (p.1 - (Cov2.run ps).mx.val) * (p.2 - (Cov2.run (ps ++ [p])).my.val)|
        ≤ 4 * u * |(p.1 - (Cov2.run ps).mx.val) * (p.2 - (Cov2.run (ps ++ [p])).my.val)|
          + (if ps = [] then 5 * u * (Mx * My) else 0)
          + 17 / 16 * (2 * Rx * (6 * N * u * My) + 6 * N * u * Mx * (2 * Ry)
              + 6 * N * u * Mx * (6 * N * u * My))
      ∧ |(p.1 - mx) * (1 + ε1) * ((p.2 - my') * (1 + ε2)) * (1 + ε3)|
        ≤ 17 / 16 * ((2 * Rx + 6 * N * u * Mx) * (2 * Ry + 6 * N * u * My)) + 5 * u * (Mx * My) := by
  have hN0 : (0 : K) ≤ (N : K) := Nat.cast_nonneg N
  have hEx0 : 0 ≤ 6 * (N : K) * u * Mx := by positivity
  have hEy0 : 0 ≤ 6 * (N : K) * u * My := by positivity
  have hxs : ∀ q ∈ ps, |q.1| ≤ Mx := fun q hq => hx q (by simp [hq])
  have hys : ∀ q ∈ ps, |q.2| ≤ My := fun q hq => hy q (by simp [hq])
  have hcxs : ∀ q ∈ ps, |q.1 - cx| ≤ Rx := fun q hq => hcx q (by simp [hq])
  have hxx : |p.1| ≤ Mx := hx p (by simp)
  have hyy : |p.2| ≤ My := hy p (by simp)
  have hxc : |p.1 - cx| ≤ Rx := hcx p (by simp)
  have hyc : |p.2 - cy| ≤ Ry := hcy p (by simp)
  have hJ : (0 : K) ≤ (ps.length : K) := Nat.cast_nonneg _
  have hJN : (ps.length : K) + 1 ≤ (N : K) := by exact_mod_cast hlen
  have hu64 : 64 * u ≤ 1 := by
    have : 64 * u * 1 ≤ 64 * u * (N : K) := mul_le_mul_of_nonneg_left (by linarith) (by positivity)
    linarith
  have hsmall : 64 * ((ps.length : K) + 1) * u ≤ 1 := by
    have : 64 * u * ((ps.length : K) + 1) ≤ 64 * u * (N : K) :=
      mul_le_mul_of_nonneg_left hJN (by positivity)
    linarith
  have hG0 : (0 : K) ≤ 17 / 16 * (2 * Rx * (6 * N * u * My) + 6 * N * u * Mx * (2 * Ry)
      + 6 * N * u * Mx * (6 * N * u * My)) := by positivity
  have hsq : (0 : K) ≤ 17 / 16 * ((2 * Rx + 6 * N * u * Mx) * (2 * Ry + 6 * N * u * My)) := by
    positivity
  have hu5 : 0 ≤ 5 * u * (Mx * My) := by positivity
  by_cases hnil : ps = []
  · subst hnil
    rw [if_pos rfl]
    obtain ⟨rfl, rfl, _⟩ := hr.nil_inv
    have hq1 := first_step_q_cov (Mx := Mx) (My := My) hu64
      (k := ([] : List (K × K)).length + 1) (by simp) hxx hyy hmys h1 h2 h3
    rw [exact_first_incr, sub_zero, abs_zero, mul_zero]
    constructor
    · exact hq1.trans (by linarith)
    · exact hq1.trans (by linarith)
  · rw [if_neg hnil]
    obtain ⟨he0, _⟩ := hr.mean_errors hu hMx hMy hxs hys (by nlinarith)
    have he : |mx - (Cov2.run ps).mx.val| ≤ 6 * (N : K) * u * Mx := by
      refine he0.trans ?_
      calc 6 * (ps.length : K) * u * Mx = 6 * (u * Mx) * (ps.length : K) := by ring
        _ ≤ 6 * (u * Mx) * (N : K) := mul_le_mul_of_nonneg_left (by linarith) (by positivity)
        _ = 6 * (N : K) * u * Mx := by ring
    have hf : |my' - (Cov2.run (ps ++ [p])).my.val| ≤ 6 * (N : K) * u * My := by
      refine hf'.trans ?_
      calc 6 * ((ps.length : K) + 1) * u * My = 6 * (u * My) * ((ps.length : K) + 1) := by ring
        _ ≤ 6 * (u * My) * (N : K) := mul_le_mul_of_nonneg_left hJN (by positivity)
        _ = 6 * (N : K) * u * My := by ring
    have hμc : |(Cov2.run ps).mx.val - cx| ≤ Rx := by
      rw [Cov2.run_mx_val]
      exact exact_mean_center _ (by simpa using hnil) (mem_map_fst_center hcxs)
    have hνc : |(Cov2.run (ps ++ [p])).my.val - cy| ≤ Ry := by
      rw [Cov2.run_my_val]
      exact exact_mean_center _ (by simp) (mem_map_snd_center hcy)
    have ha : |p.1 - (Cov2.run ps).mx.val| ≤ 2 * Rx := by
      have : p.1 - (Cov2.run ps).mx.val = (p.1 - cx) - ((Cov2.run ps).mx.val - cx) := by ring
      rw [this]; exact (abs_sub _ _).trans (by linarith)
    have hb : |p.2 - (Cov2.run (ps ++ [p])).my.val| ≤ 2 * Ry := by
      have : p.2 - (Cov2.run (ps ++ [p])).my.val
          = (p.2 - cy) - ((Cov2.run (ps ++ [p])).my.val - cy) := by ring
      rw [this]; exact (abs_sub _ _).trans (by linarith)
    obtain ⟨g1, g2⟩ := q_error_cov (by positivity : (0 : K) ≤ 2 * Rx) (by positivity : (0 : K) ≤ 2 * Ry)
      hEx0 hEy0 hu64 ha hb he hf h1 h2 h3
    constructor
    · refine g1.trans (le_of_eq ?_)
      ring
    · exact g2.trans (by linarith)

/-- the sharper invariant.  `N` is any cap on the length with `64·N·u ≤ 1`,
    `Ex = 6·N·u·Mx`, `Ey = 6·N·u·My` bound the errors of the float means,
    `Mq = 17/16·(2Rx + Ex)(2Ry + Ey) + 5u·MxMy` bounds every rounded increment `q`,
    `G = 17/16·(2Rx·Ey + Ex·2Ry + Ex·Ey)` bounds the non-relative part of `q − s` per step. -/
theorem FlCovRun.inv_centered {u Mx My Rx Ry cx cy t : K} (hu : 0 ≤ u) (hMx : 0 ≤ Mx) (hMy : 0 ≤ My)
    (hRx : 0 ≤ Rx) (hRy : 0 ≤ Ry) (ht : 0 < t) (N : ℕ) (hN : 64 * (N : K) * u ≤ 1)
    {ps : List (K × K)} {mx my cv : K} (h : FlCovRun u ps mx my cv)
    (hx : ∀ p ∈ ps, |p.1| ≤ Mx) (hy : ∀ p ∈ ps, |p.2| ≤ My)
    (hcx : ∀ p ∈ ps, |p.1 - cx| ≤ Rx) (hcy : ∀ p ∈ ps, |p.2 - cy| ≤ Ry)
    (hlen : ps.length ≤ N) :
    ∃ Q : K, |Q| ≤ (ps.length : K)
          * (17 / 16 * ((2 * Rx + 6 * N * u * Mx) * (2 * Ry + 6 * N * u * My)) + 5 * u * (Mx * My))
      ∧ |(ps.length : K) * cv - Q| ≤ 6 * (ps.length : K) ^ 2 * u
          * (17 / 16 * ((2 * Rx + 6 * N * u * Mx) * (2 * Ry + 6 * N * u * My)) + 5 * u * (Mx * My))
      ∧ |cv| ≤ (17 / 16 * ((2 * Rx + 6 * N * u * Mx) * (2 * Ry + 6 * N * u * My)) + 5 * u * (Mx * My))
          * (1 + 6 * (ps.length : K) * u)
      ∧ |Q - (ps.length : K) * (Cov2.run ps).c.val|
          ≤ 4 * u * ((t * ((ps.length : K) * (Variance.run (ps.map Prod.fst)).var.val)
                + (ps.length : K) * (Variance.run (ps.map Prod.snd)).var.val / t) / 2)
            + (if ps = [] then 0 else 5 * u * (Mx * My))
            + (ps.length : K) * (17 / 16 * (2 * Rx * (6 * N * u * My) + 6 * N * u * Mx * (2 * Ry)
                + 6 * N * u * Mx * (6 * N * u * My))) := by
  have hN0 : (0 : K) ≤ (N : K) := Nat.cast_nonneg N
  have hMq0 : (0 : K) ≤ 17 / 16 * ((2 * Rx + 6 * N * u * Mx) * (2 * Ry + 6 * N * u * My))
      + 5 * u * (Mx * My) := by positivity
  induction h with
  | nil =>
    refine ⟨0, ?_⟩
    simp only [List.length_nil, Nat.cast_zero]
    refine ⟨by simp, by simp, ?_, by simp⟩
    simp only [abs_zero]; positivity
  | @snoc ps mx my cv p mx' my' cv' hr hs ih =>
    have hr' := FlCovRun.snoc p mx' my' cv' hr hs
    have hxs : ∀ q ∈ ps, |q.1| ≤ Mx := fun q hq => hx q (by simp [hq])
    have hys : ∀ q ∈ ps, |q.2| ≤ My := fun q hq => hy q (by simp [hq])
    have hcxs : ∀ q ∈ ps, |q.1 - cx| ≤ Rx := fun q hq => hcx q (by simp [hq])
    have hcys : ∀ q ∈ ps, |q.2 - cy| ≤ Ry := fun q hq => hcy q (by simp [hq])
    have hlen' : (ps ++ [p]).length = ps.length + 1 := by simp
    have hcast : (((ps ++ [p]).length : ℕ) : K) = (ps.length : K) + 1 := by
      rw [hlen']; push_cast; rfl
    have hJ : (0 : K) ≤ (ps.length : K) := Nat.cast_nonneg _
    rw [hlen'] at hlen
    have hJN : (ps.length : K) + 1 ≤ (N : K) := by exact_mod_cast hlen
    have hne' : ps ++ [p] ≠ [] := by simp
    have hsmall : 64 * ((ps.length : K) + 1) * u ≤ 1 := by
      have : 64 * u * ((ps.length : K) + 1) ≤ 64 * u * (N : K) :=
        mul_le_mul_of_nonneg_left hJN (by positivity)
      linarith
    obtain ⟨_, hf'⟩ := hr'.mean_errors hu hMx hMy hx hy (by rw [hcast]; linarith)
    rw [hcast] at hf'
    have hsabs := exact_cov_incr_abs_le ht ps p
    have hc := exact_cov_step ps p
    obtain ⟨_, a2, _⟩ := exact_step (ps.map Prod.fst) p.1
    obtain ⟨_, b2, _⟩ := exact_step (ps.map Prod.snd) p.2
    rw [List.length_map] at a2 b2
    obtain ⟨Q, q1, q2, q3, q4⟩ := ih hxs hys hcxs hcys (by omega)
    obtain ⟨d1, d2, q, ⟨ε1, h1, rfl⟩, _, hmys, ⟨ε2, h2, rfl⟩, ⟨ε3, h3, rfl⟩, hcs⟩ := hs
    obtain ⟨qe, qm⟩ := q_bounds_cov_centered hu hMx hMy hRx hRy N hN hx hy hcx hcy hlen hr hmys hf'
      h1 h2 h3
    rw [hcast, if_neg hne', List.map_append, List.map_singleton, List.map_append,
      List.map_singleton, hc, a2, b2]
    generalize hMq : 17 / 16 * ((2 * Rx + 6 * (N : K) * u * Mx) * (2 * Ry + 6 * N * u * My))
      + 5 * u * (Mx * My) = Mq at *
    generalize hG : 17 / 16 * (2 * Rx * (6 * (N : K) * u * My) + 6 * N * u * Mx * (2 * Ry)
      + 6 * N * u * Mx * (6 * N * u * My)) = G at *
    generalize (Cov2.run ps).mx.val = μ at *
    generalize (Cov2.run (ps ++ [p])).my.val = ν' at *
    generalize (Cov2.run ps).c.val = c at *
    generalize (Variance.run (ps.map Prod.fst)).var.val = wx at *
    generalize (Variance.run (ps.map Prod.snd)).var.val = wy at *
    generalize (p.1 - (Variance.run (ps.map Prod.fst)).mean.val)
      * (p.1 - (Variance.run (ps.map Prod.fst ++ [p.1])).mean.val) = sx at *
    generalize (p.2 - (Variance.run (ps.map Prod.snd)).mean.val)
      * (p.2 - (Variance.run (ps.map Prod.snd ++ [p.2])).mean.val) = sy at *
    generalize hqdef : (p.1 - mx) * (1 + ε1) * ((p.2 - my') * (1 + ε2)) * (1 + ε3) = q at *
    have hd := FlStep.defect hu hMq0 (j := ps.length) (S := Q)
      (by push_cast; linarith) q1 qm q2 q3 hcs
    push_cast at hd
    generalize hJdef : (ps.length : K) = J at *
    have hQ' : |Q + q| ≤ (J + 1) * Mq := by
      calc |Q + q| ≤ |Q| + |q| := abs_add_le _ _
        _ ≤ J * Mq + Mq := add_le_add q1 qm
        _ = (J + 1) * Mq := by ring
    have hmag := magnitude_of_defect (by positivity : (0 : K) < J + 1) hd hQ'
    refine ⟨Q + q, hQ', hd, hmag, ?_⟩
    have e : Q + q - (J * c + (p.1 - μ) * (p.2 - ν')) = (Q - J * c) + (q - (p.1 - μ) * (p.2 - ν')) := by
      ring
    rw [e]
    have hs4 : 4 * u * |(p.1 - μ) * (p.2 - ν')| ≤ 4 * u * ((t * sx + sy / t) / 2) :=
      mul_le_mul_of_nonneg_left hsabs (by positivity)
    have hcase : (if ps = [] then (0 : K) else 5 * u * (Mx * My))
        + (if ps = [] then 5 * u * (Mx * My) else 0) = 5 * u * (Mx * My) := by
      by_cases hnil : ps = [] <;> simp [hnil]
    calc |(Q - J * c) + (q - (p.1 - μ) * (p.2 - ν'))|
        ≤ |Q - J * c| + |q - (p.1 - μ) * (p.2 - ν')| := abs_add_le _ _
      _ ≤ (4 * u * ((t * (J * wx) + J * wy / t) / 2)
              + (if ps = [] then 0 else 5 * u * (Mx * My)) + J * G)
          + (4 * u * ((t * sx + sy / t) / 2) + (if ps = [] then 5 * u * (Mx * My) else 0) + G) :=
          add_le_add q4 (qe.trans (add_le_add (add_le_add hs4 le_rfl) le_rfl))
      _ = 4 * u * ((t * (J * wx + sx) + (J * wy + sy) / t) / 2)
          + ((if ps = [] then (0 : K) else 5 * u * (Mx * My))
              + (if ps = [] then 5 * u * (Mx * My) else 0))
          + (J + 1) * G := by ring
      _ = 4 * u * ((t * (J * wx + sx) + (J * wy + sy) / t) / 2) + 5 * u * (Mx * My)
          + (J + 1) * G := by rw [hcase]

/-! ### the diagonal `y = x`

  In `Cov2.push` the two means are updated by two separate `push` calls.  In the model
  the δ's of the two calls are independent, so on diagonal data the step relation is the
  variance step exactly when the two mean components are kept equal; every float
  variance run is a diagonal float covariance run (the converse inclusion is false in the
  non-deterministic model: the two means may receive different roundings). -/

/-- on the diagonal, with equal mean components before and after, the covariance step
    *is* the variance step -/
theorem flCovStep_diag_iff (u : K) (k : ℕ) (m v x m' v' : K) :
    FlCovStep u k m m v x x m' m' v' ↔ FlVarStep u k m v x m' v' := by
  constructor
  · rintro ⟨d1, d2, q, h1, h2, _, h4, h5, h6⟩
    exact ⟨d1, d2, q, h1, h2, h4, h5, h6⟩
  · rintro ⟨d1, d2, q, h1, h2, h3, h4, h5⟩
    exact ⟨d1, d2, q, h1, h2, h2, h3, h4, h5⟩

/-- every float variance run is a float covariance run on the diagonal data `(x, x)` -/
theorem FlVarRun.to_cov {u : K} {xs : List K} {m v : K} (hr : FlVarRun u xs m v) :
    FlCovRun u (xs.map fun x => (x, x)) m m v := by
  induction hr with
  | nil => exact FlCovRun.nil
  | @snoc xs m v x m' v' _ hs ih =>
    rw [List.map_append, List.map_singleton]
    refine FlCovRun.snoc (x, x) m' m' v' ih ?_
    rw [List.length_map]
    exact (flCovStep_diag_iff u _ m v x m' v').mpr hs

/-! ### exchanging the roles of `x` and `y`

  `Cov2.push` is not symmetric in floating point: entry `(x, y)` multiplies
  `fl(x − mx_old)` by `fl(y − my_new)`, entry `(y, x)` multiplies `fl(y − my_old)` by
  `fl(x − mx_new)`.  The two products agree in exact arithmetic only.  What is symmetric
  is the multiplication itself: -/

theorem Rnd.mul_comm' {u a b q : K} (h : Rnd u (a * b) q) : Rnd u (b * a) q := by
  rwa [mul_comm]

end Gpv
