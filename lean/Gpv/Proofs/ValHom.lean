/-
  Helper lemmas for C12: taking a component (`Val.proj c`) of numpy operands is a
  homomorphism for the broadcasting operations of `Gpv.Model.Basic`, as long as the
  operands are "well-shaped" (scalars, or arrays of one common length `d`, `c < d`).
  Consequently the array-instantiated accumulators of `Gpv.Model.Accum` /
  `Gpv.Model.Running` project, step for step, onto the scalar-instantiated ones.

  Everything in this file is stated for an arbitrary carrier `K` with arbitrary
  operations `[Add K] [Sub K] [Mul K] [Div K] [NatCast K]` (no field axioms are
  used): the statements therefore hold for ℚ, ℝ and for `Float` alike.
-/
import Gpv.Model.Running
set_option linter.unusedSectionVars false

namespace Gpv
namespace Val
variable {K : Type}

/-- a scalar (broadcasts to every shape) or an array with exactly `d` components -/
def Shaped (d : Nat) : Val K → Prop
  | scalar _ => True
  | arr xs => xs.length = d

/-- an array with exactly `d` components -/
def IsArr (d : Nat) : Val K → Prop
  | scalar _ => False
  | arr xs => xs.length = d

theorem IsArr.shaped {d : Nat} {v : Val K} (h : IsArr d v) : Shaped d v := by
  cases v <;> simp_all [IsArr, Shaped]

@[simp] theorem shaped_scalar (d : Nat) (x : K) : Shaped d (scalar x) := trivial

/-- size bookkeeping: an operation on size-`d` operands has size `d` -/
theorem shaped_map₂ (d : Nat) (f : K → K → K) {a b : Val K} (ha : Shaped d a) (hb : Shaped d b) :
    Shaped d (map₂ f a b) := by
  cases a <;> cases b <;> simp_all [Shaped, map₂]

theorem isArr_map₂_left (d : Nat) (f : K → K → K) {a b : Val K} (ha : IsArr d a) (hb : Shaped d b) :
    IsArr d (map₂ f a b) := by
  cases a <;> cases b <;> simp_all [Shaped, IsArr, map₂]

theorem isArr_map₂_right (d : Nat) (f : K → K → K) {a b : Val K} (ha : Shaped d a) (hb : IsArr d b) :
    IsArr d (map₂ f a b) := by
  cases a <;> cases b <;> simp_all [Shaped, IsArr, map₂]

/-- the homomorphism property of `proj` for every broadcast binary ufunc -/
theorem proj_map₂ [Inhabited K] (d : Nat) (f : K → K → K) {a b : Val K} {c : Nat}
    (ha : Shaped d a) (hb : Shaped d b) (hc : c < d) :
    (map₂ f a b).proj c = f (a.proj c) (b.proj c) := by
  cases a <;> cases b <;> simp only [Shaped] at ha hb <;> subst_vars <;>
    simp_all [map₂, proj, List.getD_eq_getElem?_getD]

@[simp] theorem proj_scalar [Inhabited K] (c : Nat) (x : K) : (scalar x).proj c = x := rfl

theorem natCast_def [NatCast K] (n : Nat) : ((n : Nat) : Val K) = scalar (n : K) := rfl
theorem shaped_natCast [NatCast K] (d n : Nat) : Shaped d ((n : Nat) : Val K) := trivial
@[simp] theorem proj_natCast [NatCast K] [Inhabited K] (c n : Nat) :
    ((n : Nat) : Val K).proj c = (n : K) := rfl

theorem shaped_add [Add K] (d : Nat) {a b : Val K} (ha : Shaped d a) (hb : Shaped d b) :
    Shaped d (a + b) := shaped_map₂ d _ ha hb
theorem shaped_sub [Sub K] (d : Nat) {a b : Val K} (ha : Shaped d a) (hb : Shaped d b) :
    Shaped d (a - b) := shaped_map₂ d _ ha hb
theorem shaped_mul [Mul K] (d : Nat) {a b : Val K} (ha : Shaped d a) (hb : Shaped d b) :
    Shaped d (a * b) := shaped_map₂ d _ ha hb
theorem shaped_div [Div K] (d : Nat) {a b : Val K} (ha : Shaped d a) (hb : Shaped d b) :
    Shaped d (a / b) := shaped_map₂ d _ ha hb

theorem proj_add [Add K] [Inhabited K] (d : Nat) {a b : Val K} {c : Nat}
    (ha : Shaped d a) (hb : Shaped d b) (hc : c < d) : (a + b).proj c = a.proj c + b.proj c :=
  proj_map₂ d _ ha hb hc
theorem proj_sub [Sub K] [Inhabited K] (d : Nat) {a b : Val K} {c : Nat}
    (ha : Shaped d a) (hb : Shaped d b) (hc : c < d) : (a - b).proj c = a.proj c - b.proj c :=
  proj_map₂ d _ ha hb hc
theorem proj_mul [Mul K] [Inhabited K] (d : Nat) {a b : Val K} {c : Nat}
    (ha : Shaped d a) (hb : Shaped d b) (hc : c < d) : (a * b).proj c = a.proj c * b.proj c :=
  proj_map₂ d _ ha hb hc
theorem proj_div [Div K] [Inhabited K] (d : Nat) {a b : Val K} {c : Nat}
    (ha : Shaped d a) (hb : Shaped d b) (hc : c < d) : (a / b).proj c = a.proj c / b.proj c :=
  proj_map₂ d _ ha hb hc

theorem isArr_sub_left [Sub K] (d : Nat) {a b : Val K} (ha : IsArr d a) (hb : Shaped d b) :
    IsArr d (a - b) := isArr_map₂_left d _ ha hb
theorem isArr_sub_right [Sub K] (d : Nat) {a b : Val K} (ha : Shaped d a) (hb : IsArr d b) :
    IsArr d (a - b) := isArr_map₂_right d _ ha hb

theorem add_def [Add K] (a b : Val K) : a + b = map₂ (· + ·) a b := rfl
theorem sub_def [Sub K] (a b : Val K) : a - b = map₂ (· - ·) a b := rfl
theorem mul_def [Mul K] (a b : Val K) : a * b = map₂ (· * ·) a b := rfl
theorem div_def [Div K] (a b : Val K) : a / b = map₂ (· / ·) a b := rfl

/-- overwrite component `c'` of an array (a scalar is left alone) -/
def setComp (c' : Nat) (y : K) : Val K → Val K
  | scalar a => scalar a
  | arr xs => arr (xs.set c' y)

theorem shaped_setComp (d c' : Nat) (y : K) {v : Val K} (hv : Shaped d v) : Shaped d (setComp c' y v) := by
  cases v <;> simp_all [Shaped, setComp]

theorem isArr_setComp (d c' : Nat) (y : K) {v : Val K} (hv : IsArr d v) : IsArr d (setComp c' y v) := by
  cases v <;> simp_all [IsArr, setComp]

theorem proj_setComp_ne [Inhabited K] {c c' : Nat} (h : c' ≠ c) (y : K) (v : Val K) :
    (setComp c' y v).proj c = v.proj c := by
  cases v with
  | scalar a => rfl
  | arr xs => simp [setComp, proj, List.getD_eq_getElem?_getD, List.getElem?_set_ne h]

/-! #### `np.outer` -/

theorem outer_list_length [Mul K] (as bs : List K) :
    (as.flatMap fun x => bs.map fun y => x * y).length = as.length * bs.length := by
  induction as with
  | nil => simp
  | cons a as ih => simp only [List.flatMap_cons, List.length_append, List.length_map, ih,
      List.length_cons, Nat.succ_mul]; omega

theorem outer_list_getElem? [Mul K] (as bs : List K) (i j : Nat) (hi : i < as.length)
    (hj : j < bs.length) :
    (as.flatMap fun x => bs.map fun y => x * y)[i * bs.length + j]? = some (as[i] * bs[j]) := by
  induction as generalizing i with
  | nil => simp at hi
  | cons a as ih =>
    simp only [List.flatMap_cons]
    cases i with
    | zero =>
      rw [List.getElem?_append_left (by simpa using hj)]
      simp [hj]
    | succ i =>
      have hi' : i < as.length := by simpa using hi
      have e : (i + 1) * bs.length + j = (bs.map fun y => a * y).length + (i * bs.length + j) := by
        simp only [List.length_map, Nat.succ_mul]; omega
      rw [e, List.getElem?_append_right (Nat.le_add_right _ _), Nat.add_sub_cancel_left, ih i hi']
      simp

theorem isArr_outer [Mul K] (d : Nat) {a b : Val K} (ha : IsArr d a) (hb : IsArr d b) :
    IsArr (d * d) (outer a b) := by
  cases a <;> cases b <;> simp only [IsArr] at ha hb
  simp only [outer, toList, IsArr, outer_list_length, ha, hb]

/-- entry `(i, j)` of the flattened outer product -/
theorem proj_outer [Mul K] [Inhabited K] (d : Nat) {a b : Val K} {i j : Nat}
    (ha : IsArr d a) (hb : IsArr d b) (hi : i < d) (hj : j < d) :
    (outer a b).proj (i * d + j) = a.proj i * b.proj j := by
  cases a <;> cases b <;> simp only [IsArr] at ha hb
  rename_i as bs
  subst hb
  have h := outer_list_getElem? as bs i j (by omega) hj
  simp only [outer, toList, proj, List.getD_eq_getElem?_getD, h, Option.getD_some]
  rw [List.getElem?_eq_getElem (by omega), List.getElem?_eq_getElem hj]
  simp

theorem entry_lt {d i j : Nat} (hi : i < d) (hj : j < d) : i * d + j < d * d := by
  calc i * d + j < i * d + d := by omega
    _ = (i + 1) * d := by rw [Nat.succ_mul]
    _ ≤ d * d := Nat.mul_le_mul_right d hi

end Val

/-- discharge `Val.Shaped d _` side goals structurally -/
macro "shaped" : tactic => `(tactic| repeat' (first
  | assumption | exact Val.shaped_scalar _ _ | exact Val.shaped_natCast _ _
  | exact Val.IsArr.shaped (by assumption)
  | apply Val.shaped_add | apply Val.shaped_sub | apply Val.shaped_mul | apply Val.shaped_div
  | apply Val.shaped_map₂))

section
variable {K : Type} [Add K] [Sub K] [Mul K] [Div K] [NatCast K] [Inhabited K]

/-! ### Mean -/

/-- component `c` of an array-valued `Mean` state -/
def Mean.proj (c : Nat) (s : Mean (Val K)) : Mean K := ⟨s.val.proj c, s.n⟩

@[simp] theorem Mean.proj_val (c : Nat) (s : Mean (Val K)) : (s.proj c).val = s.val.proj c := rfl
@[simp] theorem Mean.proj_n (c : Nat) (s : Mean (Val K)) : (s.proj c).n = s.n := rfl

theorem Mean.init_proj (c : Nat) : (Mean.init : Mean (Val K)).proj c = Mean.init := rfl
theorem Mean.init_shaped (d : Nat) : (Mean.init : Mean (Val K)).val.Shaped d := trivial

theorem Mean.push_shaped (d : Nat) {s : Mean (Val K)} {x : Val K} (hs : s.val.Shaped d)
    (hx : x.Shaped d) : (s.push x).val.Shaped d := by
  unfold Mean.push; shaped

theorem Mean.push_isArr (d : Nat) {s : Mean (Val K)} {x : Val K} (hs : s.val.Shaped d)
    (hx : x.IsArr d) : (s.push x).val.IsArr d := by
  unfold Mean.push
  apply Val.isArr_map₂_right d _ hs
  apply Val.isArr_map₂_left d
  · exact Val.isArr_map₂_left d _ hx (Val.shaped_natCast d _)
  · shaped

theorem Mean.push_proj (d : Nat) {c : Nat} (hc : c < d) {s : Mean (Val K)} {x : Val K}
    (hs : s.val.Shaped d) (hx : x.Shaped d) :
    (s.push x).proj c = (s.proj c).push (x.proj c) := by
  simp (disch := first | assumption | shaped) only [Mean.push, Mean.proj, Val.proj_add d,
    Val.proj_sub d, Val.proj_div d, Val.proj_natCast]

theorem Mean.foldl_proj (d : Nat) {c : Nat} (hc : c < d) (vs : List (Val K))
    (hvs : ∀ v ∈ vs, v.Shaped d) (s : Mean (Val K)) (hs : s.val.Shaped d) :
    (vs.foldl Mean.push s).val.Shaped d
      ∧ (vs.foldl Mean.push s).proj c = (vs.map (Val.proj c)).foldl Mean.push (s.proj c) := by
  induction vs generalizing s with
  | nil => exact ⟨hs, rfl⟩
  | cons v vs ih =>
    have hv := hvs v (by simp)
    simp only [List.foldl_cons, List.map_cons]
    rw [← Mean.push_proj d hc hs hv]
    exact ih (fun w hw => hvs w (by simp [hw])) _ (Mean.push_shaped d hs hv)

theorem Mean.merge_shaped (d : Nat) {s o : Mean (Val K)} (hs : s.val.Shaped d) (ho : o.val.Shaped d) :
    (s.merge o).val.Shaped d := by
  unfold Mean.merge
  by_cases h : s.n + o.n = 0
  · simp only [h, ↓reduceIte]; exact hs
  · simp only [h, ↓reduceIte]; shaped

theorem Mean.merge_proj (d : Nat) {c : Nat} (hc : c < d) {s o : Mean (Val K)}
    (hs : s.val.Shaped d) (ho : o.val.Shaped d) :
    (s.merge o).proj c = (s.proj c).merge (o.proj c) := by
  unfold Mean.merge
  simp only [Mean.proj_n]
  by_cases h : s.n + o.n = 0
  · simp only [h, ↓reduceIte]
  · simp (disch := first | assumption | shaped) only [h, ↓reduceIte, Mean.proj, Val.proj_add d,
      Val.proj_mul d, Val.proj_div d, Val.proj_natCast]

theorem Mean.sum_shaped (d : Nat) {s : Mean (Val K)} (hs : s.val.Shaped d) : s.sum.Shaped d := by
  unfold Mean.sum; shaped

theorem Mean.sum_proj (d : Nat) {c : Nat} (hc : c < d) {s : Mean (Val K)} (hs : s.val.Shaped d) :
    s.sum.proj c = (s.proj c).sum := by
  simp (disch := first | assumption | shaped) only [Mean.sum, Mean.proj, Val.proj_mul d,
    Val.proj_natCast]

/-! ### Variance -/

def Variance.proj (c : Nat) (s : Variance (Val K)) : Variance K := ⟨s.mean.proj c, s.var.proj c⟩

/-- both parts are scalars or size-`d` arrays -/
def Variance.Shaped (d : Nat) (s : Variance (Val K)) : Prop := s.mean.val.Shaped d ∧ s.var.val.Shaped d

theorem Variance.init_proj (c : Nat) : (Variance.init : Variance (Val K)).proj c = Variance.init := rfl
theorem Variance.init_shaped (d : Nat) : (Variance.init : Variance (Val K)).Shaped d := ⟨trivial, trivial⟩

theorem Variance.push_shaped (d : Nat) {s : Variance (Val K)} {x : Val K} (hs : s.Shaped d)
    (hx : x.Shaped d) : (s.push x).Shaped d := by
  obtain ⟨h1, h2⟩ := hs
  have h3 := Mean.push_shaped d h1 hx
  refine ⟨h3, ?_⟩
  simp only [Variance.push]
  apply Mean.push_shaped d h2
  shaped

theorem Variance.push_proj (d : Nat) {c : Nat} (hc : c < d) {s : Variance (Val K)} {x : Val K}
    (hs : s.Shaped d) (hx : x.Shaped d) :
    (s.push x).proj c = (s.proj c).push (x.proj c) := by
  obtain ⟨h1, h2⟩ := hs
  have h3 := Mean.push_shaped d h1 hx
  have e1 := Mean.push_proj d hc h1 hx
  have hδ : ((x - s.mean.val) * (x - (s.mean.push x).val)).Shaped d := by shaped
  have e2 := Mean.push_proj d hc h2 hδ
  simp only [Variance.push, Variance.proj, e1, e2]
  congr 2
  rw [Val.proj_mul d (by shaped) (by shaped) hc, Val.proj_sub d hx h1 hc, Val.proj_sub d hx h3 hc]
  have : (s.mean.push x).val.proj c = ((s.mean.proj c).push (x.proj c)).val := by rw [← e1]; rfl
  rw [this]; rfl

theorem Variance.foldl_proj (d : Nat) {c : Nat} (hc : c < d) (vs : List (Val K))
    (hvs : ∀ v ∈ vs, v.Shaped d) (s : Variance (Val K)) (hs : s.Shaped d) :
    (vs.foldl Variance.push s).Shaped d
      ∧ (vs.foldl Variance.push s).proj c = (vs.map (Val.proj c)).foldl Variance.push (s.proj c) := by
  induction vs generalizing s with
  | nil => exact ⟨hs, rfl⟩
  | cons v vs ih =>
    have hv := hvs v (by simp)
    simp only [List.foldl_cons, List.map_cons]
    rw [← Variance.push_proj d hc hs hv]
    exact ih (fun w hw => hvs w (by simp [hw])) _ (Variance.push_shaped d hs hv)

/-- the read-out, including the `ZeroDivisionError` at `n = 1` -/
theorem Variance.value_proj (d : Nat) {c : Nat} (hc : c < d) {s : Variance (Val K)} (hs : s.Shaped d) :
    s.value.map (Val.proj c) = (s.proj c).value := by
  obtain ⟨h1, h2⟩ := hs
  simp only [Variance.value, Variance.n, Variance.proj, Mean.proj_n]
  by_cases h : s.mean.n = 1
  · simp only [h, ↓reduceIte, Except.map]
  · simp (disch := first | assumption | shaped) only [h, ↓reduceIte, Except.map, Mean.proj_val,
      Val.proj_mul d, Val.proj_div d, Val.proj_sub d, Val.proj_natCast]

theorem Variance.merge_shaped (d : Nat) {s o : Variance (Val K)} (hs : s.Shaped d) (ho : o.Shaped d) :
    (s.merge o).Shaped d := by
  obtain ⟨h1, h2⟩ := hs
  obtain ⟨h3, h4⟩ := ho
  have s1 := Mean.sum_shaped d h2
  have s2 := Mean.sum_shaped d h4
  unfold Variance.merge
  simp only [Variance.n]
  by_cases h : s.mean.n + o.mean.n = 0
  · simp only [h, ↓reduceIte]; exact ⟨h1, h2⟩
  · simp only [h, ↓reduceIte]
    refine ⟨Mean.merge_shaped d h1 h3, ?_⟩
    simp only
    shaped

theorem Variance.merge_proj (d : Nat) {c : Nat} (hc : c < d) {s o : Variance (Val K)}
    (hs : s.Shaped d) (ho : o.Shaped d) :
    (s.merge o).proj c = (s.proj c).merge (o.proj c) := by
  obtain ⟨h1, h2⟩ := hs
  obtain ⟨h3, h4⟩ := ho
  have s1 := Mean.sum_shaped d h2
  have s2 := Mean.sum_shaped d h4
  unfold Variance.merge
  simp only [Variance.n, Variance.proj, Mean.proj_n]
  by_cases h : s.mean.n + o.mean.n = 0
  · simp only [h, ↓reduceIte]
  · simp only [h, ↓reduceIte, Mean.merge_proj d hc h1 h3]
    congr 1
    simp (disch := first | assumption | shaped) only [Mean.proj, Val.proj_add d, Val.proj_mul d,
      Val.proj_div d, Val.proj_sub d, Val.proj_natCast, Mean.sum_proj d hc]

end

/-! ### Minimum / Maximum -/
section
variable {K : Type} [Inhabited K]

def Extremum.proj (c : Nat) (s : Extremum (Val K)) : Extremum K := ⟨s.acc.map (Val.proj c), s.n⟩

/-- the stored array (if any) is a scalar or has size `d` -/
def Extremum.Shaped (d : Nat) (s : Extremum (Val K)) : Prop := ∀ a, s.acc = some a → a.Shaped d

theorem Extremum.init_proj (c : Nat) : (Extremum.init : Extremum (Val K)).proj c = Extremum.init := rfl
theorem Extremum.init_shaped (d : Nat) : (Extremum.init : Extremum (Val K)).Shaped d := by
  intro a h; simp [Extremum.init] at h

theorem Extremum.push_shaped (d : Nat) (op : K → K → K) {s : Extremum (Val K)} {x : Val K}
    (hs : s.Shaped d) (hx : x.Shaped d) : (Extremum.push (Val.map₂ op) s x).Shaped d := by
  intro a h
  unfold Extremum.push at h
  cases hacc : s.acc with
  | none => simp only [hacc, Option.some.injEq] at h; subst h; exact hx
  | some b =>
    simp only [hacc, Option.some.injEq] at h; subst h
    exact Val.shaped_map₂ d _ (hs b hacc) hx

theorem Extremum.push_proj (d : Nat) {c : Nat} (hc : c < d) (op : K → K → K) {s : Extremum (Val K)}
    {x : Val K} (hs : s.Shaped d) (hx : x.Shaped d) :
    (Extremum.push (Val.map₂ op) s x).proj c = Extremum.push op (s.proj c) (x.proj c) := by
  unfold Extremum.push Extremum.proj
  cases hacc : s.acc with
  | none => simp
  | some b => simp [Val.proj_map₂ d op (hs b hacc) hx hc]

theorem Extremum.foldl_proj (d : Nat) {c : Nat} (hc : c < d) (op : K → K → K) (vs : List (Val K))
    (hvs : ∀ v ∈ vs, v.Shaped d) (s : Extremum (Val K)) (hs : s.Shaped d) :
    (vs.foldl (Extremum.push (Val.map₂ op)) s).Shaped d
      ∧ (vs.foldl (Extremum.push (Val.map₂ op)) s).proj c
          = (vs.map (Val.proj c)).foldl (Extremum.push op) (s.proj c) := by
  induction vs generalizing s with
  | nil => exact ⟨hs, rfl⟩
  | cons v vs ih =>
    have hv := hvs v (by simp)
    simp only [List.foldl_cons, List.map_cons]
    rw [← Extremum.push_proj d hc op hs hv]
    exact ih (fun w hw => hvs w (by simp [hw])) _ (Extremum.push_shaped d op hs hv)

theorem Extremum.merge_shaped (d : Nat) (op : K → K → K) {s o : Extremum (Val K)}
    (hs : s.Shaped d) (ho : o.Shaped d) : (Extremum.merge (Val.map₂ op) s o).Shaped d := by
  intro a h
  unfold Extremum.merge at h
  cases h1 : s.acc with
  | none =>
    simp only [h1] at h
    exact ho a h
  | some b =>
    cases h2 : o.acc with
    | none => simp only [h1, h2, Option.some.injEq] at h; subst h; exact hs b h1
    | some b' =>
      simp only [h1, h2, Option.some.injEq] at h; subst h
      exact Val.shaped_map₂ d _ (hs b h1) (ho b' h2)

theorem Extremum.merge_proj (d : Nat) {c : Nat} (hc : c < d) (op : K → K → K) {s o : Extremum (Val K)}
    (hs : s.Shaped d) (ho : o.Shaped d) :
    (Extremum.merge (Val.map₂ op) s o).proj c = Extremum.merge op (s.proj c) (o.proj c) := by
  unfold Extremum.merge Extremum.proj
  cases h1 : s.acc with
  | none => simp
  | some b =>
    cases h2 : o.acc with
    | none => simp
    | some b' => simp [Val.proj_map₂ d op (hs b h1) (ho b' h2) hc]

end

/-! ### RunningMean / RunningVariance on arrays -/
section
variable {K : Type} [Add K] [Sub K] [Mul K] [Div K] [NatCast K] [LT K] [DecidableLT K] [Inhabited K]

def RMeanV.proj (c : Nat) (s : RMeanV K) : RMean K := ⟨s.acc.proj c, s.n, s.alpha⟩
def RVarianceV.proj (c : Nat) (s : RVarianceV K) : RVariance K := ⟨s.mean.proj c, s.var.proj c⟩
def RVarianceV.Shaped (d : Nat) (s : RVarianceV K) : Prop := s.mean.acc.Shaped d ∧ s.var.acc.Shaped d

theorem RMeanV.init_proj (c : Nat) (l : K) : (RMeanV.init l).proj c = RMean.init l := rfl
theorem RMeanV.init_shaped (d : Nat) (l : K) : (RMeanV.init l).acc.Shaped d := trivial
theorem RVarianceV.init_proj (c : Nat) (l : K) : (RVarianceV.init l).proj c = RVariance.init l := rfl
theorem RVarianceV.init_shaped (d : Nat) (l : K) : (RVarianceV.init l).Shaped d := ⟨trivial, trivial⟩

theorem RMeanV.push_shaped (d : Nat) {s : RMeanV K} {x : Val K} (hs : s.acc.Shaped d)
    (hx : x.Shaped d) : (s.push x).acc.Shaped d := by
  simp only [RMeanV.push, RMean.pushWith]; shaped

theorem RMeanV.push_proj (d : Nat) {c : Nat} (hc : c < d) {s : RMeanV K} {x : Val K}
    (hs : s.acc.Shaped d) (hx : x.Shaped d) :
    (s.push x).proj c = (s.proj c).push (x.proj c) := by
  simp (disch := first | assumption | shaped) only [RMeanV.push, RMean.push, RMean.pushWith,
    RMeanV.proj, Val.proj_add d, Val.proj_mul d, Val.proj_scalar, id]

theorem RMeanV.foldl_proj (d : Nat) {c : Nat} (hc : c < d) (vs : List (Val K))
    (hvs : ∀ v ∈ vs, v.Shaped d) (s : RMeanV K) (hs : s.acc.Shaped d) :
    (vs.foldl RMeanV.push s).acc.Shaped d
      ∧ (vs.foldl RMeanV.push s).proj c = (vs.map (Val.proj c)).foldl RMean.push (s.proj c) := by
  induction vs generalizing s with
  | nil => exact ⟨hs, rfl⟩
  | cons v vs ih =>
    have hv := hvs v (by simp)
    simp only [List.foldl_cons, List.map_cons]
    rw [← RMeanV.push_proj d hc hs hv]
    exact ih (fun w hw => hvs w (by simp [hw])) _ (RMeanV.push_shaped d hs hv)

theorem RVarianceV.push_shaped (d : Nat) {s : RVarianceV K} {x : Val K} (hs : s.Shaped d)
    (hx : x.Shaped d) : (s.push x).Shaped d := by
  obtain ⟨h1, h2⟩ := hs
  have h3 := RMeanV.push_shaped d h1 hx
  refine ⟨h3, ?_⟩
  simp only [RVarianceV.push]
  apply RMeanV.push_shaped d h2
  shaped

theorem RVarianceV.push_proj (d : Nat) {c : Nat} (hc : c < d) {s : RVarianceV K} {x : Val K}
    (hs : s.Shaped d) (hx : x.Shaped d) :
    (s.push x).proj c = (s.proj c).push (x.proj c) := by
  obtain ⟨h1, h2⟩ := hs
  have h3 := RMeanV.push_shaped d h1 hx
  have e1 := RMeanV.push_proj d hc h1 hx
  have hδ : ((x - s.mean.acc) * (x - (s.mean.push x).acc)).Shaped d := by shaped
  have e2 := RMeanV.push_proj d hc h2 hδ
  simp only [RVarianceV.push, RVarianceV.proj, RVariance.push, e1, e2]
  congr 2
  rw [Val.proj_mul d (by shaped) (by shaped) hc, Val.proj_sub d hx h1 hc, Val.proj_sub d hx h3 hc]
  have : (s.mean.push x).acc.proj c = ((s.mean.proj c).push (x.proj c)).acc := by rw [← e1]; rfl
  rw [this]; rfl

theorem RVarianceV.foldl_proj (d : Nat) {c : Nat} (hc : c < d) (vs : List (Val K))
    (hvs : ∀ v ∈ vs, v.Shaped d) (s : RVarianceV K) (hs : s.Shaped d) :
    (vs.foldl RVarianceV.push s).Shaped d
      ∧ (vs.foldl RVarianceV.push s).proj c = (vs.map (Val.proj c)).foldl RVariance.push (s.proj c) := by
  induction vs generalizing s with
  | nil => exact ⟨hs, rfl⟩
  | cons v vs ih =>
    have hv := hvs v (by simp)
    simp only [List.foldl_cons, List.map_cons]
    rw [← RVarianceV.push_proj d hc hs hv]
    exact ih (fun w hw => hvs w (by simp [hw])) _ (RVarianceV.push_shaped d hs hv)

theorem RVarianceV.value_proj (d : Nat) {c : Nat} (hc : c < d) {s : RVarianceV K} (hs : s.Shaped d) :
    s.value.map (Val.proj c) = (s.proj c).value := by
  obtain ⟨h1, h2⟩ := hs
  simp only [RVarianceV.value, RVariance.value, RVariance.n, RVarianceV.proj, RMeanV.proj]
  by_cases h : s.mean.n = 1
  · simp only [h, ↓reduceIte, Except.map]
  · simp (disch := first | assumption | shaped) only [h, ↓reduceIte, Except.map, Val.proj_mul d,
      Val.proj_div d, Val.proj_sub d, Val.proj_natCast]

end

/-! ### Covariance: entry `(i, j)` of the flattened matrix is the pair accumulator -/
section
variable {K : Type} [Add K] [Sub K] [Mul K] [Div K] [NatCast K] [Inhabited K]

/-- the pair accumulator seen in entry `(i, j)` of a `d × d` covariance state -/
def Covariance.entry (d i j : Nat) (s : Covariance K) : Cov2 K :=
  ⟨s.mean.proj i, s.mean.proj j, s.cov.proj (i * d + j)⟩

def Covariance.Shaped (d : Nat) (s : Covariance K) : Prop :=
  s.mean.val.Shaped d ∧ s.cov.val.Shaped (d * d)

theorem Covariance.init_entry (d i j : Nat) : (Covariance.init : Covariance K).entry d i j = Cov2.init := rfl
theorem Covariance.init_shaped (d : Nat) : (Covariance.init : Covariance K).Shaped d := ⟨trivial, trivial⟩

theorem Covariance.push_shaped (d : Nat) {s : Covariance K} {x : Val K} (hs : s.Shaped d)
    (hx : x.IsArr d) : (s.push x).Shaped d := by
  obtain ⟨h1, h2⟩ := hs
  have h3 := Mean.push_shaped d h1 hx.shaped
  refine ⟨h3, ?_⟩
  simp only [Covariance.push]
  apply Mean.push_shaped (d * d) h2
  exact (Val.isArr_outer d (Val.isArr_sub_left d hx h1) (Val.isArr_sub_left d hx h3)).shaped

theorem Covariance.push_entry (d : Nat) {i j : Nat} (hi : i < d) (hj : j < d) {s : Covariance K}
    {x : Val K} (hs : s.Shaped d) (hx : x.IsArr d) :
    (s.push x).entry d i j = (s.entry d i j).push (x.proj i) (x.proj j) := by
  obtain ⟨h1, h2⟩ := hs
  have hxs := hx.shaped
  have h3 := Mean.push_shaped d h1 hxs
  have a1 := Val.isArr_sub_left d hx h1
  have a2 := Val.isArr_sub_left d hx h3
  have ei := Mean.push_proj d hi h1 hxs
  have ej := Mean.push_proj d hj h1 hxs
  have ec := Mean.push_proj (d * d) (Val.entry_lt hi hj) h2 (Val.isArr_outer d a1 a2).shaped
  simp only [Covariance.push, Covariance.entry, Cov2.push, ei, ej, ec]
  congr 2
  rw [Val.proj_outer d a1 a2 hi hj, Val.proj_sub d hxs h1 hi, Val.proj_sub d hxs h3 hj]
  have : (s.mean.push x).val.proj j = ((s.mean.proj j).push (x.proj j)).val := by rw [← ej]; rfl
  rw [this]; rfl

theorem Covariance.foldl_entry (d : Nat) {i j : Nat} (hi : i < d) (hj : j < d) (vs : List (Val K))
    (hvs : ∀ v ∈ vs, v.IsArr d) (s : Covariance K) (hs : s.Shaped d) :
    (vs.foldl Covariance.push s).Shaped d
      ∧ (vs.foldl Covariance.push s).entry d i j
          = (vs.map fun v => (v.proj i, v.proj j)).foldl (fun s p => s.push p.1 p.2) (s.entry d i j) := by
  induction vs generalizing s with
  | nil => exact ⟨hs, rfl⟩
  | cons v vs ih =>
    have hv := hvs v (by simp)
    simp only [List.foldl_cons, List.map_cons]
    rw [← Covariance.push_entry d hi hj hs hv]
    exact ih (fun w hw => hvs w (by simp [hw])) _ (Covariance.push_shaped d hs hv)

/-- after at least one (array) observation the mean vector is a genuine array -/
theorem Covariance.foldl_mean_isArr (d : Nat) (vs : List (Val K)) (hvs : ∀ v ∈ vs, v.IsArr d)
    (s : Covariance K) (hs : s.Shaped d) (h : vs ≠ [] ∨ s.mean.val.IsArr d) :
    (vs.foldl Covariance.push s).mean.val.IsArr d := by
  induction vs generalizing s with
  | nil => rcases h with h | h; exact absurd rfl h; exact h
  | cons v vs ih =>
    have hv := hvs v (by simp)
    simp only [List.foldl_cons]
    refine ih (fun w hw => hvs w (by simp [hw])) _ (Covariance.push_shaped d hs hv) (Or.inr ?_)
    exact Mean.push_isArr d hs.1 hv

theorem Covariance.value_entry (d : Nat) {i j : Nat} (hi : i < d) (hj : j < d) {s : Covariance K}
    (hs : s.Shaped d) :
    s.value.map (Val.proj (i * d + j)) = (s.entry d i j).value := by
  obtain ⟨h1, h2⟩ := hs
  have hc := Val.entry_lt hi hj
  simp only [Covariance.value, Covariance.n, Cov2.value, Covariance.entry, Mean.proj_n]
  by_cases h : s.mean.n = 1
  · simp only [h, ↓reduceIte, Except.map]
  · simp (disch := first | assumption | shaped) only [h, ↓reduceIte, Except.map, Mean.proj_val,
      Val.proj_mul (d * d), Val.proj_div (d * d), Val.proj_sub (d * d), Val.proj_natCast]

/-- the merge: needs at least one of the two mean vectors to be a genuine array
    (an empty operand has the scalar `0` there), or both operands empty -/
theorem Covariance.merge_entry (d : Nat) {i j : Nat} (hi : i < d) (hj : j < d) {s o : Covariance K}
    (hs : s.Shaped d) (ho : o.Shaped d)
    (harr : (s.mean.val.IsArr d ∨ o.mean.val.IsArr d) ∨ s.n + o.n = 0) :
    (s.merge o).entry d i j = (s.entry d i j).merge (o.entry d i j) := by
  obtain ⟨h1, h2⟩ := hs
  obtain ⟨h3, h4⟩ := ho
  have hc := Val.entry_lt hi hj
  have s1 := Mean.sum_shaped (d * d) h2
  have s2 := Mean.sum_shaped (d * d) h4
  unfold Covariance.merge Cov2.merge
  simp only [Covariance.n, Covariance.entry, Mean.proj_n]
  by_cases hn : s.mean.n + o.mean.n = 0
  · simp only [hn, ↓reduceIte]
  · simp only [hn, ↓reduceIte]
    have hd : (s.mean.val - o.mean.val).IsArr d := by
      rcases harr with (h | h) | h
      · exact Val.isArr_sub_left d h h3
      · exact Val.isArr_sub_right d h1 h
      · exact absurd h hn
    have ho := (Val.isArr_outer d hd hd).shaped
    simp only [Mean.merge_proj d hi h1 h3, Mean.merge_proj d hj h1 h3]
    congr 1
    simp (disch := first | assumption | shaped) only [Mean.proj, Val.proj_add (d * d),
      Val.proj_mul (d * d), Val.proj_div (d * d), Val.proj_natCast, Mean.sum_proj (d * d) hc,
      Val.proj_outer d hd hd hi hj, Val.proj_sub d h1 h3 hi, Val.proj_sub d h1 h3 hj]

end
end Gpv
