/-
  Gpv.Proofs.PipelineInv — reachability of the parallel generator `PS`/`step?` of
  `Gpv.Model.Pipeline`, its inductive invariants (`GInv` for every consumer,
  `PInv` for a consumer that only ever calls `next`), and the helper lemmas
  about `emit`/`spec`, `setStat` and `running` used by Props C01–C04, C13.
-/
import Gpv.Model.Pipeline

namespace Gpv.Pipe
variable {α β ε : Type}

/-! ### labels and reachability -/

/-- the consumer gives up: `close()` or `throw(e)` -/
def Label.isConsumerAbort : Label ε → Bool
  | .close => true
  | .throw _ => true
  | _ => false

/-- states reachable under every consumer and every schedule -/
inductive Reach (c : Cfg) (xs : List α) (tail : Option ε) (f : α → Outcome β ε) (p0 y0 : Nat) :
    PS β ε → Prop where
  | init : Reach c xs tail f p0 y0 (PS.init p0 y0)
  | step {s s' : PS β ε} (l : Label ε) : Reach c xs tail f p0 y0 s →
      step? c xs tail f s l = some s' → Reach c xs tail f p0 y0 s'

/-- states reachable under every schedule when the consumer only ever calls `next` -/
inductive ReachN (c : Cfg) (xs : List α) (tail : Option ε) (f : α → Outcome β ε) (p0 y0 : Nat) :
    PS β ε → Prop where
  | init : ReachN c xs tail f p0 y0 (PS.init p0 y0)
  | step {s s' : PS β ε} (l : Label ε) : ReachN c xs tail f p0 y0 s →
      l.isConsumerAbort = false →
      step? c xs tail f s l = some s' → ReachN c xs tail f p0 y0 s'

theorem ReachN.reach {c : Cfg} {xs : List α} {tail : Option ε} {f : α → Outcome β ε} {p0 y0 : Nat}
    {s : PS β ε} (h : ReachN c xs tail f p0 y0 s) : Reach c xs tail f p0 y0 s := by
  induction h with
  | init => exact .init
  | step l _ _ hs ih => exact .step l ih hs

/-- number of delivered values in an observation sequence -/
def nvals (o : List (Obs β ε)) : Nat :=
  (o.filter fun o => match o with | .value _ => true | _ => false).length

@[simp] theorem nvals_nil : nvals ([] : List (Obs β ε)) = 0 := rfl
@[simp] theorem nvals_append (a b : List (Obs β ε)) : nvals (a ++ b) = nvals a + nvals b := by
  simp [nvals]
@[simp] theorem nvals_value (v : Option β) : nvals [(Obs.value v : Obs β ε)] = 1 := rfl
@[simp] theorem nvals_raised (e : ε) : nvals [(Obs.raised e : Obs β ε)] = 0 := rfl
@[simp] theorem nvals_stop : nvals [(Obs.stop : Obs β ε)] = 0 := rfl

/-! ### `setStat` and `running` -/

@[simp] theorem setStat_map_fst (cache : List (Nat × TStat)) (i : Nat) (st : TStat) :
    (setStat cache i st).map Prod.fst = cache.map Prod.fst := by
  induction cache with
  | nil => rfl
  | cons t r ih =>
    simp only [setStat, List.map_cons] at ih ⊢
    rw [ih]; split <;> rfl

@[simp] theorem setStat_length (cache : List (Nat × TStat)) (i : Nat) (st : TStat) :
    (setStat cache i st).length = cache.length := by simp [setStat]

theorem setStat_eq_nil (cache : List (Nat × TStat)) (i : Nat) (st : TStat) :
    setStat cache i st = [] ↔ cache = [] := by simp [setStat]

@[simp] theorem running_nil : running [] = 0 := rfl

theorem running_cons (t : Nat × TStat) (r : List (Nat × TStat)) :
    running (t :: r) = (if t.2 = .running then 1 else 0) + running r := by
  simp only [running, List.filter_cons]
  by_cases h : t.2 = .running <;> simp [h]; omega

theorem running_append_queued (cache : List (Nat × TStat)) (d : Nat) :
    running (cache ++ [(d, .queued)]) = running cache := by
  simp [running, List.filter_append]

theorem running_tail_le (t : Nat × TStat) (r : List (Nat × TStat)) : running r ≤ running (t :: r) := by
  rw [running_cons]; omega

theorem running_setStat_finished_le (cache : List (Nat × TStat)) (i : Nat) :
    running (setStat cache i .finished) ≤ running cache := by
  induction cache with
  | nil => simp [setStat]
  | cons t r ih =>
    have : setStat (t :: r) i .finished = (if t.1 = i then (t.1, .finished) else t) :: setStat r i .finished := rfl
    rw [this, running_cons, running_cons]
    by_cases h : t.1 = i <;> simp [h] <;> omega

theorem setStat_of_not_mem (cache : List (Nat × TStat)) (i : Nat) (st : TStat)
    (h : i ∉ cache.map Prod.fst) : setStat cache i st = cache := by
  induction cache with
  | nil => rfl
  | cons t r ih =>
    simp only [List.map_cons, List.mem_cons, not_or] at h
    have : setStat (t :: r) i st = (if t.1 = i then (t.1, st) else t) :: setStat r i st := rfl
    rw [this, ih h.2, if_neg (fun e => h.1 e.symm)]

/-- with distinct indices, starting a queued task occupies exactly one more worker -/
theorem running_setStat_running (cache : List (Nat × TStat)) (i : Nat)
    (nd : (cache.map Prod.fst).Nodup) (hq : (i, TStat.queued) ∈ cache) :
    running (setStat cache i .running) = running cache + 1 := by
  induction cache with
  | nil => simp at hq
  | cons t r ih =>
    have e : setStat (t :: r) i .running = (if t.1 = i then (t.1, .running) else t) :: setStat r i .running := rfl
    simp only [List.map_cons, List.nodup_cons] at nd
    rw [e, running_cons, running_cons]
    rcases List.mem_cons.1 hq with h | h
    · subst h
      have : i ∉ r.map Prod.fst := nd.1
      rw [setStat_of_not_mem r i _ this]
      simp; omega
    · have hne : t.1 ≠ i := by
        intro e; apply nd.1; rw [e]; exact List.mem_map.2 ⟨_, h, rfl⟩
      rw [ih nd.2 h, if_neg hne]; omega

/-! ### `emit`, `spec`, `NoErr` -/

theorem NoErr.nil (f : α → Outcome β ε) : NoErr f [] := by intro x hx; cases hx

theorem NoErr.append {f : α → Outcome β ε} {a b : List α} (ha : NoErr f a) (hb : NoErr f b) :
    NoErr f (a ++ b) := by
  intro x hx
  rcases List.mem_append.1 hx with h | h
  · exact ha x h
  · exact hb x h

theorem NoErr.cons_iff {f : α → Outcome β ε} {x : α} {l : List α} :
    NoErr f (x :: l) ↔ (∃ v, f x = .val v) ∧ NoErr f l := by
  simp [NoErr]

theorem emit_append (c : Cfg) (f : α → Outcome β ε) (a b : List α) (ha : NoErr f a) :
    emit c f (a ++ b) = emit c f a ++ emit c f b := by
  induction a with
  | nil => rfl
  | cons x a ih =>
    obtain ⟨⟨v, hv⟩, ha'⟩ := NoErr.cons_iff.1 ha
    simp only [List.cons_append, emit, hv, ih ha', List.append_assoc]

theorem emit_single_val (c : Cfg) (f : α → Outcome β ε) (x : α) (v : Option β) (h : f x = .val v) :
    emit c f [x] = if keep c v then [Obs.value v] else [] := by
  simp [emit, h]

/-- failure transparency of the specification, function failure -/
theorem spec_err (c : Cfg) (f : α → Outcome β ε) (tail : Option ε) (pre post : List α) (x : α) (e : ε)
    (hpre : NoErr f pre) (hx : f x = .err e) :
    spec c f tail (pre ++ x :: post) = emit c f pre ++ [.raised e] := by
  induction pre with
  | nil => simp [spec, emit, hx]
  | cons y pre ih =>
    obtain ⟨⟨v, hv⟩, h'⟩ := NoErr.cons_iff.1 hpre
    simp only [List.cons_append, spec, emit, hv, ih h', List.append_assoc]

/-- failure-free prefix = whole list: everything, then the source's end -/
theorem spec_noerr (c : Cfg) (f : α → Outcome β ε) (tail : Option ε) (xs : List α) (h : NoErr f xs) :
    spec c f tail xs = emit c f xs ++ [match tail with | none => Obs.stop | some e => Obs.raised e] := by
  induction xs with
  | nil => cases tail <;> simp [spec, emit]
  | cons y xs ih =>
    obtain ⟨⟨v, hv⟩, h'⟩ := NoErr.cons_iff.1 h
    simp only [spec, emit, hv, ih h', List.append_assoc]

theorem take_succ_of_getElem? {xs : List α} {k : Nat} {x : α} (h : xs[k]? = some x) :
    xs.take (k + 1) = xs.take k ++ [x] := by
  rw [List.take_add_one, h]; rfl

theorem split_at_getElem? {xs : List α} {k : Nat} {x : α} (h : xs[k]? = some x) :
    xs = xs.take k ++ x :: xs.drop (k + 1) := by
  have hk : k < xs.length := by
    rcases Nat.lt_or_ge k xs.length with h' | h'
    · exact h'
    · rw [List.getElem?_eq_none h'] at h; cases h
  have hx : xs[k] = x := by
    rw [List.getElem?_eq_getElem hk] at h; exact Option.some.inj h
  rw [← hx, ← List.drop_eq_getElem_cons hk, List.take_append_drop]

/-! ### the invariant of every reachable state -/

def PC.inBody : PC → Bool
  | .loopHead | .waitLoop | .yieldLoop | .flushHead | .waitFlush | .yieldFlush => true
  | _ => false
def PC.inLoop : PC → Bool
  | .notStarted | .loopHead | .waitLoop | .yieldLoop => true
  | _ => false
def PC.inFlush : PC → Bool
  | .flushHead | .waitFlush | .yieldFlush => true
  | _ => false

structure GInv (c : Cfg) (xs : List α) (tail : Option ε) (p0 y0 : Nat) (s : PS β ε) : Prop where
  win_le : s.taken + s.cache.length ≤ s.drawn
  drawn_le : s.drawn ≤ xs.length
  win_eq : s.pc ≠ .failed → s.taken + s.cache.length = s.drawn
  win_fail : s.drawn ≤ s.taken + s.cache.length + 1
  idx : s.cache.map Prod.fst = List.range' (s.drawn - s.cache.length) s.cache.length
  run_le : running s.cache ≤ c.nworkers
  pool_alive : s.pool = .alive ↔ s.pc.inBody = true
  pool_nc : s.pool = .notCreated →
    s.drawn = 0 ∧ s.cache = [] ∧ (s.pc = .notStarted ∨ s.pc = .closed ∨ s.pc = .failed)
  ns : s.pc = .notStarted → s.pool = .notCreated ∧ s.out = []
  len_le : 1 ≤ c.cachelen → s.cache.length ≤ c.cachelen
  len_head : 1 ≤ c.cachelen → s.pc = .loopHead → s.cache.length < c.cachelen
  len_wait : 1 ≤ c.cachelen → s.pc = .waitLoop → s.cache.length = c.cachelen
  len_yield : 1 ≤ c.cachelen → s.pc = .yieldLoop → s.cache.length + 1 = c.cachelen
  wf_ne : s.pc = .waitFlush → s.cache ≠ []
  pend_loop : s.pc.inLoop = true → s.pending = none
  pend_flush : s.pc.inFlush = true → s.pending = tail ∧ s.drawn = xs.length
  pend : s.pending.isSome = true → s.drawn = xs.length ∧ s.pending = tail
  done_ : s.pc = .done → s.cache = [] ∧ s.drawn = xs.length ∧ tail = none
  proc : s.processed = p0 + s.taken
  yld : s.yielded = y0 + nvals s.out
  nv : nvals s.out ≤ s.taken
  win_bound : 1 ≤ c.cachelen → s.drawn ≤ s.taken + c.cachelen

theorem GInv.init (c : Cfg) (xs : List α) (tail : Option ε) (p0 y0 : Nat) :
    GInv c xs tail p0 y0 (PS.init p0 y0 : PS β ε) := by
  constructor <;> simp [PS.init, PC.inBody, PC.inLoop, PC.inFlush]

variable {c : Cfg} {xs : List α} {tail : Option ε} {f : α → Outcome β ε} {p0 y0 : Nat} {s s' : PS β ε}

theorem GInv.next (h : GInv c xs tail p0 y0 s) (hs : step? c xs tail f s .next = some s') :
    GInv c xs tail p0 y0 s' := by
  simp only [step?] at hs
  split at hs <;> (try cases hs) <;> (try exact h) <;> rename_i hpc
  all_goals (obtain ⟨h1, h2, h3, h4, h5, h6, h7, h8, h9, h10, h11, h12, h13, h14, h15, h16, h17, h18, h19, h20, h21, h22⟩ := h)
  all_goals (constructor <;> grind [PC.inBody, PC.inLoop, PC.inFlush])

theorem GInv.close (h : GInv c xs tail p0 y0 s) (hs : step? c xs tail f s .close = some s') :
    GInv c xs tail p0 y0 s' := by
  simp only [step?] at hs
  split at hs <;> (try cases hs) <;> (try exact h) <;> rename_i hpc
  all_goals (obtain ⟨h1, h2, h3, h4, h5, h6, h7, h8, h9, h10, h11, h12, h13, h14, h15, h16, h17, h18, h19, h20, h21, h22⟩ := h)
  all_goals (constructor <;> grind [PC.inBody, PC.inLoop, PC.inFlush])

theorem GInv.throw {e : ε} (h : GInv c xs tail p0 y0 s) (hs : step? c xs tail f s (.throw e) = some s') :
    GInv c xs tail p0 y0 s' := by
  simp only [step?] at hs
  split at hs <;> (try cases hs) <;> rename_i hpc
  all_goals (obtain ⟨h1, h2, h3, h4, h5, h6, h7, h8, h9, h10, h11, h12, h13, h14, h15, h16, h17, h18, h19, h20, h21, h22⟩ := h)
  all_goals (constructor <;> grind [PC.inBody, PC.inLoop, PC.inFlush, nvals_append, nvals_raised])

theorem GInv.flush (h : GInv c xs tail p0 y0 s) (hs : step? c xs tail f s .flush = some s') :
    GInv c xs tail p0 y0 s' := by
  simp only [step?] at hs
  by_cases hpc : s.pc = .flushHead
  case neg => rw [if_neg hpc] at hs; cases hs
  rw [if_pos hpc] at hs
  obtain ⟨h1, h2, h3, h4, h5, h6, h7, h8, h9, h10, h11, h12, h13, h14, h15, h16, h17, h18, h19, h20, h21, h22⟩ := h
  split at hs
  · rename_i hemp
    have hemp : s.cache = [] := by simpa using hemp
    split at hs <;> cases hs
    all_goals (constructor <;> grind [PC.inBody, PC.inLoop, PC.inFlush, nvals_append, nvals_raised, nvals_stop])
  · rename_i hemp
    have hemp : s.cache ≠ [] := by simpa using hemp
    cases hs
    constructor <;> grind [PC.inBody, PC.inLoop, PC.inFlush]

theorem GInv.draw (h : GInv c xs tail p0 y0 s) (hs : step? c xs tail f s .draw = some s') :
    GInv c xs tail p0 y0 s' := by
  simp only [step?] at hs
  by_cases hpc : s.pc = .loopHead
  case neg => rw [if_neg hpc] at hs; cases hs
  rw [if_pos hpc] at hs
  obtain ⟨h1, h2, h3, h4, h5, h6, h7, h8, h9, h10, h11, h12, h13, h14, h15, h16, h17, h18, h19, h20, h21, h22⟩ := h
  split at hs
  · rename_i hlt
    cases hs
    have hrun := running_append_queued s.cache s.drawn
    have hlen : (s.cache ++ [(s.drawn, TStat.queued)]).length = s.cache.length + 1 := by simp
    have hidx : (s.cache ++ [(s.drawn, TStat.queued)]).map Prod.fst
        = List.range' (s.drawn + 1 - (s.cache.length + 1)) (s.cache.length + 1) := by
      have e : s.drawn + 1 - (s.cache.length + 1) = s.drawn - s.cache.length := by omega
      rw [List.map_append, h5, e, List.range'_1_concat]
      simp; omega
    have hne : s.cache ++ [(s.drawn, TStat.queued)] ≠ [] := by simp
    generalize s.cache ++ [(s.drawn, TStat.queued)] = cache' at *
    by_cases hc : cache'.length < c.cachelen
    · simp only [if_pos hc]
      constructor <;> grind [PC.inBody, PC.inLoop, PC.inFlush]
    · simp only [if_neg hc]
      constructor <;> grind [PC.inBody, PC.inLoop, PC.inFlush]
  · cases hs
    constructor <;> grind [PC.inBody, PC.inLoop, PC.inFlush]

/-- what `get` can do -/
theorem getStep_some {c : Cfg} {xs : List α} {f : α → Outcome β ε} {s s' : PS β ε} {pY pS : PC}
    (h : getStep c xs f s pY pS = some s') :
    ∃ i rest x, s.cache = (i, .finished) :: rest ∧ xs[i]? = some x ∧
      ((∃ v, f x = .val v ∧ keep c v = true ∧
          s' = { s with cache := rest, taken := s.taken + 1, processed := s.processed + 1,
                        yielded := s.yielded + 1, out := s.out ++ [.value v], pc := pY }) ∨
       (∃ v, f x = .val v ∧ keep c v = false ∧
          s' = { s with cache := rest, taken := s.taken + 1, processed := s.processed + 1, pc := pS }) ∨
       (∃ e, f x = .err e ∧
          s' = { s with cache := rest, out := s.out ++ [.raised e], pool := .terminated, pc := .failed })) := by
  unfold getStep at h
  split at h
  · rename_i i rest hc
    split at h
    · cases h
    · rename_i x hx
      refine ⟨i, rest, x, hc, hx, ?_⟩
      split at h
      · rename_i v hv
        split at h
        · rename_i hk
          exact .inl ⟨v, hv, hk, (Option.some.inj h).symm⟩
        · rename_i hk
          exact .inr (.inl ⟨v, hv, by simpa using hk, (Option.some.inj h).symm⟩)
      · rename_i e he
        exact .inr (.inr ⟨e, he, (Option.some.inj h).symm⟩)
  · cases h

theorem GInv.getStep {pY pS : PC} (h : GInv c xs tail p0 y0 s)
    (hpc : (s.pc = .waitLoop ∧ pY = .yieldLoop ∧ pS = .loopHead) ∨
           (s.pc = .waitFlush ∧ pY = .yieldFlush ∧ pS = .flushHead))
    (hs : getStep c xs f s pY pS = some s') : GInv c xs tail p0 y0 s' := by
  obtain ⟨i, rest, x, hc, hx, hcase⟩ := getStep_some hs
  obtain ⟨h1, h2, h3, h4, h5, h6, h7, h8, h9, h10, h11, h12, h13, h14, h15, h16, h17, h18, h19, h20, h21, h22⟩ := h
  have hrun := running_tail_le (i, TStat.finished) rest
  rw [hc] at h1 h3 h4 h5 h6 h10 h11 h12 h13
  have hidx : rest.map Prod.fst = List.range' (s.drawn - rest.length) rest.length := by
    simp only [List.map_cons, List.length_cons, List.range'_succ] at h5
    have := (List.cons.inj h5).2
    rw [this]; congr 1
    simp only [List.length_cons] at h1; omega
  simp only [List.length_cons] at h1 h3 h4 h10 h11 h12 h13
  rcases hpc with ⟨hp, rfl, rfl⟩ | ⟨hp, rfl, rfl⟩
  · rcases hcase with ⟨v, -, -, rfl⟩ | ⟨v, -, -, rfl⟩ | ⟨e, -, rfl⟩
    all_goals (constructor <;> grind [PC.inBody, PC.inLoop, PC.inFlush, nvals_append, nvals_raised, nvals_value])
  · rcases hcase with ⟨v, -, -, rfl⟩ | ⟨v, -, -, rfl⟩ | ⟨e, -, rfl⟩
    all_goals (constructor <;> grind [PC.inBody, PC.inLoop, PC.inFlush, nvals_append, nvals_raised, nvals_value])

theorem GInv.get (h : GInv c xs tail p0 y0 s) (hs : step? c xs tail f s .get = some s') :
    GInv c xs tail p0 y0 s' := by
  simp only [step?] at hs
  split at hs
  · exact h.getStep (.inl ⟨by assumption, rfl, rfl⟩) hs
  · exact h.getStep (.inr ⟨by assumption, rfl, rfl⟩) hs
  · cases hs

theorem GInv.nodup (h : GInv c xs tail p0 y0 s) : (s.cache.map Prod.fst).Nodup := by
  rw [h.idx]; exact List.nodup_range'

theorem GInv.start {i : Nat} (h : GInv c xs tail p0 y0 s) (hs : step? c xs tail f s (.start i) = some s') :
    GInv c xs tail p0 y0 s' := by
  simp only [step?] at hs
  split at hs
  · rename_i hc
    cases hs
    have hrun := running_setStat_running s.cache i h.nodup hc.2.1
    have hlen := setStat_length s.cache i .running
    have hmap := setStat_map_fst s.cache i .running
    have hnil := setStat_eq_nil s.cache i .running
    obtain ⟨h1, h2, h3, h4, h5, h6, h7, h8, h9, h10, h11, h12, h13, h14, h15, h16, h17, h18, h19, h20, h21, h22⟩ := h
    generalize setStat s.cache i .running = cache' at *
    constructor <;> grind [PC.inBody, PC.inLoop, PC.inFlush]
  · cases hs

theorem GInv.finish {i : Nat} (h : GInv c xs tail p0 y0 s) (hs : step? c xs tail f s (.finish i) = some s') :
    GInv c xs tail p0 y0 s' := by
  simp only [step?] at hs
  split at hs
  · rename_i hc
    cases hs
    have hrun := running_setStat_finished_le s.cache i
    have hlen := setStat_length s.cache i .finished
    have hmap := setStat_map_fst s.cache i .finished
    have hnil := setStat_eq_nil s.cache i .finished
    obtain ⟨h1, h2, h3, h4, h5, h6, h7, h8, h9, h10, h11, h12, h13, h14, h15, h16, h17, h18, h19, h20, h21, h22⟩ := h
    generalize setStat s.cache i .finished = cache' at *
    constructor <;> grind [PC.inBody, PC.inLoop, PC.inFlush]
  · cases hs

theorem GInv.step {l : Label ε} (h : GInv c xs tail p0 y0 s) (hs : step? c xs tail f s l = some s') :
    GInv c xs tail p0 y0 s' := by
  cases l with
  | next => exact h.next hs
  | close => exact h.close hs
  | throw e => exact h.throw hs
  | draw => exact h.draw hs
  | get => exact h.get hs
  | flush => exact h.flush hs
  | start i => exact h.start hs
  | finish i => exact h.finish hs

theorem Reach.ginv (h : Reach c xs tail f p0 y0 s) : GInv c xs tail p0 y0 s := by
  induction h with
  | init => exact GInv.init ..
  | step l _ hs ih => exact ih.step hs


/-! ### the invariant under a `next`-only consumer -/

/-- the invariant under a consumer that only calls `next`: `GInv` plus the output clauses -/
structure PInv (c : Cfg) (xs : List α) (tail : Option ε) (f : α → Outcome β ε) (p0 y0 : Nat)
    (s : PS β ε) : Prop where
  g : GInv c xs tail p0 y0 s
  noerr : NoErr f (xs.take s.taken)
  not_closed : s.pc ≠ .closed
  out_run : s.pc ≠ .done → s.pc ≠ .failed → s.out = emit c f (xs.take s.taken)
  out_done : s.pc = .done → s.out = emit c f (xs.take s.taken) ++ [.stop]
  out_failed : s.pc = .failed → ∃ e, s.out = emit c f (xs.take s.taken) ++ [.raised e]
  fin : s.pc = .done ∨ s.pc = .failed → s.out = spec c f tail xs

theorem PInv.init (c : Cfg) (xs : List α) (tail : Option ε) (f : α → Outcome β ε) (p0 y0 : Nat) :
    PInv c xs tail f p0 y0 (PS.init p0 y0) := by
  refine ⟨GInv.init .., ?_, ?_, ?_, ?_, ?_, ?_⟩ <;> simp [PS.init, NoErr.nil, emit]


theorem PInv.next (h : PInv c xs tail f p0 y0 s) (hs : step? c xs tail f s .next = some s') :
    PInv c xs tail f p0 y0 s' := by
  have hg := h.g.next hs
  simp only [step?] at hs
  split at hs <;> (try cases hs) <;> (try exact h) <;> rename_i hpc
  all_goals (obtain ⟨_, h1, h2, h3, h4, h5, h6⟩ := h)
  all_goals (refine ⟨hg, ?_, ?_, ?_, ?_, ?_, ?_⟩ <;> grind)

theorem PInv.draw (h : PInv c xs tail f p0 y0 s) (hs : step? c xs tail f s .draw = some s') :
    PInv c xs tail f p0 y0 s' := by
  have hg := h.g.draw hs
  simp only [step?] at hs
  by_cases hpc : s.pc = .loopHead
  case neg => rw [if_neg hpc] at hs; cases hs
  rw [if_pos hpc] at hs
  obtain ⟨_, h1, h2, h3, h4, h5, h6⟩ := h
  split at hs
  · cases hs
    refine ⟨hg, ?_, ?_, ?_, ?_, ?_, ?_⟩ <;> grind
  · cases hs
    refine ⟨hg, ?_, ?_, ?_, ?_, ?_, ?_⟩ <;> grind

theorem PInv.start {i : Nat} (h : PInv c xs tail f p0 y0 s) (hs : step? c xs tail f s (.start i) = some s') :
    PInv c xs tail f p0 y0 s' := by
  have hg := h.g.start hs
  simp only [step?] at hs
  split at hs
  · cases hs
    obtain ⟨_, h1, h2, h3, h4, h5, h6⟩ := h
    exact ⟨hg, h1, h2, h3, h4, h5, h6⟩
  · cases hs

theorem PInv.finish {i : Nat} (h : PInv c xs tail f p0 y0 s) (hs : step? c xs tail f s (.finish i) = some s') :
    PInv c xs tail f p0 y0 s' := by
  have hg := h.g.finish hs
  simp only [step?] at hs
  split at hs
  · cases hs
    obtain ⟨_, h1, h2, h3, h4, h5, h6⟩ := h
    exact ⟨hg, h1, h2, h3, h4, h5, h6⟩
  · cases hs

theorem PInv.flush (h : PInv c xs tail f p0 y0 s) (hs : step? c xs tail f s .flush = some s') :
    PInv c xs tail f p0 y0 s' := by
  have hg := h.g.flush hs
  simp only [step?] at hs
  by_cases hpc : s.pc = .flushHead
  case neg => rw [if_neg hpc] at hs; cases hs
  rw [if_pos hpc] at hs
  obtain ⟨g, h1, h2, h3, h4, h5, h6⟩ := h
  split at hs
  · rename_i hemp
    have hemp : s.cache = [] := by simpa using hemp
    have hpf := g.pend_flush (by simp [hpc, PC.inFlush])
    have htk : s.taken = xs.length := by
      have := g.win_eq (by simp [hpc]); simp [hemp] at this; omega
    have hall : xs.take s.taken = xs := by rw [htk, List.take_length]
    rw [hall] at h1 h3
    have hout := h3 (by simp [hpc]) (by simp [hpc])
    have hspec := spec_noerr c f tail xs h1
    split at hs <;> cases hs <;> rename_i hp
    · rw [hp] at hpf
      obtain ⟨ht, -⟩ := hpf
      subst ht
      refine ⟨hg, ?_, ?_, ?_, ?_, ?_, ?_⟩ <;> simp [hall, h1, hout, hspec]
    · rw [hp] at hpf
      obtain ⟨ht, -⟩ := hpf
      subst ht
      refine ⟨hg, ?_, ?_, ?_, ?_, ?_, ?_⟩ <;> simp [hall, h1, hout, hspec]
  · cases hs
    refine ⟨hg, ?_, ?_, ?_, ?_, ?_, ?_⟩ <;> grind

theorem PInv.getStep {pY pS : PC} (h : PInv c xs tail f p0 y0 s)
    (hpc : (s.pc = .waitLoop ∧ pY = .yieldLoop ∧ pS = .loopHead) ∨
           (s.pc = .waitFlush ∧ pY = .yieldFlush ∧ pS = .flushHead))
    (hs : getStep c xs f s pY pS = some s') : PInv c xs tail f p0 y0 s' := by
  have hg := h.g.getStep hpc hs
  obtain ⟨i, rest, x, hc, hx, hcase⟩ := getStep_some hs
  obtain ⟨g, h1, h2, h3, h4, h5, h6⟩ := h
  have hnf : s.pc ≠ .failed := by rcases hpc with ⟨hp, -⟩ | ⟨hp, -⟩ <;> simp [hp]
  have hnd : s.pc ≠ .done := by rcases hpc with ⟨hp, -⟩ | ⟨hp, -⟩ <;> simp [hp]
  have hi : i = s.taken := by
    have h5 := g.idx
    have h3 := g.win_eq hnf
    rw [hc] at h5 h3
    simp only [List.map_cons, List.length_cons, List.range'_succ] at h5 h3
    have := (List.cons.inj h5).1
    omega
  subst hi
  have hout := h3 hnd hnf
  have htake := take_succ_of_getElem? hx
  have hpY : pY ≠ .done ∧ pY ≠ .failed ∧ pY ≠ .closed := by
    rcases hpc with ⟨-, rfl, -⟩ | ⟨-, rfl, -⟩ <;> simp
  have hpS : pS ≠ .done ∧ pS ≠ .failed ∧ pS ≠ .closed := by
    rcases hpc with ⟨-, -, rfl⟩ | ⟨-, -, rfl⟩ <;> simp
  rcases hcase with ⟨v, hv, hk, rfl⟩ | ⟨v, hv, hk, rfl⟩ | ⟨e, he, rfl⟩
  · have hne : NoErr f (xs.take (s.taken + 1)) := by
      rw [htake]; exact h1.append (NoErr.cons_iff.2 ⟨⟨v, hv⟩, NoErr.nil f⟩)
    have hem : emit c f (xs.take (s.taken + 1)) = s.out ++ [.value v] := by
      rw [htake, emit_append c f _ _ h1, emit_single_val c f x v hv, hk, hout]; rfl
    refine ⟨hg, hne, ?_, ?_, ?_, ?_, ?_⟩ <;> simp [hpY, hem]
  · have hne : NoErr f (xs.take (s.taken + 1)) := by
      rw [htake]; exact h1.append (NoErr.cons_iff.2 ⟨⟨v, hv⟩, NoErr.nil f⟩)
    have hem : emit c f (xs.take (s.taken + 1)) = s.out := by
      rw [htake, emit_append c f _ _ h1, emit_single_val c f x v hv, hk, hout]; simp
    refine ⟨hg, hne, ?_, ?_, ?_, ?_, ?_⟩ <;> simp [hpS, hem]
  · have hsp : spec c f tail xs = s.out ++ [.raised e] := by
      conv => lhs; rw [split_at_getElem? hx]
      rw [spec_err c f tail _ _ x e h1 he, hout]
    refine ⟨hg, h1, ?_, ?_, ?_, ?_, ?_⟩ <;> simp [hsp, hout]

theorem PInv.get (h : PInv c xs tail f p0 y0 s) (hs : step? c xs tail f s .get = some s') :
    PInv c xs tail f p0 y0 s' := by
  simp only [step?] at hs
  split at hs
  · exact h.getStep (.inl ⟨by assumption, rfl, rfl⟩) hs
  · exact h.getStep (.inr ⟨by assumption, rfl, rfl⟩) hs
  · cases hs

theorem PInv.step {l : Label ε} (h : PInv c xs tail f p0 y0 s) (hl : l.isConsumerAbort = false)
    (hs : step? c xs tail f s l = some s') : PInv c xs tail f p0 y0 s' := by
  cases l with
  | next => exact h.next hs
  | close => cases hl
  | throw e => cases hl
  | draw => exact h.draw hs
  | get => exact h.get hs
  | flush => exact h.flush hs
  | start i => exact h.start hs
  | finish i => exact h.finish hs

theorem ReachN.pinv (h : ReachN c xs tail f p0 y0 s) : PInv c xs tail f p0 y0 s := by
  induction h with
  | init => exact PInv.init ..
  | step l _ hl hs ih => exact ih.step hl hs


end Gpv.Pipe
