/-
  Gpv.Proofs.StreamAlg — algebra of the generator machines of `Gpv.Model.Stream`
  (savestream/loadstream, observe, observe_time, simplecache): the state reached by
  `k` consumer `next()` calls in closed form, and the invariants of arbitrary
  `next`/`close` demand histories.  Used by properties C18 and C19.
-/
import Gpv.Model.Stream

namespace Gpv.Stream
variable {α β ε : Type}

/-! ### the source -/
theorem srcAt_lt {xs : List α} {tail : Option ε} {i : Nat} (h : i < xs.length) :
    srcAt xs tail i = .item xs[i] := by
  simp [srcAt, List.getElem?_eq_getElem h]

theorem srcAt_ge_none {xs : List α} {i : Nat} (h : xs.length ≤ i) :
    srcAt xs (none : Option ε) i = .stop := by
  simp [srcAt, List.getElem?_eq_none h]

theorem srcAt_ge_some {xs : List α} {e : ε} {i : Nat} (h : xs.length ≤ i) :
    srcAt xs (some e) i = .err e := by
  simp [srcAt, List.getElem?_eq_none h]

theorem take_succ_getElem {xs : List α} {k : Nat} (h : k < xs.length) :
    xs.take (k + 1) = xs.take k ++ [xs[k]] := by
  exact List.take_succ_eq_append_getElem h

/-- the program counter a generator ends in once its source is used up -/
def endPc : Option ε → GPC
  | none => .done
  | some _ => .failed

theorem endPc_finished (tail : Option ε) : (endPc tail).finished = true := by
  cases tail <;> rfl

/-- the program counter after `k` successful `next()` calls -/
def runPc : Nat → GPC
  | 0 => .notStarted
  | _ + 1 => .atYield

theorem runPc_finished (k : Nat) : (runPc k).finished = false := by
  cases k <;> rfl

/-! ### savestream -/

/-- the members written for the elements `ys` (drawn from position 0 on) -/
def entriesOf (enc : α → β) (ys : List α) : List (String × β) :=
  ys.zipIdx.map fun p => (memberName p.2, enc p.1)

theorem entriesOf_snoc (enc : α → β) (ys : List α) (a : α) :
    entriesOf enc (ys ++ [a]) = entriesOf enc ys ++ [(memberName ys.length, enc a)] := by
  simp [entriesOf, List.zipIdx_append]

theorem entriesOf_map_snd (enc : α → β) (ys : List α) :
    (entriesOf enc ys).map (·.2) = ys.map enc := by
  have h : ((fun p : String × β => p.2) ∘ fun p : α × Nat => (memberName p.2, enc p.1)) = enc ∘ Prod.fst := rfl
  rw [entriesOf, List.map_map, h, ← List.map_map, List.zipIdx_map_fst]

theorem entriesOf_map_dec (enc : α → β) (dec : β → α) (ys : List α) :
    (entriesOf enc ys).map (fun e => dec e.2) = ys.map (dec ∘ enc) := by
  have h : (fun e : String × β => dec e.2) = dec ∘ (fun e : String × β => e.2) := rfl
  rw [h, ← List.map_map, entriesOf_map_snd, List.map_map]

theorem load_entriesOf (enc : α → β) (dec : β → α) (ys : List α) :
    load dec ⟨entriesOf enc ys, true⟩ = some (ys.map (dec ∘ enc)) := by
  simp only [load, if_true, entriesOf_map_dec]

theorem memberName_digits (n : Nat) :
    (memberName n).toList
      = "data/".toList ++ (List.replicate (6 - (toString n).length) '0' ++ Nat.toDigits 10 n) := by
  simp [memberName, String.toList_append]

/-- distinct positions get distinct member names (no member is ever overwritten) -/
theorem memberName_injective {m n : Nat} (h : memberName m = memberName n) : m = n := by
  have h1 := congrArg String.toList h
  rw [memberName_digits, memberName_digits] at h1
  have h2 := congrArg (fun l => Nat.ofDigitChars 10 l 0) (List.append_cancel_left h1)
  simpa [Nat.ofDigitChars_append] using h2

/-- `k` consumer `next()` calls on a fresh `savestream` generator -/
def Save.nexts (enc : α → β) (xs : List α) (tail : Option ε) : Nat → Save α β ε
  | 0 => Save.init
  | k + 1 => Save.next enc xs tail (Save.nexts enc xs tail k)

/-- closed form while the source still delivers: `k ≤ xs.length` -/
theorem Save.nexts_le (enc : α → β) (xs : List α) (tail : Option ε) {k : Nat} (hk : k ≤ xs.length) :
    Save.nexts enc xs tail k =
      { pc := runPc k, drawn := k, opened := decide (k ≠ 0),
        arch := ⟨entriesOf enc (xs.take k), false⟩, out := xs.take k, raised := none } := by
  induction k with
  | zero => simp [Save.nexts, Save.init, entriesOf, runPc]
  | succ k ih =>
    have hk' : k < xs.length := by omega
    rw [Save.nexts, ih (by omega)]
    simp only [Save.next, runPc_finished, srcAt_lt hk', take_succ_getElem hk', entriesOf_snoc]
    simp [List.length_take, Nat.min_eq_left (Nat.le_of_lt hk'), runPc]

/-- closed form once the consumer asked beyond the end: `k > xs.length` -/
theorem Save.nexts_gt (enc : α → β) (xs : List α) (tail : Option ε) {k : Nat} (hk : xs.length < k) :
    Save.nexts enc xs tail k =
      { pc := endPc tail, drawn := xs.length, opened := true,
        arch := ⟨entriesOf enc xs, true⟩, out := xs, raised := tail } := by
  induction k with
  | zero => omega
  | succ k ih =>
    rw [Save.nexts]
    by_cases hk' : xs.length < k
    · rw [ih hk']; simp [Save.next, endPc_finished]
    · have hk'' : k = xs.length := by omega
      subst hk''
      rw [Save.nexts_le enc xs tail (Nat.le_refl _)]
      cases tail with
      | none => simp [Save.next, runPc_finished, srcAt_ge_none, endPc]
      | some e => simp [Save.next, runPc_finished, srcAt_ge_some, endPc]

/-! #### finished states are absorbing; arbitrary demand histories -/
theorem Save.next_of_finished (enc : α → β) (xs : List α) (tail : Option ε) {s : Save α β ε}
    (h : s.pc.finished = true) : Save.next enc xs tail s = s := by
  simp [Save.next, h]

theorem Save.close_of_finished {s : Save α β ε} (h : s.pc.finished = true) : s.close = s := by
  cases s with
  | mk pc drawn opened arch out raised => cases pc <;> simp_all [Save.close, GPC.finished]

theorem Save.close_finished (s : Save α β ε) : s.close.pc.finished = true := by
  cases s with
  | mk pc drawn opened arch out raised => cases pc <;> simp [Save.close, GPC.finished]

/-- every state a consumer can bring a fresh `savestream` generator into by `next()` and `close()` -/
inductive Save.Reach (enc : α → β) (xs : List α) (tail : Option ε) : Save α β ε → Prop
  | init : Save.Reach enc xs tail Save.init
  | next {s} : Save.Reach enc xs tail s → Save.Reach enc xs tail (Save.next enc xs tail s)
  | close {s} : Save.Reach enc xs tail s → Save.Reach enc xs tail s.close

theorem Save.reach_nexts (enc : α → β) (xs : List α) (tail : Option ε) (k : Nat) :
    Save.Reach enc xs tail (Save.nexts enc xs tail k) := by
  induction k with
  | zero => exact .init
  | succ k ih => exact .next ih

/-- normal form of a demand history: `k` times `next`, optionally followed by `close`
    (everything after the first `close`, or after the end, changes nothing) -/
theorem Save.Reach.normal {enc : α → β} {xs : List α} {tail : Option ε} {s : Save α β ε}
    (h : Save.Reach enc xs tail s) :
    ∃ k, s = Save.nexts enc xs tail k ∨ s = (Save.nexts enc xs tail k).close := by
  induction h with
  | init => exact ⟨0, .inl rfl⟩
  | next _ ih =>
    obtain ⟨k, h | h⟩ := ih
    · exact ⟨k + 1, .inl (by rw [h]; rfl)⟩
    · exact ⟨k, .inr (by rw [h, Save.next_of_finished _ _ _ (Save.close_finished _)])⟩
  | close _ ih =>
    obtain ⟨k, h | h⟩ := ih
    · exact ⟨k, .inr (by rw [h])⟩
    · exact ⟨k, .inr (by rw [h, Save.close_of_finished (Save.close_finished _)])⟩

/-! ### observe / observe_time -/

/-- the observer calls made for one observed element: every function once, in the given order -/
def callsFor (nfuncs : Nat) (a : α) : List (Nat × α) := (List.range nfuncs).map fun j => (j, a)

/-- the calls made for the elements `ys` (positions from 0) when position `i` is observed iff `sel i` -/
def selCalls (nfuncs : Nat) (sel : Nat → Bool) (ys : List α) : List (Nat × α) :=
  (ys.zipIdx.filter fun p => sel p.2).flatMap fun p => callsFor nfuncs p.1

theorem selCalls_nil (nfuncs : Nat) (sel : Nat → Bool) : selCalls nfuncs sel ([] : List α) = [] := rfl

theorem selCalls_snoc (nfuncs : Nat) (sel : Nat → Bool) (ys : List α) (a : α) :
    selCalls nfuncs sel (ys ++ [a])
      = selCalls nfuncs sel ys ++ (if sel ys.length then callsFor nfuncs a else []) := by
  simp only [selCalls, List.zipIdx_append, List.filter_append, List.flatMap_append, List.zipIdx_cons,
    List.zipIdx_nil, Nat.zero_add]
  by_cases h : sel ys.length <;> simp [h]

/-- the same list, indexed over positions instead of over the elements -/
def rangeCalls (nfuncs : Nat) (sel : Nat → Bool) (xs : List α) (m : Nat) : List (Nat × α) :=
  ((List.range m).filter sel).flatMap fun i =>
    match xs[i]? with
    | some a => callsFor nfuncs a
    | none => []

theorem selCalls_take_eq_rangeCalls (nfuncs : Nat) (sel : Nat → Bool) (xs : List α) {m : Nat}
    (hm : m ≤ xs.length) : selCalls nfuncs sel (xs.take m) = rangeCalls nfuncs sel xs m := by
  induction m with
  | zero => simp [selCalls, rangeCalls]
  | succ m ih =>
    have hm' : m < xs.length := by omega
    rw [take_succ_getElem hm', selCalls_snoc, ih (by omega)]
    simp only [rangeCalls, List.range_succ, List.filter_append, List.flatMap_append,
      List.length_take, Nat.min_eq_left (Nat.le_of_lt hm')]
    by_cases h : sel m <;> simp [h, List.getElem?_eq_getElem hm']

/-- position `i` is observed by `observe(..., interval)` -/
def everyNth (interval : Nat) (i : Nat) : Bool := decide (i % interval = 0)

/-- `k` consumer `next()` calls on a fresh `observe` generator -/
def Obsv.nexts (nfuncs interval : Nat) (xs : List α) (tail : Option ε) : Nat → Obsv α ε
  | 0 => Obsv.init
  | k + 1 => Obsv.next nfuncs interval xs tail (Obsv.nexts nfuncs interval xs tail k)

theorem Obsv.nexts_le (nfuncs interval : Nat) (xs : List α) (tail : Option ε) {k : Nat}
    (hk : k ≤ xs.length) :
    Obsv.nexts nfuncs interval xs tail k =
      { pc := runPc k, drawn := k, out := xs.take k,
        calls := selCalls nfuncs (everyNth interval) (xs.take k), tlast := 0, raised := none } := by
  induction k with
  | zero => simp [Obsv.nexts, Obsv.init, runPc, selCalls_nil]
  | succ k ih =>
    have hk' : k < xs.length := by omega
    rw [Obsv.nexts, ih (by omega)]
    simp only [Obsv.next, runPc_finished, srcAt_lt hk', take_succ_getElem hk', selCalls_snoc,
      List.length_take, Nat.min_eq_left (Nat.le_of_lt hk'), everyNth]
    simp [runPc, callsFor]

theorem Obsv.nexts_gt (nfuncs interval : Nat) (xs : List α) (tail : Option ε) {k : Nat}
    (hk : xs.length < k) :
    Obsv.nexts nfuncs interval xs tail k =
      { pc := endPc tail, drawn := xs.length, out := xs,
        calls := selCalls nfuncs (everyNth interval) xs, tlast := 0, raised := tail } := by
  induction k with
  | zero => omega
  | succ k ih =>
    rw [Obsv.nexts]
    by_cases hk' : xs.length < k
    · rw [ih hk']; simp [Obsv.next, endPc_finished]
    · have hk'' : k = xs.length := by omega
      subst hk''
      rw [Obsv.nexts_le nfuncs interval xs tail (Nat.le_refl _)]
      cases tail with
      | none => simp [Obsv.next, runPc_finished, srcAt_ge_none, endPc]
      | some e => simp [Obsv.next, runPc_finished, srcAt_ge_some, endPc]

/-! #### observe_time -/

/-- `tlast` when element `i` arrives: the reading of the last observed element before `i`, 0 initially -/
def tlastAt (intervalNs : Int) (clock : Nat → Int) : Nat → Int
  | 0 => 0
  | i + 1 => if clock i - tlastAt intervalNs clock i > intervalNs then clock i
             else tlastAt intervalNs clock i

/-- element `i` is observed by `observe_time` -/
def observedAt (intervalNs : Int) (clock : Nat → Int) (i : Nat) : Bool :=
  decide (clock i - tlastAt intervalNs clock i > intervalNs)

def Obsv.nextsT (nfuncs : Nat) (intervalNs : Int) (clock : Nat → Int) (xs : List α) (tail : Option ε) :
    Nat → Obsv α ε
  | 0 => Obsv.init
  | k + 1 => Obsv.nextTime nfuncs intervalNs clock xs tail (Obsv.nextsT nfuncs intervalNs clock xs tail k)

theorem Obsv.nextsT_le (nfuncs : Nat) (intervalNs : Int) (clock : Nat → Int) (xs : List α)
    (tail : Option ε) {k : Nat} (hk : k ≤ xs.length) :
    Obsv.nextsT nfuncs intervalNs clock xs tail k =
      { pc := runPc k, drawn := k, out := xs.take k,
        calls := selCalls nfuncs (observedAt intervalNs clock) (xs.take k),
        tlast := tlastAt intervalNs clock k, raised := none } := by
  induction k with
  | zero => simp [Obsv.nextsT, Obsv.init, runPc, selCalls_nil, tlastAt]
  | succ k ih =>
    have hk' : k < xs.length := by omega
    rw [Obsv.nextsT, ih (by omega)]
    simp only [Obsv.nextTime, runPc_finished, srcAt_lt hk', take_succ_getElem hk', selCalls_snoc,
      List.length_take, Nat.min_eq_left (Nat.le_of_lt hk'), observedAt, tlastAt]
    by_cases h : clock k - tlastAt intervalNs clock k > intervalNs <;> simp [h, runPc, callsFor]

theorem Obsv.nextsT_gt (nfuncs : Nat) (intervalNs : Int) (clock : Nat → Int) (xs : List α)
    (tail : Option ε) {k : Nat} (hk : xs.length < k) :
    Obsv.nextsT nfuncs intervalNs clock xs tail k =
      { pc := endPc tail, drawn := xs.length, out := xs,
        calls := selCalls nfuncs (observedAt intervalNs clock) xs,
        tlast := tlastAt intervalNs clock xs.length, raised := tail } := by
  induction k with
  | zero => omega
  | succ k ih =>
    rw [Obsv.nextsT]
    by_cases hk' : xs.length < k
    · rw [ih hk']; simp [Obsv.nextTime, endPc_finished]
    · have hk'' : k = xs.length := by omega
      subst hk''
      rw [Obsv.nextsT_le nfuncs intervalNs clock xs tail (Nat.le_refl _)]
      cases tail with
      | none => simp [Obsv.nextTime, runPc_finished, srcAt_ge_none, endPc]
      | some e => simp [Obsv.nextTime, runPc_finished, srcAt_ge_some, endPc]

/-! ### simplecache -/

/-- the last `L` elements of `ys` (all of them if there are fewer): the contents of `deque(maxlen=L)` -/
def lastN (L : Nat) (ys : List α) : List α := ys.drop (ys.length - L)

theorem lastN_length (L : Nat) (ys : List α) : (lastN L ys).length = min ys.length L := by
  simp [lastN]; omega

theorem lastN_snoc (L : Nat) (ys : List α) (a : α) :
    lastN L (lastN L ys ++ [a]) = lastN L (ys ++ [a]) := by
  apply List.ext_getElem?
  intro i
  simp only [lastN, List.length_append, List.length_drop, List.length_singleton, List.getElem?_drop]
  grind

theorem lastN_take_add (L : Nat) (xs : List α) (j : Nat) (h : j + L ≤ xs.length) :
    lastN L (xs.take (j + L)) = (xs.drop j).take L := by
  simp only [lastN, List.length_take, Nat.min_eq_left h, List.drop_take]
  simp only [Nat.add_sub_cancel, Nat.add_sub_cancel_left]


/-- what a `simplecache` generator does when its source ends -/
def SCache.stop (tail : Option ε) (s : SCache α ε) : SCache α ε :=
  match tail with
  | none => { s with pc := .done }
  | some e => { s with pc := .failed, raised := some e }

theorem SCache.go_spec (L : Nat) (xs : List α) (tail : Option ε) :
    ∀ (fuel : Nat) (s : SCache α ε), s.drawn ≤ xs.length → s.cache = lastN L (xs.take s.drawn) →
      xs.length + 1 - s.drawn ≤ fuel →
      SCache.next.go L xs tail fuel s =
        if max (s.drawn + 1) L ≤ xs.length then
          { s with pc := .atYield, drawn := max (s.drawn + 1) L,
                   cache := lastN L (xs.take (max (s.drawn + 1) L)),
                   out := s.out ++ [lastN L (xs.take (max (s.drawn + 1) L))] }
        else SCache.stop tail { s with drawn := xs.length, cache := lastN L xs } := by
  intro fuel
  induction fuel with
  | zero => intro s hd _ hf; omega
  | succ fuel ih =>
    intro s hd hc hf
    rw [SCache.next.go]
    by_cases hlt : s.drawn < xs.length
    · have hc' : List.drop ((s.cache ++ [xs[s.drawn]]).length - L) (s.cache ++ [xs[s.drawn]])
          = lastN L (xs.take (s.drawn + 1)) := by
        rw [take_succ_getElem hlt, ← lastN_snoc, ← hc]; rfl
      simp only [srcAt_lt hlt, hc', lastN_length, List.length_take]
      by_cases hfill : min (min (s.drawn + 1) xs.length) L < L
      · rw [if_pos hfill, ih _ (by simp; omega) (by simp) (by simp; omega)]
        have h1 : max (s.drawn + 1 + 1) L = L := by omega
        have h2 : max (s.drawn + 1) L = L := by omega
        simp only [h1, h2]
      · rw [if_neg hfill]
        have h2 : max (s.drawn + 1) L = s.drawn + 1 := by omega
        rw [h2, if_pos (by omega)]
    · have hd' : s.drawn = xs.length := by omega
      have hge : xs.length ≤ s.drawn := by omega
      rw [if_neg (by omega)]
      have hs : { s with drawn := xs.length, cache := lastN L xs } = s := by
        cases s; simp_all
      rw [hs]
      cases tail with
      | none => simp [srcAt_ge_none hge, SCache.stop]
      | some e => simp [srcAt_ge_some hge, SCache.stop]

/-- the first `m` complete windows of length `L` -/
def windows (L : Nat) (xs : List α) (m : Nat) : List (List α) :=
  (List.range m).map fun j => (xs.drop j).take L

theorem windows_succ (L : Nat) (xs : List α) (m : Nat) :
    windows L xs (m + 1) = windows L xs m ++ [(xs.drop m).take L] := by
  simp [windows, List.range_succ]

/-- elements drawn when the `k`-th window is yielded -/
def scDrawn (L : Nat) : Nat → Nat
  | 0 => 0
  | k + 1 => k + L

def SCache.nexts (isIter : Bool) (L : Nat) (xs : List α) (tail : Option ε) : Nat → SCache α ε
  | 0 => SCache.init
  | k + 1 => SCache.next isIter L xs tail (SCache.nexts isIter L xs tail k)

theorem SCache.nexts_le (L : Nat) (xs : List α) (tail : Option ε) (hL : 1 ≤ L) {k : Nat}
    (hk : k ≤ xs.length + 1 - L) :
    SCache.nexts true L xs tail k =
      { pc := runPc k, drawn := scDrawn L k, cache := lastN L (xs.take (scDrawn L k)),
        out := windows L xs k, err := none, raised := none } := by
  induction k with
  | zero => simp [SCache.nexts, SCache.init, runPc, scDrawn, lastN, windows]
  | succ k ih =>
    rw [SCache.nexts, ih (by omega)]
    have hd : scDrawn L k ≤ xs.length := by cases k <;> simp [scDrawn] <;> omega
    have hmax : max (scDrawn L k + 1) L = k + L := by cases k <;> simp [scDrawn] <;> omega
    simp only [SCache.next, runPc_finished, Bool.not_true]
    have hgo := SCache.go_spec L xs tail (xs.length + 1 - scDrawn L k)
      ({ pc := runPc k, drawn := scDrawn L k, cache := lastN L (xs.take (scDrawn L k)),
         out := windows L xs k, err := none, raised := none } : SCache α ε) hd rfl (Nat.le_refl _)
    simp only [hmax] at hgo
    rw [if_pos (by omega), lastN_take_add L xs k (by omega)] at hgo
    rw [if_neg (by simp), if_neg (by simp), hgo, windows_succ]
    simp [runPc, scDrawn, lastN_take_add L xs k (by omega)]

theorem SCache.stop_eq (tail : Option ε) (s : SCache α ε) (h : s.raised = none) :
    SCache.stop tail s = { s with pc := endPc tail, raised := tail } := by
  cases tail <;> simp [SCache.stop, endPc, h]

theorem SCache.nexts_gt (L : Nat) (xs : List α) (tail : Option ε) (hL : 1 ≤ L) {k : Nat}
    (hk : xs.length + 1 - L < k) :
    SCache.nexts true L xs tail k =
      { pc := endPc tail, drawn := xs.length, cache := lastN L xs,
        out := windows L xs (xs.length + 1 - L), err := none, raised := tail } := by
  induction k with
  | zero => omega
  | succ k ih =>
    rw [SCache.nexts]
    by_cases hk' : xs.length + 1 - L < k
    · rw [ih hk']; simp [SCache.next, endPc_finished]
    · have hk'' : k = xs.length + 1 - L := by omega
      rw [SCache.nexts_le L xs tail hL (by omega)]
      have hd : scDrawn L k ≤ xs.length := by cases k <;> simp [scDrawn] <;> omega
      have hmax : max (scDrawn L k + 1) L = k + L := by cases k <;> simp [scDrawn] <;> omega
      have hgo := SCache.go_spec L xs tail (xs.length + 1 - scDrawn L k)
        ({ pc := runPc k, drawn := scDrawn L k, cache := lastN L (xs.take (scDrawn L k)),
           out := windows L xs k, err := none, raised := none } : SCache α ε) hd rfl (Nat.le_refl _)
      simp only [hmax] at hgo
      rw [if_neg (by omega), SCache.stop_eq _ _ rfl] at hgo
      simp only [SCache.next, runPc_finished, Bool.not_true]
      rw [if_neg (by simp), if_neg (by simp), hgo, hk'']

end Gpv.Stream
