import Gpv.Model.P2
import Mathlib.Algebra.Order.Field.Basic
import Mathlib.Tactic.Ring
import Mathlib.Tactic.FieldSimp
import Mathlib.Tactic.Linarith
import Mathlib.Tactic.Positivity
import Mathlib.Data.List.Sort
import Mathlib.Order.Defs.LinearOrder
import Mathlib.Data.Nat.Cast.Order.Ring
set_option linter.unusedSectionVars false

namespace Gpv
variable {K : Type} [Field K] [LinearOrder K] [IsStrictOrderedRing K]

theorem nth_eq_getElem {l : List K} {i : ℕ} (h : i < l.length) : nth l i = l[i] := by
  simp [nth, h]

theorem nth_set_eq (l : List K) (i : ℕ) (a : K) (h : i < l.length) : nth (l.set i a) i = a := by
  simp [nth, h]

theorem nth_set_ne (l : List K) {i j : ℕ} (a : K) (h : i ≠ j) : nth (l.set i a) j = nth l j := by
  simp [nth, List.getElem?_set_ne h]

theorem sign_pos {x : K} (h : 0 < x) : sign x = 1 := by simp [sign, h]
theorem sign_neg {x : K} (h : x < 0) : sign x = -1 := by
  simp [sign, h, not_lt.mpr h.le]


theorem linear_down {h0 h1 p0 p1 : K} (h : h0 ≤ h1) (g : p0 - p1 < -1) :
    h0 ≤ linear h1 h0 p1 p0 (-1) ∧ linear h1 h0 p1 p0 (-1) ≤ h1 := by
  have e : (h0 - h1) / (p0 - p1) = (h1 - h0) / (p1 - p0) := by
    rw [← neg_sub h1 h0, ← neg_sub p1 p0, neg_div_neg_eq]
  have hg : 1 ≤ p1 - p0 := by linarith
  have t0 : 0 ≤ (h1 - h0) / (p1 - p0) := div_nonneg (by linarith) (by linarith)
  have t1 : (h1 - h0) / (p1 - p0) ≤ h1 - h0 := div_le_self (by linarith) hg
  simp only [linear, e]
  constructor <;> linarith

theorem linear_up {h1 h2 p1 p2 : K} (h : h1 ≤ h2) (g : 1 < p2 - p1) :
    h1 ≤ linear h1 h2 p1 p2 1 ∧ linear h1 h2 p1 p2 1 ≤ h2 := by
  have t0 : 0 ≤ (h2 - h1) / (p2 - p1) := div_nonneg (by linarith) (by linarith)
  have t1 : (h2 - h1) / (p2 - p1) ≤ h2 - h1 := div_le_self (by linarith) g.le
  simp only [linear]
  constructor <;> linarith

theorem set_nth_self (l : List K) (i : ℕ) : l.set i (nth l i) = l := by
  by_cases h : i < l.length
  · rw [nth_eq_getElem h]; exact List.set_getElem_self h
  · exact List.set_eq_of_length_le (by omega)

/-- step B3 at marker `i`: only `h[i]` and `pos[i]` change, the new height stays between the
    neighbouring heights and the new rank is an integer strictly between the neighbouring ranks. -/
theorem adjustOne_spec (q : List K) (n : ℕ) (h pos : List K) (i : ℕ)
    (h01 : nth h (i - 1) ≤ nth h i) (h12 : nth h i ≤ nth h (i + 1))
    (a b c : ℕ) (ha : nth pos (i - 1) = a) (hb : nth pos i = b) (hc : nth pos (i + 1) = c)
    (hab : a < b) (hbc : b < c) :
    ∃ v : K, ∃ z : ℕ, adjustOne q n (h, pos) i = (h.set i v, pos.set i (z : K)) ∧
      nth h (i - 1) ≤ v ∧ v ≤ nth h (i + 1) ∧ a < z ∧ z < c := by
  simp only [adjustOne, Nat.cast_zero, Nat.cast_one, ha, hb, hc]
  by_cases hstep : (nth q i * (n : K) - b ≤ -1 ∧ (a : K) - b < -1) ∨
      (1 ≤ nth q i * (n : K) - b ∧ 1 < (c : K) - b)
  · rw [if_pos hstep]
    rcases hstep with ⟨hd, hg⟩ | ⟨hd, hg⟩
    · have hlt : a + 1 < b := by
        have : ((a + 1 : ℕ) : K) < (b : ℕ) := by push_cast; linarith
        exact_mod_cast this
      have hz : (b : K) + -1 = ((b - 1 : ℕ) : K) := by
        rw [Nat.cast_sub (by omega), Nat.cast_one, sub_eq_add_neg]
      have hneg : (-1 : K) < 0 := by simp
      rw [sign_neg (by linarith)]
      simp only [hneg, ↓reduceIte, hz]
      refine ⟨_, b - 1, rfl, ?_, ?_, by omega, by omega⟩
      · split_ifs with hpar
        · exact hpar.1.le
        · exact (linear_down h01 hg).1
      · split_ifs with hpar
        · exact hpar.2.le
        · exact (linear_down h01 hg).2.trans h12
    · have hlt : b + 1 < c := by
        have : ((b + 1 : ℕ) : K) < (c : ℕ) := by push_cast; linarith
        exact_mod_cast this
      have hz : (b : K) + 1 = ((b + 1 : ℕ) : K) := by
        rw [Nat.cast_add, Nat.cast_one]
      have hneg : ¬ ((1 : K) < 0) := not_lt.mpr zero_le_one
      rw [sign_pos (by linarith)]
      simp only [hneg, ↓reduceIte, hz]
      refine ⟨_, b + 1, rfl, ?_, ?_, by omega, by omega⟩
      · split_ifs with hpar
        · exact hpar.1.le
        · exact h01.trans (linear_up h12 hg).1
      · split_ifs with hpar
        · exact hpar.2.le
        · exact (linear_up h12 hg).2
  · rw [if_neg hstep]
    exact ⟨nth h i, b, by rw [set_nth_self, ← hb, set_nth_self], h01, h12, hab, hbc⟩

/-! ### index-level invariant of the marker arrays -/

/-- the marker arrays are well formed: right lengths, adjacent heights non-decreasing, ranks
    integers and adjacent ranks strictly increasing -/
structure Marks (m : ℕ) (h pos : List K) : Prop where
  hlen : h.length = m
  plen : pos.length = m
  hmono : ∀ i, i + 1 < m → nth h i ≤ nth h (i + 1)
  pint : ∀ j, j < m → ∃ z : ℕ, nth pos j = (z : K)
  pmono : ∀ i, i + 1 < m → nth pos i < nth pos (i + 1)

theorem chain_of_adjacent (R : K → K → Prop) (htr : ∀ a b c, R a b → R b c → R a c)
    (l : List K) (m : ℕ) (hadj : ∀ i, i + 1 < m → R (nth l i) (nth l (i + 1))) :
    ∀ i j, i < j → j < m → R (nth l i) (nth l j) := by
  intro i j hij
  induction j with
  | zero => omega
  | succ j ih =>
    intro hj
    rcases Nat.lt_succ_iff_lt_or_eq.mp hij with h | h
    · exact htr _ _ _ (ih h (by omega)) (hadj j hj)
    · subst h; exact hadj i hj

theorem Marks.h_le {m : ℕ} {h pos : List K} (ok : Marks m h pos) {i j : ℕ} (hij : i ≤ j) (hj : j < m) :
    nth h i ≤ nth h j := by
  rcases Nat.lt_or_eq_of_le hij with h' | h'
  · exact chain_of_adjacent (· ≤ ·) (fun _ _ _ => le_trans) h m ok.hmono i j h' hj
  · subst h'; exact le_rfl

theorem Marks.p_lt {m : ℕ} {h pos : List K} (ok : Marks m h pos) {i j : ℕ} (hij : i < j) (hj : j < m) :
    nth pos i < nth pos j :=
  chain_of_adjacent (· < ·) (fun _ _ _ => lt_trans) pos m ok.pmono i j hij hj

theorem Marks.adjustOne {m : ℕ} {h pos : List K} (ok : Marks m h pos) (q : List K) (n i : ℕ)
    (hi1 : 1 ≤ i) (hi : i + 1 < m) :
    Marks m (adjustOne q n (h, pos) i).1 (adjustOne q n (h, pos) i).2 ∧
      (∀ j, j ≠ i → nth (adjustOne q n (h, pos) i).1 j = nth h j) ∧
      (∀ j, j ≠ i → nth (adjustOne q n (h, pos) i).2 j = nth pos j) := by
  obtain ⟨a, ha⟩ := ok.pint (i - 1) (by omega)
  obtain ⟨b, hb⟩ := ok.pint i (by omega)
  obtain ⟨c, hc⟩ := ok.pint (i + 1) hi
  have hab : a < b := by
    have := ok.pmono (i - 1) (by omega)
    rw [Nat.sub_add_cancel hi1, ha, hb] at this; exact_mod_cast this
  have hbc : b < c := by
    have := ok.pmono i hi
    rw [hb, hc] at this; exact_mod_cast this
  have h01 : nth h (i - 1) ≤ nth h i := by
    have := ok.hmono (i - 1) (by omega); rwa [Nat.sub_add_cancel hi1] at this
  obtain ⟨v, z, e, hv0, hv2, hz0, hz2⟩ :=
    adjustOne_spec q n h pos i h01 (ok.hmono i hi) a b c ha hb hc hab hbc
  rw [e]
  have hih : i < h.length := by rw [ok.hlen]; omega
  have hip : i < pos.length := by rw [ok.plen]; omega
  refine ⟨⟨by simp [ok.hlen], by simp [ok.plen], ?_, ?_, ?_⟩,
    fun j hj => nth_set_ne _ _ (Ne.symm hj), fun j hj => nth_set_ne _ _ (Ne.symm hj)⟩
  · intro k hk
    by_cases h1 : k = i
    · subst h1; rw [nth_set_eq _ _ _ hih, nth_set_ne _ _ (by omega)]; exact hv2
    · by_cases h2 : k + 1 = i
      · subst h2; rw [nth_set_eq _ _ _ hih, nth_set_ne _ _ (by omega)]
        simpa using hv0
      · rw [nth_set_ne _ _ (Ne.symm h1), nth_set_ne _ _ (Ne.symm h2)]; exact ok.hmono k hk
  · intro j hj
    by_cases h1 : j = i
    · subst h1; exact ⟨z, nth_set_eq _ _ _ hip⟩
    · rw [nth_set_ne _ _ (Ne.symm h1)]; exact ok.pint j hj
  · intro k hk
    by_cases h1 : k = i
    · subst h1; rw [nth_set_eq _ _ _ hip, nth_set_ne _ _ (by omega), hc]; exact_mod_cast hz2
    · by_cases h2 : k + 1 = i
      · subst h2; rw [nth_set_eq _ _ _ hip, nth_set_ne _ _ (by omega)]
        have : nth pos k = a := by simpa using ha
        rw [this]; exact_mod_cast hz0
      · rw [nth_set_ne _ _ (Ne.symm h1), nth_set_ne _ _ (Ne.symm h2)]; exact ok.pmono k hk

theorem Marks.foldAdjust {m : ℕ} (q : List K) (n : ℕ) (l : List ℕ)
    (hl : ∀ i ∈ l, 1 ≤ i ∧ i + 1 < m) :
    ∀ (st : List K × List K), Marks m st.1 st.2 →
      Marks m (l.foldl (Gpv.adjustOne q n) st).1 (l.foldl (Gpv.adjustOne q n) st).2 ∧
      (∀ j, (j = 0 ∨ j + 1 = m) → nth (l.foldl (Gpv.adjustOne q n) st).1 j = nth st.1 j ∧
        nth (l.foldl (Gpv.adjustOne q n) st).2 j = nth st.2 j) := by
  induction l with
  | nil => intro st ok; exact ⟨ok, fun _ _ => ⟨rfl, rfl⟩⟩
  | cons i l ih =>
    intro st ok
    obtain ⟨hi1, hi⟩ := hl i (by simp)
    obtain ⟨ok', e1, e2⟩ := Marks.adjustOne (h := st.1) (pos := st.2) ok q n i hi1 hi
    obtain ⟨ok'', e⟩ := ih (fun j hj => hl j (by simp [hj])) _ ok'
    rw [List.foldl_cons]
    refine ⟨ok'', fun j hj => ?_⟩
    have hji : j ≠ i := by omega
    exact ⟨(e j hj).1.trans (e1 j hji), (e j hj).2.trans (e2 j hji)⟩

theorem Marks.adjustAll {h pos : List K} (q : List K) (n : ℕ) (ok : Marks q.length h pos) :
    Marks q.length (adjustAll q n h pos).1 (adjustAll q n h pos).2 ∧
      nth (adjustAll q n h pos).1 0 = nth h 0 ∧
      nth (adjustAll q n h pos).1 (q.length - 1) = nth h (q.length - 1) ∧
      nth (adjustAll q n h pos).2 0 = nth pos 0 ∧
      nth (adjustAll q n h pos).2 (q.length - 1) = nth pos (q.length - 1) := by
  have hl : ∀ i ∈ List.range' 1 (q.length - 2), 1 ≤ i ∧ i + 1 < q.length := by
    intro i hi; rw [List.mem_range'_1] at hi; omega
  obtain ⟨ok', e⟩ := Marks.foldAdjust q n _ hl (h, pos) ok
  refine ⟨ok', (e 0 (Or.inl rfl)).1, ?_, (e 0 (Or.inl rfl)).2, ?_⟩
  · by_cases h0 : q.length = 0
    · rw [h0]; exact (e 0 (Or.inl rfl)).1
    · exact (e _ (Or.inr (by omega))).1
  · by_cases h0 : q.length = 0
    · rw [h0]; exact (e 0 (Or.inl rfl)).2
    · exact (e _ (Or.inr (by omega))).2

theorem nth_mapIdx (l : List K) (f : ℕ → K → K) {j : ℕ} (hj : j < l.length) :
    nth (l.mapIdx f) j = f j (nth l j) := by
  simp [nth, hj]

/-- the new observation replaces the extreme markers and shifts the ranks of all markers
    (other than the first) whose height is ≥ x -/
theorem Marks.placeObs {m : ℕ} {h pos : List K} (ok : Marks m h pos) (hm : 2 ≤ m) (x : K) :
    Marks m (placeObs h pos x).1 (placeObs h pos x).2 ∧
      nth (placeObs h pos x).1 0 = min x (nth h 0) ∧
      nth (placeObs h pos x).1 (m - 1) = max x (nth h (m - 1)) ∧
      nth (placeObs h pos x).2 0 = nth pos 0 ∧
      nth (placeObs h pos x).2 (m - 1) = nth pos (m - 1) + 1 := by
  have hlen := ok.hlen
  have e0 : (if x < nth h 0 then x else nth h 0) = min x (nth h 0) := by
    split_ifs with c
    · exact (min_eq_left c.le).symm
    · exact (min_eq_right (not_lt.mp c)).symm
  have e1 : (if nth h (m - 1) < x then x else nth h (m - 1)) = max x (nth h (m - 1)) := by
    split_ifs with c
    · exact (max_eq_left c.le).symm
    · exact (max_eq_right (not_lt.mp c)).symm
  have eh : (Gpv.placeObs h pos x).1 = (h.set 0 (min x (nth h 0))).set (m - 1) (max x (nth h (m - 1))) := by
    simp only [Gpv.placeObs, hlen, Nat.cast_one]
    rw [nth_set_ne _ _ (by omega), e0, e1]
  have ep : (Gpv.placeObs h pos x).2 = pos.mapIdx fun j p =>
      if 1 ≤ j ∧ x ≤ nth (Gpv.placeObs h pos x).1 j then p + 1 else p := by
    simp only [Gpv.placeObs, hlen, Nat.cast_one]
  set h' := (Gpv.placeObs h pos x).1 with hh'
  have h'0 : nth h' 0 = min x (nth h 0) := by
    rw [eh, nth_set_ne _ _ (by omega), nth_set_eq _ _ _ (by omega)]
  have h'l : nth h' (m - 1) = max x (nth h (m - 1)) := by
    rw [eh, nth_set_eq _ _ _ (by simp; omega)]
  have h'mid : ∀ j, j ≠ 0 → j ≠ m - 1 → nth h' j = nth h j := by
    intro j j0 jl
    rw [eh, nth_set_ne _ _ (Ne.symm jl), nth_set_ne _ _ (Ne.symm j0)]
  have lower : ∀ j, j ≠ m - 1 → nth h' j ≤ nth h j := by
    intro j jl
    by_cases j0 : j = 0
    · subst j0; rw [h'0]; exact min_le_right _ _
    · rw [h'mid j j0 jl]
  have upper : ∀ j, j ≠ 0 → nth h j ≤ nth h' j := by
    intro j j0
    by_cases jl : j = m - 1
    · subst jl; rw [h'l]; exact le_max_right _ _
    · rw [h'mid j j0 jl]
  have h'mono : ∀ i, i + 1 < m → nth h' i ≤ nth h' (i + 1) := fun i hi =>
    (lower i (by omega)).trans ((ok.hmono i hi).trans (upper (i + 1) (by omega)))
  have p' : ∀ j, j < m → nth (Gpv.placeObs h pos x).2 j =
      if 1 ≤ j ∧ x ≤ nth h' j then nth pos j + 1 else nth pos j := by
    intro j hj
    rw [ep, nth_mapIdx _ _ (by rw [ok.plen]; exact hj)]
  have hlen' : h'.length = m := by rw [eh]; simp [hlen]
  have ok1 : Marks m h' pos := ⟨hlen', ok.plen, h'mono, ok.pint, ok.pmono⟩
  refine ⟨⟨hlen', by rw [ep]; simp [ok.plen], h'mono, ?_, ?_⟩, h'0, h'l, ?_, ?_⟩
  · intro j hj
    obtain ⟨z, hz⟩ := ok.pint j hj
    rw [p' j hj, hz]
    split_ifs
    · exact ⟨z + 1, by push_cast; rfl⟩
    · exact ⟨z, rfl⟩
  · intro i hi
    rw [p' i (by omega), p' (i + 1) hi]
    have hlt := ok.pmono i hi
    by_cases c : 1 ≤ i ∧ x ≤ nth h' i
    · have c' : 1 ≤ i + 1 ∧ x ≤ nth h' (i + 1) := ⟨by omega, c.2.trans (h'mono i hi)⟩
      rw [if_pos c, if_pos c']; linarith
    · rw [if_neg c]
      split_ifs <;> linarith
  · rw [p' 0 (by omega), if_neg (by omega)]
  · rw [p' (m - 1) (by omega), if_pos ⟨by omega, by rw [h'l]; exact le_max_left _ _⟩]

/-! ### the invariant of the estimator state -/

/-- Invariant of the P² state once at least as many observations as markers have arrived
    (`xs` = the observations so far). -/
structure P2.Inv (s : P2 K) (xs : List K) : Prop where
  n_eq : s.n = xs.length
  hlen : s.h.length = s.q.length
  plen : s.pos.length = s.q.length
  sorted : List.Pairwise (· ≤ ·) s.h
  min_mem : nth s.h 0 ∈ xs
  min_le : ∀ y ∈ xs, nth s.h 0 ≤ y
  max_mem : nth s.h (s.q.length - 1) ∈ xs
  le_max : ∀ y ∈ xs, y ≤ nth s.h (s.q.length - 1)
  between : ∀ j, j < s.q.length → nth s.h 0 ≤ nth s.h j ∧ nth s.h j ≤ nth s.h (s.q.length - 1)
  pint : ∀ j, j < s.q.length → ∃ z : ℕ, nth s.pos j = (z : K)
  pstrict : List.Pairwise (· < ·) s.pos
  pos_first : nth s.pos 0 = 0
  pos_last : nth s.pos (s.q.length - 1) = ((xs.length - 1 : ℕ) : K)

theorem pairwise_nth {R : K → K → Prop} {l : List K} :
    List.Pairwise R l ↔ ∀ i j, i < j → j < l.length → R (nth l i) (nth l j) := by
  rw [List.pairwise_iff_getElem]
  constructor
  · intro h i j hij hj
    rw [nth_eq_getElem (by omega), nth_eq_getElem hj]; exact h i j (by omega) hj hij
  · intro h i j hi hj hij
    have := h i j hij hj
    rwa [nth_eq_getElem hi, nth_eq_getElem hj] at this

theorem P2.Inv.marks {s : P2 K} {xs : List K} (inv : P2.Inv s xs) : Marks s.q.length s.h s.pos where
  hlen := inv.hlen
  plen := inv.plen
  hmono i hi := pairwise_nth.mp inv.sorted i (i + 1) (by omega) (by rw [inv.hlen]; exact hi)
  pint := inv.pint
  pmono i hi := pairwise_nth.mp inv.pstrict i (i + 1) (by omega) (by rw [inv.plen]; exact hi)

theorem P2.Inv.of_marks {s : P2 K} {xs : List K} (ok : Marks s.q.length s.h s.pos)
    (n_eq : s.n = xs.length)
    (min_mem : nth s.h 0 ∈ xs) (min_le : ∀ y ∈ xs, nth s.h 0 ≤ y)
    (max_mem : nth s.h (s.q.length - 1) ∈ xs) (le_max : ∀ y ∈ xs, y ≤ nth s.h (s.q.length - 1))
    (pos_first : nth s.pos 0 = 0)
    (pos_last : nth s.pos (s.q.length - 1) = ((xs.length - 1 : ℕ) : K)) : P2.Inv s xs where
  n_eq := n_eq
  hlen := ok.hlen
  plen := ok.plen
  sorted := pairwise_nth.mpr fun i j hij hj => ok.h_le hij.le (by rw [← ok.hlen]; exact hj)
  min_mem := min_mem
  min_le := min_le
  max_mem := max_mem
  le_max := le_max
  between j hj := ⟨ok.h_le (Nat.zero_le j) hj, ok.h_le (by omega) (by omega)⟩
  pint := ok.pint
  pstrict := pairwise_nth.mpr fun i j hij hj => ok.p_lt hij (by rw [← ok.plen]; exact hj)
  pos_first := pos_first
  pos_last := pos_last

theorem mem_iff_nth {l : List K} {y : K} : y ∈ l ↔ ∃ j, j < l.length ∧ y = nth l j := by
  rw [List.mem_iff_getElem]
  constructor
  · rintro ⟨j, hj, e⟩; exact ⟨j, hj, by rw [nth_eq_getElem hj, e]⟩
  · rintro ⟨j, hj, e⟩; exact ⟨j, hj, by rw [e, nth_eq_getElem hj]⟩

/-- in a sorted marker array the end markers are the extremes of the stored values -/
theorem Marks.extremes {m : ℕ} {h pos : List K} (ok : Marks m h pos) (hm : 1 ≤ m) :
    nth h 0 ∈ h ∧ (∀ y ∈ h, nth h 0 ≤ y) ∧ nth h (m - 1) ∈ h ∧ (∀ y ∈ h, y ≤ nth h (m - 1)) := by
  refine ⟨mem_iff_nth.mpr ⟨0, by rw [ok.hlen]; omega, rfl⟩, ?_,
    mem_iff_nth.mpr ⟨m - 1, by rw [ok.hlen]; omega, rfl⟩, ?_⟩
  · intro y hy
    obtain ⟨j, hj, rfl⟩ := mem_iff_nth.mp hy
    exact ok.h_le (Nat.zero_le j) (by rw [← ok.hlen]; exact hj)
  · intro y hy
    obtain ⟨j, hj, rfl⟩ := mem_iff_nth.mp hy
    rw [ok.hlen] at hj
    exact ok.h_le (by omega) (by omega)

/-! ### the run -/

theorem P2.run_snoc (q xs : List K) (x : K) : P2.run q (xs ++ [x]) = (P2.run q xs).push x := by
  simp [P2.run, List.foldl_append]

@[simp] theorem P2.push_q (s : P2 K) (x : K) : (s.push x).q = s.q := by
  simp only [P2.push]; split_ifs <;> rfl

@[simp] theorem P2.push_n (s : P2 K) (x : K) : (s.push x).n = s.n + 1 := by
  simp only [P2.push]; split_ifs <;> rfl

@[simp] theorem P2.run_q (q xs : List K) : (P2.run q xs).q = q := by
  induction xs using List.reverseRec with
  | nil => rfl
  | append_singleton xs x ih => rw [P2.run_snoc, P2.push_q, ih]

@[simp] theorem P2.run_n (q xs : List K) : (P2.run q xs).n = xs.length := by
  induction xs using List.reverseRec with
  | nil => rfl
  | append_singleton xs x ih => rw [P2.run_snoc, P2.push_n, ih]; simp

/-- the initial ranks `0, 1, …, m-1` -/
def initPos (K : Type) [NatCast K] (m : ℕ) : List K := (List.range m).map fun i => ((i : ℕ) : K)

theorem P2.init_pos (q : List K) : (P2.init q).pos = initPos K q.length := rfl

theorem nth_initPos {m j : ℕ} (hj : j < m) : nth (initPos K m) j = (j : K) := by
  simp [nth, initPos, hj]

theorem P2.run_before_full (q xs : List K) (hx : xs.length < q.length) :
    (P2.run q xs).h = xs ∧ (P2.run q xs).pos = initPos K q.length := by
  induction xs using List.reverseRec with
  | nil => exact ⟨rfl, rfl⟩
  | append_singleton xs x ih =>
    have hlen : xs.length + 1 < q.length := by simpa using hx
    obtain ⟨ih1, ih2⟩ := ih (by omega)
    rw [P2.run_snoc]
    have c : (P2.run q xs).n + 1 < (P2.run q xs).m := by simp [P2.m]; exact hlen
    simp only [P2.push, if_pos c]
    exact ⟨by rw [ih1], ih2⟩

/-- with the initial ranks every rank gap is exactly 1, so step B3 does nothing -/
theorem adjustOne_initPos (q : List K) (n : ℕ) (h : List K) {m i : ℕ} (hi1 : 1 ≤ i) (hi : i + 1 < m) :
    adjustOne q n (h, initPos K m) i = (h, initPos K m) := by
  simp only [adjustOne, Nat.cast_zero, Nat.cast_one]
  rw [nth_initPos (show i - 1 < m by omega), nth_initPos (show i < m by omega), nth_initPos hi]
  have e1 : ((i - 1 : ℕ) : K) - (i : K) = -1 := by
    rw [Nat.cast_sub hi1, Nat.cast_one]; ring
  have e2 : ((i + 1 : ℕ) : K) - (i : K) = 1 := by push_cast; ring
  rw [e1, e2, if_neg]
  rintro (⟨_, c⟩ | ⟨_, c⟩) <;> exact lt_irrefl _ c

theorem adjustAll_initPos (q : List K) (n : ℕ) (h : List K) :
    adjustAll q n h (initPos K q.length) = (h, initPos K q.length) := by
  have hl : ∀ i ∈ List.range' 1 (q.length - 2), 1 ≤ i ∧ i + 1 < q.length := by
    intro i hi; rw [List.mem_range'_1] at hi; omega
  unfold adjustAll
  generalize List.range' 1 (q.length - 2) = l at hl
  induction l with
  | nil => rfl
  | cons i l ih =>
    rw [List.foldl_cons, adjustOne_initPos q n h (hl i (by simp)).1 (hl i (by simp)).2]
    exact ih fun j hj => hl j (by simp [hj])

theorem sortK_perm (l : List K) : (sortK l).Perm l := List.mergeSort_perm _ _

theorem sortK_sorted (l : List K) : List.Pairwise (· ≤ ·) (sortK l) := by
  have := List.pairwise_mergeSort (le := fun a b : K => decide (a ≤ b))
    (fun a b c hab hbc => by simpa using le_trans (by simpa using hab) (by simpa using hbc))
    (fun a b => by simpa using le_total a b) l
  simpa [sortK] using this

theorem marks_sorted_init (l : List K) : Marks l.length (sortK l) (initPos K l.length) where
  hlen := (sortK_perm l).length_eq
  plen := by simp [initPos]
  hmono i hi := pairwise_nth.mp (sortK_sorted l) i (i + 1) (by omega)
    (by rw [(sortK_perm l).length_eq]; exact hi)
  pint j hj := ⟨j, nth_initPos hj⟩
  pmono i hi := by
    rw [nth_initPos hi, nth_initPos (show i < l.length by omega)]; exact_mod_cast Nat.lt_succ_self i

/-- the three branches of `push` on an explicit state -/
theorem P2.push_fill (q h pos : List K) (n : ℕ) (x : K) (c : n + 1 < q.length) :
    (⟨q, n, h, pos⟩ : P2 K).push x = ⟨q, n + 1, h ++ [x], pos⟩ := by
  simp only [P2.push]; split_ifs with a b
  exacts [rfl, absurd c a, absurd c a]

theorem P2.push_sort (q h pos : List K) (n : ℕ) (x : K) (c : n + 1 = q.length) :
    (⟨q, n, h, pos⟩ : P2 K).push x =
      ⟨q, n + 1, (adjustAll q n (sortK (h ++ [x])) pos).1, (adjustAll q n (sortK (h ++ [x])) pos).2⟩ := by
  have c' : ¬ (n + 1 < q.length) := by omega
  simp only [P2.push]; split_ifs with a b
  exacts [absurd a c', rfl, absurd c b]

theorem P2.push_place (q h pos : List K) (n : ℕ) (x : K) (c : q.length < n + 1) :
    (⟨q, n, h, pos⟩ : P2 K).push x =
      ⟨q, n + 1, (adjustAll q n (placeObs h pos x).1 (placeObs h pos x).2).1,
        (adjustAll q n (placeObs h pos x).1 (placeObs h pos x).2).2⟩ := by
  have c1 : ¬ (n + 1 < q.length) := by omega
  have c2 : ¬ (n + 1 = q.length) := by omega
  simp only [P2.push]; split_ifs with a b
  exacts [absurd a c1, absurd b c2, rfl]

theorem sortK_of_sorted {l : List K} (h : List.Pairwise (· ≤ ·) l) : sortK l = l :=
  List.mergeSort_of_pairwise (h.imp fun h => by simpa using h)

/-! ### `np.interp` -/

theorem nth_map (l : List K) (f : K → K) {j : ℕ} (hj : j < l.length) :
    nth (l.map f) j = f (nth l j) := by
  simp [nth, hj]

/-- slope of cell `j` -/
def cellSlope (xp fp : List K) (j : ℕ) : K :=
  (nth fp (j + 1) - nth fp j) / (nth xp (j + 1) - nth xp j)

/-- the index selected by `interp` when `xp[0] ≤ x`: the last `j` with `xp[j] ≤ x` -/
theorem interp_index (x : K) (xp : List K) (h0 : nth xp 0 ≤ x) (hm : 1 ≤ xp.length) :
    let j := ((List.range xp.length).filter fun j => decide (nth xp j ≤ x)).getLastD 0
    j < xp.length ∧ nth xp j ≤ x ∧ ∀ k, j < k → k < xp.length → x < nth xp k := by
  intro j
  set L := (List.range xp.length).filter fun j => decide (nth xp j ≤ x) with hL
  have hmem : ∀ k, k ∈ L ↔ k < xp.length ∧ nth xp k ≤ x := by
    intro k; simp [hL]
  have hne : L ≠ [] := List.ne_nil_of_mem ((hmem 0).mpr ⟨by omega, h0⟩)
  have hj : j = L.getLast hne := by
    show L.getLastD 0 = _
    rw [List.getLastD_eq_getLast?, List.getLast?_eq_some_getLast hne]; rfl
  have hjm : j ∈ L := hj ▸ List.getLast_mem hne
  have hsorted : List.Pairwise (· ≤ ·) L :=
    ((List.pairwise_lt_range (n := xp.length)).filter _).imp (fun h => Nat.le_of_lt h)
  refine ⟨((hmem j).mp hjm).1, ((hmem j).mp hjm).2, fun k hjk hk => ?_⟩
  by_contra hc
  have hkL : k ∈ L := (hmem k).mpr ⟨hk, not_lt.mp hc⟩
  have : k ≤ L.getLast _ := hsorted.rel_getLast hkL
  omega

/-- the three cases of `np.interp` -/
theorem interp_cases (x : K) (xp fp : List K) (hm : 1 ≤ xp.length) :
    (x < nth xp 0 ∧ interp x xp fp = nth fp 0) ∨
    (nth xp (xp.length - 1) < x ∧ interp x xp fp = nth fp (xp.length - 1)) ∨
    (∃ j, j < xp.length ∧ nth xp j ≤ x ∧ (∀ k, j < k → k < xp.length → x < nth xp k) ∧
      (j + 1 = xp.length → interp x xp fp = nth fp j) ∧
      (j + 1 < xp.length → interp x xp fp = cellSlope xp fp j * (x - nth xp j) + nth fp j)) := by
  by_cases c0 : x < nth xp 0
  · left; exact ⟨c0, by simp only [interp, if_pos c0]⟩
  by_cases c1 : nth xp (xp.length - 1) < x
  · right; left; exact ⟨c1, by simp only [interp, if_neg c0, if_pos c1]⟩
  right; right
  obtain ⟨hj, hle, hgt⟩ := interp_index x xp (not_lt.mp c0) hm
  refine ⟨_, hj, hle, hgt, ?_, ?_⟩
  · intro e
    simp only [interp, if_neg c0, if_neg c1]
    rw [if_pos (by omega)]
  · intro e
    simp only [interp, if_neg c0, if_neg c1]
    rw [if_neg (by omega)]
    split_ifs with c2
    · rfl
    · have : x = nth xp _ := le_antisymm (not_lt.mp c2) hle
      rw [← this, sub_self, mul_zero, zero_add]

theorem interp_range (x : K) (xp fp : List K)
    (hfp : List.Pairwise (· ≤ ·) fp) (hlen : fp.length = xp.length) (hm : 1 ≤ xp.length) :
    nth fp 0 ≤ interp x xp fp ∧ interp x xp fp ≤ nth fp (xp.length - 1) := by
  have fmono : ∀ i j, i ≤ j → j < xp.length → nth fp i ≤ nth fp j := by
    intro i j hij hj
    rcases Nat.lt_or_eq_of_le hij with h | h
    · exact pairwise_nth.mp hfp i j h (by omega)
    · subst h; exact le_rfl
  rcases interp_cases x xp fp hm with ⟨_, e⟩ | ⟨_, e⟩ | ⟨j, hj, hle, hgt, e1, e2⟩
  · rw [e]; exact ⟨le_rfl, fmono _ _ (Nat.zero_le _) (by omega)⟩
  · rw [e]; exact ⟨fmono _ _ (Nat.zero_le _) (by omega), le_rfl⟩
  · rcases Nat.lt_or_ge (j + 1) xp.length with h | h
    · rw [e2 h]
      have hx1 := hgt (j + 1) (by omega) h
      have hf := fmono j (j + 1) (by omega) h
      have hden : 0 < nth xp (j + 1) - nth xp j := by linarith
      have hs : 0 ≤ cellSlope xp fp j := div_nonneg (by linarith) hden.le
      have hup : cellSlope xp fp j * (x - nth xp j) ≤ nth fp (j + 1) - nth fp j := by
        calc cellSlope xp fp j * (x - nth xp j)
            ≤ cellSlope xp fp j * (nth xp (j + 1) - nth xp j) :=
              mul_le_mul_of_nonneg_left (by linarith) hs
          _ = nth fp (j + 1) - nth fp j := div_mul_cancel₀ _ hden.ne'
      have hlo : 0 ≤ cellSlope xp fp j * (x - nth xp j) := mul_nonneg hs (by linarith)
      have := fmono 0 j (Nat.zero_le _) hj
      have := fmono (j + 1) (xp.length - 1) (by omega) (by omega)
      constructor <;> linarith
    · rw [e1 (by omega)]
      exact ⟨fmono _ _ (Nat.zero_le _) hj, fmono _ _ (by omega) (by omega)⟩

theorem cellSlope_nonneg {xp fp : List K} {j : ℕ} (hf : nth fp j ≤ nth fp (j + 1))
    (hx : nth xp j < nth xp (j + 1)) : 0 ≤ cellSlope xp fp j :=
  div_nonneg (by linarith) (by linarith)

/-- inside cell `j` the interpolated value lies between `fp[j]` and `fp[j+1]` -/
theorem cell_bounds {xp fp : List K} {j : ℕ} {x : K} (hf : nth fp j ≤ nth fp (j + 1))
    (h0 : nth xp j ≤ x) (h1 : x < nth xp (j + 1)) :
    nth fp j ≤ cellSlope xp fp j * (x - nth xp j) + nth fp j ∧
      cellSlope xp fp j * (x - nth xp j) + nth fp j ≤ nth fp (j + 1) := by
  have hden : 0 < nth xp (j + 1) - nth xp j := by linarith
  have hs : 0 ≤ cellSlope xp fp j := cellSlope_nonneg hf (by linarith)
  have hup : cellSlope xp fp j * (x - nth xp j) ≤ nth fp (j + 1) - nth fp j := by
    calc cellSlope xp fp j * (x - nth xp j)
        ≤ cellSlope xp fp j * (nth xp (j + 1) - nth xp j) :=
          mul_le_mul_of_nonneg_left (by linarith) hs
      _ = nth fp (j + 1) - nth fp j := div_mul_cancel₀ _ hden.ne'
  have hlo : 0 ≤ cellSlope xp fp j * (x - nth xp j) := mul_nonneg hs (by linarith)
  constructor <;> linarith

theorem interp_mono (x y : K) (xp fp : List K)
    (hfp : List.Pairwise (· ≤ ·) fp) (hlen : fp.length = xp.length) (hm : 1 ≤ xp.length)
    (hxy : x ≤ y) : interp x xp fp ≤ interp y xp fp := by
  have fmono : ∀ i j, i ≤ j → j < xp.length → nth fp i ≤ nth fp j := by
    intro i j hij hj
    rcases Nat.lt_or_eq_of_le hij with h | h
    · exact pairwise_nth.mp hfp i j h (by omega)
    · subst h; exact le_rfl
  have rx := interp_range x xp fp hfp hlen hm
  have ry := interp_range y xp fp hfp hlen hm
  by_cases c0 : x < nth xp 0
  · have : interp x xp fp = nth fp 0 := by simp only [interp, if_pos c0]
    rw [this]; exact ry.1
  rcases interp_cases y xp fp hm with ⟨cy, _⟩ | ⟨_, ey⟩ | ⟨jy, hjy, hley, hgty, ey1, ey2⟩
  · exact absurd (lt_of_le_of_lt hxy cy) c0
  · rw [ey]; exact rx.2
  rcases interp_cases x xp fp hm with ⟨cx, _⟩ | ⟨cx, ex⟩ | ⟨jx, hjx, hlex, hgtx, ex1, ex2⟩
  · exact absurd cx c0
  · have hj : jy + 1 = xp.length := by
      by_contra h
      have := hgty (xp.length - 1) (by omega) (by omega)
      linarith
    have hj' : jy = xp.length - 1 := by omega
    rw [ey1 hj, hj']; exact rx.2
  · have hjj : jx ≤ jy := by
      by_contra h
      have := hgty jx (by omega) hjx
      linarith
    rcases Nat.lt_or_eq_of_le hjj with h | h
    · have h1 : jx + 1 < xp.length := by omega
      have bx := cell_bounds (fp := fp) (fmono jx (jx + 1) (by omega) h1) hlex (hgtx (jx + 1) (by omega) h1)
      have hmid := fmono (jx + 1) jy (by omega) hjy
      have hy : nth fp jy ≤ interp y xp fp := by
        rcases Nat.lt_or_ge (jy + 1) xp.length with h2 | h2
        · rw [ey2 h2]
          exact (cell_bounds (fp := fp) (fmono jy (jy + 1) (by omega) h2) hley (hgty (jy + 1) (by omega) h2)).1
        · rw [ey1 (by omega)]
      rw [ex2 h1]; linarith [bx.2]
    · subst h
      rcases Nat.lt_or_ge (jx + 1) xp.length with h1 | h1
      · rw [ex2 h1, ey2 h1]
        have hs : 0 ≤ cellSlope xp fp jx :=
          cellSlope_nonneg (fmono jx (jx + 1) (by omega) h1)
            (lt_of_le_of_lt hlex (hgtx (jx + 1) (by omega) h1))
        have := mul_le_mul_of_nonneg_left (sub_le_sub_right hxy (nth xp jx)) hs
        linarith
      · rw [ex1 (by omega), ey1 (by omega)]
end Gpv
