/-
  Rounding-error analysis of the VARIANCE merge (Chan et al. pooled update)
      dmean  = self.mean.value - other.mean.value
      newn   = self.n + other.n
      newvar = self.var.sum + other.var.sum + dmean ** 2 * self.n * other.n / newn
      self.var = Mean(value=newvar / newn, n=newn)
  (`Variance._accumulate_other`, accumulators.py; `Variance.merge`, Gpv/Model/Accum.lean;
  `.sum` is the rounded product `_val * n`) in the standard model of
  `Gpv/Proofs/FloatMean.lean` (`Rnd u e r : r = e (1 + δ), |δ| ≤ u`).

  Ten floating-point operations, each rounded once, δ's arbitrary and independent; the
  integer counts `n`, `m`, `newn = n + m` are exact:
      d  = fl(a − b)         sa = fl(va · n)       sb = fl(vb · m)
      q  = fl(d · d)         q1 = fl(q · n)        q2 = fl(q1 · m)      q3 = fl(q2 / newn)
      s1 = fl(sa + sb)       s2 = fl(s1 + q3)      r  = fl(s2 / newn)
  (`dmean ** 2` is modelled as the single rounded product `dmean * dmean`; `*`, `/` associate
  to the left, so `dmean ** 2 * n * m / newn = ((dmean² · n) · m) / newn`; the two additions
  are evaluated left to right.)

  Every term of the exact result
      N·V = n·va + m·vb + (a − b)²·n·m/N ,   N = n + m
  is multiplied by a product of `1 + δ`'s: four for the two `.sum` terms, eight for the
  `dmean` term (`(1+δ_d)²` from the rounded difference entering twice).  That is
  `FlVarMerge.expand`; everything else is inequalities.
-/
import Gpv.Proofs.FloatMerge
import Gpv.Proofs.FloatVar
set_option linter.unusedSectionVars false

namespace Gpv
variable {K : Type} [Field K] [LinearOrder K] [IsStrictOrderedRing K]

/-! ### accumulated relative errors, continued from `FloatMerge.lean` -/

/-- one more rounding: `(1+u)^k − 1` becomes `(1+u)^(k+1) − 1` -/
theorem abs_mul_one_add_sub_one {u t δ : K} {k : ℕ} (ht : |t - 1| ≤ (1 + u) ^ k - 1)
    (hδ : |δ| ≤ u) : |t * (1 + δ) - 1| ≤ (1 + u) ^ (k + 1) - 1 := by
  have := abs_mul_sub_one (a := t) (b := 1 + δ) ht (by simpa using hδ)
  calc |t * (1 + δ) - 1| ≤ (1 + ((1 + u) ^ k - 1)) * (1 + u) - 1 := this
    _ = (1 + u) ^ (k + 1) - 1 := by ring

theorem abs_prod4_sub_one {u δ1 δ2 δ3 δ4 : K} (h1 : |δ1| ≤ u) (h2 : |δ2| ≤ u) (h3 : |δ3| ≤ u)
    (h4 : |δ4| ≤ u) : |(1 + δ1) * (1 + δ2) * (1 + δ3) * (1 + δ4) - 1| ≤ (1 + u) ^ 4 - 1 :=
  abs_mul_one_add_sub_one (abs_prod3_sub_one h1 h2 h3) h4

/-- the eight roundings that hit the `dmean` term: the rounded difference enters squared -/
theorem abs_prod8_sub_one {u δ1 δ4 δ5 δ6 δ7 δ9 δ10 : K} (h1 : |δ1| ≤ u) (h4 : |δ4| ≤ u)
    (h5 : |δ5| ≤ u) (h6 : |δ6| ≤ u) (h7 : |δ7| ≤ u) (h9 : |δ9| ≤ u) (h10 : |δ10| ≤ u) :
    |(1 + δ1) * (1 + δ1) * (1 + δ4) * (1 + δ5) * (1 + δ6) * (1 + δ7) * (1 + δ9) * (1 + δ10) - 1|
      ≤ (1 + u) ^ 8 - 1 :=
  abs_mul_one_add_sub_one (abs_mul_one_add_sub_one (abs_mul_one_add_sub_one
    (abs_mul_one_add_sub_one (abs_mul_one_add_sub_one (abs_prod3_sub_one h1 h1 h4) h5) h6) h7) h9) h10

theorem one_add_nonneg_of_abs_le {u δ : K} (h : |δ| ≤ u) (hu1 : u ≤ 1) : 0 ≤ 1 + δ := by
  have := (abs_le.mp h).1
  linarith

theorem gam_nonneg {u : K} (hu : 0 ≤ u) (k : ℕ) : 0 ≤ (1 + u) ^ k - 1 := by
  have : (1 : K) ≤ (1 + u) ^ k := one_le_pow₀ (by linarith)
  linarith

theorem gam_mono {u : K} (hu : 0 ≤ u) {k l : ℕ} (h : k ≤ l) : (1 + u) ^ k - 1 ≤ (1 + u) ^ l - 1 := by
  have : (1 + u) ^ k ≤ (1 + u) ^ l := pow_le_pow_right₀ (by linarith) h
  linarith

/-- `|t| ≤ (1+u)^k` from `|t − 1| ≤ (1+u)^k − 1` -/
theorem abs_le_pow_of_sub_one {u t : K} {k : ℕ} (h : |t - 1| ≤ (1 + u) ^ k - 1) :
    |t| ≤ (1 + u) ^ k := by
  have := abs_le_of_sub_one h
  linarith

/-- `(1+u)⁴ − 1 = u (4 + 6u + 4u² + u³)` -/
theorem gam4_eq (u : K) : (1 + u) ^ 4 - 1 = u * (4 + 6 * u + 4 * u ^ 2 + u ^ 3) := by ring

/-- `(1+u)⁸ − 1 = u (8 + 28u + 56u² + 70u³ + 56u⁴ + 28u⁵ + 8u⁶ + u⁷)` -/
theorem gam8_eq (u : K) : (1 + u) ^ 8 - 1
    = u * (8 + 28 * u + 56 * u ^ 2 + 70 * u ^ 3 + 56 * u ^ 4 + 28 * u ^ 5 + 8 * u ^ 6 + u ^ 7) := by
  ring

theorem pow_le_of_le {u c : K} (hu : 0 ≤ u) (h : u ≤ c) (k : ℕ) : u ^ k ≤ c ^ k :=
  pow_le_pow_left₀ hu h k

/-- `(1+u)⁸ − 1 ≤ 13·u` for `u ≤ 1/8` (the true factor at `u = 1/8` is 12.53) -/
theorem gam8_le_eighth {u : K} (hu : 0 ≤ u) (h : u ≤ 1 / 8) : (1 + u) ^ 8 - 1 ≤ 13 * u := by
  rw [gam8_eq]
  have p2 := pow_le_of_le hu h 2
  have p3 := pow_le_of_le hu h 3
  have p4 := pow_le_of_le hu h 4
  have p5 := pow_le_of_le hu h 5
  have p6 := pow_le_of_le hu h 6
  have p7 := pow_le_of_le hu h 7
  have : 8 + 28 * u + 56 * u ^ 2 + 70 * u ^ 3 + 56 * u ^ 4 + 28 * u ^ 5 + 8 * u ^ 6 + u ^ 7 ≤ 13 := by
    norm_num at p2 p3 p4 p5 p6 p7
    linarith
  calc u * _ ≤ u * 13 := mul_le_mul_of_nonneg_left this hu
    _ = 13 * u := by ring

/-- `(1+u)⁸ − 1 ≤ (17/2)·u` for `u ≤ 1/64` (the true factor at `u = 1/64` is 8.452) -/
theorem gam8_le_64th {u : K} (hu : 0 ≤ u) (h : u ≤ 1 / 64) : (1 + u) ^ 8 - 1 ≤ 17 / 2 * u := by
  rw [gam8_eq]
  have p2 := pow_le_of_le hu h 2
  have p3 := pow_le_of_le hu h 3
  have p4 := pow_le_of_le hu h 4
  have p5 := pow_le_of_le hu h 5
  have p6 := pow_le_of_le hu h 6
  have p7 := pow_le_of_le hu h 7
  have : 8 + 28 * u + 56 * u ^ 2 + 70 * u ^ 3 + 56 * u ^ 4 + 28 * u ^ 5 + 8 * u ^ 6 + u ^ 7
      ≤ 17 / 2 := by
    norm_num at p2 p3 p4 p5 p6 p7
    linarith
  calc u * _ ≤ u * (17 / 2) := mul_le_mul_of_nonneg_left this hu
    _ = 17 / 2 * u := by ring

/-- `(1+u)⁴ − 1 ≤ (33/8)·u` for `u ≤ 1/64` -/
theorem gam4_le_64th {u : K} (hu : 0 ≤ u) (h : u ≤ 1 / 64) : (1 + u) ^ 4 - 1 ≤ 33 / 8 * u := by
  rw [gam4_eq]
  have p2 := pow_le_of_le hu h 2
  have p3 := pow_le_of_le hu h 3
  have : 4 + 6 * u + 4 * u ^ 2 + u ^ 3 ≤ 33 / 8 := by
    norm_num at p2 p3
    linarith
  calc u * _ ≤ u * (33 / 8) := mul_le_mul_of_nonneg_left this hu
    _ = 33 / 8 * u := by ring

/-! ### the variance merge in the standard model -/

/-- `r` is a possible floating-point value of the new population variance
    `(va·n + vb·m + (a − b)²·n·m / newn) / newn`, `newn = n + m`, when merging
    (mean `a`, population variance `va`, count `n`) with (mean `b`, population variance `vb`,
    count `m`); the ten operations in the order Python evaluates them -/
def FlVarMerge (u a va : K) (n : ℕ) (b vb : K) (m : ℕ) (r : K) : Prop :=
  ∃ d sa sb q q1 q2 q3 s1 s2 : K,
    Rnd u (a - b) d ∧ Rnd u (va * (n : K)) sa ∧ Rnd u (vb * (m : K)) sb
      ∧ Rnd u (d * d) q ∧ Rnd u (q * (n : K)) q1 ∧ Rnd u (q1 * (m : K)) q2
      ∧ Rnd u (q2 / ((n + m : ℕ) : K)) q3
      ∧ Rnd u (sa + sb) s1 ∧ Rnd u (s1 + q3) s2 ∧ Rnd u (s2 / ((n + m : ℕ) : K)) r

/-- the exact value of the merged population variance, as the source computes it -/
def varMergeVal (a va : K) (n : ℕ) (b vb : K) (m : ℕ) : K :=
  (va * (n : K) + vb * (m : K) + (a - b) * (a - b) * (n : K) * (m : K) / ((n + m : ℕ) : K))
    / ((n + m : ℕ) : K)

theorem varMergeVal_eq (a va b vb : K) (n m : ℕ) :
    varMergeVal a va n b vb m
      = ((n : K) * va + (m : K) * vb + (a - b) ^ 2 * (n : K) * (m : K) / ((n + m : ℕ) : K))
          / ((n + m : ℕ) : K) := by
  unfold varMergeVal
  ring

/-- the model's `Variance.merge` computes `varMergeVal` in its `var` component (when
    `newn ≠ 0`), and merges the means with `Mean.merge` -/
theorem Variance.merge_var_val (a va b vb : K) {n m : ℕ} (h : n + m ≠ 0) :
    ((⟨⟨a, n⟩, ⟨va, n⟩⟩ : Variance K).merge ⟨⟨b, m⟩, ⟨vb, m⟩⟩).var.val = varMergeVal a va n b vb m
      ∧ ((⟨⟨a, n⟩, ⟨va, n⟩⟩ : Variance K).merge ⟨⟨b, m⟩, ⟨vb, m⟩⟩).var.n = n + m
      ∧ ((⟨⟨a, n⟩, ⟨va, n⟩⟩ : Variance K).merge ⟨⟨b, m⟩, ⟨vb, m⟩⟩).mean
          = (⟨a, n⟩ : Mean K).merge ⟨b, m⟩ := by
  have h' : (⟨⟨a, n⟩, ⟨va, n⟩⟩ : Variance K).n + (⟨⟨b, m⟩, ⟨vb, m⟩⟩ : Variance K).n ≠ 0 := h
  unfold Variance.merge varMergeVal
  simp only [if_neg h']
  simp only [Variance.n, Mean.sum, and_self]

theorem FlVarMerge.mono {u u' : K} (h : u ≤ u') {a va b vb r : K} {n m : ℕ} :
    FlVarMerge u a va n b vb m r → FlVarMerge u' a va n b vb m r := by
  rintro ⟨d, sa, sb, q, q1, q2, q3, s1, s2, h1, h2, h3, h4, h5, h6, h7, h8, h9, h10⟩
  exact ⟨d, sa, sb, q, q1, q2, q3, s1, s2, h1.mono h, h2.mono h, h3.mono h, h4.mono h, h5.mono h,
    h6.mono h, h7.mono h, h8.mono h, h9.mono h, h10.mono h⟩

theorem FlVarMerge.of_exact {u : K} (hu : 0 ≤ u) (a va : K) (n : ℕ) (b vb : K) (m : ℕ) :
    FlVarMerge u a va n b vb m (varMergeVal a va n b vb m) :=
  ⟨_, _, _, _, _, _, _, _, _, Rnd.exact hu _, Rnd.exact hu _, Rnd.exact hu _, Rnd.exact hu _,
    Rnd.exact hu _, Rnd.exact hu _, Rnd.exact hu _, Rnd.exact hu _, Rnd.exact hu _, Rnd.exact hu _⟩

theorem flVarMerge_zero_iff (a va : K) (n : ℕ) (b vb : K) (m : ℕ) (r : K) :
    FlVarMerge 0 a va n b vb m r ↔ r = varMergeVal a va n b vb m := by
  constructor
  · rintro ⟨d, sa, sb, q, q1, q2, q3, s1, s2, h1, h2, h3, h4, h5, h6, h7, h8, h9, h10⟩
    rw [rnd_zero_iff] at h1 h2 h3 h4 h5 h6 h7 h8 h9 h10
    subst h1 h2 h3 h4 h5 h6 h7 h8 h9; exact h10
  · rintro rfl; exact FlVarMerge.of_exact le_rfl a va n b vb m

/-- a merge with explicit relative errors, one per operation -/
theorem flVarMerge_of_deltas {u : K} (a va : K) (n : ℕ) (b vb : K) (m : ℕ)
    (δ1 δ2 δ3 δ4 δ5 δ6 δ7 δ8 δ9 δ10 : K)
    (h1 : |δ1| ≤ u) (h2 : |δ2| ≤ u) (h3 : |δ3| ≤ u) (h4 : |δ4| ≤ u) (h5 : |δ5| ≤ u)
    (h6 : |δ6| ≤ u) (h7 : |δ7| ≤ u) (h8 : |δ8| ≤ u) (h9 : |δ9| ≤ u) (h10 : |δ10| ≤ u) :
    FlVarMerge u a va n b vb m
      (((va * (n : K) * (1 + δ2) + vb * (m : K) * (1 + δ3)) * (1 + δ8)
          + (a - b) * (1 + δ1) * ((a - b) * (1 + δ1)) * (1 + δ4) * (n : K) * (1 + δ5) * (m : K)
              * (1 + δ6) / ((n + m : ℕ) : K) * (1 + δ7)) * (1 + δ9)
        / ((n + m : ℕ) : K) * (1 + δ10)) :=
  ⟨_, _, _, _, _, _, _, _, _, ⟨δ1, h1, rfl⟩, ⟨δ2, h2, rfl⟩, ⟨δ3, h3, rfl⟩, ⟨δ4, h4, rfl⟩,
    ⟨δ5, h5, rfl⟩, ⟨δ6, h6, rfl⟩, ⟨δ7, h7, rfl⟩, ⟨δ8, h8, rfl⟩, ⟨δ9, h9, rfl⟩, ⟨δ10, h10, rfl⟩⟩

/-- the identity behind all bounds: `N·r` is the exact `N·V` with each of its three terms
    multiplied by its own product of roundings -/
theorem var_merge_identity (N n m a b va vb δ1 δ2 δ3 δ4 δ5 δ6 δ7 δ8 δ9 δ10 : K) (hN : N ≠ 0) :
    N * (((va * n * (1 + δ2) + vb * m * (1 + δ3)) * (1 + δ8)
          + (a - b) * (1 + δ1) * ((a - b) * (1 + δ1)) * (1 + δ4) * n * (1 + δ5) * m
              * (1 + δ6) / N * (1 + δ7)) * (1 + δ9) / N * (1 + δ10))
      = n * va * ((1 + δ2) * (1 + δ8) * (1 + δ9) * (1 + δ10))
        + m * vb * ((1 + δ3) * (1 + δ8) * (1 + δ9) * (1 + δ10))
        + (a - b) ^ 2 * (n * m / N)
          * ((1 + δ1) * (1 + δ1) * (1 + δ4) * (1 + δ5) * (1 + δ6) * (1 + δ7) * (1 + δ9) * (1 + δ10)) := by
  field_simp

/-- **the expansion.**  For every possible float merge there are three accumulated
    rounding factors `πa, πb` (four roundings each) and `πc` (eight roundings) with
    `N·r = n·va·πa + m·vb·πb + (a − b)²·(n·m/N)·πc`; for `u ≤ 1` they are non-negative -/
theorem FlVarMerge.expand {u a va b vb r : K} {n m : ℕ} (h : FlVarMerge u a va n b vb m r) :
    ∃ πa πb πc : K, |πa - 1| ≤ (1 + u) ^ 4 - 1 ∧ |πb - 1| ≤ (1 + u) ^ 4 - 1
      ∧ |πc - 1| ≤ (1 + u) ^ 8 - 1 ∧ (u ≤ 1 → 0 ≤ πa ∧ 0 ≤ πb ∧ 0 ≤ πc)
      ∧ ((n + m : ℕ) : K) * r
          = (n : K) * va * πa + (m : K) * vb * πb
            + (a - b) ^ 2 * ((n : K) * (m : K) / ((n + m : ℕ) : K)) * πc := by
  obtain ⟨d, sa, sb, q, q1, q2, q3, s1, s2, ⟨δ1, h1, rfl⟩, ⟨δ2, h2, rfl⟩, ⟨δ3, h3, rfl⟩,
    ⟨δ4, h4, rfl⟩, ⟨δ5, h5, rfl⟩, ⟨δ6, h6, rfl⟩, ⟨δ7, h7, rfl⟩, ⟨δ8, h8, rfl⟩, ⟨δ9, h9, rfl⟩,
    ⟨δ10, h10, rfl⟩⟩ := h
  refine ⟨(1 + δ2) * (1 + δ8) * (1 + δ9) * (1 + δ10), (1 + δ3) * (1 + δ8) * (1 + δ9) * (1 + δ10),
    (1 + δ1) * (1 + δ1) * (1 + δ4) * (1 + δ5) * (1 + δ6) * (1 + δ7) * (1 + δ9) * (1 + δ10),
    abs_prod4_sub_one h2 h8 h9 h10, abs_prod4_sub_one h3 h8 h9 h10,
    abs_prod8_sub_one h1 h4 h5 h6 h7 h9 h10, ?_, ?_⟩
  · intro hu1
    have p1 := one_add_nonneg_of_abs_le h1 hu1
    have p2 := one_add_nonneg_of_abs_le h2 hu1
    have p3 := one_add_nonneg_of_abs_le h3 hu1
    have p4 := one_add_nonneg_of_abs_le h4 hu1
    have p5 := one_add_nonneg_of_abs_le h5 hu1
    have p6 := one_add_nonneg_of_abs_le h6 hu1
    have p7 := one_add_nonneg_of_abs_le h7 hu1
    have p8 := one_add_nonneg_of_abs_le h8 hu1
    have p9 := one_add_nonneg_of_abs_le h9 hu1
    have p10 := one_add_nonneg_of_abs_le h10 hu1
    exact ⟨by positivity, by positivity, by positivity⟩
  · rcases Nat.eq_zero_or_pos (n + m) with h0 | hpos
    · have hn : n = 0 := by omega
      have hm : m = 0 := by omega
      subst hn hm; simp
    · have hN : ((n + m : ℕ) : K) ≠ 0 := Nat.cast_ne_zero.mpr (by omega)
      exact var_merge_identity _ _ _ _ _ _ _ _ _ _ _ _ _ _ _ _ _ hN

/-! ### the bounds -/

/-- `|x² − D²| ≤ 2|D|E + E²` when `|x − D| ≤ E` -/
theorem abs_sq_sub_sq_le {x D E : K} (h : |x - D| ≤ E) : |x ^ 2 - D ^ 2| ≤ 2 * |D| * E + E ^ 2 := by
  have hE : 0 ≤ E := (abs_nonneg _).trans h
  have e : x ^ 2 - D ^ 2 = 2 * D * (x - D) + (x - D) ^ 2 := by ring
  rw [e]
  calc |2 * D * (x - D) + (x - D) ^ 2| ≤ |2 * D * (x - D)| + |(x - D) ^ 2| := abs_add_le _ _
    _ = 2 * |D| * |x - D| + |x - D| ^ 2 := by
        rw [abs_mul, abs_mul, abs_two, abs_pow]
    _ ≤ 2 * |D| * E + E ^ 2 := by
        apply add_le_add
        · exact mul_le_mul_of_nonneg_left h (by positivity)
        · exact pow_le_pow_left₀ (abs_nonneg _) h 2

/-- a perturbed term: `|x·π − S| ≤ γ|S| + (1+γ)·B` when `|x − S| ≤ B`, `|π − 1| ≤ γ` -/
theorem term_bound {x S B π γ : K} (hx : |x - S| ≤ B) (hπ : |π - 1| ≤ γ) :
    |x * π - S| ≤ γ * |S| + (1 + γ) * B := by
  have hB : 0 ≤ B := (abs_nonneg _).trans hx
  have hπ' : |π| ≤ 1 + γ := abs_le_of_sub_one hπ
  have e : x * π - S = S * (π - 1) + (x - S) * π := by ring
  rw [e]
  calc |S * (π - 1) + (x - S) * π| ≤ |S * (π - 1)| + |(x - S) * π| := abs_add_le _ _
    _ = |S| * |π - 1| + |x - S| * |π| := by rw [abs_mul, abs_mul]
    _ ≤ |S| * γ + B * (1 + γ) :=
        add_le_add (mul_le_mul_of_nonneg_left hπ (abs_nonneg _))
          (mul_le_mul hx hπ' (abs_nonneg _) hB)
    _ = γ * |S| + (1 + γ) * B := by ring

/-- **composition (division-free).**  The operands may themselves be approximations:
    `n·va ≈ Sa` within `Ba`, `m·vb ≈ Sb` within `Bb`, `a − b ≈ D` within `Ed`.  Then `N·r`
    approximates `Sa + Sb + D²·n·m/N` within
      `γ₄(|Sa| + |Sb|) + γ₈·D²·n·m/N + (1+u)⁴(Ba + Bb) + (1+u)⁸(2|D|·Ed + Ed²)·n·m/N`,
    `γ_k = (1+u)^k − 1`.  No sign or smallness hypotheses. -/
theorem FlVarMerge.compose {u a va b vb r Sa Sb D Ba Bb Ed : K} {n m : ℕ}
    (h : FlVarMerge u a va n b vb m r)
    (h1 : |(n : K) * va - Sa| ≤ Ba) (h2 : |(m : K) * vb - Sb| ≤ Bb) (h3 : |(a - b) - D| ≤ Ed) :
    |((n + m : ℕ) : K) * r - (Sa + Sb + D ^ 2 * ((n : K) * (m : K) / ((n + m : ℕ) : K)))|
      ≤ ((1 + u) ^ 4 - 1) * (|Sa| + |Sb|)
        + ((1 + u) ^ 8 - 1) * (D ^ 2 * ((n : K) * (m : K) / ((n + m : ℕ) : K)))
        + (1 + u) ^ 4 * (Ba + Bb)
        + (1 + u) ^ 8 * ((2 * |D| * Ed + Ed ^ 2) * ((n : K) * (m : K) / ((n + m : ℕ) : K))) := by
  obtain ⟨πa, πb, πc, ha, hb, hc, _, hr⟩ := h.expand
  rw [hr]
  have hw : 0 ≤ (n : K) * (m : K) / ((n + m : ℕ) : K) :=
    div_nonneg (mul_nonneg (Nat.cast_nonneg n) (Nat.cast_nonneg m)) (Nat.cast_nonneg _)
  set w : K := (n : K) * (m : K) / ((n + m : ℕ) : K) with hwdef
  have t1 := term_bound h1 ha
  have t2 := term_bound h2 hb
  have hsq := abs_sq_sub_sq_le h3
  have h3' : |(a - b) ^ 2 * w - D ^ 2 * w| ≤ (2 * |D| * Ed + Ed ^ 2) * w := by
    have e : (a - b) ^ 2 * w - D ^ 2 * w = ((a - b) ^ 2 - D ^ 2) * w := by ring
    rw [e, abs_mul, abs_of_nonneg hw]
    exact mul_le_mul_of_nonneg_right hsq hw
  have t3 := term_bound h3' hc
  have hD2w : |D ^ 2 * w| = D ^ 2 * w := abs_of_nonneg (mul_nonneg (sq_nonneg D) hw)
  rw [hD2w] at t3
  have e : (n : K) * va * πa + (m : K) * vb * πb + (a - b) ^ 2 * w * πc - (Sa + Sb + D ^ 2 * w)
      = ((n : K) * va * πa - Sa) + ((m : K) * vb * πb - Sb) + ((a - b) ^ 2 * w * πc - D ^ 2 * w) := by
    ring
  rw [e]
  calc _ ≤ |(n : K) * va * πa - Sa| + |(m : K) * vb * πb - Sb| + |(a - b) ^ 2 * w * πc - D ^ 2 * w| :=
        (abs_add_le _ _).trans (add_le_add (abs_add_le _ _) le_rfl)
    _ ≤ (((1 + u) ^ 4 - 1) * |Sa| + (1 + ((1 + u) ^ 4 - 1)) * Ba)
        + (((1 + u) ^ 4 - 1) * |Sb| + (1 + ((1 + u) ^ 4 - 1)) * Bb)
        + (((1 + u) ^ 8 - 1) * (D ^ 2 * w) + (1 + ((1 + u) ^ 8 - 1)) * ((2 * |D| * Ed + Ed ^ 2) * w)) :=
        add_le_add (add_le_add t1 t2) t3
    _ = _ := by ring

/-- **exact operands, division-free**: `|N·r − N·V| ≤ γ₄(n|va| + m|vb|) + γ₈(a − b)²·n·m/N` -/
theorem FlVarMerge.defect {u a va b vb r : K} {n m : ℕ} (h : FlVarMerge u a va n b vb m r) :
    |((n + m : ℕ) : K) * r
        - ((n : K) * va + (m : K) * vb + (a - b) ^ 2 * ((n : K) * (m : K) / ((n + m : ℕ) : K)))|
      ≤ ((1 + u) ^ 4 - 1) * ((n : K) * |va| + (m : K) * |vb|)
        + ((1 + u) ^ 8 - 1) * ((a - b) ^ 2 * ((n : K) * (m : K) / ((n + m : ℕ) : K))) := by
  have := h.compose (Sa := (n : K) * va) (Sb := (m : K) * vb) (D := a - b) (Ba := 0) (Bb := 0) (Ed := 0)
    (by simp) (by simp) (by simp)
  have hn0 : (0 : K) ≤ (n : K) := Nat.cast_nonneg n
  have hm0 : (0 : K) ≤ (m : K) := Nat.cast_nonneg m
  rw [abs_mul (n : K) va, abs_mul (m : K) vb, abs_of_nonneg hn0, abs_of_nonneg hm0] at this
  refine this.trans (le_of_eq ?_)
  ring

/-- from `N·r` to `r` -/
theorem abs_sub_div_le_of_defect {N r T B : K} (hN : 0 < N) (h : |N * r - T| ≤ B) :
    |r - T / N| ≤ B / N := by
  have e : r - T / N = (N * r - T) / N := by field_simp
  rw [e, abs_div, abs_of_pos hN]
  exact div_le_div_of_nonneg_right h hN.le

/-- with non-negative variances (and `u ≤ 1`) the float merged variance is non-negative -/
theorem FlVarMerge.nonneg {u a va b vb r : K} {n m : ℕ} (hnm : n + m ≠ 0) (hu1 : u ≤ 1)
    (hva : 0 ≤ va) (hvb : 0 ≤ vb) (h : FlVarMerge u a va n b vb m r) : 0 ≤ r := by
  obtain ⟨πa, πb, πc, _, _, _, hpos, hr⟩ := h.expand
  obtain ⟨pa, pb, pc⟩ := hpos hu1
  have hN : (0 : K) < ((n + m : ℕ) : K) := Nat.cast_pos.mpr (by omega)
  have hn0 : (0 : K) ≤ (n : K) := Nat.cast_nonneg n
  have hm0 : (0 : K) ≤ (m : K) := Nat.cast_nonneg m
  have : 0 ≤ ((n + m : ℕ) : K) * r := by
    rw [hr]; positivity
  exact nonneg_of_mul_nonneg_right this hN

theorem FlVarMerge.u_nonneg {u a va b vb r : K} {n m : ℕ} (h : FlVarMerge u a va n b vb m r) :
    0 ≤ u := by
  obtain ⟨d, sa, sb, q, q1, q2, q3, s1, s2, ⟨δ1, h1, _⟩, _⟩ := h
  exact (abs_nonneg _).trans h1

/-! ### the exact merge of two exact runs -/

theorem Variance.eta_run (xs : List K) :
    Variance.run xs
      = ⟨⟨(Variance.run xs).mean.val, xs.length⟩, ⟨(Variance.run xs).var.val, xs.length⟩⟩ := by
  have hi := Variance.run_inv xs
  have h1 := hi.mean_n
  have h2 := hi.var_n
  rcases h : Variance.run xs with ⟨⟨a, n1⟩, ⟨v, n2⟩⟩
  rw [h] at h1 h2
  simp only at h1 h2
  subst h1 h2
  rfl

/-- the source formula applied to two exact Welford runs gives the `var` component of the
    exact run over the concatenation (this is C06 `variance_merge_eq`, read off at `var.val`) -/
theorem varMergeVal_run (xs ys : List K) :
    varMergeVal (Variance.run xs).mean.val (Variance.run xs).var.val xs.length
        (Variance.run ys).mean.val (Variance.run ys).var.val ys.length
      = (Variance.run (xs ++ ys)).var.val := by
  by_cases h : xs.length + ys.length = 0
  · have h1 : xs = [] := List.length_eq_zero_iff.mp (by omega)
    have h2 : ys = [] := List.length_eq_zero_iff.mp (by omega)
    subst h1 h2
    simp [varMergeVal, Variance.run, Variance.init, Mean.init]
  · have hv := (Variance.merge_var_val (K := K) (Variance.run xs).mean.val (Variance.run xs).var.val
      (Variance.run ys).mean.val (Variance.run ys).var.val h).1
    rw [← Variance.eta_run, ← Variance.eta_run, Variance.merge_run] at hv
    exact hv.symm

end Gpv
