/-
  Gpv.Proofs.P2Rounded — the marker-array invariant of the P² estimator for the generic model
  `Gpv.Model.P2` instantiated at ROUNDED arithmetic `K := Fl R` (see `Gpv.Proofs.Rounded`).

  This mirrors `Gpv.Proofs.P2Alg` (exact field) step by step: `adjustOne`, the fold `adjustAll`,
  `placeObs`, the initial `sortK`.  Differences to the exact case:

  * heights: order facts only, plus `linear_down` / `linear_up`, which need `Rounding.key`
    (the one place where the relative error bound enters);
  * ranks: they are images of naturals `z ≤ B ≤ N`, so every rank operation performed by the
    algorithm (`p ± 1`, `p_neighbour - p`) is exact by `int_exact`.
-/
import Gpv.Proofs.Rounded
import Mathlib.Data.List.Sort
import Mathlib.Order.Defs.LinearOrder
set_option linter.unusedSectionVars false

namespace Gpv.Rnd
open Gpv

/-! ### generic list facts (no arithmetic laws at all) -/

section generic
variable {K : Type} [NatCast K]

theorem nth_eq_getElem {l : List K} {i : ℕ} (h : i < l.length) : nth l i = l[i] := by
  simp [nth, h]

theorem nth_set_eq (l : List K) (i : ℕ) (a : K) (h : i < l.length) : nth (l.set i a) i = a := by
  simp [nth, h]

theorem nth_set_ne (l : List K) {i j : ℕ} (a : K) (h : i ≠ j) : nth (l.set i a) j = nth l j := by
  simp [nth, List.getElem?_set_ne h]

theorem set_nth_self (l : List K) (i : ℕ) : l.set i (nth l i) = l := by
  by_cases h : i < l.length
  · rw [nth_eq_getElem h]; exact List.set_getElem_self h
  · exact List.set_eq_of_length_le (by omega)

theorem nth_mapIdx (l : List K) (f : ℕ → K → K) {j : ℕ} (hj : j < l.length) :
    nth (l.mapIdx f) j = f j (nth l j) := by
  simp [nth, hj]

theorem chain_of_adjacent (r : K → K → Prop) (htr : ∀ a b c, r a b → r b c → r a c)
    (l : List K) (m : ℕ) (hadj : ∀ i, i + 1 < m → r (nth l i) (nth l (i + 1))) :
    ∀ i j, i < j → j < m → r (nth l i) (nth l j) := by
  intro i j hij
  induction j with
  | zero => omega
  | succ j ih =>
    intro hj
    rcases Nat.lt_succ_iff_lt_or_eq.mp hij with h | h
    · exact htr _ _ _ (ih h (by omega)) (hadj j hj)
    · subst h; exact hadj i hj

theorem pairwise_nth {r : K → K → Prop} {l : List K} :
    List.Pairwise r l ↔ ∀ i j, i < j → j < l.length → r (nth l i) (nth l j) := by
  rw [List.pairwise_iff_getElem]
  constructor
  · intro h i j hij hj
    rw [nth_eq_getElem (by omega), nth_eq_getElem hj]; exact h i j (by omega) hj hij
  · intro h i j hi hj hij
    have := h i j hij hj
    rwa [nth_eq_getElem hi, nth_eq_getElem hj] at this

theorem mem_iff_nth {l : List K} {y : K} : y ∈ l ↔ ∃ j, j < l.length ∧ y = nth l j := by
  rw [List.mem_iff_getElem]
  constructor
  · rintro ⟨j, hj, e⟩; exact ⟨j, hj, by rw [nth_eq_getElem hj, e]⟩
  · rintro ⟨j, hj, e⟩; exact ⟨j, hj, by rw [e, nth_eq_getElem hj]⟩

/-- the initial ranks `0, 1, …, m-1` -/
def initPos (K : Type) [NatCast K] (m : ℕ) : List K := (List.range m).map fun i => ((i : ℕ) : K)

theorem nth_initPos {m j : ℕ} (hj : j < m) : nth (initPos K m) j = ((j : ℕ) : K) := by
  simp [nth, initPos, hj]

end generic

section sorting
variable {K : Type} [LinearOrder K]

theorem sortK_perm (l : List K) : (sortK l).Perm l := List.mergeSort_perm _ _

theorem sortK_sorted (l : List K) : List.Pairwise (· ≤ ·) (sortK l) := by
  have := List.pairwise_mergeSort (le := fun a b : K => decide (a ≤ b))
    (fun a b c hab hbc => by simpa using le_trans (by simpa using hab) (by simpa using hbc))
    (fun a b => by simpa using le_total a b) l
  simpa [sortK] using this

end sorting

/-! ### the run, generically (no laws) -/

section run
variable {K : Type} [Add K] [Sub K] [Mul K] [Div K] [Neg K] [NatCast K]
  [LT K] [DecidableLT K] [LE K] [DecidableLE K]

theorem run_snoc (q xs : List K) (x : K) : P2.run q (xs ++ [x]) = (P2.run q xs).push x := by
  simp [P2.run, List.foldl_append]

@[simp] theorem push_q (s : P2 K) (x : K) : (s.push x).q = s.q := by
  simp only [P2.push]; split_ifs <;> rfl

@[simp] theorem push_n (s : P2 K) (x : K) : (s.push x).n = s.n + 1 := by
  simp only [P2.push]; split_ifs <;> rfl

@[simp] theorem run_q (q xs : List K) : (P2.run q xs).q = q := by
  induction xs using List.reverseRec with
  | nil => rfl
  | append_singleton xs x ih => rw [run_snoc, push_q, ih]

@[simp] theorem run_n (q xs : List K) : (P2.run q xs).n = xs.length := by
  induction xs using List.reverseRec with
  | nil => rfl
  | append_singleton xs x ih => rw [run_snoc, push_n, ih]; simp

theorem init_pos (q : List K) : (P2.init q).pos = initPos K q.length := rfl

theorem run_before_full (q xs : List K) (hx : xs.length < q.length) :
    (P2.run q xs).h = xs ∧ (P2.run q xs).pos = initPos K q.length := by
  induction xs using List.reverseRec with
  | nil => exact ⟨rfl, rfl⟩
  | append_singleton xs x ih =>
    have hlen : xs.length + 1 < q.length := by simpa using hx
    obtain ⟨ih1, ih2⟩ := ih (by omega)
    rw [run_snoc]
    have c : (P2.run q xs).n + 1 < (P2.run q xs).m := by simp [P2.m]; exact hlen
    simp only [P2.push, if_pos c]
    exact ⟨by rw [ih1], ih2⟩

/-- `posdiff` of step B3 -/
def posdiff (q : List K) (n : ℕ) (pos : List K) (i : ℕ) : K := nth q i * ((n : ℕ) : K) - nth pos i

/-- the firing condition of step B3 at marker `i` (`lstep ∨ rstep`) -/
abbrev StepCond (q : List K) (n : ℕ) (pos : List K) (i : ℕ) : Prop :=
  (posdiff q n pos i ≤ -((1 : ℕ) : K) ∧ nth pos (i - 1) - nth pos i < -((1 : ℕ) : K)) ∨
  (((1 : ℕ) : K) ≤ posdiff q n pos i ∧ ((1 : ℕ) : K) < nth pos (i + 1) - nth pos i)

/-- the new height chosen by step B3 (parabolic if its COMPUTED value is strictly between the
    neighbours, linear otherwise) -/
def cand (q : List K) (n : ℕ) (h pos : List K) (i : ℕ) : K :=
  let d := sign (posdiff q n pos i)
  let par := parabolic (nth h (i - 1)) (nth h i) (nth h (i + 1))
    (nth pos (i - 1)) (nth pos i) (nth pos (i + 1)) d
  let lin := linear (nth h i) (if d < ((0 : ℕ) : K) then nth h (i - 1) else nth h (i + 1)) (nth pos i)
    (if d < ((0 : ℕ) : K) then nth pos (i - 1) else nth pos (i + 1)) d
  if nth h (i - 1) < par ∧ par < nth h (i + 1) then par else lin

theorem adjustOne_step (q : List K) (n : ℕ) (h pos : List K) (i : ℕ) (hs : StepCond q n pos i) :
    adjustOne q n (h, pos) i =
      (h.set i (cand q n h pos i), pos.set i (nth pos i + sign (posdiff q n pos i))) :=
  if_pos hs

theorem adjustOne_nostep (q : List K) (n : ℕ) (h pos : List K) (i : ℕ) (hs : ¬ StepCond q n pos i) :
    adjustOne q n (h, pos) i = (h, pos) :=
  if_neg hs

/-- the three branches of `push` on an explicit state -/
theorem push_place (s : P2 K) (x : K) (c : s.q.length < s.n + 1) :
    s.push x = { s with
      h := (adjustAll s.q s.n (placeObs s.h s.pos x).1 (placeObs s.h s.pos x).2).1,
      pos := (adjustAll s.q s.n (placeObs s.h s.pos x).1 (placeObs s.h s.pos x).2).2,
      n := s.n + 1 } := by
  have c1 : ¬ (s.n + 1 < s.m) := by simp only [P2.m]; omega
  have c2 : ¬ (s.n + 1 = s.m) := by simp only [P2.m]; omega
  simp only [P2.push, if_neg c1, if_neg c2]

theorem push_sort (s : P2 K) (x : K) (c : s.n + 1 = s.q.length) :
    s.push x = { s with
      h := (adjustAll s.q s.n (sortK (s.h ++ [x])) s.pos).1,
      pos := (adjustAll s.q s.n (sortK (s.h ++ [x])) s.pos).2,
      n := s.n + 1 } := by
  have c1 : ¬ (s.n + 1 < s.m) := by simp only [P2.m]; omega
  have c2 : s.n + 1 = s.m := by simp only [P2.m]; omega
  simp only [P2.push, if_neg c1, if_pos c2]

end run

/-! ### rounded arithmetic -/

variable {F : Type} [Field F] [LinearOrder F] [IsStrictOrderedRing F] {R : Rounding F}

theorem sign_of_neg {x : Fl R} (h : x.val < 0) : sign x = -((1 : ℕ) : Fl R) := by
  have h0 : x < ((0 : ℕ) : Fl R) := by rw [Fl.lt_iff, Fl.val_zero]; exact h
  unfold sign
  rw [if_neg (not_lt_of_gt h0), if_pos h0]

theorem sign_of_pos {x : Fl R} (h : 0 < x.val) : sign x = ((1 : ℕ) : Fl R) := by
  have h0 : ((0 : ℕ) : Fl R) < x := by rw [Fl.lt_iff, Fl.val_zero]; exact h
  unfold sign
  rw [if_pos h0]

/-- the linear formula towards the LEFT neighbour stays in `[h0, h1]`.
    Uses `mono`, `idem` (representability of `h0`, `h1`), `neg`, `int_exact` (the rank gap is
    computed exactly), and `Rounding.key` (`rel`, `u_small`). -/
theorem linear_down {h0 h1 p0 p1 : Fl R} (h01 : h0 ≤ h1) {a b : ℕ}
    (ha : p0.val = a) (hb : p1.val = b) (hab : a + 2 ≤ b) (hbN : b ≤ R.N) :
    h0 ≤ linear h1 h0 p1 p0 (-((1 : ℕ) : Fl R)) ∧ linear h1 h0 p1 p0 (-((1 : ℕ) : Fl R)) ≤ h1 := by
  have hN : 1 ≤ R.N := by omega
  have h01' : h0.val ≤ h1.val := h01
  have he0 : 0 ≤ h1.val - h0.val := by linarith
  have hg2 : (2 : F) ≤ (b : F) - (a : F) := by
    have : ((a + 2 : ℕ) : F) ≤ (b : F) := by exact_mod_cast hab
    push_cast at this; linarith
  obtain ⟨k0, k1⟩ := R.key he0 hg2
  have e1 : R.fl ((a : F) - (b : F)) = -((b : F) - (a : F)) := by
    rw [R.fl_nat_sub (by omega) hbN]; ring
  have e2 : R.fl (h0.val - h1.val) = -R.fl (h1.val - h0.val) := by
    rw [← R.neg]; congr 1; ring
  have hv : (linear h1 h0 p1 p0 (-((1 : ℕ) : Fl R))).val =
      R.fl (h1.val - R.fl (R.fl (h1.val - h0.val) / ((b : F) - (a : F)))) := by
    simp only [linear, Fl.val_add, Fl.val_mul, Fl.val_div, Fl.val_sub, Fl.val_neg, Fl.val_one hN,
      ha, hb, e1, e2]
    rw [neg_div_neg_eq, neg_one_mul, R.neg, R.idem, ← sub_eq_add_neg]
  rw [Fl.le_iff, Fl.le_iff, hv]
  exact ⟨R.le_fl_of_le h0.val_rep (by linarith), R.fl_le_of_le h1.val_rep (by linarith)⟩

/-- the linear formula towards the RIGHT neighbour stays in `[h1, h2]` -/
theorem linear_up {h1 h2 p1 p2 : Fl R} (h12 : h1 ≤ h2) {b c : ℕ}
    (hb : p1.val = b) (hc : p2.val = c) (hbc : b + 2 ≤ c) (hcN : c ≤ R.N) :
    h1 ≤ linear h1 h2 p1 p2 ((1 : ℕ) : Fl R) ∧ linear h1 h2 p1 p2 ((1 : ℕ) : Fl R) ≤ h2 := by
  have hN : 1 ≤ R.N := by omega
  have h12' : h1.val ≤ h2.val := h12
  have he0 : 0 ≤ h2.val - h1.val := by linarith
  have hg2 : (2 : F) ≤ (c : F) - (b : F) := by
    have : ((b + 2 : ℕ) : F) ≤ (c : F) := by exact_mod_cast hbc
    push_cast at this; linarith
  obtain ⟨k0, k1⟩ := R.key he0 hg2
  have e1 : R.fl ((c : F) - (b : F)) = (c : F) - (b : F) := R.fl_nat_sub hcN (by omega)
  have hv : (linear h1 h2 p1 p2 ((1 : ℕ) : Fl R)).val =
      R.fl (h1.val + R.fl (R.fl (h2.val - h1.val) / ((c : F) - (b : F)))) := by
    simp only [linear, Fl.val_add, Fl.val_mul, Fl.val_div, Fl.val_sub, Fl.val_one hN,
      hb, hc, e1]
    rw [one_mul, R.idem]
  rw [Fl.le_iff, Fl.le_iff, hv]
  exact ⟨R.le_fl_of_le h1.val_rep (by linarith), R.fl_le_of_le h2.val_rep (by linarith)⟩

/-- step B3 at marker `i`: only `h[i]` and `pos[i]` change, the new height stays between the
    neighbouring heights and the new rank is a natural strictly between the neighbouring ranks. -/
theorem adjustOne_spec (q : List (Fl R)) (n : ℕ) (h pos : List (Fl R)) (i : ℕ)
    (h01 : nth h (i - 1) ≤ nth h i) (h12 : nth h i ≤ nth h (i + 1))
    (a b c : ℕ) (ha : (nth pos (i - 1)).val = a) (hb : (nth pos i).val = b)
    (hc : (nth pos (i + 1)).val = c) (hab : a < b) (hbc : b < c) (hcN : c ≤ R.N) :
    ∃ v w : Fl R, ∃ z : ℕ, adjustOne q n (h, pos) i = (h.set i v, pos.set i w) ∧ w.val = z ∧
      nth h (i - 1) ≤ v ∧ v ≤ nth h (i + 1) ∧ a < z ∧ z < c := by
  have hN : 1 ≤ R.N := by omega
  have v0 : ((0 : ℕ) : Fl R).val = 0 := Fl.val_zero
  have v1 : ((1 : ℕ) : Fl R).val = 1 := Fl.val_one hN
  by_cases hstep : StepCond q n pos i
  · rw [adjustOne_step _ _ _ _ _ hstep]
    rcases hstep with ⟨hd, hg⟩ | ⟨hd, hg⟩
    · have hd' : (posdiff q n pos i).val ≤ -1 := by
        have := Fl.le_iff.mp hd; rwa [Fl.val_neg, v1] at this
      have hg' : (a : F) - (b : F) < -1 := by
        have := Fl.lt_iff.mp hg
        rwa [Fl.val_sub, ha, hb, R.fl_nat_sub (by omega) (by omega), Fl.val_neg, v1] at this
      have hlt : a + 2 ≤ b := by
        have : ((a + 1 : ℕ) : F) < (b : ℕ) := by push_cast; linarith
        have : a + 1 < b := by exact_mod_cast this
        omega
      have hs := sign_of_neg (x := posdiff q n pos i) (by linarith)
      have hneg : (-((1 : ℕ) : Fl R)) < ((0 : ℕ) : Fl R) := by
        rw [Fl.lt_iff, Fl.val_neg, v1, v0]; simp
      refine ⟨cand q n h pos i, nth pos i + sign (posdiff q n pos i), b - 1, rfl, ?_, ?_, ?_,
        by omega, by omega⟩
      · rw [hs, Fl.val_add, hb, Fl.val_neg, v1]
        have e : (b : F) + -1 = ((b - 1 : ℕ) : F) := by
          rw [Nat.cast_sub (by omega), Nat.cast_one, sub_eq_add_neg]
        rw [e, R.fl_nat (by omega)]
      · simp only [cand, hs, hneg, if_true]
        split_ifs with hpar
        · exact hpar.1.le
        · exact (linear_down h01 ha hb hlt (by omega)).1
      · simp only [cand, hs, hneg, if_true]
        split_ifs with hpar
        · exact hpar.2.le
        · exact (linear_down h01 ha hb hlt (by omega)).2.trans h12
    · have hd' : 1 ≤ (posdiff q n pos i).val := by
        have := Fl.le_iff.mp hd; rwa [v1] at this
      have hg' : 1 < (c : F) - (b : F) := by
        have := Fl.lt_iff.mp hg
        rwa [Fl.val_sub, hc, hb, R.fl_nat_sub (by omega) (by omega), v1] at this
      have hlt : b + 2 ≤ c := by
        have : ((b + 1 : ℕ) : F) < (c : ℕ) := by push_cast; linarith
        have : b + 1 < c := by exact_mod_cast this
        omega
      have hs := sign_of_pos (x := posdiff q n pos i) (by linarith)
      have hneg : ¬ (((1 : ℕ) : Fl R) < ((0 : ℕ) : Fl R)) := by
        rw [Fl.lt_iff, v1, v0]; simp
      refine ⟨cand q n h pos i, nth pos i + sign (posdiff q n pos i), b + 1, rfl, ?_, ?_, ?_,
        by omega, by omega⟩
      · rw [hs, Fl.val_add, hb, v1]
        have e : (b : F) + 1 = ((b + 1 : ℕ) : F) := by push_cast; rfl
        rw [e, R.fl_nat (by omega)]
      · simp only [cand, hs, hneg, if_false]
        split_ifs with hpar
        · exact hpar.1.le
        · exact h01.trans (linear_up h12 hb hc hlt hcN).1
      · simp only [cand, hs, hneg, if_false]
        split_ifs with hpar
        · exact hpar.2.le
        · exact (linear_up h12 hb hc hlt hcN).2
  · rw [adjustOne_nostep _ _ _ _ _ hstep]
    exact ⟨nth h i, nth pos i, b, by rw [set_nth_self, set_nth_self], hb, h01, h12, hab, hbc⟩

/-! ### index-level invariant of the marker arrays -/

/-- the marker arrays are well formed: right lengths, adjacent heights non-decreasing, ranks
    (exactly represented) naturals `≤ B` and adjacent ranks strictly increasing -/
structure Marks (R : Rounding F) (m B : ℕ) (h pos : List (Fl R)) : Prop where
  hlen : h.length = m
  plen : pos.length = m
  hmono : ∀ i, i + 1 < m → nth h i ≤ nth h (i + 1)
  pint : ∀ j, j < m → ∃ z : ℕ, z ≤ B ∧ (nth pos j).val = (z : F)
  pmono : ∀ i, i + 1 < m → nth pos i < nth pos (i + 1)

theorem Marks.h_le {m B : ℕ} {h pos : List (Fl R)} (ok : Marks R m B h pos) {i j : ℕ}
    (hij : i ≤ j) (hj : j < m) : nth h i ≤ nth h j := by
  rcases Nat.lt_or_eq_of_le hij with h' | h'
  · exact chain_of_adjacent (· ≤ ·) (fun _ _ _ => le_trans) h m ok.hmono i j h' hj
  · subst h'; exact le_rfl

theorem Marks.p_lt {m B : ℕ} {h pos : List (Fl R)} (ok : Marks R m B h pos) {i j : ℕ}
    (hij : i < j) (hj : j < m) : nth pos i < nth pos j :=
  chain_of_adjacent (· < ·) (fun _ _ _ => lt_trans) pos m ok.pmono i j hij hj

theorem Marks.adjustOne {m B : ℕ} {h pos : List (Fl R)} (ok : Marks R m B h pos) (hB : B ≤ R.N)
    (q : List (Fl R)) (n i : ℕ) (hi1 : 1 ≤ i) (hi : i + 1 < m) :
    Marks R m B (adjustOne q n (h, pos) i).1 (adjustOne q n (h, pos) i).2 ∧
      (∀ j, j ≠ i → nth (adjustOne q n (h, pos) i).1 j = nth h j) ∧
      (∀ j, j ≠ i → nth (adjustOne q n (h, pos) i).2 j = nth pos j) := by
  obtain ⟨a, haB, ha⟩ := ok.pint (i - 1) (by omega)
  obtain ⟨b, hbB, hb⟩ := ok.pint i (by omega)
  obtain ⟨c, hcB, hc⟩ := ok.pint (i + 1) hi
  have hab : a < b := by
    have := Fl.lt_iff.mp (ok.pmono (i - 1) (by omega))
    rw [Nat.sub_add_cancel hi1, ha, hb] at this; exact_mod_cast this
  have hbc : b < c := by
    have := Fl.lt_iff.mp (ok.pmono i hi)
    rw [hb, hc] at this; exact_mod_cast this
  have h01 : nth h (i - 1) ≤ nth h i := by
    have := ok.hmono (i - 1) (by omega); rwa [Nat.sub_add_cancel hi1] at this
  obtain ⟨v, w, z, e, hw, hv0, hv2, hz0, hz2⟩ :=
    adjustOne_spec q n h pos i h01 (ok.hmono i hi) a b c ha hb hc hab hbc (by omega)
  rw [e]
  have hih : i < h.length := by rw [ok.hlen]; omega
  have hip : i < pos.length := by rw [ok.plen]; omega
  refine ⟨⟨by simp [ok.hlen], by simp [ok.plen], ?_, ?_, ?_⟩,
    fun j hj => nth_set_ne _ _ (Ne.symm hj), fun j hj => nth_set_ne _ _ (Ne.symm hj)⟩
  · intro k hk
    by_cases h1 : k = i
    · subst h1; rw [nth_set_eq _ _ _ hih, nth_set_ne _ _ (by omega)]; exact hv2
    · by_cases h2 : k + 1 = i
      · subst h2; rw [nth_set_eq _ _ _ hih, nth_set_ne _ _ (by omega)]
        simpa using hv0
      · rw [nth_set_ne _ _ (Ne.symm h1), nth_set_ne _ _ (Ne.symm h2)]; exact ok.hmono k hk
  · intro j hj
    by_cases h1 : j = i
    · subst h1; exact ⟨z, by omega, by rw [nth_set_eq _ _ _ hip]; exact hw⟩
    · rw [nth_set_ne _ _ (Ne.symm h1)]; exact ok.pint j hj
  · intro k hk
    by_cases h1 : k = i
    · subst h1; rw [nth_set_eq _ _ _ hip, nth_set_ne _ _ (by omega), Fl.lt_iff, hw, hc]
      exact_mod_cast hz2
    · by_cases h2 : k + 1 = i
      · subst h2; rw [nth_set_eq _ _ _ hip, nth_set_ne _ _ (by omega), Fl.lt_iff, hw]
        have : (nth pos k).val = a := by simpa using ha
        rw [this]; exact_mod_cast hz0
      · rw [nth_set_ne _ _ (Ne.symm h1), nth_set_ne _ _ (Ne.symm h2)]; exact ok.pmono k hk

theorem Marks.foldAdjust {m B : ℕ} (hB : B ≤ R.N) (q : List (Fl R)) (n : ℕ) (l : List ℕ)
    (hl : ∀ i ∈ l, 1 ≤ i ∧ i + 1 < m) :
    ∀ (st : List (Fl R) × List (Fl R)), Marks R m B st.1 st.2 →
      Marks R m B (l.foldl (Gpv.adjustOne q n) st).1 (l.foldl (Gpv.adjustOne q n) st).2 ∧
      (∀ j, (j = 0 ∨ j + 1 = m) → nth (l.foldl (Gpv.adjustOne q n) st).1 j = nth st.1 j ∧
        nth (l.foldl (Gpv.adjustOne q n) st).2 j = nth st.2 j) := by
  induction l with
  | nil => intro st ok; exact ⟨ok, fun _ _ => ⟨rfl, rfl⟩⟩
  | cons i l ih =>
    intro st ok
    obtain ⟨hi1, hi⟩ := hl i (by simp)
    obtain ⟨ok', e1, e2⟩ := Marks.adjustOne (h := st.1) (pos := st.2) ok hB q n i hi1 hi
    obtain ⟨ok'', e⟩ := ih (fun j hj => hl j (by simp [hj])) _ ok'
    rw [List.foldl_cons]
    refine ⟨ok'', fun j hj => ?_⟩
    have hji : j ≠ i := by omega
    exact ⟨(e j hj).1.trans (e1 j hji), (e j hj).2.trans (e2 j hji)⟩

theorem Marks.adjustAll {B : ℕ} {h pos : List (Fl R)} (q : List (Fl R)) (n : ℕ) (hB : B ≤ R.N)
    (ok : Marks R q.length B h pos) :
    Marks R q.length B (adjustAll q n h pos).1 (adjustAll q n h pos).2 ∧
      nth (adjustAll q n h pos).1 0 = nth h 0 ∧
      nth (adjustAll q n h pos).1 (q.length - 1) = nth h (q.length - 1) ∧
      nth (adjustAll q n h pos).2 0 = nth pos 0 ∧
      nth (adjustAll q n h pos).2 (q.length - 1) = nth pos (q.length - 1) := by
  have hl : ∀ i ∈ List.range' 1 (q.length - 2), 1 ≤ i ∧ i + 1 < q.length := by
    intro i hi; rw [List.mem_range'_1] at hi; omega
  obtain ⟨ok', e⟩ := Marks.foldAdjust hB q n _ hl (h, pos) ok
  refine ⟨ok', (e 0 (Or.inl rfl)).1, ?_, (e 0 (Or.inl rfl)).2, ?_⟩
  · by_cases h0 : q.length = 0
    · rw [h0]; exact (e 0 (Or.inl rfl)).1
    · exact (e _ (Or.inr (by omega))).1
  · by_cases h0 : q.length = 0
    · rw [h0]; exact (e 0 (Or.inl rfl)).2
    · exact (e _ (Or.inr (by omega))).2

/-- the new observation replaces the extreme markers and shifts the ranks of all markers
    (other than the first) whose height is ≥ x; the rank bound grows by one -/
theorem Marks.placeObs {m B : ℕ} {h pos : List (Fl R)} (ok : Marks R m B h pos) (hm : 2 ≤ m)
    (hB : B + 1 ≤ R.N) (x : Fl R) :
    Marks R m (B + 1) (placeObs h pos x).1 (placeObs h pos x).2 ∧
      nth (placeObs h pos x).1 0 = min x (nth h 0) ∧
      nth (placeObs h pos x).1 (m - 1) = max x (nth h (m - 1)) ∧
      nth (placeObs h pos x).2 0 = nth pos 0 ∧
      nth (placeObs h pos x).2 (m - 1) = nth pos (m - 1) + ((1 : ℕ) : Fl R) := by
  have hlen := ok.hlen
  have hN : 1 ≤ R.N := by omega
  have v1 : ((1 : ℕ) : Fl R).val = 1 := Fl.val_one hN
  have e0 : (if x < nth h 0 then x else nth h 0) = min x (nth h 0) := by
    split_ifs with c
    · exact (min_eq_left c.le).symm
    · exact (min_eq_right (not_lt.mp c)).symm
  have e1 : (if nth h (m - 1) < x then x else nth h (m - 1)) = max x (nth h (m - 1)) := by
    split_ifs with c
    · exact (max_eq_left c.le).symm
    · exact (max_eq_right (not_lt.mp c)).symm
  have eh : (Gpv.placeObs h pos x).1 =
      (h.set 0 (min x (nth h 0))).set (m - 1) (max x (nth h (m - 1))) := by
    simp only [Gpv.placeObs, hlen]
    rw [nth_set_ne _ _ (by omega), e0, e1]
  have ep : (Gpv.placeObs h pos x).2 = pos.mapIdx fun j p =>
      if 1 ≤ j ∧ x ≤ nth (Gpv.placeObs h pos x).1 j then p + ((1 : ℕ) : Fl R) else p := by
    simp only [Gpv.placeObs, hlen]
  generalize hh' : (Gpv.placeObs h pos x).1 = h' at eh ep ⊢
  have h'0 : nth h' 0 = min x (nth h 0) := by
    rw [eh, nth_set_ne _ _ (by omega), nth_set_eq _ _ _ (by omega)]
  have h'l : nth h' (m - 1) = max x (nth h (m - 1)) := by
    rw [eh, nth_set_eq _ _ _ (by simp; omega)]
  have h'mid : ∀ j, j ≠ 0 → j ≠ m - 1 → nth h' j = nth h j := by
    intro j j0 jl
    rw [eh, nth_set_ne _ _ (Ne.symm jl), nth_set_ne _ _ (Ne.symm j0)]
  have lower : ∀ j, j ≠ m - 1 → nth h' j ≤ nth h j := by
    intro j jl
    by_cases j0 : j = 0
    · subst j0; rw [h'0]; exact min_le_right _ _
    · rw [h'mid j j0 jl]
  have upper : ∀ j, j ≠ 0 → nth h j ≤ nth h' j := by
    intro j j0
    by_cases jl : j = m - 1
    · subst jl; rw [h'l]; exact le_max_right _ _
    · rw [h'mid j j0 jl]
  have h'mono : ∀ i, i + 1 < m → nth h' i ≤ nth h' (i + 1) := fun i hi =>
    (lower i (by omega)).trans ((ok.hmono i hi).trans (upper (i + 1) (by omega)))
  have p' : ∀ j, j < m → nth (Gpv.placeObs h pos x).2 j =
      if 1 ≤ j ∧ x ≤ nth h' j then nth pos j + ((1 : ℕ) : Fl R) else nth pos j := by
    intro j hj
    rw [ep, nth_mapIdx _ _ (by rw [ok.plen]; exact hj)]
  have hlen' : h'.length = m := by rw [eh]; simp [hlen]
  have succ_val : ∀ j, j < m → ∀ z : ℕ, z ≤ B → (nth pos j).val = (z : F) →
      (nth pos j + ((1 : ℕ) : Fl R)).val = ((z + 1 : ℕ) : F) := by
    intro j _ z hz e
    rw [Fl.val_add, e, v1]
    have : (z : F) + 1 = ((z + 1 : ℕ) : F) := by push_cast; rfl
    rw [this, R.fl_nat (by omega)]
  refine ⟨⟨hlen', by rw [ep]; simp [ok.plen], h'mono, ?_, ?_⟩, h'0, h'l, ?_, ?_⟩
  · intro j hj
    obtain ⟨z, hzB, hz⟩ := ok.pint j hj
    rw [p' j hj]
    split_ifs
    · exact ⟨z + 1, by omega, succ_val j hj z hzB hz⟩
    · exact ⟨z, by omega, hz⟩
  · intro i hi
    rw [p' i (by omega), p' (i + 1) hi]
    have hlt := Fl.lt_iff.mp (ok.pmono i hi)
    obtain ⟨z, hzB, hz⟩ := ok.pint i (by omega)
    obtain ⟨z', hzB', hz'⟩ := ok.pint (i + 1) hi
    have hzz : z < z' := by rw [hz, hz'] at hlt; exact_mod_cast hlt
    by_cases c : 1 ≤ i ∧ x ≤ nth h' i
    · have c' : 1 ≤ i + 1 ∧ x ≤ nth h' (i + 1) := ⟨by omega, c.2.trans (h'mono i hi)⟩
      rw [if_pos c, if_pos c', Fl.lt_iff, succ_val i (by omega) z hzB hz,
        succ_val (i + 1) hi z' hzB' hz']
      exact_mod_cast Nat.succ_lt_succ hzz
    · rw [if_neg c]
      split_ifs
      · rw [Fl.lt_iff, succ_val (i + 1) hi z' hzB' hz', hz]
        exact_mod_cast Nat.lt_succ_of_lt hzz
      · exact ok.pmono i hi
  · rw [p' 0 (by omega), if_neg (by omega)]
  · rw [p' (m - 1) (by omega), if_pos ⟨by omega, by rw [h'l]; exact le_max_left _ _⟩]

/-- in a sorted marker array the end markers are the extremes of the stored values -/
theorem Marks.extremes {m B : ℕ} {h pos : List (Fl R)} (ok : Marks R m B h pos) (hm : 1 ≤ m) :
    nth h 0 ∈ h ∧ (∀ y ∈ h, nth h 0 ≤ y) ∧ nth h (m - 1) ∈ h ∧ (∀ y ∈ h, y ≤ nth h (m - 1)) := by
  refine ⟨mem_iff_nth.mpr ⟨0, by rw [ok.hlen]; omega, rfl⟩, ?_,
    mem_iff_nth.mpr ⟨m - 1, by rw [ok.hlen]; omega, rfl⟩, ?_⟩
  · intro y hy
    obtain ⟨j, hj, rfl⟩ := mem_iff_nth.mp hy
    exact ok.h_le (Nat.zero_le j) (by rw [← ok.hlen]; exact hj)
  · intro y hy
    obtain ⟨j, hj, rfl⟩ := mem_iff_nth.mp hy
    rw [ok.hlen] at hj
    exact ok.h_le (by omega) (by omega)

theorem marks_sorted_init (l : List (Fl R)) (hl : l.length ≤ R.N) :
    Marks R l.length (l.length - 1) (sortK l) (initPos (Fl R) l.length) where
  hlen := (sortK_perm l).length_eq
  plen := by simp [initPos]
  hmono i hi := pairwise_nth.mp (sortK_sorted l) i (i + 1) (by omega)
    (by rw [(sortK_perm l).length_eq]; exact hi)
  pint j hj := ⟨j, by omega, by rw [nth_initPos hj, Fl.val_nat (by omega)]⟩
  pmono i hi := by
    rw [nth_initPos hi, nth_initPos (show i < l.length by omega), Fl.lt_iff,
      Fl.val_nat (by omega), Fl.val_nat (by omega)]
    exact_mod_cast Nat.lt_succ_self i

/-- with the initial ranks every rank gap is exactly 1, so step B3 does nothing -/
theorem adjustOne_initPos (q : List (Fl R)) (n : ℕ) (h : List (Fl R)) {m i : ℕ} (hi1 : 1 ≤ i)
    (hi : i + 1 < m) (hm : m ≤ R.N) :
    adjustOne q n (h, initPos (Fl R) m) i = (h, initPos (Fl R) m) := by
  apply adjustOne_nostep
  have hN : 1 ≤ R.N := by omega
  have v1 : ((1 : ℕ) : Fl R).val = 1 := Fl.val_one hN
  unfold StepCond
  rw [nth_initPos (show i - 1 < m by omega), nth_initPos (show i < m by omega), nth_initPos hi]
  rintro (⟨_, c⟩ | ⟨_, c⟩)
  · rw [Fl.lt_iff, Fl.val_sub, Fl.val_nat (by omega), Fl.val_nat (by omega),
      R.fl_nat_sub (by omega) (by omega), Fl.val_neg, v1, Nat.cast_sub hi1, Nat.cast_one] at c
    linarith
  · rw [Fl.lt_iff, v1, Fl.val_sub, Fl.val_nat (by omega), Fl.val_nat (by omega),
      R.fl_nat_sub (by omega) (by omega)] at c
    push_cast at c
    linarith

theorem adjustAll_initPos (q : List (Fl R)) (n : ℕ) (h : List (Fl R)) (hm : q.length ≤ R.N) :
    adjustAll q n h (initPos (Fl R) q.length) = (h, initPos (Fl R) q.length) := by
  have hl : ∀ i ∈ List.range' 1 (q.length - 2), 1 ≤ i ∧ i + 1 < q.length := by
    intro i hi; rw [List.mem_range'_1] at hi; omega
  unfold adjustAll
  generalize List.range' 1 (q.length - 2) = l at hl
  induction l with
  | nil => rfl
  | cons i l ih =>
    rw [List.foldl_cons, adjustOne_initPos q n h (hl i (by simp)).1 (hl i (by simp)).2 hm]
    exact ih fun j hj => hl j (by simp [hj])

end Gpv.Rnd
