/-
  Rounding-error analysis of the incremental mean
      `_val += obj / _n - _val / _n`        (`Mean.push`, Gpv/Model/Accum.lean)
  under the standard model of floating-point arithmetic.

  Lean's `Float` is opaque, so the statement is about an explicit perturbed
  recurrence over an arbitrary linearly ordered field `K` (ℝ, ℚ): every
  arithmetic operation returns its exact result times `1 + δ`, `|δ| ≤ u`
  (`u` = unit roundoff, `2^-53` for binary64, no overflow/underflow).  The δ's are
  arbitrary and independent, so the theorems hold for *every* possible float run.
-/
import Gpv.Proofs.AccumAlg
import Mathlib.Algebra.Order.Field.Basic
import Mathlib.Algebra.Order.Ring.Abs
import Mathlib.Algebra.Order.Group.Abs
import Mathlib.Data.Nat.Cast.Order.Field
import Mathlib.Tactic.Ring
import Mathlib.Tactic.FieldSimp
import Mathlib.Tactic.Linarith
import Mathlib.Tactic.Positivity
import Mathlib.Tactic.GCongr
import Mathlib.Data.List.Induction
set_option linter.unusedSectionVars false

namespace Gpv
variable {K : Type} [Field K] [LinearOrder K] [IsStrictOrderedRing K]

/-! ### the standard model -/

/-- `r` is a correctly rounded value of the exact result `e`: `r = e (1 + δ)`, `|δ| ≤ u` -/
def Rnd (u e r : K) : Prop := ∃ δ : K, |δ| ≤ u ∧ r = e * (1 + δ)

/-- one floating-point step of `_val += obj / _n - _val / _n` with `_n = k`:
    `a = fl(x / k)`, `b = fl(v / k)`, `c = fl(a - b)`, `v' = fl(v + c)` -/
def FlStep (u : K) (k : ℕ) (v x v' : K) : Prop :=
  ∃ a b c : K, Rnd u (x / (k : K)) a ∧ Rnd u (v / (k : K)) b ∧ Rnd u (a - b) c ∧ Rnd u (v + c) v'

/-- `v` is a possible floating-point value of the accumulator after the observations `xs`
    (initial value 0, `_n` running 1, 2, …) -/
inductive FlRun (u : K) : List K → K → Prop
  | nil : FlRun u [] 0
  | snoc {xs : List K} {v : K} (x v' : K) :
      FlRun u xs v → FlStep u (xs.length + 1) v x v' → FlRun u (xs ++ [x]) v'

theorem Rnd.exact {u : K} (hu : 0 ≤ u) (e : K) : Rnd u e e := ⟨0, by simpa using hu, by ring⟩

theorem Rnd.mono {u u' e r : K} (h : u ≤ u') : Rnd u e r → Rnd u' e r := by
  rintro ⟨δ, hδ, rfl⟩; exact ⟨δ, hδ.trans h, rfl⟩

theorem rnd_zero_iff (e r : K) : Rnd 0 e r ↔ r = e := by
  constructor
  · rintro ⟨δ, hδ, rfl⟩
    have : δ = 0 := abs_nonpos_iff.mp hδ
    rw [this]; ring
  · rintro rfl; exact Rnd.exact le_rfl _

theorem FlStep.mono {u u' : K} (h : u ≤ u') {k : ℕ} {v x v' : K} : FlStep u k v x v' → FlStep u' k v x v' := by
  rintro ⟨a, b, c, h1, h2, h3, h4⟩
  exact ⟨a, b, c, h1.mono h, h2.mono h, h3.mono h, h4.mono h⟩

theorem FlRun.mono {u u' : K} (h : u ≤ u') {xs : List K} {v : K} (hr : FlRun u xs v) : FlRun u' xs v := by
  induction hr with
  | nil => exact FlRun.nil
  | @snoc xs v x v' _ hs ih => exact FlRun.snoc x v' ih (hs.mono h)

/-- the exact step is a possible floating-point step -/
theorem FlStep.exact {u : K} (hu : 0 ≤ u) (k : ℕ) (v x : K) :
    FlStep u k v x (v + (x / (k : K) - v / (k : K))) :=
  ⟨_, _, _, Rnd.exact hu _, Rnd.exact hu _, Rnd.exact hu _, Rnd.exact hu _⟩

theorem flStep_zero_iff (k : ℕ) (v x v' : K) :
    FlStep 0 k v x v' ↔ v' = v + (x / (k : K) - v / (k : K)) := by
  constructor
  · rintro ⟨a, b, c, h1, h2, h3, h4⟩
    rw [rnd_zero_iff] at h1 h2 h3 h4
    subst h1 h2 h3; exact h4
  · rintro rfl; exact FlStep.exact le_rfl k v x

/-- the exact run (`Mean.run`) is a possible floating-point run, for every `u ≥ 0` -/
theorem FlRun.of_exact {u : K} (hu : 0 ≤ u) (xs : List K) : FlRun u xs (Mean.run xs).val := by
  induction xs using List.reverseRec with
  | nil =>
    have : (Mean.run ([] : List K)).val = 0 := by simp [Mean.run, Mean.init]
    rw [this]; exact FlRun.nil
  | append_singleton xs x ih =>
    rw [Mean.run_snoc]
    have hn := (Mean.run_inv xs).1
    have := FlStep.exact (K := K) hu (xs.length + 1) (Mean.run xs).val x
    refine FlRun.snoc x _ ih ?_
    simpa [Mean.push, hn] using this

/-- with `u = 0` the only possible run is the exact one -/
theorem flRun_zero_iff (xs : List K) (v : K) : FlRun 0 xs v ↔ v = (Mean.run xs).val := by
  constructor
  · intro h
    induction h with
    | nil => simp [Mean.run, Mean.init]
    | @snoc xs v x v' _ hs ih =>
      rw [flStep_zero_iff] at hs
      rw [Mean.run_snoc, hs, ih]
      have hn := (Mean.run_inv xs).1
      simp [Mean.push, hn]
  · rintro rfl; exact FlRun.of_exact le_rfl xs

/-! ### the error recurrence -/

/-- the algebraic identity behind the analysis: with `k = j + 1`, `S` the exact sum of
    the first `j` observations, `k·v' − (S + x)` is the old defect `j·v − S` plus the
    local error `η`, both amplified by `1 + δ₄`, plus `δ₄·(S + x)` -/
theorem step_identity (j : ℕ) (v x S δ1 δ2 δ3 δ4 : K) :
    ((j + 1 : ℕ) : K) * ((v + (x / ((j + 1 : ℕ) : K) * (1 + δ1) - v / ((j + 1 : ℕ) : K) * (1 + δ2))
        * (1 + δ3)) * (1 + δ4)) - (S + x)
      = ((j : K) * v - S + ((x - v) * δ3 + (x * δ1 - v * δ2) * (1 + δ3))) * (1 + δ4)
        + (S + x) * δ4 := by
  have hk : ((j + 1 : ℕ) : K) ≠ 0 := Nat.cast_ne_zero.mpr (Nat.succ_ne_zero j)
  push_cast at hk ⊢
  field_simp
  ring

theorem eta_bound {u x v δ1 δ2 δ3 : K} (h1 : |δ1| ≤ u) (h2 : |δ2| ≤ u) (h3 : |δ3| ≤ u) :
    |(x - v) * δ3 + (x * δ1 - v * δ2) * (1 + δ3)| ≤ (|x| + |v|) * u * (2 + u) := by
  have hu : 0 ≤ u := (abs_nonneg _).trans h1
  have e1 : |(x - v) * δ3| ≤ (|x| + |v|) * u := by
    rw [abs_mul]
    exact mul_le_mul (abs_sub x v) h3 (abs_nonneg _) (by positivity)
  have e2 : |x * δ1 - v * δ2| ≤ |x| * u + |v| * u := by
    refine (abs_sub _ _).trans ?_
    rw [abs_mul, abs_mul]
    exact add_le_add (mul_le_mul_of_nonneg_left h1 (abs_nonneg _))
      (mul_le_mul_of_nonneg_left h2 (abs_nonneg _))
  have e3 : |1 + δ3| ≤ 1 + u := by
    refine (abs_add_le _ _).trans ?_
    rw [abs_one]; exact add_le_add le_rfl h3
  have e4 : |(x * δ1 - v * δ2) * (1 + δ3)| ≤ (|x| * u + |v| * u) * (1 + u) := by
    rw [abs_mul]
    exact mul_le_mul e2 e3 (abs_nonneg _) (by positivity)
  calc |(x - v) * δ3 + (x * δ1 - v * δ2) * (1 + δ3)|
      ≤ |(x - v) * δ3| + |(x * δ1 - v * δ2) * (1 + δ3)| := abs_add_le _ _
    _ ≤ (|x| + |v|) * u + (|x| * u + |v| * u) * (1 + u) := add_le_add e1 e4
    _ = (|x| + |v|) * u * (2 + u) := by ring

theorem abs_sum_le_length_mul (xs : List K) (M : K) (h : ∀ x ∈ xs, |x| ≤ M) :
    |xs.sum| ≤ (xs.length : K) * M := by
  induction xs with
  | nil => simp
  | cons x xs ih =>
    simp only [List.sum_cons, List.length_cons]
    have h1 := h x (by simp)
    have h2 := ih (fun y hy => h y (by simp [hy]))
    push_cast
    calc |x + xs.sum| ≤ |x| + |xs.sum| := abs_add_le _ _
      _ ≤ M + (xs.length : K) * M := add_le_add h1 h2
      _ = ((xs.length : K) + 1) * M := by ring

/-- the scalar inequality that closes the induction (`J = j`, `(j+1)·u ≤ 1/8`) -/
theorem step_poly {J u : K} (hJ : 0 ≤ J) (hu : 0 ≤ u) (h : (J + 1) * u ≤ 1 / 8) :
    (6 * J ^ 2 + (2 + 6 * J * u) * (2 + u)) * (1 + u) + (J + 1) ≤ 6 * (J + 1) ^ 2 := by
  have hJu : 0 ≤ J * u := mul_nonneg hJ hu
  have hu8 : u ≤ 1 / 8 := by nlinarith
  have ht8 : J * u ≤ 1 / 8 := by nlinarith
  have a1 : J * u ≤ J * (1 / 8) := mul_le_mul_of_nonneg_left hu8 hJ
  have a2 : J * (J * u) ≤ J * (1 / 8) := mul_le_mul_of_nonneg_left ht8 hJ
  have a3 : J * u * u ≤ J * u * (1 / 8) := mul_le_mul_of_nonneg_left hu8 hJu
  have a4 : J * u * u * u ≤ J * u * u * (1 / 8) :=
    mul_le_mul_of_nonneg_left hu8 (mul_nonneg hJu hu)
  have a5 : u * u ≤ u * (1 / 8) := mul_le_mul_of_nonneg_left hu8 hu
  nlinarith [a1, a2, a3, a4, a5]

/-- one step of the invariant `|j·v − S| ≤ 6 j² u M` -/
theorem FlStep.defect {u M : K} (hu : 0 ≤ u) (hM : 0 ≤ M) {j : ℕ} {v x v' S : K}
    (hsmall : ((j + 1 : ℕ) : K) * u ≤ 1 / 8) (hS : |S| ≤ (j : K) * M) (hx : |x| ≤ M)
    (ha : |(j : K) * v - S| ≤ 6 * (j : K) ^ 2 * u * M) (hb : |v| ≤ M * (1 + 6 * (j : K) * u))
    (hstep : FlStep u (j + 1) v x v') :
    |((j + 1 : ℕ) : K) * v' - (S + x)| ≤ 6 * ((j + 1 : ℕ) : K) ^ 2 * u * M := by
  obtain ⟨a, b, c, ⟨δ1, h1, rfl⟩, ⟨δ2, h2, rfl⟩, ⟨δ3, h3, rfl⟩, ⟨δ4, h4, rfl⟩⟩ := hstep
  rw [step_identity]
  have hJ : (0 : K) ≤ (j : K) := Nat.cast_nonneg j
  set J : K := (j : K) with hJdef
  have hη := eta_bound (x := x) (v := v) h1 h2 h3
  set η : K := (x - v) * δ3 + (x * δ1 - v * δ2) * (1 + δ3) with hηdef
  have hη' : |η| ≤ M * (2 + 6 * J * u) * u * (2 + u) := by
    refine hη.trans ?_
    have : |x| + |v| ≤ M * (2 + 6 * J * u) := by linarith
    have h2u : 0 ≤ u * (2 + u) := by positivity
    calc (|x| + |v|) * u * (2 + u) = (|x| + |v|) * (u * (2 + u)) := by ring
      _ ≤ M * (2 + 6 * J * u) * (u * (2 + u)) := mul_le_mul_of_nonneg_right this h2u
      _ = M * (2 + 6 * J * u) * u * (2 + u) := by ring
  have hS' : |S + x| ≤ (J + 1) * M := by
    calc |S + x| ≤ |S| + |x| := abs_add_le _ _
      _ ≤ J * M + M := add_le_add hS hx
      _ = (J + 1) * M := by ring
  have h14 : |1 + δ4| ≤ 1 + u := by
    refine (abs_add_le _ _).trans ?_
    rw [abs_one]; exact add_le_add le_rfl h4
  have hAη : |J * v - S + η| ≤ 6 * J ^ 2 * u * M + M * (2 + 6 * J * u) * u * (2 + u) :=
    (abs_add_le _ _).trans (add_le_add ha hη')
  have hnn : 0 ≤ 6 * J ^ 2 * u * M + M * (2 + 6 * J * u) * u * (2 + u) := (abs_nonneg _).trans hAη
  have hcast : ((j + 1 : ℕ) : K) = J + 1 := by push_cast; rfl
  rw [hcast] at hsmall ⊢
  have hpoly := step_poly hJ hu hsmall
  have huM : 0 ≤ u * M := mul_nonneg hu hM
  calc |(J * v - S + η) * (1 + δ4) + (S + x) * δ4|
      ≤ |(J * v - S + η) * (1 + δ4)| + |(S + x) * δ4| := abs_add_le _ _
    _ = |J * v - S + η| * |1 + δ4| + |S + x| * |δ4| := by rw [abs_mul, abs_mul]
    _ ≤ (6 * J ^ 2 * u * M + M * (2 + 6 * J * u) * u * (2 + u)) * (1 + u) + (J + 1) * M * u := by
        apply add_le_add
        · exact mul_le_mul hAη h14 (abs_nonneg _) hnn
        · exact mul_le_mul hS' h4 (abs_nonneg _) (by positivity)
    _ = ((6 * J ^ 2 + (2 + 6 * J * u) * (2 + u)) * (1 + u) + (J + 1)) * (u * M) := by ring
    _ ≤ 6 * (J + 1) ^ 2 * (u * M) := mul_le_mul_of_nonneg_right hpoly huM
    _ = 6 * (J + 1) ^ 2 * u * M := by ring

/-- the invariant of every possible floating-point run -/
theorem FlRun.inv {u M : K} (hu : 0 ≤ u) (hM : 0 ≤ M) {xs : List K} {v : K} (h : FlRun u xs v)
    (hx : ∀ x ∈ xs, |x| ≤ M) (hsmall : (xs.length : K) * u ≤ 1 / 8) :
    |(xs.length : K) * v - xs.sum| ≤ 6 * (xs.length : K) ^ 2 * u * M
      ∧ |v| ≤ M * (1 + 6 * (xs.length : K) * u) := by
  induction h with
  | nil => simpa using hM
  | @snoc xs v x v' _ hs ih =>
    have hxs : ∀ y ∈ xs, |y| ≤ M := fun y hy => hx y (by simp [hy])
    have hxx : |x| ≤ M := hx x (by simp)
    have hlen : (xs ++ [x]).length = xs.length + 1 := by simp
    rw [hlen] at hsmall ⊢
    have hsmall' : (xs.length : K) * u ≤ 1 / 8 := by
      refine le_trans ?_ hsmall
      push_cast
      nlinarith
    obtain ⟨ia, ib⟩ := ih hxs hsmall'
    have hS := abs_sum_le_length_mul xs M hxs
    have hd := FlStep.defect hu hM hsmall hS hxx ia ib hs
    rw [List.sum_append, List.sum_singleton]
    refine ⟨hd, ?_⟩
    -- magnitude: k |v'| ≤ |k v' − S'| + |S'|
    have hk : (0 : K) < ((xs.length + 1 : ℕ) : K) := Nat.cast_pos.mpr (Nat.succ_pos _)
    have hS' : |xs.sum + x| ≤ ((xs.length + 1 : ℕ) : K) * M := by
      push_cast
      calc |xs.sum + x| ≤ |xs.sum| + |x| := abs_add_le _ _
        _ ≤ (xs.length : K) * M + M := add_le_add hS hxx
        _ = ((xs.length : K) + 1) * M := by ring
    set k : K := ((xs.length + 1 : ℕ) : K) with hkdef
    have : k * |v'| ≤ k * (M * (1 + 6 * k * u)) := by
      have e : k * |v'| = |k * v'| := by rw [abs_mul, abs_of_pos hk]
      rw [e]
      calc |k * v'| = |(k * v' - (xs.sum + x)) + (xs.sum + x)| := by ring_nf
        _ ≤ |k * v' - (xs.sum + x)| + |xs.sum + x| := abs_add_le _ _
        _ ≤ 6 * k ^ 2 * u * M + k * M := add_le_add hd hS'
        _ = k * (M * (1 + 6 * k * u)) := by ring
    exact le_of_mul_le_mul_left this hk

end Gpv
