/-
  Gpv.Proofs.RoundedQ — a GENUINELY ROUNDING instance of `Rounding ℚ` (non-vacuity of the
  abstract floating-point model of `Gpv.Proofs.Rounded`).

  `Rounding.trunc p` = binary floating point with `p` fractional bits of the significand
  (i.e. `p + 1` significant bits), UNBOUNDED exponent, rounding TOWARD ZERO:

      x > 0 :  e = Int.log 2 x   (2^e ≤ x < 2^(e+1)),   ulp = 2^(e - p),
               fl x = ⌊x / ulp⌋ * ulp
      x < 0 :  fl x = - fl (-x)
      fl 0 = 0

  with `u = 2^(-p)` and `N = 2^p`.  `2 ≤ p` is needed for `(1+u)^2 ≤ 2`.
-/
import Gpv.Proofs.Rounded
import Mathlib.Data.Int.Log
import Mathlib.Data.Rat.Floor
import Mathlib.Algebra.Order.Floor.Ring
import Mathlib.Tactic.NormNum
import Mathlib.Tactic.Linarith
import Mathlib.Tactic.Ring
import Mathlib.Tactic.Positivity

namespace Gpv
namespace Trunc

/-- unit in the last place of `x` (for `x > 0`): `2^(⌊log₂ x⌋ - p)` -/
def ulp (p : ℕ) (x : ℚ) : ℚ := (2 : ℚ) ^ (Int.log 2 x - (p : ℤ))

/-- truncation to a multiple of `ulp` (meaningful for `x ≥ 0`) -/
def trp (p : ℕ) (x : ℚ) : ℚ := (⌊x / ulp p x⌋ : ℚ) * ulp p x

/-- round toward zero, sign-symmetric -/
def tr (p : ℕ) (x : ℚ) : ℚ := if 0 ≤ x then trp p x else -trp p (-x)

variable (p : ℕ)

/-! ### `Int.log 2` on `ℚ` with the base written as `(2 : ℚ)` -/

theorem zpow_log_le {x : ℚ} (hx : 0 < x) : (2 : ℚ) ^ Int.log 2 x ≤ x := by
  have := Int.zpow_log_le_self (b := 2) (by norm_num) hx
  exact_mod_cast this

theorem lt_zpow_log_succ (x : ℚ) : x < (2 : ℚ) ^ (Int.log 2 x + 1) := by
  have := Int.lt_zpow_succ_log_self (b := 2) (by norm_num) x
  exact_mod_cast this

theorem le_log_of_zpow_le {x : ℚ} (hx : 0 < x) {e : ℤ} (h : (2 : ℚ) ^ e ≤ x) :
    e ≤ Int.log 2 x := by
  rw [← Int.zpow_le_iff_le_log (b := 2) (by norm_num) hx]
  exact_mod_cast h

theorem log_lt_of_lt_zpow {x : ℚ} (hx : 0 < x) {e : ℤ} (h : x < (2 : ℚ) ^ e) :
    Int.log 2 x < e := by
  rw [← Int.lt_zpow_iff_log_lt (b := 2) (by norm_num) hx]
  exact_mod_cast h

/-- characterisation of `Int.log 2` by a binade -/
theorem log_eq_of_mem {x : ℚ} {e : ℤ} (h1 : (2 : ℚ) ^ e ≤ x) (h2 : x < (2 : ℚ) ^ (e + 1)) :
    Int.log 2 x = e := by
  have hx : 0 < x := lt_of_lt_of_le (zpow_pos (by norm_num) _) h1
  have a := le_log_of_zpow_le hx h1
  have b := log_lt_of_lt_zpow hx h2
  omega

/-! ### basic facts on `ulp` and `trp` -/

theorem ulp_pos (x : ℚ) : 0 < ulp p x := zpow_pos (by norm_num) _

theorem trp_eq (x : ℚ) : trp p x = (⌊x / ulp p x⌋ : ℚ) * ulp p x := rfl

theorem trp_le (x : ℚ) : trp p x ≤ x := by
  have hU := ulp_pos p x
  have h := Int.floor_le (x / ulp p x)
  calc trp p x = (⌊x / ulp p x⌋ : ℚ) * ulp p x := rfl
    _ ≤ (x / ulp p x) * ulp p x := mul_le_mul_of_nonneg_right h hU.le
    _ = x := div_mul_cancel₀ x hU.ne'

theorem lt_trp_add (x : ℚ) : x < trp p x + ulp p x := by
  have hU := ulp_pos p x
  have h := Int.lt_floor_add_one (x / ulp p x)
  calc x = (x / ulp p x) * ulp p x := (div_mul_cancel₀ x hU.ne').symm
    _ < ((⌊x / ulp p x⌋ : ℚ) + 1) * ulp p x := mul_lt_mul_of_pos_right h hU
    _ = trp p x + ulp p x := by rw [trp_eq]; ring

theorem two_pow_mul_ulp (x : ℚ) : (2 : ℚ) ^ p * ulp p x = (2 : ℚ) ^ Int.log 2 x := by
  unfold ulp
  rw [← zpow_natCast, ← zpow_add₀ (by norm_num : (2 : ℚ) ≠ 0)]
  congr 1; ring

theorem ulp_eq (x : ℚ) : ulp p x = (2 : ℚ) ^ Int.log 2 x * (1 / 2 ^ p) := by
  rw [← two_pow_mul_ulp p x]
  have : (2 : ℚ) ^ p ≠ 0 := pow_ne_zero _ (by norm_num)
  field_simp

theorem trp_zero : trp p 0 = 0 := by simp [trp]

/-- the truncation of a positive number stays in its binade -/
theorem zpow_le_trp {x : ℚ} (hx : 0 < x) : (2 : ℚ) ^ Int.log 2 x ≤ trp p x := by
  have hU := ulp_pos p x
  have h1 : (((2 : ℤ) ^ p : ℤ) : ℚ) ≤ x / ulp p x := by
    rw [le_div_iff₀ hU]; push_cast; rw [two_pow_mul_ulp]; exact zpow_log_le hx
  have h2 : ((2 : ℤ) ^ p : ℤ) ≤ ⌊x / ulp p x⌋ := Int.le_floor.mpr h1
  have h3 : (2 : ℚ) ^ p ≤ (⌊x / ulp p x⌋ : ℚ) := by exact_mod_cast h2
  calc (2 : ℚ) ^ Int.log 2 x = (2 : ℚ) ^ p * ulp p x := (two_pow_mul_ulp p x).symm
    _ ≤ (⌊x / ulp p x⌋ : ℚ) * ulp p x := mul_le_mul_of_nonneg_right h3 hU.le

theorem trp_pos {x : ℚ} (hx : 0 < x) : 0 < trp p x :=
  lt_of_lt_of_le (zpow_pos (by norm_num) _) (zpow_le_trp p hx)

theorem trp_nonneg {x : ℚ} (hx : 0 ≤ x) : 0 ≤ trp p x := by
  rcases hx.eq_or_lt with h | h
  · rw [← h, trp_zero]
  · exact (trp_pos p h).le

theorem log_trp {x : ℚ} (hx : 0 < x) : Int.log 2 (trp p x) = Int.log 2 x := by
  apply le_antisymm
  · exact Int.log_mono_right (trp_pos p hx) (trp_le p x)
  · exact le_log_of_zpow_le (trp_pos p hx) (zpow_le_trp p hx)

theorem ulp_trp {x : ℚ} (hx : 0 < x) : ulp p (trp p x) = ulp p x := by
  unfold ulp; rw [log_trp p hx]

/-- an integer multiple of its own `ulp` is representable -/
theorem trp_of_eq_mul {x : ℚ} (k : ℤ) (h : x = (k : ℚ) * ulp p x) : trp p x = x := by
  have hU := ulp_pos p x
  have : x / ulp p x = (k : ℚ) := by rw [div_eq_iff hU.ne']; exact h
  rw [trp_eq, this, Int.floor_intCast, ← h]

theorem trp_idem {x : ℚ} (hx : 0 < x) : trp p (trp p x) = trp p x := by
  apply trp_of_eq_mul p ⌊x / ulp p x⌋
  rw [ulp_trp p hx]; rfl

theorem trp_mono {x y : ℚ} (hx : 0 < x) (hxy : x ≤ y) : trp p x ≤ trp p y := by
  have hy : 0 < y := lt_of_lt_of_le hx hxy
  have hlog : Int.log 2 x ≤ Int.log 2 y := Int.log_mono_right hx hxy
  rcases hlog.eq_or_lt with he | hlt
  · have hU : ulp p x = ulp p y := by unfold ulp; rw [he]
    have hUy := ulp_pos p y
    rw [trp_eq, trp_eq, hU]
    apply mul_le_mul_of_nonneg_right _ hUy.le
    have : ⌊x / ulp p y⌋ ≤ ⌊y / ulp p y⌋ :=
      Int.floor_le_floor (div_le_div_of_nonneg_right hxy hUy.le)
    exact_mod_cast this
  · calc trp p x ≤ x := trp_le p x
      _ ≤ (2 : ℚ) ^ (Int.log 2 x + 1) := (lt_zpow_log_succ x).le
      _ ≤ (2 : ℚ) ^ Int.log 2 y := zpow_le_zpow_right₀ (by norm_num) (by omega)
      _ ≤ trp p y := zpow_le_trp p hy

/-- relative error of truncation, non-negative argument -/
theorem trp_rel {x : ℚ} (hx : 0 ≤ x) : |trp p x - x| ≤ 1 / 2 ^ p * x := by
  rcases hx.eq_or_lt with h | h
  · rw [← h, trp_zero]; simp
  · have h1 := trp_le p x
    have h2 := lt_trp_add p x
    have h3 : ulp p x ≤ x * (1 / 2 ^ p) := by
      rw [ulp_eq]
      exact mul_le_mul_of_nonneg_right (zpow_log_le h) (by positivity)
    rw [abs_of_nonpos (by linarith)]
    linarith

/-! ### small integers are representable -/

theorem trp_int {z : ℤ} (hz : 0 < z) (hzp : z ≤ (2 : ℤ) ^ p) : trp p (z : ℚ) = (z : ℚ) := by
  have hzq : (0 : ℚ) < (z : ℚ) := by exact_mod_cast hz
  have hlt : (z : ℚ) < (2 : ℚ) ^ ((p : ℤ) + 1) := by
    have h1 : (z : ℚ) ≤ (2 : ℚ) ^ p := by exact_mod_cast hzp
    have h2 : (2 : ℚ) ^ p < (2 : ℚ) ^ (p + 1) := by
      rw [pow_succ]; have : (0 : ℚ) < 2 ^ p := by positivity
      linarith
    have h3 : (2 : ℚ) ^ ((p : ℤ) + 1) = (2 : ℚ) ^ (p + 1) := by
      rw [← zpow_natCast]; push_cast; rfl
    rw [h3]; linarith
  have hlog : Int.log 2 (z : ℚ) < (p : ℤ) + 1 := log_lt_of_lt_zpow hzq hlt
  -- `ulp = 2^(-m)` with `m : ℕ`
  obtain ⟨m, hm⟩ : ∃ m : ℕ, Int.log 2 (z : ℚ) - (p : ℤ) = -(m : ℤ) :=
    ⟨((p : ℤ) - Int.log 2 (z : ℚ)).toNat, by omega⟩
  have hU : ulp p (z : ℚ) = ((2 : ℚ) ^ m)⁻¹ := by
    unfold ulp; rw [hm, zpow_neg, zpow_natCast]
  apply trp_of_eq_mul p (z * 2 ^ m)
  rw [hU]; push_cast
  have : (2 : ℚ) ^ m ≠ 0 := pow_ne_zero _ (by norm_num)
  field_simp

/-! ### the sign-symmetric extension `tr` -/

theorem tr_of_nonneg {x : ℚ} (hx : 0 ≤ x) : tr p x = trp p x := if_pos hx

theorem tr_of_neg {x : ℚ} (hx : x < 0) : tr p x = -trp p (-x) := if_neg (not_le.mpr hx)

theorem tr_zero : tr p 0 = 0 := by rw [tr_of_nonneg p le_rfl, trp_zero]

theorem tr_neg (x : ℚ) : tr p (-x) = -tr p x := by
  rcases lt_trichotomy x 0 with h | h | h
  · rw [tr_of_neg p h, tr_of_nonneg p (by linarith), neg_neg]
  · subst h; simp [tr_zero]
  · rw [tr_of_neg p (by linarith : -x < 0), tr_of_nonneg p h.le, neg_neg]

theorem tr_nonneg {x : ℚ} (hx : 0 ≤ x) : 0 ≤ tr p x := by
  rw [tr_of_nonneg p hx]; exact trp_nonneg p hx

theorem tr_nonpos {x : ℚ} (hx : x ≤ 0) : tr p x ≤ 0 := by
  have := tr_nonneg p (by linarith : (0 : ℚ) ≤ -x)
  rw [tr_neg] at this; linarith

theorem tr_mono_nonneg {x y : ℚ} (hx : 0 ≤ x) (hxy : x ≤ y) : tr p x ≤ tr p y := by
  rw [tr_of_nonneg p hx, tr_of_nonneg p (hx.trans hxy)]
  rcases hx.eq_or_lt with h | h
  · rw [← h, trp_zero]; exact trp_nonneg p (hx.trans hxy)
  · exact trp_mono p h hxy

theorem tr_mono : Monotone (tr p) := by
  intro x y hxy
  rcases le_total 0 x with hx | hx
  · exact tr_mono_nonneg p hx hxy
  · rcases le_total 0 y with hy | hy
    · exact (tr_nonpos p hx).trans (tr_nonneg p hy)
    · have := tr_mono_nonneg p (by linarith : (0 : ℚ) ≤ -y) (by linarith : -y ≤ -x)
      rw [tr_neg, tr_neg] at this; linarith

theorem tr_idem_nonneg {x : ℚ} (hx : 0 ≤ x) : tr p (tr p x) = tr p x := by
  rw [tr_of_nonneg p hx, tr_of_nonneg p (trp_nonneg p hx)]
  rcases hx.eq_or_lt with h | h
  · rw [← h, trp_zero, trp_zero]
  · exact trp_idem p h

theorem tr_idem (x : ℚ) : tr p (tr p x) = tr p x := by
  rcases le_total 0 x with hx | hx
  · exact tr_idem_nonneg p hx
  · have := tr_idem_nonneg p (by linarith : (0 : ℚ) ≤ -x)
    rw [tr_neg, tr_neg] at this
    linarith

theorem tr_rel_nonneg {x : ℚ} (hx : 0 ≤ x) : |tr p x - x| ≤ 1 / 2 ^ p * |x| := by
  rw [tr_of_nonneg p hx, abs_of_nonneg hx]; exact trp_rel p hx

theorem tr_rel (x : ℚ) : |tr p x - x| ≤ 1 / 2 ^ p * |x| := by
  rcases le_total 0 x with hx | hx
  · exact tr_rel_nonneg p hx
  · have := tr_rel_nonneg p (by linarith : (0 : ℚ) ≤ -x)
    rw [tr_neg, abs_neg] at this
    have e : -tr p x - -x = -(tr p x - x) := by ring
    rw [e, abs_neg] at this
    exact this

theorem tr_int_nonneg {z : ℤ} (hz : 0 ≤ z) (hzp : z ≤ (2 : ℤ) ^ p) : tr p (z : ℚ) = (z : ℚ) := by
  rcases hz.eq_or_lt with h | h
  · rw [← h]; simpa using tr_zero p
  · rw [tr_of_nonneg p (by exact_mod_cast hz)]; exact trp_int p h hzp

theorem tr_int (z : ℤ) (h : |z| ≤ (((2 : ℕ) ^ p : ℕ) : ℤ)) : tr p (z : ℚ) = (z : ℚ) := by
  have h' : |z| ≤ (2 : ℤ) ^ p := by exact_mod_cast h
  rw [abs_le] at h'
  rcases le_total 0 z with hz | hz
  · exact tr_int_nonneg p hz h'.2
  · have := tr_int_nonneg p (by omega : 0 ≤ -z) (by omega)
    push_cast at this
    rw [tr_neg] at this
    linarith

theorem u_small {p : ℕ} (hp : 2 ≤ p) : (1 + 1 / (2 : ℚ) ^ p) ^ 2 ≤ 2 := by
  have h4 : (2 : ℚ) ^ 2 ≤ (2 : ℚ) ^ p := pow_le_pow_right₀ (by norm_num) hp
  have hpos : (0 : ℚ) < 2 ^ p := by positivity
  have h1 : 1 / (2 : ℚ) ^ p ≤ 1 / 4 := by
    rw [div_le_div_iff₀ hpos (by norm_num)]; linarith
  have h0 : 0 ≤ 1 / (2 : ℚ) ^ p := by positivity
  nlinarith

end Trunc

/-- binary floating point over `ℚ`, `p` fractional significand bits, unbounded exponent,
    round toward zero.  `u = 2^(-p)`, `N = 2^p`. -/
def Rounding.trunc (p : ℕ) (hp : 2 ≤ p) : Rounding ℚ where
  fl := Trunc.tr p
  mono := Trunc.tr_mono p
  idem := Trunc.tr_idem p
  neg := Trunc.tr_neg p
  u := 1 / 2 ^ p
  u_nonneg := by positivity
  u_small := Trunc.u_small hp
  rel := Trunc.tr_rel p
  N := 2 ^ p
  int_exact := Trunc.tr_int p

/-! ### it really rounds -/

namespace Trunc

theorem log_17 : Int.log 2 (17 : ℚ) = 4 := log_eq_of_mem (by norm_num) (by norm_num)

theorem log_17_16 : Int.log 2 (17 / 16 : ℚ) = 0 := log_eq_of_mem (by norm_num) (by norm_num)

theorem tr3_17 : tr 3 (17 : ℚ) = 16 := by
  rw [tr_of_nonneg 3 (by norm_num), trp_eq]
  have hU : ulp 3 (17 : ℚ) = 2 := by unfold ulp; rw [log_17]; norm_num
  rw [hU]
  have : ⌊(17 : ℚ) / 2⌋ = 8 := by rw [Int.floor_eq_iff]; norm_num
  rw [this]; norm_num

theorem tr3_17_16 : tr 3 (17 / 16 : ℚ) = 1 := by
  rw [tr_of_nonneg 3 (by norm_num), trp_eq]
  have hU : ulp 3 (17 / 16 : ℚ) = 1 / 8 := by unfold ulp; rw [log_17_16]; norm_num
  rw [hU]
  have : ⌊(17 / 16 : ℚ) / (1 / 8)⌋ = 8 := by rw [Int.floor_eq_iff]; norm_num
  rw [this]; norm_num

end Trunc

theorem Rounding.trunc_3_fl_17 : (Rounding.trunc 3 (by norm_num)).fl (17 : ℚ) = 16 :=
  Trunc.tr3_17

theorem Rounding.trunc_3_fl_17_16 : (Rounding.trunc 3 (by norm_num)).fl (17 / 16 : ℚ) = 1 :=
  Trunc.tr3_17_16

example : (Rounding.trunc 3 (by norm_num)).fl (17 : ℚ) ≠ 17 := by
  rw [Rounding.trunc_3_fl_17]; norm_num

example : (Rounding.trunc 3 (by norm_num)).N = 8 := rfl

end Gpv

#print axioms Gpv.Rounding.trunc_3_fl_17
#print axioms Gpv.Rounding.trunc_3_fl_17_16
#print axioms Gpv.Rounding.trunc
