/-
  Gpv.Proofs.PipelineRun — progress and a termination measure for the parallel
  generator, the counter shift, and the serial machine's reachability/invariant.
-/
import Gpv.Proofs.PipelineInv

namespace Gpv.Pipe
variable {α β ε : Type}

/-! ### termination measure -/

/-- remaining work of a task: queued → running → finished → taken out -/
def wstat : TStat → Nat
  | .queued => 5
  | .running => 4
  | .finished => 3

def wsum (cache : List (Nat × TStat)) : Nat := (cache.map fun t => wstat t.2).sum

def pcRank : PC → Nat
  | .notStarted => 5
  | .yieldLoop => 5
  | .loopHead => 4
  | .waitLoop => 3
  | .yieldFlush => 2
  | .flushHead => 1
  | _ => 0

/-- 6 per element not yet drawn, 3–5 per task in the window, plus the rank of the program point -/
def mu (xs : List α) (s : PS β ε) : Nat := 6 * (xs.length - s.drawn) + wsum s.cache + pcRank s.pc

@[simp] theorem wsum_nil : wsum [] = 0 := rfl
theorem wsum_cons (t : Nat × TStat) (r : List (Nat × TStat)) : wsum (t :: r) = wstat t.2 + wsum r := by
  simp [wsum]
theorem wsum_append_queued (cache : List (Nat × TStat)) (d : Nat) :
    wsum (cache ++ [(d, .queued)]) = wsum cache + 5 := by
  simp [wsum, wstat]

theorem wsum_setStat (cache : List (Nat × TStat)) (i : Nat) (st0 st : TStat)
    (nd : (cache.map Prod.fst).Nodup) (hq : (i, st0) ∈ cache) :
    wsum (setStat cache i st) + wstat st0 = wsum cache + wstat st := by
  induction cache with
  | nil => simp at hq
  | cons t r ih =>
    have e : setStat (t :: r) i st = (if t.1 = i then (t.1, st) else t) :: setStat r i st := rfl
    simp only [List.map_cons, List.nodup_cons] at nd
    rw [e, wsum_cons, wsum_cons]
    rcases List.mem_cons.1 hq with h | h
    · subst h
      rw [setStat_of_not_mem r i _ nd.1]
      simp; omega
    · have hne : t.1 ≠ i := by
        intro e; apply nd.1; rw [e]; exact List.mem_map.2 ⟨_, h, rfl⟩
      have := ih nd.2 h
      rw [if_neg hne]; omega

theorem exists_running_of_pos (cache : List (Nat × TStat)) (h : 0 < running cache) :
    ∃ j, (j, TStat.running) ∈ cache := by
  unfold running at h
  obtain ⟨t, ht⟩ := List.exists_mem_of_length_pos h
  rw [List.mem_filter] at ht
  refine ⟨t.1, ?_⟩
  have : t.2 = .running := by simpa using ht.2
  rw [← this]; exact ht.1

theorem getStep_isSome {c : Cfg} {xs : List α} {f : α → Outcome β ε} {s : PS β ε} {pY pS : PC}
    {i : Nat} {rest : List (Nat × TStat)} {x : α}
    (hc : s.cache = (i, .finished) :: rest) (hx : xs[i]? = some x) :
    (getStep c xs f s pY pS).isSome = true := by
  unfold getStep
  rw [hc]; simp only [hx]
  cases f x with
  | val v => by_cases hk : keep c v = true <;> simp [hk]
  | err e => simp

/-! ### progress, measure -/
section
variable {c : Cfg} {xs : List α} {tail : Option ε} {f : α → Outcome β ε} {p0 y0 : Nat} {s s' : PS β ε}

theorem GInv.head_idx (g : GInv c xs tail p0 y0 s) {i : Nat} {st : TStat} {rest : List (Nat × TStat)}
    (hc : s.cache = (i, st) :: rest) : i < xs.length := by
  have h5 := g.idx
  have h1 := g.win_le
  have h2 := g.drawn_le
  rw [hc] at h5 h1
  simp only [List.map_cons, List.length_cons, List.range'_succ] at h5 h1
  have := (List.cons.inj h5).1
  omega

/-- no deadlock: in every non-final state reachable under `GInv` some non-abort label is enabled -/
theorem GInv.progress (hw : 1 ≤ c.nworkers) (g : GInv c xs tail p0 y0 s) (hf : s.isFinal = false) :
    ∃ l : Label ε, l.isConsumerAbort = false ∧ (step? c xs tail f s l).isSome = true := by
  have hcl : 1 ≤ c.cachelen := by unfold Cfg.cachelen; omega
  have hwait : (s.pc = .waitLoop ∨ s.pc = .waitFlush) →
      ∃ l : Label ε, l.isConsumerAbort = false ∧ (step? c xs tail f s l).isSome = true := by
    intro hpc
    have halive : s.pool = .alive := g.pool_alive.2 (by rcases hpc with h | h <;> simp [h, PC.inBody])
    have hne : s.cache ≠ [] := by
      rcases hpc with h | h
      · have := g.len_wait hcl h
        intro e; rw [e] at this; simp at this; omega
      · exact g.wf_ne h
    obtain ⟨⟨i, st⟩, rest, hc⟩ := List.exists_cons_of_ne_nil hne
    have hi := g.head_idx hc
    cases st with
    | finished =>
      refine ⟨.get, rfl, ?_⟩
      have hx : xs[i]? = some xs[i] := List.getElem?_eq_getElem hi
      rcases hpc with h | h <;> simp only [step?, h] <;> exact getStep_isSome hc hx
    | running =>
      refine ⟨.finish i, rfl, ?_⟩
      simp only [step?]
      rw [if_pos ⟨halive, .inl (by rw [hc]; exact List.mem_cons_self)⟩]; rfl
    | queued =>
      by_cases hr : running s.cache < c.nworkers
      · refine ⟨.start i, rfl, ?_⟩
        simp only [step?]
        rw [if_pos ⟨halive, by rw [hc]; exact List.mem_cons_self, hr⟩]; rfl
      · obtain ⟨j, hj⟩ := exists_running_of_pos s.cache (by omega)
        refine ⟨.finish j, rfl, ?_⟩
        simp only [step?]
        rw [if_pos ⟨halive, .inl hj⟩]; rfl
  cases hpc : s.pc with
  | notStarted => exact ⟨.next, rfl, by simp [step?, hpc]⟩
  | yieldLoop => exact ⟨.next, rfl, by simp [step?, hpc]⟩
  | yieldFlush => exact ⟨.next, rfl, by simp [step?, hpc]⟩
  | loopHead =>
    refine ⟨.draw, rfl, ?_⟩
    simp only [step?, hpc, if_true]
    split <;> rfl
  | flushHead =>
    refine ⟨.flush, rfl, ?_⟩
    simp only [step?, hpc, if_true]
    split
    · split <;> rfl
    · rfl
  | waitLoop => exact hwait (.inl hpc)
  | waitFlush => exact hwait (.inr hpc)
  | done => simp [PS.isFinal, hpc] at hf
  | failed => simp [PS.isFinal, hpc] at hf
  | closed => simp [PS.isFinal, hpc] at hf


/-- every non-abort step from a non-final state decreases `mu` -/
theorem GInv.measure (g : GInv c xs tail p0 y0 s) (hf : s.isFinal = false) {l : Label ε}
    (hl : l.isConsumerAbort = false) (hs : step? c xs tail f s l = some s') : mu xs s' < mu xs s := by
  cases l with
  | close => cases hl
  | throw e => cases hl
  | next =>
    simp only [step?] at hs
    split at hs <;> (try cases hs) <;> rename_i hpc <;> simp_all [mu, pcRank, PS.isFinal]
  | draw =>
    simp only [step?] at hs
    by_cases hpc : s.pc = .loopHead
    case neg => rw [if_neg hpc] at hs; cases hs
    rw [if_pos hpc] at hs
    split at hs
    · rename_i hlt
      cases hs
      simp only [mu, hpc, wsum_append_queued]
      split <;> simp only [pcRank] <;> omega
    · cases hs
      simp only [mu, hpc, pcRank]; omega
  | flush =>
    simp only [step?] at hs
    by_cases hpc : s.pc = .flushHead
    case neg => rw [if_neg hpc] at hs; cases hs
    rw [if_pos hpc] at hs
    split at hs
    · split at hs <;> cases hs <;> simp only [mu, hpc, pcRank] <;> omega
    · cases hs; simp only [mu, hpc, pcRank]; omega
  | get =>
    have key : ∀ pY pS, pcRank pY ≤ pcRank s.pc + 2 → pcRank pS ≤ pcRank s.pc + 2 →
        Pipe.getStep c xs f s pY pS = some s' → mu xs s' < mu xs s := by
      intro pY pS hY hS h
      obtain ⟨i, rest, x, hc, -, hcase⟩ := getStep_some h
      have hw : wsum s.cache = 3 + wsum rest := by rw [hc, wsum_cons]; rfl
      have hz : pcRank PC.failed = 0 := rfl
      rcases hcase with ⟨v, -, -, rfl⟩ | ⟨v, -, -, rfl⟩ | ⟨e, -, rfl⟩ <;>
        simp only [mu, hw] <;> omega
    simp only [step?] at hs
    split at hs
    · rename_i hpc; exact key _ _ (by simp [hpc, pcRank]) (by simp [hpc, pcRank]) hs
    · rename_i hpc; exact key _ _ (by simp [hpc, pcRank]) (by simp [hpc, pcRank]) hs
    · cases hs
  | start i =>
    simp only [step?] at hs
    split at hs
    · rename_i hc
      cases hs
      have := wsum_setStat s.cache i .queued .running g.nodup hc.2.1
      simp only [mu, wstat] at this ⊢; omega
    · cases hs
  | finish i =>
    simp only [step?] at hs
    split at hs
    · rename_i hc
      cases hs
      rcases hc.2 with hm | ⟨hm, -⟩
      · have := wsum_setStat s.cache i .running .finished g.nodup hm
        simp only [mu, wstat] at this ⊢; omega
      · have := wsum_setStat s.cache i .queued .finished g.nodup hm
        simp only [mu, wstat] at this ⊢; omega
    · cases hs

/-! ### label runs -/

theorem Reach.run (h : Reach c xs tail f p0 y0 s) {ls : List (Label ε)}
    (hr : runLabels c xs tail f s ls = some s') : Reach c xs tail f p0 y0 s' := by
  induction ls generalizing s with
  | nil => cases hr; exact h
  | cons l ls ih =>
    simp only [runLabels] at hr
    cases h1 : step? c xs tail f s l with
    | none => rw [h1] at hr; cases hr
    | some s1 => rw [h1] at hr; exact ih (.step l h h1) hr

theorem ReachN.run (h : ReachN c xs tail f p0 y0 s) {ls : List (Label ε)}
    (hl : ∀ l ∈ ls, l.isConsumerAbort = false)
    (hr : runLabels c xs tail f s ls = some s') : ReachN c xs tail f p0 y0 s' := by
  induction ls generalizing s with
  | nil => cases hr; exact h
  | cons l ls ih =>
    simp only [runLabels] at hr
    cases h1 : step? c xs tail f s l with
    | none => rw [h1] at hr; cases hr
    | some s1 =>
      rw [h1] at hr
      exact ih (.step l h (hl l List.mem_cons_self) h1) (fun l' hl' => hl l' (List.mem_cons_of_mem _ hl')) hr

/-- a run of non-abort labels through non-final states is no longer than `mu` of its start -/
theorem GInv.run_length_le (g : GInv c xs tail p0 y0 s) (ls : List (Label ε))
    (hl : ∀ l ∈ ls, l.isConsumerAbort = false)
    (hnf : ∀ k, k < ls.length → ∀ sk, runLabels c xs tail f s (ls.take k) = some sk → sk.isFinal = false)
    (hr : (runLabels c xs tail f s ls).isSome = true) : ls.length ≤ mu xs s := by
  induction ls generalizing s with
  | nil => simp
  | cons l ls ih =>
    have hf : s.isFinal = false := hnf 0 (by simp) s rfl
    simp only [runLabels] at hr
    cases h1 : step? c xs tail f s l with
    | none => rw [h1] at hr; cases hr
    | some s1 =>
      rw [h1] at hr
      have hm := g.measure hf (hl l List.mem_cons_self) h1
      have := ih (g.step h1) (fun l' hl' => hl l' (List.mem_cons_of_mem _ hl'))
        (fun k hk sk hsk => hnf (k + 1) (by simpa using hk) sk (by
          simp only [List.take_succ_cons, runLabels, h1]; exact hsk)) hr
      simp only [List.length_cons]; omega

end

/-! ### counter shift -/

/-- add `(p, y)` to the two stage counters -/
def PS.shift (p y : Nat) (s : PS β ε) : PS β ε :=
  { s with processed := p + s.processed, yielded := y + s.yielded }

theorem getStep_shift (c : Cfg) (xs : List α) (f : α → Outcome β ε) (p y : Nat) (s : PS β ε) (pY pS : PC) :
    getStep c xs f (s.shift p y) pY pS = (getStep c xs f s pY pS).map (PS.shift p y) := by
  rcases s with ⟨pc, drawn, taken, cache, out, pool, pending, processed, yielded⟩
  rcases cache with _ | ⟨⟨i, st⟩, rest⟩
  · simp [getStep, PS.shift]
  · cases st <;> simp only [getStep, PS.shift, Option.map_none]
    cases xs[i]? with
    | none => simp
    | some x =>
      simp only
      cases f x with
      | val v => by_cases hk : keep c v = true <;> simp [hk, Nat.add_assoc, PS.shift]
      | err e => simp [PS.shift]

theorem step?_shift (c : Cfg) (xs : List α) (tail : Option ε) (f : α → Outcome β ε) (p y : Nat)
    (s : PS β ε) (l : Label ε) :
    step? c xs tail f (s.shift p y) l = (step? c xs tail f s l).map (PS.shift p y) := by
  cases l with
  | get =>
    simp only [step?]
    have : (s.shift p y).pc = s.pc := rfl
    rw [this]
    cases s.pc <;> simp only [getStep_shift, Option.map_none]
  | next =>
    rcases s with ⟨pc, drawn, taken, cache, out, pool, pending, processed, yielded⟩
    cases pc <;> simp [step?, PS.shift]
  | close =>
    rcases s with ⟨pc, drawn, taken, cache, out, pool, pending, processed, yielded⟩
    cases pc <;> simp [step?, PS.shift]
  | throw e =>
    rcases s with ⟨pc, drawn, taken, cache, out, pool, pending, processed, yielded⟩
    cases pc <;> simp [step?, PS.shift]
  | draw =>
    rcases s with ⟨pc, drawn, taken, cache, out, pool, pending, processed, yielded⟩
    by_cases h1 : pc = .loopHead <;> by_cases h2 : drawn < xs.length <;> simp [step?, PS.shift, h1, h2]
  | flush =>
    rcases s with ⟨pc, drawn, taken, cache, out, pool, pending, processed, yielded⟩
    by_cases h1 : pc = .flushHead <;> by_cases h2 : cache = [] <;> cases pending <;>
      simp [step?, PS.shift, h1, h2]
  | start i =>
    simp only [step?]
    by_cases h : s.pool = .alive ∧ (i, TStat.queued) ∈ s.cache ∧ running s.cache < c.nworkers
    · have h' : (s.shift p y).pool = .alive ∧ (i, TStat.queued) ∈ (s.shift p y).cache ∧
          running (s.shift p y).cache < c.nworkers := h
      rw [if_pos h, if_pos h']; rfl
    · have h' : ¬ ((s.shift p y).pool = .alive ∧ (i, TStat.queued) ∈ (s.shift p y).cache ∧
          running (s.shift p y).cache < c.nworkers) := h
      rw [if_neg h, if_neg h']; rfl
  | finish i =>
    simp only [step?]
    by_cases h : s.pool = .alive ∧ ((i, TStat.running) ∈ s.cache ∨
        ((i, TStat.queued) ∈ s.cache ∧ isErrAt xs f i = true))
    · have h' : (s.shift p y).pool = .alive ∧ ((i, TStat.running) ∈ (s.shift p y).cache ∨
          ((i, TStat.queued) ∈ (s.shift p y).cache ∧ isErrAt xs f i = true)) := h
      rw [if_pos h, if_pos h']; rfl
    · have h' : ¬ ((s.shift p y).pool = .alive ∧ ((i, TStat.running) ∈ (s.shift p y).cache ∨
          ((i, TStat.queued) ∈ (s.shift p y).cache ∧ isErrAt xs f i = true))) := h
      rw [if_neg h, if_neg h']; rfl

theorem runLabels_shift (c : Cfg) (xs : List α) (tail : Option ε) (f : α → Outcome β ε) (p y : Nat)
    (s : PS β ε) (ls : List (Label ε)) :
    runLabels c xs tail f (s.shift p y) ls = (runLabels c xs tail f s ls).map (PS.shift p y) := by
  induction ls generalizing s with
  | nil => rfl
  | cons l ls ih =>
    simp only [runLabels, step?_shift]
    cases step? c xs tail f s l with
    | none => rfl
    | some s1 => simp [ih]


section serial
/-! ### the serial machine -/

/-- the call returned (a plain value or an iterator) -/
def SOutcome.returned : SOutcome β ε → Bool
  | .err _ => false
  | _ => true

/-- number of items the result expands to -/
def SOutcome.items : SOutcome β ε → Nat
  | .plain _ => 1
  | .iter l => l.length
  | .err _ => 0

inductive SReach (c : Cfg) (xs : List α) (tail : Option ε) (g : α → SOutcome β ε) (p0 y0 : Nat) :
    SS β ε → Prop where
  | init : SReach c xs tail g p0 y0 (SS.init p0 y0)
  | step {s s' : SS β ε} (l : SLabel ε) : SReach c xs tail g p0 y0 s →
      sstep? c xs tail g s l = some s' → SReach c xs tail g p0 y0 s'

structure SInv (xs : List α) (g : α → SOutcome β ε) (p0 y0 : Nat) (s : SS β ε) : Prop where
  drawn_le : s.drawn ≤ xs.length
  proc : s.processed = p0 + ((xs.take s.drawn).filter fun x => (g x).returned).length
  yld : s.yielded = y0 + nvals s.out
  proc_eq : s.pc ≠ .failed → s.processed = p0 + s.drawn
  proc_le : s.processed ≤ p0 + s.drawn ∧ p0 + s.drawn ≤ s.processed + 1
  pos : s.pc = .atYield ∨ s.pc = .innerHead → 1 ≤ s.drawn
  ns : s.pc = .notStarted → s.drawn = 0 ∧ s.out = []

theorem SInv.init (xs : List α) (g : α → SOutcome β ε) (p0 y0 : Nat) :
    SInv xs g p0 y0 (SS.init p0 y0 : SS β ε) := by
  constructor <;> simp [SS.init]

variable {c : Cfg} {xs : List α} {tail : Option ε} {g : α → SOutcome β ε} {p0 y0 : Nat} {s s' : SS β ε}

theorem SInv.step {l : SLabel ε} (h : SInv xs g p0 y0 s) (hs : sstep? c xs tail g s l = some s') :
    SInv xs g p0 y0 s' := by
  obtain ⟨h1, h2, h3, h4, h5, h6, h7⟩ := h
  cases l with
  | next =>
    simp only [sstep?] at hs
    split at hs <;> (try cases hs) <;> (try exact ⟨h1, h2, h3, h4, h5, h6, h7⟩) <;> rename_i hpc
    all_goals (constructor <;> grind)
  | close =>
    simp only [sstep?] at hs
    split at hs <;> (try cases hs) <;> (try exact ⟨h1, h2, h3, h4, h5, h6, h7⟩) <;> rename_i hpc
    all_goals (constructor <;> grind)
  | throw e =>
    simp only [sstep?] at hs
    split at hs <;> (try cases hs) <;> rename_i hpc
    all_goals (constructor <;> grind [nvals_append, nvals_raised])
  | pull =>
    simp only [sstep?] at hs
    by_cases hpc : s.pc = .innerHead
    case neg => rw [if_neg hpc] at hs; cases hs
    rw [if_pos hpc] at hs
    split at hs
    · cases hs; constructor <;> grind
    · split at hs <;> cases hs
      · constructor <;> grind [nvals_append, nvals_value]
      · constructor <;> grind
  | draw =>
    simp only [sstep?] at hs
    by_cases hpc : s.pc = .loopHead
    case neg => rw [if_neg hpc] at hs; cases hs
    rw [if_pos hpc] at hs
    split at hs
    · rename_i x hx
      have hlt : s.drawn < xs.length := by
        rcases Nat.lt_or_ge s.drawn xs.length with h' | h'
        · exact h'
        · rw [List.getElem?_eq_none h'] at hx; cases hx
      have htake := take_succ_of_getElem? hx
      have hcount : ((xs.take (s.drawn + 1)).filter fun x => (g x).returned).length
          = ((xs.take s.drawn).filter fun x => (g x).returned).length + (if (g x).returned then 1 else 0) := by
        rw [htake, List.filter_append, List.length_append]
        by_cases hr : (g x).returned = true <;> simp [hr]
      split at hs <;> cases hs <;> rename_i hg
      · have hr : (g x).returned = true := by rw [hg]; rfl
        simp only [hr, if_true] at hcount
        constructor <;> grind
      · have hr : (g x).returned = true := by rw [hg]; rfl
        simp only [hr, if_true] at hcount
        constructor <;> grind
      · have hr : (g x).returned = false := by rw [hg]; rfl
        simp only [hr, Bool.false_eq_true, if_false, Nat.add_zero] at hcount
        constructor <;> grind [nvals_append, nvals_raised]
    · split at hs <;> cases hs
      all_goals (constructor <;> grind [nvals_append, nvals_raised, nvals_stop])

theorem SReach.sinv (h : SReach c xs tail g p0 y0 s) : SInv xs g p0 y0 s := by
  induction h with
  | init => exact SInv.init ..
  | step l _ hs ih => exact ih.step hs

end serial

section drive
/-- steps the driver needs from a loop head with these elements still to come -/
def sfuelFrom (g : α → SOutcome β ε) (xs : List α) : Nat :=
  1 + (xs.map fun x => 2 + 2 * (g x).items).sum

/-- sufficient fuel for a whole stream: the first `next`, then `sfuelFrom` -/
def sfuel (g : α → SOutcome β ε) (xs : List α) : Nat := 1 + sfuelFrom g xs

variable {c : Cfg} {xs : List α} {tail : Option ε} {g : α → SOutcome β ε}

theorem sdrive_final (fuel : Nat) (s : SS β ε) (h : s.pc = .done ∨ s.pc = .failed ∨ s.pc = .closed) :
    sdrive c xs tail g fuel s = s := by
  cases fuel with
  | zero => rfl
  | succ n => rcases h with h | h | h <;> simp [sdrive, h]

theorem sdrive_inner (l : List (Option β)) : ∀ s : SS β ε, s.pc = .innerHead → s.inner = l →
    ∃ t, t ≤ 2 * l.length + 1 ∧ ∃ s' : SS β ε, s'.pc = .loopHead ∧ s'.drawn = s.drawn ∧
      s'.out = s.out ++ (l.filter (keep c)).map Obs.value ∧
      ∀ fuel, t ≤ fuel → sdrive c xs tail g fuel s = sdrive c xs tail g (fuel - t) s' := by
  induction l with
  | nil =>
    intro s hpc hin
    refine ⟨1, by simp, { s with pc := .loopHead }, rfl, rfl, by simp, ?_⟩
    intro fuel hf
    obtain ⟨n, rfl⟩ : ∃ n, fuel = n + 1 := ⟨fuel - 1, by omega⟩
    simp [sdrive, hpc, sstep?, hin]
  | cons r rest ih =>
    intro s hpc hin
    by_cases hk : keep c r = true
    · let s2 : SS β ε := { s with inner := rest, pulls := s.pulls + 1, yielded := s.yielded + 1,
                                   out := s.out ++ [.value r], pc := .innerHead }
      obtain ⟨t, ht, s', h1, h2, h3, h4⟩ := ih s2 rfl rfl
      refine ⟨t + 2, by simp; omega, s', h1, h2, by simp [h3, s2, hk], ?_⟩
      intro fuel hf
      obtain ⟨n, rfl⟩ : ∃ n, fuel = n + 2 := ⟨fuel - 2, by omega⟩
      have := h4 n (by omega)
      simp [sdrive, hpc, sstep?, hin, hk]
      exact this
    · let s2 : SS β ε := { s with inner := rest, pulls := s.pulls + 1, pc := .innerHead }
      obtain ⟨t, ht, s', h1, h2, h3, h4⟩ := ih s2 rfl rfl
      refine ⟨t + 1, by simp; omega, s', h1, h2, by simp [h3, s2, hk], ?_⟩
      intro fuel hf
      obtain ⟨n, rfl⟩ : ∃ n, fuel = n + 1 := ⟨fuel - 1, by omega⟩
      have := h4 n (by omega)
      simp [sdrive, hpc, sstep?, hin, hk]
      exact this

theorem sdrive_outer (n : Nat) : ∀ s : SS β ε, s.pc = .loopHead → xs.length - s.drawn = n →
    s.drawn ≤ xs.length → ∀ fuel, sfuelFrom g (xs.drop s.drawn) ≤ fuel →
    (sdrive c xs tail g fuel s).out = s.out ++ sspec c g tail (xs.drop s.drawn) := by
  induction n with
  | zero =>
    intro s hpc hn hle fuel hf
    have hd : xs.length ≤ s.drawn := by omega
    have hnone : xs[s.drawn]? = none := List.getElem?_eq_none hd
    rw [List.drop_eq_nil_of_le hd] at hf ⊢
    obtain ⟨m, rfl⟩ : ∃ m, fuel = m + 1 := ⟨fuel - 1, by simp [sfuelFrom] at hf; omega⟩
    cases tail with
    | none =>
      simp only [sdrive, hpc, sstep?, if_true, hnone, Option.getD_some]
      rw [sdrive_final _ _ (.inl rfl)]; simp [sspec]
    | some e =>
      simp only [sdrive, hpc, sstep?, if_true, hnone, Option.getD_some]
      rw [sdrive_final _ _ (.inr (.inl rfl))]; simp [sspec]
  | succ n ih =>
    intro s hpc hn hle fuel hf
    have hlt : s.drawn < xs.length := by omega
    have hx : xs[s.drawn]? = some xs[s.drawn] := List.getElem?_eq_getElem hlt
    rw [List.drop_eq_getElem_cons hlt] at hf ⊢
    generalize xs[s.drawn] = x at hx hf ⊢
    simp only [sfuelFrom, List.map_cons, List.sum_cons] at hf
    obtain ⟨m, rfl⟩ : ∃ m, fuel = m + 1 := ⟨fuel - 1, by omega⟩
    have inner : ∀ (l : List (Option β)), (g x).items = l.length →
        expand c (g x) = (l.filter (keep c)).map Obs.value → (∀ e, g x ≠ .err e) →
        (sdrive c xs tail g m
          { s with drawn := s.drawn + 1, processed := s.processed + 1, inner := l, pulls := 0, pc := .innerHead }).out
          = s.out ++ sspec c g tail (x :: xs.drop (s.drawn + 1)) := by
      intro l hl hex hne
      obtain ⟨t, ht, s', h1, h2, h3, h4⟩ := sdrive_inner (c := c) (xs := xs) (tail := tail) (g := g) l
        { s with drawn := s.drawn + 1, processed := s.processed + 1, inner := l, pulls := 0, pc := .innerHead }
        rfl rfl
      rw [h4 m (by omega)]
      simp only at h2
      have := ih s' h1 (by omega) (by omega) (m - t) (by rw [h2]; simp only [sfuelFrom]; omega)
      rw [this, h3, h2]
      have hs : sspec c g tail (x :: xs.drop (s.drawn + 1))
          = expand c (g x) ++ sspec c g tail (xs.drop (s.drawn + 1)) := by
        cases hg : g x with
        | err e => exact absurd hg (hne e)
        | plain v => simp [sspec, hg]
        | iter l' => simp [sspec, hg]
      rw [hs, hex]; simp
    cases hg : g x with
    | err e =>
      simp only [sdrive, hpc, sstep?, if_true, hx, hg, Option.getD_some]
      rw [sdrive_final _ _ (.inr (.inl rfl))]; simp [sspec, hg]
    | plain v =>
      simp only [sdrive, hpc, sstep?, if_true, hx, hg, Option.getD_some]
      refine inner [v] (by simp [hg, SOutcome.items]) ?_ (by simp [hg])
      by_cases hk : keep c v = true <;> simp [hg, expand, hk]
    | iter l =>
      simp only [sdrive, hpc, sstep?, if_true, hx, hg, Option.getD_some]
      exact inner l (by simp [hg, SOutcome.items]) (by simp [hg, expand]) (by simp [hg])

/-- the serial machine driven to the end delivers its specification, for every sufficient fuel -/
theorem sdrive_init (p0 y0 fuel : Nat) (hf : sfuel g xs ≤ fuel) :
    (sdrive c xs tail g fuel (SS.init p0 y0)).out = sspec c g tail xs := by
  obtain ⟨m, rfl⟩ : ∃ m, fuel = m + 1 := ⟨fuel - 1, by simp [sfuel] at hf; omega⟩
  simp only [sdrive, SS.init, sstep?, Option.getD_some]
  have := sdrive_outer (c := c) (xs := xs) (tail := tail) (g := g) xs.length
    { pc := .loopHead, drawn := 0, inner := [], pulls := 0, out := [], processed := p0, yielded := y0 }
    rfl rfl (Nat.zero_le _) m (by simp only [List.drop_zero]; simp only [sfuel] at hf; omega)
  simpa using this

end drive

end Gpv.Pipe
