/-
  Helper lemmas for C08: the numpy-style model `P2.push` (0-based ranks stored in the field,
  "compute both then select") refines Box 1 of the paper (`Gpv.Ref`, 1-based integer positions).
-/
import Gpv.Proofs.P2Alg
import Gpv.Spec.P2Paper
import Mathlib.Algebra.Order.Ring.Cast
set_option linter.unusedSectionVars false

namespace Gpv
variable {K : Type} [Field K] [LinearOrder K] [IsStrictOrderedRing K]

/-- marker arrays of the model (`h`, `pos`) against those of the paper (`q`, `n`):
    same heights, and paper position = model rank + 1 -/
structure ArrRel (h pos : List K) (q : List K) (n : List ℤ) : Prop where
  heq : q = h
  len : n.length = pos.length
  pos : ∀ j, j < pos.length → ((n.getD j 0 : ℤ) : K) = nth pos j + 1

/-- abstraction relation between the model state and the paper state -/
structure Abs (s : P2 K) (r : Ref.State K) : Prop where
  p : r.p = s.q
  N : r.N = s.n
  arr : ArrRel s.h s.pos r.q r.n

theorem Ref.qAt_succ (q : List K) (j : ℕ) : Ref.qAt q (j + 1) = nth q j := by
  simp [Ref.qAt, nth]

theorem sgn_cast (a : K) : ((Ref.sgn a : ℤ) : K) = sign a := by
  simp only [Ref.sgn, sign, Nat.cast_zero, Nat.cast_one]
  split_ifs <;> simp

theorem ArrRel.nAt {h pos q : List K} {n : List ℤ} (r : ArrRel h pos q n) {j : ℕ}
    (hj : j < pos.length) : ((Ref.nAt n (j + 1) : ℤ) : K) = nth pos j + 1 := by
  simpa [Ref.nAt] using r.pos j hj

theorem ArrRel.set {h pos q : List K} {n : List ℤ} (r : ArrRel h pos q n) (j : ℕ) (v : K)
    (z : ℤ) (w : K) (hz : (z : K) = w + 1) :
    ArrRel (h.set j v) (pos.set j w) (q.set j v) (n.set j z) := by
  refine ⟨by rw [r.heq], by simp [r.len], fun k hk => ?_⟩
  rw [List.length_set] at hk
  by_cases e : j = k
  · subst e
    rw [nth_set_eq _ _ _ hk]
    have : (n.set j z).getD j 0 = z := by simp [r.len, hk]
    rw [this, hz]
  · rw [nth_set_ne _ _ e]
    have : (n.set j z).getD k 0 = n.getD k 0 := by simp [List.getElem?_set_ne e]
    rw [this]; exact r.pos k hk

/-- step B3 of the paper at marker `j+1` is the model's `adjustOne` at index `j` -/
theorem ArrRel.b3 {h pos q : List K} {n : List ℤ} (r : ArrRel h pos q n) (p : List K) (N j : ℕ)
    (hj1 : 1 ≤ j) (hj : j + 1 < pos.length) :
    ArrRel (adjustOne p N (h, pos) j).1 (adjustOne p N (h, pos) j).2
      (Ref.b3 p (N + 1) (q, n) (j + 1)).1 (Ref.b3 p (N + 1) (q, n) (j + 1)).2 := by
  have hq := r.heq
  subst hq
  have ea := r.nAt (show j - 1 < pos.length by omega)
  have eb := r.nAt (show j < pos.length by omega)
  have ec := r.nAt hj
  rw [Nat.sub_add_cancel hj1] at ea
  set a := Ref.nAt n j with ha
  set b := Ref.nAt n (j + 1) with hb
  set c := Ref.nAt n (j + 1 + 1) with hc
  have eba : (b : K) - a = nth pos j - nth pos (j - 1) := by rw [ea, eb]; ring
  have eab : (a : K) - b = nth pos (j - 1) - nth pos j := by rw [ea, eb]; ring
  have ecb : (c : K) - b = nth pos (j + 1) - nth pos j := by rw [ec, eb]; ring
  have eca : (c : K) - a = nth pos (j + 1) - nth pos (j - 1) := by rw [ec, ea]; ring
  have edi : Ref.desired p (N + 1) (j + 1) - (b : K) = nth p j * (N : K) - nth pos j := by
    rw [Ref.desired, Ref.qAt_succ, eb]; push_cast; ring
  have cr : (c - b > 1) ↔ (1 : K) < nth pos (j + 1) - nth pos j := by
    rw [← ecb, gt_iff_lt, ← Int.cast_lt (R := K)]; push_cast; rfl
  have cl : (a - b < -1) ↔ nth pos (j - 1) - nth pos j < (-1 : K) := by
    rw [← eab, ← Int.cast_lt (R := K)]; push_cast; rfl
  simp only [adjustOne, Ref.b3, Nat.cast_zero, Nat.cast_one, Nat.add_sub_cancel, ← ha, ← hb, ← hc,
    edi, cr, cl]
  by_cases hstep : (nth p j * (N : K) - nth pos j ≤ -1 ∧ nth pos (j - 1) - nth pos j < -1) ∨
      (1 ≤ nth p j * (N : K) - nth pos j ∧ 1 < nth pos (j + 1) - nth pos j)
  · rw [if_pos hstep, if_pos (Or.symm hstep)]
    have hpar : Ref.parabolic q n (j + 1) (Ref.sgn (nth p j * (N : K) - nth pos j)) =
        parabolic (nth q (j - 1)) (nth q j) (nth q (j + 1)) (nth pos (j - 1)) (nth pos j)
          (nth pos (j + 1)) (sign (nth p j * (N : K) - nth pos j)) := by
      simp only [Ref.parabolic, parabolic, Nat.add_sub_cancel, ← ha, ← hb, ← hc, eca, eba, ecb,
        sgn_cast, Ref.qAt_succ]
      rw [← Nat.sub_add_cancel hj1, Ref.qAt_succ, Nat.sub_add_cancel hj1]
    have hlin : Ref.linear q n (j + 1) (Ref.sgn (nth p j * (N : K) - nth pos j)) =
        linear (nth q j)
          (if sign (nth p j * (N : K) - nth pos j) < 0 then nth q (j - 1) else nth q (j + 1))
          (nth pos j)
          (if sign (nth p j * (N : K) - nth pos j) < 0 then nth pos (j - 1) else nth pos (j + 1))
          (sign (nth p j * (N : K) - nth pos j)) := by
      rcases hstep with ⟨hd, _⟩ | ⟨hd, _⟩
      · have hs : Ref.sgn (nth p j * (N : K) - nth pos j) = -1 := by
          simp [Ref.sgn, show nth p j * (N : K) - nth pos j < 0 by linarith,
            show ¬ (0 < nth p j * (N : K) - nth pos j) by linarith]
        have hi : ((↑(j + 1) : ℤ) + -1).toNat = j := by omega
        rw [sign_neg (by linarith), hs]
        simp only [Ref.linear, linear, hi, ← ha, ← hb, Ref.qAt_succ, neg_lt_zero, zero_lt_one,
          if_true, Int.cast_neg, Int.cast_one, eab]
        rw [← Nat.sub_add_cancel hj1, Ref.qAt_succ, Nat.sub_add_cancel hj1, mul_div_assoc]
      · have hs : Ref.sgn (nth p j * (N : K) - nth pos j) = 1 := by
          simp [Ref.sgn, show 0 < nth p j * (N : K) - nth pos j by linarith]
        have hi : ((↑(j + 1) : ℤ) + 1).toNat = j + 1 + 1 := by omega
        rw [sign_pos (by linarith), hs]
        simp only [Ref.linear, linear, hi, ← hb, ← hc, Ref.qAt_succ, Int.cast_one, ecb,
          if_neg (not_lt.mpr (zero_le_one (α := K)))]
        rw [mul_div_assoc]
    have hz : ((b + Ref.sgn (nth p j * (N : K) - nth pos j) : ℤ) : K) =
        (nth pos j + sign (nth p j * (N : K) - nth pos j)) + 1 := by
      push_cast; rw [eb, sgn_cast]; ring
    rw [hpar, hlin, Ref.qAt_succ]
    rw [show Ref.qAt q j = nth q (j - 1) by
      rw [← Nat.sub_add_cancel hj1, Ref.qAt_succ, Nat.sub_add_cancel hj1]]
    simp only [Ref.qSet, Ref.nSet, Nat.add_sub_cancel]
    split_ifs <;> exact r.set j _ _ _ hz
  · rw [if_neg hstep, if_neg (fun h => hstep (Or.symm h))]
    exact r

theorem adjustOne_pos_length (p : List K) (N : ℕ) (h pos : List K) (j : ℕ) :
    (adjustOne p N (h, pos) j).2.length = pos.length := by
  simp only [adjustOne]; split_ifs <;> simp

/-- the B3 loop: markers 2..m-1 of the paper = indices 1..m-2 of the model -/
theorem ArrRel.fold (p : List K) (N m : ℕ) (l : List ℕ) (hl : ∀ j ∈ l, 1 ≤ j ∧ j + 1 < m) :
    ∀ (h pos q : List K) (n : List ℤ), ArrRel h pos q n → pos.length = m →
      ArrRel (l.foldl (adjustOne p N) (h, pos)).1 (l.foldl (adjustOne p N) (h, pos)).2
        ((l.map (· + 1)).foldl (Ref.b3 p (N + 1)) (q, n)).1
        ((l.map (· + 1)).foldl (Ref.b3 p (N + 1)) (q, n)).2 := by
  induction l with
  | nil => intro h pos q n r _; exact r
  | cons j l ih =>
    intro h pos q n r hlen
    obtain ⟨hj1, hj⟩ := hl j (by simp)
    have r' := r.b3 p N j hj1 (by omega)
    rw [List.map_cons, List.foldl_cons, List.foldl_cons]
    have hl' : (adjustOne p N (h, pos) j).2.length = m := by rw [adjustOne_pos_length, hlen]
    exact ih (fun k hk => hl k (by simp [hk])) (adjustOne p N (h, pos) j).1
      (adjustOne p N (h, pos) j).2 _ _ r' hl'

theorem nth_cons_succ (a : K) (t : List K) (j : ℕ) : nth (a :: t) (j + 1) = nth t j := by
  simp [nth]

/-- in a sorted list the elements `< x` are exactly the first `c` ones, `c` their number -/
theorem sorted_filter_lt (x : K) : ∀ (l : List K), l.Pairwise (· ≤ ·) → ∀ j, j < l.length →
    (nth l j < x ↔ j < (l.filter fun a => decide (a < x)).length) := by
  intro l
  induction l with
  | nil => intro _ j hj; simp at hj
  | cons a t ih =>
    intro hs j hj
    rw [List.pairwise_cons] at hs
    by_cases c : a < x
    · rw [List.filter_cons_of_pos (by simpa using c)]
      rcases j with _ | j
      · simp [nth, c]
      · rw [nth_cons_succ, ih hs.2 j (by simpa using hj)]; simp
    · have hall : ∀ b ∈ a :: t, ¬ b < x := by
        intro b hb
        rcases List.mem_cons.mp hb with rfl | hb
        · exact c
        · exact fun hbx => c (lt_of_le_of_lt (hs.1 b hb) hbx)
      have he : (List.filter (fun a => decide (a < x)) (a :: t)) = [] := by
        rw [List.filter_eq_nil_iff]; intro b hb; simpa using hall b hb
      rw [he]
      have : nth (a :: t) j ∈ a :: t := mem_iff_nth.mpr ⟨j, hj, rfl⟩
      simpa using hall _ this

theorem placeObs_snd (h pos : List K) (x : K) :
    (placeObs h pos x).2 = pos.mapIdx fun j p =>
      if 1 ≤ j ∧ x ≤ nth (placeObs h pos x).1 j then p + 1 else p := by
  simp only [placeObs, Nat.cast_one]

/-- steps B1 (heights and cell) against the model's `placeObs` -/
theorem b1_placeObs {m : ℕ} {h pos : List K} (ok : Marks m h pos) (hm : 2 ≤ m) (x : K) :
    (Ref.b1 h x).1 = (placeObs h pos x).1 ∧
      ∀ j, j < m → ((Ref.b1 h x).2 ≤ j ↔ 1 ≤ j ∧ x ≤ nth (placeObs h pos x).1 j) := by
  have hlen := ok.hlen
  have q1 : Ref.qAt h 1 = nth h 0 := Ref.qAt_succ h 0
  have qm : Ref.qAt h m = nth h (m - 1) := by
    rw [← Nat.sub_add_cancel (show 1 ≤ m by omega), Ref.qAt_succ, Nat.add_sub_cancel]
  have hP : (placeObs h pos x).1 =
      (h.set 0 (if x < nth h 0 then x else nth h 0)).set (m - 1)
        (if nth (h.set 0 (if x < nth h 0 then x else nth h 0)) (m - 1) < x then x
          else nth (h.set 0 (if x < nth h 0 then x else nth h 0)) (m - 1)) := by
    simp only [placeObs, hlen]
  simp only [Ref.b1, hlen, q1, qm, Ref.qSet, Nat.sub_self]
  rw [hP]
  by_cases c0 : x < nth h 0
  · have c1 : ¬ nth h (m - 1) < x := by
      have := ok.h_le (Nat.zero_le (m - 1)) (by omega)
      intro h'; linarith
    rw [if_pos c0, if_pos c0, nth_set_ne _ _ (by omega), if_neg c1]
    rw [show nth h (m - 1) = nth (h.set 0 x) (m - 1) from (nth_set_ne _ _ (by omega)).symm,
      set_nth_self]
    refine ⟨rfl, fun j hj => ⟨fun h1 => ⟨h1, ?_⟩, fun h1 => h1.1⟩⟩
    rw [nth_set_ne _ _ (by omega)]
    exact c0.le.trans (ok.h_le (Nat.zero_le j) hj)
  · rw [if_neg c0, if_neg c0, set_nth_self]
    by_cases c1 : nth h (m - 1) < x
    · rw [if_pos c1, if_pos c1]
      refine ⟨rfl, fun j hj => ⟨fun h1 => ?_, fun h1 => ?_⟩⟩
      · have : j = m - 1 := by omega
        subst this
        rw [nth_set_eq _ _ _ (by omega)]
        exact ⟨by omega, le_rfl⟩
      · by_contra hc
        rw [nth_set_ne _ _ (by omega)] at h1
        have := ok.h_le (show j ≤ m - 1 by omega) (by omega)
        exact absurd (lt_of_le_of_lt (h1.2.trans this) c1) (lt_irrefl _)
    · rw [if_neg c1, if_neg c1, set_nth_self]
      refine ⟨rfl, fun j hj => ?_⟩
      have hs : h.Pairwise (· ≤ ·) :=
        pairwise_nth.mpr fun i j hij hj => ok.h_le hij.le (by rw [← hlen]; exact hj)
      have hcnt := sorted_filter_lt x h hs
      have hc : (h.filter fun a => decide (a < x)).length ≤ m - 1 := by
        by_contra hc'
        exact c1 ((hcnt (m - 1) (by omega)).mpr (by omega))
      have := hcnt j (by omega)
      simp only [Ref.cell, hlen]
      have e : x ≤ nth h j ↔ ¬ j < (h.filter fun a => decide (a < x)).length := by
        rw [← this]; exact not_lt.symm
      rw [min_eq_right hc, e]
      omega

/-- steps B1 + B2 of the paper against the model's `placeObs` -/
theorem ArrRel.b12 {m : ℕ} {h pos q : List K} {n : List ℤ} (r : ArrRel h pos q n)
    (ok : Marks m h pos) (hm : 2 ≤ m) (x : K) :
    ArrRel (placeObs h pos x).1 (placeObs h pos x).2 (Ref.b1 q x).1 (Ref.b2 n (Ref.b1 q x).2) := by
  have hq := r.heq
  subst hq
  obtain ⟨e1, ek⟩ := b1_placeObs ok hm x
  have hlen2 : (placeObs q pos x).2.length = pos.length := by rw [placeObs_snd]; simp
  refine ⟨e1, by rw [hlen2, Ref.b2]; simp [r.len], fun j hj => ?_⟩
  rw [hlen2] at hj
  have hjm : j < m := by rw [← ok.plen]; exact hj
  have hn : (Ref.b2 n (Ref.b1 q x).2).getD j 0 =
      if (Ref.b1 q x).2 + 1 ≤ j + 1 then n.getD j 0 + 1 else n.getD j 0 := by
    simp [Ref.b2, r.len, hj]
  rw [hn, placeObs_snd, nth_mapIdx _ _ hj]
  have := ek j hjm
  by_cases c : (Ref.b1 q x).2 ≤ j
  · rw [if_pos (by omega), if_pos (this.mp c)]; push_cast; rw [r.pos j hj]
  · rw [if_neg (by omega), if_neg (fun h => c (this.mpr h))]; exact r.pos j hj

/-- one observation (after the array is full): the model state refines the paper state -/
theorem Abs.push {s : P2 K} {r : Ref.State K} {xs : List K} (a : Abs s r) (inv : P2.Inv s xs)
    (hm : 2 ≤ s.q.length) (hx : s.q.length ≤ xs.length) (x : K) :
    Abs (s.push x) (Ref.push r x) := by
  have c1 : ¬ (s.n + 1 < s.m) := by rw [inv.n_eq, P2.m]; omega
  have c2 : ¬ (s.n + 1 = s.m) := by rw [inv.n_eq, P2.m]; omega
  have hpush : s.push x = { s with
      h := (adjustAll s.q s.n (placeObs s.h s.pos x).1 (placeObs s.h s.pos x).2).1,
      pos := (adjustAll s.q s.n (placeObs s.h s.pos x).1 (placeObs s.h s.pos x).2).2,
      n := s.n + 1 } := by
    simp only [P2.push, if_neg c1, if_neg c2]
  rw [hpush]
  have r12 := a.arr.b12 inv.marks hm x
  have hl : ∀ j ∈ List.range' 1 (s.q.length - 2), 1 ≤ j ∧ j + 1 < s.q.length := by
    intro i hi; rw [List.mem_range'_1] at hi; omega
  have hlen2 : (placeObs s.h s.pos x).2.length = s.q.length := by
    rw [placeObs_snd]; simp [inv.plen]
  have rf := ArrRel.fold s.q s.n s.q.length _ hl _ _ _ _ r12 hlen2
  have hr : (List.range' 1 (s.q.length - 2)).map (· + 1) = List.range' 2 (s.q.length - 2) := by
    have := List.map_add_range' (a := 1) 1 (s.q.length - 2) 1
    simpa [Nat.add_comm] using this
  rw [hr] at rf
  refine ⟨a.p, by simp [Ref.push, a.N], ?_⟩
  simp only [Ref.push, a.p, a.N]
  exact rf

/-- the paper positions are determined by the model state -/
theorem Abs.unique {s : P2 K} {r r' : Ref.State K} (a : Abs s r) (a' : Abs s r') : r = r' := by
  obtain ⟨p, N, q, n⟩ := r
  obtain ⟨p', N', q', n'⟩ := r'
  have e1 : p = p' := a.p.trans a'.p.symm
  have e2 : N = N' := a.N.trans a'.N.symm
  have e3 : q = q' := a.arr.heq.trans a'.arr.heq.symm
  have e4 : n = n' := by
    apply List.ext_getElem (a.arr.len.trans a'.arr.len.symm)
    intro j h1 h2
    have hj : j < s.pos.length := by rw [← a.arr.len]; exact h1
    have := (a.arr.pos j hj).trans (a'.arr.pos j hj).symm
    have := Int.cast_injective this
    simpa [List.getD_eq_getElem?_getD, h1, h2] using this
  subst e1 e2 e3 e4; rfl

end Gpv
