/-
  Gpv.Proofs.Rounded — the standard abstract model of floating-point arithmetic
  (no overflow, no underflow) over a linearly ordered field `F`.

  * `Rounding F`   : a rounding function `fl : F → F` with the usual laws
                     (monotone, idempotent, sign-symmetric, relative error `≤ u`,
                      integers of magnitude `≤ N` representable);
  * `Fl R`         : the representable numbers `{x // R.fl x = x}` with
                     `+ - * /` = "round the exact result", `NatCast` = "round the integer",
                     order inherited from `F`.

  The generic definitions of `Gpv.Model.P2` (`parabolic`, `linear`, `adjustOne`, … , `P2.push`)
  instantiated at `K := Fl R` ARE the floating-point algorithm in this model.

  Which law is used where is documented at the lemmas; the only place where the relative
  error bound `rel` (and the constant `u_small : (1+u)^2 ≤ 2`) enters is `Rounding.key`,
  the bound on the increment of the linear P² formula.
-/
import Gpv.Model.P2
import Mathlib.Algebra.Order.Field.Basic
import Mathlib.Algebra.Order.Ring.Abs
import Mathlib.Algebra.Order.Ring.Cast
import Mathlib.Order.Monotone.Basic
import Mathlib.Tactic.Ring
import Mathlib.Tactic.Linarith
import Mathlib.Tactic.Positivity
import Mathlib.Data.Nat.Cast.Order.Ring
import Mathlib.Data.Int.Cast.Lemmas
set_option linter.unusedSectionVars false

namespace Gpv

/-- Abstract rounding to a set of representable numbers (the fixed points of `fl`).

    * `mono`, `idem` : `fl` is a monotone projection (every IEEE rounding mode);
    * `neg`          : sign symmetry (round-to-nearest, round-toward-zero; NOT the directed modes);
    * `rel`, `u`     : relative error at most `u` (no underflow);
    * `u_small`      : `(1+u)^2 ≤ 2`, i.e. `u ≤ √2 - 1 ≈ 0.414` — binary64 has `u = 2^-53`;
    * `int_exact`    : integers of magnitude `≤ N` are representable (binary64: `N = 2^53`). -/
structure Rounding (F : Type) [Field F] [LinearOrder F] [IsStrictOrderedRing F] where
  fl : F → F
  mono : Monotone fl
  idem : ∀ x, fl (fl x) = fl x
  neg : ∀ x, fl (-x) = -fl x
  u : F
  u_nonneg : 0 ≤ u
  u_small : (1 + u) ^ 2 ≤ 2
  rel : ∀ x, |fl x - x| ≤ u * |x|
  N : ℕ
  int_exact : ∀ z : ℤ, |z| ≤ (N : ℤ) → fl (z : F) = (z : F)

variable {F : Type} [Field F] [LinearOrder F] [IsStrictOrderedRing F]

namespace Rounding
variable (R : Rounding F)

theorem fl_zero : R.fl 0 = 0 := by
  have := R.int_exact 0 (by simp)
  simpa using this

theorem fl_nat {n : ℕ} (h : n ≤ R.N) : R.fl (n : F) = n := by
  have := R.int_exact (n : ℤ) (by simpa using h)
  simpa using this

theorem fl_one (h : 1 ≤ R.N) : R.fl 1 = 1 := by
  simpa using R.fl_nat h

/-- difference of two small naturals is exact -/
theorem fl_nat_sub {a b : ℕ} (ha : a ≤ R.N) (hb : b ≤ R.N) :
    R.fl ((a : F) - (b : F)) = (a : F) - (b : F) := by
  have := R.int_exact ((a : ℤ) - (b : ℤ)) (by rw [abs_le]; constructor <;> omega)
  simpa using this

theorem fl_nonneg {x : F} (h : 0 ≤ x) : 0 ≤ R.fl x := by
  have := R.mono h; rwa [R.fl_zero] at this

theorem fl_nonpos {x : F} (h : x ≤ 0) : R.fl x ≤ 0 := by
  have := R.mono h; rwa [R.fl_zero] at this

/-- rounding cannot cross a representable number (`mono` + fixed point) -/
theorem fl_le_of_le {x y : F} (hy : R.fl y = y) (h : x ≤ y) : R.fl x ≤ y := by
  have := R.mono h; rwa [hy] at this

theorem le_fl_of_le {x y : F} (hy : R.fl y = y) (h : y ≤ x) : y ≤ R.fl x := by
  have := R.mono h; rwa [hy] at this

/-- `rel` for a non-negative argument -/
theorem fl_le_mul {x : F} (h : 0 ≤ x) : R.fl x ≤ (1 + R.u) * x := by
  have := R.rel x
  rw [abs_of_nonneg h] at this
  have := (abs_le.mp this).2
  linarith

/-- THE numerical fact behind the linear P² formula: for a gap `e ≥ 0` between two heights and
    a rank gap `g ≥ 2`, the computed increment `fl (fl e / g)` lies in `[0, e]`.
    Uses `mono`, `rel` (twice) and `u_small`. -/
theorem key {e g : F} (he : 0 ≤ e) (hg : 2 ≤ g) :
    0 ≤ R.fl (R.fl e / g) ∧ R.fl (R.fl e / g) ≤ e := by
  have hg0 : 0 < g := by linarith
  have h1 : 0 ≤ R.fl e := R.fl_nonneg he
  have h2 : 0 ≤ R.fl e / g := div_nonneg h1 hg0.le
  refine ⟨R.fl_nonneg h2, ?_⟩
  have hu : 0 ≤ 1 + R.u := by linarith [R.u_nonneg]
  have a1 : R.fl (R.fl e / g) ≤ (1 + R.u) * (R.fl e / g) := R.fl_le_mul h2
  have a2 : R.fl e ≤ (1 + R.u) * e := R.fl_le_mul he
  have a3 : R.fl e / g ≤ (1 + R.u) * e / g := div_le_div_of_nonneg_right a2 hg0.le
  have a4 : (1 + R.u) * (R.fl e / g) ≤ (1 + R.u) * ((1 + R.u) * e / g) :=
    mul_le_mul_of_nonneg_left a3 hu
  have a5 : (1 + R.u) * ((1 + R.u) * e / g) = ((1 + R.u) ^ 2 * e) / g := by ring
  have a6 : (1 + R.u) ^ 2 * e ≤ 2 * e := mul_le_mul_of_nonneg_right R.u_small he
  have a7 : ((1 + R.u) ^ 2 * e) / g ≤ (2 * e) / g := div_le_div_of_nonneg_right a6 hg0.le
  have a8 : (2 * e) / g ≤ e := by
    rw [div_le_iff₀ hg0]; nlinarith
  linarith

end Rounding

/-- the identity rounding: exact arithmetic, every integer representable up to any `N` -/
def Rounding.id (F : Type) [Field F] [LinearOrder F] [IsStrictOrderedRing F] (N : ℕ) : Rounding F where
  fl x := x
  mono := monotone_id
  idem _ := rfl
  neg _ := rfl
  u := 0
  u_nonneg := le_rfl
  u_small := by norm_num
  rel x := by simp
  N := N
  int_exact _ _ := rfl

/-! ### the representable numbers -/

/-- the representable numbers of the rounding `R` -/
def Fl (R : Rounding F) : Type := {x : F // R.fl x = x}

namespace Fl
variable {R : Rounding F}

/-- round a field element into `Fl R` -/
def rnd (R : Rounding F) (x : F) : Fl R := ⟨R.fl x, R.idem x⟩

/-- the underlying field element -/
def val (a : Fl R) : F := a.1

theorem val_rep (a : Fl R) : R.fl a.val = a.val := a.2

@[ext] theorem ext {a b : Fl R} (h : a.val = b.val) : a = b := Subtype.ext h

instance : LinearOrder (Fl R) := Subtype.instLinearOrder _

instance : Add (Fl R) := ⟨fun a b => rnd R (a.val + b.val)⟩
instance : Sub (Fl R) := ⟨fun a b => rnd R (a.val - b.val)⟩
instance : Mul (Fl R) := ⟨fun a b => rnd R (a.val * b.val)⟩
instance : Div (Fl R) := ⟨fun a b => rnd R (a.val / b.val)⟩
instance : Neg (Fl R) := ⟨fun a => rnd R (-a.val)⟩
instance : NatCast (Fl R) := ⟨fun n => rnd R (n : F)⟩

@[simp] theorem val_rnd (x : F) : (rnd R x).val = R.fl x := rfl
theorem val_add (a b : Fl R) : (a + b).val = R.fl (a.val + b.val) := rfl
theorem val_sub (a b : Fl R) : (a - b).val = R.fl (a.val - b.val) := rfl
theorem val_mul (a b : Fl R) : (a * b).val = R.fl (a.val * b.val) := rfl
theorem val_div (a b : Fl R) : (a / b).val = R.fl (a.val / b.val) := rfl
theorem val_neg (a : Fl R) : (-a).val = -a.val := by
  show R.fl (-a.val) = -a.val
  rw [R.neg, a.val_rep]
theorem val_natCast (n : ℕ) : ((n : ℕ) : Fl R).val = R.fl (n : F) := rfl

theorem le_iff {a b : Fl R} : a ≤ b ↔ a.val ≤ b.val := Iff.rfl
theorem lt_iff {a b : Fl R} : a < b ↔ a.val < b.val := Iff.rfl

theorem val_nat {n : ℕ} (h : n ≤ R.N) : ((n : ℕ) : Fl R).val = (n : F) := by
  rw [val_natCast, R.fl_nat h]

theorem val_zero : ((0 : ℕ) : Fl R).val = 0 := by
  rw [val_nat (Nat.zero_le _), Nat.cast_zero]

theorem val_one (h : 1 ≤ R.N) : ((1 : ℕ) : Fl R).val = 1 := by
  rw [val_nat h, Nat.cast_one]

end Fl
end Gpv
