/-
  Gpv.Proofs.NetInv — reachability, the inductive invariant, progress and the
  termination measure of the sender/receiver product `Gpv.Model.Net`.
-/
import Gpv.Model.Net

namespace Gpv.Net
variable {α : Type}

/-! ### reachability -/

inductive Reach (xs : List α) : NS α → Prop where
  | init : Reach xs NS.init
  | step {s s' : NS α} {l : Label} : Reach xs s → step? xs s l = some s' → Reach xs s'

theorem Reach.run {xs : List α} {s s' : NS α} (h : Reach xs s) :
    ∀ {ls : List Label}, runLabels xs s ls = some s' → Reach xs s' := by
  intro ls
  induction ls generalizing s with
  | nil => intro hr; simp only [runLabels, Option.some.injEq] at hr; exact hr ▸ h
  | cons l ls ih =>
    intro hr
    simp only [runLabels] at hr
    cases hs : step? xs s l with
    | none => simp [hs] at hr
    | some s1 =>
      simp only [hs, Option.bind_some] at hr
      exact ih (h.step hs) hr

/-! ### program-point bookkeeping -/

/-- requests the sender has received and not yet answered -/
def sPend : SPC α → Nat
  | .sendData _ => 1
  | .sendFin => 1
  | _ => 0

/-- elements drawn for which the request has not been received yet -/
def sAhead : SPC α → Nat
  | .waitReq _ => 1
  | _ => 0

/-- the request answered with the end marker has been received -/
def sFinRound : SPC α → Nat
  | .sendFin => 1
  | .done => 1
  | _ => 0

def sExp : SPC α → Expect
  | .sendData _ => .send
  | .sendFin => .send
  | _ => .recv

def sExhausted : SPC α → Bool
  | .waitLast => true
  | .sendFin => true
  | .done => true
  | _ => false

/-- the element the sender is holding -/
def sHolds : SPC α → Option α
  | .waitReq a => some a
  | .sendData a => some a
  | _ => none

/-- the receiver has sent a request it has not yet turned into a yielded element -/
def rAsked : RPC → Nat
  | .waitRep => 1
  | .done => 1
  | _ => 0

def rDone : RPC → Nat
  | .done => 1
  | _ => 0

def rExp : RPC → Expect
  | .waitRep => .recv
  | _ => .send

/-- `next()` calls of the consumer that have not returned an element -/
def rOutstanding : RPC → Nat
  | .idle => 0
  | _ => 1

def b2n : Bool → Nat
  | true => 1
  | false => 0

/-! ### the invariant -/

structure Inv (xs : List α) (s : NS α) : Prop where
  viol : s.violated = false
  repE : s.repExpect = sExp s.spc
  reqE : s.reqExpect = rExp s.rpc
  pref : xs.take s.received.length = s.received
  /-- requests sent by the receiver = requests seen + the one in flight -/
  req_cnt : s.requestsSeen + b2n s.reqSlot = s.received.length + rAsked s.rpc
  /-- requests seen = replies consumed + reply in flight + reply pending -/
  rep_cnt : s.requestsSeen = s.received.length + rDone s.rpc + b2n s.repSlot.isSome + sPend s.spc
  drawn_cnt : s.drawn + sFinRound s.spc = s.requestsSeen + sAhead s.spc
  drawn_le : s.drawn ≤ xs.length
  exhausted : sExhausted s.spc = true → s.drawn = xs.length
  holds : ∀ a, sHolds s.spc = some a → 0 < s.drawn ∧ xs[s.drawn - 1]? = some a
  slot_data : ∀ a, s.repSlot = some (.data a) → xs[s.received.length]? = some a
  slot_fin : s.repSlot = some .fin → s.spc = .done
  rdone : s.rpc = .done → s.spc = .done

theorem Inv.init (xs : List α) : Inv xs (NS.init : NS α) := by
  constructor <;> simp [NS.init, sExp, rExp, b2n, rAsked, rDone, sPend, sFinRound, sAhead, sExhausted, sHolds]

theorem take_length_le {xs l : List α} (h : xs.take l.length = l) : l.length ≤ xs.length := by
  have := congrArg List.length h
  rw [List.length_take] at this
  omega

section
variable {xs : List α} {s s' : NS α}

theorem Inv.recv_le (h : Inv xs s) : s.received.length ≤ xs.length := take_length_le h.pref

-- unpack the state and the invariant into plain variables and hypotheses
set_option hygiene false in
local macro "unpack " h:ident : tactic => `(tactic| (
  have hle := Inv.recv_le $h
  obtain ⟨spc, rpc, drawn, req, rep, re, qe, seen, recvd, viol⟩ := s
  obtain ⟨hv, hre, hqe, hp, hrc, hpc, hdc, hdl, hex, hho, hsd, hsf, hrd⟩ := $h
  simp only at hv hre hqe hp hrc hpc hdc hdl hex hho hsd hsf hrd hle
  subst hv hre hqe))

local macro "close_inv" : tactic => `(tactic| (
  constructor <;>
    simp_all [sExp, rExp, b2n, rAsked, rDone, sPend, sFinRound, sAhead, sExhausted, sHolds] <;> omega))

theorem Inv.sDraw (h : Inv xs s) (hs : step? xs s .sDraw = some s') : Inv xs s' := by
  unpack h
  cases spc <;> simp only [step?, reduceCtorEq] at hs
  cases hx : xs[drawn]? with
  | some a =>
    simp only [hx, Option.some.injEq] at hs; subst hs
    have hlt : drawn < xs.length := by
      rcases Nat.lt_or_ge drawn xs.length with h | h
      · exact h
      · rw [List.getElem?_eq_none h] at hx; cases hx
    close_inv
  | none =>
    simp only [hx, Option.some.injEq] at hs; subst hs
    have hge : xs.length ≤ drawn := by simpa using hx
    close_inv

theorem Inv.sRecv (h : Inv xs s) (hs : step? xs s .sRecv = some s') : Inv xs s' := by
  unpack h
  cases req <;> cases spc <;>
    simp only [step?, reduceCtorEq, if_true, if_false, Bool.false_eq_true, Option.some.injEq] at hs
  all_goals subst hs
  all_goals close_inv

theorem Inv.sSend (h : Inv xs s) (hs : step? xs s .sSend = some s') : Inv xs s' := by
  unpack h
  cases spc <;> simp only [step?, reduceCtorEq, Option.some.injEq] at hs
  all_goals subst hs
  all_goals cases rep <;> cases rpc
  all_goals close_inv

theorem Inv.rNext (h : Inv xs s) (hs : step? xs s .rNext = some s') : Inv xs s' := by
  unpack h
  cases rpc <;> simp only [step?, reduceCtorEq, Option.some.injEq] at hs
  all_goals subst hs
  all_goals close_inv

theorem Inv.rSend (h : Inv xs s) (hs : step? xs s .rSend = some s') : Inv xs s' := by
  unpack h
  cases rpc <;> simp only [step?, reduceCtorEq, Option.some.injEq] at hs
  all_goals subst hs
  all_goals cases req <;> cases spc
  all_goals close_inv

theorem Inv.rRecv (h : Inv xs s) (hs : step? xs s .rRecv = some s') : Inv xs s' := by
  unpack h
  cases rpc <;> simp only [step?, reduceCtorEq] at hs
  rcases rep with _ | ⟨a | _⟩ <;> simp only [reduceCtorEq, Option.some.injEq] at hs
  all_goals subst hs
  · have hx := hsd a rfl
    have hlt : recvd.length < xs.length := by
      rcases Nat.lt_or_ge recvd.length xs.length with h | h
      · exact h
      · rw [List.getElem?_eq_none h] at hx; cases hx
    have hl : (recvd ++ [a]).length = recvd.length + 1 := by simp
    have hp' : List.take (recvd ++ [a]).length xs = recvd ++ [a] := by
      rw [hl, List.take_add_one, hp, hx]; rfl
    generalize recvd ++ [a] = r' at hl hp' ⊢
    clear hp
    cases spc
    all_goals close_inv
  · have := hsf rfl
    subst this
    close_inv

theorem Inv.step (h : Inv xs s) {l : Label} (hs : step? xs s l = some s') : Inv xs s' := by
  cases l
  · exact h.sDraw hs
  · exact h.sRecv hs
  · exact h.sSend hs
  · exact h.rNext hs
  · exact h.rSend hs
  · exact h.rRecv hs

theorem Reach.inv (h : Reach xs s) : Inv xs s := by
  induction h with
  | init => exact Inv.init xs
  | step _ hs ih => exact ih.step hs

/-! ### progress -/

theorem Inv.progress (h : Inv xs s) (hnf : s.isFinal = false) : ∃ l, (step? xs s l).isSome = true := by
  unpack h
  cases spc
  case loopHead =>
    refine ⟨.sDraw, ?_⟩
    cases hx : xs[drawn]? <;> simp [step?, hx]
  case sendData a => exact ⟨.sSend, by simp [step?]⟩
  case sendFin => exact ⟨.sSend, by simp [step?]⟩
  all_goals cases rpc
  any_goals exact ⟨.rNext, rfl⟩
  any_goals exact ⟨.rSend, rfl⟩
  all_goals
    first
    | (simp [NS.isFinal, SPC.isDone] at hnf; done)
    | (simp at hrd; done)
    | skip
  -- the receiver waits for a reply: either its request or the reply is in flight
  all_goals cases req
  any_goals exact ⟨.sRecv, rfl⟩
  all_goals
    rcases rep with _ | ⟨a | _⟩
    · simp [b2n, rAsked, rDone, sPend, sFinRound, sAhead, sExhausted] at hrc hpc hdc hex; omega
    · exact ⟨.rRecv, by simp [step?]⟩
    · exact ⟨.rRecv, by simp [step?]⟩

/-! ### termination measure -/

/-- remaining socket/source operations of the sender -/
def sRank (n drawn : Nat) : SPC α → Nat
  | .loopHead => 3 * (n - drawn) + 3
  | .waitReq _ => 3 * (n - drawn) + 5
  | .sendData _ => 3 * (n - drawn) + 4
  | .waitLast => 2
  | .sendFin => 1
  | .done => 0

/-- remaining operations of the receiver (a consumer that keeps asking) -/
def rRank (n r : Nat) : RPC → Nat
  | .idle => 3 * (n - r) + 3
  | .sendReq => 3 * (n - r) + 2
  | .waitRep => 3 * (n - r) + 1
  | .done => 0

def mu (xs : List α) (s : NS α) : Nat :=
  sRank xs.length s.drawn s.spc + rRank xs.length s.received.length s.rpc

theorem mu_init (xs : List α) : mu xs (NS.init : NS α) = 6 * xs.length + 6 := by
  simp [mu, NS.init, sRank, rRank]; omega

theorem Inv.measure (h : Inv xs s) {l : Label} (hs : step? xs s l = some s') : mu xs s' < mu xs s := by
  unpack h
  cases l
  case sDraw =>
    cases spc <;> simp only [step?, reduceCtorEq] at hs
    cases hx : xs[drawn]? with
    | some a =>
      simp only [hx, Option.some.injEq] at hs; subst hs
      have hlt : drawn < xs.length := by
        rcases Nat.lt_or_ge drawn xs.length with h | h
        · exact h
        · rw [List.getElem?_eq_none h] at hx; cases hx
      simp [mu, sRank]; omega
    | none =>
      simp only [hx, Option.some.injEq] at hs; subst hs
      simp [mu, sRank]
  case sRecv =>
    cases req <;> cases spc <;>
      simp only [step?, reduceCtorEq, if_true, if_false, Bool.false_eq_true, Option.some.injEq] at hs
    all_goals subst hs
    all_goals simp [mu, sRank]
  case sSend =>
    cases spc <;> simp only [step?, reduceCtorEq, Option.some.injEq] at hs
    all_goals subst hs
    all_goals simp [mu, sRank]
  case rNext =>
    cases rpc <;> simp only [step?, reduceCtorEq, Option.some.injEq] at hs
    subst hs
    simp [mu, rRank]
  case rSend =>
    cases rpc <;> simp only [step?, reduceCtorEq, Option.some.injEq] at hs
    subst hs
    simp [mu, rRank]
  case rRecv =>
    cases rpc <;> simp only [step?, reduceCtorEq] at hs
    rcases rep with _ | ⟨a | _⟩ <;> simp only [reduceCtorEq, Option.some.injEq] at hs
    all_goals subst hs
    · have hx := hsd a rfl
      have hlt : recvd.length < xs.length := by
        rcases Nat.lt_or_ge recvd.length xs.length with h | h
        · exact h
        · rw [List.getElem?_eq_none h] at hx; cases hx
      simp [mu, rRank]; omega
    · simp [mu, rRank]

theorem Reach.run_length (h : Reach xs s) :
    ∀ {ls : List Label}, runLabels xs s ls = some s' → ls.length + mu xs s' ≤ mu xs s := by
  intro ls
  induction ls generalizing s with
  | nil => intro hr; simp only [runLabels, Option.some.injEq] at hr; subst hr; simp
  | cons l ls ih =>
    intro hr
    simp only [runLabels] at hr
    cases hs : step? xs s l with
    | none => simp [hs] at hr
    | some s1 =>
      simp only [hs, Option.bind_some] at hr
      have h1 := ih (h.step hs) hr
      have h2 := h.inv.measure hs
      simp only [List.length_cons]; omega

end
end Gpv.Net
