/-
  Rounding-error analysis of ONE ENTRY `(i, j)` of the exponential running COVARIANCE
  (`RCov2.push`, Gpv/Model/Running.lean; Python `RunningCovariance`, whose `_accumulate_obj` is
  `Covariance._accumulate_obj` acting on two `RunningMean`s — the vector `mean` and the matrix
  `_cov` — with the same lifetime):

      delta1 = obj - mean.acc                       -- the OLD mean (component i is used)
      mean   = mean.push obj                        -- running-mean step, weight a = max(alpha, 1/n')
      delta2 = obj - mean.acc                       -- the NEW mean (component j is used)
      _cov   = _cov.push (outer(delta1, delta2))    -- entry (i, j): delta1[i] * delta2[j]; same a

  in the standard model of `Gpv/Proofs/FloatMean.lean` (`Rnd u e r : r = e (1 + δ), |δ| ≤ u`)
  on top of the running-mean step `FlRStep` of `Gpv/Proofs/FloatRunning.lean`.  The exact
  reference is the two-component model `RCov2` (components `x = obj[i]`, `y = obj[j]`).

  One float step of the entry performs FIFTEEN rounded operations (δ's arbitrary, independent):
      `d1  = fl(xi − mi)`,
      `mi' =` float running-mean step of `mi` with `xi`      (4 roundings, `FlRStep`),
      `mj' =` float running-mean step of `mj` with `xj`      (4 roundings, `FlRStep`),
      `d2  = fl(xj − mj')`,  `q = fl(d1 · d2)`,
      `c'  =` float running-mean step of `c` with `q`        (4 roundings, `FlRStep`).
  As in `FloatRunning.lean` the weight `a` of a step is GIVEN (the float the program holds after
  `max(alpha, 1/n')`, a number in `[0, 1]`, the same for all three accumulators because they share
  `alpha` and the count) and the exact reference uses the SAME weights; counts are exact.
  A run is over a list of triples `(weight, xi, xj)` from a state `(mi, mj, c)`.

  Differences to the variance (`FloatRunningVar.lean`): two mean components evolve (both
  within `M`), the product `d1·d2` has no sign (`|q| ≤ (1+u)³(2M + Em)²` still) and the exact
  entry lies in `[−4M², 4M²]` instead of `[0, 4M²]`.  The bounds `rvMq`, `rvG`, the scalar step
  inequality `rv_step_scalar`, the steady state `steady_var` and the constants `rvE_le` of the
  variance are reused unchanged.

  Main results: `FlRCStep.inv`, `FlRCRun.inv` (a ball `|mi − μi|, |mj − μj| ≤ Em`, `|c − w| ≤ E`
  around the exact run that every float step maps into itself — hence no growth with the number
  of steps), `foldl_rcpush` / `RCov2.run_eq_wcrun` (the reference recursion IS the model),
  `flRCStep_diag_iff`, `FlRVRun.to_cov` (the diagonal).
-/
import Gpv.Proofs.FloatRunningVar
set_option linter.unusedSectionVars false

namespace Gpv
variable {K : Type} [Field K] [LinearOrder K] [IsStrictOrderedRing K]

/-! ### the exact recursion -/

/-- the exact step: `μi' = μi(1−a) + xi a`, `μj' = μj(1−a) + xj a`,
    `w' = w(1−a) + (xi − μi)(xj − μj') a` -/
def wcstep (a μi μj w xi xj : K) : K × K × K :=
  (wstep a μi xi, wstep a μj xj, wstep a w ((xi - μi) * (xj - wstep a μj xj)))

/-- the exact recursion over a list of `(weight, xi, xj)` triples, from `(μi, μj, w)` -/
def wcrun (μi μj w : K) : List (K × K × K) → K × K × K
  | [] => (μi, μj, w)
  | p :: ps => wcrun (wcstep p.1 μi μj w p.2.1 p.2.2).1 (wcstep p.1 μi μj w p.2.1 p.2.2).2.1
      (wcstep p.1 μi μj w p.2.1 p.2.2).2.2 ps

theorem wcrun_nil (μi μj w : K) : wcrun μi μj w [] = (μi, μj, w) := rfl

theorem wcrun_cons (μi μj w : K) (p : K × K × K) (ps : List (K × K × K)) :
    wcrun μi μj w (p :: ps)
      = wcrun (wcstep p.1 μi μj w p.2.1 p.2.2).1 (wcstep p.1 μi μj w p.2.1 p.2.2).2.1
          (wcstep p.1 μi μj w p.2.1 p.2.2).2.2 ps := rfl

/-- the steps seen by the first mean component -/
def stepsI (ps : List (K × K × K)) : List (K × K) := ps.map fun t => (t.1, t.2.1)

/-- the steps seen by the second mean component -/
def stepsJ (ps : List (K × K × K)) : List (K × K) := ps.map fun t => (t.1, t.2.2)

/-- the first mean component of the exact recursion is the running-mean recursion -/
theorem wcrun_fst (μi μj w : K) (ps : List (K × K × K)) :
    (wcrun μi μj w ps).1 = wrun μi (stepsI ps) := by
  induction ps generalizing μi μj w with
  | nil => rfl
  | cons p ps ih => rw [wcrun_cons, ih]; rfl

/-- the second mean component of the exact recursion is the running-mean recursion -/
theorem wcrun_snd (μi μj w : K) (ps : List (K × K × K)) :
    (wcrun μi μj w ps).2.1 = wrun μj (stepsJ ps) := by
  induction ps generalizing μi μj w with
  | nil => rfl
  | cons p ps ih => rw [wcrun_cons, ih]; rfl

/-! ### the float step and run -/

/-- one floating-point `RCov2.push` with the given weight `a`, in program order:
    `d1 = fl(xi − mi)`, `mi' =` float running-mean step, `mj' =` float running-mean step,
    `d2 = fl(xj − mj')`, `q = fl(d1 * d2)`, `c' =` float running-mean step of the `_cov`
    entry fed `q` -/
def FlRCStep (u a mi mj c xi xj mi' mj' c' : K) : Prop :=
  ∃ d1 d2 q : K, Rnd u (xi - mi) d1 ∧ FlRStep u a mi xi mi' ∧ FlRStep u a mj xj mj'
    ∧ Rnd u (xj - mj') d2 ∧ Rnd u (d1 * d2) q ∧ FlRStep u a c q c'

/-- `(mi', mj', c')` is a possible floating-point state `(mean.acc[i], mean.acc[j], _cov.acc[i,j])`
    after the steps `ps`, started at `(mi, mj, c)` -/
def FlRCRun (u : K) (mi mj c : K) : List (K × K × K) → K → K → K → Prop
  | [], mi', mj', c' => mi' = mi ∧ mj' = mj ∧ c' = c
  | p :: ps, mi', mj', c' => ∃ mi1 mj1 c1, FlRCStep u p.1 mi mj c p.2.1 p.2.2 mi1 mj1 c1
      ∧ FlRCRun u mi1 mj1 c1 ps mi' mj' c'

theorem flRCRun_nil_iff (u mi mj c mi' mj' c' : K) :
    FlRCRun u mi mj c [] mi' mj' c' ↔ mi' = mi ∧ mj' = mj ∧ c' = c := Iff.rfl

theorem flRCRun_cons_iff (u mi mj c : K) (p : K × K × K) (ps : List (K × K × K)) (mi' mj' c' : K) :
    FlRCRun u mi mj c (p :: ps) mi' mj' c'
      ↔ ∃ mi1 mj1 c1, FlRCStep u p.1 mi mj c p.2.1 p.2.2 mi1 mj1 c1
          ∧ FlRCRun u mi1 mj1 c1 ps mi' mj' c' := Iff.rfl

theorem FlRCStep.mono {u u' : K} (h : u ≤ u') {a mi mj c xi xj mi' mj' c' : K} :
    FlRCStep u a mi mj c xi xj mi' mj' c' → FlRCStep u' a mi mj c xi xj mi' mj' c' := by
  rintro ⟨d1, d2, q, h1, h2, h3, h4, h5, h6⟩
  exact ⟨d1, d2, q, h1.mono h, h2.mono h, h3.mono h, h4.mono h, h5.mono h, h6.mono h⟩

theorem FlRCRun.mono {u u' : K} (h : u ≤ u') {ps : List (K × K × K)} {mi mj c mi' mj' c' : K}
    (hr : FlRCRun u mi mj c ps mi' mj' c') : FlRCRun u' mi mj c ps mi' mj' c' := by
  induction ps generalizing mi mj c with
  | nil => exact hr
  | cons p ps ih =>
    obtain ⟨mi1, mj1, c1, hs, hr'⟩ := hr
    exact ⟨mi1, mj1, c1, hs.mono h, ih hr'⟩

/-- the exact step is a possible float step -/
theorem FlRCStep.exact {u : K} (hu : 0 ≤ u) (a mi mj c xi xj : K) :
    FlRCStep u a mi mj c xi xj (wcstep a mi mj c xi xj).1 (wcstep a mi mj c xi xj).2.1
      (wcstep a mi mj c xi xj).2.2 :=
  ⟨_, _, _, Rnd.exact hu _, FlRStep.exact hu a mi xi, FlRStep.exact hu a mj xj, Rnd.exact hu _,
    Rnd.exact hu _, FlRStep.exact hu a c _⟩

theorem flRCStep_zero_iff (a mi mj c xi xj mi' mj' c' : K) :
    FlRCStep 0 a mi mj c xi xj mi' mj' c'
      ↔ mi' = (wcstep a mi mj c xi xj).1 ∧ mj' = (wcstep a mi mj c xi xj).2.1
          ∧ c' = (wcstep a mi mj c xi xj).2.2 := by
  constructor
  · rintro ⟨d1, d2, q, h1, h2, h3, h4, h5, h6⟩
    rw [rnd_zero_iff] at h1 h4 h5
    rw [flRStep_zero_iff] at h2 h3 h6
    subst h1 h2 h3 h4 h5
    exact ⟨rfl, rfl, h6⟩
  · rintro ⟨rfl, rfl, rfl⟩; exact FlRCStep.exact le_rfl a mi mj c xi xj

/-- a float step from explicit relative errors: `ε` for the three operations of the increment,
    `a₁…a₄` for the step of `mi`, `b₁…b₄` for the step of `mj`, `g₁…g₄` for the `_cov` step -/
theorem flRCStep_of_deltas {u : K} (a mi mj c xi xj ε1 ε2 ε3 a1 a2 a3 a4 b1 b2 b3 b4 g1 g2 g3 g4 : K)
    (h1 : |ε1| ≤ u) (h2 : |ε2| ≤ u) (h3 : |ε3| ≤ u)
    (ha1 : |a1| ≤ u) (ha2 : |a2| ≤ u) (ha3 : |a3| ≤ u) (ha4 : |a4| ≤ u)
    (hb1 : |b1| ≤ u) (hb2 : |b2| ≤ u) (hb3 : |b3| ≤ u) (hb4 : |b4| ≤ u)
    (hg1 : |g1| ≤ u) (hg2 : |g2| ≤ u) (hg3 : |g3| ≤ u) (hg4 : |g4| ≤ u) :
    FlRCStep u a mi mj c xi xj
      ((mi * ((1 - a) * (1 + a1)) * (1 + a2) + xi * a * (1 + a3)) * (1 + a4))
      ((mj * ((1 - a) * (1 + b1)) * (1 + b2) + xj * a * (1 + b3)) * (1 + b4))
      ((c * ((1 - a) * (1 + g1)) * (1 + g2)
          + (xi - mi) * (1 + ε1)
              * ((xj - (mj * ((1 - a) * (1 + b1)) * (1 + b2) + xj * a * (1 + b3)) * (1 + b4))
                  * (1 + ε2)) * (1 + ε3) * a * (1 + g3)) * (1 + g4)) :=
  ⟨_, _, _, ⟨ε1, h1, rfl⟩, flRStep_of_deltas a mi xi a1 a2 a3 a4 ha1 ha2 ha3 ha4,
    flRStep_of_deltas a mj xj b1 b2 b3 b4 hb1 hb2 hb3 hb4,
    ⟨ε2, h2, rfl⟩, ⟨ε3, h3, rfl⟩, flRStep_of_deltas a c _ g1 g2 g3 g4 hg1 hg2 hg3 hg4⟩

theorem FlRCRun.of_exact {u : K} (hu : 0 ≤ u) (mi mj c : K) (ps : List (K × K × K)) :
    FlRCRun u mi mj c ps (wcrun mi mj c ps).1 (wcrun mi mj c ps).2.1 (wcrun mi mj c ps).2.2 := by
  induction ps generalizing mi mj c with
  | nil => exact ⟨rfl, rfl, rfl⟩
  | cons p ps ih => exact ⟨_, _, _, FlRCStep.exact hu p.1 mi mj c p.2.1 p.2.2, ih _ _ _⟩

theorem flRCRun_zero_iff (mi mj c : K) (ps : List (K × K × K)) (mi' mj' c' : K) :
    FlRCRun 0 mi mj c ps mi' mj' c'
      ↔ mi' = (wcrun mi mj c ps).1 ∧ mj' = (wcrun mi mj c ps).2.1
          ∧ c' = (wcrun mi mj c ps).2.2 := by
  constructor
  · intro h
    induction ps generalizing mi mj c with
    | nil => exact h
    | cons p ps ih =>
      obtain ⟨mi1, mj1, c1, hs, hr⟩ := h
      rw [flRCStep_zero_iff] at hs
      obtain ⟨rfl, rfl, rfl⟩ := hs
      exact ih _ _ _ hr
  · rintro ⟨rfl, rfl, rfl⟩; exact FlRCRun.of_exact le_rfl mi mj c ps

theorem FlRCRun.append {u : K} {ps qs : List (K × K × K)} {mi mj c mi1 mj1 c1 mi2 mj2 c2 : K}
    (h1 : FlRCRun u mi mj c ps mi1 mj1 c1) (h2 : FlRCRun u mi1 mj1 c1 qs mi2 mj2 c2) :
    FlRCRun u mi mj c (ps ++ qs) mi2 mj2 c2 := by
  induction ps generalizing mi mj c with
  | nil => obtain ⟨rfl, rfl, rfl⟩ := h1; exact h2
  | cons p ps ih =>
    obtain ⟨mi', mj', c', hs, hr⟩ := h1
    exact ⟨mi', mj', c', hs, ih hr⟩

/-- the first mean component of a covariance run is a running-mean run -/
theorem FlRCRun.mean_run_i {u : K} {ps : List (K × K × K)} {mi mj c mi' mj' c' : K}
    (h : FlRCRun u mi mj c ps mi' mj' c') : FlRRun u mi (stepsI ps) mi' := by
  induction ps generalizing mi mj c with
  | nil => exact h.1
  | cons p ps ih =>
    obtain ⟨mi1, mj1, c1, ⟨_, _, _, _, hs, _⟩, hr⟩ := h
    exact ⟨mi1, hs, ih hr⟩

/-- the second mean component of a covariance run is a running-mean run -/
theorem FlRCRun.mean_run_j {u : K} {ps : List (K × K × K)} {mi mj c mi' mj' c' : K}
    (h : FlRCRun u mi mj c ps mi' mj' c') : FlRRun u mj (stepsJ ps) mj' := by
  induction ps generalizing mi mj c with
  | nil => exact h.2.1
  | cons p ps ih =>
    obtain ⟨mi1, mj1, c1, ⟨_, _, _, _, _, hs, _⟩, hr⟩ := h
    exact ⟨mj1, hs, ih hr⟩

/-! ### the exact increment `s = (xi − μi)(xj − μj') = (1 − a)(xi − μi)(xj − μj)` -/

/-- the exact increment written symmetrically: exchanging `i` and `j` does not change it -/
theorem wc_incr_eq (a μi μj xi xj : K) :
    (xi - μi) * (xj - wstep a μj xj) = (1 - a) * ((xi - μi) * (xj - μj)) := by
  rw [sub_wstep]; ring

/-- the exact increment has no sign; its modulus is at most `4M²` -/
theorem wc_incr_abs_le {a μi μj xi xj M : K} (ha1 : a ≤ 1) (ha0 : 0 ≤ a) (hM : 0 ≤ M)
    (hμi : |μi| ≤ M) (hμj : |μj| ≤ M) (hxi : |xi| ≤ M) (hxj : |xj| ≤ M) :
    |(xi - μi) * (xj - wstep a μj xj)| ≤ 4 * M ^ 2 := by
  have hμj' : |wstep a μj xj| ≤ M := wstep_abs_le ha0 ha1 hμj hxj
  have h1 : |xi - μi| ≤ 2 * M := (abs_sub _ _).trans (by linarith)
  have h2 : |xj - wstep a μj xj| ≤ 2 * M := (abs_sub _ _).trans (by linarith)
  rw [abs_mul]
  calc |xi - μi| * |xj - wstep a μj xj| ≤ 2 * M * (2 * M) :=
        mul_le_mul h1 h2 (abs_nonneg _) (by positivity)
    _ = 4 * M ^ 2 := by ring

/-! ### the rounded increment -/

/-- the rounded increment `q = fl(fl(xi − m)·fl(xj − m'))` against the exact increment
    `s = (xi − μ)(xj − μ')`, with the spread `D ≥ |xi − μ|, |xj − μ'|` and the error `E` of the
    float means; three roundings: `γ = (1+u)³ − 1`.  (`rq_error` with two observations.) -/
theorem rcq_error {u D E : K} (hD : 0 ≤ D) (hE0 : 0 ≤ E) {xi xj μ μ' m m' ε1 ε2 ε3 : K}
    (ha : |xi - μ| ≤ D) (hb : |xj - μ'| ≤ D) (he : |m - μ| ≤ E) (he' : |m' - μ'| ≤ E)
    (h1 : |ε1| ≤ u) (h2 : |ε2| ≤ u) (h3 : |ε3| ≤ u) :
    |(xi - m) * (1 + ε1) * ((xj - m') * (1 + ε2)) * (1 + ε3) - (xi - μ) * (xj - μ')|
        ≤ ((1 + u) ^ 3 - 1) * D ^ 2 + (1 + u) ^ 3 * (2 * D * E + E ^ 2)
      ∧ |(xi - m) * (1 + ε1) * ((xj - m') * (1 + ε2)) * (1 + ε3)| ≤ (1 + u) ^ 3 * (D + E) ^ 2 := by
  have hu : 0 ≤ u := (abs_nonneg _).trans h1
  set a := xi - μ with ha_def
  set b := xj - μ' with hb_def
  set e := m - μ with he_def
  set e' := m' - μ' with he'_def
  set π := (1 + ε1) * (1 + ε2) * (1 + ε3) with hπ_def
  have hπ1 : |π - 1| ≤ (1 + u) ^ 3 - 1 := abs_prod3_sub_one h1 h2 h3
  have hπ : |π| ≤ (1 + u) ^ 3 := abs_prod3_le h1 h2 h3
  have hγ : 0 ≤ (1 + u) ^ 3 - 1 := gam3_nonneg hu
  have hq : (xi - m) * (1 + ε1) * ((xj - m') * (1 + ε2)) * (1 + ε3) = (a - e) * (b - e') * π := by
    simp only [ha_def, hb_def, he_def, he'_def, hπ_def]; ring
  rw [hq]
  constructor
  · have hid : (a - e) * (b - e') * π - a * b
        = a * b * (π - 1) + (-(a * e') - e * b + e * e') * π := by ring
    rw [hid]
    have t1 : |a * b * (π - 1)| ≤ D ^ 2 * ((1 + u) ^ 3 - 1) := by
      rw [abs_mul, abs_mul, pow_two]
      exact mul_le_mul (mul_le_mul ha hb (abs_nonneg _) hD) hπ1 (abs_nonneg _) (by positivity)
    have t2 : |-(a * e') - e * b + e * e'| ≤ 2 * D * E + E ^ 2 := by
      calc |-(a * e') - e * b + e * e'| ≤ |-(a * e') - e * b| + |e * e'| := abs_add_le _ _
        _ ≤ (|-(a * e')| + |e * b|) + |e * e'| := add_le_add (abs_sub _ _) le_rfl
        _ = |a| * |e'| + |e| * |b| + |e| * |e'| := by rw [abs_neg, abs_mul, abs_mul, abs_mul]
        _ ≤ D * E + E * D + E * E := by
            apply add_le_add (add_le_add _ _) _
            · exact mul_le_mul ha he' (abs_nonneg _) hD
            · exact mul_le_mul he hb (abs_nonneg _) hE0
            · exact mul_le_mul he he' (abs_nonneg _) hE0
        _ = 2 * D * E + E ^ 2 := by ring
    have t2nn : 0 ≤ 2 * D * E + E ^ 2 := by positivity
    have t3 : |(-(a * e') - e * b + e * e') * π| ≤ (2 * D * E + E ^ 2) * (1 + u) ^ 3 := by
      rw [abs_mul]
      exact mul_le_mul t2 hπ (abs_nonneg _) t2nn
    calc |a * b * (π - 1) + (-(a * e') - e * b + e * e') * π|
        ≤ |a * b * (π - 1)| + |(-(a * e') - e * b + e * e') * π| := abs_add_le _ _
      _ ≤ D ^ 2 * ((1 + u) ^ 3 - 1) + (2 * D * E + E ^ 2) * (1 + u) ^ 3 := add_le_add t1 t3
      _ = _ := by ring
  · have f1 : |a - e| ≤ D + E := (abs_sub _ _).trans (add_le_add ha he)
    have f2 : |b - e'| ≤ D + E := (abs_sub _ _).trans (add_le_add hb he')
    have hDE : 0 ≤ D + E := add_nonneg hD hE0
    rw [abs_mul, abs_mul]
    calc |a - e| * |b - e'| * |π| ≤ (D + E) * (D + E) * (1 + u) ^ 3 := by
          apply mul_le_mul _ hπ (abs_nonneg _) (by positivity)
          exact mul_le_mul f1 f2 (abs_nonneg _) hDE
      _ = (1 + u) ^ 3 * (D + E) ^ 2 := by ring

/-! ### the invariant ball -/

/-- hypotheses on a list of steps: weights in `[amin, 1]`, both observations bounded by `M` -/
def CStepsOK (amin M : K) (ps : List (K × K × K)) : Prop :=
  ∀ p ∈ ps, amin ≤ p.1 ∧ p.1 ≤ 1 ∧ |p.2.1| ≤ M ∧ |p.2.2| ≤ M

theorem CStepsOK.head {amin M : K} {p : K × K × K} {ps : List (K × K × K)}
    (h : CStepsOK amin M (p :: ps)) : amin ≤ p.1 ∧ p.1 ≤ 1 ∧ |p.2.1| ≤ M ∧ |p.2.2| ≤ M :=
  h p (by simp)

theorem CStepsOK.tail {amin M : K} {p : K × K × K} {ps : List (K × K × K)}
    (h : CStepsOK amin M (p :: ps)) : CStepsOK amin M ps := fun q hq => h q (by simp [hq])

theorem CStepsOK.stepsI {amin M : K} {ps : List (K × K × K)} (h : CStepsOK amin M ps) :
    StepsOK amin M (stepsI ps) := by
  intro p hp
  simp only [Gpv.stepsI, List.mem_map] at hp
  obtain ⟨t, ht, rfl⟩ := hp
  exact ⟨(h t ht).1, (h t ht).2.1, (h t ht).2.2.1⟩

theorem CStepsOK.stepsJ {amin M : K} {ps : List (K × K × K)} (h : CStepsOK amin M ps) :
    StepsOK amin M (stepsJ ps) := by
  intro p hp
  simp only [Gpv.stepsJ, List.mem_map] at hp
  obtain ⟨t, ht, rfl⟩ := hp
  exact ⟨(h t ht).1, (h t ht).2.1, (h t ht).2.2.2⟩

/-- **one step of the invariant.**  Reference `(μi, μj, w)` with `|μi|, |μj| ≤ M`, `|w| ≤ 4M²`;
    float state `(mi, mj, c)` with `|mi − μi|, |mj − μj| ≤ Em`, `|c − w| ≤ E`; weight in
    `[amin, 1]`, `|xi|, |xj| ≤ M`.  If `Em` is a steady state of the running-mean error recursion
    and `E` one of
        `e' ≤ (1−a)(1+u)³ e + ((1+u)³ − 1)·Mq + a·G`
    (`Mq = rvMq u M Em`, `G = rvG u M Em` the bounds of the rounded increment and of its error —
    the very same as for the variance) then the same holds after the step, for the stepped
    reference. -/
theorem FlRCStep.inv {u a amin M Em E mi mj c xi xj mi' mj' c' μi μj w : K} (hu : 0 ≤ u)
    (hM : 0 ≤ M) (h : FlRCStep u a mi mj c xi xj mi' mj' c') (hamin : 0 ≤ amin) (ha : amin ≤ a)
    (ha1 : a ≤ 1) (hxi : |xi| ≤ M) (hxj : |xj| ≤ M) (hEm0 : 0 ≤ Em)
    (hEm : (1 - amin) * (1 + u) ^ 3 * Em + ((1 + u) ^ 3 - 1) * M ≤ Em)
    (hGE : rvG u M Em ≤ E)
    (hE : (1 - amin) * (1 + u) ^ 3 * E + ((1 + u) ^ 3 - 1) * rvMq u M Em + amin * rvG u M Em ≤ E)
    (hμi : |μi| ≤ M) (hμj : |μj| ≤ M) (hw : |w| ≤ 4 * M ^ 2)
    (hmi : |mi - μi| ≤ Em) (hmj : |mj - μj| ≤ Em) (hc : |c - w| ≤ E) :
    |(wcstep a μi μj w xi xj).1| ≤ M ∧ |(wcstep a μi μj w xi xj).2.1| ≤ M
      ∧ |(wcstep a μi μj w xi xj).2.2| ≤ 4 * M ^ 2
      ∧ |mi' - (wcstep a μi μj w xi xj).1| ≤ Em ∧ |mj' - (wcstep a μi μj w xi xj).2.1| ≤ Em
      ∧ |c' - (wcstep a μi μj w xi xj).2.2| ≤ E := by
  obtain ⟨d1, d2, q, ⟨ε1, h1, rfl⟩, hmis, hmjs, ⟨ε2, h2, rfl⟩, ⟨ε3, h3, rfl⟩, hcs⟩ := h
  have ha0 : 0 ≤ a := hamin.trans ha
  have h1a : 0 ≤ 1 - a := sub_nonneg.mpr ha1
  have hμi' : |wstep a μi xi| ≤ M := wstep_abs_le ha0 ha1 hμi hxi
  have hμj' : |wstep a μj xj| ≤ M := wstep_abs_le ha0 ha1 hμj hxj
  have hs4 := wc_incr_abs_le ha1 ha0 hM hμi hμj hxi hxj
  have hγ := gam3_nonneg hu
  have hΓ0 : (0 : K) ≤ (1 + u) ^ 3 := by positivity
  -- the two means
  have mean_err : ∀ {m μ x m' : K}, FlRStep u a m x m' → |μ| ≤ M → |x| ≤ M → |m - μ| ≤ Em →
      |m' - wstep a μ x| ≤ Em := by
    intro m μ x m' hms hμ hx hm
    refine (hms.err_min hamin ha ha1 hμ hx).trans (le_trans ?_ hEm)
    have : (1 - amin) * (1 + u) ^ 3 * |m - μ| ≤ (1 - amin) * (1 + u) ^ 3 * Em :=
      mul_le_mul_of_nonneg_left hm (mul_nonneg (by linarith) hΓ0)
    linarith
  have hmie : |mi' - wstep a μi xi| ≤ Em := mean_err hmis hμi hxi hmi
  have hmje : |mj' - wstep a μj xj| ≤ Em := mean_err hmjs hμj hxj hmj
  -- the rounded increment
  have hda : |xi - μi| ≤ 2 * M := (abs_sub _ _).trans (by linarith)
  have hdb : |xj - wstep a μj xj| ≤ 2 * M := (abs_sub _ _).trans (by linarith)
  obtain ⟨qe, qm⟩ := rcq_error (by positivity : (0 : K) ≤ 2 * M) hEm0 hda hdb hmi hmje h1 h2 h3
  have eG : ((1 + u) ^ 3 - 1) * (2 * M) ^ 2 + (1 + u) ^ 3 * (2 * (2 * M) * Em + Em ^ 2)
      = rvG u M Em := by unfold rvG; ring
  rw [eG] at qe
  change _ ≤ rvMq u M Em at qm
  have hG0 := rvG_nonneg hu hM hEm0
  have h4Mq := four_sq_le_rvMq hu hM hEm0
  have hE0 : 0 ≤ E := hG0.trans hGE
  refine ⟨hμi', hμj', wstep_abs_le ha0 ha1 hw hs4, hmie, hmje, ?_⟩
  -- the `_cov` accumulator
  change |c' - wstep a w ((xi - μi) * (xj - wstep a μj xj))| ≤ E
  have hce := hcs.err ha0 ha1 w
  have hwabs : |w| ≤ rvMq u M Em := hw.trans h4Mq
  refine (abs_sub_wstep_le ha0 c' w
    ((xi - mi) * (1 + ε1) * ((xj - mj') * (1 + ε2)) * (1 + ε3)) _).trans ?_
  refine (add_le_add hce (mul_le_mul_of_nonneg_left qe ha0)).trans ?_
  exact rv_step_scalar ha0 ha1 ha (by linarith) hc hwabs qm le_rfl hGE hG0 hE

/-- **the invariant of a run**, uniformly in the number of steps -/
theorem FlRCRun.inv {u amin M Em E : K} (hu : 0 ≤ u) (hM : 0 ≤ M) (hamin : 0 ≤ amin)
    (hEm0 : 0 ≤ Em)
    (hEm : (1 - amin) * (1 + u) ^ 3 * Em + ((1 + u) ^ 3 - 1) * M ≤ Em)
    (hGE : rvG u M Em ≤ E)
    (hE : (1 - amin) * (1 + u) ^ 3 * E + ((1 + u) ^ 3 - 1) * rvMq u M Em + amin * rvG u M Em ≤ E)
    {ps : List (K × K × K)} (hok : CStepsOK amin M ps) {mi mj c mi' mj' c' μi μj w : K}
    (h : FlRCRun u mi mj c ps mi' mj' c')
    (hμi : |μi| ≤ M) (hμj : |μj| ≤ M) (hw : |w| ≤ 4 * M ^ 2)
    (hmi : |mi - μi| ≤ Em) (hmj : |mj - μj| ≤ Em) (hc : |c - w| ≤ E) :
    |(wcrun μi μj w ps).1| ≤ M ∧ |(wcrun μi μj w ps).2.1| ≤ M
      ∧ |(wcrun μi μj w ps).2.2| ≤ 4 * M ^ 2
      ∧ |mi' - (wcrun μi μj w ps).1| ≤ Em ∧ |mj' - (wcrun μi μj w ps).2.1| ≤ Em
      ∧ |c' - (wcrun μi μj w ps).2.2| ≤ E := by
  induction ps generalizing mi mj c μi μj w with
  | nil => obtain ⟨rfl, rfl, rfl⟩ := h; exact ⟨hμi, hμj, hw, hmi, hmj, hc⟩
  | cons p ps ih =>
    obtain ⟨mi1, mj1, c1, hs, hr⟩ := h
    obtain ⟨h1, h2, h3, h4⟩ := hok.head
    obtain ⟨b1, b2, b3, b4, b5, b6⟩ :=
      hs.inv hu hM hamin h1 h2 h3 h4 hEm0 hEm hGE hE hμi hμj hw hmi hmj hc
    exact ih hok.tail hr b1 b2 b3 b4 b5 b6

/-- the exact recursion alone: `|μi|, |μj| ≤ M`, `|w| ≤ 4M²` are preserved -/
theorem wcrun_bounds {amin M : K} (hamin : 0 ≤ amin) (hM : 0 ≤ M) {ps : List (K × K × K)}
    (hok : CStepsOK amin M ps) {μi μj w : K} (hμi : |μi| ≤ M) (hμj : |μj| ≤ M)
    (hw : |w| ≤ 4 * M ^ 2) :
    |(wcrun μi μj w ps).1| ≤ M ∧ |(wcrun μi μj w ps).2.1| ≤ M
      ∧ |(wcrun μi μj w ps).2.2| ≤ 4 * M ^ 2 := by
  induction ps generalizing μi μj w with
  | nil => exact ⟨hμi, hμj, hw⟩
  | cons p ps ih =>
    obtain ⟨h1, h2, h3, h4⟩ := hok.head
    have ha0 := hamin.trans h1
    exact ih hok.tail (wstep_abs_le ha0 h2 hμi h3) (wstep_abs_le ha0 h2 hμj h4)
      (wstep_abs_le ha0 h2 hw (wc_incr_abs_le h2 ha0 hM hμi hμj h3 h4))

/-! ### the weights of the model -/

/-- the steps `RCov2.push` performs on the pairs `ps` when `j` observations have been seen:
    weights `max(alpha, 1/(j+1)), max(alpha, 1/(j+2)), …` (`effA`) -/
def modelTriples (alpha : K) (j : ℕ) : List (K × K) → List (K × K × K)
  | [] => []
  | p :: ps => (effA alpha j, p.1, p.2) :: modelTriples alpha (j + 1) ps

theorem modelTriples_length (alpha : K) (j : ℕ) (ps : List (K × K)) :
    (modelTriples alpha j ps).length = ps.length := by
  induction ps generalizing j with
  | nil => rfl
  | cons p ps ih => simp [modelTriples, ih]

/-- the first mean component sees the running-mean steps of the first coordinates -/
theorem stepsI_modelTriples (alpha : K) (j : ℕ) (ps : List (K × K)) :
    stepsI (modelTriples alpha j ps) = modelPairs alpha j (ps.map Prod.fst) := by
  induction ps generalizing j with
  | nil => rfl
  | cons p ps ih =>
    have := ih (j + 1)
    simp only [stepsI] at this
    simp only [stepsI, modelTriples, List.map_cons, modelPairs, this]

/-- the second mean component sees the running-mean steps of the second coordinates -/
theorem stepsJ_modelTriples (alpha : K) (j : ℕ) (ps : List (K × K)) :
    stepsJ (modelTriples alpha j ps) = modelPairs alpha j (ps.map Prod.snd) := by
  induction ps generalizing j with
  | nil => rfl
  | cons p ps ih =>
    have := ih (j + 1)
    simp only [stepsJ] at this
    simp only [stepsJ, modelTriples, List.map_cons, modelPairs, this]

theorem modelTriples_ok {alpha M : K} (h1 : alpha ≤ 1) (j : ℕ) {ps : List (K × K)}
    (hx : ∀ p ∈ ps, |p.1| ≤ M ∧ |p.2| ≤ M) : CStepsOK alpha M (modelTriples alpha j ps) := by
  induction ps generalizing j with
  | nil => intro p hp; simp [modelTriples] at hp
  | cons q ps ih =>
    intro p hp
    simp only [modelTriples, List.mem_cons] at hp
    rcases hp with rfl | hp
    · exact ⟨le_effA _ _, effA_le_one h1 _, (hx q (by simp)).1, (hx q (by simp)).2⟩
    · exact ih (j + 1) (fun y hy => hx y (by simp [hy])) p hp

/-- the exact recursion over the model's weights IS the model (`RCov2.push` folded), as long as
    the three accumulators share `alpha` and the count -/
theorem foldl_rcpush (s : RCov2 K) (ps : List (K × K)) (hαj : s.my.alpha = s.mx.alpha)
    (hαc : s.c.alpha = s.mx.alpha) (hnj : s.my.n = s.mx.n) (hnc : s.c.n = s.mx.n) :
    ((ps.foldl (fun s p => s.push p.1 p.2) s).mx.acc,
        (ps.foldl (fun s p => s.push p.1 p.2) s).my.acc,
        (ps.foldl (fun s p => s.push p.1 p.2) s).c.acc)
      = wcrun s.mx.acc s.my.acc s.c.acc (modelTriples s.mx.alpha s.mx.n ps) := by
  induction ps generalizing s with
  | nil => rfl
  | cons p ps ih =>
    rw [List.foldl_cons, ih (s.push p.1 p.2) (by simp [RCov2.push, hαj])
      (by simp [RCov2.push, hαc]) (by simp [RCov2.push, hnj]) (by simp [RCov2.push, hnc])]
    simp only [modelTriples, wcrun_cons, wcstep, wstep, RCov2.push, RMean.push_acc, RMean.push_n,
      RMean.push_alpha, hαj, hαc, hnj, hnc]

theorem RCov2.run_eq_wcrun (l : K) (ps : List (K × K)) :
    ((RCov2.run l ps).mx.acc, (RCov2.run l ps).my.acc, (RCov2.run l ps).c.acc)
      = wcrun 0 0 0 (modelTriples (1 / l) 0 ps) := by
  rw [RCov2.run, foldl_rcpush _ _ rfl rfl rfl rfl]
  simp [RCov2.init, RMean.init]

theorem RCov2.run_n (l : K) (ps : List (K × K)) :
    (RCov2.run l ps).mx.n = ps.length ∧ (RCov2.run l ps).my.n = ps.length
      ∧ (RCov2.run l ps).c.n = ps.length := by
  induction ps using List.reverseRec with
  | nil => simp [RCov2.run, RCov2.init, RMean.init]
  | append_singleton ps p ih =>
    rw [RCov2.run_snoc]
    simp [RCov2.push, ih.1, ih.2.1, ih.2.2]

/-! ### the diagonal `xi = xj`

  `RCov2.push` performs the two mean steps separately (in the array program entry `(i, i)` uses
  ONE stored float `mean.acc[i]`; the two-component relation does not know that the components
  coincide), so on the data `(x, x)` a covariance step reduces to a variance step exactly when
  the two mean components are kept equal; every float variance run is a diagonal float covariance
  run, and the converse inclusion is false in the non-deterministic model. -/

/-- the diagonal triples `(a, x, x)` of a list of pairs `(a, x)` -/
def diagSteps (ps : List (K × K)) : List (K × K × K) := ps.map fun p => (p.1, p.2, p.2)

/-- on the diagonal, with equal mean components before and after, the covariance step *is* the
    variance step -/
theorem flRCStep_diag_iff (u a m v x m' v' : K) :
    FlRCStep u a m m v x x m' m' v' ↔ FlRVStep u a m v x m' v' := by
  constructor
  · rintro ⟨d1, d2, q, h1, h2, _, h4, h5, h6⟩
    exact ⟨d1, d2, q, h1, h2, h4, h5, h6⟩
  · rintro ⟨d1, d2, q, h1, h2, h3, h4, h5⟩
    exact ⟨d1, d2, q, h1, h2, h2, h3, h4, h5⟩

/-- every float variance run is a float covariance run on the diagonal steps `(a, x, x)`, with
    both mean components equal -/
theorem FlRVRun.to_cov {u : K} {ps : List (K × K)} {m v m' v' : K} (h : FlRVRun u m v ps m' v') :
    FlRCRun u m m v (diagSteps ps) m' m' v' := by
  induction ps generalizing m v with
  | nil => obtain ⟨rfl, rfl⟩ := h; exact ⟨rfl, rfl, rfl⟩
  | cons p ps ih =>
    obtain ⟨m1, v1, hs, hr⟩ := h
    exact ⟨m1, m1, v1, (flRCStep_diag_iff u p.1 m v p.2 m1 v1).mpr hs, ih hr⟩

/-- the exact covariance recursion on the diagonal is the exact variance recursion -/
theorem wcrun_diag (μ w : K) (ps : List (K × K)) :
    wcrun μ μ w (diagSteps ps) = ((wvrun μ w ps).1, (wvrun μ w ps).1, (wvrun μ w ps).2) := by
  induction ps generalizing μ w with
  | nil => rfl
  | cons p ps ih =>
    rw [diagSteps, List.map_cons, wcrun_cons, wvrun_cons]
    exact ih _ _

/-- the model's weights on diagonal data -/
theorem modelTriples_diag (alpha : K) (j : ℕ) (xs : List K) :
    modelTriples alpha j (xs.map fun x => (x, x)) = diagSteps (modelPairs alpha j xs) := by
  induction xs generalizing j with
  | nil => rfl
  | cons x xs ih =>
    have := ih (j + 1)
    simp only [diagSteps] at this
    simp only [diagSteps, List.map_cons, modelTriples, modelPairs, this]

end Gpv
