/-
  Helper lemmas for C06: the pooled (Chan et al.) merge formulas of the model
  reproduce the invariants of `AccumAlg` for the concatenated sequence.
-/
import Gpv.Spec.Stats
import Mathlib.Data.List.Perm.Basic
set_option linter.unusedSectionVars false
set_option linter.unusedSimpArgs false

namespace Gpv
variable {K : Type} [Field K] [CharZero K]

@[simp] theorem Mean.run_nil : Mean.run ([] : List K) = Mean.init := rfl
@[simp] theorem Variance.run_nil : Variance.run ([] : List K) = Variance.init := rfl
@[simp] theorem Cov2.run_nil : Cov2.run ([] : List (K × K)) = Cov2.init := rfl

/-- a `Mean` state is determined by its invariant once n > 0 -/
theorem Mean.ext_of_inv (a b : Mean K) (n : Nat) (S : K) (hn : 0 < n)
    (han : a.n = n) (hbn : b.n = n) (hav : a.val * (n : K) = S) (hbv : b.val * (n : K) = S) : a = b := by
  have hl : (n : K) ≠ 0 := Nat.cast_ne_zero.mpr (by omega)
  cases a; cases b
  simp only [Mean.mk.injEq] at *
  exact ⟨mul_right_cancel₀ hl (by rw [hav, hbv]), by rw [han, hbn]⟩

theorem Mean.merge_run (xs ys : List K) : (Mean.run xs).merge (Mean.run ys) = Mean.run (xs ++ ys) := by
  have hx := Mean.run_inv xs
  have hy := Mean.run_inv ys
  have hxy := Mean.run_inv (xs ++ ys)
  unfold Mean.merge
  simp only [hx.1, hy.1]
  split
  · rename_i h0
    have h1 : xs = [] := List.length_eq_zero_iff.mp (by omega)
    have h2 : ys = [] := List.length_eq_zero_iff.mp (by omega)
    subst h1; subst h2; rfl
  · rename_i h0
    have hl : ((xs.length + ys.length : Nat) : K) ≠ 0 := Nat.cast_ne_zero.mpr h0
    refine Mean.ext_of_inv _ _ (xs.length + ys.length) ((xs ++ ys).sum) (by omega) rfl
      (by simp [hxy.1]) ?_ (by have := hxy.2; simpa using this)
    simp only [List.sum_append, ← hx.2, ← hy.2]
    field_simp

/-- closed form of a Variance state from its invariant -/
theorem Variance.ext_of_inv (a b : Variance K) (xs : List K) (hn : xs ≠ [])
    (ha : a.Inv xs) (hb : b.Inv xs) : a = b := by
  have hpos : 0 < xs.length := List.length_pos_iff.mpr hn
  have hl : (xs.length : K) ≠ 0 := Nat.cast_ne_zero.mpr (by omega)
  have e1 := Mean.ext_of_inv a.mean b.mean xs.length xs.sum hpos ha.mean_n hb.mean_n ha.mean_val hb.mean_val
  have e2 : a.var = b.var := by
    have h1 := ha.var_val; have h2 := hb.var_val
    cases hav : a.var; cases hbv : b.var
    have n1 := ha.var_n; have n2 := hb.var_n
    simp only [hav, hbv, Mean.mk.injEq] at *
    exact ⟨mul_right_cancel₀ hl (mul_right_cancel₀ hl (by rw [h1, h2])), by rw [n1, n2]⟩
  cases a; cases b; simp_all

theorem Variance.merge_inv (xs ys : List K) (h : xs.length + ys.length ≠ 0) :
    ((Variance.run xs).merge (Variance.run ys)).Inv (xs ++ ys) := by
  have hx := Variance.run_inv xs
  have hy := Variance.run_inv ys
  have hm := Mean.merge_run xs ys
  have hmi := Mean.run_inv (xs ++ ys)
  have hmx : (Variance.run xs).mean = Mean.run xs := by
    rcases xs with _ | ⟨x, t⟩
    · rfl
    · exact Mean.ext_of_inv _ _ _ _ (by simp) hx.mean_n (Mean.run_inv _).1 hx.mean_val (Mean.run_inv _).2
  have hmy : (Variance.run ys).mean = Mean.run ys := by
    rcases ys with _ | ⟨x, t⟩
    · rfl
    · exact Mean.ext_of_inv _ _ _ _ (by simp) hy.mean_n (Mean.run_inv _).1 hy.mean_val (Mean.run_inv _).2
  have hN : ((xs.length + ys.length : Nat) : K) ≠ 0 := Nat.cast_ne_zero.mpr h
  unfold Variance.merge
  simp only [Variance.n, hx.mean_n, hy.mean_n, if_neg h]
  refine ⟨?_, by simp, ?_, ?_⟩
  · rw [hmx, hmy, hm]; exact hmi.1
  · rw [hmx, hmy, hm]; exact hmi.2
  · simp only [Mean.sum, hx.var_n, hy.var_n, List.length_append, List.sum_append]
    have a1 := hx.mean_val; have a2 := hx.var_val
    have b1 := hy.mean_val; have b2 := hy.var_val
    have s2 : sumSq (xs ++ ys) = sumSq xs + sumSq ys := by simp [sumSq]
    rw [s2]
    push_cast at hN ⊢
    rcases Nat.eq_zero_or_pos xs.length with hx0 | hxp
    · -- left operand empty: it is the initial state
      have : xs = [] := List.length_eq_zero_iff.mp hx0
      subst this
      simp only [Variance.run_nil, Variance.init, Mean.init, List.length_nil, Nat.cast_zero, List.sum_nil,
        sumSq_nil, zero_add, mul_zero, zero_mul, zero_div, add_zero, zero_sub] at hN ⊢
      field_simp
      linear_combination b2
    rcases Nat.eq_zero_or_pos ys.length with hy0 | hyp
    · have : ys = [] := List.length_eq_zero_iff.mp hy0
      subst this
      simp only [Variance.run_nil, Variance.init, Mean.init, List.length_nil, Nat.cast_zero, List.sum_nil,
        sumSq_nil, add_zero, mul_zero, zero_mul, zero_div, sub_zero] at hN ⊢
      field_simp
      linear_combination a2
    have hn : (xs.length : K) ≠ 0 := Nat.cast_ne_zero.mpr (by omega)
    have hm' : (ys.length : K) ≠ 0 := Nat.cast_ne_zero.mpr (by omega)
    generalize (Variance.run xs).mean.val = mx at *
    generalize (Variance.run ys).mean.val = my at *
    generalize (Variance.run xs).var.val = vx at *
    generalize (Variance.run ys).var.val = vy at *
    generalize (xs.length : K) = n at *
    generalize (ys.length : K) = m at *
    generalize sumSq xs = Qx at *
    generalize sumSq ys = Qy at *
    generalize xs.sum = Sx at *
    generalize ys.sum = Sy at *
    have e1 : mx = Sx / n := by rw [eq_div_iff hn]; exact a1
    have e2 : my = Sy / m := by rw [eq_div_iff hm']; exact b1
    have e3 : vx = (n * Qx - Sx ^ 2) / (n * n) := by
      rw [eq_div_iff (mul_ne_zero hn hn), ← mul_assoc]; exact a2
    have e4 : vy = (m * Qy - Sy ^ 2) / (m * m) := by
      rw [eq_div_iff (mul_ne_zero hm' hm'), ← mul_assoc]; exact b2
    rw [e1, e2, e3, e4]
    field_simp
    ring

theorem Variance.merge_run (xs ys : List K) :
    (Variance.run xs).merge (Variance.run ys) = Variance.run (xs ++ ys) := by
  by_cases h : xs.length + ys.length = 0
  · have h1 : xs = [] := List.length_eq_zero_iff.mp (by omega)
    have h2 : ys = [] := List.length_eq_zero_iff.mp (by omega)
    subst h1; subst h2
    simp [Variance.merge, Variance.n, Variance.init, Mean.init]
  · exact Variance.ext_of_inv _ _ (xs ++ ys) (by
      intro e; apply h; have := congrArg List.length e; simpa using this)
      (Variance.merge_inv xs ys h) (Variance.run_inv _)

theorem Cov2.ext_of_inv (a b : Cov2 K) (ps : List (K × K)) (hn : ps ≠ [])
    (ha : a.Inv ps) (hb : b.Inv ps) : a = b := by
  have hpos : 0 < ps.length := List.length_pos_iff.mpr hn
  have hl : (ps.length : K) ≠ 0 := Nat.cast_ne_zero.mpr (by omega)
  have e1 := Mean.ext_of_inv a.mx b.mx ps.length _ hpos ha.mx_n hb.mx_n ha.mx_val hb.mx_val
  have e1' := Mean.ext_of_inv a.my b.my ps.length _ hpos ha.my_n hb.my_n ha.my_val hb.my_val
  have e2 : a.c = b.c := by
    have h1 := ha.c_val; have h2 := hb.c_val
    cases hav : a.c; cases hbv : b.c
    have n1 := ha.c_n; have n2 := hb.c_n
    simp only [hav, hbv, Mean.mk.injEq] at *
    exact ⟨mul_right_cancel₀ hl (mul_right_cancel₀ hl (by rw [h1, h2])), by rw [n1, n2]⟩
  cases a; cases b; simp_all

theorem Cov2.mean_eq_run (ps : List (K × K)) :
    (Cov2.run ps).mx = Mean.run (ps.map Prod.fst) ∧ (Cov2.run ps).my = Mean.run (ps.map Prod.snd) := by
  have h := Cov2.run_inv ps
  rcases ps with _ | ⟨p, t⟩
  · exact ⟨rfl, rfl⟩
  · constructor
    · refine Mean.ext_of_inv _ _ _ _ (by simp) h.mx_n ?_ h.mx_val ?_
      · simpa using (Mean.run_inv ((p :: t).map Prod.fst)).1
      · simpa using (Mean.run_inv ((p :: t).map Prod.fst)).2
    · refine Mean.ext_of_inv _ _ _ _ (by simp) h.my_n ?_ h.my_val ?_
      · simpa using (Mean.run_inv ((p :: t).map Prod.snd)).1
      · simpa using (Mean.run_inv ((p :: t).map Prod.snd)).2

theorem Cov2.merge_inv (ps qs : List (K × K)) (h : ps.length + qs.length ≠ 0) :
    ((Cov2.run ps).merge (Cov2.run qs)).Inv (ps ++ qs) := by
  have hx := Cov2.run_inv ps
  have hy := Cov2.run_inv qs
  obtain ⟨px, py⟩ := Cov2.mean_eq_run ps
  obtain ⟨qx, qy⟩ := Cov2.mean_eq_run qs
  have hmx := Mean.merge_run (ps.map Prod.fst) (qs.map Prod.fst)
  have hmy := Mean.merge_run (ps.map Prod.snd) (qs.map Prod.snd)
  have hix := Mean.run_inv ((ps ++ qs).map Prod.fst)
  have hiy := Mean.run_inv ((ps ++ qs).map Prod.snd)
  have hN : ((ps.length + qs.length : Nat) : K) ≠ 0 := Nat.cast_ne_zero.mpr h
  unfold Cov2.merge
  simp only [hx.mx_n, hy.mx_n, if_neg h]
  refine ⟨?_, ?_, by simp, ?_, ?_, ?_⟩
  · rw [px, qx, hmx, ← List.map_append]; simpa using hix.1
  · rw [py, qy, hmy, ← List.map_append]; simpa using hiy.1
  · rw [px, qx, hmx, ← List.map_append]; simpa using hix.2
  · rw [py, qy, hmy, ← List.map_append]; simpa using hiy.2
  · simp only [Mean.sum, hx.c_n, hy.c_n, List.length_append, List.map_append, List.sum_append]
    have a1 := hx.mx_val; have a1' := hx.my_val; have a2 := hx.c_val
    have b1 := hy.mx_val; have b1' := hy.my_val; have b2 := hy.c_val
    have s2 : sumProd (ps ++ qs) = sumProd ps + sumProd qs := by simp [sumProd]
    rw [s2]
    push_cast at hN ⊢
    rcases Nat.eq_zero_or_pos ps.length with hx0 | hxp
    · have : ps = [] := List.length_eq_zero_iff.mp hx0
      subst this
      simp only [Cov2.run_nil, Cov2.init, Mean.init, List.length_nil, Nat.cast_zero, List.sum_nil, List.map_nil,
        sumProd_nil, zero_add, mul_zero, zero_mul, zero_div, add_zero, zero_sub] at hN ⊢
      field_simp
      linear_combination b2
    rcases Nat.eq_zero_or_pos qs.length with hy0 | hyp
    · have : qs = [] := List.length_eq_zero_iff.mp hy0
      subst this
      simp only [Cov2.run_nil, Cov2.init, Mean.init, List.length_nil, Nat.cast_zero, List.sum_nil, List.map_nil,
        sumProd_nil, add_zero, mul_zero, zero_mul, zero_div, sub_zero] at hN ⊢
      field_simp
      linear_combination a2
    have hn : (ps.length : K) ≠ 0 := Nat.cast_ne_zero.mpr (by omega)
    have hm' : (qs.length : K) ≠ 0 := Nat.cast_ne_zero.mpr (by omega)
    generalize (Cov2.run ps).mx.val = mx at *
    generalize (Cov2.run ps).my.val = my at *
    generalize (Cov2.run qs).mx.val = ox at *
    generalize (Cov2.run qs).my.val = oy at *
    generalize (Cov2.run ps).c.val = vx at *
    generalize (Cov2.run qs).c.val = vy at *
    generalize (ps.length : K) = n at *
    generalize (qs.length : K) = m at *
    generalize sumProd ps = Qx at *
    generalize sumProd qs = Qy at *
    generalize (ps.map Prod.fst).sum = Sx at *
    generalize (ps.map Prod.snd).sum = Sy at *
    generalize (qs.map Prod.fst).sum = Tx at *
    generalize (qs.map Prod.snd).sum = Ty at *
    have e1 : mx = Sx / n := by rw [eq_div_iff hn]; exact a1
    have e1' : my = Sy / n := by rw [eq_div_iff hn]; exact a1'
    have e2 : ox = Tx / m := by rw [eq_div_iff hm']; exact b1
    have e2' : oy = Ty / m := by rw [eq_div_iff hm']; exact b1'
    have e3 : vx = (n * Qx - Sx * Sy) / (n * n) := by
      rw [eq_div_iff (mul_ne_zero hn hn), ← mul_assoc]; exact a2
    have e4 : vy = (m * Qy - Tx * Ty) / (m * m) := by
      rw [eq_div_iff (mul_ne_zero hm' hm'), ← mul_assoc]; exact b2
    rw [e1, e1', e2, e2', e3, e4]
    field_simp
    ring

theorem Cov2.merge_run (ps qs : List (K × K)) :
    (Cov2.run ps).merge (Cov2.run qs) = Cov2.run (ps ++ qs) := by
  by_cases h : ps.length + qs.length = 0
  · have h1 : ps = [] := List.length_eq_zero_iff.mp (by omega)
    have h2 : qs = [] := List.length_eq_zero_iff.mp (by omega)
    subst h1; subst h2
    simp [Cov2.merge, Cov2.init, Mean.init]
  · exact Cov2.ext_of_inv _ _ (ps ++ qs) (by
      intro e; apply h; have := congrArg List.length e; simpa using this)
      (Cov2.merge_inv ps qs h) (Cov2.run_inv _)

end Gpv
