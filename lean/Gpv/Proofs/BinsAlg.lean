/-
  Helper lemmas for C14: `digitize`, `BinSorter`, `DynBinSorter` (Gpv.Model.Bins).
-/
import Gpv.Model.Bins
import Gpv.Proofs.P2Alg
import Gpv.Props.C07
set_option linter.unusedSectionVars false

namespace Gpv

/-! ### a filter that selects a prefix -/

/-- if `P` is closed downwards along a list sorted by `R`, the elements satisfying `P` are
    exactly the first `c` ones, `c` their number -/
theorem filter_prefix {α : Type} (R : α → α → Prop) (P : α → Prop) [DecidablePred P]
    (hP : ∀ a b, R a b → P b → P a) :
    ∀ l : List α, l.Pairwise R → ∀ j (hj : j < l.length),
      (P l[j] ↔ j < (l.filter fun a => decide (P a)).length) := by
  intro l
  induction l with
  | nil => intro _ j hj; simp at hj
  | cons a t ih =>
    intro hs j hj
    rw [List.pairwise_cons] at hs
    by_cases c : P a
    · rw [List.filter_cons_of_pos (by simpa using c)]
      rcases j with _ | j
      · simp [c]
      · simp only [List.getElem_cons_succ, List.length_cons, Nat.add_lt_add_iff_right]
        exact ih hs.2 j (by simpa using hj)
    · have hall : ∀ b ∈ a :: t, ¬ P b := by
        intro b hb
        rcases List.mem_cons.mp hb with rfl | hb
        · exact c
        · exact fun hb' => c (hP _ _ (hs.1 b hb) hb')
      have he : (List.filter (fun a => decide (P a)) (a :: t)) = [] := by
        rw [List.filter_eq_nil_iff]; intro b hb; simpa using hall b hb
      rw [he]
      simpa using hall _ (List.getElem_mem hj)

section digitize
variable {K : Type} [LinearOrder K]

theorem digitize_le_length (s : K) (e : List K) : digitize s e ≤ e.length :=
  List.length_filter_le _ _

/-- for non-decreasing edges, edge `j` is `≤ s` iff `j < digitize s e` -/
theorem digitize_lt_iff (s : K) (e : List K) (he : e.Pairwise (· ≤ ·)) (j : ℕ) (hj : j < e.length) :
    e[j] ≤ s ↔ j < digitize s e :=
  filter_prefix (· ≤ ·) (· ≤ s) (fun _ _ hab hb => le_trans hab hb) e he j hj

theorem digitize_spec_le (s : K) (e : List K) (he : e.Pairwise (· ≤ ·)) (i : ℕ) :
    i = digitize s e ↔ i ≤ e.length ∧ (∀ j (hj : j < e.length), j < i → e[j] ≤ s) ∧
      (∀ j (hj : j < e.length), i ≤ j → s < e[j]) := by
  constructor
  · rintro rfl
    refine ⟨digitize_le_length s e, fun j hj h => (digitize_lt_iff s e he j hj).mpr h,
      fun j hj h => ?_⟩
    by_contra hc
    exact absurd ((digitize_lt_iff s e he j hj).mp (not_lt.mp hc)) (by omega)
  · rintro ⟨h1, h2, h3⟩
    have hd := digitize_le_length s e
    rcases Nat.lt_trichotomy i (digitize s e) with h | h | h
    · have := (digitize_lt_iff s e he i (by omega)).mpr h
      exact absurd (h3 i (by omega) le_rfl) (not_lt.mpr this)
    · exact h
    · have := h2 (digitize s e) (by omega) h
      exact absurd ((digitize_lt_iff s e he _ (by omega)).mp this) (lt_irrefl _)
end digitize

/-! ### BinSorter -/
section BinSorter
variable {K : Type} [LinearOrder K] {σ δ : Type}

/-- fold of `push` over a list of (key, data) -/
def BinSorter.run (accPush : σ → δ → σ) (edges : List K) (acc0 : σ) (obs : List (K × δ)) :
    BinSorter K σ :=
  obs.foldl (fun st o => st.push accPush o.1 o.2) (BinSorter.init edges acc0)

theorem BinSorter.run_snoc (accPush : σ → δ → σ) (edges : List K) (acc0 : σ) (obs : List (K × δ))
    (o : K × δ) : BinSorter.run accPush edges acc0 (obs ++ [o]) =
      (BinSorter.run accPush edges acc0 obs).push accPush o.1 o.2 := by
  simp [BinSorter.run, List.foldl_append]

/-- what a stand-alone accumulator fed the data of bin `i` in arrival order holds -/
def binFold (accPush : σ → δ → σ) (edges : List K) (acc0 : σ) (obs : List (K × δ)) (i : ℕ) : σ :=
  ((obs.filter fun o => decide (digitize o.1 edges = i)).map Prod.snd).foldl accPush acc0

theorem BinSorter.run_inv (accPush : σ → δ → σ) (edges : List K) (acc0 : σ) (obs : List (K × δ)) :
    (BinSorter.run accPush edges acc0 obs).edges = edges ∧
    (BinSorter.run accPush edges acc0 obs).n = obs.length ∧
    (BinSorter.run accPush edges acc0 obs).bins.length = edges.length - 1 + 2 ∧
    ∀ i, i < edges.length - 1 + 2 →
      (BinSorter.run accPush edges acc0 obs).bins[i]? = some (binFold accPush edges acc0 obs i) := by
  induction obs using List.reverseRec with
  | nil =>
    refine ⟨rfl, rfl, by simp [BinSorter.run, BinSorter.init], fun i hi => ?_⟩
    simp [BinSorter.run, BinSorter.init, binFold, hi]
  | append_singleton obs o ih =>
    obtain ⟨h1, h2, h3, h4⟩ := ih
    rw [BinSorter.run_snoc]
    refine ⟨h1, by simp [BinSorter.push, h2], by simp [BinSorter.push, h3], fun i hi => ?_⟩
    simp only [BinSorter.push, h1, List.getElem?_modify, h4 i hi]
    by_cases c : digitize o.1 edges = i
    · simp [binFold, List.filter_append, c, List.foldl_append]
    · simp [binFold, List.filter_append, c]

theorem sum_modify_succ : ∀ (l : List ℕ) (i : ℕ), i < l.length →
    (l.modify i (· + 1)).sum = l.sum + 1 := by
  intro l
  induction l with
  | nil => intro i hi; simp at hi
  | cons a t ih =>
    intro i hi
    rcases i with _ | i
    · simp [List.modify_cons]; omega
    · have := ih i (by simpa using hi)
      simp [this]; omega
end BinSorter

/-! ### DynBinSorter -/
section Dyn
variable {K : Type} [Field K] [LinearOrder K] [IsStrictOrderedRing K] {σ δ : Type}

def DynBinSorter.run (accPush : σ → δ → σ) (nbins : ℕ) (grid : List K) (acc0 : σ)
    (obs : List (K × δ)) : DynBinSorter K σ :=
  obs.foldl (fun st o => st.push accPush o.1 o.2) (DynBinSorter.init nbins grid acc0)

theorem DynBinSorter.run_snoc (accPush : σ → δ → σ) (nbins : ℕ) (grid : List K) (acc0 : σ)
    (obs : List (K × δ)) (o : K × δ) : DynBinSorter.run accPush nbins grid acc0 (obs ++ [o]) =
      (DynBinSorter.run accPush nbins grid acc0 obs).push accPush o.1 o.2 := by
  simp [DynBinSorter.run, List.foldl_append]

theorem DynBinSorter.run_basic (accPush : σ → δ → σ) (nbins : ℕ) (grid : List K) (acc0 : σ)
    (obs : List (K × δ)) :
    (DynBinSorter.run accPush nbins grid acc0 obs).nbins = nbins ∧
    (DynBinSorter.run accPush nbins grid acc0 obs).n = obs.length ∧
    (DynBinSorter.run accPush nbins grid acc0 obs).est = P2.run grid (obs.map Prod.fst) ∧
    (DynBinSorter.run accPush nbins grid acc0 obs).bins.length = nbins := by
  induction obs using List.reverseRec with
  | nil => exact ⟨rfl, rfl, rfl, by simp [DynBinSorter.run, DynBinSorter.init]⟩
  | append_singleton obs o ih =>
    obtain ⟨h1, h2, h3, h4⟩ := ih
    rw [DynBinSorter.run_snoc, List.map_append, List.map_singleton, P2.run_snoc, ← h3]
    simp only [DynBinSorter.push]
    split_ifs <;> simp [h1, h2, h4]

/-- the index chosen by `DynBinSorter.push`, for sorted edges `h` with `h[0] ≤ key` -/
theorem dyn_index (h : List K) (nb : ℕ) (hnb : 1 ≤ nb) (hlen : h.length = nb + 1)
    (hs : h.Pairwise (· ≤ ·)) (key : K) (h0 : nth h 0 ≤ key) :
    (if digitize key h - 1 = nb then digitize key h - 1 - 1 else digitize key h - 1) < nb ∧
    nth h (if digitize key h - 1 = nb then digitize key h - 1 - 1 else digitize key h - 1) ≤ key ∧
    (key < nth h ((if digitize key h - 1 = nb then digitize key h - 1 - 1 else digitize key h - 1) + 1) ∨
      ((if digitize key h - 1 = nb then digitize key h - 1 - 1 else digitize key h - 1) = nb - 1 ∧
        nth h nb ≤ key)) := by
  have hiff : ∀ j, j < h.length → (nth h j ≤ key ↔ j < digitize key h) := by
    intro j hj; rw [nth_eq_getElem hj]; exact digitize_lt_iff key h hs j hj
  have hc := digitize_le_length key h
  have h1 : 1 ≤ digitize key h := (hiff 0 (by omega)).mp h0
  by_cases c : digitize key h - 1 = nb
  · rw [if_pos c]
    have hl := (hiff nb (by omega)).mpr (by omega)
    refine ⟨by omega, (hiff _ (by omega)).mpr (by omega), Or.inr ⟨by omega, hl⟩⟩
  · rw [if_neg c]
    refine ⟨by omega, (hiff _ (by omega)).mpr (by omega), Or.inl ?_⟩
    rw [Nat.sub_add_cancel h1]
    exact not_le.mp fun hle => absurd ((hiff _ (by omega)).mp hle) (lt_irrefl _)

theorem DynBinSorter.run_training (accPush : σ → δ → σ) (nbins : ℕ) (grid : List K) (acc0 : σ)
    (obs : List (K × δ)) (hn : obs.length ≤ nbins) :
    (DynBinSorter.run accPush nbins grid acc0 obs).bins = List.replicate nbins acc0 := by
  induction obs using List.reverseRec with
  | nil => rfl
  | append_singleton obs o ih =>
    have hl : obs.length + 1 ≤ nbins := by simpa using hn
    obtain ⟨h1, h2, _, _⟩ := DynBinSorter.run_basic accPush nbins grid acc0 obs
    rw [DynBinSorter.run_snoc]
    simp only [DynBinSorter.push, h1, h2, if_pos hl]
    exact ih (by omega)

/-- the estimator of the sorter after `≥ nbins+1` observations satisfies the C07 invariant -/
theorem DynBinSorter.run_est_inv (accPush : σ → δ → σ) (nbins : ℕ) (grid : List K) (acc0 : σ)
    (obs : List (K × δ)) (hg : grid.length = nbins + 1) (hnb : 1 ≤ nbins)
    (hn : nbins + 1 ≤ obs.length) :
    P2.Inv (DynBinSorter.run accPush nbins grid acc0 obs).est (obs.map Prod.fst) := by
  rw [(DynBinSorter.run_basic accPush nbins grid acc0 obs).2.2.1]
  exact C07.inv_run grid _ (by omega) (by simp; omega)

theorem DynBinSorter.run_count (nbins : ℕ) (grid : List K) (obs : List (K × δ))
    (hg : grid.length = nbins + 1) (hnb : 1 ≤ nbins) :
    (DynBinSorter.run (fun (a : ℕ) (_ : δ) => a + 1) nbins grid 0 obs).bins.sum
      = obs.length - nbins := by
  induction obs using List.reverseRec with
  | nil => simp [DynBinSorter.run, DynBinSorter.init]
  | append_singleton obs o ih =>
    obtain ⟨h1, h2, h3, h4⟩ := DynBinSorter.run_basic (fun (a : ℕ) (_ : δ) => a + 1) nbins grid 0 obs
    rw [DynBinSorter.run_snoc]
    simp only [DynBinSorter.push, h1, h2]
    by_cases c : obs.length + 1 ≤ nbins
    · rw [if_pos c]; simp only [ih, List.length_append, List.length_singleton]; omega
    · rw [if_neg c]
      have inv : P2.Inv (P2.run grid (obs.map Prod.fst ++ [o.1])) (obs.map Prod.fst ++ [o.1]) :=
        C07.inv_run grid _ (by omega) (by simp; omega)
      rw [h3, ← P2.run_snoc] 
      have hq := P2.run_q grid (obs.map Prod.fst ++ [o.1])
      have hidx := dyn_index (P2.run grid (obs.map Prod.fst ++ [o.1])).h nbins hnb
        (by rw [inv.hlen, hq, hg]) inv.sorted o.1 (inv.min_le _ (by simp))
      simp only
      rw [sum_modify_succ _ _ (by rw [h4]; exact hidx.1), ih]
      simp only [List.length_append, List.length_singleton]; omega
end Dyn
end Gpv
