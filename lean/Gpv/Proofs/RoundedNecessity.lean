/-
  Gpv.Proofs.RoundedNecessity — the relative-error law `rel` of `Rounding` is NOT redundant.

  `Rounding.key` (the computed increment `fl (fl e / g)` of the linear P² formula stays in
  `[0, e]`) is the only place where `rel` / `u_small` are used.  Here: a function `bad : ℚ → ℚ`
  that satisfies every OTHER law of `Rounding` (monotone, idempotent, sign-symmetric, the
  integers `|z| ≤ 3` are fixed points) for which the linear formula with rank gap 2 leaves the
  bracket `[h0, h1]` of two representable heights:

      h0 = 2, h1 = 5/2 :   bad (h1 - bad (bad (h1 - h0) / 2)) = 1 < h0 .

  Representable numbers of `bad`: `0, ±1, ±2, ±5/2, ±3`; `bad` rounds `[1/2, 2)` to `1`
  (relative error up to 1 — a coarse, non-floating-point grid).
-/
import Gpv.Proofs.Rounded
import Mathlib.Algebra.Order.Ring.Rat
import Mathlib.Algebra.Order.Field.Rat
import Mathlib.Algebra.Field.Rat
import Mathlib.Tactic.NormNum
import Mathlib.Tactic.Linarith
import Mathlib.Tactic.IntervalCases

namespace Gpv.Necessity

/-- magnitude part (for `x ≥ 0`) -/
def badPos (x : ℚ) : ℚ :=
  if x < 1 / 2 then 0 else if x < 2 then 1 else if x < 5 / 2 then 2 else if x < 3 then 5 / 2 else 3

/-- a monotone, idempotent, sign-symmetric "rounding" without a relative error bound -/
def bad (x : ℚ) : ℚ := if 0 ≤ x then badPos x else -badPos (-x)

theorem badPos_nonneg (x : ℚ) : 0 ≤ badPos x := by
  unfold badPos; split_ifs <;> norm_num

theorem badPos_mono {x y : ℚ} (h : x ≤ y) : badPos x ≤ badPos y := by
  unfold badPos
  split_ifs <;> first | (exfalso; linarith) | norm_num

theorem bad_mono : Monotone bad := by
  intro x y h
  unfold bad
  split_ifs with hx hy hy
  · exact badPos_mono h
  · exact absurd (hx.trans h) hy
  · have := badPos_nonneg (-x); have := badPos_nonneg y; linarith
  · have := badPos_mono (neg_le_neg h); linarith

theorem bad_neg (x : ℚ) : bad (-x) = -bad x := by
  rcases lt_trichotomy x 0 with h | h | h
  · have h1 : 0 ≤ -x := by linarith
    have h2 : ¬ (0 ≤ x) := by linarith
    simp only [bad, if_pos h1, if_neg h2, neg_neg]
  · subst h; norm_num [bad, badPos]
  · have h1 : ¬ (0 ≤ -x) := by linarith
    have h2 : 0 ≤ x := h.le
    simp only [bad, if_neg h1, if_pos h2, neg_neg]

theorem badPos_values (x : ℚ) :
    badPos x = 0 ∨ badPos x = 1 ∨ badPos x = 2 ∨ badPos x = 5 / 2 ∨ badPos x = 3 := by
  unfold badPos; split_ifs <;> simp

theorem bad_fix_pos {v : ℚ} (h : v = 0 ∨ v = 1 ∨ v = 2 ∨ v = 5 / 2 ∨ v = 3) : bad v = v := by
  rcases h with rfl | rfl | rfl | rfl | rfl <;> norm_num [bad, badPos]

theorem bad_idem (x : ℚ) : bad (bad x) = bad x := by
  by_cases hx : 0 ≤ x
  · have e : bad x = badPos x := by simp only [bad, if_pos hx]
    rw [e]; exact bad_fix_pos (badPos_values x)
  · have e : bad x = -badPos (-x) := by simp only [bad, if_neg hx]
    rw [e, bad_neg, bad_fix_pos (badPos_values (-x))]

theorem bad_int (z : ℤ) (h : |z| ≤ 3) : bad (z : ℚ) = (z : ℚ) := by
  obtain ⟨h1, h2⟩ := abs_le.mp h
  interval_cases z <;> norm_num [bad, badPos]

/-- every law of `Rounding` except `rel` holds for `bad`, and the linear P² formula with rank
    gap `2` between the representable heights `2 ≤ 5/2` falls BELOW the lower height -/
theorem rel_is_needed :
    Monotone bad ∧ (∀ x, bad (bad x) = bad x) ∧ (∀ x, bad (-x) = -bad x) ∧
    (∀ z : ℤ, |z| ≤ 3 → bad (z : ℚ) = (z : ℚ)) ∧
    bad 2 = 2 ∧ bad (5 / 2) = 5 / 2 ∧
    bad (5 / 2 - bad (bad (5 / 2 - 2) / 2)) < 2 := by
  refine ⟨bad_mono, bad_idem, bad_neg, bad_int, by norm_num [bad, badPos],
    by norm_num [bad, badPos], ?_⟩
  have e1 : bad (5 / 2 - 2) = 1 := by norm_num [bad, badPos]
  have e2 : bad ((1 : ℚ) / 2) = 1 := by norm_num [bad, badPos]
  have e3 : bad ((5 : ℚ) / 2 - 1) = 1 := by norm_num [bad, badPos]
  rw [e1, e2, e3]; norm_num

/-- in particular no `u` with `(1+u)^2 ≤ 2` bounds the relative error of `bad` -/
theorem bad_not_rel (u : ℚ) (hu : (1 + u) ^ 2 ≤ 2) : ¬ ∀ x, |bad x - x| ≤ u * |x| := by
  intro h
  have e : bad ((1 : ℚ) / 2) = 1 := by norm_num [bad, badPos]
  have := h (1 / 2)
  rw [e] at this
  norm_num at this
  nlinarith

end Gpv.Necessity

#print axioms Gpv.Necessity.rel_is_needed
#print axioms Gpv.Necessity.bad_not_rel
