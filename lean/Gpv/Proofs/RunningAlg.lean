/-
  Helper lemmas for RunningMean / RunningVariance / RunningCovariance
  (`Gpv.Model.Running`) over an arbitrary linearly ordered field.
  The definitions are the executable ones, instantiated at the field's own
  operations and order (`LinearOrder` supplies `DecidableLT`).
-/
import Gpv.Model.Running
import Gpv.Proofs.AccumAlg
import Mathlib.Algebra.Order.Field.Basic
import Mathlib.Algebra.Order.Ring.Defs
import Mathlib.Tactic.Ring
import Mathlib.Tactic.FieldSimp
import Mathlib.Tactic.LinearCombination
import Mathlib.Tactic.Positivity
import Mathlib.Algebra.BigOperators.Group.List.Basic
import Mathlib.Data.Nat.Cast.Order.Field
import Mathlib.Data.List.Induction
set_option linter.unusedSectionVars false

namespace Gpv
variable {K : Type} [Field K] [LinearOrder K] [IsStrictOrderedRing K]

/-! ### one step -/

/-- the coefficient actually used by `push` when `n` observations have been seen:
    `max(alpha, 1/(n+1))` -/
def effA (alpha : K) (n : Nat) : K := pymax alpha (1 / ((n + 1 : Nat) : K))

theorem RMean.push_acc (s : RMean K) (x : K) :
    (s.push x).acc = s.acc * (1 - effA s.alpha s.n) + x * effA s.alpha s.n := by
  simp [RMean.push, RMean.pushWith, effA]

@[simp] theorem RMean.push_n (s : RMean K) (x : K) : (s.push x).n = s.n + 1 := rfl
@[simp] theorem RMean.push_alpha (s : RMean K) (x : K) : (s.push x).alpha = s.alpha := rfl

theorem pymax_eq_max (a b : K) : pymax a b = max a b := by
  unfold pymax
  split_ifs with h
  · exact (max_eq_right h.le).symm
  · exact (max_eq_left (not_lt.mp h)).symm

theorem inv_succ_pos (n : Nat) : (0 : K) < 1 / ((n + 1 : Nat) : K) := by
  have : (0 : K) < ((n + 1 : Nat) : K) := Nat.cast_pos.mpr (Nat.succ_pos n)
  positivity

theorem inv_succ_le_one (n : Nat) : 1 / ((n + 1 : Nat) : K) ≤ 1 := by
  have h1 : (1 : K) ≤ ((n + 1 : Nat) : K) := by exact_mod_cast Nat.succ_le_succ (Nat.zero_le n)
  rw [div_le_one (lt_of_lt_of_le zero_lt_one h1)]
  exact h1

theorem effA_pos (alpha : K) (n : Nat) : 0 < effA alpha n := by
  rw [effA, pymax_eq_max]
  exact lt_max_of_lt_right (inv_succ_pos n)

theorem effA_le_one {alpha : K} (h : alpha ≤ 1) (n : Nat) : effA alpha n ≤ 1 := by
  rw [effA, pymax_eq_max]
  exact max_le h (inv_succ_le_one n)

theorem effA_zero {alpha : K} (h : alpha ≤ 1) : effA alpha 0 = 1 := by
  rw [effA, pymax_eq_max]
  simp [h]

theorem one_div_le_one_of_one_le {l : K} (h : 1 ≤ l) : 1 / l ≤ 1 := by
  rw [div_le_one (lt_of_lt_of_le zero_lt_one h)]; exact h

/-- the coefficient for a natural lifetime, in closed form -/
def coef (L n : Nat) : K := if n + 1 ≤ L then 1 / ((n + 1 : Nat) : K) else 1 / (L : K)

theorem effA_nat {L : Nat} (hL : 1 ≤ L) (n : Nat) : effA (1 / (L : K)) n = coef L n := by
  have hLpos : (0 : K) < (L : K) := Nat.cast_pos.mpr hL
  have hnpos : (0 : K) < ((n + 1 : Nat) : K) := Nat.cast_pos.mpr (Nat.succ_pos n)
  rw [effA, pymax_eq_max, coef]
  split_ifs with h
  · apply max_eq_right
    rw [one_div, one_div]
    exact inv_anti₀ hnpos (by exact_mod_cast h)
  · apply max_eq_left
    rw [one_div, one_div]
    exact inv_anti₀ hLpos (by exact_mod_cast (Nat.le_of_lt (Nat.lt_of_not_le h)))

/-! ### the run -/

/-- fold of `push` from the freshly constructed accumulator with lifetime `l` -/
def RMean.run (l : K) (xs : List K) : RMean K := xs.foldl RMean.push (RMean.init l)

theorem RMean.run_snoc (l : K) (xs : List K) (x : K) :
    RMean.run l (xs ++ [x]) = (RMean.run l xs).push x := by
  simp [RMean.run, List.foldl_append]

theorem RMean.run_n_alpha (l : K) (xs : List K) :
    (RMean.run l xs).n = xs.length ∧ (RMean.run l xs).alpha = 1 / l := by
  induction xs using List.reverseRec with
  | nil => simp [RMean.run, RMean.init]
  | append_singleton xs x ih =>
    rw [RMean.run_snoc]
    simp [ih.1, ih.2]

theorem RMean.run_snoc_acc (l : K) (xs : List K) (x : K) :
    (RMean.run l (xs ++ [x])).acc
      = (RMean.run l xs).acc * (1 - effA (1 / l) xs.length) + x * effA (1 / l) xs.length := by
  rw [RMean.run_snoc, RMean.push_acc, (RMean.run_n_alpha l xs).1, (RMean.run_n_alpha l xs).2]

/-- the value stays inside any interval that contains all observations -/
theorem RMean.run_bounds {l : K} (hl : 1 ≤ l) (lo hi : K) (xs : List K) (hne : xs ≠ [])
    (hb : ∀ x ∈ xs, lo ≤ x ∧ x ≤ hi) :
    lo ≤ (RMean.run l xs).acc ∧ (RMean.run l xs).acc ≤ hi := by
  have hal : 1 / l ≤ 1 := one_div_le_one_of_one_le hl
  induction xs using List.reverseRec with
  | nil => exact absurd rfl hne
  | append_singleton xs x ih =>
    rw [RMean.run_snoc_acc]
    have hx := hb x (by simp)
    rcases xs with _ | ⟨y, ys⟩
    · simp only [List.length_nil, effA_zero hal]
      simpa using hx
    · have ih' := ih (by simp) (fun z hz => hb z (by
        simp only [List.mem_append, List.mem_singleton]; exact Or.inl hz))
      set a := effA (1 / l) (y :: ys).length with ha
      have h0 : 0 < a := effA_pos _ _
      have h1 : a ≤ 1 := effA_le_one hal _
      have h1' : 0 ≤ 1 - a := sub_nonneg.mpr h1
      set m := (RMean.run l (y :: ys)).acc
      constructor
      · have e1 : lo * (1 - a) ≤ m * (1 - a) := mul_le_mul_of_nonneg_right ih'.1 h1'
        have e2 : lo * a ≤ x * a := mul_le_mul_of_nonneg_right hx.1 h0.le
        linear_combination e1 + e2
      · have e1 : m * (1 - a) ≤ hi * (1 - a) := mul_le_mul_of_nonneg_right ih'.2 h1'
        have e2 : x * a ≤ hi * a := mul_le_mul_of_nonneg_right hx.2 h0.le
        linear_combination e1 + e2

/-- a non-empty list has a least and a greatest element -/
theorem exists_min_max (xs : List K) (hne : xs ≠ []) :
    ∃ lo ∈ xs, ∃ hi ∈ xs, ∀ x ∈ xs, lo ≤ x ∧ x ≤ hi := by
  induction xs with
  | nil => exact absurd rfl hne
  | cons y ys ih =>
    rcases ys with _ | ⟨z, zs⟩
    · exact ⟨y, by simp, y, by simp, by simp⟩
    · obtain ⟨lo, hlo, hi, hhi, hb⟩ := ih (by simp)
      refine ⟨min y lo, ?_, max y hi, ?_, ?_⟩
      · rcases min_choice y lo with h | h <;> rw [h]
        · simp
        · exact List.mem_cons_of_mem _ hlo
      · rcases max_choice y hi with h | h <;> rw [h]
        · simp
        · exact List.mem_cons_of_mem _ hhi
      · intro x hx
        rcases List.mem_cons.mp hx with rfl | hx
        · exact ⟨min_le_left _ _, le_max_left _ _⟩
        · exact ⟨le_trans (min_le_right _ _) (hb x hx).1, le_trans (hb x hx).2 (le_max_right _ _)⟩

/-! ### the weights -/

/-- weight of observation `i` (0-based) after `n` observations, natural lifetime `L` -/
def rweight (L n i : Nat) : K :=
  if n ≤ L then 1 / (n : K)
  else if i < L then (1 - 1 / (L : K)) ^ (n - L) / (L : K)
  else (1 / (L : K)) * (1 - 1 / (L : K)) ^ (n - 1 - i)

theorem rweight_succ_last {L : Nat} (n : Nat) : (rweight L (n + 1) n : K) = coef L n := by
  unfold rweight coef
  split_ifs with h1 h2
  · rfl
  · omega
  · simp

theorem rweight_succ_lt {L : Nat} (hL : 1 ≤ L) {n i : Nat} (hi : i < n) :
    (rweight L (n + 1) i : K) = (1 - coef L n) * rweight L n i := by
  have hLne : (L : K) ≠ 0 := Nat.cast_ne_zero.mpr (by omega)
  have hnne : (n : K) ≠ 0 := Nat.cast_ne_zero.mpr (by omega)
  have hn1 : ((n + 1 : Nat) : K) ≠ 0 := Nat.cast_ne_zero.mpr (Nat.succ_ne_zero _)
  unfold rweight coef
  by_cases h1 : n + 1 ≤ L
  · have h2 : n ≤ L := by omega
    rw [if_pos h1, if_pos h1, if_pos h2]
    push_cast at hn1 ⊢
    field_simp
    ring
  · rw [if_neg h1, if_neg h1]
    by_cases h2 : n ≤ L
    · have hnL : n = L := by omega
      subst hnL
      rw [if_pos h2, if_pos hi]
      simp only [Nat.add_sub_cancel_left, pow_one]
      field_simp
    · rw [if_neg h2]
      by_cases h3 : i < L
      · rw [if_pos h3, if_pos h3]
        have : n + 1 - L = (n - L) + 1 := by omega
        rw [this, pow_succ]
        ring
      · rw [if_neg h3, if_neg h3]
        have : n + 1 - 1 - i = (n - 1 - i) + 1 := by omega
        rw [this, pow_succ]
        ring

/-- the list of the `n` weights -/
def rweights (L n : Nat) : List K := (List.range n).map (rweight L n)

@[simp] theorem rweights_length (L n : Nat) : (rweights L n : List K).length = n := by
  simp [rweights]

theorem rweights_succ {L : Nat} (hL : 1 ≤ L) (n : Nat) :
    (rweights L (n + 1) : List K) = (rweights L n).map (fun v => (1 - coef L n) * v) ++ [coef L n] := by
  unfold rweights
  rw [List.range_succ, List.map_append, List.map_singleton, rweight_succ_last, List.map_map]
  congr 1
  apply List.map_congr_left
  intro i hi
  exact rweight_succ_lt hL (List.mem_range.mp hi)

/-- weighted sum `Σ wᵢ·xᵢ` -/
def wsum (ws xs : List K) : K := (List.zipWith (· * ·) ws xs).sum

theorem wsum_map_mul (c : K) (ws xs : List K) :
    wsum (ws.map fun v => c * v) xs = c * wsum ws xs := by
  unfold wsum
  induction ws generalizing xs with
  | nil => simp
  | cons v ws ih =>
    cases xs with
    | nil => simp
    | cons x xs =>
      simp only [List.map_cons, List.zipWith_cons_cons, List.sum_cons, ih]
      ring

theorem wsum_snoc (ws xs : List K) (a x : K) (h : ws.length = xs.length) :
    wsum (ws ++ [a]) (xs ++ [x]) = wsum ws xs + a * x := by
  unfold wsum
  rw [List.zipWith_append h]
  simp

theorem sum_map_mul (c : K) (ws : List K) : (ws.map fun v => c * v).sum = c * ws.sum := by
  induction ws with
  | nil => simp
  | cons v ws ih => simp only [List.map_cons, List.sum_cons, ih]; ring

/-- `RunningMean` is the weighted sum with the weights `rweights` -/
theorem RMean.run_weighted {L : Nat} (hL : 1 ≤ L) (xs : List K) :
    (RMean.run (L : K) xs).acc = wsum (rweights L xs.length) xs := by
  induction xs using List.reverseRec with
  | nil => simp [RMean.run, RMean.init, wsum]
  | append_singleton xs x ih =>
    rw [RMean.run_snoc_acc, effA_nat hL, ih]
    simp only [List.length_append, List.length_singleton]
    rw [rweights_succ hL, wsum_snoc _ _ _ _ (by simp), wsum_map_mul]
    ring

theorem rweight_nonneg {L : Nat} (hL : 1 ≤ L) (n i : Nat) : (0 : K) ≤ rweight L n i := by
  have hLpos : (0 : K) < (L : K) := Nat.cast_pos.mpr hL
  have h1 : (0 : K) ≤ 1 - 1 / (L : K) :=
    sub_nonneg.mpr (one_div_le_one_of_one_le (by exact_mod_cast hL))
  unfold rweight
  split_ifs <;> positivity

theorem rweights_sum {L : Nat} (hL : 1 ≤ L) {n : Nat} (hn : 1 ≤ n) :
    (rweights L n : List K).sum = 1 := by
  induction n, hn using Nat.le_induction with
  | base =>
    rw [rweights_succ hL]
    have : (coef L 0 : K) = 1 := by simp [coef, hL]
    simp [rweights, this]
  | succ n hn ih =>
    rw [rweights_succ hL, List.sum_append, sum_map_mul, ih]
    simp

/-! ### warm-up: the running mean *is* the plain mean update -/

/-- while `n + 1 ≤ L` the running update is `Mean.push` -/
theorem RMean.push_warmup {L : Nat} (hL : 1 ≤ L) (s : RMean K) (x : K)
    (ha : s.alpha = 1 / (L : K)) (hn : s.n + 1 ≤ L) :
    (s.push x).acc = ((⟨s.acc, s.n⟩ : Mean K).push x).val := by
  rw [RMean.push_acc, ha, effA_nat hL, coef, if_pos hn]
  simp only [Mean.push]
  ring

/-- a running mean (natural lifetime `L`) that is, so far, the plain mean `m` -/
def RMean.Agrees (L : Nat) (r : RMean K) (m : Mean K) : Prop :=
  r.acc = m.val ∧ r.n = m.n ∧ r.alpha = 1 / (L : K)

theorem RMean.Agrees.push {L : Nat} (hL : 1 ≤ L) {r : RMean K} {m : Mean K}
    (h : r.Agrees L m) (hn : m.n + 1 ≤ L) (x : K) : (r.push x).Agrees L (m.push x) := by
  obtain ⟨h1, h2, h3⟩ := h
  refine ⟨?_, by simp [h2], by simp [h3]⟩
  rw [RMean.push_warmup hL r x h3 (by omega), h1, h2]

theorem RMean.agrees_init (L : Nat) : (RMean.init (L : K)).Agrees L (Mean.init : Mean K) := by
  simp [RMean.Agrees, RMean.init, Mean.init]

/-- warm-up of the running mean: state for state the plain `Mean` -/
theorem RMean.run_agrees {L : Nat} (hL : 1 ≤ L) (xs : List K) (hx : xs.length ≤ L) :
    (RMean.run (L : K) xs).Agrees L (Mean.run xs) := by
  induction xs using List.reverseRec with
  | nil => exact RMean.agrees_init L
  | append_singleton xs x ih =>
    simp only [List.length_append, List.length_singleton] at hx
    rw [RMean.run_snoc, Mean.run_snoc]
    exact (ih (by omega)).push hL (by rw [(Mean.run_inv xs).1]; exact hx) x

/-! ### RunningVariance / RunningCovariance during warm-up -/

def RVariance.run (l : K) (xs : List K) : RVariance K := xs.foldl RVariance.push (RVariance.init l)
def RCov2.run (l : K) (ps : List (K × K)) : RCov2 K :=
  ps.foldl (fun s p => s.push p.1 p.2) (RCov2.init l)

theorem RVariance.run_snoc (l : K) (xs : List K) (x : K) :
    RVariance.run l (xs ++ [x]) = (RVariance.run l xs).push x := by
  simp [RVariance.run, List.foldl_append]
theorem RCov2.run_snoc (l : K) (ps : List (K × K)) (p : K × K) :
    RCov2.run l (ps ++ [p]) = (RCov2.run l ps).push p.1 p.2 := by
  simp [RCov2.run, List.foldl_append]

theorem RVariance.run_agrees {L : Nat} (hL : 1 ≤ L) (xs : List K) (hx : xs.length ≤ L) :
    (RVariance.run (L : K) xs).mean.Agrees L (Variance.run xs).mean
      ∧ (RVariance.run (L : K) xs).var.Agrees L (Variance.run xs).var := by
  induction xs using List.reverseRec with
  | nil => exact ⟨RMean.agrees_init L, RMean.agrees_init L⟩
  | append_singleton xs x ih =>
    simp only [List.length_append, List.length_singleton] at hx
    obtain ⟨hm, hv⟩ := ih (by omega)
    have hi := Variance.run_inv xs
    rw [RVariance.run_snoc, Variance.run_snoc]
    have hm' := hm.push hL (by rw [hi.mean_n]; exact hx) x
    refine ⟨hm', ?_⟩
    simp only [RVariance.push, Variance.push]
    rw [hm.1, hm'.1]
    exact hv.push hL (by rw [hi.var_n]; exact hx) _

theorem RCov2.run_agrees {L : Nat} (hL : 1 ≤ L) (ps : List (K × K)) (hp : ps.length ≤ L) :
    (RCov2.run (L : K) ps).mx.Agrees L (Cov2.run ps).mx
      ∧ (RCov2.run (L : K) ps).my.Agrees L (Cov2.run ps).my
      ∧ (RCov2.run (L : K) ps).c.Agrees L (Cov2.run ps).c := by
  induction ps using List.reverseRec with
  | nil => exact ⟨RMean.agrees_init L, RMean.agrees_init L, RMean.agrees_init L⟩
  | append_singleton ps p ih =>
    simp only [List.length_append, List.length_singleton] at hp
    obtain ⟨hmx, hmy, hc⟩ := ih (by omega)
    have hi := Cov2.run_inv ps
    rw [RCov2.run_snoc, Cov2.run_snoc]
    have hmx' := hmx.push hL (by rw [hi.mx_n]; exact hp) p.1
    have hmy' := hmy.push hL (by rw [hi.my_n]; exact hp) p.2
    refine ⟨hmx', hmy', ?_⟩
    simp only [RCov2.push, Cov2.push]
    rw [hmx.1, hmy'.1]
    exact hc.push hL (by rw [hi.c_n]; exact hp) _

end Gpv
