/-
  Rounding-error analysis of the exponential running mean
      `a = max(alpha, 1/n');  acc = acc*(1 - a) + obj*a`      (`RMean.push`, Gpv/Model/Running.lean)
  in the standard model of `Gpv/Proofs/FloatMean.lean` (`Rnd u e r : r = e (1 + δ), |δ| ≤ u`).

  CHOICE OF MODEL.  The weight `a` of a step is GIVEN: it is whatever floating-point number
  the program holds after `max(alpha, 1/n')`, assumed to lie in `[0, 1]`; it is used as is
  (no further rounding of `a` itself) and the exact reference recursion uses the SAME weights.
  The four operations that involve the data are rounded once each:
      `c = fl(1 - a)`, `p = fl(acc * c)`, `q = fl(obj * a)`, `acc' = fl(p + q)`.
  A run is over a list of pairs `(a, x)` (weight, observation) from an arbitrary initial value.
-/
import Gpv.Proofs.FloatMerge
import Gpv.Proofs.RunningAlg
set_option linter.unusedSectionVars false

namespace Gpv
variable {K : Type} [Field K] [LinearOrder K] [IsStrictOrderedRing K]

/-! ### the model -/

/-- the exact step `acc*(1 - a) + x*a` -/
def wstep (a v x : K) : K := v * (1 - a) + x * a

/-- the exact recursion over a list of `(weight, observation)` pairs, from `v` -/
def wrun (v : K) : List (K × K) → K
  | [] => v
  | p :: ps => wrun (wstep p.1 v p.2) ps

/-- one floating-point step with the given weight `a` -/
def FlRStep (u a v x v' : K) : Prop :=
  ∃ c p q : K, Rnd u (1 - a) c ∧ Rnd u (v * c) p ∧ Rnd u (x * a) q ∧ Rnd u (p + q) v'

/-- `v'` is a possible floating-point value after the steps `ps`, started at `v` -/
def FlRRun (u : K) (v : K) : List (K × K) → K → Prop
  | [], v' => v' = v
  | p :: ps, v' => ∃ v1, FlRStep u p.1 v p.2 v1 ∧ FlRRun u v1 ps v'

theorem flRRun_nil_iff (u v v' : K) : FlRRun u v [] v' ↔ v' = v := Iff.rfl

theorem flRRun_cons_iff (u v : K) (p : K × K) (ps : List (K × K)) (v' : K) :
    FlRRun u v (p :: ps) v' ↔ ∃ v1, FlRStep u p.1 v p.2 v1 ∧ FlRRun u v1 ps v' := Iff.rfl

theorem FlRStep.mono {u u' : K} (h : u ≤ u') {a v x v' : K} : FlRStep u a v x v' → FlRStep u' a v x v' := by
  rintro ⟨c, p, q, h1, h2, h3, h4⟩
  exact ⟨c, p, q, h1.mono h, h2.mono h, h3.mono h, h4.mono h⟩

theorem FlRStep.exact {u : K} (hu : 0 ≤ u) (a v x : K) : FlRStep u a v x (wstep a v x) :=
  ⟨_, _, _, Rnd.exact hu _, Rnd.exact hu _, Rnd.exact hu _, Rnd.exact hu _⟩

theorem flRStep_zero_iff (a v x v' : K) : FlRStep 0 a v x v' ↔ v' = wstep a v x := by
  constructor
  · rintro ⟨c, p, q, h1, h2, h3, h4⟩
    rw [rnd_zero_iff] at h1 h2 h3 h4
    subst h1 h2 h3; exact h4
  · rintro rfl; exact FlRStep.exact le_rfl a v x

theorem flRStep_of_deltas {u : K} (a v x δ1 δ2 δ3 δ4 : K)
    (h1 : |δ1| ≤ u) (h2 : |δ2| ≤ u) (h3 : |δ3| ≤ u) (h4 : |δ4| ≤ u) :
    FlRStep u a v x ((v * ((1 - a) * (1 + δ1)) * (1 + δ2) + x * a * (1 + δ3)) * (1 + δ4)) :=
  ⟨_, _, _, ⟨δ1, h1, rfl⟩, ⟨δ2, h2, rfl⟩, ⟨δ3, h3, rfl⟩, ⟨δ4, h4, rfl⟩⟩

theorem FlRRun.mono {u u' : K} (h : u ≤ u') {ps : List (K × K)} {v v' : K}
    (hr : FlRRun u v ps v') : FlRRun u' v ps v' := by
  induction ps generalizing v with
  | nil => exact hr
  | cons p ps ih =>
    obtain ⟨v1, hs, hr'⟩ := hr
    exact ⟨v1, hs.mono h, ih hr'⟩

theorem FlRRun.of_exact {u : K} (hu : 0 ≤ u) (v : K) (ps : List (K × K)) : FlRRun u v ps (wrun v ps) := by
  induction ps generalizing v with
  | nil => exact rfl
  | cons p ps ih => exact ⟨_, FlRStep.exact hu p.1 v p.2, ih _⟩

theorem flRRun_zero_iff (v : K) (ps : List (K × K)) (v' : K) : FlRRun 0 v ps v' ↔ v' = wrun v ps := by
  constructor
  · intro h
    induction ps generalizing v with
    | nil => exact h
    | cons p ps ih =>
      obtain ⟨v1, hs, hr⟩ := h
      rw [flRStep_zero_iff] at hs
      subst hs
      exact ih _ hr
  · rintro rfl; exact FlRRun.of_exact le_rfl v ps

theorem FlRRun.append {u : K} {ps qs : List (K × K)} {v v1 v2 : K}
    (h1 : FlRRun u v ps v1) (h2 : FlRRun u v1 qs v2) : FlRRun u v (ps ++ qs) v2 := by
  induction ps generalizing v with
  | nil => rw [flRRun_nil_iff] at h1; subst h1; exact h2
  | cons p ps ih =>
    obtain ⟨w, hs, hr⟩ := h1
    exact ⟨w, hs, ih hr⟩

/-! ### one step: the error recursion -/

theorem abs_three_mul_le {p a t A γ : K} (hp : 0 ≤ p) (ha : |a| ≤ A) (ht : |t| ≤ γ) :
    |p * a * t| ≤ p * A * γ := by
  have hA : 0 ≤ A := (abs_nonneg _).trans ha
  rw [abs_mul, abs_mul, abs_of_nonneg hp]
  exact mul_le_mul (mul_le_mul_of_nonneg_left ha hp) ht (abs_nonneg _) (mul_nonneg hp hA)

/-- the identity behind the analysis: the old value carries three roundings
    (`1 - a`, the product, the sum), the new observation two -/
theorem rstep_identity (a v x ex δ1 δ2 δ3 δ4 : K) :
    (v * ((1 - a) * (1 + δ1)) * (1 + δ2) + x * a * (1 + δ3)) * (1 + δ4) - (ex * (1 - a) + x * a)
      = (1 - a) * (v - ex) * ((1 + δ1) * (1 + δ2) * (1 + δ4))
        + (1 - a) * ex * ((1 + δ1) * (1 + δ2) * (1 + δ4) - 1)
        + a * x * ((1 + δ3) * (1 + δ4) - 1) := by
  ring

/-- **the error recursion.**  Against ANY reference value `ex`, for a weight in `[0, 1]`:
    `|v' − (ex (1−a) + x a)| ≤ (1−a)(1+u)³ |v − ex| + ((1+u)³ − 1) ((1−a)|ex| + a|x|)` -/
theorem FlRStep.err {u a v x v' : K} (h : FlRStep u a v x v') (ha0 : 0 ≤ a) (ha1 : a ≤ 1) (ex : K) :
    |v' - wstep a ex x|
      ≤ (1 - a) * (1 + u) ^ 3 * |v - ex| + ((1 + u) ^ 3 - 1) * ((1 - a) * |ex| + a * |x|) := by
  obtain ⟨c, p, q, ⟨δ1, h1, rfl⟩, ⟨δ2, h2, rfl⟩, ⟨δ3, h3, rfl⟩, ⟨δ4, h4, rfl⟩⟩ := h
  have hu : 0 ≤ u := (abs_nonneg _).trans h1
  have h1a : 0 ≤ 1 - a := sub_nonneg.mpr ha1
  unfold wstep
  rw [rstep_identity]
  have t1 := abs_three_mul_le h1a (le_refl |v - ex|) (abs_prod3_le h1 h2 h4)
  have t2 := abs_three_mul_le h1a (le_refl |ex|) (abs_prod3_sub_one h1 h2 h4)
  have t3 := abs_three_mul_le ha0 (le_refl |x|)
    ((abs_prod2_sub_one h3 h4).trans (gam2_le_gam3 hu))
  calc _ ≤ |(1 - a) * (v - ex) * ((1 + δ1) * (1 + δ2) * (1 + δ4))|
          + |(1 - a) * ex * ((1 + δ1) * (1 + δ2) * (1 + δ4) - 1)|
          + |a * x * ((1 + δ3) * (1 + δ4) - 1)| :=
        (abs_add_le _ _).trans (add_le_add (abs_add_le _ _) le_rfl)
    _ ≤ (1 - a) * |v - ex| * (1 + u) ^ 3 + (1 - a) * |ex| * ((1 + u) ^ 3 - 1)
          + a * |x| * ((1 + u) ^ 3 - 1) := add_le_add (add_le_add t1 t2) t3
    _ = _ := by ring

/-- with `|ex| ≤ M`, `|x| ≤ M` the local error is at most `((1+u)³ − 1) M` -/
theorem FlRStep.err_M {u a v x v' M : K} (h : FlRStep u a v x v') (ha0 : 0 ≤ a) (ha1 : a ≤ 1)
    {ex : K} (hex : |ex| ≤ M) (hx : |x| ≤ M) :
    |v' - wstep a ex x| ≤ (1 - a) * (1 + u) ^ 3 * |v - ex| + ((1 + u) ^ 3 - 1) * M := by
  obtain ⟨_, _, _, ⟨δ1, h1, _⟩, _⟩ := id h
  have hu : 0 ≤ u := (abs_nonneg _).trans h1
  refine (h.err ha0 ha1 ex).trans ?_
  have h1a : 0 ≤ 1 - a := sub_nonneg.mpr ha1
  have hc : (1 - a) * |ex| + a * |x| ≤ M := by
    have e1 := mul_le_mul_of_nonneg_left hex h1a
    have e2 := mul_le_mul_of_nonneg_left hx ha0
    linarith
  have := mul_le_mul_of_nonneg_left hc (gam3_nonneg hu)
  linarith

/-- the exact step is a convex combination: it stays within `M` -/
theorem wstep_abs_le {a ex x M : K} (ha0 : 0 ≤ a) (ha1 : a ≤ 1) (hex : |ex| ≤ M) (hx : |x| ≤ M) :
    |wstep a ex x| ≤ M := by
  have h1a : 0 ≤ 1 - a := sub_nonneg.mpr ha1
  unfold wstep
  calc |ex * (1 - a) + x * a| ≤ |ex * (1 - a)| + |x * a| := abs_add_le _ _
    _ = |ex| * (1 - a) + |x| * a := by rw [abs_mul, abs_mul, abs_of_nonneg h1a, abs_of_nonneg ha0]
    _ ≤ M * (1 - a) + M * a :=
        add_le_add (mul_le_mul_of_nonneg_right hex h1a) (mul_le_mul_of_nonneg_right hx ha0)
    _ = M := by ring

/-- magnitude of one step: `|v'| ≤ (1+u)³ ((1−a)|v| + a|x|)` -/
theorem FlRStep.magnitude {u a v x v' : K} (h : FlRStep u a v x v') (ha0 : 0 ≤ a) (ha1 : a ≤ 1) :
    |v'| ≤ (1 + u) ^ 3 * ((1 - a) * |v| + a * |x|) := by
  have he := h.err ha0 ha1 0
  simp only [wstep, zero_mul, zero_add, sub_zero, abs_zero, mul_zero] at he
  have h2 : |v'| ≤ |v' - x * a| + |x * a| := by
    calc |v'| = |(v' - x * a) + x * a| := by ring_nf
      _ ≤ _ := abs_add_le _ _
  have h3 : |x * a| = a * |x| := by rw [abs_mul, abs_of_nonneg ha0, mul_comm]
  rw [h3] at h2
  calc |v'| ≤ (1 - a) * (1 + u) ^ 3 * |v| + ((1 + u) ^ 3 - 1) * (a * |x|) + a * |x| := by linarith
    _ = _ := by ring

/-! ### boundedness, uniformly in the number of steps -/

/-- hypotheses on a list of steps: weights in `[amin, 1]`, observations bounded by `M` -/
def StepsOK (amin M : K) (ps : List (K × K)) : Prop :=
  ∀ p ∈ ps, amin ≤ p.1 ∧ p.1 ≤ 1 ∧ |p.2| ≤ M

theorem StepsOK.head {amin M : K} {p : K × K} {ps : List (K × K)} (h : StepsOK amin M (p :: ps)) :
    amin ≤ p.1 ∧ p.1 ≤ 1 ∧ |p.2| ≤ M := h p (by simp)

theorem StepsOK.tail {amin M : K} {p : K × K} {ps : List (K × K)} (h : StepsOK amin M (p :: ps)) :
    StepsOK amin M ps := fun q hq => h q (by simp [hq])

/-- an invariant ball: if `B ≥ M` satisfies `(1+u)³ ((1 − amin) B + amin M) ≤ B` then a step
    with weight in `[amin, 1]` maps `|v| ≤ B` into itself -/
theorem FlRStep.bounded {u a amin v x v' M B : K} (h : FlRStep u a v x v') (hamin : 0 ≤ amin)
    (ha : amin ≤ a) (ha1 : a ≤ 1) (hx : |x| ≤ M) (hMB : M ≤ B)
    (hB : (1 + u) ^ 3 * ((1 - amin) * B + amin * M) ≤ B) (hv : |v| ≤ B) : |v'| ≤ B := by
  obtain ⟨_, _, _, ⟨δ1, h1, _⟩, _⟩ := id h
  have hu : 0 ≤ u := (abs_nonneg _).trans h1
  have ha0 : 0 ≤ a := hamin.trans ha
  have h1a : 0 ≤ 1 - a := sub_nonneg.mpr ha1
  refine (h.magnitude ha0 ha1).trans (le_trans ?_ hB)
  apply mul_le_mul_of_nonneg_left _ (by positivity)
  have e1 := mul_le_mul_of_nonneg_left hv h1a
  have e2 := mul_le_mul_of_nonneg_left hx ha0
  have e3 : 0 ≤ (a - amin) * (B - M) := mul_nonneg (by linarith) (by linarith)
  nlinarith

theorem FlRRun.bounded {u amin M B : K} (hamin : 0 ≤ amin) (hMB : M ≤ B)
    (hB : (1 + u) ^ 3 * ((1 - amin) * B + amin * M) ≤ B) {ps : List (K × K)} {v v' : K}
    (h : FlRRun u v ps v') (hok : StepsOK amin M ps) (hv : |v| ≤ B) : |v'| ≤ B := by
  induction ps generalizing v with
  | nil => rw [flRRun_nil_iff] at h; rw [h]; exact hv
  | cons p ps ih =>
    obtain ⟨v1, hs, hr⟩ := h
    obtain ⟨h1, h2, h3⟩ := hok.head
    exact ih hr hok.tail (hs.bounded hamin h1 h2 h3 hMB hB hv)

/-- the explicit ball `B = M·amin/(amin − 4u)` is invariant (`u ≤ 1/4`, `4u < amin`) -/
theorem ball_four {u amin M : K} (hu : 0 ≤ u) (hu4 : u ≤ 1 / 4) (hM : 0 ≤ M) (ha : 4 * u < amin) :
    M ≤ M * amin / (amin - 4 * u)
      ∧ (1 + u) ^ 3 * ((1 - amin) * (M * amin / (amin - 4 * u)) + amin * M) ≤ M * amin / (amin - 4 * u) := by
  have hd : 0 < amin - 4 * u := by linarith
  have hg := gam3_le_four hu hu4
  have hg1 : (1 : K) ≤ (1 + u) ^ 3 := by linarith [gam3_nonneg hu]
  constructor
  · rw [le_div_iff₀ hd]; nlinarith
  · have e : (1 - amin) * (M * amin / (amin - 4 * u)) + amin * M
        = M * amin * (1 - 4 * u) / (amin - 4 * u) := by
      field_simp; ring
    rw [e, ← mul_div_assoc, div_le_div_iff_of_pos_right hd]
    have hMa : 0 ≤ M * amin := mul_nonneg hM (by linarith)
    have key : (1 + u) ^ 3 * (1 - 4 * u) ≤ 1 := by
      -- (1+γ)(1−4u) ≤ 1  ⟸  γ ≤ 4u(1+γ)
      nlinarith [gam3_nonneg hu]
    calc (1 + u) ^ 3 * (M * amin * (1 - 4 * u)) = M * amin * ((1 + u) ^ 3 * (1 - 4 * u)) := by ring
      _ ≤ M * amin * 1 := mul_le_mul_of_nonneg_left key hMa
      _ = M * amin := by ring

/-! ### the error against the exact recursion with the same weights -/

theorem wrun_abs_le {amin M : K} (hamin : 0 ≤ amin) {ps : List (K × K)} (hok : StepsOK amin M ps)
    {ex : K} (hex : |ex| ≤ M) : |wrun ex ps| ≤ M := by
  induction ps generalizing ex with
  | nil => exact hex
  | cons p ps ih =>
    obtain ⟨h1, h2, h3⟩ := hok.head
    exact ih hok.tail (wstep_abs_le (hamin.trans h1) h2 hex h3)

/-- one step with the weight bounded below: contraction factor `ρ = (1 − amin)(1+u)³` -/
theorem FlRStep.err_min {u a amin v x v' M : K} (h : FlRStep u a v x v') (hamin : 0 ≤ amin)
    (ha : amin ≤ a) (ha1 : a ≤ 1) {ex : K} (hex : |ex| ≤ M) (hx : |x| ≤ M) :
    |v' - wstep a ex x| ≤ (1 - amin) * (1 + u) ^ 3 * |v - ex| + ((1 + u) ^ 3 - 1) * M := by
  obtain ⟨_, _, _, ⟨δ1, h1, _⟩, _⟩ := id h
  have hu : 0 ≤ u := (abs_nonneg _).trans h1
  refine (h.err_M (hamin.trans ha) ha1 hex hx).trans ?_
  have : (1 - a) * ((1 + u) ^ 3 * |v - ex|) ≤ (1 - amin) * ((1 + u) ^ 3 * |v - ex|) :=
    mul_le_mul_of_nonneg_right (by linarith) (by positivity)
  linarith

/-- **the error of a run.**  `ρ = (1 − amin)(1+u)³`, `E` any solution of
    `ρ E + ((1+u)³ − 1) M ≤ E`: after `k` steps
    `|v − exact| ≤ ρ^k |v₀ − ex₀| + (1 − ρ^k) E` — the initial error is forgotten
    geometrically, the steady state is `E` -/
theorem FlRRun.err {u amin M E : K} (hu : 0 ≤ u) (hamin : 0 ≤ amin) (hamin1 : amin ≤ 1)
    (hE : (1 - amin) * (1 + u) ^ 3 * E + ((1 + u) ^ 3 - 1) * M ≤ E)
    {ps : List (K × K)} {v v' : K} (h : FlRRun u v ps v') (hok : StepsOK amin M ps)
    {ex : K} (hex : |ex| ≤ M) :
    |v' - wrun ex ps| ≤ ((1 - amin) * (1 + u) ^ 3) ^ ps.length * |v - ex|
        + (1 - ((1 - amin) * (1 + u) ^ 3) ^ ps.length) * E := by
  induction ps generalizing v ex with
  | nil => rw [flRRun_nil_iff] at h; rw [h]; simp [wrun]
  | cons p ps ih =>
    obtain ⟨v1, hs, hr⟩ := h
    obtain ⟨h1, h2, h3⟩ := hok.head
    have hstep := hs.err_min hamin h1 h2 hex h3
    have hex1 := wstep_abs_le (hamin.trans h1) h2 hex h3
    have hi := ih hr hok.tail hex1
    set ρ : K := (1 - amin) * (1 + u) ^ 3 with hρ
    have hρ0 : 0 ≤ ρ := mul_nonneg (by linarith) (by positivity)
    have hρk : 0 ≤ ρ ^ ps.length := pow_nonneg hρ0 _
    simp only [wrun, List.length_cons, pow_succ]
    have e1 : ρ ^ ps.length * |v1 - wstep p.1 ex p.2|
        ≤ ρ ^ ps.length * (ρ * |v - ex| + ((1 + u) ^ 3 - 1) * M) :=
      mul_le_mul_of_nonneg_left hstep hρk
    have e2 : ρ ^ ps.length * (ρ * E + ((1 + u) ^ 3 - 1) * M) ≤ ρ ^ ps.length * E :=
      mul_le_mul_of_nonneg_left hE hρk
    nlinarith [e1, e2, hi]

/-- the explicit steady-state error `E = 4uM/(amin − 4u)` (`u ≤ 1/4`, `4u < amin`) -/
theorem steady_four {u amin M : K} (hu : 0 ≤ u) (hu4 : u ≤ 1 / 4) (hM : 0 ≤ M) (ha : 4 * u < amin) :
    0 ≤ 4 * u * M / (amin - 4 * u)
      ∧ (1 - amin) * (1 + u) ^ 3 * (4 * u * M / (amin - 4 * u)) + ((1 + u) ^ 3 - 1) * M
          ≤ 4 * u * M / (amin - 4 * u) := by
  have hd : 0 < amin - 4 * u := by linarith
  have hg := gam3_le_four hu hu4
  have hγ := gam3_nonneg hu
  constructor
  · positivity
  · have e : (1 - amin) * (1 + u) ^ 3 * (4 * u * M / (amin - 4 * u)) + ((1 + u) ^ 3 - 1) * M
        = ((1 - amin) * (1 + u) ^ 3 * (4 * u * M) + ((1 + u) ^ 3 - 1) * M * (amin - 4 * u))
          / (amin - 4 * u) := by
      have hd' : amin - 4 * u ≠ 0 := hd.ne'
      rw [mul_div_assoc', div_add' _ _ _ hd']
    rw [e, div_le_div_iff_of_pos_right hd]
    -- with g = 1 + γ:  (1−amin) g 4u + γ (amin − 4u) ≤ 4u  ⟸  γ amin ≤ 4u·amin·g
    set γ : K := (1 + u) ^ 3 - 1 with hγdef
    have hg3 : (1 + u) ^ 3 = 1 + γ := by rw [hγdef]; ring
    rw [hg3]
    have ha0 : 0 ≤ amin := by linarith
    have k1 : γ * amin ≤ 4 * u * amin := mul_le_mul_of_nonneg_right hg ha0
    have k2 : 0 ≤ 4 * u * amin * γ := by positivity
    have : (1 - amin) * (1 + γ) * (4 * u) + γ * (amin - 4 * u) ≤ 4 * u := by nlinarith
    calc (1 - amin) * (1 + γ) * (4 * u * M) + γ * M * (amin - 4 * u)
        = ((1 - amin) * (1 + γ) * (4 * u) + γ * (amin - 4 * u)) * M := by ring
      _ ≤ 4 * u * M := mul_le_mul_of_nonneg_right this hM

/-! ### warm-up: weights `1/k`, the plain mean -/

/-- the steps of the warm-up phase: weights `1/(j+1), 1/(j+2), …` -/
def warmPairs (j : ℕ) : List K → List (K × K)
  | [] => []
  | x :: xs => (1 / ((j + 1 : ℕ) : K), x) :: warmPairs (j + 1) xs

theorem warm_identity (k v x S δ1 δ2 δ3 δ4 : K) (hk : k ≠ 0) :
    k * ((v * ((1 - 1 / k) * (1 + δ1)) * (1 + δ2) + x * (1 / k) * (1 + δ3)) * (1 + δ4)) - (S + x)
      = ((k - 1) * v - S) * ((1 + δ1) * (1 + δ2) * (1 + δ4))
        + S * ((1 + δ1) * (1 + δ2) * (1 + δ4) - 1) + x * ((1 + δ3) * (1 + δ4) - 1) := by
  field_simp
  ring

/-- one warm-up step, division-free: the defect `D = |j v − S|` obeys
    `D' ≤ (1+u)³ D + ((1+u)³ − 1)(j+1) M` -/
theorem FlRStep.warm {u M v x v' S : K} {j : ℕ} (h : FlRStep u (1 / ((j + 1 : ℕ) : K)) v x v')
    (hS : |S| ≤ (j : K) * M) (hx : |x| ≤ M) :
    |((j + 1 : ℕ) : K) * v' - (S + x)|
      ≤ (1 + u) ^ 3 * |(j : K) * v - S| + ((1 + u) ^ 3 - 1) * (((j + 1 : ℕ) : K) * M) := by
  obtain ⟨c, p, q, ⟨δ1, h1, rfl⟩, ⟨δ2, h2, rfl⟩, ⟨δ3, h3, rfl⟩, ⟨δ4, h4, rfl⟩⟩ := h
  have hu : 0 ≤ u := (abs_nonneg _).trans h1
  have hk : ((j + 1 : ℕ) : K) ≠ 0 := Nat.cast_ne_zero.mpr (Nat.succ_ne_zero j)
  rw [warm_identity _ _ _ S _ _ _ _ hk]
  have hj : ((j + 1 : ℕ) : K) - 1 = (j : K) := by push_cast; ring
  rw [hj]
  have t1 : |((j : K) * v - S) * ((1 + δ1) * (1 + δ2) * (1 + δ4))|
      ≤ |(j : K) * v - S| * (1 + u) ^ 3 := by
    rw [abs_mul]; exact mul_le_mul_of_nonneg_left (abs_prod3_le h1 h2 h4) (abs_nonneg _)
  have t2 : |S * ((1 + δ1) * (1 + δ2) * (1 + δ4) - 1)| ≤ (j : K) * M * ((1 + u) ^ 3 - 1) := by
    rw [abs_mul]
    exact mul_le_mul hS (abs_prod3_sub_one h1 h2 h4) (abs_nonneg _) ((abs_nonneg _).trans hS)
  have t3 : |x * ((1 + δ3) * (1 + δ4) - 1)| ≤ M * ((1 + u) ^ 3 - 1) := by
    rw [abs_mul]
    exact mul_le_mul hx ((abs_prod2_sub_one h3 h4).trans (gam2_le_gam3 hu)) (abs_nonneg _)
      ((abs_nonneg _).trans hx)
  calc _ ≤ |((j : K) * v - S) * ((1 + δ1) * (1 + δ2) * (1 + δ4))|
          + |S * ((1 + δ1) * (1 + δ2) * (1 + δ4) - 1)| + |x * ((1 + δ3) * (1 + δ4) - 1)| :=
        (abs_add_le _ _).trans (add_le_add (abs_add_le _ _) le_rfl)
    _ ≤ |(j : K) * v - S| * (1 + u) ^ 3 + (j : K) * M * ((1 + u) ^ 3 - 1)
          + M * ((1 + u) ^ 3 - 1) := add_le_add (add_le_add t1 t2) t3
    _ = _ := by push_cast; ring

/-- the scalar inequality that closes the warm-up induction (`(J+1) u ≤ 1/8`) -/
theorem warm_poly {J u : K} (hJ : 0 ≤ J) (hu : 0 ≤ u) (h : (J + 1) * u ≤ 1 / 8) :
    (1 + u) ^ 3 * (3 * J * (J + 1) * u) + ((1 + u) ^ 3 - 1) * (J + 1)
      ≤ 3 * (J + 1) * (J + 2) * u := by
  have hJu : 0 ≤ J * u := mul_nonneg hJ hu
  have hu8 : u ≤ 1 / 8 := by nlinarith
  have hJu8 : J * u ≤ 1 / 8 := by nlinarith
  have hg := gam3_le_eighth hu hu8
  have hγ := gam3_nonneg hu
  set γ : K := (1 + u) ^ 3 - 1 with hγdef
  have hg3 : (1 + u) ^ 3 = 1 + γ := by rw [hγdef]; ring
  rw [hg3]
  -- γ (3 J u + 1) ≤ 6 u
  have k1 : γ * (3 * (J * u) + 1) ≤ 217 / 64 * u * (3 * (1 / 8) + 1) :=
    mul_le_mul hg (by linarith) (by positivity) (by positivity)
  have k2 : γ * (3 * (J * u) + 1) ≤ 6 * u := by linarith
  have k3 := mul_le_mul_of_nonneg_left k2 (by linarith : (0 : K) ≤ J + 1)
  nlinarith [k3]

/-- the invariant of the warm-up phase: `|j v − S| ≤ 3 j (j+1) u M` -/
theorem FlRRun.warm_inv {u M : K} (hu : 0 ≤ u) (hM : 0 ≤ M) (xs : List K) :
    ∀ (j : ℕ) (v v' S : K), FlRRun u v (warmPairs j xs) v' → (∀ x ∈ xs, |x| ≤ M) →
      |S| ≤ (j : K) * M → |(j : K) * v - S| ≤ 3 * (j : K) * ((j : K) + 1) * u * M →
      ((j + xs.length : ℕ) : K) * u ≤ 1 / 8 →
      |((j + xs.length : ℕ) : K) * v' - (S + xs.sum)|
        ≤ 3 * ((j + xs.length : ℕ) : K) * (((j + xs.length : ℕ) : K) + 1) * u * M := by
  induction xs with
  | nil =>
    intro j v v' S h _ _ hD _
    rw [warmPairs, flRRun_nil_iff] at h
    subst h
    simpa using hD
  | cons x xs ih =>
    intro j v v' S h hx hS hD hsmall
    obtain ⟨v1, hs, hr⟩ := h
    have hxx : |x| ≤ M := hx x (by simp)
    have hxs : ∀ y ∈ xs, |y| ≤ M := fun y hy => hx y (by simp [hy])
    have hJ : (0 : K) ≤ (j : K) := Nat.cast_nonneg j
    have hlen : j + (x :: xs).length = (j + 1) + xs.length := by simp; omega
    rw [hlen] at hsmall ⊢
    have hsmall1 : ((j : K) + 1) * u ≤ 1 / 8 := by
      refine le_trans ?_ hsmall
      push_cast
      have : 0 ≤ (xs.length : K) * u := mul_nonneg (Nat.cast_nonneg _) hu
      nlinarith
    have hw := hs.warm hS hxx
    have hS1 : |S + x| ≤ ((j + 1 : ℕ) : K) * M := by
      push_cast
      calc |S + x| ≤ |S| + |x| := abs_add_le _ _
        _ ≤ (j : K) * M + M := add_le_add hS hxx
        _ = ((j : K) + 1) * M := by ring
    have hD1 : |((j + 1 : ℕ) : K) * v1 - (S + x)|
        ≤ 3 * ((j + 1 : ℕ) : K) * (((j + 1 : ℕ) : K) + 1) * u * M := by
      refine hw.trans ?_
      have hp := warm_poly hJ hu hsmall1
      have hg0 : 0 ≤ (1 + u) ^ 3 := by positivity
      have e1 := mul_le_mul_of_nonneg_left hD hg0
      push_cast
      have e2 := mul_le_mul_of_nonneg_right hp hM
      nlinarith [e1, e2]
    have := ih (j + 1) v1 v' (S + x) hr hxs hS1 hD1 hsmall
    rw [List.sum_cons, ← add_assoc]
    exact this

/-! ### the weights of the model -/

/-- the steps `RMean.push` performs on `xs` when `j` observations have been seen:
    weights `max(alpha, 1/(j+1)), max(alpha, 1/(j+2)), …` (`effA`) -/
def modelPairs (alpha : K) (j : ℕ) : List K → List (K × K)
  | [] => []
  | x :: xs => (effA alpha j, x) :: modelPairs alpha (j + 1) xs

theorem modelPairs_length (alpha : K) (j : ℕ) (xs : List K) :
    (modelPairs alpha j xs).length = xs.length := by
  induction xs generalizing j with
  | nil => rfl
  | cons x xs ih => simp [modelPairs, ih]

/-- the exact recursion over the model's weights IS the model -/
theorem foldl_push_acc (s : RMean K) (xs : List K) :
    (xs.foldl RMean.push s).acc = wrun s.acc (modelPairs s.alpha s.n xs) := by
  induction xs generalizing s with
  | nil => rfl
  | cons x xs ih =>
    rw [List.foldl_cons, ih (s.push x)]
    simp only [modelPairs, wrun, RMean.push_acc, RMean.push_n, RMean.push_alpha, wstep]

theorem RMean.run_acc_eq_wrun (l : K) (xs : List K) :
    (RMean.run l xs).acc = wrun 0 (modelPairs (1 / l) 0 xs) := by
  rw [RMean.run, foldl_push_acc]
  simp [RMean.init]

theorem le_effA (alpha : K) (n : ℕ) : alpha ≤ effA alpha n := by
  rw [effA, pymax_eq_max]; exact le_max_left _ _

theorem modelPairs_ok {alpha M : K} (h1 : alpha ≤ 1) (j : ℕ) {xs : List K} (hx : ∀ x ∈ xs, |x| ≤ M) :
    StepsOK alpha M (modelPairs alpha j xs) := by
  induction xs generalizing j with
  | nil => intro p hp; simp [modelPairs] at hp
  | cons x xs ih =>
    intro p hp
    simp only [modelPairs, List.mem_cons] at hp
    rcases hp with rfl | hp
    · exact ⟨le_effA _ _, effA_le_one h1 _, hx x (by simp)⟩
    · exact ih (j + 1) (fun y hy => hx y (by simp [hy])) p hp

/-- during warm-up (natural lifetime `L`, at most `L` observations) the weights are `1/k` -/
theorem modelPairs_warm {L : ℕ} (hL : 1 ≤ L) (j : ℕ) (xs : List K) (h : j + xs.length ≤ L) :
    modelPairs (1 / (L : K)) j xs = warmPairs j xs := by
  induction xs generalizing j with
  | nil => rfl
  | cons x xs ih =>
    simp only [List.length_cons] at h
    simp only [modelPairs, warmPairs]
    rw [effA_nat hL, coef, if_pos (by omega), ih (j + 1) (by omega)]

end Gpv
