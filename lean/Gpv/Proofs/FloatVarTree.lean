/-
  Rounding-error analysis of whole MERGE TREES of `Variance` accumulators.

  A `Variance` accumulator carries (mean, population variance, count).  In a float
  evaluation of a merge tree `t : MTree K` (leaves = chunks of observations)
    * every leaf is a float Welford run over its chunk   (`FlVarRun`, Gpv/Proofs/FloatVar.lean),
    * every inner node merges its two children as `Variance._accumulate_other` does:
        dmean = self.mean.value - other.mean.value ; newn = self.n + other.n
        newvar = self.var.sum + other.var.sum + dmean ** 2 * self.n * other.n / newn
        self.mean += other.mean                    -- `FlMerge`   (Gpv/Proofs/FloatMerge.lean)
        self.var = Mean(value=newvar / newn, n=newn)  -- `FlVarMerge` (Gpv/Proofs/FloatVarMerge.lean)
      both applied to the children's FLOAT means and variances and their exact counts
      (`dmean` is formed from the old means, before `self.mean` is updated).
  `FlVarTree u t a va` : `(a, va)` is a possible float (mean, population variance) of `t`.

  The invariant (`FlVarTree.inv`), for data `|x| ≤ M`, `N` observations under the node,
  `S = Σ (x − x̄)²` over all of them, depth `d`, longest leaf `L` (`64·L·u ≤ 1`):
      |N·va − S| ≤ ((1+u)^(4(d+1)) − 1)·S + N·T(L,d)·M² ,
      |a − x̄|   ≤ M·ε(L,d) ,    ε(L,d) = (1+6Lu)(1+u)^(3d) − 1          (`FlVarTree.mean_error`)
  with  T(L,0) = 58·L·u ,  T(L,d+1) = (1+u)⁴·T(L,d) + (1+u)⁸·(2ε(L,d) + ε(L,d)²).
  No smallness hypothesis on the depth is needed for the invariant; the linearisation
  (`varTreeT_lin`, `varTreeA_lin`: `64·d·u ≤ 1`) gives
      (1+u)^(4(d+1)) − 1 ≤ (9/2)(d+1)·u ,      T(L,d) ≤ (62·L + 16·d·(L+d))·u .
  The node step is `FlVarMerge.compose` (division-free, perturbed operands) + the Chan
  identity `sumSqDev_append`; the weight `n·m/N ≤ N/4` of the `dmean` term is what makes the
  absolute part LINEAR in `N` (so that, divided by `N`, it does not depend on the number of
  chunks at all).
-/
import Gpv.Props.C06FloatVar
set_option linter.unusedSectionVars false

namespace Gpv
variable {K : Type} [Field K] [LinearOrder K] [IsStrictOrderedRing K]

/-! ### the relation -/

/-- `(a, va)` is a possible floating-point (mean, population variance) of the merge tree `t`:
    leaves are float Welford runs, every node merges the means with `FlMerge` and the
    variances with `FlVarMerge`, both on the children's float values and exact counts -/
inductive FlVarTree (u : K) : C06.MTree K → K → K → Prop
  | leaf {xs : List K} {a va : K} : FlVarRun u xs a va → FlVarTree u (.leaf xs) a va
  | node {l r : C06.MTree K} {a va b vb c vc : K} : FlVarTree u l a va → FlVarTree u r b vb →
      FlMerge u a l.flatten.length b r.flatten.length c →
      FlVarMerge u a va l.flatten.length b vb r.flatten.length vc → FlVarTree u (.node l r) c vc

theorem FlVarTree.mono {u u' : K} (h : u ≤ u') {t : C06.MTree K} {a va : K}
    (ht : FlVarTree u t a va) : FlVarTree u' t a va := by
  induction ht with
  | leaf hr => exact FlVarTree.leaf (hr.mono h)
  | node _ _ hm hv ihl ihr => exact FlVarTree.node ihl ihr (hm.mono h) (hv.mono h)

/-- the mean component of a variance tree is a mean tree (`FlTree`, FloatMerge.lean) -/
theorem FlVarTree.mean_tree {u : K} {t : C06.MTree K} {a va : K} (ht : FlVarTree u t a va) :
    FlTree u t a := by
  induction ht with
  | leaf hr => exact FlTree.leaf hr.mean_run
  | node _ _ hm _ ihl ihr => exact FlTree.node ihl ihr hm

/-- the source's mean merge applied to the means of two exact Welford runs -/
theorem varMean_mergeVal_run (xs ys : List K) :
    mergeVal (Variance.run xs).mean.val xs.length (Variance.run ys).mean.val ys.length
      = (Variance.run (xs ++ ys)).mean.val := by
  simp only [Variance.run_mean]
  exact mergeVal_run xs ys

/-- the exact Welford state of all observations is a possible float evaluation of every tree -/
theorem FlVarTree.of_exact {u : K} (hu : 0 ≤ u) (t : C06.MTree K) :
    FlVarTree u t (Variance.run t.flatten).mean.val (Variance.run t.flatten).var.val := by
  induction t with
  | leaf xs => exact FlVarTree.leaf (FlVarRun.of_exact hu xs)
  | node l r ihl ihr =>
    refine FlVarTree.node ihl ihr ?_ ?_
    · simp only [C06.MTree.flatten]
      rw [← varMean_mergeVal_run]
      exact FlMerge.of_exact hu _ _ _ _
    · simp only [C06.MTree.flatten]
      rw [← varMergeVal_run]
      exact FlVarMerge.of_exact hu _ _ _ _ _ _

theorem flVarTree_zero_iff (t : C06.MTree K) (a va : K) :
    FlVarTree 0 t a va
      ↔ a = (Variance.run t.flatten).mean.val ∧ va = (Variance.run t.flatten).var.val := by
  constructor
  · intro h
    induction h with
    | leaf hr => exact (flVarRun_zero_iff _ _ _).mp hr
    | @node l r a va b vb c vc _ _ hm hv ihl ihr =>
      rw [flMerge_zero_iff] at hm
      rw [flVarMerge_zero_iff] at hv
      obtain ⟨l1, l2⟩ := ihl
      obtain ⟨r1, r2⟩ := ihr
      simp only [C06.MTree.flatten]
      constructor
      · rw [hm, l1, r1, varMean_mergeVal_run]
      · rw [hv, l1, l2, r1, r2, varMergeVal_run]
  · rintro ⟨rfl, rfl⟩; exact FlVarTree.of_exact le_rfl t

/-! ### empty trees: everything is 0 -/

theorem flMerge_zero_counts {u a b r : K} (h : FlMerge u a 0 b 0 r) : r = 0 := by
  obtain ⟨p, q, s, t, ⟨δ1, _, rfl⟩, ⟨δ2, _, rfl⟩, ⟨δ3, _, rfl⟩, ⟨δ4, _, rfl⟩, ⟨δ5, _, rfl⟩⟩ := h
  simp

theorem flVarMerge_zero_counts {u a va b vb r : K} (h : FlVarMerge u a va 0 b vb 0 r) : r = 0 := by
  obtain ⟨d, sa, sb, q, q1, q2, q3, s1, s2, ⟨δ1, _, rfl⟩, ⟨δ2, _, rfl⟩, ⟨δ3, _, rfl⟩,
    ⟨δ4, _, rfl⟩, ⟨δ5, _, rfl⟩, ⟨δ6, _, rfl⟩, ⟨δ7, _, rfl⟩, ⟨δ8, _, rfl⟩, ⟨δ9, _, rfl⟩,
    ⟨δ10, _, rfl⟩⟩ := h
  simp

theorem FlVarTree.empty {u : K} {t : C06.MTree K} {a va : K} (h : FlVarTree u t a va)
    (he : t.flatten = []) : a = 0 ∧ va = 0 := by
  induction h with
  | @leaf xs a va hr =>
    simp only [C06.MTree.flatten] at he
    subst he
    exact (C05FloatVar.flVarRun_nil_iff u a va).mp hr
  | @node l r a va b vb c vc _ _ hm hv _ _ =>
    simp only [C06.MTree.flatten, List.append_eq_nil_iff] at he
    obtain ⟨h1, h2⟩ := he
    rw [h1, h2] at hm hv
    exact ⟨flMerge_zero_counts hm, flVarMerge_zero_counts hv⟩

theorem Variance.run_nil_mean_val : (Variance.run ([] : List K)).mean.val = 0 := by
  simp [Variance.run, Variance.init, Mean.init]

/-! ### the coefficients -/

/-- relative error of the float mean of a tree: `ε(L,d) = (1+6Lu)(1+u)^(3d) − 1` -/
def varTreeE (u : K) (L d : ℕ) : K := (1 + 6 * (L : K) * u) * (1 + u) ^ (3 * d) - 1

/-- the absolute part (per observation, in units of `M²`) of the variance bound:
    `T(L,0) = 58·L·u`, `T(L,d+1) = (1+u)⁴·T(L,d) + (1+u)⁸·(2ε(L,d) + ε(L,d)²)` -/
def varTreeT (u : K) (L : ℕ) : ℕ → K
  | 0 => 58 * (L : K) * u
  | d + 1 => (1 + u) ^ 4 * varTreeT u L d
      + (1 + u) ^ 8 * (2 * varTreeE u L d + varTreeE u L d ^ 2)

theorem varTreeT_zero (u : K) (L : ℕ) : varTreeT u L 0 = 58 * (L : K) * u := rfl

theorem varTreeT_succ (u : K) (L d : ℕ) :
    varTreeT u L (d + 1) = (1 + u) ^ 4 * varTreeT u L d
      + (1 + u) ^ 8 * (2 * varTreeE u L d + varTreeE u L d ^ 2) := rfl

theorem treeB_sub_eq (u M : K) (L d : ℕ) : treeB u M L d - M = M * varTreeE u L d := by
  unfold treeB varTreeE; ring

theorem varTreeE_eq_treeB (u : K) (L d : ℕ) : varTreeE u L d = treeB u 1 L d - 1 := by
  unfold treeB varTreeE; ring

theorem varTreeE_nonneg {u : K} (hu : 0 ≤ u) (L d : ℕ) : 0 ≤ varTreeE u L d := by
  rw [varTreeE_eq_treeB]
  have := treeB_ge hu (zero_le_one (α := K)) L d
  linarith

theorem varTreeE_mono {u : K} (hu : 0 ≤ u) {L L' d d' : ℕ} (hL : L ≤ L') (hd : d ≤ d') :
    varTreeE u L d ≤ varTreeE u L' d' := by
  rw [varTreeE_eq_treeB, varTreeE_eq_treeB]
  have := treeB_mono hu (zero_le_one (α := K)) hL hd
  linarith

/-- `g = 2ε + ε²` is monotone in `ε ≥ 0` -/
theorem two_add_sq_mono {x y : K} (hx : 0 ≤ x) (h : x ≤ y) : 2 * x + x ^ 2 ≤ 2 * y + y ^ 2 := by
  have : x ^ 2 ≤ y ^ 2 := pow_le_pow_left₀ hx h 2
  linarith

theorem varTreeT_nonneg {u : K} (hu : 0 ≤ u) (L d : ℕ) : 0 ≤ varTreeT u L d := by
  induction d with
  | zero => rw [varTreeT_zero]; positivity
  | succ d ih =>
    rw [varTreeT_succ]
    have hε := varTreeE_nonneg hu L d
    positivity

theorem varTreeT_le_succ {u : K} (hu : 0 ≤ u) (L d : ℕ) : varTreeT u L d ≤ varTreeT u L (d + 1) := by
  rw [varTreeT_succ]
  have hε := varTreeE_nonneg hu L d
  have hT := varTreeT_nonneg hu L d
  have h4 : (1 : K) ≤ (1 + u) ^ 4 := one_le_pow₀ (by linarith)
  have h1 : varTreeT u L d ≤ (1 + u) ^ 4 * varTreeT u L d := by
    calc varTreeT u L d = 1 * varTreeT u L d := by ring
      _ ≤ (1 + u) ^ 4 * varTreeT u L d := mul_le_mul_of_nonneg_right h4 hT
  have h2 : 0 ≤ (1 + u) ^ 8 * (2 * varTreeE u L d + varTreeE u L d ^ 2) := by positivity
  linarith

theorem varTreeT_mono_d {u : K} (hu : 0 ≤ u) (L : ℕ) {d d' : ℕ} (hd : d ≤ d') :
    varTreeT u L d ≤ varTreeT u L d' := by
  induction hd with
  | refl => exact le_rfl
  | step _ ih => exact ih.trans (varTreeT_le_succ hu L _)

theorem varTreeT_mono_L {u : K} (hu : 0 ≤ u) {L L' : ℕ} (hL : L ≤ L') (d : ℕ) :
    varTreeT u L d ≤ varTreeT u L' d := by
  induction d with
  | zero =>
    rw [varTreeT_zero, varTreeT_zero]
    have hLK : (L : K) ≤ (L' : K) := Nat.cast_le.mpr hL
    have := mul_le_mul_of_nonneg_right hLK hu
    linarith
  | succ d ih =>
    rw [varTreeT_succ, varTreeT_succ]
    have hg := two_add_sq_mono (varTreeE_nonneg hu L d) (varTreeE_mono hu hL (le_refl d))
    have h4 : (0 : K) ≤ (1 + u) ^ 4 := by positivity
    have h8 : (0 : K) ≤ (1 + u) ^ 8 := by positivity
    exact add_le_add (mul_le_mul_of_nonneg_left ih h4) (mul_le_mul_of_nonneg_left hg h8)

theorem varTreeT_mono {u : K} (hu : 0 ≤ u) {L L' d d' : ℕ} (hL : L ≤ L') (hd : d ≤ d') :
    varTreeT u L d ≤ varTreeT u L' d' :=
  (varTreeT_mono_L hu hL d).trans (varTreeT_mono_d hu L' hd)

/-! ### the error of the float mean of a variance tree -/

/-- `|a − x̄| ≤ M·((1+6Lu)(1+u)^(3d) − 1)`, also for empty trees (there `a = x̄ = 0`) -/
theorem FlVarTree.mean_error {u M : K} (hu : 0 ≤ u) (hM : 0 ≤ M) {t : C06.MTree K} {a va : K}
    (h : FlVarTree u t a va) (hx : ∀ x ∈ t.flatten, |x| ≤ M)
    (hsmall : 8 * (t.maxLeaf : K) * u ≤ 1) :
    |a - (Variance.run t.flatten).mean.val| ≤ M * varTreeE u t.maxLeaf t.depth := by
  by_cases he : t.flatten = []
  · rw [(h.empty he).1, he, Variance.run_nil_mean_val, sub_zero, abs_zero]
    exact mul_nonneg hM (varTreeE_nonneg hu _ _)
  · have hn : (0 : K) < (t.flatten.length : K) := Nat.cast_pos.mpr (List.length_pos_iff.mpr he)
    have hd := (FlTree.inv hu hM h.mean_tree hx hsmall).1
    rw [treeB_sub_eq] at hd
    rw [Variance.run_mean]
    have hi := (Mean.run_inv t.flatten).2
    rw [← hi] at hd
    have e : (t.flatten.length : K) * a - (Mean.run t.flatten).val * (t.flatten.length : K)
        = (t.flatten.length : K) * (a - (Mean.run t.flatten).val) := by ring
    rw [e, abs_mul, abs_of_pos hn] at hd
    exact le_of_mul_le_mul_left hd hn

/-! ### the node step, as a scalar inequality -/

/-- `n·m/(n+m) ≤ (n+m)/4` -/
theorem harmonic_weight_le {n m : K} (hN : 0 < n + m) : n * m / (n + m) ≤ (n + m) / 4 := by
  rw [div_le_iff₀ hN]
  nlinarith [sq_nonneg (n - m)]

/-- the scalar inequality that closes the node step of `FlVarTree.inv`: `A = 1 + α` is the
    children's relative factor, `τ` their absolute coefficient, `ε` the relative error of
    their means; `P4 = (1+u)⁴`, `P8 = (1+u)⁸ ≤ P4·A` -/
theorem var_tree_node_poly {M n m Sa Sb D w ε A τ P4 P8 : K} (hM : 0 ≤ M)
    (hn : 0 ≤ n) (hm : 0 ≤ m) (hN : 0 < n + m) (hε : 0 ≤ ε)
    (hw : w = n * m / (n + m)) (hD : |D| ≤ 2 * M) (hP8 : 0 ≤ P8) (hP : P8 ≤ P4 * A) :
    (P4 - 1) * (Sa + Sb) + (P8 - 1) * (D ^ 2 * w)
        + P4 * (((A - 1) * Sa + n * τ * M ^ 2) + ((A - 1) * Sb + m * τ * M ^ 2))
        + P8 * ((2 * |D| * (2 * (M * ε)) + (2 * (M * ε)) ^ 2) * w)
      ≤ (P4 * A - 1) * (Sa + Sb + D ^ 2 * w)
        + (n + m) * (P4 * τ + P8 * (2 * ε + ε ^ 2)) * M ^ 2 := by
  have hw0 : 0 ≤ w := by rw [hw]; positivity
  have hw4 : w ≤ (n + m) / 4 := by rw [hw]; exact harmonic_weight_le hN
  have hY : 0 ≤ D ^ 2 * w := mul_nonneg (sq_nonneg D) hw0
  have hMε : 0 ≤ M * ε := mul_nonneg hM hε
  -- the `dmean` term
  have z1 : 2 * |D| * (2 * (M * ε)) ≤ 2 * (2 * M) * (2 * (M * ε)) :=
    mul_le_mul_of_nonneg_right (mul_le_mul_of_nonneg_left hD (by norm_num)) (by positivity)
  have z2 : (2 * |D| * (2 * (M * ε)) + (2 * (M * ε)) ^ 2) * w
      ≤ (2 * (2 * M) * (2 * (M * ε)) + (2 * (M * ε)) ^ 2) * ((n + m) / 4) :=
    mul_le_mul (by linarith) hw4 hw0 (by positivity)
  have z3 : (2 * (2 * M) * (2 * (M * ε)) + (2 * (M * ε)) ^ 2) * ((n + m) / 4)
      = (n + m) * (2 * ε + ε ^ 2) * M ^ 2 := by ring
  have z4 : P8 * ((2 * |D| * (2 * (M * ε)) + (2 * (M * ε)) ^ 2) * w)
      ≤ P8 * ((n + m) * (2 * ε + ε ^ 2) * M ^ 2) := by
    rw [← z3]; exact mul_le_mul_of_nonneg_left z2 hP8
  -- the relative part of the `dmean` term
  have z5 : (P8 - 1) * (D ^ 2 * w) ≤ (P4 * A - 1) * (D ^ 2 * w) :=
    mul_le_mul_of_nonneg_right (by linarith) hY
  have e : (P4 * A - 1) * (Sa + Sb + D ^ 2 * w)
        + (n + m) * (P4 * τ + P8 * (2 * ε + ε ^ 2)) * M ^ 2
      = (P4 - 1) * (Sa + Sb) + (P4 * A - 1) * (D ^ 2 * w)
        + P4 * (((A - 1) * Sa + n * τ * M ^ 2) + ((A - 1) * Sb + m * τ * M ^ 2))
        + P8 * ((n + m) * (2 * ε + ε ^ 2) * M ^ 2) := by ring
  rw [e]
  linarith

/-! ### the invariant -/

/-- raise a child's bound to the coefficients of the node -/
theorem raise_child_bound {x S α α' n τ τ' M : K} (hS : 0 ≤ S) (hn : 0 ≤ n)
    (h : x ≤ α * S + n * τ * M ^ 2) (hα : α ≤ α') (hτ : τ ≤ τ') :
    x ≤ α' * S + n * τ' * M ^ 2 := by
  have h1 : α * S ≤ α' * S := mul_le_mul_of_nonneg_right hα hS
  have h2 : n * τ * M ^ 2 ≤ n * τ' * M ^ 2 :=
    mul_le_mul_of_nonneg_right (mul_le_mul_of_nonneg_left hτ hn) (sq_nonneg M)
  linarith

/-- **the invariant of every float evaluation of a variance merge tree**, division-free:
    `|N·va − S| ≤ ((1+u)^(4(d+1)) − 1)·S + N·T(L,d)·M²` -/
theorem FlVarTree.inv {u M : K} (hu : 0 ≤ u) (hM : 0 ≤ M) {t : C06.MTree K} {a va : K}
    (h : FlVarTree u t a va) (hx : ∀ x ∈ t.flatten, |x| ≤ M)
    (hsmall : 64 * (t.maxLeaf : K) * u ≤ 1) :
    |(t.flatten.length : K) * va - sumSqDev t.flatten|
      ≤ ((1 + u) ^ (4 * (t.depth + 1)) - 1) * sumSqDev t.flatten
        + (t.flatten.length : K) * varTreeT u t.maxLeaf t.depth * M ^ 2 := by
  induction h with
  | @leaf xs a va hr =>
    simp only [C06.MTree.flatten, C06.MTree.maxLeaf, C06.MTree.depth] at hx hsmall ⊢
    have hd := C06FloatVar.var_float_defect' hu hx hsmall hr
    have hS := C05FloatVar.sumSqDev_nonneg xs
    refine hd.trans ?_
    rw [varTreeT_zero, show 4 * (0 + 1) = 4 from rfl, gam4_eq]
    have h1 : 4 * u * sumSqDev xs ≤ u * (4 + 6 * u + 4 * u ^ 2 + u ^ 3) * sumSqDev xs := by
      apply mul_le_mul_of_nonneg_right _ hS
      have : 0 ≤ u * (6 * u + 4 * u ^ 2 + u ^ 3) := by positivity
      linarith
    refine le_trans ?_ (add_le_add h1 le_rfl)
    exact le_of_eq (by ring)
  | @node l r a va b vb c vc hl hr hm hv ihl ihr =>
    simp only [C06.MTree.flatten, C06.MTree.maxLeaf, C06.MTree.depth] at hx hsmall ⊢
    have hLl : ((l.maxLeaf : ℕ) : K) ≤ ((max l.maxLeaf r.maxLeaf : ℕ) : K) :=
      Nat.cast_le.mpr (le_max_left _ _)
    have hLr : ((r.maxLeaf : ℕ) : K) ≤ ((max l.maxLeaf r.maxLeaf : ℕ) : K) :=
      Nat.cast_le.mpr (le_max_right _ _)
    have hsl : 64 * (l.maxLeaf : K) * u ≤ 1 := by
      have := mul_le_mul_of_nonneg_right hLl hu
      linarith
    have hsr : 64 * (r.maxLeaf : K) * u ≤ 1 := by
      have := mul_le_mul_of_nonneg_right hLr hu
      linarith
    have hxl : ∀ x ∈ l.flatten, |x| ≤ M := fun x hx' => hx x (List.mem_append.mpr (Or.inl hx'))
    have hxr : ∀ x ∈ r.flatten, |x| ≤ M := fun x hx' => hx x (List.mem_append.mpr (Or.inr hx'))
    by_cases hN0 : l.flatten.length + r.flatten.length = 0
    · have h1 : l.flatten = [] := List.length_eq_zero_iff.mp (by omega)
      have h2 : r.flatten = [] := List.length_eq_zero_iff.mp (by omega)
      rw [h1, h2]
      simp [sumSqDev]
    · have il := ihl hxl hsl
      have ir := ihr hxr hsr
      have hSa := C05FloatVar.sumSqDev_nonneg l.flatten
      have hSb := C05FloatVar.sumSqDev_nonneg r.flatten
      have hn0 : (0 : K) ≤ (l.flatten.length : K) := Nat.cast_nonneg _
      have hm0 : (0 : K) ≤ (r.flatten.length : K) := Nat.cast_nonneg _
      have hml := hl.mean_error hu hM hxl (by linarith)
      have hmr := hr.mean_error hu hM hxr (by linarith)
      -- common coefficients
      have hαl := gam_mono hu (show 4 * (l.depth + 1) ≤ 4 * (max l.depth r.depth + 1) by
        have := le_max_left l.depth r.depth; omega)
      have hαr := gam_mono hu (show 4 * (r.depth + 1) ≤ 4 * (max l.depth r.depth + 1) by
        have := le_max_right l.depth r.depth; omega)
      have hτl := varTreeT_mono hu (le_max_left l.maxLeaf r.maxLeaf) (le_max_left l.depth r.depth)
      have hτr := varTreeT_mono hu (le_max_right l.maxLeaf r.maxLeaf) (le_max_right l.depth r.depth)
      have hεl := varTreeE_mono hu (le_max_left l.maxLeaf r.maxLeaf) (le_max_left l.depth r.depth)
      have hεr := varTreeE_mono hu (le_max_right l.maxLeaf r.maxLeaf) (le_max_right l.depth r.depth)
      have il' := raise_child_bound hSa hn0 il hαl hτl
      have ir' := raise_child_bound hSb hm0 ir hαr hτr
      set L : ℕ := max l.maxLeaf r.maxLeaf with hLdef
      set d : ℕ := max l.depth r.depth with hddef
      set μa := (Variance.run l.flatten).mean.val with hμadef
      set μb := (Variance.run r.flatten).mean.val with hμbdef
      have hεn := varTreeE_nonneg hu L d
      have hml' : |a - μa| ≤ M * varTreeE u L d := hml.trans (mul_le_mul_of_nonneg_left hεl hM)
      have hmr' : |b - μb| ≤ M * varTreeE u L d := hmr.trans (mul_le_mul_of_nonneg_left hεr hM)
      have hEd : |(a - b) - (μa - μb)| ≤ 2 * (M * varTreeE u L d) := by
        have e : (a - b) - (μa - μb) = (a - μa) - (b - μb) := by ring
        rw [e]
        refine (abs_sub _ _).trans ((add_le_add hml' hmr').trans (le_of_eq ?_))
        ring
      have hc := hv.compose il' ir' hEd
      rw [abs_of_nonneg hSa, abs_of_nonneg hSb] at hc
      have happ := C06FloatVar.sumSqDev_append l.flatten r.flatten hN0
      rw [List.length_append, happ]
      refine hc.trans ?_
      have hμa := exact_mean_abs_le hM l.flatten hxl
      have hμb := exact_mean_abs_le hM r.flatten hxr
      have hD : |μa - μb| ≤ 2 * M := (abs_sub _ _).trans (by linarith)
      have hcast : ((l.flatten.length + r.flatten.length : ℕ) : K)
          = (l.flatten.length : K) + (r.flatten.length : K) := by push_cast; rfl
      have hN : (0 : K) < (l.flatten.length : K) + (r.flatten.length : K) := by
        rw [← hcast]; exact Nat.cast_pos.mpr (by omega)
      have hP8 : (0 : K) ≤ (1 + u) ^ 8 := by positivity
      have hA : (1 + u) ^ 4 ≤ (1 + u) ^ (4 * (d + 1)) :=
        pow_le_pow_right₀ (by linarith) (by omega)
      have hP : (1 + u) ^ 8 ≤ (1 + u) ^ 4 * (1 + u) ^ (4 * (d + 1)) := by
        have h4 : (0 : K) ≤ (1 + u) ^ 4 := by positivity
        calc (1 + u) ^ 8 = (1 + u) ^ 4 * (1 + u) ^ 4 := by ring
          _ ≤ (1 + u) ^ 4 * (1 + u) ^ (4 * (d + 1)) := mul_le_mul_of_nonneg_left hA h4
      have hpoly := var_tree_node_poly (M := M) (n := (l.flatten.length : K))
        (m := (r.flatten.length : K)) (Sa := sumSqDev l.flatten) (Sb := sumSqDev r.flatten)
        (D := μa - μb)
        (w := (l.flatten.length : K) * (r.flatten.length : K)
          / ((l.flatten.length + r.flatten.length : ℕ) : K))
        (ε := varTreeE u L d) (A := (1 + u) ^ (4 * (d + 1))) (τ := varTreeT u L d)
        (P4 := (1 + u) ^ 4) (P8 := (1 + u) ^ 8)
        hM hn0 hm0 hN hεn (by rw [hcast]) hD hP8 hP
      rw [varTreeT_succ, hcast] at *
      refine le_trans (le_of_eq ?_) (hpoly.trans (le_of_eq ?_))
      · ring
      · ring

/-! ### closed-form and linear upper bounds for the coefficients -/

/-- `T(L,d) ≤ (1+u)^(4d)·(58·L·u + d·(1+u)⁸·(2ε(L,d) + ε(L,d)²))` -/
theorem varTreeT_le_closed {u : K} (hu : 0 ≤ u) (L d : ℕ) :
    varTreeT u L d
      ≤ (1 + u) ^ (4 * d)
        * (58 * (L : K) * u + (d : K) * (1 + u) ^ 8 * (2 * varTreeE u L d + varTreeE u L d ^ 2)) := by
  induction d with
  | zero => rw [varTreeT_zero]; simp
  | succ d ih =>
    rw [varTreeT_succ]
    have hg := two_add_sq_mono (varTreeE_nonneg hu L d) (varTreeE_mono hu (le_refl L) (Nat.le_succ d))
    have hg0 : 0 ≤ 2 * varTreeE u L d + varTreeE u L d ^ 2 := by
      have := varTreeE_nonneg hu L d; positivity
    set g := 2 * varTreeE u L d + varTreeE u L d ^ 2 with hgdef
    set g' := 2 * varTreeE u L (d + 1) + varTreeE u L (d + 1) ^ 2 with hg'def
    have h4 : (0 : K) ≤ (1 + u) ^ 4 := by positivity
    have h8 : (0 : K) ≤ (1 + u) ^ 8 := by positivity
    have hd0 : (0 : K) ≤ (d : K) := Nat.cast_nonneg d
    have hpd : (1 : K) ≤ (1 + u) ^ (4 * (d + 1)) := one_le_pow₀ (by linarith)
    have hpd0 : (0 : K) ≤ (1 + u) ^ (4 * d) := by positivity
    -- P4·T(d) ≤ P4^(d+1)·(58Lu + d·P8·g')
    have s1 : (1 + u) ^ 4 * varTreeT u L d
        ≤ (1 + u) ^ 4 * ((1 + u) ^ (4 * d) * (58 * (L : K) * u + (d : K) * (1 + u) ^ 8 * g')) := by
      refine mul_le_mul_of_nonneg_left (ih.trans ?_) h4
      refine mul_le_mul_of_nonneg_left ?_ hpd0
      have : (d : K) * (1 + u) ^ 8 * g ≤ (d : K) * (1 + u) ^ 8 * g' :=
        mul_le_mul_of_nonneg_left hg (mul_nonneg hd0 h8)
      linarith
    -- P8·g ≤ P4^(d+1)·P8·g'
    have s2 : (1 + u) ^ 8 * g ≤ (1 + u) ^ (4 * (d + 1)) * ((1 + u) ^ 8 * g') := by
      have a1 : (1 + u) ^ 8 * g ≤ (1 + u) ^ 8 * g' := mul_le_mul_of_nonneg_left hg h8
      have a2 : 0 ≤ (1 + u) ^ 8 * g' := mul_nonneg h8 (hg0.trans hg)
      calc (1 + u) ^ 8 * g ≤ 1 * ((1 + u) ^ 8 * g') := by linarith
        _ ≤ (1 + u) ^ (4 * (d + 1)) * ((1 + u) ^ 8 * g') := mul_le_mul_of_nonneg_right hpd a2
    refine (add_le_add s1 s2).trans (le_of_eq ?_)
    push_cast
    ring

/-- `(1+u)^(4(d+1)) − 1 ≤ (9/2)·(d+1)·u` for `64·u ≤ 1`, `64·d·u ≤ 1` -/
theorem varTreeA_lin {u : K} (hu : 0 ≤ u) (d : ℕ) (hu64 : 64 * u ≤ 1) (hd : 64 * (d : K) * u ≤ 1) :
    (1 + u) ^ (4 * (d + 1)) - 1 ≤ 9 / 2 * ((d : K) + 1) * u := by
  have hd0 : (0 : K) ≤ (d : K) := Nat.cast_nonneg d
  set x : K := ((4 * (d + 1) : ℕ) : K) * u with hx
  have hxe : x = 4 * ((d : K) + 1) * u := by rw [hx]; push_cast; ring
  have hx0 : 0 ≤ x := by rw [hxe]; positivity
  have hx1 : x ≤ 1 / 8 := by rw [hxe]; linarith
  have hp := one_add_pow_le hu (4 * (d + 1)) (by rw [← hx]; linarith)
  rw [← hx] at hp
  have hxx : x * x ≤ x * (1 / 8) := mul_le_mul_of_nonneg_left hx1 hx0
  calc (1 + u) ^ (4 * (d + 1)) - 1 ≤ x + x ^ 2 := by linarith
    _ ≤ 9 / 8 * x := by nlinarith
    _ = 9 / 2 * ((d : K) + 1) * u := by rw [hxe]; ring

/-- `T(L,d) ≤ (62·L + 16·d·(L+d))·u` for `64·L·u ≤ 1`, `64·d·u ≤ 1` -/
theorem varTreeT_lin {u : K} (hu : 0 ≤ u) (L d : ℕ) (hL : 64 * (L : K) * u ≤ 1)
    (hd : 64 * (d : K) * u ≤ 1) :
    varTreeT u L d ≤ (62 * (L : K) + 16 * (d : K) * ((L : K) + (d : K))) * u := by
  have hL0 : (0 : K) ≤ (L : K) := Nat.cast_nonneg L
  have hd0 : (0 : K) ≤ (d : K) := Nat.cast_nonneg d
  have hLu : 0 ≤ (L : K) * u := mul_nonneg hL0 hu
  have hdu : 0 ≤ (d : K) * u := mul_nonneg hd0 hu
  refine (varTreeT_le_closed hu L d).trans ?_
  -- ε ≤ 6(L+d)u ≤ 3/16
  have hε0 := varTreeE_nonneg hu L d
  have hε : varTreeE u L d ≤ 6 * ((L : K) + (d : K)) * u := by
    have := treeB_lin hu (zero_le_one (α := K)) L d (by linarith) (by linarith)
    rw [treeB_sub_eq] at this
    linarith
  have hε1 : varTreeE u L d ≤ 3 / 16 := by linarith
  set ε := varTreeE u L d with hεdef
  have hg : 2 * ε + ε ^ 2 ≤ 105 / 8 * (((L : K) + (d : K)) * u) := by
    have : ε * ε ≤ ε * (3 / 16) := mul_le_mul_of_nonneg_left hε1 hε0
    nlinarith
  have hg0 : 0 ≤ 2 * ε + ε ^ 2 := by positivity
  -- (1+u)^(4d) ≤ 273/256
  have hP : (1 + u) ^ (4 * d) ≤ 273 / 256 := by
    set x : K := ((4 * d : ℕ) : K) * u with hx
    have hxe : x = 4 * (d : K) * u := by rw [hx]; push_cast; ring
    have hx0 : 0 ≤ x := by rw [hxe]; positivity
    have hx1 : x ≤ 1 / 16 := by rw [hxe]; linarith
    have hp := one_add_pow_le hu (4 * d) (by rw [← hx]; linarith)
    rw [← hx] at hp
    have hxx : x * x ≤ x * (1 / 16) := mul_le_mul_of_nonneg_left hx1 hx0
    nlinarith
  -- d·(1+u)^8 ≤ d·1133/1000
  have hdP : (d : K) * (1 + u) ^ 8 ≤ (d : K) * (1133 / 1000) := by
    rcases Nat.eq_zero_or_pos d with h0 | hpos
    · subst h0; simp
    · have h1 : (1 : K) ≤ (d : K) := by exact_mod_cast hpos
      have hu64 : u ≤ 1 / 64 := by
        have : u * 1 ≤ u * (d : K) := mul_le_mul_of_nonneg_left h1 hu
        linarith
      have g8 := gam8_le_64th hu hu64
      exact mul_le_mul_of_nonneg_left (by linarith) hd0
  have hLdu : 0 ≤ ((L : K) + (d : K)) * u := by positivity
  have hinner : 58 * (L : K) * u + (d : K) * (1 + u) ^ 8 * (2 * ε + ε ^ 2)
      ≤ 58 * (L : K) * u + (d : K) * (1133 / 1000) * (105 / 8 * (((L : K) + (d : K)) * u)) := by
    have : (d : K) * (1 + u) ^ 8 * (2 * ε + ε ^ 2)
        ≤ (d : K) * (1133 / 1000) * (105 / 8 * (((L : K) + (d : K)) * u)) :=
      mul_le_mul hdP hg hg0 (by positivity)
    linarith
  have hinner0 : 0 ≤ 58 * (L : K) * u + (d : K) * (1 + u) ^ 8 * (2 * ε + ε ^ 2) := by positivity
  have houter := mul_le_mul hP hinner hinner0 (by norm_num : (0 : K) ≤ 273 / 256)
  refine houter.trans ?_
  have hdLu : 0 ≤ (d : K) * (((L : K) + (d : K)) * u) := by positivity
  have e : 273 / 256 * (58 * (L : K) * u
        + (d : K) * (1133 / 1000) * (105 / 8 * (((L : K) + (d : K)) * u)))
      = 273 / 256 * 58 * ((L : K) * u)
        + 273 / 256 * (1133 / 1000) * (105 / 8) * ((d : K) * (((L : K) + (d : K)) * u)) := by ring
  have e' : (62 * (L : K) + 16 * (d : K) * ((L : K) + (d : K))) * u
      = 62 * ((L : K) * u) + 16 * ((d : K) * (((L : K) + (d : K)) * u)) := by ring
  rw [e, e']
  have c1 : (273 / 256 * 58 : K) ≤ 62 := by norm_num
  have c2 : (273 / 256 * (1133 / 1000) * (105 / 8) : K) ≤ 16 := by norm_num
  exact add_le_add (mul_le_mul_of_nonneg_right c1 hLu) (mul_le_mul_of_nonneg_right c2 hdLu)

/-- a tree with observations has a non-empty leaf -/
theorem C06.MTree.maxLeaf_pos {α : Type} (t : C06.MTree α) (h : t.flatten ≠ []) : 1 ≤ t.maxLeaf := by
  induction t with
  | leaf xs =>
    simp only [C06.MTree.flatten, C06.MTree.maxLeaf] at h ⊢
    exact List.length_pos_iff.mpr h
  | node l r ihl ihr =>
    simp only [C06.MTree.flatten, C06.MTree.maxLeaf] at h ⊢
    by_cases hl : l.flatten = []
    · have hr : r.flatten ≠ [] := by
        intro hr; apply h; rw [hl, hr]; rfl
      exact (ihr hr).trans (le_max_right _ _)
    · exact (ihl hl).trans (le_max_left _ _)

end Gpv
