/- driver families `res.*` (reservoir), `cache.*`, `strm.*`, `net.*`, `store.*` -/
import Gpv.Model.Reservoir
import Gpv.Model.Cache
import Gpv.Model.Stream
import Gpv.Model.Net
import Gpv.Model.Store
import Gpv.Drv.Util
import Gpv.Drv.P2
namespace Gpv.Drv
open Gpv

def natList (ws : List String) : Option (List Nat) := ws.mapM String.toNat?
def intList (ws : List String) : Option (List Int) := ws.mapM String.toInt?
def joinNat (l : List Nat) : String := " ".intercalate (l.map toString)

/-- `res.run k n | j_1 … j_n` : feed positions 0..n-1 with the scripted draws; prints `n | positions`
    `res.ranges k n`           : the ranges the code asks its random source for, per observation -/
def resDispatch (ws : List String) : List String :=
  match ws with
  | "res.run" :: k :: n :: rest =>
    match k.toNat?, n.toNat?, splitBars rest with
    | some k, some n, [_, js] =>
      match natList js with
      | some js =>
        let r := Reservoir.run k (List.range n) js
        [s!"{r.n} | " ++ joinNat r.res]
      | none => ["bad-op"]
    | _, _, _ => ["bad-op"]
  | ["res.ranges", k, n] =>
    match k.toNat?, n.toNat? with
    | some k, some n =>
      [" ".intercalate ((List.range n).map fun t =>
        match Reservoir.requestedRange k (t + 1) with
        | none => "-"
        | some (a, b) => s!"{a}:{b}")]
    | _, _ => ["bad-op"]
  | _ => ["bad-op"]

/-- cache.acc L | t:x …            -> n | values          (CacheAccumulator fed (time, object id))
    cache.accmerge L | t:x … | t:x … -> n | values        (two caches of length L, then merge)
    cache.max L tmo | k:t:x …      -> n | sorted keys | retained ids (sorted)      tmo = - for None
    cache.maxmerge L | k:t:x … | k:t:x … -> n | sorted keys -/
def parsePair (s : String) : Option (Nat × Nat) :=
  match s.splitOn ":" with
  | [a, b] => do let a ← a.toNat?; let b ← b.toNat?; pure (a, b)
  | _ => none

def parseTriple (s : String) : Option (Int × Nat × Nat) :=
  match s.splitOn ":" with
  | [a, b, c] => do let a ← a.toInt?; let b ← b.toNat?; let c ← c.toNat?; pure (a, b, c)
  | _ => none

def cacheAccRun (L : Nat) (ps : List (Nat × Nat)) : CacheAcc Nat :=
  ps.foldl (fun s p => s.push p.1 p.2) (CacheAcc.init L)

def cacheMaxRun (L : Nat) (tmo : Option Nat) (es : List (Int × Nat × Nat)) : CacheMax Nat :=
  es.foldl (fun s e => s.push e.1 e.2.1 e.2.2) (CacheMax.init L tmo)

def sortNat (l : List Nat) : List Nat := l.mergeSort (fun a b => decide (a ≤ b))

def cacheDispatch (ws : List String) : List String :=
  match ws with
  | "cache.acc" :: L :: rest =>
    match L.toNat?, splitBars rest with
    | some L, [_, ps] =>
      match ps.mapM parsePair with
      | some ps => let r := cacheAccRun L ps; [s!"{r.n} | " ++ joinNat r.value]
      | none => ["bad-op"]
    | _, _ => ["bad-op"]
  | "cache.accmerge" :: L :: rest =>
    match L.toNat?, splitBars rest with
    | some L, [_, ps, qs] =>
      match ps.mapM parsePair, qs.mapM parsePair with
      | some ps, some qs =>
        let r := (cacheAccRun L ps).merge (cacheAccRun L qs)
        [s!"{r.n} | " ++ joinNat r.value]
      | _, _ => ["bad-op"]
    | some L, [_, ps, qs, rs] =>
      -- merge, then keep accumulating into the merged cache
      match ps.mapM parsePair, qs.mapM parsePair, rs.mapM parsePair with
      | some ps, some qs, some rs =>
        let r := rs.foldl (fun s p => s.push p.1 p.2) ((cacheAccRun L ps).merge (cacheAccRun L qs))
        [s!"{r.n} | " ++ joinNat r.value]
      | _, _, _ => ["bad-op"]
    | _, _ => ["bad-op"]
  | "cache.max" :: L :: tmo :: rest =>
    match L.toNat?, splitBars rest with
    | some L, [_, es] =>
      match es.mapM parseTriple with
      | some es =>
        let r := cacheMaxRun L (if tmo = "-" then none else tmo.toNat?) es
        [s!"{r.n} | " ++ " ".intercalate (r.keys.map toString) ++ " | " ++ joinNat (sortNat (r.items.map (·.obj)))]
      | none => ["bad-op"]
    | _, _ => ["bad-op"]
  | "cache.maxmerge" :: L :: rest =>
    match L.toNat?, splitBars rest with
    | some L, [_, es, fs] =>
      match es.mapM parseTriple, fs.mapM parseTriple with
      | some es, some fs =>
        let r := (cacheMaxRun L none es).merge (cacheMaxRun L none fs)
        [s!"{r.n} | " ++ " ".intercalate (r.keys.map toString)]
      | _, _ => ["bad-op"]
    | some L, [_, es, fs, gs] =>
      match es.mapM parseTriple, fs.mapM parseTriple, gs.mapM parseTriple with
      | some es, some fs, some gs =>
        let r := gs.foldl (fun s e => s.push e.1 e.2.1 e.2.2) ((cacheMaxRun L none es).merge (cacheMaxRun L none fs))
        [s!"{r.n} | " ++ " ".intercalate (r.keys.map toString)]
      | _, _, _ => ["bad-op"]
    | _, _ => ["bad-op"]
  | _ => ["bad-op"]

/-! stream helpers: elements are natural-number ids, `enc`/`dec` the identity -/
open Gpv.Stream in
def fmtGPC : GPC → String
  | .notStarted => "notStarted" | .atYield => "atYield" | .done => "done" | .failed => "failed" | .closed => "closed"

open Gpv.Stream in
/-- strm.save n tail | demands(N/C)…   -> per demand: pc drawn opened closed entries=… out=…, then `load=`
    strm.observe nfuncs interval n tail | demands -> per demand: pc drawn out calls
    strm.otime nfuncs intervalNs n tail | clock readings… | demands
    strm.scache isIter L n tail | demands -> per demand: pc drawn err out=w;w;…
    strm.star | all… | bound…  -/
def strmDispatch (ws : List String) : List String :=
  let tailOf (t : String) : Option Nat := if t = "-" then none else (t.drop 1).toString.toNat?
  match ws with
  | "strm.save" :: n :: t :: rest =>
    match n.toNat?, splitBars rest with
    | some n, [_, ds] =>
      let xs := List.range n
      let tail := tailOf t
      let step (s : Save Nat Nat Nat) (d : String) : Save Nat Nat Nat :=
        if d = "N" then Save.next id xs tail s else if d = "C" then Save.close s else s
      let fmt (s : Save Nat Nat Nat) : String :=
        s!"pc={fmtGPC s.pc} drawn={s.drawn} opened={s.opened} closed={s.arch.closed} raised={s.raised.isSome} entries=" ++
        ",".intercalate (s.arch.entries.map fun e => e.1 ++ "=" ++ toString e.2) ++ " out=" ++ ",".intercalate (s.out.map toString)
      let (final, outs) := ds.foldl (fun (acc : Save Nat Nat Nat × List String) d =>
        let s' := step acc.1 d; (s', acc.2 ++ [fmt s'])) (Save.init, [])
      outs ++ ["load=" ++ (match load id final.arch with
        | none => "unreadable"
        | some l => ",".intercalate (l.map toString))]
    | _, _ => ["bad-op"]
  | "strm.observe" :: nf :: iv :: n :: t :: rest =>
    match nf.toNat?, iv.toNat?, n.toNat?, splitBars rest with
    | some nf, some iv, some n, [_, ds] =>
      let xs := List.range n
      let tail := tailOf t
      let fmt (s : Obsv Nat Nat) : String :=
        s!"pc={fmtGPC s.pc} drawn={s.drawn} raised={s.raised.isSome} out=" ++ ",".intercalate (s.out.map toString) ++
        " calls=" ++ ",".intercalate (s.calls.map fun c => s!"{c.1}:{c.2}")
      (ds.foldl (fun (acc : Obsv Nat Nat × List String) d =>
        let s' := if d = "N" then Obsv.next nf iv xs tail acc.1 else if d = "C" then Obsv.close acc.1 else acc.1
        (s', acc.2 ++ [fmt s'])) (Obsv.init, [])).2
    | _, _, _, _ => ["bad-op"]
  | "strm.otime" :: nf :: iv :: n :: t :: rest =>
    match nf.toNat?, iv.toInt?, n.toNat?, splitBars rest with
    | some nf, some iv, some n, [_, cl, ds] =>
      match intList cl with
      | some cl =>
        let xs := List.range n
        let tail := tailOf t
        let clock (i : Nat) : Int := cl.getD i 0
        let fmt (s : Obsv Nat Nat) : String :=
          s!"pc={fmtGPC s.pc} drawn={s.drawn} raised={s.raised.isSome} out=" ++ ",".intercalate (s.out.map toString) ++
          " calls=" ++ ",".intercalate (s.calls.map fun c => s!"{c.1}:{c.2}")
        (ds.foldl (fun (acc : Obsv Nat Nat × List String) d =>
          let s' := if d = "N" then Obsv.nextTime nf iv clock xs tail acc.1 else if d = "C" then Obsv.close acc.1 else acc.1
          (s', acc.2 ++ [fmt s'])) (Obsv.init, [])).2
      | none => ["bad-op"]
    | _, _, _, _ => ["bad-op"]
  | "strm.scache" :: it :: L :: n :: t :: rest =>
    match L.toNat?, n.toNat?, splitBars rest with
    | some L, some n, [_, ds] =>
      let xs := List.range n
      let tail := tailOf t
      let fmt (s : SCache Nat Nat) : String :=
        s!"pc={fmtGPC s.pc} drawn={s.drawn} err={s.err.isSome} raised={s.raised.isSome} out=" ++
        ";".intercalate (s.out.map fun w => ",".intercalate (w.map toString))
      (ds.foldl (fun (acc : SCache Nat Nat × List String) d =>
        let s' := if d = "N" then SCache.next (it = "1") L xs tail acc.1 else acc.1
        (s', acc.2 ++ [fmt s'])) (SCache.init, [])).2
    | _, _, _ => ["bad-op"]
  | "strm.star" :: rest =>
    match splitBars rest with
    | [_, all, bound] =>
      match starImport all bound with
      | .ok names => ["ok " ++ " ".intercalate names]
      | .attributeError m => ["AttributeError " ++ m]
    | _ => ["bad-op"]
  | _ => ["bad-op"]

/-! network pair: trace acceptor.  Elements are ids; events S:draw S:recv S:send R:next R:send R:recv -/
open Gpv.Net in
def netDispatch (ws : List String) : List String :=
  match ws with
  | "net.trace" :: n :: rest =>
    match n.toNat?, splitBars rest with
    | some n, [_, evs] =>
      let xs := List.range n
      let lbl (e : String) : Option Label :=
        if e = "sDraw" then some .sDraw else if e = "sRecv" then some .sRecv else if e = "sSend" then some .sSend
        else if e = "rNext" then some .rNext else if e = "rSend" then some .rSend else if e = "rRecv" then some .rRecv else none
      let rec go (k : Nat) (s : NS Nat) (evs : List String) : String :=
        let show_ (s : NS Nat) : String :=
          s!"final={s.isFinal} violated={s.violated} drawn={s.drawn} requests={s.requestsSeen} received=" ++
          ",".intercalate (s.received.map toString)
        match evs with
        | [] => "accept " ++ show_ s
        | e :: rest =>
          match (lbl e).bind (step? xs s) with
          | some s' => go (k + 1) s' rest
          | none => s!"reject at={k} event={e} " ++ show_ s
      [go 0 NS.init evs]
    | _, _ => ["bad-op"]
  | _ => ["bad-op"]

/-! ownership model: history of argument kinds (a = ndarray, s = scalar) for one accumulator kind;
    prints whether any caller buffer was written and whether the accumulator ends up holding a caller buffer -/
open Gpv.Store in
def storeDispatch (ws : List String) : List String :=
  match ws with
  | "store.hist" :: kind :: args =>
    let run (push : Heap → Ref → Ref → Heap × Ref) : String :=
      let (h, acc, _) := args.foldl (fun (st : Heap × Ref × Nat) a =>
        let (h, acc, i) := st
        let (h, obj) := h.newArg i (a = "a")
        let (h, acc) := push h acc obj
        (h, acc, i + 1)) (Heap.empty, Ref.none, 0)
      s!"callerWritten={h.callerWritten} aliasesCaller={acc.callerOwned h}"
    let run2 (step : Heap → Ref → Ref → Ref → Heap × Ref × Ref) : String :=
      let (h, a, b, _) := args.foldl (fun (st : Heap × Ref × Ref × Nat) x =>
        let (h, a, b, i) := st
        let (h, obj) := h.newArg i (x = "a")
        let (h, a, b) := step h a b obj
        (h, a, b, i + 1)) (Heap.empty, Ref.num, Ref.num, 0)
      s!"callerWritten={h.callerWritten} aliasesCaller={a.callerOwned h || b.callerOwned h}"
    match kind with
    | "minmax" => [run minmaxPush]
    | "minmaxPinned" => [run minmaxPushPinned]
    | "mean" => [run (fun h acc obj => meanPush h (if acc = .none then .num else acc) obj)]
    | "rmean" => [run (fun h acc obj => rmeanPush h (if acc = .none then .num else acc) obj)]
    | "var" => [run2 (variancePush meanPush)]
    | "rvar" => [run2 (variancePush rmeanPush)]
    | "p2" =>
      let (h, a, b, _) := args.foldl (fun (st : Heap × Ref × Ref × Nat) x =>
        let (h, a, b, i) := st
        let (h, obj) := h.newArg i (x = "a")
        let (h, a, b) := p2Push h a b obj
        (h, a, b, i + 1)) (Heap.empty, Ref.none, Ref.none, 0)
      [s!"callerWritten={h.callerWritten} aliasesCaller={a.callerOwned h || b.callerOwned h}"]
    | _ => ["bad-op"]
  | _ => ["bad-op"]

end Gpv.Drv
