/- driver family `alias.*`: one step of the aliasing model `Gpv.Model.Alias`, run at `Rat`.

   alias.step    <raw|fixed|pure> <n> | <mean values> | <var values> | <fresh v1 v2 … | view i1 i2 …>
       →  <n'> | <new mean values> | <new var values>
   alias.covstep <raw|fixed|pure> <n> | <mean values> | <cov values, row-major> | <fresh … | view …>
       →  <n'> | <new mean values> | <new cov values, row-major>

   alias.meanstep <one|two|pure> <n> | <val values> | <fresh v1 v2 … | view i1 i2 …>
       →  <n'> | <new val values>
       (ADDED: the plain `Mean`; `one` = the code as it is, `two` = the two-statement rewrite
        `_val -= _val/_n ; _val += obj/_n`, `pure` = scalar `Mean.push` per component; `MWF`)

   Values are rationals `p` or `p/q` (as everywhere in the driver), printed with `fmtRat`.
   `pure` feeds the values the observation shows in the given state to the functional model.
   Anything unparsable or ill-shaped (`WF` / `CWF` false) answers `bad-op`. -/
import Gpv.Model.Alias
import Gpv.Drv.Util
import Gpv.Drv.P2   -- `splitBars`
namespace Gpv.Drv
open Gpv Gpv.Alias

def parseObs (ws : List String) : Option (Obs Rat) :=
  match ws with
  | "fresh" :: vs => (vs.mapM parseRat).map Obs.fresh
  | "view" :: is => (is.mapM String.toNat?).map Obs.view
  | _ => none

def fmtRats (xs : List Rat) : String := " ".intercalate (xs.map fmtRat)

def fmtTriple (n : Nat) (a b : List Rat) : String := s!"{n} | {fmtRats a} | {fmtRats b}"

def aliasStep (mode : String) (st : St Rat) (o : Obs Rat) : Option (St Rat) :=
  if ¬ WF st.mean.length st o then none else
  match mode with
  | "raw" => some (stepRaw st o)
  | "fixed" => some (stepFixed st o)
  | "pure" => some (stepPure st (readObs st o))
  | _ => none

def aliasCovStep (mode : String) (st : CSt Rat) (o : Obs Rat) : Option (CSt Rat) :=
  if ¬ CWF st.mean.length st o then none else
  match mode with
  | "raw" => some (covStepRaw st o)
  | "fixed" => some (covStepFixed st o)
  | "pure" => some (covStepPure st (covReadObs st o))
  | _ => none

/-! ADDED: the plain `Mean` (`alias.meanstep`) -/

def aliasMeanStep (mode : String) (st : MSt Rat) (o : Obs Rat) : Option (MSt Rat) :=
  if ¬ MWF st.val.length st o then none else
  match mode with
  | "one" => some (meanStepOne st o)
  | "two" => some (meanStepTwo st o)
  | "pure" => some (meanStepPure st (mReadObs st o))
  | _ => none

def fmtPair (n : Nat) (a : List Rat) : String := s!"{n} | {fmtRats a}"

/-- `alias.meanstep <mode> <n> | <val values> | <obs>` (three groups) -/
def aliasMeanDispatch (op mode n : String) (vs os : List String) : List String :=
  match n.toNat?, vs.mapM parseRat, parseObs os with
  | some n, some vs, some o =>
      if op = "alias.meanstep" then
        match aliasMeanStep mode ⟨vs, n⟩ o with
        | some r => [fmtPair r.n r.val]
        | none => ["bad-op"]
      else ["bad-op"]
  | _, _, _ => ["bad-op"]

def aliasDispatch (ws : List String) : List String :=
  match splitBars ws with
  | [[op, mode, n], vs, os] => aliasMeanDispatch op mode n vs os   -- ADDED (plain Mean)
  | [[op, mode, n], ms, vs, os] =>
      match n.toNat?, ms.mapM parseRat, vs.mapM parseRat, parseObs os with
      | some n, some ms, some vs, some o =>
          if op = "alias.step" then
            match aliasStep mode ⟨ms, vs, n⟩ o with
            | some r => [fmtTriple r.n r.mean r.var]
            | none => ["bad-op"]
          else if op = "alias.covstep" then
            match aliasCovStep mode ⟨ms, vs, n⟩ o with
            | some r => [fmtTriple r.n r.mean r.cov]
            | none => ["bad-op"]
          else ["bad-op"]
      | _, _, _, _ => ["bad-op"]
  | _ => ["bad-op"]

end Gpv.Drv
