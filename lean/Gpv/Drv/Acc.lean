/- driver family `acc.*`: a register machine over the accumulator models, run at `Rat` -/
import Gpv.Model.Accum
import Gpv.Model.Running
import Gpv.Drv.Util
namespace Gpv.Drv
open Gpv

inductive AccReg where
  | counter (s : Counter)
  | ext (isMax : Bool) (s : Extremum (Val Rat))
  | mean (s : Mean (Val Rat))
  | var (s : Variance (Val Rat))
  | cov (s : Covariance Rat)
  | rmean (s : RMeanV Rat)
  | rvar (s : RVarianceV Rat)
  | rcov (s : RCovarianceV Rat)

abbrev AccSt := List (String × AccReg)

def AccSt.get (st : AccSt) (r : String) : Option AccReg := (st.find? (·.1 = r)).map (·.2)
def AccSt.set (st : AccSt) (r : String) (v : AccReg) : AccSt := (r, v) :: st.filter (·.1 ≠ r)

def vmin : Val Rat → Val Rat → Val Rat := Val.map₂ kmin
def vmax : Val Rat → Val Rat → Val Rat := Val.map₂ kmax

def accNew (kind : String) (params : List String) : Option AccReg :=
  match kind, params with
  | "counter", [] => some (.counter Counter.init)
  | "min", [] => some (.ext false Extremum.init)
  | "max", [] => some (.ext true Extremum.init)
  | "mean", [] => some (.mean Mean.init)
  | "var", [] => some (.var Variance.init)
  | "cov", [] => some (.cov Covariance.init)
  | "rmean", [l] => (parseRat l).map fun l => .rmean (RMeanV.init l)
  | "rvar", [l] => (parseRat l).map fun l => .rvar (RVarianceV.init l)
  | "rcov", [l] => (parseRat l).map fun l => .rcov (RCovarianceV.init l)
  | _, _ => none

def accPush (a : AccReg) (x : Val Rat) : AccReg :=
  match a with
  | .counter s => .counter s.push
  | .ext m s => .ext m (s.push (if m then vmax else vmin) x)
  | .mean s => .mean (s.push x)
  | .var s => .var (s.push x)
  | .cov s => .cov (s.push x)
  | .rmean s => .rmean (s.push x)
  | .rvar s => .rvar (s.push x)
  | .rcov s => .rcov (s.push x)

def accMerge (a b : AccReg) : Except PyErr AccReg :=
  match a, b with
  | .counter s, .counter o => .ok (.counter (s.merge o))
  | .ext m s, .ext m' o => if m = m' then .ok (.ext m (s.merge (if m then vmax else vmin) o)) else .error .typeErr
  | .mean s, .mean o => .ok (.mean (s.merge o))
  | .var s, .var o => .ok (.var (s.merge o))
  | .cov s, .cov o => .ok (.cov (s.merge o))
  | .rmean _, .rmean _ => .error .notImplemented
  | .rvar _, .rvar _ => .error .notImplemented
  | .rcov _, .rcov _ => .error .notImplemented
  | _, _ => .error .typeErr

def accSetLifetime (a : AccReg) (l : Rat) : Option AccReg :=
  match a with
  | .rmean s => some (.rmean (s.setLifetime l))
  | .rvar s => some (.rvar (s.setLifetime l))
  | .rcov s => some (.rcov (s.setLifetime l))
  | _ => none

def accRead (a : AccReg) : String :=
  match a with
  | .counter s => s!"counter n={s.n} value=s:{s.n}"
  | .ext _ s => s!"ext n={s.n} value=" ++ (match s.acc with | none => "none" | some v => fmtVal v)
  | .mean s => s!"mean n={s.n} value={fmtVal s.val} sum={fmtVal s.sum}"
  | .var s => s!"var n={s.n} value={fmtExcept fmtVal s.value} rms={fmtVal s.rms} mean={fmtVal s.mean.val}"
  | .cov s => s!"cov n={s.n} value={fmtExcept fmtVal s.value} rms={fmtVal s.cov.val} mean={fmtVal s.mean.val}"
  | .rmean s => s!"rmean n={s.n} value={fmtVal s.acc} lifetime={fmtRat (1 / s.alpha)}"
  | .rvar s => s!"rvar n={s.mean.n} value={fmtExcept fmtVal s.value} rms={fmtVal s.var.acc} mean={fmtVal s.mean.acc} lifetime={fmtRat (1 / s.mean.alpha)}"
  | .rcov s => s!"rcov n={s.mean.n} value={fmtExcept fmtVal s.value} rms={fmtVal s.cov.acc} mean={fmtVal s.mean.acc} lifetime={fmtRat (1 / s.mean.alpha)}"

/-- one protocol line; returns new state and the output lines -/
def accStep (st : AccSt) (ws : List String) : AccSt × List String :=
  match ws with
  | ["acc.reset"] => ([], [])
  | "acc.new" :: r :: kind :: params =>
      match accNew kind params with
      | some a => (st.set r a, [])
      | none => (st, ["bad-op"])
  | ["acc.push", r, v] =>
      match st.get r, parseVal v with
      | some a, some x => (st.set r (accPush a x), [])
      | _, _ => (st, ["bad-op"])
  | ["acc.merge", r, r2] =>
      match st.get r, st.get r2 with
      | some a, some b =>
          match accMerge a b with
          | .ok a' => (st.set r a', ["ok"])
          | .error e => (st, ["!" ++ e.name])
      | _, _ => (st, ["bad-op"])
  | ["acc.lifetime", r, l] =>
      match st.get r, parseRat l with
      | some a, some l =>
          match accSetLifetime a l with
          | some a' => (st.set r a', [])
          | none => (st, ["bad-op"])
      | _, _ => (st, ["bad-op"])
  | ["acc.kindmerge", k] =>
      let kind? : Option AccKind := match k with
        | "Counter" => some .counter | "Minimum" => some .minimum | "Maximum" => some .maximum
        | "Mean" => some .mean | "Variance" => some .variance | "Covariance" => some .covariance
        | "RunningMean" => some .runningMean | "RunningVariance" => some .runningVariance
        | "RunningCovariance" => some .runningCovariance
        | "CacheAccumulator" => some .cacheAccumulator | "CacheMaximum" => some .cacheMaximum
        | "ReservoirSampling" => some .reservoirSampling | "CDFEstimator" => some .cdfEstimator
        | "QuantileEstimator" => some .quantileEstimator | "MedianEstimator" => some .medianEstimator
        | "BinSorter" => some .binSorter | "DynamicBinSorter" => some .dynamicBinSorter
        | _ => none
      match kind? with
      | some kind =>
          -- receiver state abstracted to a token: 0 = unchanged, 1 = merged
          let r := kind.mergeOutcome (fun (_ _ : Nat) => 1) 0 0
          (st, [(match r.1 with | .ok _ => "ok" | .error e => "!" ++ e.name) ++ (if r.2 = 0 then " unchanged" else " merged")])
      | none => (st, ["bad-op"])
  | ["acc.read", r] =>
      match st.get r with
      | some a => (st, [accRead a])
      | none => (st, ["bad-op"])
  | _ => (st, ["bad-op"])

end Gpv.Drv
