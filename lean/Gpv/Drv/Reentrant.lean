/- driver family `res.echo*`: the statement-level, re-entrant model `Gpv.Model.Reentrant` of
   `ReservoirSampling._accumulate_obj`.

   res.echo    <first|late> <k> | <script entries> | <obs: p or e per observation, e.g. e e p e>
       →  <n> | <reservoir ids> | <ranges as a:b …>
   res.echolog <first|late> <k> | <script entries> | <obs>
       →  <ids of the arguments of all accumulate calls, in order of entry>

   `first` = the real statement order (`self._n += 1` first), `late` = the faulty order (local
   `n = self._n + 1`, written back at the very end).  Offered observation number i (0-based)
   has id i (`p` → `plain i`, `e` → `echo i`); the follow-up token of `echo i` has id
   `1000 + i` (`Gpv.Reentrant.echoId`).  One script entry is consumed per `random.randint`
   request, used as it is (as in `res.run`); an exhausted script answers the upper end of the
   requested range.  Anything unparsable answers `bad-op`. -/
import Gpv.Model.Reentrant
import Gpv.Drv.Misc   -- `natList`, `joinNat`, `splitBars`
namespace Gpv.Drv
open Gpv Gpv.Reentrant

def parseEchoObs (ws : List String) : Option (List Obs) :=
  (ws.zipIdx).mapM fun (w, i) =>
    if w = "p" then some (Obs.plain i) else if w = "e" then some (Obs.echo i) else none

def fmtRanges (l : List (Nat × Nat)) : String :=
  " ".intercalate (l.map fun (a, b) => s!"{a}:{b}")

def resEchoDispatch (ws : List String) : List String :=
  match ws with
  | cmd :: mode :: k :: rest =>
    match k.toNat?, splitBars rest with
    | some k, [[], js, os] =>
      match natList js, parseEchoObs os with
      | some js, some os =>
        let st? : Option St :=
          if mode = "first" then some (execFirst k js os)
          else if mode = "late" then some (execLate k js os) else none
        match st?, cmd with
        | some st, "res.echo" =>
          let o := st.out
          [s!"{o.n} | " ++ joinNat o.res ++ " | " ++ fmtRanges o.ranges]
        | some st, "res.echolog" => [joinNat (st.calls.map Obs.id)]
        | _, _ => ["bad-op"]
      | _, _ => ["bad-op"]
    | _, _ => ["bad-op"]
  | _ => ["bad-op"]

end Gpv.Drv
