/- parsing / printing helpers of the line-protocol driver (core only) -/
import Gpv.Model.Basic
namespace Gpv.Drv

def parseRat (s : String) : Option Rat :=
  match s.splitOn "/" with
  | [a] => a.toInt?.map fun i => (i : Rat)
  | [a, b] => do
      let i ← a.toInt?
      let d ← b.toNat?
      if d = 0 then none else some (mkRat i d)
  | _ => none

def fmtRat (r : Rat) : String :=
  if r.den = 1 then toString r.num else s!"{r.num}/{r.den}"

/-- `s:<rat>` scalar, `a:<rat>,<rat>,…` array (`a:` = empty array) -/
def parseVal (s : String) : Option (Val Rat) :=
  if s.startsWith "s:" then (parseRat (s.drop 2).toString).map Val.scalar
  else if s.startsWith "a:" then
    let body := (s.drop 2).toString
    if body.isEmpty then some (Val.arr [])
    else (body.splitOn ",").mapM parseRat |>.map Val.arr
  else none

def fmtVal : Val Rat → String
  | .scalar x => "s:" ++ fmtRat x
  | .arr xs => "a:" ++ ",".intercalate (xs.map fmtRat)

def fmtExcept {α} (f : α → String) : Except PyErr α → String
  | .ok a => f a
  | .error e => "!" ++ e.name

/-- 64-bit words for floats, as lower-case hex without prefix -/
def hexDigit (c : Char) : Option Nat :=
  if '0' ≤ c ∧ c ≤ '9' then some (c.toNat - '0'.toNat)
  else if 'a' ≤ c ∧ c ≤ 'f' then some (c.toNat - 'a'.toNat + 10)
  else none

def parseHex (s : String) : Option Nat :=
  s.toList.foldlM (fun acc c => (hexDigit c).map (acc * 16 + ·)) 0

def parseFloatBits (s : String) : Option Float :=
  (parseHex s).map fun n => Float.ofBits n.toUInt64

def toHex (n : Nat) : String :=
  let rec go (fuel : Nat) (n : Nat) (acc : List Char) : List Char :=
    match fuel with
    | 0 => acc
    | fuel + 1 =>
      let d := n % 16
      let c := if d < 10 then Char.ofNat ('0'.toNat + d) else Char.ofNat ('a'.toNat + d - 10)
      if n / 16 = 0 then c :: acc else go fuel (n / 16) (c :: acc)
  String.ofList (go 17 n [])

def fmtFloatBits (f : Float) : String := toHex f.toBits.toNat

def words (line : String) : List String :=
  (line.splitOn " ").filter (· ≠ "")

end Gpv.Drv
