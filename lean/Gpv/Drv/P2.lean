/- driver families `p2f.*` (Float, 64-bit words) and `p2q.*` (exact rationals): P², bins, interp -/
import Gpv.Model.P2
import Gpv.Model.Bins
import Gpv.Model.P2Vec
import Gpv.Drv.Util
namespace Gpv.Drv
open Gpv

instance : NatCast Float := ⟨Float.ofNat⟩

/-- split a token list at "|" separators -/
def splitBars (ws : List String) : List (List String) :=
  let rec go (ws : List String) (cur : List String) (acc : List (List String)) : List (List String) :=
    match ws with
    | [] => (cur.reverse :: acc).reverse
    | w :: rest => if w = "|" then go rest [] (cur.reverse :: acc) else go rest (w :: cur) acc
  go ws [] []

section
variable {K : Type} [Add K] [Sub K] [Mul K] [Div K] [Neg K] [NatCast K]
  [LT K] [DecidableLT K] [LE K] [DecidableLE K]

def fmtP2 (fmt : K → String) (s : P2 K) : String :=
  s!"{s.n} | " ++ " ".intercalate (s.h.map fmt) ++ " | " ++ " ".intercalate (s.pos.map fmt)

/-- `<fam>.step n | q… | h… | pos… | x`  -> state after one observation
    `<fam>.run | q… | xs…`               -> state after the whole sequence
    `<fam>.interp x | xp… | fp…`         -> np.interp
    `<fam>.digitize s | edges…`          -> index
    `<fam>.dynbin nbins | q… | keys…`    -> bin index chosen for each key after training (or -) -/
def p2Step (parse : String → Option K) (fmt : K → String) (cmd : String) (args : List String) : List String :=
  let groups := splitBars args
  let nums (g : List String) : Option (List K) := g.mapM parse
  match cmd, groups with
  | "step", [[n], q, h, pos, [x]] =>
      match n.toNat?, nums q, nums h, nums pos, parse x with
      | some n, some q, some h, some pos, some x =>
          [fmtP2 fmt (P2.push ⟨q, n, h, pos⟩ x)]
      | _, _, _, _, _ => ["bad-op"]
  | "vstep", [[d, n], q, h, pos, x] =>
      -- array estimator: h and pos are row-major (marker, component) tables of d components per row
      match d.toNat?, n.toNat?, nums q, nums h, nums pos, nums x with
      | some d, some n, some q, some h, some pos, some x =>
          let chunk (l : List K) : List (List K) :=
            if d = 0 then [] else (List.range (l.length / d)).map fun i => (l.drop (i * d)).take d
          let s' := P2V.push ⟨q, d, n, chunk h, chunk pos⟩ x
          [s!"{s'.n} | " ++ " ".intercalate (s'.h.flatten.map fmt) ++ " | " ++ " ".intercalate (s'.pos.flatten.map fmt)]
      | _, _, _, _, _, _ => ["bad-op"]
  | "run", [_, q, xs] =>
      match nums q, nums xs with
      | some q, some xs => [fmtP2 fmt (P2.run q xs)]
      | _, _ => ["bad-op"]
  | "interp", [[x], xp, fp] =>
      match parse x, nums xp, nums fp with
      | some x, some xp, some fp => [fmt (interp x xp fp)]
      | _, _, _ => ["bad-op"]
  | "qgrid", [[p]] =>
      match parse p with
      | some p => [" ".intercalate ((quantileGrid p).map fmt)]
      | none => ["bad-op"]
  | "digitize", [[s], edges] =>
      match parse s, nums edges with
      | some s, some edges => [toString (digitize s edges)]
      | _, _ => ["bad-op"]
  | "dynbin", [[nb], q, keys] =>
      match nb.toNat?, nums q, nums keys with
      | some nb, some q, some keys =>
          -- per-bin accumulator = list of positions of the observations it received
          let init : DynBinSorter K (List Nat) := DynBinSorter.init nb q []
          let final := (keys.zipIdx).foldl (fun s (p : K × Nat) =>
            DynBinSorter.push (fun a (d : Nat) => a ++ [d]) s p.1 p.2) init
          [s!"{final.n} | " ++ " ; ".intercalate (final.bins.map fun b => " ".intercalate (b.map toString))
            ++ " | " ++ " ".intercalate (final.est.h.map fmt)]
      | _, _, _ => ["bad-op"]
  | "binsort", [edges, keys] =>
      match nums edges, nums keys with
      | some edges, some keys =>
          let init : BinSorter K (List Nat) := BinSorter.init edges []
          let final := (keys.zipIdx).foldl (fun s (p : K × Nat) =>
            BinSorter.push (fun a (d : Nat) => a ++ [d]) s p.1 p.2) init
          [s!"{final.n} | " ++ " ; ".intercalate (final.bins.map fun b => " ".intercalate (b.map toString))]
      | _, _ => ["bad-op"]
  | _, _ => ["bad-op"]
end

def p2Dispatch (ws : List String) : List String :=
  match ws with
  | w :: args =>
      if w.startsWith "p2f." then p2Step parseFloatBits fmtFloatBits (w.drop 4).toString args
      else if w.startsWith "p2q." then p2Step parseRat fmtRat (w.drop 4).toString args
      else ["bad-op"]
  | [] => []

end Gpv.Drv
