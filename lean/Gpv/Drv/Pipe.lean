/- driver family `pipe.*`: specification, trace acceptor for the parallel generator, serial machine -/
import Gpv.Model.Pipeline
import Gpv.Model.PipeInfo
import Gpv.Model.Stage
import Gpv.Model.Ship
import Gpv.Drv.Util
namespace Gpv.Drv
open Gpv Gpv.Pipe

def parseOutcome (s : String) : Option (Outcome Nat Nat) :=
  if s = "n" then some (.val none)
  else if s.startsWith "v" then (s.drop 1).toString.toNat?.map fun k => .val (some k)
  else if s.startsWith "e" then (s.drop 1).toString.toNat?.map fun k => .err k
  else none

def parseTail (s : String) : Option (Option Nat) :=
  if s = "-" then some none
  else if s.startsWith "e" then (s.drop 1).toString.toNat?.map some
  else none

def fmtObs : Obs Nat Nat → String
  | .value none => "n"
  | .value (some k) => s!"v{k}"
  | .raised e => s!"r{e}"
  | .stop => "stop"

def fmtPC : PC → String
  | .notStarted => "notStarted" | .loopHead => "loopHead" | .waitLoop => "waitLoop"
  | .yieldLoop => "yieldLoop" | .flushHead => "flushHead" | .waitFlush => "waitFlush"
  | .yieldFlush => "yieldFlush" | .done => "done" | .failed => "failed" | .closed => "closed"

def fmtPool : PoolSt → String
  | .notCreated => "notCreated" | .alive => "alive" | .terminated => "terminated"

def fmtPS (s : PS Nat Nat) : String :=
  s!"pc={fmtPC s.pc} pool={fmtPool s.pool} drawn={s.drawn} taken={s.taken} window={s.cache.length} " ++
  s!"running={running s.cache} processed={s.processed} yielded={s.yielded} out=" ++
  ",".intercalate (s.out.map fmtObs)

/-- internal generator steps (`get`, `flush`) are not observable: take them when needed -/
def internal (c : Cfg) (xs : List (Outcome Nat Nat)) (tail : Option Nat) (s : PS Nat Nat) : Option (PS Nat Nat) :=
  match s.pc with
  | .waitLoop | .waitFlush =>
    match step? c xs tail id s .get with
    | some s' => some s'
    | none =>
      -- the oldest task could not even be sent to a worker: it fails without start/finish events
      match s.cache with
      | (i, .queued) :: _ => (step? c xs tail id s (.finish i)).bind fun s' => step? c xs tail id s' .get
      | _ => none
  | .flushHead => step? c xs tail id s .flush
  | _ => none

/-- one observed event; `delivered` = number of entries of `out` already acknowledged -/
def acceptEvent (c : Cfg) (xs : List (Outcome Nat Nat)) (tail : Option Nat)
    (fuel : Nat) (s : PS Nat Nat) (delivered : Nat) (ev : String) : Option (PS Nat Nat × Nat) :=
  let lbl? : Option (Label Nat) :=
    if ev = "N" then some .next else if ev = "D" then some .draw else if ev = "C" then some .close
    else if ev.startsWith "T" then (ev.drop 1).toString.toNat?.map Label.throw
    else if ev.startsWith "S" then (ev.drop 1).toString.toNat?.map Label.start
    else if ev.startsWith "F" then (ev.drop 1).toString.toNat?.map Label.finish
    else none
  match lbl? with
  | some l =>
    -- worker events after the pool is gone are leftovers of terminate(): ignore
    let isWorker := ev.startsWith "S" || ev.startsWith "F"
    if isWorker && s.pool ≠ .alive then some (s, delivered)
    else
      let rec go (fuel : Nat) (s : PS Nat Nat) : Option (PS Nat Nat) :=
        match step? c xs tail id s l with
        | some s' => some s'
        | none =>
          if isWorker then none else
          match fuel with
          | 0 => none
          | fuel + 1 => (internal c xs tail s).bind (go fuel)
      -- a throw delivers its exception to the consumer at once
      (go fuel s).map fun s' => (s', if ev.startsWith "T" then s'.out.length else delivered)
  | none =>
    -- deliveries: Y<obs> / R<e> / E  must be the next entry of `out`
    let want : Option (Obs Nat Nat) :=
      if ev = "E" then some .stop
      else if ev = "Yn" then some (.value none)
      else if ev.startsWith "Y" then (ev.drop 1).toString.toNat?.map fun k => .value (some k)
      else if ev.startsWith "R" then (ev.drop 1).toString.toNat?.map Obs.raised
      else none
    match want with
    | none => none
    | some w =>
      -- a finished stream answers every further next() with StopIteration and nothing else
      if ev = "E" && s.isFinal && delivered = s.out.length then some (s, delivered) else
      let rec go2 (fuel : Nat) (s : PS Nat Nat) : Option (PS Nat Nat) :=
        if delivered < s.out.length then
          if s.out[delivered]? = some w then some s else none
        else
          match fuel with
          | 0 => none
          | fuel + 1 => (internal c xs tail s).bind (go2 fuel)
      (go2 fuel s).map fun s' => (s', delivered + 1)

def acceptTrace (c : Cfg) (xs : List (Outcome Nat Nat)) (tail : Option Nat) (processed yielded : Nat)
    (evs : List String) : String :=
  let rec go (k : Nat) (s : PS Nat Nat) (delivered : Nat) (evs : List String) : String :=
    match evs with
    | [] => s!"accept delivered={delivered} " ++ fmtPS s
    | ev :: rest =>
      match acceptEvent c xs tail (xs.length + 4) s delivered ev with
      | some (s', d') => go (k + 1) s' d' rest
      | none => s!"reject at={k} event={ev} " ++ fmtPS s
  go 0 (PS.init processed yielded) 0 evs

/-- several streams of one stage: events are `<stream>:<event>` (plus `K` = create a stream).  Each event of stream
    i is accepted by the single-stream acceptor on stream i's state carrying the STAGE's counters, which are written
    back afterwards — the composition of `Stage.step`s for the event's label and the unobservable `get`/`flush`
    steps before it. -/
def acceptStage (c : Cfg) (srcs : List (List (Outcome Nat Nat) × Option Nat)) (p0 y0 : Nat) (evs : List String) : String :=
  let rec go (k : Nat) (st : Stage Nat Nat) (deliv : List Nat) (evs : List String) : String :=
    let show_ (st : Stage Nat Nat) : String :=
      s!"processed={st.processed} yielded={st.yielded} streams=" ++
      ";".intercalate (st.streams.map fun s => s!"{fmtPC s.pc},{fmtPool s.pool},{s.drawn},{s.taken}," ++ "+".intercalate (s.out.map fmtObs))
    match evs with
    | [] => "accept " ++ show_ st
    | ev :: rest =>
      if ev = "K" then go (k + 1) st.create (deliv ++ [0]) rest
      else
        match ev.splitOn ":" with
        | [si, e] =>
          match si.toNat? with
          | some i =>
            match st.streams[i]?, srcs[i]? with
            | some s, some src =>
              let s0 : PS Nat Nat := { s with processed := st.processed, yielded := st.yielded }
              match acceptEvent c src.1 src.2 (src.1.length + 4) s0 (deliv.getD i 0) e with
              | some (s', d') =>
                go (k + 1) { streams := st.streams.set i s', processed := s'.processed, yielded := s'.yielded } (deliv.set i d') rest
              | none => s!"reject at={k} event={ev} " ++ show_ st
            | _, _ => s!"reject at={k} event={ev} (no such stream) " ++ show_ st
          | none => "bad-op"
        | _ => "bad-op"
  go 0 (Stage.init p0 y0) [] evs

/-! serial machine -/
def parseSOutcome (s : String) : Option (SOutcome Nat Nat) :=
  if s = "n" then some (.plain none)
  else if s.startsWith "v" then (s.drop 1).toString.toNat?.map fun k => .plain (some k)
  else if s.startsWith "e" then (s.drop 1).toString.toNat?.map fun k => .err k
  else if s.startsWith "i" then
    -- i:<item>,<item>,…  items: n or <id>   (i: alone = empty iterator)
    let body := (s.drop 2).toString
    if body.isEmpty then some (.iter [])
    else (body.splitOn ",").mapM (fun t => if t = "n" then some none else t.toNat?.map some) |>.map SOutcome.iter
  else none

def fmtSPC : SPC → String
  | .notStarted => "notStarted" | .loopHead => "loopHead" | .innerHead => "innerHead"
  | .atYield => "atYield" | .done => "done" | .failed => "failed" | .closed => "closed"

def fmtSS (s : SS Nat Nat) : String :=
  s!"pc={fmtSPC s.pc} drawn={s.drawn} pulls={s.pulls} processed={s.processed} yielded={s.yielded} out=" ++
  ",".intercalate (s.out.map fmtObs)

/-- demand history for the serial machine: each `N` = one `next()` by the consumer, run until
    the generator suspends or ends; `C` = close. Prints the state after each demand. -/
def serialHistory (c : Cfg) (xs : List (SOutcome Nat Nat)) (tail : Option Nat) (processed yielded : Nat)
    (demands : List String) : List String :=
  let runUntilSuspended (s : SS Nat Nat) : SS Nat Nat :=
    let rec go (fuel : Nat) (s : SS Nat Nat) : SS Nat Nat :=
      match fuel with
      | 0 => s
      | fuel + 1 =>
        match s.pc with
        | .loopHead => go fuel ((sstep? c xs tail id s .draw).getD s)
        | .innerHead => go fuel ((sstep? c xs tail id s .pull).getD s)
        | _ => s
    go (2 * (xs.length + 2) + (xs.map fun o => match o with | .iter l => l.length + 1 | _ => 2).sum) s
  let rec loop (s : SS Nat Nat) (ds : List String) (acc : List String) : List String :=
    match ds with
    | [] => acc.reverse
    | d :: rest =>
      let s' := if d = "N" then runUntilSuspended ((sstep? c xs tail id s .next).getD s)
                else if d = "C" then (sstep? c xs tail id s .close).getD s
                else if d.startsWith "T" then
                  match (d.drop 1).toString.toNat? with
                  | some e => (sstep? c xs tail id s (.throw e)).getD s
                  | none => s
                else s
      loop s' rest (fmtSS s' :: acc)
  loop (SS.init processed yielded) demands []

def pipeDispatch (ws : List String) : List String :=
  match ws with
  | "pipe.spec" :: sk :: rest =>
      match splitBars' rest with
      | [[t], outs] =>
        match parseTail t, outs.mapM parseOutcome with
        | some tail, some xs =>
          let c : Cfg := ⟨1, 0, sk = "1"⟩
          [",".intercalate ((spec c id tail xs).map fmtObs)]
        | _, _ => ["bad-op"]
      | [[t]] =>
        match parseTail t with
        | some tail => [",".intercalate ((spec (⟨1, 0, sk = "1"⟩ : Cfg) (id : Outcome Nat Nat → _) tail []).map fmtObs)]
        | none => ["bad-op"]
      | _ => ["bad-op"]
  | "pipe.trace" :: nw :: ec :: sk :: pr :: yl :: rest =>
      match nw.toNat?, ec.toNat?, pr.toNat?, yl.toNat?, splitBars' rest with
      | some nw, some ec, some pr, some yl, [[t], outs, evs] =>
        match parseTail t, outs.mapM parseOutcome with
        | some tail, some xs => [acceptTrace ⟨nw, ec, sk = "1"⟩ xs tail pr yl evs]
        | _, _ => ["bad-op"]
      | _, _, _, _, _ => ["bad-op"]
  | ["pipe.info", p, y] =>
      match p.toNat?, y.toNat? with
      | some p, some y => [Gpv.PipeInfo.str p y]
      | _, _ => ["bad-op"]
  | ["pipe.ship", nw, ec, sk, vb, mt, pr, yl] =>
      -- what a stage made with these options looks like after __getstate__/__setstate__ ('-' = the attribute does not exist)
      match nw.toNat?, ec.toNat?, pr.toNat?, yl.toNat? with
      | some nw, some ec, some pr, some yl =>
        let mtpc : Option Nat := if mt = "-" then none else mt.toNat?
        let s0 : Gpv.Ship.Stage Unit := Gpv.Ship.Stage.make () nw ec (sk = "1") (vb = "1") mtpc
        let s := Gpv.Ship.ship { s0 with processed := pr, yielded := yl }
        let opt (o : Option Nat) : String := match o with | some k => toString k | none => "-"
        let opt2 (o : Option (Option Nat)) : String := match o with | some (some k) => toString k | some none => "None" | none => "-"
        [s!"nworkers={s.nworkers} cachelen={opt s.cachelen} verbose={if s.verbose then 1 else 0} skipNone={if s.skipNone then 1 else 0} maxtasksperchild={opt2 s.maxtasksperchild} processed={s.processed} yielded={s.yielded}"]
      | _, _, _, _ => ["bad-op"]
  | ["pipe.call", k] =>
      let kind? : Option ArgKind := if k = "iterator" then some .iterator else if k = "element" then some .element else none
      match kind? with
      | some kind =>
        match call kind (fun _ => ()) (fun _ => ()) with
        | .direct _ => ["direct"]
        | .stream _ => ["stream"]
      | none => ["bad-op"]
  | "pipe.stage" :: nw :: ec :: sk :: pr :: yl :: rest =>
      -- pipe.stage nw ec skip p0 y0 | tail_0 outcomes_0… | tail_1 outcomes_1… | … | events…
      match nw.toNat?, ec.toNat?, pr.toNat?, yl.toNat? with
      | some nw, some ec, some pr, some yl =>
        let groups := splitBars' rest
        match groups.reverse with
        | evs :: srcGroups =>
          let srcs? := srcGroups.reverse.mapM fun g =>
            match g with
            | t :: outs => do
                let tail ← parseTail t
                let xs ← outs.mapM parseOutcome
                pure (xs, tail)
            | [] => none
          match srcs? with
          | some srcs => [acceptStage ⟨nw, ec, sk = "1"⟩ srcs pr yl evs]
          | none => ["bad-op"]
        | [] => ["bad-op"]
      | _, _, _, _ => ["bad-op"]
  | "pipe.sspec" :: sk :: rest =>
      match splitBars' rest with
      | [[t], outs] =>
        match parseTail t, outs.mapM parseSOutcome with
        | some tail, some xs => [",".intercalate ((sspec ⟨0, 0, sk = "1"⟩ id tail xs).map fmtObs)]
        | _, _ => ["bad-op"]
      | _ => ["bad-op"]
  | "pipe.serial" :: sk :: pr :: yl :: rest =>
      match pr.toNat?, yl.toNat?, splitBars' rest with
      | some pr, some yl, [[t], outs, demands] =>
        match parseTail t, outs.mapM parseSOutcome with
        | some tail, some xs => serialHistory ⟨0, 0, sk = "1"⟩ xs tail pr yl demands
        | _, _ => ["bad-op"]
      | _, _, _ => ["bad-op"]
  | _ => ["bad-op"]
where
  splitBars' (ws : List String) : List (List String) :=
    -- args start with "|" : drop the leading empty group
    match ws with
    | "|" :: rest =>
      let rec go (ws : List String) (cur : List String) (acc : List (List String)) : List (List String) :=
        match ws with
        | [] => (cur.reverse :: acc).reverse
        | w :: rest => if w = "|" then go rest [] (cur.reverse :: acc) else go rest (w :: cur) acc
      go rest [] []
    | _ => []

end Gpv.Drv
