/-
  C06, floating-point clause for the COVARIANCE merge — a machine-checked rounding-error bound
  for ONE ENTRY `(i, j)` of the pooled (Chan et al.) update of `Covariance._accumulate_other`
      dmean  = self.mean.value - other.mean.value ;  newn = self.n + other.n
      newvar = self._cov.sum + other._cov.sum + np.outer(dmean, dmean) * self.n * other.n / newn
      self._cov = Mean(value=newvar / newn, n=newn)                  (`.sum = _val * n`)
  (`Covariance.merge`, Gpv/Model/Accum.lean; its entry `(i, j)` is `Cov2.merge` of the entries,
  `Covariance.merge_entry`, Gpv/Proofs/ValHom.lean; the mean vector is merged componentwise by
  `Mean.merge`, whose float analysis is Gpv/Props/C06Float.lean).

  Model (Gpv/Proofs/FloatCovMerge.lean, on top of Gpv/Proofs/FloatMean.lean): each of the
  ELEVEN floating-point operations behind entry `(i, j)` — the two differences `dmean[i]`,
  `dmean[j]`, the two `.sum` products, the outer-product entry `dmean[i] * dmean[j]`, the
  products with `n` and with `m` and the division by `newn` (left to right), the two
  additions (left to right), the final division — returns its exact result times `1 + δ`,
  `|δ| ≤ u` (`u` unit roundoff, `2^-53` for binary64), δ's arbitrary and independent; the
  integer counts `n`, `m`, `newn` are exact; no overflow/underflow.
  `FlCovMerge u ai aj ca n bi bj cb m r` : `r` is a possible new `_cov.value[i, j]` when merging
  (means `ai`, `aj`, population covariance entry `ca`, count `n`) with (`bi`, `bj`, `cb`, `m`).

  Notation: `N = n + m`, `C = (n·ca + m·cb + (ai−bi)(aj−bj)·n·m/N) / N` the exact result (= the
  population covariance entry of the concatenation, C06 `cov_merge_eq`),
  `T = (n|ca| + m|cb| + |ai−bi||aj−bj|·n·m/N) / N ≥ |C|`, `γ_k = (1+u)^k − 1`.

  THE DIFFERENCE TO THE VARIANCE MERGE (C06FloatVar): the three terms of `C` have no sign, they
  can cancel, so there is NO bound relative to `|C|`; every bound is relative to `T`.

  Proved, for EVERY possible float result `r`:

  * `flCovMerge_def`, `exact_merge_possible`, `exact_is_the_float_merge` (at `u = 0` the only
    result is the `c.val` of the model's `Cov2.merge`, the two-component model = entry `(i, j)`),
    `exact_is_the_matrix_entry` (… is entry `i·d + j` of the `cov` component of the matrix
    model's `Covariance.merge`, via `Covariance.merge_entry`), `float_merge_mono`,
    `model_merge_value`, `exact_merged_runs_possible / _forced` (… of `Cov2.run (ps ++ qs)`),
    `float_merge_swap` (the float merge IS symmetric in `(i, j)`, unlike the float streaming
    update).
  * `cov_merge_float_expansion`   N·r = n·ca·πa + m·cb·πb + (ai−bi)(aj−bj)·(n·m/N)·πc with
        |πa − 1|, |πb − 1| ≤ γ₄, |πc − 1| ≤ γ₈.
  * `cov_merge_float_error`       |r − C| ≤ (γ₄·(n|ca| + m|cb|) + γ₈·|ai−bi||aj−bj|·n·m/N) / N
        — no sign, no smallness hypothesis.
  * `cov_merge_float_error_gam8 / _eighth / _64th`   ≤ γ₈·T;  ≤ 13·u·T (u ≤ 1/8);
        ≤ (17/2)·u·T (u ≤ 1/64);  `cov_merge_float_vs_model` the same against `Cov2.merge`.
  * `cov_merge_float_error_attained`  if ca, cb, (ai−bi)(aj−bj) ≥ 0, all δ = u give an error of
        EXACTLY the right-hand side of `cov_merge_float_error`: the constants are sharp.
  * `cov_merge_float_error_abs_necessary`  for ALL operands some float result has error exactly
        `u·T`: a bound proportional to `T` is necessary (sharp up to the factor 13);
    `no_relative_bound`  if `C = 0 < T` some float result is `> 0`.
  * the diagonal `i = j`: `var_merge_is_diag_cov_merge` (`FlVarMerge → FlCovMerge` on the
    diagonal), `diag_same_diff_iff` (`FlVarMerge` = diagonal `FlCovMerge` with `di = dj`, which
    is what Python computes: `dmean[i]` is one number), `diag_exact_iff` (equal at `u = 0`),
    `cov_merge_float_error_diag` (ca, cb ≥ 0:  |r − V| ≤ γ₈·V, the RELATIVE variance bound,
    also for independently rounded differences), `cov_merge_float_diag_nonneg`.
  * `cov_merge_float_compose`, `cov_merge_float_error_perturbed`  operands carrying errors
        |ai − ai₀| ≤ Eai, …, |ca − ca₀| ≤ Eca, |cb − cb₀| ≤ Ecb, against C₀:
        |r − C₀| ≤ (γ₄(n|ca₀| + m|cb₀|) + γ₈|Di||Dj|·n·m/N)/N + (1+u)⁴·(n·Eca + m·Ecb)/N
                   + (1+u)⁸·(|Di|(Eaj+Ebj) + |Dj|(Eai+Ebi) + (Eai+Ebi)(Eaj+Ebj))·n·m/N².
  * `cov_merge_float_error_bounded (_eighth, _64th, _sq)`  |ai|,|bi| ≤ Mi, |aj|,|bj| ≤ Mj,
        |ca|,|cb| ≤ Mi·Mj:   |r − C| ≤ (γ₄ + γ₈)·Mi·Mj  (≤ 18u·MiMj, ≤ 13u·MiMj, ≤ 13u·M²) —
        no Cauchy–Schwarz needed, independent of the counts; `exact_cov_abs_le` shows the
        hypothesis on `ca`, `cb` holds for exact population covariances of data in the box.
  * `merged_cov_streams_float_defect / _error / _vs_model`  two float STREAMING runs
        (`FlCovRun`, C05FloatCov) over `ps`, `qs` (|x| ≤ Mx, |y| ≤ My, 64·|ps|·u ≤ 1,
        64·|qs|·u ≤ 1), merged:   |N·r − Sxy| ≤ 13·N·u·MxMy + 74·N²·u·MxMy
    — compare `62·N²·u·MxMy` for one streaming run over all N pairs
    (`C05FloatCov.cov_float_defect_abs`).

  Not proved here: that on the diagonal the independently-rounded relation yields exactly the
  same SET of results as `FlVarMerge` (only `⊇` and the common bounds are proved); merge TREES
  of covariance accumulators (`cov_merge_float_compose` is what an induction would use); a
  Cauchy–Schwarz (`4u·√(Sxx·Syy)`-type) or centred form of the merged-streams bound; the
  read-out `.value = _cov·(n/(n−1))` after a merge (it is `C05FloatCov.value_error_of_defect`
  applied to `merged_cov_streams_float_defect`); the whole matrix at once (the statement is
  per entry; entries do not interact).  The matrix model is tied at `u = 0` only through
  `Covariance.merge_entry`, which needs `cov.n = mean.n` (true in every reachable state) and
  one operand with a genuine mean vector.
-/
import Gpv.Proofs.FloatCovMerge
import Gpv.Proofs.ValHom
import Gpv.Props.C05FloatCov
import Gpv.Props.C06FloatVar
set_option linter.unusedSectionVars false

namespace Gpv.C06FloatCov
open Gpv Gpv.C06
variable {K : Type} [Field K] [LinearOrder K] [IsStrictOrderedRing K]

/-! ### 1. the model -/

/-- the relation, unfolded: eleven operations, each rounded once
    (`Rnd u e r : r = e (1+δ), |δ| ≤ u`) -/
theorem flCovMerge_def (u ai aj ca : K) (n : ℕ) (bi bj cb : K) (m : ℕ) (r : K) :
    FlCovMerge u ai aj ca n bi bj cb m r ↔ ∃ di dj sa sb q q1 q2 q3 s1 s2 : K,
      Rnd u (ai - bi) di ∧ Rnd u (aj - bj) dj
        ∧ Rnd u (ca * (n : K)) sa ∧ Rnd u (cb * (m : K)) sb
        ∧ Rnd u (di * dj) q ∧ Rnd u (q * (n : K)) q1 ∧ Rnd u (q1 * (m : K)) q2
        ∧ Rnd u (q2 / ((n + m : ℕ) : K)) q3
        ∧ Rnd u (sa + sb) s1 ∧ Rnd u (s1 + q3) s2 ∧ Rnd u (s2 / ((n + m : ℕ) : K)) r := Iff.rfl

/-- the `c.val` of the model's exact `Cov2.merge` (entry `(i, j)` of `Covariance.merge`) is a
    possible float result, for every `u ≥ 0` -/
theorem exact_merge_possible {u : K} (hu : 0 ≤ u) (ai aj ca bi bj cb : K) {n m : ℕ}
    (hnm : n + m ≠ 0) :
    FlCovMerge u ai aj ca n bi bj cb m
      ((⟨⟨ai, n⟩, ⟨aj, n⟩, ⟨ca, n⟩⟩ : Cov2 K).merge ⟨⟨bi, m⟩, ⟨bj, m⟩, ⟨cb, m⟩⟩).c.val := by
  rw [(Cov2.merge_c_val ai aj ca bi bj cb hnm).1]
  exact FlCovMerge.of_exact hu ai aj ca n bi bj cb m

/-- with `u = 0` the only possible float result is the model's `Cov2.merge` — the function
    C06 (`cov_merge_eq`) proves equal to accumulating the concatenation -/
theorem exact_is_the_float_merge (ai aj ca bi bj cb r : K) {n m : ℕ} (hnm : n + m ≠ 0) :
    FlCovMerge 0 ai aj ca n bi bj cb m r
      ↔ r = ((⟨⟨ai, n⟩, ⟨aj, n⟩, ⟨ca, n⟩⟩ : Cov2 K).merge ⟨⟨bi, m⟩, ⟨bj, m⟩, ⟨cb, m⟩⟩).c.val := by
  rw [(Cov2.merge_c_val ai aj ca bi bj cb hnm).1]
  exact flCovMerge_zero_iff ai aj ca n bi bj cb m r

/-- a larger unit roundoff allows more results -/
theorem float_merge_mono {u u' : K} (h : u ≤ u') {ai aj ca bi bj cb r : K} {n m : ℕ}
    (hm : FlCovMerge u ai aj ca n bi bj cb m r) : FlCovMerge u' ai aj ca n bi bj cb m r :=
  hm.mono h

/-- the value the model returns, in closed form -/
theorem model_merge_value (ai aj ca bi bj cb : K) {n m : ℕ} (hnm : n + m ≠ 0) :
    ((⟨⟨ai, n⟩, ⟨aj, n⟩, ⟨ca, n⟩⟩ : Cov2 K).merge ⟨⟨bi, m⟩, ⟨bj, m⟩, ⟨cb, m⟩⟩).c.val
      = ((n : K) * ca + (m : K) * cb
          + (ai - bi) * (aj - bj) * (n : K) * (m : K) / ((n + m : ℕ) : K))
          / ((n + m : ℕ) : K) := by
  rw [(Cov2.merge_c_val ai aj ca bi bj cb hnm).1, covMergeVal_eq]

/-- **the matrix model.**  For the full `d × d` matrix accumulator `Covariance K` of
    Gpv/Model/Accum.lean (mean vector, flattened matrix, `np.outer`): at `u = 0` the only
    possible float result for entry `(i, j)` is entry `(i, j)` (flat index `i·d + j`) of the
    `cov` component of the model's `Covariance.merge`.  (`cov.n = mean.n` holds in every
    state reached by pushes and merges; at least one operand has a genuine mean vector.) -/
theorem exact_is_the_matrix_entry [Inhabited K] {d i j : ℕ} (hi : i < d) (hj : j < d)
    {s o : Covariance K} (hs : s.Shaped d) (ho : o.Shaped d)
    (harr : s.mean.val.IsArr d ∨ o.mean.val.IsArr d)
    (hsn : s.cov.n = s.n) (hon : o.cov.n = o.n) (hnm : s.n + o.n ≠ 0) (r : K) :
    FlCovMerge 0 (s.mean.val.proj i) (s.mean.val.proj j) (s.cov.val.proj (i * d + j)) s.n
        (o.mean.val.proj i) (o.mean.val.proj j) (o.cov.val.proj (i * d + j)) o.n r
      ↔ r = (s.merge o).cov.val.proj (i * d + j) := by
  have e := Covariance.merge_entry d hi hj hs ho (Or.inl harr)
  have e1 : (s.merge o).cov.val.proj (i * d + j) = ((s.merge o).entry d i j).c.val := rfl
  have es : s.entry d i j
      = ⟨⟨s.mean.val.proj i, s.n⟩, ⟨s.mean.val.proj j, s.n⟩, ⟨s.cov.val.proj (i * d + j), s.n⟩⟩ := by
    simp only [Covariance.entry, Mean.proj, hsn, Covariance.n]
  have eo : o.entry d i j
      = ⟨⟨o.mean.val.proj i, o.n⟩, ⟨o.mean.val.proj j, o.n⟩, ⟨o.cov.val.proj (i * d + j), o.n⟩⟩ := by
    simp only [Covariance.entry, Mean.proj, hon, Covariance.n]
  rw [e1, e, es, eo]
  exact exact_is_the_float_merge _ _ _ _ _ _ r hnm

/-- merging the exact streaming states of `ps` and `qs`: the exact covariance state of
    `ps ++ qs` is a possible float result (and at `u = 0` the only one) -/
theorem exact_merged_runs_possible {u : K} (hu : 0 ≤ u) (ps qs : List (K × K)) :
    FlCovMerge u (Cov2.run ps).mx.val (Cov2.run ps).my.val (Cov2.run ps).c.val ps.length
      (Cov2.run qs).mx.val (Cov2.run qs).my.val (Cov2.run qs).c.val qs.length
      (Cov2.run (ps ++ qs)).c.val := by
  rw [← covMergeVal_run]; exact FlCovMerge.of_exact hu _ _ _ _ _ _ _ _

/-- at `u = 0` a float merge of the exact streaming states of `ps`, `qs` can only return
    the `c.val` of the model's `(Cov2.run ps).merge (Cov2.run qs)` -/
theorem exact_merged_runs_forced (ps qs : List (K × K)) (r : K) :
    FlCovMerge 0 (Cov2.run ps).mx.val (Cov2.run ps).my.val (Cov2.run ps).c.val ps.length
      (Cov2.run qs).mx.val (Cov2.run qs).my.val (Cov2.run qs).c.val qs.length r
      ↔ r = ((Cov2.run ps).merge (Cov2.run qs)).c.val := by
  rw [cov_merge_eq, ← covMergeVal_run]; exact flCovMerge_zero_iff _ _ _ _ _ _ _ _ _

/-- entry `(j, i)` of the float merged matrix can take exactly the values entry `(i, j)`
    can (given symmetric operand entries): the float merge, unlike the float streaming
    update (`C05FloatCov.cov_float_swap`), is symmetric -/
theorem float_merge_swap (u ai aj ca : K) (n : ℕ) (bi bj cb : K) (m : ℕ) (r : K) :
    FlCovMerge u aj ai ca n bj bi cb m r ↔ FlCovMerge u ai aj ca n bi bj cb m r :=
  ⟨FlCovMerge.swap, FlCovMerge.swap⟩

/-! ### 2. one merge, exact operands -/

/-- **the expansion**: every term of `N·C` carries its own product of roundings — four for
    the `.sum` terms, eight for the `dmean` term -/
theorem cov_merge_float_expansion {u ai aj ca bi bj cb r : K} {n m : ℕ}
    (h : FlCovMerge u ai aj ca n bi bj cb m r) :
    ∃ πa πb πc : K, |πa - 1| ≤ (1 + u) ^ 4 - 1 ∧ |πb - 1| ≤ (1 + u) ^ 4 - 1
      ∧ |πc - 1| ≤ (1 + u) ^ 8 - 1
      ∧ ((n + m : ℕ) : K) * r
          = (n : K) * ca * πa + (m : K) * cb * πb
            + (ai - bi) * (aj - bj) * ((n : K) * (m : K) / ((n + m : ℕ) : K)) * πc := by
  obtain ⟨πa, πb, πc, h1, h2, h3, _, h5⟩ := h.expand
  exact ⟨πa, πb, πc, h1, h2, h3, h5⟩

/-- **one merge** — no sign and no smallness hypothesis:
    `|r − C| ≤ (γ₄·(n|ca| + m|cb|) + γ₈·|ai−bi|·|aj−bj|·n·m/N) / N` -/
theorem cov_merge_float_error {u ai aj ca bi bj cb r : K} {n m : ℕ} (hnm : n + m ≠ 0)
    (h : FlCovMerge u ai aj ca n bi bj cb m r) :
    |r - ((n : K) * ca + (m : K) * cb
            + (ai - bi) * (aj - bj) * (n : K) * (m : K) / ((n + m : ℕ) : K))
          / ((n + m : ℕ) : K)|
      ≤ (((1 + u) ^ 4 - 1) * ((n : K) * |ca| + (m : K) * |cb|)
          + ((1 + u) ^ 8 - 1) * (|ai - bi| * |aj - bj| * (n : K) * (m : K) / ((n + m : ℕ) : K)))
        / ((n + m : ℕ) : K) := by
  have hN : (0 : K) < ((n + m : ℕ) : K) := Nat.cast_pos.mpr (by omega)
  have hd := abs_sub_div_le_of_defect hN h.defect
  have e1 : (n : K) * ca + (m : K) * cb
        + (ai - bi) * (aj - bj) * (n : K) * (m : K) / ((n + m : ℕ) : K)
      = (n : K) * ca + (m : K) * cb
        + (ai - bi) * (aj - bj) * ((n : K) * (m : K) / ((n + m : ℕ) : K)) := by ring
  have e2 : |ai - bi| * |aj - bj| * (n : K) * (m : K) / ((n + m : ℕ) : K)
      = |ai - bi| * |aj - bj| * ((n : K) * (m : K) / ((n + m : ℕ) : K)) := by ring
  rw [e1, e2]; exact hd

/-- the sum of absolute values the bounds are proportional to:
    `T = (n|ca| + m|cb| + |ai−bi|·|aj−bj|·n·m/N) / N` -/
def absSum (ai aj ca : K) (n : ℕ) (bi bj cb : K) (m : ℕ) : K :=
  ((n : K) * |ca| + (m : K) * |cb|
      + |ai - bi| * |aj - bj| * (n : K) * (m : K) / ((n + m : ℕ) : K)) / ((n + m : ℕ) : K)

theorem absSum_nonneg (ai aj ca : K) (n : ℕ) (bi bj cb : K) (m : ℕ) :
    0 ≤ absSum ai aj ca n bi bj cb m := by
  unfold absSum
  positivity

/-- the exact entry is bounded by `T` -/
theorem exact_abs_le_absSum (ai aj ca : K) (n : ℕ) (bi bj cb : K) (m : ℕ) :
    |((n : K) * ca + (m : K) * cb
        + (ai - bi) * (aj - bj) * (n : K) * (m : K) / ((n + m : ℕ) : K)) / ((n + m : ℕ) : K)|
      ≤ absSum ai aj ca n bi bj cb m := by
  unfold absSum
  have hN : (0 : K) ≤ ((n + m : ℕ) : K) := Nat.cast_nonneg _
  have hn0 : (0 : K) ≤ (n : K) := Nat.cast_nonneg n
  have hm0 : (0 : K) ≤ (m : K) := Nat.cast_nonneg m
  rw [abs_div, abs_of_nonneg hN]
  apply div_le_div_of_nonneg_right _ hN
  refine (abs_add_le _ _).trans (add_le_add ((abs_add_le _ _).trans (add_le_add ?_ ?_)) ?_)
  · rw [abs_mul, abs_of_nonneg hn0]
  · rw [abs_mul, abs_of_nonneg hm0]
  · rw [abs_div, abs_mul, abs_mul, abs_mul, abs_of_nonneg hN, abs_of_nonneg hn0, abs_of_nonneg hm0]

/-- one constant for all three terms: `|r − C| ≤ ((1+u)⁸ − 1)·T` -/
theorem cov_merge_float_error_gam8 {u ai aj ca bi bj cb r : K} {n m : ℕ} (hnm : n + m ≠ 0)
    (h : FlCovMerge u ai aj ca n bi bj cb m r) :
    |r - ((n : K) * ca + (m : K) * cb
            + (ai - bi) * (aj - bj) * (n : K) * (m : K) / ((n + m : ℕ) : K))
          / ((n + m : ℕ) : K)|
      ≤ ((1 + u) ^ 8 - 1) * absSum ai aj ca n bi bj cb m := by
  have hu := h.u_nonneg
  have hN : (0 : K) < ((n + m : ℕ) : K) := Nat.cast_pos.mpr (by omega)
  have hn0 : (0 : K) ≤ (n : K) := Nat.cast_nonneg n
  have hm0 : (0 : K) ≤ (m : K) := Nat.cast_nonneg m
  refine (cov_merge_float_error hnm h).trans ?_
  unfold absSum
  have e : ((1 + u) ^ 8 - 1) * (((n : K) * |ca| + (m : K) * |cb|
        + |ai - bi| * |aj - bj| * (n : K) * (m : K) / ((n + m : ℕ) : K)) / ((n + m : ℕ) : K))
      = (((1 + u) ^ 8 - 1) * ((n : K) * |ca| + (m : K) * |cb|
        + |ai - bi| * |aj - bj| * (n : K) * (m : K) / ((n + m : ℕ) : K))) / ((n + m : ℕ) : K) := by
    ring
  rw [e]
  apply div_le_div_of_nonneg_right _ hN.le
  have h48 := gam_mono hu (show 4 ≤ 8 by norm_num)
  have hX : 0 ≤ (n : K) * |ca| + (m : K) * |cb| := by positivity
  have hmono := mul_le_mul_of_nonneg_right h48 hX
  rw [mul_add ((1 + u) ^ 8 - 1)]
  linarith

/-- linearised: `≤ 13·u·T` for `u ≤ 1/8` -/
theorem cov_merge_float_error_eighth {u ai aj ca bi bj cb r : K} {n m : ℕ} (hu8 : u ≤ 1 / 8)
    (hnm : n + m ≠ 0) (h : FlCovMerge u ai aj ca n bi bj cb m r) :
    |r - ((n : K) * ca + (m : K) * cb
            + (ai - bi) * (aj - bj) * (n : K) * (m : K) / ((n + m : ℕ) : K))
          / ((n + m : ℕ) : K)|
      ≤ 13 * u * (((n : K) * |ca| + (m : K) * |cb|
          + |ai - bi| * |aj - bj| * (n : K) * (m : K) / ((n + m : ℕ) : K)) / ((n + m : ℕ) : K)) :=
  (cov_merge_float_error_gam8 hnm h).trans
    (mul_le_mul_of_nonneg_right (gam8_le_eighth h.u_nonneg hu8) (absSum_nonneg _ _ _ _ _ _ _ _))

/-- linearised: `≤ (17/2)·u·T` for `u ≤ 1/64` (binary64: `u = 2^-53`) -/
theorem cov_merge_float_error_64th {u ai aj ca bi bj cb r : K} {n m : ℕ} (hu64 : u ≤ 1 / 64)
    (hnm : n + m ≠ 0) (h : FlCovMerge u ai aj ca n bi bj cb m r) :
    |r - ((n : K) * ca + (m : K) * cb
            + (ai - bi) * (aj - bj) * (n : K) * (m : K) / ((n + m : ℕ) : K))
          / ((n + m : ℕ) : K)|
      ≤ 17 / 2 * u * (((n : K) * |ca| + (m : K) * |cb|
          + |ai - bi| * |aj - bj| * (n : K) * (m : K) / ((n + m : ℕ) : K)) / ((n + m : ℕ) : K)) :=
  (cov_merge_float_error_gam8 hnm h).trans
    (mul_le_mul_of_nonneg_right (gam8_le_64th h.u_nonneg hu64) (absSum_nonneg _ _ _ _ _ _ _ _))

/-- the same against the value the model's `Cov2.merge` returns -/
theorem cov_merge_float_vs_model {u ai aj ca bi bj cb r : K} {n m : ℕ} (hu8 : u ≤ 1 / 8)
    (hnm : n + m ≠ 0) (h : FlCovMerge u ai aj ca n bi bj cb m r) :
    |r - ((⟨⟨ai, n⟩, ⟨aj, n⟩, ⟨ca, n⟩⟩ : Cov2 K).merge ⟨⟨bi, m⟩, ⟨bj, m⟩, ⟨cb, m⟩⟩).c.val|
      ≤ 13 * u * absSum ai aj ca n bi bj cb m := by
  rw [model_merge_value ai aj ca bi bj cb hnm]
  exact cov_merge_float_error_eighth hu8 hnm h

/-! ### 3. the diagonal `i = j`

  Python computes the vector `dmean` once, so entry `(i, i)` multiplies the SAME rounded
  number `dmean[i]` with itself: the diagonal of the float merged matrix is a float
  VARIANCE merge (`FlVarMerge`, C06FloatVar), which is `FlCovMerge` on the diagonal with the
  extra constraint `di = dj` (`diag_same_diff_iff`).  The relation `FlCovMerge u a a va n b b
  vb m` rounds the two (equal) differences independently and is therefore a superset
  (`var_merge_is_diag_cov_merge`); the converse inclusion of WITNESSES is false (a witness
  with `di ≠ dj` is no variance witness) and equality of the two result sets is not proved.
  What does hold for the superset: the same relative bound, non-negativity, magnitude. -/

/-- every float variance merge is a diagonal float covariance-entry merge -/
theorem var_merge_is_diag_cov_merge {u a va b vb r : K} {n m : ℕ}
    (h : FlVarMerge u a va n b vb m r) : FlCovMerge u a a va n b b vb m r := h.to_cov

/-- `FlVarMerge` is exactly the diagonal `FlCovMerge` whose two rounded differences are the
    same number -/
theorem diag_same_diff_iff (u a va : K) (n : ℕ) (b vb : K) (m : ℕ) (r : K) :
    FlVarMerge u a va n b vb m r ↔ ∃ d sa sb q q1 q2 q3 s1 s2 : K,
      Rnd u (a - b) d ∧ Rnd u (a - b) d
        ∧ Rnd u (va * (n : K)) sa ∧ Rnd u (vb * (m : K)) sb
        ∧ Rnd u (d * d) q ∧ Rnd u (q * (n : K)) q1 ∧ Rnd u (q1 * (m : K)) q2
        ∧ Rnd u (q2 / ((n + m : ℕ) : K)) q3
        ∧ Rnd u (sa + sb) s1 ∧ Rnd u (s1 + q3) s2 ∧ Rnd u (s2 / ((n + m : ℕ) : K)) r :=
  flVarMerge_iff_cov_same_diff u a va n b vb m r

/-- at `u = 0` the two relations coincide on the diagonal -/
theorem diag_exact_iff (a va : K) (n : ℕ) (b vb : K) (m : ℕ) (r : K) :
    FlCovMerge 0 a a va n b b vb m r ↔ FlVarMerge 0 a va n b vb m r := by
  rw [flCovMerge_zero_iff, flVarMerge_zero_iff, covMergeVal_diag]

/-- **the diagonal.**  With `ai = aj = a`, `bi = bj = b` and non-negative operand entries the
    split bound specialises to the RELATIVE bound of the variance merge
    (`C06FloatVar.var_merge_float_error`), same constant `(1+u)⁸ − 1` — although the two
    differences are rounded independently -/
theorem cov_merge_float_error_diag {u a va b vb r : K} {n m : ℕ} (hva : 0 ≤ va) (hvb : 0 ≤ vb)
    (hnm : n + m ≠ 0) (h : FlCovMerge u a a va n b b vb m r) :
    |r - ((n : K) * va + (m : K) * vb + (a - b) ^ 2 * (n : K) * (m : K) / ((n + m : ℕ) : K))
          / ((n + m : ℕ) : K)|
      ≤ ((1 + u) ^ 8 - 1)
        * (((n : K) * va + (m : K) * vb + (a - b) ^ 2 * (n : K) * (m : K) / ((n + m : ℕ) : K))
            / ((n + m : ℕ) : K)) := by
  have hN : (0 : K) < ((n + m : ℕ) : K) := Nat.cast_pos.mpr (by omega)
  have hd := abs_sub_div_le_of_defect hN (h.diag_defect hva hvb)
  have e1 : (n : K) * va + (m : K) * vb + (a - b) ^ 2 * (n : K) * (m : K) / ((n + m : ℕ) : K)
      = (n : K) * va + (m : K) * vb
        + (a - b) ^ 2 * ((n : K) * (m : K) / ((n + m : ℕ) : K)) := by ring
  rw [e1]
  refine hd.trans (le_of_eq ?_)
  ring

/-- on the diagonal the float entry is never negative (non-negative operands, `u ≤ 1`) -/
theorem cov_merge_float_diag_nonneg {u a va b vb r : K} {n m : ℕ} (hu1 : u ≤ 1) (hva : 0 ≤ va)
    (hvb : 0 ≤ vb) (hnm : n + m ≠ 0) (h : FlCovMerge u a a va n b b vb m r) : 0 ≤ r :=
  h.diag_nonneg hnm hu1 hva hvb

/-! ### 4. operands that carry errors -/

/-- **composition, division-free.**  `n·ca ≈ Sa` within `Ba`, `m·cb ≈ Sb` within `Bb`,
    `ai − bi ≈ Di` within `Ei`, `aj − bj ≈ Dj` within `Ej` -/
theorem cov_merge_float_compose {u ai aj ca bi bj cb r Sa Sb Di Dj Ba Bb Ei Ej : K} {n m : ℕ}
    (h : FlCovMerge u ai aj ca n bi bj cb m r)
    (h1 : |(n : K) * ca - Sa| ≤ Ba) (h2 : |(m : K) * cb - Sb| ≤ Bb)
    (h3 : |(ai - bi) - Di| ≤ Ei) (h4 : |(aj - bj) - Dj| ≤ Ej) :
    |((n + m : ℕ) : K) * r - (Sa + Sb + Di * Dj * ((n : K) * (m : K) / ((n + m : ℕ) : K)))|
      ≤ ((1 + u) ^ 4 - 1) * (|Sa| + |Sb|)
        + ((1 + u) ^ 8 - 1) * (|Di| * |Dj| * ((n : K) * (m : K) / ((n + m : ℕ) : K)))
        + (1 + u) ^ 4 * (Ba + Bb)
        + (1 + u) ^ 8 * ((|Di| * Ej + |Dj| * Ei + Ei * Ej)
            * ((n : K) * (m : K) / ((n + m : ℕ) : K))) :=
  h.compose h1 h2 h3 h4

/-- **perturbed operands.**  The float merge is applied to `ai, aj, ca, bi, bj, cb` which
    approximate `ai₀, …, cb₀`; against the exact merged entry `C₀` of the latter: the split
    bound of the merge itself (in the exact operands), plus the operand errors amplified by at
    most `(1+u)⁴` (entries, weights `n/N`, `m/N`) and `(1+u)⁸` (means, weight `n·m/N² ≤ 1/4`) -/
theorem cov_merge_float_error_perturbed
    {u ai ai0 aj aj0 ca ca0 bi bi0 bj bj0 cb cb0 r Eai Eaj Ebi Ebj Eca Ecb : K} {n m : ℕ}
    (hnm : n + m ≠ 0)
    (hai : |ai - ai0| ≤ Eai) (haj : |aj - aj0| ≤ Eaj) (hbi : |bi - bi0| ≤ Ebi)
    (hbj : |bj - bj0| ≤ Ebj) (hca : |ca - ca0| ≤ Eca) (hcb : |cb - cb0| ≤ Ecb)
    (h : FlCovMerge u ai aj ca n bi bj cb m r) :
    |r - ((n : K) * ca0 + (m : K) * cb0
            + (ai0 - bi0) * (aj0 - bj0) * (n : K) * (m : K) / ((n + m : ℕ) : K))
          / ((n + m : ℕ) : K)|
      ≤ (((1 + u) ^ 4 - 1) * ((n : K) * |ca0| + (m : K) * |cb0|)
          + ((1 + u) ^ 8 - 1)
            * (|ai0 - bi0| * |aj0 - bj0| * (n : K) * (m : K) / ((n + m : ℕ) : K)))
          / ((n + m : ℕ) : K)
        + (1 + u) ^ 4 * (((n : K) * Eca + (m : K) * Ecb) / ((n + m : ℕ) : K))
        + (1 + u) ^ 8 * ((|ai0 - bi0| * (Eaj + Ebj) + |aj0 - bj0| * (Eai + Ebi)
              + (Eai + Ebi) * (Eaj + Ebj))
            * ((n : K) * (m : K) / ((n + m : ℕ) : K) / ((n + m : ℕ) : K))) := by
  have hN : (0 : K) < ((n + m : ℕ) : K) := Nat.cast_pos.mpr (by omega)
  have hn0 : (0 : K) ≤ (n : K) := Nat.cast_nonneg n
  have hm0 : (0 : K) ≤ (m : K) := Nat.cast_nonneg m
  have h1 : |(n : K) * ca - (n : K) * ca0| ≤ (n : K) * Eca := by
    rw [← mul_sub, abs_mul, abs_of_nonneg hn0]; exact mul_le_mul_of_nonneg_left hca hn0
  have h2 : |(m : K) * cb - (m : K) * cb0| ≤ (m : K) * Ecb := by
    rw [← mul_sub, abs_mul, abs_of_nonneg hm0]; exact mul_le_mul_of_nonneg_left hcb hm0
  have h3 : |(ai - bi) - (ai0 - bi0)| ≤ Eai + Ebi := by
    have e : (ai - bi) - (ai0 - bi0) = (ai - ai0) - (bi - bi0) := by ring
    rw [e]; exact (abs_sub _ _).trans (add_le_add hai hbi)
  have h4 : |(aj - bj) - (aj0 - bj0)| ≤ Eaj + Ebj := by
    have e : (aj - bj) - (aj0 - bj0) = (aj - aj0) - (bj - bj0) := by ring
    rw [e]; exact (abs_sub _ _).trans (add_le_add haj hbj)
  have hc := h.compose h1 h2 h3 h4
  rw [abs_mul (n : K) ca0, abs_mul (m : K) cb0, abs_of_nonneg hn0, abs_of_nonneg hm0] at hc
  have hd := abs_sub_div_le_of_defect hN hc
  have e1 : ((n : K) * ca0 + (m : K) * cb0
        + (ai0 - bi0) * (aj0 - bj0) * (n : K) * (m : K) / ((n + m : ℕ) : K)) / ((n + m : ℕ) : K)
      = ((n : K) * ca0 + (m : K) * cb0
        + (ai0 - bi0) * (aj0 - bj0) * ((n : K) * (m : K) / ((n + m : ℕ) : K)))
          / ((n + m : ℕ) : K) := by ring
  rw [e1]
  refine hd.trans (le_of_eq ?_)
  ring

/-! ### 5. magnitudes: data with `|x_i| ≤ Mi`, `|x_j| ≤ Mj`

  Then every mean is bounded by `Mi` resp. `Mj` and every exact population covariance entry
  by `Mi·Mj` (`exact_cov_abs_le`); these are the hypotheses. -/

/-- `|Sxy| ≤ G` whenever `Sxx·Syy ≤ G²` (Cauchy–Schwarz without square roots) -/
theorem sumProdDev_abs_le_cs {G : K} (hG : 0 ≤ G) (ps : List (K × K))
    (hcs : sumSqDev (ps.map Prod.fst) * sumSqDev (ps.map Prod.snd) ≤ G ^ 2) :
    |sumProdDev ps| ≤ G := by
  have := C05FloatCov.of_forall_weight (a := |sumProdDev ps|) (b := 0) (w := 1 / 2)
    (by norm_num) (C05FloatVar.sumSqDev_nonneg _) (C05FloatVar.sumSqDev_nonneg _) hG hcs
    (fun t ht => by
      have := C05FloatCov.sumProdDev_abs_le ht ps
      linarith)
  linarith

/-- the exact population covariance `c.val` of data in the box `|x| ≤ Mx`, `|y| ≤ My` is at
    most `Mx·My` in absolute value: the hypothesis `|ca|, |cb| ≤ Mi·Mj` of
    `cov_merge_float_error_bounded` holds for exact operands -/
theorem exact_cov_abs_le {Mx My : K} (hMx : 0 ≤ Mx) (hMy : 0 ≤ My) (ps : List (K × K))
    (hx : ∀ p ∈ ps, |p.1| ≤ Mx) (hy : ∀ p ∈ ps, |p.2| ≤ My) :
    |(Cov2.run ps).c.val| ≤ Mx * My := by
  rcases Nat.eq_zero_or_pos ps.length with h0 | hpos
  · have : ps = [] := List.length_eq_zero_iff.mp h0
    subst this
    simp only [Cov2.run_nil, Cov2.init, Mean.init, Nat.cast_zero, abs_zero]
    positivity
  · have hn : (0 : K) < (ps.length : K) := Nat.cast_pos.mpr hpos
    have sx := C05FloatCov.sumSqDev_le (ps.map Prod.fst) Mx (mem_map_fst_le hx)
    have sy := C05FloatCov.sumSqDev_le (ps.map Prod.snd) My (mem_map_snd_le hy)
    rw [List.length_map] at sx sy
    have hcs : sumSqDev (ps.map Prod.fst) * sumSqDev (ps.map Prod.snd)
        ≤ ((ps.length : K) * (Mx * My)) ^ 2 := by
      calc sumSqDev (ps.map Prod.fst) * sumSqDev (ps.map Prod.snd)
          ≤ ((ps.length : K) * Mx ^ 2) * ((ps.length : K) * My ^ 2) :=
            mul_le_mul sx sy (C05FloatVar.sumSqDev_nonneg _) (by positivity)
        _ = ((ps.length : K) * (Mx * My)) ^ 2 := by ring
    have hS := sumProdDev_abs_le_cs (G := (ps.length : K) * (Mx * My)) (by positivity) ps hcs
    rw [← C05FloatCov.exact_C_eq, abs_mul, abs_of_pos hn] at hS
    exact le_of_mul_le_mul_left hS hn

/-- **bounded data.**  Means bounded by `Mi`, `Mj`, operand entries by `Mi·Mj`: the
    differences are at most `2Mi`, `2Mj`, the weight `n·m/N²` at most `1/4`, so
    `|r − C| ≤ (γ₄ + γ₈)·Mi·Mj` — independent of the counts -/
theorem cov_merge_float_error_bounded {u Mi Mj ai aj ca bi bj cb r : K} {n m : ℕ}
    (hnm : n + m ≠ 0) (hai : |ai| ≤ Mi) (hbi : |bi| ≤ Mi) (haj : |aj| ≤ Mj) (hbj : |bj| ≤ Mj)
    (hca : |ca| ≤ Mi * Mj) (hcb : |cb| ≤ Mi * Mj)
    (h : FlCovMerge u ai aj ca n bi bj cb m r) :
    |r - ((n : K) * ca + (m : K) * cb
            + (ai - bi) * (aj - bj) * (n : K) * (m : K) / ((n + m : ℕ) : K))
          / ((n + m : ℕ) : K)|
      ≤ (((1 + u) ^ 4 - 1) + ((1 + u) ^ 8 - 1)) * (Mi * Mj) := by
  have hu := h.u_nonneg
  have hN : (0 : K) < ((n + m : ℕ) : K) := Nat.cast_pos.mpr (by omega)
  have hn0 : (0 : K) ≤ (n : K) := Nat.cast_nonneg n
  have hm0 : (0 : K) ≤ (m : K) := Nat.cast_nonneg m
  have hMi : 0 ≤ Mi := (abs_nonneg _).trans hai
  have hMj : 0 ≤ Mj := (abs_nonneg _).trans haj
  have hg4 := gam_nonneg hu 4
  have hg8 := gam_nonneg hu 8
  refine (cov_merge_float_error hnm h).trans ?_
  rw [div_le_iff₀ hN]
  have hcast : ((n + m : ℕ) : K) = (n : K) + (m : K) := by push_cast; rfl
  have hA : (n : K) * |ca| + (m : K) * |cb| ≤ ((n + m : ℕ) : K) * (Mi * Mj) := by
    rw [hcast]
    have := mul_le_mul_of_nonneg_left hca hn0
    have := mul_le_mul_of_nonneg_left hcb hm0
    linarith
  have hdi : |ai - bi| ≤ 2 * Mi := (abs_sub _ _).trans (by linarith)
  have hdj : |aj - bj| ≤ 2 * Mj := (abs_sub _ _).trans (by linarith)
  have hdd : |ai - bi| * |aj - bj| ≤ 4 * (Mi * Mj) := by
    calc |ai - bi| * |aj - bj| ≤ (2 * Mi) * (2 * Mj) :=
          mul_le_mul hdi hdj (abs_nonneg _) (by positivity)
      _ = 4 * (Mi * Mj) := by ring
  have hB : |ai - bi| * |aj - bj| * (n : K) * (m : K) / ((n + m : ℕ) : K)
      ≤ ((n + m : ℕ) : K) * (Mi * Mj) := by
    rw [div_le_iff₀ hN, hcast]
    have h4 := four_mul_le_sq_add (n : K) (m : K)
    have hnm0 : 0 ≤ (n : K) * (m : K) := mul_nonneg hn0 hm0
    have hP : 0 ≤ Mi * Mj := mul_nonneg hMi hMj
    calc |ai - bi| * |aj - bj| * (n : K) * (m : K)
        = (|ai - bi| * |aj - bj|) * ((n : K) * (m : K)) := by ring
      _ ≤ 4 * (Mi * Mj) * ((n : K) * (m : K)) := mul_le_mul_of_nonneg_right hdd hnm0
      _ = (Mi * Mj) * (4 * ((n : K) * (m : K))) := by ring
      _ ≤ (Mi * Mj) * (((n : K) + (m : K)) ^ 2) := mul_le_mul_of_nonneg_left h4 hP
      _ = ((n : K) + (m : K)) * (Mi * Mj) * ((n : K) + (m : K)) := by ring
  have t1 := mul_le_mul_of_nonneg_left hA hg4
  have t2 := mul_le_mul_of_nonneg_left hB hg8
  calc _ ≤ ((1 + u) ^ 4 - 1) * (((n + m : ℕ) : K) * (Mi * Mj))
        + ((1 + u) ^ 8 - 1) * (((n + m : ℕ) : K) * (Mi * Mj)) := add_le_add t1 t2
    _ = _ := by ring

/-- `≤ 18·u·Mi·Mj` for `u ≤ 1/8` -/
theorem cov_merge_float_error_bounded_eighth {u Mi Mj ai aj ca bi bj cb r : K} {n m : ℕ}
    (hu8 : u ≤ 1 / 8)
    (hnm : n + m ≠ 0) (hai : |ai| ≤ Mi) (hbi : |bi| ≤ Mi) (haj : |aj| ≤ Mj) (hbj : |bj| ≤ Mj)
    (hca : |ca| ≤ Mi * Mj) (hcb : |cb| ≤ Mi * Mj)
    (h : FlCovMerge u ai aj ca n bi bj cb m r) :
    |r - ((n : K) * ca + (m : K) * cb
            + (ai - bi) * (aj - bj) * (n : K) * (m : K) / ((n + m : ℕ) : K))
          / ((n + m : ℕ) : K)|
      ≤ 18 * u * (Mi * Mj) := by
  have hu := h.u_nonneg
  have hP : 0 ≤ Mi * Mj := mul_nonneg ((abs_nonneg _).trans hai) ((abs_nonneg _).trans haj)
  refine (cov_merge_float_error_bounded hnm hai hbi haj hbj hca hcb h).trans ?_
  apply mul_le_mul_of_nonneg_right _ hP
  have := gam4_le_eighth hu hu8
  have := gam8_le_eighth hu hu8
  linarith

/-- `≤ 13·u·Mi·Mj` for `u ≤ 1/64` (binary64) -/
theorem cov_merge_float_error_bounded_64th {u Mi Mj ai aj ca bi bj cb r : K} {n m : ℕ}
    (hu64 : u ≤ 1 / 64)
    (hnm : n + m ≠ 0) (hai : |ai| ≤ Mi) (hbi : |bi| ≤ Mi) (haj : |aj| ≤ Mj) (hbj : |bj| ≤ Mj)
    (hca : |ca| ≤ Mi * Mj) (hcb : |cb| ≤ Mi * Mj)
    (h : FlCovMerge u ai aj ca n bi bj cb m r) :
    |r - ((n : K) * ca + (m : K) * cb
            + (ai - bi) * (aj - bj) * (n : K) * (m : K) / ((n + m : ℕ) : K))
          / ((n + m : ℕ) : K)|
      ≤ 13 * u * (Mi * Mj) := by
  have hu := h.u_nonneg
  have hP : 0 ≤ Mi * Mj := mul_nonneg ((abs_nonneg _).trans hai) ((abs_nonneg _).trans haj)
  refine (cov_merge_float_error_bounded hnm hai hbi haj hbj hca hcb h).trans ?_
  apply mul_le_mul_of_nonneg_right _ hP
  have := gam4_le_64th hu hu64
  have := gam8_le_64th hu hu64
  linarith

/-- with one common bound `M` on all components: `|r − C| ≤ 13·u·M²` (`u ≤ 1/64`) -/
theorem cov_merge_float_error_bounded_sq {u M ai aj ca bi bj cb r : K} {n m : ℕ}
    (hu64 : u ≤ 1 / 64)
    (hnm : n + m ≠ 0) (hai : |ai| ≤ M) (hbi : |bi| ≤ M) (haj : |aj| ≤ M) (hbj : |bj| ≤ M)
    (hca : |ca| ≤ M ^ 2) (hcb : |cb| ≤ M ^ 2)
    (h : FlCovMerge u ai aj ca n bi bj cb m r) :
    |r - ((n : K) * ca + (m : K) * cb
            + (ai - bi) * (aj - bj) * (n : K) * (m : K) / ((n + m : ℕ) : K))
          / ((n + m : ℕ) : K)|
      ≤ 13 * u * M ^ 2 := by
  rw [pow_two] at hca hcb ⊢
  exact cov_merge_float_error_bounded_64th hu64 hnm hai hbi haj hbj hca hcb h

/-! ### 6. sharpness -/

/-- a relative error of size `u` with the sign of `x`: `x·δ = |x|·u` -/
theorem exists_signed_delta {u : K} (hu : 0 ≤ u) (x : K) : ∃ δ : K, |δ| ≤ u ∧ x * δ = |x| * u := by
  rcases le_total 0 x with h | h
  · exact ⟨u, by rw [abs_of_nonneg hu], by rw [abs_of_nonneg h]⟩
  · exact ⟨-u, by rw [abs_neg, abs_of_nonneg hu], by rw [abs_of_nonpos h]; ring⟩

/-- **the bound is attained** when the three terms have a common sign (here `≥ 0`): all
    eleven δ equal to `u` give an error of exactly
    `(γ₄·(n|ca| + m|cb|) + γ₈·|ai−bi||aj−bj|·n·m/N)/N`; no smaller constants are possible
    in `cov_merge_float_error` -/
theorem cov_merge_float_error_attained {u : K} (hu : 0 ≤ u) {ai aj ca bi bj cb : K} (n m : ℕ)
    (hnm : n + m ≠ 0) (hca : 0 ≤ ca) (hcb : 0 ≤ cb) (hd : 0 ≤ (ai - bi) * (aj - bj)) :
    ∃ r : K, FlCovMerge u ai aj ca n bi bj cb m r
      ∧ r - ((n : K) * ca + (m : K) * cb
              + (ai - bi) * (aj - bj) * (n : K) * (m : K) / ((n + m : ℕ) : K))
            / ((n + m : ℕ) : K)
          = (((1 + u) ^ 4 - 1) * ((n : K) * |ca| + (m : K) * |cb|)
              + ((1 + u) ^ 8 - 1)
                * (|ai - bi| * |aj - bj| * (n : K) * (m : K) / ((n + m : ℕ) : K)))
            / ((n + m : ℕ) : K) := by
  have habs : |u| ≤ u := by rw [abs_of_nonneg hu]
  have hN : ((n + m : ℕ) : K) ≠ 0 := Nat.cast_ne_zero.mpr hnm
  refine ⟨_, flCovMerge_of_deltas (u := u) ai aj ca n bi bj cb m u u u u u u u u u u u
      habs habs habs habs habs habs habs habs habs habs habs, ?_⟩
  rw [abs_of_nonneg hca, abs_of_nonneg hcb, ← abs_mul, abs_of_nonneg hd]
  field_simp
  ring

/-- **a bound in terms of the absolute values is necessary**, whatever the signs: for all
    operands some float result is off by exactly `u·T`,
    `T = (n|ca| + m|cb| + |ai−bi||aj−bj|·n·m/N)/N` — three roundings (the two `.sum`
    products and one difference) with the signs of their terms, all others exact.  So the
    upper bound `13·u·T` of `cov_merge_float_error_eighth` is sharp up to the factor 13, and
    no bound relative to `|C|` can hold (`C` may vanish while `T` does not) -/
theorem cov_merge_float_error_abs_necessary {u : K} (hu : 0 ≤ u) (ai aj ca bi bj cb : K)
    {n m : ℕ} (hnm : n + m ≠ 0) :
    ∃ r : K, FlCovMerge u ai aj ca n bi bj cb m r
      ∧ r - ((n : K) * ca + (m : K) * cb
              + (ai - bi) * (aj - bj) * (n : K) * (m : K) / ((n + m : ℕ) : K))
            / ((n + m : ℕ) : K)
          = u * absSum ai aj ca n bi bj cb m := by
  have h0 : |(0 : K)| ≤ u := by rw [abs_zero]; exact hu
  have hN : ((n + m : ℕ) : K) ≠ 0 := Nat.cast_ne_zero.mpr hnm
  obtain ⟨δ1, h1, e1⟩ := exists_signed_delta hu ((ai - bi) * (aj - bj))
  obtain ⟨δ3, h3, e3⟩ := exists_signed_delta hu ca
  obtain ⟨δ4, h4, e4⟩ := exists_signed_delta hu cb
  refine ⟨_, flCovMerge_of_deltas (u := u) ai aj ca n bi bj cb m δ1 0 δ3 δ4 0 0 0 0 0 0 0
      h1 h0 h3 h4 h0 h0 h0 h0 h0 h0 h0, ?_⟩
  rw [abs_mul] at e1
  unfold absSum
  have hcast : ((n + m : ℕ) : K) = (n : K) + (m : K) := by push_cast; rfl
  rw [hcast] at hN ⊢
  field_simp
  linear_combination ((n : K) + (m : K)) * (n : K) * e3 + ((n : K) + (m : K)) * (m : K) * e4
    + (n : K) * (m : K) * e1

/-- consequently: whenever the exact entry vanishes but the terms do not (cancellation),
    some float result has an error that no multiple of `|C| = 0` bounds -/
theorem no_relative_bound {u : K} (hu : 0 < u) (ai aj ca bi bj cb : K) {n m : ℕ}
    (hnm : n + m ≠ 0)
    (hC : ((n : K) * ca + (m : K) * cb
            + (ai - bi) * (aj - bj) * (n : K) * (m : K) / ((n + m : ℕ) : K))
          / ((n + m : ℕ) : K) = 0)
    (hT : 0 < absSum ai aj ca n bi bj cb m) :
    ∃ r : K, FlCovMerge u ai aj ca n bi bj cb m r ∧ 0 < r := by
  obtain ⟨r, hr, e⟩ := cov_merge_float_error_abs_necessary hu.le ai aj ca bi bj cb hnm
  rw [hC, sub_zero] at e
  exact ⟨r, hr, by rw [e]; exact mul_pos hu hT⟩

/-! ### 7. two float streaming runs, merged -/

/-- `Σ (x − x̄)(y − ȳ)` of a concatenation (Chan et al.), from C06 `cov_merge_eq` -/
theorem sumProdDev_append (ps qs : List (K × K)) (hne : ps.length + qs.length ≠ 0) :
    sumProdDev (ps ++ qs)
      = sumProdDev ps + sumProdDev qs
        + ((Cov2.run ps).mx.val - (Cov2.run qs).mx.val)
          * ((Cov2.run ps).my.val - (Cov2.run qs).my.val)
          * ((ps.length : K) * (qs.length : K) / ((ps.length + qs.length : ℕ) : K)) := by
  have hN : ((ps.length + qs.length : ℕ) : K) ≠ 0 := Nat.cast_ne_zero.mpr hne
  have hW := C05FloatCov.exact_C_eq (ps ++ qs)
  rw [← covMergeVal_run, List.length_append] at hW
  rw [← hW, ← C05FloatCov.exact_C_eq ps, ← C05FloatCov.exact_C_eq qs]
  unfold covMergeVal
  field_simp

/-- the all-absolute streaming defect bound of C05FloatCov, also for the empty run -/
theorem cov_float_defect_abs' {u Mx My : K} (hu : 0 ≤ u) {ps : List (K × K)}
    (hx : ∀ p ∈ ps, |p.1| ≤ Mx) (hy : ∀ p ∈ ps, |p.2| ≤ My)
    (hsmall : 64 * (ps.length : K) * u ≤ 1) {mx my cv : K} (h : FlCovRun u ps mx my cv) :
    |(ps.length : K) * cv - sumProdDev ps| ≤ 62 * (ps.length : K) ^ 2 * u * (Mx * My) := by
  by_cases hne : ps = []
  · subst hne
    simp [sumProdDev]
  · exact C05FloatCov.cov_float_defect_abs hu hne hx hy hsmall h

/-- `|Sxy| ≤ n·Mx·My` -/
theorem sumProdDev_abs_le_box {Mx My : K} (hMx : 0 ≤ Mx) (hMy : 0 ≤ My) (ps : List (K × K))
    (hx : ∀ p ∈ ps, |p.1| ≤ Mx) (hy : ∀ p ∈ ps, |p.2| ≤ My) :
    |sumProdDev ps| ≤ (ps.length : K) * (Mx * My) := by
  have hn0 : (0 : K) ≤ (ps.length : K) := Nat.cast_nonneg _
  rw [← C05FloatCov.exact_C_eq, abs_mul, abs_of_nonneg hn0]
  exact mul_le_mul_of_nonneg_left (exact_cov_abs_le hMx hMy ps hx hy) hn0

/-- `n·m/(n+m) ≤ (n+m)/4` -/
theorem harmonic_le_quarter {n m : K} (hN : 0 < n + m) :
    n * m / (n + m) ≤ (n + m) / 4 := by
  rw [div_le_div_iff₀ hN (by norm_num)]
  nlinarith [four_mul_le_sq_add n m]

/-- the scalar inequality that closes `merged_cov_streams_float_defect` -/
theorem merged_cov_poly {u Mx My n m A dI dJ w γ4 γ8 P4 P8 : K} (hu : 0 ≤ u) (hMx : 0 ≤ Mx)
    (hMy : 0 ≤ My) (hn : 0 ≤ n) (hm : 0 ≤ m) (hN : 0 < n + m)
    (hA0 : 0 ≤ A) (hA : A ≤ (n + m) * (Mx * My))
    (hdI0 : 0 ≤ dI) (hdI : dI ≤ 2 * Mx) (hdJ0 : 0 ≤ dJ) (hdJ : dJ ≤ 2 * My)
    (hw0 : 0 ≤ w) (hw : w ≤ (n + m) / 4) (hNu : (n + m) * u ≤ 1 / 32)
    (hγ4 : γ4 ≤ 33 / 8 * u) (hγ8 : γ8 ≤ 17 / 2 * u)
    (hP4 : P4 ≤ 213 / 200) (hP8 : P8 ≤ 1133 / 1000) :
    γ4 * A + γ8 * (dI * dJ * w)
        + P4 * (62 * n ^ 2 * u * (Mx * My) + 62 * m ^ 2 * u * (Mx * My))
        + P8 * ((dI * (6 * (n + m) * u * My) + dJ * (6 * (n + m) * u * Mx)
            + (6 * (n + m) * u * Mx) * (6 * (n + m) * u * My)) * w)
      ≤ 13 * (n + m) * u * (Mx * My) + 74 * (n + m) ^ 2 * u * (Mx * My) := by
  have hP : 0 ≤ Mx * My := mul_nonneg hMx hMy
  have huP : 0 ≤ u * (Mx * My) := mul_nonneg hu hP
  have hN0 : 0 ≤ n + m := hN.le
  have ht1 : 0 ≤ (n + m) * (u * (Mx * My)) := mul_nonneg hN0 huP
  have ht2 : 0 ≤ (n + m) ^ 2 * (u * (Mx * My)) := mul_nonneg (sq_nonneg _) huP
  -- the `.sum` terms
  have z1 : γ4 * A ≤ 33 / 8 * ((n + m) * (u * (Mx * My))) := by
    calc γ4 * A ≤ (33 / 8 * u) * ((n + m) * (Mx * My)) :=
          mul_le_mul hγ4 hA hA0 (by positivity)
      _ = 33 / 8 * ((n + m) * (u * (Mx * My))) := by ring
  -- the `dmean` term
  have hdd : dI * dJ ≤ 4 * (Mx * My) := by
    calc dI * dJ ≤ (2 * Mx) * (2 * My) := mul_le_mul hdI hdJ hdJ0 (by positivity)
      _ = 4 * (Mx * My) := by ring
  have hddw : dI * dJ * w ≤ (n + m) * (Mx * My) := by
    calc dI * dJ * w ≤ (4 * (Mx * My)) * ((n + m) / 4) :=
          mul_le_mul hdd hw hw0 (by positivity)
      _ = (n + m) * (Mx * My) := by ring
  have z2 : γ8 * (dI * dJ * w) ≤ 17 / 2 * ((n + m) * (u * (Mx * My))) := by
    calc γ8 * (dI * dJ * w) ≤ (17 / 2 * u) * ((n + m) * (Mx * My)) :=
          mul_le_mul hγ8 hddw (by positivity) (by positivity)
      _ = 17 / 2 * ((n + m) * (u * (Mx * My))) := by ring
  -- the operand entries
  have hB0 : 0 ≤ 62 * n ^ 2 * u * (Mx * My) + 62 * m ^ 2 * u * (Mx * My) := by positivity
  have hB : 62 * n ^ 2 * u * (Mx * My) + 62 * m ^ 2 * u * (Mx * My)
      ≤ 62 * ((n + m) ^ 2 * (u * (Mx * My))) := by
    have : 0 ≤ n * m * (u * (Mx * My)) := mul_nonneg (mul_nonneg hn hm) huP
    nlinarith
  have z3 : P4 * (62 * n ^ 2 * u * (Mx * My) + 62 * m ^ 2 * u * (Mx * My))
      ≤ 213 / 200 * (62 * ((n + m) ^ 2 * (u * (Mx * My)))) :=
    mul_le_mul hP4 hB hB0 (by norm_num)
  -- the operand means
  have e1 : dI * (6 * (n + m) * u * My) ≤ 12 * ((n + m) * (u * (Mx * My))) := by
    calc dI * (6 * (n + m) * u * My) ≤ (2 * Mx) * (6 * (n + m) * u * My) :=
          mul_le_mul_of_nonneg_right hdI (by positivity)
      _ = 12 * ((n + m) * (u * (Mx * My))) := by ring
  have e2 : dJ * (6 * (n + m) * u * Mx) ≤ 12 * ((n + m) * (u * (Mx * My))) := by
    calc dJ * (6 * (n + m) * u * Mx) ≤ (2 * My) * (6 * (n + m) * u * Mx) :=
          mul_le_mul_of_nonneg_right hdJ (by positivity)
      _ = 12 * ((n + m) * (u * (Mx * My))) := by ring
  have e3 : (6 * (n + m) * u * Mx) * (6 * (n + m) * u * My)
      ≤ 9 / 8 * ((n + m) * (u * (Mx * My))) := by
    calc (6 * (n + m) * u * Mx) * (6 * (n + m) * u * My)
        = 36 * ((n + m) * u) * ((n + m) * (u * (Mx * My))) := by ring
      _ ≤ 36 * (1 / 32) * ((n + m) * (u * (Mx * My))) :=
          mul_le_mul_of_nonneg_right (mul_le_mul_of_nonneg_left hNu (by norm_num)) ht1
      _ = 9 / 8 * ((n + m) * (u * (Mx * My))) := by ring
  have hE0 : 0 ≤ dI * (6 * (n + m) * u * My) + dJ * (6 * (n + m) * u * Mx)
      + (6 * (n + m) * u * Mx) * (6 * (n + m) * u * My) := by positivity
  have hEw : (dI * (6 * (n + m) * u * My) + dJ * (6 * (n + m) * u * Mx)
        + (6 * (n + m) * u * Mx) * (6 * (n + m) * u * My)) * w
      ≤ 201 / 32 * ((n + m) ^ 2 * (u * (Mx * My))) := by
    calc _ ≤ (201 / 8 * ((n + m) * (u * (Mx * My)))) * ((n + m) / 4) :=
          mul_le_mul (by linarith) hw hw0 (by positivity)
      _ = 201 / 32 * ((n + m) ^ 2 * (u * (Mx * My))) := by ring
  have z4 : P8 * ((dI * (6 * (n + m) * u * My) + dJ * (6 * (n + m) * u * Mx)
        + (6 * (n + m) * u * Mx) * (6 * (n + m) * u * My)) * w)
      ≤ 1133 / 1000 * (201 / 32 * ((n + m) ^ 2 * (u * (Mx * My)))) :=
    mul_le_mul hP8 hEw (mul_nonneg hE0 hw0) (by norm_num)
  have f1 : 13 * (n + m) * u * (Mx * My) = 13 * ((n + m) * (u * (Mx * My))) := by ring
  have f2 : 74 * (n + m) ^ 2 * u * (Mx * My) = 74 * ((n + m) ^ 2 * (u * (Mx * My))) := by ring
  rw [f1, f2]
  linarith

/-- **two streaming runs, division-free.**  `(ai, aj, ca)` a float streaming covariance run
    (`FlCovRun`, C05FloatCov) over `ps`, `(bi, bj, cb)` one over `qs` (`|x| ≤ Mx`, `|y| ≤ My`),
    `r` a float covariance-entry merge of the two:
    `|N·r − Sxy| ≤ 13·N·u·MxMy + 74·N²·u·MxMy`, `Sxy = Σ (x − x̄)(y − ȳ)` over `ps ++ qs`,
    `N = |ps| + |qs|` — compare `62·N²·u·MxMy` for one streaming run over all `N` pairs
    (`C05FloatCov.cov_float_defect_abs`) -/
theorem merged_cov_streams_float_defect {u Mx My : K} (hu : 0 ≤ u) (hMx : 0 ≤ Mx) (hMy : 0 ≤ My)
    {ps qs : List (K × K)} (hne : ps.length + qs.length ≠ 0)
    (hpx : ∀ p ∈ ps, |p.1| ≤ Mx) (hpy : ∀ p ∈ ps, |p.2| ≤ My)
    (hqx : ∀ p ∈ qs, |p.1| ≤ Mx) (hqy : ∀ p ∈ qs, |p.2| ≤ My)
    (hsp : 64 * (ps.length : K) * u ≤ 1) (hsq : 64 * (qs.length : K) * u ≤ 1)
    {ai aj ca bi bj cb r : K} (ha : FlCovRun u ps ai aj ca) (hb : FlCovRun u qs bi bj cb)
    (hm : FlCovMerge u ai aj ca ps.length bi bj cb qs.length r) :
    |((ps ++ qs).length : K) * r - sumProdDev (ps ++ qs)|
      ≤ 13 * ((ps ++ qs).length : K) * u * (Mx * My)
        + 74 * ((ps ++ qs).length : K) ^ 2 * u * (Mx * My) := by
  have hda := cov_float_defect_abs' hu hpx hpy hsp ha
  have hdb := cov_float_defect_abs' hu hqx hqy hsq hb
  obtain ⟨hai, haj⟩ := FlCovRun.mean_errors hu hMx hMy ha hpx hpy (by linarith)
  obtain ⟨hbi, hbj⟩ := FlCovRun.mean_errors hu hMx hMy hb hqx hqy (by linarith)
  have hμai := exact_mx_abs_le hMx ps hpx
  have hμaj := exact_my_abs_le hMy ps hpy
  have hμbi := exact_mx_abs_le hMx qs hqx
  have hμbj := exact_my_abs_le hMy qs hqy
  have hSp := sumProdDev_abs_le_box hMx hMy ps hpx hpy
  have hSq := sumProdDev_abs_le_box hMx hMy qs hqx hqy
  set μai := (Cov2.run ps).mx.val with hμaidef
  set μaj := (Cov2.run ps).my.val with hμajdef
  set μbi := (Cov2.run qs).mx.val with hμbidef
  set μbj := (Cov2.run qs).my.val with hμbjdef
  have hn0 : (0 : K) ≤ (ps.length : K) := Nat.cast_nonneg _
  have hm0 : (0 : K) ≤ (qs.length : K) := Nat.cast_nonneg _
  have hcast : ((ps.length + qs.length : ℕ) : K) = (ps.length : K) + (qs.length : K) := by
    push_cast; rfl
  have hN : (0 : K) < (ps.length : K) + (qs.length : K) := by
    rw [← hcast]; exact Nat.cast_pos.mpr (by omega)
  have hEi : |(ai - bi) - (μai - μbi)| ≤ 6 * ((ps.length : K) + (qs.length : K)) * u * Mx := by
    have e : (ai - bi) - (μai - μbi) = (ai - μai) - (bi - μbi) := by ring
    rw [e]
    refine (abs_sub _ _).trans ((add_le_add hai hbi).trans (le_of_eq ?_))
    ring
  have hEj : |(aj - bj) - (μaj - μbj)| ≤ 6 * ((ps.length : K) + (qs.length : K)) * u * My := by
    have e : (aj - bj) - (μaj - μbj) = (aj - μaj) - (bj - μbj) := by ring
    rw [e]
    refine (abs_sub _ _).trans ((add_le_add haj hbj).trans (le_of_eq ?_))
    ring
  have hc := hm.compose hda hdb hEi hEj
  have happ := sumProdDev_append ps qs hne
  rw [List.length_append, happ]
  refine hc.trans ?_
  have hDi : |μai - μbi| ≤ 2 * Mx := (abs_sub _ _).trans (by linarith)
  have hDj : |μaj - μbj| ≤ 2 * My := (abs_sub _ _).trans (by linarith)
  have hNu : ((ps.length : K) + (qs.length : K)) * u ≤ 1 / 32 := by linarith
  have hu64 : u ≤ 1 / 64 := by
    rcases Nat.eq_zero_or_pos ps.length with h0 | hp
    · have h1 : (1 : K) ≤ (qs.length : K) := by exact_mod_cast (show 1 ≤ qs.length by omega)
      have : u * 1 ≤ u * (qs.length : K) := mul_le_mul_of_nonneg_left h1 hu
      linarith
    · have h1 : (1 : K) ≤ (ps.length : K) := by exact_mod_cast hp
      have : u * 1 ≤ u * (ps.length : K) := mul_le_mul_of_nonneg_left h1 hu
      linarith
  have g4 := gam4_le_64th hu hu64
  have g8 := gam8_le_64th hu hu64
  have hP4 : (1 + u) ^ 4 ≤ 213 / 200 := by linarith
  have hP8 : (1 + u) ^ 8 ≤ 1133 / 1000 := by linarith
  have hw0 : 0 ≤ (ps.length : K) * (qs.length : K) / ((ps.length : K) + (qs.length : K)) :=
    div_nonneg (mul_nonneg hn0 hm0) hN.le
  have hw := harmonic_le_quarter hN
  have hpoly := merged_cov_poly (u := u) (Mx := Mx) (My := My) (n := (ps.length : K))
    (m := (qs.length : K)) (A := |sumProdDev ps| + |sumProdDev qs|)
    (dI := |μai - μbi|) (dJ := |μaj - μbj|)
    (w := (ps.length : K) * (qs.length : K) / ((ps.length : K) + (qs.length : K)))
    (γ4 := (1 + u) ^ 4 - 1) (γ8 := (1 + u) ^ 8 - 1) (P4 := (1 + u) ^ 4) (P8 := (1 + u) ^ 8)
    hu hMx hMy hn0 hm0 hN (by positivity) (by linarith) (abs_nonneg _) hDi (abs_nonneg _) hDj
    hw0 hw hNu g4 g8 hP4 hP8
  rw [hcast]
  exact hpoly

/-- **two streaming runs**: error of the merged population covariance entry `c.value` -/
theorem merged_cov_streams_float_error {u Mx My : K} (hu : 0 ≤ u) (hMx : 0 ≤ Mx) (hMy : 0 ≤ My)
    {ps qs : List (K × K)} (hne : ps.length + qs.length ≠ 0)
    (hpx : ∀ p ∈ ps, |p.1| ≤ Mx) (hpy : ∀ p ∈ ps, |p.2| ≤ My)
    (hqx : ∀ p ∈ qs, |p.1| ≤ Mx) (hqy : ∀ p ∈ qs, |p.2| ≤ My)
    (hsp : 64 * (ps.length : K) * u ≤ 1) (hsq : 64 * (qs.length : K) * u ≤ 1)
    {ai aj ca bi bj cb r : K} (ha : FlCovRun u ps ai aj ca) (hb : FlCovRun u qs bi bj cb)
    (hm : FlCovMerge u ai aj ca ps.length bi bj cb qs.length r) :
    |r - sumProdDev (ps ++ qs) / ((ps ++ qs).length : K)|
      ≤ 13 * u * (Mx * My) + 74 * ((ps ++ qs).length : K) * u * (Mx * My) := by
  have hN : (0 : K) < ((ps ++ qs).length : K) := by
    rw [List.length_append]; exact Nat.cast_pos.mpr (by omega)
  have hd := merged_cov_streams_float_defect hu hMx hMy hne hpx hpy hqx hqy hsp hsq ha hb hm
  refine (abs_sub_div_le_of_defect hN hd).trans (le_of_eq ?_)
  field_simp

/-- the same against the exact merged state of the model,
    `(Cov2.run ps).merge (Cov2.run qs)` — i.e. against what C06 proves correct -/
theorem merged_cov_streams_float_vs_model {u Mx My : K} (hu : 0 ≤ u) (hMx : 0 ≤ Mx)
    (hMy : 0 ≤ My) {ps qs : List (K × K)} (hne : ps.length + qs.length ≠ 0)
    (hpx : ∀ p ∈ ps, |p.1| ≤ Mx) (hpy : ∀ p ∈ ps, |p.2| ≤ My)
    (hqx : ∀ p ∈ qs, |p.1| ≤ Mx) (hqy : ∀ p ∈ qs, |p.2| ≤ My)
    (hsp : 64 * (ps.length : K) * u ≤ 1) (hsq : 64 * (qs.length : K) * u ≤ 1)
    {ai aj ca bi bj cb r : K} (ha : FlCovRun u ps ai aj ca) (hb : FlCovRun u qs bi bj cb)
    (hm : FlCovMerge u ai aj ca ps.length bi bj cb qs.length r) :
    |r - ((Cov2.run ps).merge (Cov2.run qs)).c.val|
      ≤ 13 * u * (Mx * My) + 74 * ((ps ++ qs).length : K) * u * (Mx * My) := by
  have hN : ((ps ++ qs).length : K) ≠ 0 := by
    rw [List.length_append]; exact Nat.cast_ne_zero.mpr hne
  have e : ((Cov2.run ps).merge (Cov2.run qs)).c.val
      = sumProdDev (ps ++ qs) / ((ps ++ qs).length : K) := by
    rw [cov_merge_eq, ← C05FloatCov.exact_C_eq]
    field_simp
  rw [e]
  exact merged_cov_streams_float_error hu hMx hMy hne hpx hpy hqx hqy hsp hsq ha hb hm

/-! ### 8. non-vacuity over ℚ: `u = 1/1000`; left operand = the exact state of
    `[(1,2), (2,1), (3,3)]` (means 2, 2, population covariance 1/3, n = 3), right operand =
    that of `[(4,1), (6,5)]` (means 5, 3, population covariance 2, m = 2); exact merged
    population covariance `43/25` -/

example : sumProdDev ([(1, 2), (2, 1), (3, 3), (4, 1), (6, 5)] : List (ℚ × ℚ)) / 5 = 43 / 25 := by
  norm_num [sumProdDev, batchMean]

example : ((3 : ℚ) * (1 / 3) + 2 * 2 + (2 - 5) * (2 - 3) * 3 * 2 / ((3 + 2 : ℕ) : ℚ))
    / ((3 + 2 : ℕ) : ℚ) = 43 / 25 := by norm_num

/-- a genuinely perturbed merge -/
example : ∃ r : ℚ, FlCovMerge (1 / 1000) 2 2 (1 / 3) 3 5 3 2 2 r ∧ r ≠ 43 / 25
    ∧ 0 < |r - 43 / 25| ∧ |r - 43 / 25| ≤ 17 / 2 * (1 / 1000) * (43 / 25) := by
  have h := flCovMerge_of_deltas (u := (1 / 1000 : ℚ)) 2 2 (1 / 3) 3 5 3 2 2
    (1 / 1000) (-1 / 1000) (1 / 1000) (-1 / 1000) (1 / 1000) (1 / 1000) (1 / 1000) (-1 / 1000)
    (1 / 1000) (1 / 1000) (1 / 1000)
    (by norm_num [abs_le]) (by norm_num [abs_le]) (by norm_num [abs_le]) (by norm_num [abs_le])
    (by norm_num [abs_le]) (by norm_num [abs_le]) (by norm_num [abs_le]) (by norm_num [abs_le])
    (by norm_num [abs_le]) (by norm_num [abs_le]) (by norm_num [abs_le])
  refine ⟨_, h, ?_, ?_, ?_⟩ <;> norm_num [abs_le]

/-- and the theorem applies to every such merge (here all three terms are positive, so
    `T = C = 43/25`) -/
example (r : ℚ) (h : FlCovMerge (1 / 1000) 2 2 (1 / 3) 3 5 3 2 2 r) :
    |r - 43 / 25| ≤ 17 / 2 * (1 / 1000) * (43 / 25) := by
  have := cov_merge_float_error_64th (u := (1 / 1000 : ℚ)) (by norm_num)
    (n := 3) (m := 2) (by norm_num) h
  have e1 : |(1 / 3 : ℚ)| = 1 / 3 := abs_of_pos (by norm_num)
  have e2 : |(2 : ℚ)| = 2 := abs_of_pos (by norm_num)
  have e3 : |(2 - 5 : ℚ)| = 3 := by rw [abs_of_neg (by norm_num)]; norm_num
  have e4 : |(2 - 3 : ℚ)| = 1 := by rw [abs_of_neg (by norm_num)]; norm_num
  rw [e1, e2, e3, e4] at this
  norm_num at this ⊢
  exact this

/-- the worst case is reached when the three terms have one sign -/
example : ∃ r : ℚ, FlCovMerge (1 / 1000) 2 2 (1 / 3) 3 5 3 2 2 r
    ∧ r - 43 / 25 = (((1 + 1 / 1000) ^ 4 - 1) * 5 + ((1 + 1 / 1000) ^ 8 - 1) * (18 / 5)) / 5 := by
  obtain ⟨r, hr, e⟩ := cov_merge_float_error_attained (u := (1 / 1000 : ℚ)) (by norm_num)
    (ai := 2) (aj := 2) (ca := 1 / 3) (bi := 5) (bj := 3) (cb := 2) 3 2 (by norm_num)
    (by norm_num) (by norm_num) (by norm_num)
  refine ⟨r, hr, ?_⟩
  have e1 : |(1 / 3 : ℚ)| = 1 / 3 := abs_of_pos (by norm_num)
  have e2 : |(2 : ℚ)| = 2 := abs_of_pos (by norm_num)
  have e3 : |(2 - 5 : ℚ)| = 3 := by rw [abs_of_neg (by norm_num)]; norm_num
  have e4 : |(2 - 3 : ℚ)| = 1 := by rw [abs_of_neg (by norm_num)]; norm_num
  rw [e1, e2, e3, e4] at e
  norm_num at e ⊢
  linarith

/-- **mixed signs, a relative bound is impossible**: two single observations `(2, 0)` and
    `(0, 2)` with operand entries `1` and `1`: `1 + 1 + (2 − 0)(0 − 2)·1·1/2 = 0`, the exact
    merged entry is `0`, but a float result is not -/
example : ((1 : ℚ) * 1 + 1 * 1 + (2 - 0) * (0 - 2) * 1 * 1 / ((1 + 1 : ℕ) : ℚ)) / ((1 + 1 : ℕ) : ℚ) = 0
    ∧ ∃ r : ℚ, FlCovMerge (1 / 1000) 2 0 1 1 0 2 1 1 r ∧ r ≠ 0 := by
  refine ⟨by norm_num, _, flCovMerge_of_deltas (u := (1 / 1000 : ℚ)) 2 0 1 1 0 2 1 1
    0 0 (1 / 1000) 0 0 0 0 0 0 0 0
    (by norm_num [abs_le]) (by norm_num [abs_le]) (by norm_num [abs_le]) (by norm_num [abs_le])
    (by norm_num [abs_le]) (by norm_num [abs_le]) (by norm_num [abs_le]) (by norm_num [abs_le])
    (by norm_num [abs_le]) (by norm_num [abs_le]) (by norm_num [abs_le]), ?_⟩
  norm_num

/-- … while the absolute bound still controls every float result: `T = (1 + 1 + 2)/2 = 2` -/
example (r : ℚ) (h : FlCovMerge (1 / 1000) 2 0 1 1 0 2 1 1 r) : |r| ≤ 17 / 1000 := by
  have := cov_merge_float_error_64th (u := (1 / 1000 : ℚ)) (by norm_num)
    (n := 1) (m := 1) (by norm_num) h
  have e1 : |(1 : ℚ)| = 1 := abs_one
  have e3 : |(2 - 0 : ℚ)| = 2 := by rw [abs_of_pos (by norm_num)]; norm_num
  have e4 : |(0 - 2 : ℚ)| = 2 := by rw [abs_of_neg (by norm_num)]; norm_num
  rw [e1, e3, e4] at this
  norm_num at this ⊢
  exact this

/-- the same operands through `no_relative_bound` -/
example : ∃ r : ℚ, FlCovMerge (1 / 1000) 2 0 1 1 0 2 1 1 r ∧ 0 < r := by
  apply no_relative_bound (by norm_num) 2 0 1 0 2 1 (n := 1) (m := 1) (by norm_num) (by norm_num)
  unfold absSum
  have e1 : |(1 : ℚ)| = 1 := abs_one
  have e3 : |(2 - 0 : ℚ)| = 2 := by rw [abs_of_pos (by norm_num)]; norm_num
  have e4 : |(0 - 2 : ℚ)| = 2 := by rw [abs_of_neg (by norm_num)]; norm_num
  rw [e1, e3, e4]
  norm_num

/-- a diagonal entry: every float variance merge of `[1,2,3]` and `[4,6]` is a possible
    diagonal covariance-entry merge, and obeys the relative bound -/
example (r : ℚ) (h : FlVarMerge (1 / 1000) 2 (2 / 3) 3 5 1 2 r) :
    FlCovMerge (1 / 1000) 2 2 (2 / 3) 3 5 5 1 2 r := var_merge_is_diag_cov_merge h

/-- two float streaming runs over `[(1,2), (2,1), (3,3)]` and `[(4,1), (6,5)]`, merged with
    rounding: the merged-streams theorem applies -/
example (ai aj ca bi bj cb r : ℚ) (ha : FlCovRun (1 / 1000) [(1, 2), (2, 1), (3, 3)] ai aj ca)
    (hb : FlCovRun (1 / 1000) [(4, 1), (6, 5)] bi bj cb)
    (hm : FlCovMerge (1 / 1000) ai aj ca 3 bi bj cb 2 r) :
    |5 * r - sumProdDev ([(1, 2), (2, 1), (3, 3), (4, 1), (6, 5)] : List (ℚ × ℚ))|
      ≤ 13 * 5 * (1 / 1000) * (6 * 5) + 74 * 5 ^ 2 * (1 / 1000) * (6 * 5) := by
  have := merged_cov_streams_float_defect (u := (1 / 1000 : ℚ)) (Mx := 6) (My := 5)
    (by norm_num) (by norm_num) (by norm_num)
    (ps := [(1, 2), (2, 1), (3, 3)]) (qs := [(4, 1), (6, 5)]) (by simp)
    (by intro p hp; simp at hp; rcases hp with rfl | rfl | rfl <;> norm_num [abs_le])
    (by intro p hp; simp at hp; rcases hp with rfl | rfl | rfl <;> norm_num [abs_le])
    (by intro p hp; simp at hp; rcases hp with rfl | rfl <;> norm_num [abs_le])
    (by intro p hp; simp at hp; rcases hp with rfl | rfl <;> norm_num [abs_le])
    (by norm_num) (by norm_num) ha hb hm
  simpa using this

/-- the same two operands as `2 × 2` matrix states of the model `Covariance ℚ` (mean vectors
    `[2, 2]`, `[5, 3]`; flattened population covariance matrices) -/
def exL : Covariance ℚ := ⟨⟨.arr [2, 2], 3⟩, ⟨.arr [2 / 3, 1 / 3, 1 / 3, 2 / 3], 3⟩⟩
def exR : Covariance ℚ := ⟨⟨.arr [5, 3], 2⟩, ⟨.arr [1, 2, 2, 4], 2⟩⟩

/-- entry `(0, 1)` of the model's matrix merge is the `43/25` above … -/
example : (exL.merge exR).cov.val.proj (0 * 2 + 1) = 43 / 25 := by decide +kernel

/-- … and at `u = 0` it is the only float result for that entry (the hypotheses of
    `exact_is_the_matrix_entry` are satisfiable) -/
example (r : ℚ) :
    FlCovMerge 0 2 2 (1 / 3) 3 5 3 2 2 r ↔ r = (exL.merge exR).cov.val.proj (0 * 2 + 1) :=
  exact_is_the_matrix_entry (K := ℚ) (d := 2) (i := 0) (j := 1) (by norm_num) (by norm_num)
    (s := exL) (o := exR) ⟨rfl, rfl⟩ ⟨rfl, rfl⟩ (Or.inl rfl) rfl rfl (by decide) r

end Gpv.C06FloatCov

#print axioms Gpv.C06FloatCov.flCovMerge_def
#print axioms Gpv.C06FloatCov.exact_merge_possible
#print axioms Gpv.C06FloatCov.exact_is_the_float_merge
#print axioms Gpv.C06FloatCov.float_merge_mono
#print axioms Gpv.C06FloatCov.model_merge_value
#print axioms Gpv.C06FloatCov.exact_is_the_matrix_entry
#print axioms Gpv.C06FloatCov.exact_merged_runs_possible
#print axioms Gpv.C06FloatCov.exact_merged_runs_forced
#print axioms Gpv.C06FloatCov.float_merge_swap
#print axioms Gpv.C06FloatCov.cov_merge_float_expansion
#print axioms Gpv.C06FloatCov.cov_merge_float_error
#print axioms Gpv.C06FloatCov.exact_abs_le_absSum
#print axioms Gpv.C06FloatCov.cov_merge_float_error_gam8
#print axioms Gpv.C06FloatCov.cov_merge_float_error_eighth
#print axioms Gpv.C06FloatCov.cov_merge_float_error_64th
#print axioms Gpv.C06FloatCov.cov_merge_float_vs_model
#print axioms Gpv.C06FloatCov.var_merge_is_diag_cov_merge
#print axioms Gpv.C06FloatCov.diag_same_diff_iff
#print axioms Gpv.C06FloatCov.diag_exact_iff
#print axioms Gpv.C06FloatCov.cov_merge_float_error_diag
#print axioms Gpv.C06FloatCov.cov_merge_float_diag_nonneg
#print axioms Gpv.C06FloatCov.cov_merge_float_compose
#print axioms Gpv.C06FloatCov.cov_merge_float_error_perturbed
#print axioms Gpv.C06FloatCov.sumProdDev_abs_le_cs
#print axioms Gpv.C06FloatCov.exact_cov_abs_le
#print axioms Gpv.C06FloatCov.cov_merge_float_error_bounded
#print axioms Gpv.C06FloatCov.cov_merge_float_error_bounded_eighth
#print axioms Gpv.C06FloatCov.cov_merge_float_error_bounded_64th
#print axioms Gpv.C06FloatCov.cov_merge_float_error_bounded_sq
#print axioms Gpv.C06FloatCov.cov_merge_float_error_attained
#print axioms Gpv.C06FloatCov.cov_merge_float_error_abs_necessary
#print axioms Gpv.C06FloatCov.no_relative_bound
#print axioms Gpv.C06FloatCov.sumProdDev_append
#print axioms Gpv.C06FloatCov.cov_float_defect_abs'
#print axioms Gpv.C06FloatCov.merged_cov_streams_float_defect
#print axioms Gpv.C06FloatCov.merged_cov_streams_float_error
#print axioms Gpv.C06FloatCov.merged_cov_streams_float_vs_model
