/-
  C18 — `savestream` is a transparent, lazy tap, and the archive it leaves behind replays
  (`loadstream`) exactly the elements it handed to the consumer — for every way the consumer
  can stop: `close()` at a yield, normal exhaustion, or the source's own exception.

  Model: `Gpv.Model.Stream` (`Save.next`, `Save.close`, `load`).  `Save.nexts enc xs tail k`
  is the state after `k` consumer `next()` calls on a fresh generator; `Save.Reach` is the set
  of states reachable by arbitrary `next`/`close` histories (normal form: `k` nexts, then
  optionally `close`; `Save.Reach.normal`).  `enc`/`dec` stand for pickle/unpickle.
-/
import Gpv.Proofs.StreamAlg

namespace Gpv.C18
open Gpv Gpv.Stream
variable {α β ε : Type}

/-! ### transparent tap -/

/-- after `k` `next()` calls the consumer holds `xs.take k`, `min k |xs|` elements were drawn
    from the source (never one ahead: while the source delivers, exactly as many as were handed
    over), and the archive has one member per drawn element, named by position, in draw order -/
theorem tap (enc : α → β) (xs : List α) (tail : Option ε) (k : Nat) :
    (Save.nexts enc xs tail k).out = xs.take k ∧
    (Save.nexts enc xs tail k).drawn = min k xs.length ∧
    (Save.nexts enc xs tail k).arch.entries
      = (xs.take k).zipIdx.map (fun p => (memberName p.2, enc p.1)) ∧
    (k ≤ xs.length →
      (Save.nexts enc xs tail k).drawn = k ∧ (Save.nexts enc xs tail k).out.length = k ∧
      (Save.nexts enc xs tail k).raised = none ∧ (Save.nexts enc xs tail k).arch.closed = false) := by
  by_cases hk : k ≤ xs.length
  · rw [Save.nexts_le enc xs tail hk]
    refine ⟨rfl, by simp [Nat.min_eq_left hk], rfl, fun _ => ⟨rfl, by simp [hk], rfl, rfl⟩⟩
  · have hk' : xs.length < k := by omega
    rw [Save.nexts_gt enc xs tail hk']
    refine ⟨by simp [List.take_of_length_le (Nat.le_of_lt hk')], by simp; omega,
      by simp [List.take_of_length_le (Nat.le_of_lt hk'), entriesOf], fun h => absurd h hk⟩

/-- one `next()` draws at most one element and hands over exactly what it drew -/
theorem tap_step (enc : α → β) (xs : List α) (tail : Option ε) (k : Nat) (hk : k < xs.length) :
    (Save.nexts enc xs tail (k + 1)).drawn = (Save.nexts enc xs tail k).drawn + 1 ∧
    (Save.nexts enc xs tail (k + 1)).out = (Save.nexts enc xs tail k).out ++ [xs[k]] ∧
    (Save.nexts enc xs tail (k + 1)).arch.entries
      = (Save.nexts enc xs tail k).arch.entries ++ [(memberName k, enc xs[k])] := by
  rw [Save.nexts_le enc xs tail (show k + 1 ≤ xs.length by omega),
    Save.nexts_le enc xs tail (show k ≤ xs.length by omega)]
  refine ⟨rfl, take_succ_getElem hk, ?_⟩
  show entriesOf enc (xs.take (k + 1)) = entriesOf enc (xs.take k) ++ [(memberName k, enc xs[k])]
  rw [take_succ_getElem hk, entriesOf_snoc, List.length_take, Nat.min_eq_left (Nat.le_of_lt hk)]

/-! ### the archive of every stop point replays the prefix handed over -/

theorem replay_after_close (enc : α → β) (dec : β → α) (xs : List α) (tail : Option ε) (k : Nat)
    (h1 : 1 ≤ k) (hk : k ≤ xs.length) :
    (Save.nexts enc xs tail k).close.pc = .closed ∧
    (Save.nexts enc xs tail k).close.out = xs.take k ∧
    load dec (Save.nexts enc xs tail k).close.arch = some ((xs.take k).map (dec ∘ enc)) := by
  rw [Save.nexts_le enc xs tail hk]
  obtain ⟨k, rfl⟩ : ∃ j, k = j + 1 := ⟨k - 1, by omega⟩
  refine ⟨rfl, rfl, ?_⟩
  exact load_entriesOf enc dec _

theorem replay_after_exhaustion (enc : α → β) (dec : β → α) (xs : List α) (k : Nat)
    (hk : xs.length < k) :
    (Save.nexts enc xs (none : Option ε) k).pc = .done ∧
    (Save.nexts enc xs (none : Option ε) k).raised = none ∧
    (Save.nexts enc xs (none : Option ε) k).out = xs ∧
    load dec (Save.nexts enc xs (none : Option ε) k).arch = some (xs.map (dec ∘ enc)) := by
  rw [Save.nexts_gt enc xs none hk]
  refine ⟨rfl, rfl, rfl, ?_⟩
  exact load_entriesOf enc dec _

theorem replay_after_source_failure (enc : α → β) (dec : β → α) (xs : List α) (e : ε) (k : Nat)
    (hk : xs.length < k) :
    (Save.nexts enc xs (some e) k).pc = .failed ∧
    (Save.nexts enc xs (some e) k).raised = some e ∧
    (Save.nexts enc xs (some e) k).out = xs ∧
    load dec (Save.nexts enc xs (some e) k).arch = some (xs.map (dec ∘ enc)) := by
  rw [Save.nexts_gt enc xs (some e) hk]
  refine ⟨rfl, rfl, rfl, ?_⟩
  exact load_entriesOf enc dec _

/-- the general statement, without assuming that unpickle inverts pickle: whenever the consumer
    is done with the generator (closed / exhausted / failed) and the file was created at all,
    the archive replays `dec ∘ enc` of exactly the elements handed over -/
theorem replay_map (enc : α → β) (dec : β → α) {xs : List α} {tail : Option ε} {s : Save α β ε}
    (h : Save.Reach enc xs tail s) (hfin : s.pc.finished = true) (hopen : s.opened = true) :
    load dec s.arch = some (s.out.map (dec ∘ enc)) ∧ s.out = xs.take s.drawn := by
  have key := load_entriesOf enc dec
  obtain ⟨k, hs | hs⟩ := h.normal
  · by_cases hk : k ≤ xs.length
    · rw [Save.nexts_le enc xs tail hk] at hs
      subst hs
      simp [runPc_finished] at hfin
    · rw [Save.nexts_gt enc xs tail (by omega)] at hs
      subst hs
      exact ⟨key xs, by simp⟩
  · by_cases hk : k ≤ xs.length
    · rw [Save.nexts_le enc xs tail hk] at hs
      cases k with
      | zero => subst hs; simp [Save.close, runPc] at hopen
      | succ k =>
        subst hs
        exact ⟨key _, rfl⟩
    · rw [Save.nexts_gt enc xs tail (by omega),
        Save.close_of_finished (by simp [endPc_finished])] at hs
      subst hs
      exact ⟨key xs, by simp⟩

/-- with `unpickle (pickle a) = a`: the archive replays exactly the elements handed over, for
    the three stop kinds at once (`close()` after at least one element, exhaustion, failure of
    the source) and for every demand history leading there -/
theorem replay_exact (enc : α → β) (dec : β → α) (hdec : ∀ a, dec (enc a) = a)
    {xs : List α} {tail : Option ε} {s : Save α β ε}
    (h : Save.Reach enc xs tail s) (hfin : s.pc.finished = true) (hopen : s.opened = true) :
    load dec s.arch = some s.out := by
  have hid : (dec ∘ enc) = id := funext hdec
  rw [(replay_map enc dec h hfin hopen).1, hid, List.map_id]

/-- the only finished state without a file: `close()` before the first `next()` -/
theorem no_file_iff (enc : α → β) {xs : List α} {tail : Option ε} {s : Save α β ε}
    (h : Save.Reach enc xs tail s) (hfin : s.pc.finished = true) :
    s.opened = false ↔ s.pc = .closed ∧ s.out = [] := by
  obtain ⟨k, hs | hs⟩ := h.normal
  · by_cases hk : k ≤ xs.length
    · rw [Save.nexts_le enc xs tail hk] at hs
      subst hs
      simp [runPc_finished] at hfin
    · rw [Save.nexts_gt enc xs tail (by omega)] at hs
      subst hs
      cases tail <;> simp [endPc]
  · by_cases hk : k ≤ xs.length
    · rw [Save.nexts_le enc xs tail hk] at hs
      cases k with
      | zero => subst hs; simp [Save.close, runPc]
      | succ k =>
        subst hs
        have : xs ≠ [] := by intro h0; simp [h0] at hk
        simp [Save.close, runPc, this]
    · rw [Save.nexts_gt enc xs tail (by omega),
        Save.close_of_finished (by simp [endPc_finished])] at hs
      subst hs
      cases tail <;> simp [endPc]

/-! ### the archive exists only once the consumer is done -/

theorem archive_unreadable_while_open (enc : α → β) (dec : β → α) {xs : List α} {tail : Option ε}
    {s : Save α β ε} (h : Save.Reach enc xs tail s) (hy : s.pc = .atYield) :
    s.arch.closed = false ∧ load dec s.arch = none := by
  have hc : s.arch.closed = false := by
    obtain ⟨k, hs | hs⟩ := h.normal
    · by_cases hk : k ≤ xs.length
      · rw [Save.nexts_le enc xs tail hk] at hs
        subst hs; rfl
      · rw [Save.nexts_gt enc xs tail (by omega)] at hs
        subst hs
        cases tail <;> simp [endPc] at hy
    · have := Save.close_finished (Save.nexts enc xs tail k)
      rw [← hs, hy] at this
      simp [GPC.finished] at this
  exact ⟨hc, by simp [load, hc]⟩

theorem never_started_no_file (dec : β → α) :
    (Save.init : Save α β ε).close.pc = .closed ∧ (Save.init : Save α β ε).close.opened = false ∧
    load dec (Save.init : Save α β ε).close.arch = none := by
  simp [Save.init, Save.close, load]

/-! ### replay order is archive order, not name order -/

/-- `load` never looks at the member names -/
theorem order_independent_of_names (dec : β → α) (a : Archive β) (rename : String → String) :
    load dec ⟨a.entries.map (fun e => (rename e.1, e.2)), a.closed⟩ = load dec a := by
  simp [load, List.map_map, Function.comp_def]

/-- more generally: two archives with the same payloads in the same order replay alike -/
theorem load_congr (dec : β → α) (a b : Archive β) (hc : a.closed = b.closed)
    (hp : a.entries.map (·.2) = b.entries.map (·.2)) : load dec a = load dec b := by
  have h : ∀ l : List (String × β), l.map (fun e => dec e.2) = (l.map (·.2)).map dec := by
    intro l; simp [List.map_map, Function.comp_def]
  simp only [load, hc, h, hp]

/-- distinct positions get distinct member names: no member is ever overwritten -/
theorem memberName_injective {m n : Nat} (h : memberName m = memberName n) : m = n :=
  Stream.memberName_injective h

/-! ### finished generators stay finished -/
theorem finished_stays (enc : α → β) (xs : List α) (tail : Option ε) (s : Save α β ε)
    (h : s.pc.finished = true) : Save.next enc xs tail s = s ∧ s.close = s :=
  ⟨Save.next_of_finished enc xs tail h, Save.close_of_finished h⟩

/-- hence every demand history is `k` nexts optionally followed by one `close` -/
theorem history_normal_form (enc : α → β) {xs : List α} {tail : Option ε} {s : Save α β ε}
    (h : Save.Reach enc xs tail s) :
    ∃ k, s = Save.nexts enc xs tail k ∨ s = (Save.nexts enc xs tail k).close := h.normal

/-! ### non-vacuity (`enc n = n + 100`, `dec b = b - 100`) -/

def exEnc (n : Nat) : Nat := n + 100
def exDec (b : Nat) : Nat := b - 100

/-- two of three elements taken, then `close()`: a two-member archive that replays `[1, 2]` -/
example : (let s := (Save.nexts exEnc [1, 2, 3] (none : Option String) 2).close
           (s.pc, s.drawn, s.opened, s.out, s.arch, load exDec s.arch))
    = (.closed, 2, true, [1, 2], ⟨[("data/000000", 101), ("data/000001", 102)], true⟩, some [1, 2]) := by
  decide

/-- still at the yield: the archive is not readable -/
example : (let s := Save.nexts exEnc [1, 2, 3] (none : Option String) 2
           (s.pc, s.drawn, s.arch.closed, load exDec s.arch)) = (.atYield, 2, false, none) := by decide

/-- exhaustion (four nexts on three elements), also on the empty stream -/
example : (let s := Save.nexts exEnc [1, 2, 3] (none : Option String) 4
           (s.pc, s.drawn, s.out, load exDec s.arch)) = (.done, 3, [1, 2, 3], some [1, 2, 3]) := by decide
example : (let s := Save.nexts exEnc [] (none : Option String) 1
           (s.pc, s.opened, s.arch, load exDec s.arch)) = (.done, true, ⟨[], true⟩, some []) := by decide

/-- the source raises after two elements -/
example : (let s := Save.nexts exEnc [1, 2] (some "boom") 3
           (s.pc, s.raised, s.out, load exDec s.arch)) = (.failed, some "boom", [1, 2], some [1, 2]) := by
  decide

/-- `close()` on a generator that was never started: no file -/
example : (let s := (Save.init : Save Nat Nat String).close
           (s.pc, s.opened, load exDec s.arch)) = (.closed, false, none) := by decide

/-- a history with redundant demands reaches the same state as its normal form -/
example : (Save.next exEnc [1, 2, 3] (none : Option String)
            (Save.next exEnc [1, 2, 3] none (Save.next exEnc [1, 2, 3] none Save.init)).close.close)
    = (Save.nexts exEnc [1, 2, 3] none 2).close := by decide

/-- names stop sorting lexicographically at 10^6 — harmless, because `load` uses archive order -/
example : memberName 999999 = "data/999999" ∧ memberName 1000000 = "data/1000000" ∧
    memberName 1000000 < memberName 999999 := by decide

end Gpv.C18

#print axioms Gpv.C18.tap
#print axioms Gpv.C18.tap_step
#print axioms Gpv.C18.replay_after_close
#print axioms Gpv.C18.replay_after_exhaustion
#print axioms Gpv.C18.replay_after_source_failure
#print axioms Gpv.C18.replay_map
#print axioms Gpv.C18.replay_exact
#print axioms Gpv.C18.no_file_iff
#print axioms Gpv.C18.archive_unreadable_while_open
#print axioms Gpv.C18.never_started_no_file
#print axioms Gpv.C18.order_independent_of_names
#print axioms Gpv.C18.load_congr
#print axioms Gpv.C18.memberName_injective
#print axioms Gpv.C18.finished_stays
#print axioms Gpv.C18.history_normal_form
