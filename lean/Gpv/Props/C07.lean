/-
  C07 — the P² estimator keeps its markers well formed (exact in any linearly ordered
  field, hence in ℝ and executable in ℚ).

  `P2.run q xs` is `List.foldl` of the executable one-observation update `P2.push` of
  `Gpv.Model.P2` — the definition the driver executes against the real code.
  The floating-point clause ("finite") is NOT covered by these theorems.
-/
import Gpv.Proofs.P2Alg
import Mathlib.Algebra.Order.Ring.Rat
import Mathlib.Algebra.Order.Field.Rat
import Mathlib.Algebra.Field.Rat
import Mathlib.Tactic.NormNum
set_option linter.unusedSectionVars false

namespace Gpv.C07
open Gpv
variable {K : Type} [Field K] [LinearOrder K] [IsStrictOrderedRing K]

/-! ### before the marker array is full -/

/-- while fewer observations than markers have arrived, the "markers" are exactly the
    observations so far in arrival order, and the ranks are still the initial `0, 1, …, m-1` -/
theorem before_full (q xs : List K) (hx : xs.length < q.length) :
    (P2.run q xs).h = xs ∧ (P2.run q xs).n = xs.length ∧ (P2.run q xs).pos = (P2.init q).pos :=
  ⟨(P2.run_before_full q xs hx).1, P2.run_n q xs, (P2.run_before_full q xs hx).2⟩

/-- the initial ranks are `0, 1, …, m-1` -/
theorem init_pos_nth (q : List K) {j : ℕ} (hj : j < q.length) : nth (P2.init q).pos j = (j : K) :=
  nth_initPos hj

/-! ### the moment the array becomes full -/

/-- at the `m`-th observation the markers are the sorted observations and no adjustment fires
    (all rank gaps are exactly 1) -/
theorem exact_at_m (q xs : List K) (hm : 2 ≤ q.length) (hx : xs.length = q.length) :
    (P2.run q xs).h = sortK xs ∧ (P2.run q xs).pos = (P2.init q).pos := by
  rcases List.eq_nil_or_concat' xs with rfl | ⟨ys, x, rfl⟩
  · simp at hx; omega
  · have hy : ys.length + 1 = q.length := by simpa using hx
    obtain ⟨e1, e2⟩ := P2.run_before_full q ys (by omega)
    rw [P2.run_snoc]
    have c1 : ¬ ((P2.run q ys).n + 1 < (P2.run q ys).m) := by simp [P2.m]; omega
    have c2 : (P2.run q ys).n + 1 = (P2.run q ys).m := by simp [P2.m]; omega
    simp only [P2.push, if_neg c1, if_pos c2, P2.run_q, e1, e2, adjustAll_initPos]
    simp [P2.init_pos]

theorem inv_at_full (q xs : List K) (hm : 2 ≤ q.length) (hx : xs.length = q.length) :
    P2.Inv (P2.run q xs) xs := by
  obtain ⟨e1, e2⟩ := exact_at_m q xs hm hx
  have ok : Marks q.length (sortK xs) (initPos K q.length) := hx ▸ marks_sorted_init xs
  obtain ⟨m1, m2, m3, m4⟩ := ok.extremes (by omega)
  have hp := sortK_perm xs
  apply P2.Inv.of_marks
  · rw [P2.run_q, e1, e2]; exact ok
  · exact P2.run_n q xs
  · rw [e1]; exact hp.mem_iff.mp m1
  · rw [e1]; exact fun y hy => m2 y (hp.mem_iff.mpr hy)
  · rw [P2.run_q, e1]; exact hp.mem_iff.mp m3
  · rw [P2.run_q, e1]; exact fun y hy => m4 y (hp.mem_iff.mpr hy)
  · rw [e2, P2.init_pos, nth_initPos (by omega)]; simp
  · rw [P2.run_q, e2, P2.init_pos, nth_initPos (by omega), hx]

/-! ### one more observation -/

theorem inv_step (q : List K) (s : P2 K) (xs : List K) (x : K) (hm : 2 ≤ q.length)
    (hx : q.length ≤ xs.length) (inv : P2.Inv s xs) (hq : s.q = q) :
    P2.Inv (s.push x) (xs ++ [x]) := by
  subst hq
  have c1 : ¬ (s.n + 1 < s.m) := by rw [inv.n_eq, P2.m]; omega
  have c2 : ¬ (s.n + 1 = s.m) := by rw [inv.n_eq, P2.m]; omega
  obtain ⟨ok1, a0, al, b0, bl⟩ := inv.marks.placeObs hm x
  obtain ⟨ok2, a0', al', b0', bl'⟩ := ok1.adjustAll s.q s.n
  have hpush : s.push x = { s with
      h := (adjustAll s.q s.n (placeObs s.h s.pos x).1 (placeObs s.h s.pos x).2).1,
      pos := (adjustAll s.q s.n (placeObs s.h s.pos x).1 (placeObs s.h s.pos x).2).2,
      n := s.n + 1 } := by
    simp only [P2.push, if_neg c1, if_neg c2]
  rw [hpush]
  apply P2.Inv.of_marks
  · exact ok2
  · simp [inv.n_eq]
  · show nth _ 0 ∈ xs ++ [x]
    rw [a0', a0]
    rcases min_choice x (nth s.h 0) with e | e <;> rw [e]
    · simp
    · exact List.mem_append_left _ inv.min_mem
  · intro y hy
    show nth _ 0 ≤ y
    rw [a0', a0]
    rcases List.mem_append.mp hy with hy | hy
    · exact (min_le_right _ _).trans (inv.min_le y hy)
    · rw [List.mem_singleton.mp hy]; exact min_le_left _ _
  · show nth _ (s.q.length - 1) ∈ xs ++ [x]
    rw [al', al]
    rcases max_choice x (nth s.h (s.q.length - 1)) with e | e <;> rw [e]
    · simp
    · exact List.mem_append_left _ inv.max_mem
  · intro y hy
    show y ≤ nth _ (s.q.length - 1)
    rw [al', al]
    rcases List.mem_append.mp hy with hy | hy
    · exact (inv.le_max y hy).trans (le_max_right _ _)
    · rw [List.mem_singleton.mp hy]; exact le_max_left _ _
  · show nth _ 0 = 0
    rw [b0', b0, inv.pos_first]
  · show nth _ (s.q.length - 1) = _
    rw [bl', bl, inv.pos_last]
    have : (xs ++ [x]).length - 1 = (xs.length - 1) + 1 := by simp; omega
    rw [this]; push_cast; rfl

theorem inv_run (q xs : List K) (hm : 2 ≤ q.length) (hx : q.length ≤ xs.length) :
    P2.Inv (P2.run q xs) xs := by
  induction xs using List.reverseRec with
  | nil => have : q.length ≤ 0 := hx; omega
  | append_singleton xs x ih =>
    rcases Nat.lt_or_ge xs.length q.length with h | h
    · exact inv_at_full q _ hm (by simp at hx ⊢; omega)
    · rw [P2.run_snoc]
      exact inv_step q _ xs x hm h (ih h) (P2.run_q q xs)


/-! ### the property, in its own words -/

/-- the marker values are non-decreasing -/
theorem heights_sorted (q xs : List K) (hm : 2 ≤ q.length) (hx : q.length ≤ xs.length) :
    List.Pairwise (· ≤ ·) (P2.run q xs).h := (inv_run q xs hm hx).sorted

/-- the lowest marker is the exact minimum seen -/
theorem min_exact (q xs : List K) (hm : 2 ≤ q.length) (hx : q.length ≤ xs.length) :
    nth (P2.run q xs).h 0 ∈ xs ∧ ∀ y ∈ xs, nth (P2.run q xs).h 0 ≤ y :=
  ⟨(inv_run q xs hm hx).min_mem, (inv_run q xs hm hx).min_le⟩

/-- the highest marker is the exact maximum seen -/
theorem max_exact (q xs : List K) (hm : 2 ≤ q.length) (hx : q.length ≤ xs.length) :
    nth (P2.run q xs).h (q.length - 1) ∈ xs ∧ ∀ y ∈ xs, y ≤ nth (P2.run q xs).h (q.length - 1) := by
  have inv := inv_run q xs hm hx
  have a := inv.max_mem; have b := inv.le_max
  rw [P2.run_q] at a b
  exact ⟨a, b⟩

/-- every marker lies inside the observed data range -/
theorem heights_in_range (q xs : List K) (hm : 2 ≤ q.length) (hx : q.length ≤ xs.length) :
    (P2.run q xs).h.length = q.length ∧
    ∀ j, j < q.length → nth (P2.run q xs).h 0 ≤ nth (P2.run q xs).h j ∧
      nth (P2.run q xs).h j ≤ nth (P2.run q xs).h (q.length - 1) := by
  have inv := inv_run q xs hm hx
  have a := inv.hlen; have b := inv.between
  rw [P2.run_q] at a b
  exact ⟨a, b⟩

/-- the marker ranks are integers, strictly increasing, from `0` to `n-1` -/
theorem ranks_integers_strict (q xs : List K) (hm : 2 ≤ q.length) (hx : q.length ≤ xs.length) :
    (P2.run q xs).pos.length = q.length ∧
    (∀ j, j < q.length → ∃ z : ℕ, nth (P2.run q xs).pos j = (z : K)) ∧
    List.Pairwise (· < ·) (P2.run q xs).pos ∧
    nth (P2.run q xs).pos 0 = 0 ∧
    nth (P2.run q xs).pos (q.length - 1) = ((xs.length - 1 : ℕ) : K) := by
  have inv := inv_run q xs hm hx
  have a := inv.plen; have b := inv.pint; have c := inv.pos_last
  rw [P2.run_q] at a b c
  exact ⟨a, b, inv.pstrict, inv.pos_first, c⟩

/-! ### read-outs -/

/-- the invariant (with at least two observations) forces at least one marker -/
theorem Inv.one_le_m {s : P2 K} {xs : List K} (inv : P2.Inv s xs) (hn : 2 ≤ xs.length) :
    1 ≤ s.q.length := by
  by_contra h
  have h0 : s.q.length = 0 := by omega
  have a := inv.pos_last
  have b := inv.pos_first
  rw [h0] at a
  rw [b] at a
  have : ((0 : ℕ) : K) = ((xs.length - 1 : ℕ) : K) := by rw [← a]; simp
  have := Nat.cast_injective this
  omega

/-- `q_actual = ranks / (n-1)`: in `[0,1]`, from 0 to 1, increasing -/
theorem qactual_range (s : P2 K) (xs : List K) (inv : P2.Inv s xs) (hn : 2 ≤ xs.length) :
    s.qActual.length = s.q.length ∧
    (∀ j, j < s.q.length → 0 ≤ nth s.qActual j ∧ nth s.qActual j ≤ 1) ∧
    nth s.qActual 0 = 0 ∧ nth s.qActual (s.q.length - 1) = 1 ∧
    List.Pairwise (· ≤ ·) s.qActual ∧ List.Pairwise (· < ·) s.qActual := by
  have hm := Inv.one_le_m inv hn
  have ok := inv.marks
  have hden : ((s.n : K) - ((1 : ℕ) : K)) = ((xs.length - 1 : ℕ) : K) := by
    rw [inv.n_eq, Nat.cast_sub (by omega)]
  have hpos : (0 : K) < ((xs.length - 1 : ℕ) : K) := by
    exact_mod_cast (show 0 < xs.length - 1 by omega)
  have hlen : s.qActual.length = s.q.length := by simp [P2.qActual, inv.plen]
  have hnth : ∀ j, j < s.q.length → nth s.qActual j = nth s.pos j / ((xs.length - 1 : ℕ) : K) := by
    intro j hj
    rw [P2.qActual, nth_map _ _ (by rw [inv.plen]; exact hj), hden]
  have hlt : ∀ i j, i < j → j < s.q.length → nth s.qActual i < nth s.qActual j := by
    intro i j hij hj
    rw [hnth i (by omega), hnth j hj]
    exact div_lt_div_of_pos_right (ok.p_lt hij hj) hpos
  have h0 : nth s.qActual 0 = 0 := by rw [hnth 0 (by omega), inv.pos_first, zero_div]
  have h1 : nth s.qActual (s.q.length - 1) = 1 := by
    rw [hnth _ (by omega), inv.pos_last, div_self hpos.ne']
  refine ⟨hlen, fun j hj => ⟨?_, ?_⟩, h0, h1,
    pairwise_nth.mpr fun i j hij hj => (hlt i j hij (by rw [← hlen]; exact hj)).le,
    pairwise_nth.mpr fun i j hij hj => hlt i j hij (by rw [← hlen]; exact hj)⟩
  · rcases Nat.eq_zero_or_pos j with rfl | hj0
    · exact h0.ge
    · rw [← h0]; exact (hlt 0 j hj0 hj).le
  · rcases Nat.lt_or_ge j (s.q.length - 1) with hj1 | hj1
    · rw [← h1]; exact (hlt j _ hj1 (by omega)).le
    · have : j = s.q.length - 1 := by omega
      rw [this, h1]

/-- `np.interp` stays inside the range of the (non-decreasing) ordinates.
    (No hypothesis on the abscissae `xp` is needed.) -/
theorem interp_range (x : K) (xp fp : List K) (hfp : List.Pairwise (· ≤ ·) fp)
    (hlen : fp.length = xp.length) (hm : 1 ≤ xp.length) :
    nth fp 0 ≤ interp x xp fp ∧ interp x xp fp ≤ nth fp (xp.length - 1) :=
  Gpv.interp_range x xp fp hfp hlen hm

/-- `np.interp` is monotone in `x` for non-decreasing ordinates.
    (No hypothesis on the abscissae `xp` is needed.) -/
theorem interp_mono (x y : K) (xp fp : List K) (hfp : List.Pairwise (· ≤ ·) fp)
    (hlen : fp.length = xp.length) (hm : 1 ≤ xp.length) (hxy : x ≤ y) :
    interp x xp fp ≤ interp y xp fp :=
  Gpv.interp_mono x y xp fp hfp hlen hm hxy

/-- the interpolated CDF read-out is in `[0,1]` and monotone -/
theorem cdf_range (s : P2 K) (xs : List K) (inv : P2.Inv s xs) (hn : 2 ≤ xs.length) (v : K) :
    0 ≤ s.cdfInterp v ∧ s.cdfInterp v ≤ 1 := by
  obtain ⟨hlen, _, h0, h1, hle, _⟩ := qactual_range s xs inv hn
  have hm := Inv.one_le_m inv hn
  have := Gpv.interp_range v s.h s.qActual hle (by rw [hlen, inv.hlen]) (by rw [inv.hlen]; exact hm)
  rw [h0, inv.hlen, h1] at this
  exact this

theorem cdf_mono (s : P2 K) (xs : List K) (inv : P2.Inv s xs) (hn : 2 ≤ xs.length) {v w : K}
    (hvw : v ≤ w) : s.cdfInterp v ≤ s.cdfInterp w := by
  obtain ⟨hlen, _, _, _, hle, _⟩ := qactual_range s xs inv hn
  have hm := Inv.one_le_m inv hn
  exact Gpv.interp_mono v w s.h s.qActual hle (by rw [hlen, inv.hlen]) (by rw [inv.hlen]; exact hm) hvw

/-- the interpolated quantile read-out stays inside the observed data range and is monotone -/
theorem quantile_range (s : P2 K) (xs : List K) (inv : P2.Inv s xs) (hn : 2 ≤ xs.length) (p : K) :
    nth s.h 0 ≤ s.quantileInterp p ∧ s.quantileInterp p ≤ nth s.h (s.q.length - 1) ∧
    (∀ y ∈ xs, nth s.h 0 ≤ y) ∧ (∀ y ∈ xs, y ≤ nth s.h (s.q.length - 1)) := by
  obtain ⟨hlen, _, _, _, _, _⟩ := qactual_range s xs inv hn
  have hm := Inv.one_le_m inv hn
  have := Gpv.interp_range p s.qActual s.h inv.sorted (by rw [hlen, inv.hlen]) (by rw [hlen]; exact hm)
  rw [hlen] at this
  exact ⟨this.1, this.2, inv.min_le, inv.le_max⟩

theorem quantile_mono (s : P2 K) (xs : List K) (inv : P2.Inv s xs) (hn : 2 ≤ xs.length) {p r : K}
    (hpr : p ≤ r) : s.quantileInterp p ≤ s.quantileInterp r := by
  obtain ⟨hlen, _, _, _, _, _⟩ := qactual_range s xs inv hn
  have hm := Inv.one_le_m inv hn
  exact Gpv.interp_mono p r s.qActual s.h inv.sorted (by rw [hlen, inv.hlen]) (by rw [hlen]; exact hm) hpr

/-! ### non-vacuity: a concrete run in ℚ (ties, parabolic adjustments) -/

/-- the grid of the example -/
private abbrev exQ : List ℚ := [0, 1/4, 1/2, 3/4, 1]

set_option maxRecDepth 10000 in
private theorem ex_step1 : (⟨exQ, 0, [], [0, 1, 2, 3, 4]⟩ : P2 ℚ).push 1 = ⟨exQ, 1, [1], [0, 1, 2, 3, 4]⟩ := by
  rw [P2.push_fill _ _ _ _ _ (by decide)]; rfl

set_option maxRecDepth 10000 in
private theorem ex_step2 : (⟨exQ, 1, [1], [0, 1, 2, 3, 4]⟩ : P2 ℚ).push 2 = ⟨exQ, 2, [1, 2], [0, 1, 2, 3, 4]⟩ := by
  rw [P2.push_fill _ _ _ _ _ (by decide)]; rfl

set_option maxRecDepth 10000 in
private theorem ex_step3 : (⟨exQ, 2, [1, 2], [0, 1, 2, 3, 4]⟩ : P2 ℚ).push 3 = ⟨exQ, 3, [1, 2, 3], [0, 1, 2, 3, 4]⟩ := by
  rw [P2.push_fill _ _ _ _ _ (by decide)]; rfl

set_option maxRecDepth 10000 in
private theorem ex_step4 : (⟨exQ, 3, [1, 2, 3], [0, 1, 2, 3, 4]⟩ : P2 ℚ).push 4 = ⟨exQ, 4, [1, 2, 3, 4], [0, 1, 2, 3, 4]⟩ := by
  rw [P2.push_fill _ _ _ _ _ (by decide)]; rfl

set_option maxRecDepth 10000 in
private theorem ex_step5 : (⟨exQ, 4, [1, 2, 3, 4], [0, 1, 2, 3, 4]⟩ : P2 ℚ).push 5 = ⟨exQ, 5, [1, 2, 3, 4, 5], [0, 1, 2, 3, 4]⟩ := by
  rw [P2.push_sort _ _ _ _ _ (by decide), sortK_of_sorted (by norm_num)]
  exact congrArg₂ _ (congrArg Prod.fst (adjustAll_initPos exQ 4 _)) (congrArg Prod.snd (adjustAll_initPos exQ 4 _)) |>.trans (by simp [initPos, List.range, List.range.loop])

set_option maxRecDepth 10000 in
private theorem ex_step6 : (⟨exQ, 5, [1, 2, 3, 4, 5], [0, 1, 2, 3, 4]⟩ : P2 ℚ).push 6 = ⟨exQ, 6, [1, 2, 3, 4, 6], [0, 1, 2, 3, 5]⟩ := by
  rw [P2.push_place _ _ _ _ _ (by decide)]
  norm_num [placeObs, adjustAll, adjustOne, nth, sign, parabolic, linear, List.range', List.mapIdx_cons]

set_option maxRecDepth 10000 in
private theorem ex_step7 : (⟨exQ, 6, [1, 2, 3, 4, 6], [0, 1, 2, 3, 5]⟩ : P2 ℚ).push 7 = ⟨exQ, 7, [1, 2, 3, 5, 7], [0, 1, 2, 4, 6]⟩ := by
  rw [P2.push_place _ _ _ _ _ (by decide)]
  norm_num [placeObs, adjustAll, adjustOne, nth, sign, parabolic, linear, List.range', List.mapIdx_cons]

set_option maxRecDepth 10000 in
private theorem ex_step8 : (⟨exQ, 7, [1, 2, 3, 5, 7], [0, 1, 2, 4, 6]⟩ : P2 ℚ).push 8 = ⟨exQ, 8, [1, 2, 4, 6, 8], [0, 1, 3, 5, 7]⟩ := by
  rw [P2.push_place _ _ _ _ _ (by decide)]
  norm_num [placeObs, adjustAll, adjustOne, nth, sign, parabolic, linear, List.range', List.mapIdx_cons]

set_option maxRecDepth 10000 in
private theorem ex_step9 : (⟨exQ, 8, [1, 2, 4, 6, 8], [0, 1, 3, 5, 7]⟩ : P2 ℚ).push 9 = ⟨exQ, 9, [1, 3, 5, 7, 9], [0, 2, 4, 6, 8]⟩ := by
  rw [P2.push_place _ _ _ _ _ (by decide)]
  norm_num [placeObs, adjustAll, adjustOne, nth, sign, parabolic, linear, List.range', List.mapIdx_cons]

set_option maxRecDepth 10000 in
private theorem ex_step10 : (⟨exQ, 9, [1, 3, 5, 7, 9], [0, 2, 4, 6, 8]⟩ : P2 ℚ).push 10 = ⟨exQ, 10, [1, 3, 5, 7, 10], [0, 2, 4, 6, 9]⟩ := by
  rw [P2.push_place _ _ _ _ _ (by decide)]
  norm_num [placeObs, adjustAll, adjustOne, nth, sign, parabolic, linear, List.range', List.mapIdx_cons]

set_option maxRecDepth 10000 in
private theorem ex_step11 : (⟨exQ, 10, [1, 3, 5, 7, 10], [0, 2, 4, 6, 9]⟩ : P2 ℚ).push 3 = ⟨exQ, 11, [1, 3, 5, 7, 10], [0, 3, 5, 7, 10]⟩ := by
  rw [P2.push_place _ _ _ _ _ (by decide)]
  norm_num [placeObs, adjustAll, adjustOne, nth, sign, parabolic, linear, List.range', List.mapIdx_cons]

set_option maxRecDepth 10000 in
private theorem ex_step12 : (⟨exQ, 11, [1, 3, 5, 7, 10], [0, 3, 5, 7, 10]⟩ : P2 ℚ).push 3 = ⟨exQ, 12, [1, 9/4, 5, 7, 10], [0, 3, 6, 8, 11]⟩ := by
  rw [P2.push_place _ _ _ _ _ (by decide)]
  norm_num [placeObs, adjustAll, adjustOne, nth, sign, parabolic, linear, List.range', List.mapIdx_cons]

set_option maxRecDepth 10000 in
private theorem ex_step13 : (⟨exQ, 12, [1, 9/4, 5, 7, 10], [0, 3, 6, 8, 11]⟩ : P2 ℚ).push 3 = ⟨exQ, 13, [1, 9/4, 133/32, 7, 10], [0, 3, 6, 9, 12]⟩ := by
  rw [P2.push_place _ _ _ _ _ (by decide)]
  norm_num [placeObs, adjustAll, adjustOne, nth, sign, parabolic, linear, List.range', List.mapIdx_cons]


/-- the run of the example, observation by observation -/
theorem example_run :
    P2.run exQ [1, 2, 3, 4, 5, 6, 7, 8, 9, 10, 3, 3, 3] =
      ⟨exQ, 13, [1, 9/4, 133/32, 7, 10], [0, 3, 6, 9, 12]⟩ := by
  have e0 : P2.init exQ = ⟨exQ, 0, [], [0, 1, 2, 3, 4]⟩ := by
    simp [P2.init, List.range, List.range.loop]
  simp only [P2.run, List.foldl_cons, List.foldl_nil, e0, ex_step1, ex_step2, ex_step3, ex_step4,
    ex_step5, ex_step6, ex_step7, ex_step8, ex_step9, ex_step10, ex_step11, ex_step12, ex_step13]

/-- the hypotheses of `inv_run` are satisfiable, and its conclusion holds of the concrete state -/
example :
    P2.Inv (⟨exQ, 13, [1, 9/4, 133/32, 7, 10], [0, 3, 6, 9, 12]⟩ : P2 ℚ)
      [1, 2, 3, 4, 5, 6, 7, 8, 9, 10, 3, 3, 3] :=
  example_run ▸ inv_run exQ [1, 2, 3, 4, 5, 6, 7, 8, 9, 10, 3, 3, 3] (by decide) (by decide)

end Gpv.C07

#print axioms Gpv.C07.before_full
#print axioms Gpv.C07.init_pos_nth
#print axioms Gpv.C07.exact_at_m
#print axioms Gpv.C07.inv_at_full
#print axioms Gpv.C07.inv_step
#print axioms Gpv.C07.inv_run
#print axioms Gpv.C07.heights_sorted
#print axioms Gpv.C07.min_exact
#print axioms Gpv.C07.max_exact
#print axioms Gpv.C07.heights_in_range
#print axioms Gpv.C07.ranks_integers_strict
#print axioms Gpv.C07.qactual_range
#print axioms Gpv.C07.interp_range
#print axioms Gpv.C07.interp_mono
#print axioms Gpv.C07.cdf_range
#print axioms Gpv.C07.cdf_mono
#print axioms Gpv.C07.quantile_range
#print axioms Gpv.C07.quantile_mono
#print axioms Gpv.C07.example_run
