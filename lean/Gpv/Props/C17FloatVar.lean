/-
  C17, floating-point clause for the RUNNING VARIANCE — machine-checked rounding-error bounds
  for `RunningVariance` (`RVariance.push`; Python: `Variance._accumulate_obj` acting on two
  `RunningMean`s with the same lifetime):

      delta1 = obj - mean.acc                          -- OLD mean
      mean.acc = mean.acc*(1 - a) + obj*a              -- a = max(alpha, 1/n')
      q        = delta1 * (obj - mean.acc)             -- NEW mean
      var.acc  = var.acc*(1 - a) + q*a                 -- same a (same alpha, same count)

  Model (Gpv/Proofs/FloatRunningVar.lean, on top of FloatRunning.lean / FloatMean.lean): every
  floating-point operation returns its exact result times `1 + δ`, `|δ| ≤ u` (`u` unit
  roundoff), δ's arbitrary and independent — eleven roundings per observation:
  `d1 = fl(x − m)`, the four of the mean step (`FlRStep`), `d2 = fl(x − m')`, `q = fl(d1·d2)`,
  the four of the var step (`FlRStep`).  Counts are exact.
  CHOICE (as in C17Float): the weight `a` of each step is GIVEN — the float the program holds
  after `max(alpha, 1/n')`, a number in `[0, 1]`, used as is by both accumulators — and the exact
  reference recursion uses the SAME weights; with the ideal weights `effA (1/l) n` the reference is
  literally `RVariance.push` folded (`exact_is_the_float_run`).  So the error of computing
  `alpha = 1/lifetime` and `1/n'` themselves, and overflow/underflow, are not part of these
  statements.
  `FlRVRun u m₀ v₀ ps m v` : `(m, v)` is a possible state `(mean.acc, var.acc)` after the steps
  `ps = [(a₁,x₁), …]` from `(m₀, v₀)`;
  `FlRVar u l xs m v`      : the same with the weights of `RunningVariance(lifetime = l)` from `(0, 0)`.

  Proved, for EVERY possible float run (`|x| ≤ M`), with bounds that do NOT depend on the number
  of observations (warm-up and decay phase alike — the running weights are a contraction):

  * `flRVStep_def`, `flRVRun_nil`, `flRVRun_cons`, `wvstep_def`  unfolding lemmas;
    `exact_run_possible` (the exact model run is a possible float run for every `u ≥ 0`),
    `exact_is_the_float_run` (`u = 0`: the only one), `float_run_mono` (monotone in `u`),
    `float_run_append`, `rvar_run_mean` (the mean component is a float running-mean run).
  * `exact_rvar_bounds`     the exact model: `|mean| ≤ M`, `0 ≤ var ≤ 4M²`.
  * `rvar_float_error_model`   lifetime `l ≥ 1`, `8·l·u ≤ 1`:
        `|m − mean| ≤ 8·l·u·M`   and   `|v − var| ≤ 244·l·u·M²`     for ANY number of observations.
    `rvar_float_error_model_tight`  the same under `64·l·u ≤ 1` with constants `5` and `52`.
    `rvar_float_error` / `rvar_float_error_tight`  natural lifetime `L`, against `C17.rvrun L xs`.
    `rvar_float_error_sharp`  weights in `[amin, 1]`, `4u < amin`, common start: the explicit steady
        states `Em = 4uM/(amin − 4u)`, `E = (4u·Mq + amin·G)/(amin − 4u)` with
        `Mq = (1+u)³(2M + Em)²` (bound of the rounded increment) and
        `G = ((1+u)³ − 1)·4M² + (1+u)³(4M·Em + Em²)` (bound of its error).
        The recursion is `e' ≤ (1−a)(1+u)³ e + ((1+u)³ − 1)·Mq + a·G`: the increment error `G`
        (which carries the error ≈ 4·l·u·M of the float MEAN, amplified by `4M`) enters with
        weight `a`, so its steady-state contribution is `≈ G`, not `G/a`; the rounding of the var
        step itself contributes `≈ 3u·Mq/a`.  Both are linear in `l = 1/a`: `c(l) = O(l)`.
        (For the running mean a linear dependence on `l` is real in this model —
        `C17Float.rmean_float_stationary`; the var accumulator is a running mean of the `q`'s, so
        the order `O(l)` is presumably optimal.  That optimality is NOT proved here.)
    `rvar_float_error_model_gen`  the same with the numerical bounds as parameters.
  * `rvar_float_bounded_model`   `−244·l·u·M² ≤ v ≤ 4M²·(1 + 61·l·u)`, `|m| ≤ M·(1 + 8·l·u)`.
  * `rvar_float_warmup`     natural lifetime `L`, `n ≤ L`: the float `var.acc` is within
        `244·L·u·M²` of the population variance `Σ(x − x̄)²/n` (what `Variance` holds, C17).
  * `rvar_float_value_error`   the read-out `var.acc * (n / (n − 1))` (`n ≥ 2`, two more roundings):
        `|r − value| ≤ n/(n−1) · 318·l·u·M²`.
  * `example`s over ℚ: `RunningVariance(lifetime = 2)`, `xs = [4, 2, 8]`, `u = 1/1000`.
-/
import Gpv.Proofs.FloatRunningVar
import Gpv.Props.C17Float
import Gpv.Props.C05FloatVar
set_option linter.unusedSectionVars false

namespace Gpv.C17FloatVar
open Gpv
variable {K : Type} [Field K] [LinearOrder K] [IsStrictOrderedRing K]

/-! ### 1. the model -/

theorem flRVStep_def (u a m v x m' v' : K) :
    FlRVStep u a m v x m' v' ↔ ∃ d1 d2 q : K, Rnd u (x - m) d1 ∧ FlRStep u a m x m'
      ∧ Rnd u (x - m') d2 ∧ Rnd u (d1 * d2) q ∧ FlRStep u a v q v' := Iff.rfl

theorem flRVRun_nil (u m v m' v' : K) : FlRVRun u m v [] m' v' ↔ m' = m ∧ v' = v := Iff.rfl

theorem flRVRun_cons (u m v a x : K) (ps : List (K × K)) (m' v' : K) :
    FlRVRun u m v ((a, x) :: ps) m' v'
      ↔ ∃ m1 v1, FlRVStep u a m v x m1 v1 ∧ FlRVRun u m1 v1 ps m' v' := Iff.rfl

/-- the exact step: `μ' = μ(1−a) + x·a`, `w' = w(1−a) + (x − μ)(x − μ')·a` — the product uses
    the OLD mean in the first factor and the NEW mean in the second -/
theorem wvstep_def (a μ w x : K) :
    wvstep a μ w x = (μ * (1 - a) + x * a,
      w * (1 - a) + (x - μ) * (x - (μ * (1 - a) + x * a)) * a) := rfl

theorem wvrun_nil_def (μ w : K) : wvrun μ w [] = (μ, w) := rfl

theorem wvrun_cons_def (μ w a x : K) (ps : List (K × K)) :
    wvrun μ w ((a, x) :: ps) = wvrun (wvstep a μ w x).1 (wvstep a μ w x).2 ps := rfl

/-- the exact increment is `(1 − a)(x − μ)²` -/
theorem exact_increment (a μ x : K) :
    (x - μ) * (x - (μ * (1 - a) + x * a)) = (1 - a) * (x - μ) ^ 2 := by ring

/-- float runs of `RunningVariance(lifetime = l)` over `xs`: weights `max(1/l, 1/k)` for both
    accumulators, start `(0, 0)` -/
def FlRVar (u l : K) (xs : List K) (m v : K) : Prop :=
  FlRVRun u 0 0 (modelPairs (1 / l) 0 xs) m v

/-- `RunningVariance(lifetime = l)` fed `xs` (exact model), arbitrary lifetime `l` -/
def rvrunK (l : K) (xs : List K) : RVariance K := xs.foldl RVariance.push (RVariance.init l)

theorem rvrun_eq_rvrunK (L : Nat) (xs : List K) : C17.rvrun L xs = rvrunK (L : K) xs := rfl

theorem rvrunK_eq_wvrun (l : K) (xs : List K) :
    ((rvrunK l xs).mean.acc, (rvrunK l xs).var.acc) = wvrun 0 0 (modelPairs (1 / l) 0 xs) :=
  RVariance.run_eq_wvrun l xs

/-- the exact run of the model (`RVariance.push` folded) is a possible float run -/
theorem exact_run_possible {u : K} (hu : 0 ≤ u) (l : K) (xs : List K) :
    FlRVar u l xs (rvrunK l xs).mean.acc (rvrunK l xs).var.acc := by
  have h := rvrunK_eq_wvrun l xs
  have h1 : (rvrunK l xs).mean.acc = (wvrun 0 0 (modelPairs (1 / l) 0 xs)).1 := by rw [← h]
  have h2 : (rvrunK l xs).var.acc = (wvrun 0 0 (modelPairs (1 / l) 0 xs)).2 := by rw [← h]
  rw [h1, h2]; exact FlRVRun.of_exact hu 0 0 _

/-- with `u = 0` the only possible run is the model's -/
theorem exact_is_the_float_run (l : K) (xs : List K) (m v : K) :
    FlRVar 0 l xs m v ↔ m = (rvrunK l xs).mean.acc ∧ v = (rvrunK l xs).var.acc := by
  have h := rvrunK_eq_wvrun l xs
  have h1 : (rvrunK l xs).mean.acc = (wvrun 0 0 (modelPairs (1 / l) 0 xs)).1 := by rw [← h]
  have h2 : (rvrunK l xs).var.acc = (wvrun 0 0 (modelPairs (1 / l) 0 xs)).2 := by rw [← h]
  rw [h1, h2]; exact flRVRun_zero_iff 0 0 _ m v

/-- generally: `u = 0` ↔ the exact recursion with the same weights -/
theorem exact_is_the_float_run_general (m v : K) (ps : List (K × K)) (m' v' : K) :
    FlRVRun 0 m v ps m' v' ↔ m' = (wvrun m v ps).1 ∧ v' = (wvrun m v ps).2 :=
  flRVRun_zero_iff m v ps m' v'

theorem exact_run_possible_general {u : K} (hu : 0 ≤ u) (m v : K) (ps : List (K × K)) :
    FlRVRun u m v ps (wvrun m v ps).1 (wvrun m v ps).2 := FlRVRun.of_exact hu m v ps

/-- a larger unit roundoff allows more runs -/
theorem float_run_mono {u u' : K} (h : u ≤ u') {ps : List (K × K)} {m v m' v' : K}
    (hr : FlRVRun u m v ps m' v') : FlRVRun u' m v ps m' v' := hr.mono h

theorem float_run_mono_model {u u' : K} (h : u ≤ u') {l : K} {xs : List K} {m v : K}
    (hr : FlRVar u l xs m v) : FlRVar u' l xs m v := FlRVRun.mono h hr

theorem flRVRun_nil_intro (u m v : K) : FlRVRun u m v [] m v := ⟨rfl, rfl⟩

theorem flRVRun_cons_intro {u a x m v m1 v1 m' v' : K} {ps : List (K × K)}
    (hs : FlRVStep u a m v x m1 v1) (hr : FlRVRun u m1 v1 ps m' v') :
    FlRVRun u m v ((a, x) :: ps) m' v' := ⟨m1, v1, hs, hr⟩

/-- runs compose (warm-up phase, then decay phase) -/
theorem float_run_append {u : K} {ps qs : List (K × K)} {m v m1 v1 m2 v2 : K}
    (h1 : FlRVRun u m v ps m1 v1) (h2 : FlRVRun u m1 v1 qs m2 v2) :
    FlRVRun u m v (ps ++ qs) m2 v2 := h1.append h2

/-- the mean inside a running-variance run is a float running-mean run, so C17Float applies -/
theorem rvar_run_mean {u l : K} {xs : List K} {m v : K} (h : FlRVar u l xs m v) :
    C17Float.FlRMean u l xs m := FlRVRun.mean_run h

/-! ### 2. the exact reference -/

/-- the exact model: the mean stays within `M`, the variance accumulator within `[0, 4M²]` -/
theorem exact_rvar_bounds {l M : K} (hM : 0 ≤ M) (hl : 1 ≤ l) {xs : List K}
    (hx : ∀ x ∈ xs, |x| ≤ M) :
    |(rvrunK l xs).mean.acc| ≤ M ∧ 0 ≤ (rvrunK l xs).var.acc
      ∧ (rvrunK l xs).var.acc ≤ 4 * M ^ 2 := by
  have hok := modelPairs_ok (one_div_le_one_of_one_le hl) 0 hx
  have hl0 : 0 < l := by linarith
  have h := rvrunK_eq_wvrun l xs
  have h1 : (rvrunK l xs).mean.acc = (wvrun 0 0 (modelPairs (1 / l) 0 xs)).1 := by rw [← h]
  have h2 : (rvrunK l xs).var.acc = (wvrun 0 0 (modelPairs (1 / l) 0 xs)).2 := by rw [← h]
  rw [h1, h2]
  exact wvrun_bounds (by positivity) hok (by simpa using hM) le_rfl (by positivity)

/-! ### 3. the error against the exact recursion, uniformly in the number of observations -/

/-- **one step**: the ball `|m − μ| ≤ Em`, `|v − w| ≤ E` around a reference with `|μ| ≤ M`,
    `0 ≤ w ≤ 4M²` is mapped into the ball around the stepped reference -/
theorem rvar_step_invariant {u a amin M Em E m v x m' v' μ w : K} (hu : 0 ≤ u) (hM : 0 ≤ M)
    (h : FlRVStep u a m v x m' v') (hamin : 0 ≤ amin) (ha : amin ≤ a) (ha1 : a ≤ 1)
    (hx : |x| ≤ M) (hEm0 : 0 ≤ Em)
    (hEm : (1 - amin) * (1 + u) ^ 3 * Em + ((1 + u) ^ 3 - 1) * M ≤ Em)
    (hGE : rvG u M Em ≤ E)
    (hE : (1 - amin) * (1 + u) ^ 3 * E + ((1 + u) ^ 3 - 1) * rvMq u M Em + amin * rvG u M Em ≤ E)
    (hμ : |μ| ≤ M) (hw0 : 0 ≤ w) (hw : w ≤ 4 * M ^ 2) (hm : |m - μ| ≤ Em) (hv : |v - w| ≤ E) :
    |(wvstep a μ w x).1| ≤ M ∧ 0 ≤ (wvstep a μ w x).2 ∧ (wvstep a μ w x).2 ≤ 4 * M ^ 2
      ∧ |m' - (wvstep a μ w x).1| ≤ Em ∧ |v' - (wvstep a μ w x).2| ≤ E :=
  h.inv hu hM hamin ha ha1 hx hEm0 hEm hGE hE hμ hw0 hw hm hv

theorem rvMq_def (u M Em : K) : rvMq u M Em = (1 + u) ^ 3 * (2 * M + Em) ^ 2 := rfl

theorem rvG_def (u M Em : K) :
    rvG u M Em = ((1 + u) ^ 3 - 1) * (4 * M ^ 2) + (1 + u) ^ 3 * (4 * M * Em + Em ^ 2) := rfl

/-- **error of a run, sharp form.**  Weights in `[amin, 1]`, `|x| ≤ M`, `4u < amin`; float and
    exact run start from the same state `(m₀, v₀)` with `|m₀| ≤ M`, `0 ≤ v₀ ≤ 4M²`.
    After ANY number of steps: `|m − μ| ≤ Em = 4uM/(amin − 4u)` and
    `|v − w| ≤ (4u·Mq + amin·G)/(amin − 4u)`, `Mq = rvMq u M Em`, `G = rvG u M Em`. -/
theorem rvar_float_error_sharp {u amin M : K} (hu : 0 ≤ u) (hu4 : u ≤ 1 / 4) (hM : 0 ≤ M)
    (ha : 4 * u < amin) {ps : List (K × K)} (hok : StepsOK amin M ps) {m0 v0 m v : K}
    (h : FlRVRun u m0 v0 ps m v) (hm0 : |m0| ≤ M) (hv0 : 0 ≤ v0) (hv4 : v0 ≤ 4 * M ^ 2) :
    |m - (wvrun m0 v0 ps).1| ≤ 4 * u * M / (amin - 4 * u)
      ∧ |v - (wvrun m0 v0 ps).2|
          ≤ (4 * u * rvMq u M (4 * u * M / (amin - 4 * u))
              + amin * rvG u M (4 * u * M / (amin - 4 * u))) / (amin - 4 * u) := by
  obtain ⟨hEm0, hEm⟩ := steady_four hu hu4 hM ha
  have hG0 := rvG_nonneg hu hM hEm0
  obtain ⟨hGE, hE⟩ := steady_var hu hu4 (rvMq_nonneg (M := M)
    (Em := 4 * u * M / (amin - 4 * u)) hu) hG0 ha
  have := FlRVRun.inv hu hM (by linarith) hEm0 hEm hGE hE hok h hm0 hv0 hv4
    (by rw [sub_self, abs_zero]; exact hEm0) (by rw [sub_self, abs_zero]; exact hG0.trans hGE)
  exact ⟨this.2.2.2.1, this.2.2.2.2⟩

/-- **the model, numerical bounds as parameters.**  `RunningVariance(lifetime = l)`, `l ≥ 1`,
    `4 u l < 1`; given `(1+u)³ ≤ g`, `(1+u)³ − 1 ≤ c u`, `1/(1 − 4ul) ≤ d`, `4 d l u ≤ e₀` and
    `C ≥ d (4 g (2+e₀)² + 4 c + 4 d g (4+e₀))`:  `|m − mean| ≤ 4 d·l·u·M`, `|v − var| ≤ C·l·u·M²`
    after any number of observations; also the bounds of the exact state. -/
theorem rvar_float_error_model_gen {u l M g c d e0 C : K} (hu : 0 ≤ u) (hM : 0 ≤ M) (hl : 1 ≤ l)
    (hul : 4 * u * l < 1) (hg : (1 + u) ^ 3 ≤ g) (hc0 : 0 ≤ c) (hc : (1 + u) ^ 3 - 1 ≤ c * u)
    (hd : 1 ≤ d * (1 - 4 * u * l)) (he0 : 4 * d * (l * u) ≤ e0)
    (hC : d * (4 * g * (2 + e0) ^ 2 + 4 * c + g * (4 * d) * (4 + e0)) ≤ C)
    {xs : List K} (hx : ∀ x ∈ xs, |x| ≤ M) {m v : K} (h : FlRVar u l xs m v) :
    |m - (rvrunK l xs).mean.acc| ≤ 4 * d * (l * u) * M
      ∧ |v - (rvrunK l xs).var.acc| ≤ C * (l * u) * M ^ 2
      ∧ |(rvrunK l xs).mean.acc| ≤ M ∧ 0 ≤ (rvrunK l xs).var.acc
      ∧ (rvrunK l xs).var.acc ≤ 4 * M ^ 2 := by
  have hl0 : 0 < l := by linarith
  have hu4 : u ≤ 1 / 4 := by nlinarith
  have ha : 4 * u < 1 / l := by rw [lt_div_iff₀ hl0]; exact hul
  have hok := modelPairs_ok (one_div_le_one_of_one_le hl) 0 hx
  obtain ⟨e1, e2⟩ := rvar_float_error_sharp hu hu4 hM ha hok h (by simpa using hM) le_rfl
    (by positivity)
  obtain ⟨_, k2, k3⟩ := rvE_le hu hM hl hul hg hc0 hc hd he0 hC rfl
  obtain ⟨b1, b2, b3⟩ := exact_rvar_bounds hM hl hx
  have hh := rvrunK_eq_wvrun l xs
  have h1 : (rvrunK l xs).mean.acc = (wvrun 0 0 (modelPairs (1 / l) 0 xs)).1 := by rw [← hh]
  have h2 : (rvrunK l xs).var.acc = (wvrun 0 0 (modelPairs (1 / l) 0 xs)).2 := by rw [← hh]
  refine ⟨?_, ?_, b1, b2, b3⟩
  · rw [h1]; exact e1.trans k2
  · rw [h2]; exact e2.trans k3

/-- **the error of the float running variance**, `RunningVariance(lifetime = l)`, `l ≥ 1`,
    `8·l·u ≤ 1`, `|x| ≤ M`: for EVERY possible float run and ANY number of observations
    `|mean.acc − exact| ≤ 8·l·u·M` and `|var.acc − exact| ≤ 244·l·u·M²`. -/
theorem rvar_float_error_model {u l M : K} (hu : 0 ≤ u) (hM : 0 ≤ M) (hl : 1 ≤ l)
    (hsmall : 8 * l * u ≤ 1) {xs : List K} (hx : ∀ x ∈ xs, |x| ≤ M) {m v : K}
    (h : FlRVar u l xs m v) :
    |m - (rvrunK l xs).mean.acc| ≤ 8 * l * u * M
      ∧ |v - (rvrunK l xs).var.acc| ≤ 244 * l * u * M ^ 2 := by
  have hu8 : u ≤ 1 / 8 := by nlinarith
  have hg8 := gam3_le_eighth hu hu8
  have := rvar_float_error_model_gen (g := 729 / 512) (c := 217 / 64) (d := 2) (e0 := 1)
    (C := 244) hu hM hl (by linarith) (by linarith) (by norm_num) hg8 (by linarith)
    (by linarith) (by norm_num) hx h
  refine ⟨this.1.trans (le_of_eq (by ring)), this.2.1.trans (le_of_eq (by ring))⟩

/-- the same under the stronger smallness `64·l·u ≤ 1` (as for the Welford variance, C05):
    `|mean.acc − exact| ≤ 5·l·u·M`, `|var.acc − exact| ≤ 52·l·u·M²` -/
theorem rvar_float_error_model_tight {u l M : K} (hu : 0 ≤ u) (hM : 0 ≤ M) (hl : 1 ≤ l)
    (hsmall : 64 * l * u ≤ 1) {xs : List K} (hx : ∀ x ∈ xs, |x| ≤ M) {m v : K}
    (h : FlRVar u l xs m v) :
    |m - (rvrunK l xs).mean.acc| ≤ 5 * l * u * M
      ∧ |v - (rvrunK l xs).var.acc| ≤ 52 * l * u * M ^ 2 := by
  have hu64 : u ≤ 1 / 64 := by nlinarith
  have hγ : (1 + u) ^ 3 - 1 ≤ 25 / 8 * u := by
    have e : (1 + u) ^ 3 - 1 = u * (3 + 3 * u + u * u) := by ring
    have h2 : u * u ≤ 1 / 4096 := by nlinarith
    rw [e]
    calc u * (3 + 3 * u + u * u) ≤ u * (25 / 8) := mul_le_mul_of_nonneg_left (by linarith) hu
      _ = 25 / 8 * u := by ring
  have hlu : 0 ≤ l * u := mul_nonneg (by linarith) hu
  have := rvar_float_error_model_gen (g := 537 / 512) (c := 25 / 8) (d := 16 / 15) (e0 := 1 / 15)
    (C := 52) hu hM hl (by linarith) (by linarith) (by norm_num) hγ (by linarith)
    (by linarith) (by norm_num) hx h
  refine ⟨this.1.trans ?_, this.2.1.trans (le_of_eq (by ring))⟩
  have : 0 ≤ l * u * M := mul_nonneg hlu hM
  linarith

/-- natural lifetime `L`, against `C17.rvrun L xs` -/
theorem rvar_float_error {u M : K} (hu : 0 ≤ u) (hM : 0 ≤ M) {L : ℕ} (hL : 1 ≤ L)
    (hsmall : 8 * (L : K) * u ≤ 1) {xs : List K} (hx : ∀ x ∈ xs, |x| ≤ M) {m v : K}
    (h : FlRVar u (L : K) xs m v) :
    |m - (C17.rvrun L xs).mean.acc| ≤ 8 * (L : K) * u * M
      ∧ |v - (C17.rvrun L xs).var.acc| ≤ 244 * (L : K) * u * M ^ 2 :=
  rvar_float_error_model hu hM (by exact_mod_cast hL) hsmall hx h

theorem rvar_float_error_tight {u M : K} (hu : 0 ≤ u) (hM : 0 ≤ M) {L : ℕ} (hL : 1 ≤ L)
    (hsmall : 64 * (L : K) * u ≤ 1) {xs : List K} (hx : ∀ x ∈ xs, |x| ≤ M) {m v : K}
    (h : FlRVar u (L : K) xs m v) :
    |m - (C17.rvrun L xs).mean.acc| ≤ 5 * (L : K) * u * M
      ∧ |v - (C17.rvrun L xs).var.acc| ≤ 52 * (L : K) * u * M ^ 2 :=
  rvar_float_error_model_tight hu hM (by exact_mod_cast hL) hsmall hx h

/-! ### 4. boundedness, uniformly in the number of observations -/

/-- **boundedness.**  `l ≥ 1`, `8·l·u ≤ 1`, `|x| ≤ M`: every float value of the variance
    accumulator lies in `[−244·l·u·M², 4M²·(1 + 61·l·u)]` and every float value of the mean
    accumulator within `M·(1 + 8·l·u)`, whatever the number of observations.  (In exact
    arithmetic: `[0, 4M²]` and `M`.) -/
theorem rvar_float_bounded_model {u l M : K} (hu : 0 ≤ u) (hM : 0 ≤ M) (hl : 1 ≤ l)
    (hsmall : 8 * l * u ≤ 1) {xs : List K} (hx : ∀ x ∈ xs, |x| ≤ M) {m v : K}
    (h : FlRVar u l xs m v) :
    -(244 * l * u * M ^ 2) ≤ v ∧ v ≤ 4 * M ^ 2 * (1 + 61 * l * u) ∧ |m| ≤ M * (1 + 8 * l * u) := by
  obtain ⟨e1, e2⟩ := rvar_float_error_model hu hM hl hsmall hx h
  obtain ⟨b1, b2, b3⟩ := exact_rvar_bounds hM hl hx
  have h2 := abs_le.mp e2
  refine ⟨by linarith, by linarith, ?_⟩
  calc |m| = |(m - (rvrunK l xs).mean.acc) + (rvrunK l xs).mean.acc| := by ring_nf
    _ ≤ |m - (rvrunK l xs).mean.acc| + |(rvrunK l xs).mean.acc| := abs_add_le _ _
    _ ≤ 8 * l * u * M + M := add_le_add e1 b1
    _ = M * (1 + 8 * l * u) := by ring

/-- the same under `64·l·u ≤ 1`: `v ∈ [−52·l·u·M², 4M²·(1 + 13·l·u)]`, `|m| ≤ M·(1 + 5·l·u)` -/
theorem rvar_float_bounded_model_tight {u l M : K} (hu : 0 ≤ u) (hM : 0 ≤ M) (hl : 1 ≤ l)
    (hsmall : 64 * l * u ≤ 1) {xs : List K} (hx : ∀ x ∈ xs, |x| ≤ M) {m v : K}
    (h : FlRVar u l xs m v) :
    -(52 * l * u * M ^ 2) ≤ v ∧ v ≤ 4 * M ^ 2 * (1 + 13 * l * u) ∧ |m| ≤ M * (1 + 5 * l * u) := by
  obtain ⟨e1, e2⟩ := rvar_float_error_model_tight hu hM hl hsmall hx h
  obtain ⟨b1, b2, b3⟩ := exact_rvar_bounds hM hl hx
  have h2 := abs_le.mp e2
  refine ⟨by linarith, by linarith, ?_⟩
  calc |m| = |(m - (rvrunK l xs).mean.acc) + (rvrunK l xs).mean.acc| := by ring_nf
    _ ≤ |m - (rvrunK l xs).mean.acc| + |(rvrunK l xs).mean.acc| := abs_add_le _ _
    _ ≤ 5 * l * u * M + M := add_le_add e1 b1
    _ = M * (1 + 5 * l * u) := by ring

/-! ### 5. warm-up: at most `L` observations — the population variance -/

/-- natural lifetime `L`, `n ≤ L` observations: `RunningVariance` is `Variance` (C17), so the
    float `var.acc` is within `244·L·u·M²` of `Σ(x − x̄)²/n`, and the float `mean.acc` within
    `8·L·u·M` of the mean -/
theorem rvar_float_warmup {u M : K} (hu : 0 ≤ u) (hM : 0 ≤ M) {L : ℕ} (hL : 1 ≤ L)
    (hsmall : 8 * (L : K) * u ≤ 1) {xs : List K} (hne : xs ≠ []) (hlen : xs.length ≤ L)
    (hx : ∀ x ∈ xs, |x| ≤ M) {m v : K} (h : FlRVar u (L : K) xs m v) :
    |m - batchMean xs| ≤ 8 * (L : K) * u * M
      ∧ |v - sumSqDev xs / (xs.length : K)| ≤ 244 * (L : K) * u * M ^ 2 := by
  obtain ⟨e1, e2⟩ := rvar_float_error hu hM hL hsmall hx h
  obtain ⟨w1, w2, _⟩ := C17.running_eq_plain_variance hL xs hlen
  have hn : ((xs.length : ℕ) : K) ≠ 0 := Nat.cast_ne_zero.mpr (by
    intro h0; exact hne (List.length_eq_zero_iff.mp h0))
  have hv : (Variance.run xs).var.val = sumSqDev xs / (xs.length : K) := by
    rw [eq_div_iff hn, mul_comm]; exact C05FloatVar.exact_W_eq xs
  have hm : (Variance.run xs).mean.val = batchMean xs := by
    rw [Variance.run_mean, Mean.run_val xs hne]; rfl
  rw [w1, hm] at e1
  rw [w2, hv] at e2
  exact ⟨e1, e2⟩

/-! ### 6. the read-out `.value = var.acc * (n / (n − 1))` -/

/-- the exact read-out of the model (Python raises `ZeroDivisionError` at `n = 1`) -/
theorem exact_value (l : K) (xs : List K) (h1 : xs.length ≠ 1) :
    (rvrunK l xs).value
      = .ok ((rvrunK l xs).var.acc * ((xs.length : K) / ((xs.length : K) - 1))) := by
  have hn : (rvrunK l xs).n = xs.length := (RVariance.run_n l xs).1
  simp [RVariance.value, hn, h1]

/-- from a bound `|v − w| ≤ B`, `0 ≤ w ≤ W` to the rounded read-out (`FlVarValue`, C05FloatVar:
    the quotient `n/(n−1)` and the product are rounded once each) -/
theorem value_error_of_bound {u B W : K} {n : ℕ} (hn : 2 ≤ n) {v w r : K}
    (hB : |v - w| ≤ B) (hw0 : 0 ≤ w) (hw : w ≤ W) (hr : C05FloatVar.FlVarValue u n v r) :
    |r - w * ((n : K) / ((n : K) - 1))|
      ≤ (n : K) / ((n : K) - 1) * ((1 + u) ^ 2 * B + ((1 + u) ^ 2 - 1) * W) := by
  obtain ⟨ρ, ⟨δa, ha, rfl⟩, ⟨δb, hb, rfl⟩⟩ := hr
  have hn1 : (0 : K) < (n : K) - 1 := by
    have : (2 : K) ≤ (n : K) := by exact_mod_cast hn
    linarith
  have hρ : 0 ≤ (n : K) / ((n : K) - 1) := div_nonneg (Nat.cast_nonneg n) hn1.le
  have hB0 : 0 ≤ B := (abs_nonneg _).trans hB
  have hπ1 : |(1 + δa) * (1 + δb) - 1| ≤ (1 + u) ^ 2 - 1 := abs_prod2_sub_one ha hb
  have hπ : |(1 + δa) * (1 + δb)| ≤ (1 + u) ^ 2 := by
    have := abs_le_of_sub_one hπ1; linarith
  have hγ2 : 0 ≤ (1 + u) ^ 2 - 1 := (abs_nonneg _).trans hπ1
  have e : v * ((n : K) / ((n : K) - 1) * (1 + δa)) * (1 + δb) - w * ((n : K) / ((n : K) - 1))
      = (n : K) / ((n : K) - 1)
        * ((v - w) * ((1 + δa) * (1 + δb)) + w * ((1 + δa) * (1 + δb) - 1)) := by ring
  rw [e, abs_mul, abs_of_nonneg hρ]
  apply mul_le_mul_of_nonneg_left _ hρ
  calc |(v - w) * ((1 + δa) * (1 + δb)) + w * ((1 + δa) * (1 + δb) - 1)|
      ≤ |(v - w) * ((1 + δa) * (1 + δb))| + |w * ((1 + δa) * (1 + δb) - 1)| := abs_add_le _ _
    _ = |v - w| * |(1 + δa) * (1 + δb)| + w * |(1 + δa) * (1 + δb) - 1| := by
        rw [abs_mul (v - w), abs_mul w, abs_of_nonneg hw0]
    _ ≤ B * (1 + u) ^ 2 + W * ((1 + u) ^ 2 - 1) :=
        add_le_add (mul_le_mul hB hπ (abs_nonneg _) hB0)
          (mul_le_mul hw hπ1 (abs_nonneg _) (hw0.trans hw))
    _ = (1 + u) ^ 2 * B + ((1 + u) ^ 2 - 1) * W := by ring

/-- **the read-out.**  `n ≥ 2` observations, `l ≥ 1`, `8·l·u ≤ 1`: every float value `r` of
    `var.acc * (n / (n − 1))` is within `n/(n−1)·318·l·u·M²` of the exact `.value` -/
theorem rvar_float_value_error {u l M : K} (hu : 0 ≤ u) (hM : 0 ≤ M) (hl : 1 ≤ l)
    (hsmall : 8 * l * u ≤ 1) {xs : List K} (h2 : 2 ≤ xs.length) (hx : ∀ x ∈ xs, |x| ≤ M)
    {m v r : K} (h : FlRVar u l xs m v) (hr : C05FloatVar.FlVarValue u xs.length v r) :
    (rvrunK l xs).value
        = .ok ((rvrunK l xs).var.acc * ((xs.length : K) / ((xs.length : K) - 1)))
      ∧ |r - (rvrunK l xs).var.acc * ((xs.length : K) / ((xs.length : K) - 1))|
          ≤ (xs.length : K) / ((xs.length : K) - 1) * (318 * l * u * M ^ 2) := by
  refine ⟨exact_value l xs (by omega), ?_⟩
  obtain ⟨_, e2⟩ := rvar_float_error_model hu hM hl hsmall hx h
  obtain ⟨_, b2, b3⟩ := exact_rvar_bounds hM hl hx
  have hv := value_error_of_bound h2 e2 b2 b3 hr
  refine hv.trans ?_
  have hn1 : (0 : K) < (xs.length : K) - 1 := by
    have : (2 : K) ≤ (xs.length : K) := by exact_mod_cast h2
    linarith
  have hρ : 0 ≤ (xs.length : K) / ((xs.length : K) - 1) := div_nonneg (Nat.cast_nonneg _) hn1.le
  apply mul_le_mul_of_nonneg_left _ hρ
  -- (1+u)² ≤ 81/64, (1+u)² − 1 ≤ 17/8·u ≤ 17/8·l·u
  have hu8 : u ≤ 1 / 8 := by nlinarith
  have hlu : 0 ≤ l * u := mul_nonneg (by linarith) hu
  have hul : u ≤ l * u := by nlinarith
  have k1 : (1 + u) ^ 2 ≤ 81 / 64 := by nlinarith
  have k2 : (1 + u) ^ 2 - 1 ≤ 17 / 8 * (l * u) := by nlinarith
  have hluM : 0 ≤ l * u * M ^ 2 := by positivity
  have hM2 : 0 ≤ M ^ 2 := by positivity
  have t1 : (1 + u) ^ 2 * (244 * l * u * M ^ 2) ≤ 81 / 64 * (244 * l * u * M ^ 2) :=
    mul_le_mul_of_nonneg_right k1 (by nlinarith)
  have t2 : ((1 + u) ^ 2 - 1) * (4 * M ^ 2) ≤ 17 / 8 * (l * u) * (4 * M ^ 2) :=
    mul_le_mul_of_nonneg_right k2 (by positivity)
  nlinarith

/-! ### 7. non-vacuity over ℚ: `RunningVariance(lifetime = 2)`, `xs = [4, 2, 8]`, `u = 1/1000`;
    weights `1, 1/2, 1/2`; exact means `4, 3, 11/2`; exact increments `0, 2, 25/2`;
    exact `var.acc` `0, 1, 27/4` -/

example : modelPairs (1 / (2 : ℚ)) 0 [4, 2, 8] = [(1, 4), (1 / 2, 2), (1 / 2, 8)] := by
  norm_num [modelPairs, effA, pymax]

example : (C17.rvrun 2 ([4, 2, 8] : List ℚ)).mean.acc = 11 / 2
    ∧ (C17.rvrun 2 ([4, 2, 8] : List ℚ)).var.acc = 27 / 4 := by
  norm_num [C17.rvrun, RVariance.push, RVariance.init, RMean.push, RMean.pushWith, RMean.init, pymax]

example : (rvrunK (2 : ℚ) [4, 2, 8]).value = .ok (81 / 8) := by
  norm_num [rvrunK, RVariance.value, RVariance.n, RVariance.push, RVariance.init, RMean.push,
    RMean.pushWith, RMean.init, pymax]

/-- a genuinely perturbed run -/
example : ∃ m v : ℚ, FlRVar (1 / 1000) 2 [4, 2, 8] m v ∧ m ≠ 11 / 2 ∧ v ≠ 27 / 4
    ∧ |m - 11 / 2| ≤ 5 * 2 * (1 / 1000) * 8 ∧ |v - 27 / 4| ≤ 52 * 2 * (1 / 1000) * 8 ^ 2 := by
  have hp : modelPairs (1 / (2 : ℚ)) 0 [4, 2, 8] = [(1, 4), (1 / 2, 2), (1 / 2, 8)] := by
    norm_num [modelPairs, effA, pymax]
  have s1 := flRVStep_of_deltas (u := (1 / 1000 : ℚ)) 1 0 0 4
    (1 / 1000) 0 (-1 / 1000) (1 / 1000) 0 (1 / 1000) (1 / 1000) 0 (1 / 1000) 0 (-1 / 1000)
    (by norm_num [abs_le]) (by norm_num [abs_le]) (by norm_num [abs_le]) (by norm_num [abs_le])
    (by norm_num [abs_le]) (by norm_num [abs_le]) (by norm_num [abs_le]) (by norm_num [abs_le])
    (by norm_num [abs_le]) (by norm_num [abs_le]) (by norm_num [abs_le])
  have s2 := fun m v : ℚ => flRVStep_of_deltas (u := (1 / 1000 : ℚ)) (1 / 2) m v 2
    0 (1 / 1000) (1 / 1000) (-1 / 1000) (1 / 1000) 0 (-1 / 1000) (1 / 1000) 0 (1 / 1000) (1 / 1000)
    (by norm_num [abs_le]) (by norm_num [abs_le]) (by norm_num [abs_le]) (by norm_num [abs_le])
    (by norm_num [abs_le]) (by norm_num [abs_le]) (by norm_num [abs_le]) (by norm_num [abs_le])
    (by norm_num [abs_le]) (by norm_num [abs_le]) (by norm_num [abs_le])
  have s3 := fun m v : ℚ => flRVStep_of_deltas (u := (1 / 1000 : ℚ)) (1 / 2) m v 8
    (-1 / 1000) (1 / 1000) 0 (1 / 1000) (1 / 1000) (-1 / 1000) 0 (1 / 1000) (-1 / 1000) (1 / 1000) 0
    (by norm_num [abs_le]) (by norm_num [abs_le]) (by norm_num [abs_le]) (by norm_num [abs_le])
    (by norm_num [abs_le]) (by norm_num [abs_le]) (by norm_num [abs_le]) (by norm_num [abs_le])
    (by norm_num [abs_le]) (by norm_num [abs_le]) (by norm_num [abs_le])
  have r := flRVRun_cons_intro s1 (flRVRun_cons_intro (s2 _ _) (flRVRun_cons_intro (s3 _ _)
    (flRVRun_nil_intro _ _ _)))
  rw [← hp] at r
  refine ⟨_, _, r, ?_, ?_, ?_, ?_⟩ <;> norm_num [abs_le]

/-- and the theorems apply to every such run: `8·2/1000 ≤ 1`, `64·2/1000 ≤ 1`, `|x| ≤ 8` -/
example (m v : ℚ) (h : FlRVar (1 / 1000) 2 [4, 2, 8] m v) :
    |m - 11 / 2| ≤ 5 * 2 * (1 / 1000) * 8 ∧ |v - 27 / 4| ≤ 52 * 2 * (1 / 1000) * 8 ^ 2
      ∧ -(52 * 2 * (1 / 1000) * 8 ^ 2) ≤ v ∧ v ≤ 4 * 8 ^ 2 * (1 + 13 * 2 * (1 / 1000)) := by
  have hx : ∀ x ∈ ([4, 2, 8] : List ℚ), |x| ≤ 8 := by
    intro x hx; simp at hx; rcases hx with rfl | rfl | rfl <;> norm_num [abs_le]
  have h1 := rvar_float_error_model_tight (u := (1 / 1000 : ℚ)) (l := 2) (M := 8) (by norm_num)
    (by norm_num) (by norm_num) (by norm_num) hx h
  have h2 := rvar_float_bounded_model_tight (u := (1 / 1000 : ℚ)) (l := 2) (M := 8) (by norm_num)
    (by norm_num) (by norm_num) (by norm_num) hx h
  have e : (rvrunK (2 : ℚ) [4, 2, 8]).mean.acc = 11 / 2
      ∧ (rvrunK (2 : ℚ) [4, 2, 8]).var.acc = 27 / 4 := by
    norm_num [rvrunK, RVariance.push, RVariance.init, RMean.push, RMean.pushWith, RMean.init, pymax]
  rw [e.1, e.2] at h1
  exact ⟨h1.1, h1.2, h2.1, h2.2.1⟩

/-- the hypotheses of the `8·l·u ≤ 1` form hold as well -/
example (m v : ℚ) (h : FlRVar (1 / 1000) 2 [4, 2, 8] m v) :
    |v - 27 / 4| ≤ 244 * 2 * (1 / 1000) * 8 ^ 2 := by
  have hx : ∀ x ∈ ([4, 2, 8] : List ℚ), |x| ≤ 8 := by
    intro x hx; simp at hx; rcases hx with rfl | rfl | rfl <;> norm_num [abs_le]
  have h1 := rvar_float_error_model (u := (1 / 1000 : ℚ)) (l := 2) (M := 8) (by norm_num)
    (by norm_num) (by norm_num) (by norm_num) hx h
  have e : (rvrunK (2 : ℚ) [4, 2, 8]).var.acc = 27 / 4 := by
    norm_num [rvrunK, RVariance.push, RVariance.init, RMean.push, RMean.pushWith, RMean.init, pymax]
  rw [e] at h1
  exact h1.2

end Gpv.C17FloatVar

#print axioms Gpv.C17FloatVar.flRVStep_def
#print axioms Gpv.C17FloatVar.flRVRun_nil
#print axioms Gpv.C17FloatVar.flRVRun_cons
#print axioms Gpv.C17FloatVar.wvstep_def
#print axioms Gpv.C17FloatVar.wvrun_nil_def
#print axioms Gpv.C17FloatVar.wvrun_cons_def
#print axioms Gpv.C17FloatVar.exact_increment
#print axioms Gpv.C17FloatVar.rvrun_eq_rvrunK
#print axioms Gpv.C17FloatVar.rvrunK_eq_wvrun
#print axioms Gpv.C17FloatVar.exact_run_possible
#print axioms Gpv.C17FloatVar.exact_is_the_float_run
#print axioms Gpv.C17FloatVar.exact_is_the_float_run_general
#print axioms Gpv.C17FloatVar.exact_run_possible_general
#print axioms Gpv.C17FloatVar.float_run_mono
#print axioms Gpv.C17FloatVar.float_run_mono_model
#print axioms Gpv.C17FloatVar.flRVRun_nil_intro
#print axioms Gpv.C17FloatVar.flRVRun_cons_intro
#print axioms Gpv.C17FloatVar.float_run_append
#print axioms Gpv.C17FloatVar.rvar_run_mean
#print axioms Gpv.C17FloatVar.exact_rvar_bounds
#print axioms Gpv.C17FloatVar.rvar_step_invariant
#print axioms Gpv.C17FloatVar.rvMq_def
#print axioms Gpv.C17FloatVar.rvG_def
#print axioms Gpv.C17FloatVar.rvar_float_error_sharp
#print axioms Gpv.C17FloatVar.rvar_float_error_model_gen
#print axioms Gpv.C17FloatVar.rvar_float_error_model
#print axioms Gpv.C17FloatVar.rvar_float_error_model_tight
#print axioms Gpv.C17FloatVar.rvar_float_error
#print axioms Gpv.C17FloatVar.rvar_float_error_tight
#print axioms Gpv.C17FloatVar.rvar_float_bounded_model
#print axioms Gpv.C17FloatVar.rvar_float_bounded_model_tight
#print axioms Gpv.C17FloatVar.rvar_float_warmup
#print axioms Gpv.C17FloatVar.exact_value
#print axioms Gpv.C17FloatVar.value_error_of_bound
#print axioms Gpv.C17FloatVar.rvar_float_value_error
