/-
  C06, floating-point clause for the VARIANCE merge — a machine-checked rounding-error bound
  for the pooled (Chan et al.) update of `Variance._accumulate_other`
      dmean  = self.mean.value - other.mean.value ;  newn = self.n + other.n
      newvar = self.var.sum + other.var.sum + dmean ** 2 * self.n * other.n / newn
      self.var = Mean(value=newvar / newn, n=newn)                  (`.sum = _val * n`)
  (`Variance.merge`, Gpv/Model/Accum.lean; the mean component is merged by `Mean.merge`, whose
  float analysis is Gpv/Props/C06Float.lean).

  Model (Gpv/Proofs/FloatVarMerge.lean, on top of Gpv/Proofs/FloatMean.lean): each of the TEN
  floating-point operations — the difference, the two `.sum` products, the square (one rounded
  product `dmean * dmean`), the products with `n` and with `m` and the division by `newn`
  (left to right, as Python parses `dmean ** 2 * n * m / newn`), the two additions (left to
  right), the final division — returns its exact result times `1 + δ`, `|δ| ≤ u` (`u` unit
  roundoff, `2^-53` for binary64), δ's arbitrary and independent; the integer counts `n`, `m`,
  `newn` are exact; no overflow/underflow.
  `FlVarMerge u a va n b vb m r` : `r` is a possible new `var.value` (population variance)
  when merging (mean `a`, pop. variance `va`, count `n`) with (mean `b`, `vb`, `m`).

  Notation: `N = n + m`, `V = (n·va + m·vb + (a − b)²·n·m/N) / N` the exact result (= the
  population variance of the concatenation, C06 `variance_merge_eq`), `γ_k = (1+u)^k − 1`.

  Proved, for EVERY possible float result `r`:

  * `flVarMerge_def`, `exact_merge_possible`, `exact_is_the_float_merge` (at `u = 0` the only
    result is the `var.val` of the model's `Variance.merge`), `float_merge_mono`,
    `exact_merged_runs_possible` (… of `Variance.run (xs ++ ys)`).
  * `var_merge_float_expansion`   N·r = n·va·πa + m·vb·πb + (a−b)²·(n·m/N)·πc with
        |πa − 1|, |πb − 1| ≤ γ₄, |πc − 1| ≤ γ₈: the two `.sum` terms see 4 roundings, the
        `dmean` term 8 (the rounded difference enters squared).
  * `var_merge_float_error_split` |r − V| ≤ (γ₄·(n|va| + m|vb|) + γ₈·(a−b)²·n·m/N) / N
        — no sign, no smallness hypothesis.
  * `var_merge_float_error`       for va, vb ≥ 0:   |r − V| ≤ ((1+u)⁸ − 1)·V     (RELATIVE; the
        only subtraction `a − b` is a single rounded operation on exact inputs, all three
        terms of V are ≥ 0, so nothing cancels).  `k = 8` is sharp:
  * `var_merge_float_error_attained`  va = vb = 0, all δ = u gives r = (1+u)⁸·V exactly.
  * `var_merge_float_error_eighth`  ≤ 13·u·V for u ≤ 1/8;  `…_64th`  ≤ (17/2)·u·V for u ≤ 1/64.
  * `var_merge_float_vs_model`    the same against `(Variance.merge …).var.val`.
  * `var_merge_float_nonneg`, `var_merge_float_magnitude`   0 ≤ r ≤ (1+u)⁸·V  (u ≤ 1).
  * `var_merge_float_error_perturbed`  operands that carry errors |a − a₀| ≤ Ea, |b − b₀| ≤ Eb,
        |va − va₀| ≤ Eva, |vb − vb₀| ≤ Evb (va₀, vb₀ ≥ 0), against V₀ = V(a₀, va₀, b₀, vb₀):
        |r − V₀| ≤ γ₈·V₀ + (1+u)⁴·(n·Eva + m·Evb)/N
                        + (1+u)⁸·(2|a₀−b₀|(Ea+Eb) + (Ea+Eb)²)·n·m/N².
    (`var_merge_float_compose` is the division-free general form.)
  * `merged_var_streams_float_defect / _error / _vs_model`  two float WELFORD runs
        (`FlVarRun`, C05FloatVar) over `xs`, `ys` (|x| ≤ M, 64·|xs|·u ≤ 1, 64·|ys|·u ≤ 1), merged:
        |N·r − S| ≤ 9u·S + 62·N²·u·M²,   S = Σ (x − x̄)² over xs ++ ys
    — compare `4u·S + 58·N²·u·M²` for one Welford run over all N observations
    (`C05FloatVar.var_float_defect`): the merge costs 5u relative and 4·N²·u·M² absolute.

  Not proved here: merge TREES of variance accumulators (the composition lemma
  `var_merge_float_compose` together with `C06Float.tree_float_defect` for the means is what
  an induction would use); a centred (`|x − c| ≤ R`) form of the merged-streams bound; the
  read-out `.value = var·(n/(n−1))` after a merge (it is `C05FloatVar.value_error_of_defect`
  applied to `merged_var_streams_float_defect`).  `dmean ** 2` as `pow(dmean, 2.0)` with a
  libm that is not correctly rounded is outside the model.
-/
import Gpv.Proofs.FloatVarMerge
import Gpv.Props.C05FloatVar
import Gpv.Props.C06Float
set_option linter.unusedSectionVars false

namespace Gpv.C06FloatVar
open Gpv Gpv.C06
variable {K : Type} [Field K] [LinearOrder K] [IsStrictOrderedRing K]

/-! ### 1. the model -/

/-- the relation, unfolded: ten operations, each rounded once (`Rnd u e r : r = e (1+δ), |δ| ≤ u`) -/
theorem flVarMerge_def (u a va : K) (n : ℕ) (b vb : K) (m : ℕ) (r : K) :
    FlVarMerge u a va n b vb m r ↔ ∃ d sa sb q q1 q2 q3 s1 s2 : K,
      Rnd u (a - b) d ∧ Rnd u (va * (n : K)) sa ∧ Rnd u (vb * (m : K)) sb
        ∧ Rnd u (d * d) q ∧ Rnd u (q * (n : K)) q1 ∧ Rnd u (q1 * (m : K)) q2
        ∧ Rnd u (q2 / ((n + m : ℕ) : K)) q3
        ∧ Rnd u (sa + sb) s1 ∧ Rnd u (s1 + q3) s2 ∧ Rnd u (s2 / ((n + m : ℕ) : K)) r := Iff.rfl

/-- the `var.val` of the model's exact `Variance.merge` is a possible float result, for every
    `u ≥ 0` -/
theorem exact_merge_possible {u : K} (hu : 0 ≤ u) (a va b vb : K) {n m : ℕ} (hnm : n + m ≠ 0) :
    FlVarMerge u a va n b vb m
      ((⟨⟨a, n⟩, ⟨va, n⟩⟩ : Variance K).merge ⟨⟨b, m⟩, ⟨vb, m⟩⟩).var.val := by
  rw [(Variance.merge_var_val a va b vb hnm).1]; exact FlVarMerge.of_exact hu a va n b vb m

/-- with `u = 0` the only possible float result is the model's `Variance.merge` — the
    function C06 (`variance_merge_eq`) proves equal to accumulating the concatenation -/
theorem exact_is_the_float_merge (a va b vb r : K) {n m : ℕ} (hnm : n + m ≠ 0) :
    FlVarMerge 0 a va n b vb m r
      ↔ r = ((⟨⟨a, n⟩, ⟨va, n⟩⟩ : Variance K).merge ⟨⟨b, m⟩, ⟨vb, m⟩⟩).var.val := by
  rw [(Variance.merge_var_val a va b vb hnm).1]; exact flVarMerge_zero_iff a va n b vb m r

/-- a larger unit roundoff allows more results -/
theorem float_merge_mono {u u' : K} (h : u ≤ u') {a va b vb r : K} {n m : ℕ}
    (hm : FlVarMerge u a va n b vb m r) : FlVarMerge u' a va n b vb m r := hm.mono h

/-- the value the model returns, in closed form -/
theorem model_merge_value (a va b vb : K) {n m : ℕ} (hnm : n + m ≠ 0) :
    ((⟨⟨a, n⟩, ⟨va, n⟩⟩ : Variance K).merge ⟨⟨b, m⟩, ⟨vb, m⟩⟩).var.val
      = ((n : K) * va + (m : K) * vb + (a - b) ^ 2 * (n : K) * (m : K) / ((n + m : ℕ) : K))
          / ((n + m : ℕ) : K) := by
  rw [(Variance.merge_var_val a va b vb hnm).1, varMergeVal_eq]

/-- merging the exact Welford states of `xs` and `ys`: the exact variance state of `xs ++ ys`
    is a possible float result (and at `u = 0` the only one) -/
theorem exact_merged_runs_possible {u : K} (hu : 0 ≤ u) (xs ys : List K) :
    FlVarMerge u (Variance.run xs).mean.val (Variance.run xs).var.val xs.length
      (Variance.run ys).mean.val (Variance.run ys).var.val ys.length
      (Variance.run (xs ++ ys)).var.val := by
  rw [← varMergeVal_run]; exact FlVarMerge.of_exact hu _ _ _ _ _ _

/-- at `u = 0` a float merge of the exact Welford states of `xs`, `ys` can only return the
    `var.val` of the model's `(Variance.run xs).merge (Variance.run ys)` -/
theorem exact_merged_runs_forced (xs ys : List K) (r : K) :
    FlVarMerge 0 (Variance.run xs).mean.val (Variance.run xs).var.val xs.length
      (Variance.run ys).mean.val (Variance.run ys).var.val ys.length r
      ↔ r = ((Variance.run xs).merge (Variance.run ys)).var.val := by
  rw [variance_merge_eq, ← varMergeVal_run]; exact flVarMerge_zero_iff _ _ _ _ _ _ _

/-! ### 2. one merge, exact operands -/

/-- **the expansion**: every term of `N·V` carries its own product of roundings — four for
    the `.sum` terms, eight for the `dmean` term -/
theorem var_merge_float_expansion {u a va b vb r : K} {n m : ℕ} (h : FlVarMerge u a va n b vb m r) :
    ∃ πa πb πc : K, |πa - 1| ≤ (1 + u) ^ 4 - 1 ∧ |πb - 1| ≤ (1 + u) ^ 4 - 1
      ∧ |πc - 1| ≤ (1 + u) ^ 8 - 1
      ∧ ((n + m : ℕ) : K) * r
          = (n : K) * va * πa + (m : K) * vb * πb
            + (a - b) ^ 2 * ((n : K) * (m : K) / ((n + m : ℕ) : K)) * πc := by
  obtain ⟨πa, πb, πc, h1, h2, h3, _, h5⟩ := h.expand
  exact ⟨πa, πb, πc, h1, h2, h3, h5⟩

/-- **one merge, split form** — no sign and no smallness hypothesis:
    `|r − V| ≤ (γ₄·(n|va| + m|vb|) + γ₈·(a−b)²·n·m/N) / N` -/
theorem var_merge_float_error_split {u a va b vb r : K} {n m : ℕ} (hnm : n + m ≠ 0)
    (h : FlVarMerge u a va n b vb m r) :
    |r - ((n : K) * va + (m : K) * vb + (a - b) ^ 2 * (n : K) * (m : K) / ((n + m : ℕ) : K))
          / ((n + m : ℕ) : K)|
      ≤ (((1 + u) ^ 4 - 1) * ((n : K) * |va| + (m : K) * |vb|)
          + ((1 + u) ^ 8 - 1) * ((a - b) ^ 2 * (n : K) * (m : K) / ((n + m : ℕ) : K)))
        / ((n + m : ℕ) : K) := by
  have hN : (0 : K) < ((n + m : ℕ) : K) := Nat.cast_pos.mpr (by omega)
  have hd := abs_sub_div_le_of_defect hN h.defect
  have e1 : (n : K) * va + (m : K) * vb + (a - b) ^ 2 * (n : K) * (m : K) / ((n + m : ℕ) : K)
      = (n : K) * va + (m : K) * vb + (a - b) ^ 2 * ((n : K) * (m : K) / ((n + m : ℕ) : K)) := by ring
  have e2 : (a - b) ^ 2 * (n : K) * (m : K) / ((n + m : ℕ) : K)
      = (a - b) ^ 2 * ((n : K) * (m : K) / ((n + m : ℕ) : K)) := by ring
  rw [e1, e2]; exact hd

/-- **one merge, the relative bound.**  For non-negative operand variances every possible
    float result is within `(1+u)⁸ − 1 = 8u + 28u² + …` of the exact merged variance `V`,
    RELATIVE to `V` — independent of the counts, the means and their distance -/
theorem var_merge_float_error {u a va b vb r : K} {n m : ℕ} (hva : 0 ≤ va) (hvb : 0 ≤ vb)
    (hnm : n + m ≠ 0) (h : FlVarMerge u a va n b vb m r) :
    |r - ((n : K) * va + (m : K) * vb + (a - b) ^ 2 * (n : K) * (m : K) / ((n + m : ℕ) : K))
          / ((n + m : ℕ) : K)|
      ≤ ((1 + u) ^ 8 - 1)
        * (((n : K) * va + (m : K) * vb + (a - b) ^ 2 * (n : K) * (m : K) / ((n + m : ℕ) : K))
            / ((n + m : ℕ) : K)) := by
  have hu := h.u_nonneg
  have hN : (0 : K) < ((n + m : ℕ) : K) := Nat.cast_pos.mpr (by omega)
  have hn0 : (0 : K) ≤ (n : K) := Nat.cast_nonneg n
  have hm0 : (0 : K) ≤ (m : K) := Nat.cast_nonneg m
  have hd := h.defect
  rw [abs_of_nonneg hva, abs_of_nonneg hvb] at hd
  set N : K := ((n + m : ℕ) : K) with hNdef
  set w : K := (n : K) * (m : K) / N with hwdef
  have e1 : (n : K) * va + (m : K) * vb + (a - b) ^ 2 * (n : K) * (m : K) / N
      = (n : K) * va + (m : K) * vb + (a - b) ^ 2 * w := by rw [hwdef]; ring
  rw [e1]
  have h48 := gam_mono hu (show 4 ≤ 8 by norm_num)
  have hX : 0 ≤ (n : K) * va + (m : K) * vb := by positivity
  have hmono := mul_le_mul_of_nonneg_right h48 hX
  have hd' : |N * r - ((n : K) * va + (m : K) * vb + (a - b) ^ 2 * w)|
      ≤ ((1 + u) ^ 8 - 1) * ((n : K) * va + (m : K) * vb + (a - b) ^ 2 * w) := by
    refine hd.trans ?_
    rw [mul_add ((1 + u) ^ 8 - 1)]
    linarith
  refine (abs_sub_div_le_of_defect hN hd').trans (le_of_eq ?_)
  ring

/-- `≤ 13·u·V` for `u ≤ 1/8` -/
theorem var_merge_float_error_eighth {u a va b vb r : K} {n m : ℕ} (hu8 : u ≤ 1 / 8)
    (hva : 0 ≤ va) (hvb : 0 ≤ vb) (hnm : n + m ≠ 0) (h : FlVarMerge u a va n b vb m r) :
    |r - ((n : K) * va + (m : K) * vb + (a - b) ^ 2 * (n : K) * (m : K) / ((n + m : ℕ) : K))
          / ((n + m : ℕ) : K)|
      ≤ 13 * u
        * (((n : K) * va + (m : K) * vb + (a - b) ^ 2 * (n : K) * (m : K) / ((n + m : ℕ) : K))
            / ((n + m : ℕ) : K)) := by
  refine (var_merge_float_error hva hvb hnm h).trans
    (mul_le_mul_of_nonneg_right (gam8_le_eighth h.u_nonneg hu8) ?_)
  positivity

/-- `≤ (17/2)·u·V` for `u ≤ 1/64` (binary64: `u = 2^-53`) -/
theorem var_merge_float_error_64th {u a va b vb r : K} {n m : ℕ} (hu64 : u ≤ 1 / 64)
    (hva : 0 ≤ va) (hvb : 0 ≤ vb) (hnm : n + m ≠ 0) (h : FlVarMerge u a va n b vb m r) :
    |r - ((n : K) * va + (m : K) * vb + (a - b) ^ 2 * (n : K) * (m : K) / ((n + m : ℕ) : K))
          / ((n + m : ℕ) : K)|
      ≤ 17 / 2 * u
        * (((n : K) * va + (m : K) * vb + (a - b) ^ 2 * (n : K) * (m : K) / ((n + m : ℕ) : K))
            / ((n + m : ℕ) : K)) := by
  refine (var_merge_float_error hva hvb hnm h).trans
    (mul_le_mul_of_nonneg_right (gam8_le_64th h.u_nonneg hu64) ?_)
  positivity

/-- the same against the value the model's `Variance.merge` returns -/
theorem var_merge_float_vs_model {u a va b vb r : K} {n m : ℕ} (hu8 : u ≤ 1 / 8)
    (hva : 0 ≤ va) (hvb : 0 ≤ vb) (hnm : n + m ≠ 0) (h : FlVarMerge u a va n b vb m r) :
    |r - ((⟨⟨a, n⟩, ⟨va, n⟩⟩ : Variance K).merge ⟨⟨b, m⟩, ⟨vb, m⟩⟩).var.val|
      ≤ 13 * u * ((⟨⟨a, n⟩, ⟨va, n⟩⟩ : Variance K).merge ⟨⟨b, m⟩, ⟨vb, m⟩⟩).var.val := by
  rw [model_merge_value a va b vb hnm]
  exact var_merge_float_error_eighth hu8 hva hvb hnm h

/-- the float merged variance is never negative (non-negative operands, `u ≤ 1`) -/
theorem var_merge_float_nonneg {u a va b vb r : K} {n m : ℕ} (hu1 : u ≤ 1) (hva : 0 ≤ va)
    (hvb : 0 ≤ vb) (hnm : n + m ≠ 0) (h : FlVarMerge u a va n b vb m r) : 0 ≤ r :=
  h.nonneg hnm hu1 hva hvb

/-- and exceeds the exact value by at most eight roundings -/
theorem var_merge_float_magnitude {u a va b vb r : K} {n m : ℕ} (hva : 0 ≤ va) (hvb : 0 ≤ vb)
    (hnm : n + m ≠ 0) (h : FlVarMerge u a va n b vb m r) :
    r ≤ (1 + u) ^ 8
        * (((n : K) * va + (m : K) * vb + (a - b) ^ 2 * (n : K) * (m : K) / ((n + m : ℕ) : K))
            / ((n + m : ℕ) : K)) := by
  have := (abs_le.mp (var_merge_float_error hva hvb hnm h)).2
  linarith

/-- sharpness of `k = 8`: operands with zero variance, all ten δ equal to `u`: the result is
    exactly `(1+u)⁸·V`, so the error is exactly `((1+u)⁸ − 1)·V` (V in the shape of
    `var_merge_float_error` with `va = vb = 0`); no bound `8·u·V` holds -/
theorem var_merge_float_error_attained {u : K} (hu : 0 ≤ u) (a b : K) (n m : ℕ) :
    ∃ r : K, FlVarMerge u a 0 n b 0 m r
      ∧ r = (1 + u) ^ 8 * ((a - b) ^ 2 * (n : K) * (m : K) / ((n + m : ℕ) : K) / ((n + m : ℕ) : K))
      ∧ r - ((n : K) * 0 + (m : K) * 0 + (a - b) ^ 2 * (n : K) * (m : K) / ((n + m : ℕ) : K))
              / ((n + m : ℕ) : K)
          = ((1 + u) ^ 8 - 1)
            * (((n : K) * 0 + (m : K) * 0 + (a - b) ^ 2 * (n : K) * (m : K) / ((n + m : ℕ) : K))
                / ((n + m : ℕ) : K)) := by
  have habs : |u| ≤ u := by rw [abs_of_nonneg hu]
  refine ⟨_, flVarMerge_of_deltas (u := u) a 0 n b 0 m u u u u u u u u u u
      habs habs habs habs habs habs habs habs habs habs, ?_, ?_⟩
  · ring
  · ring

/-! ### 3. operands that carry errors -/

/-- **composition, division-free.**  `n·va ≈ Sa` within `Ba`, `m·vb ≈ Sb` within `Bb`,
    `a − b ≈ D` within `Ed` -/
theorem var_merge_float_compose {u a va b vb r Sa Sb D Ba Bb Ed : K} {n m : ℕ}
    (h : FlVarMerge u a va n b vb m r)
    (h1 : |(n : K) * va - Sa| ≤ Ba) (h2 : |(m : K) * vb - Sb| ≤ Bb) (h3 : |(a - b) - D| ≤ Ed) :
    |((n + m : ℕ) : K) * r - (Sa + Sb + D ^ 2 * ((n : K) * (m : K) / ((n + m : ℕ) : K)))|
      ≤ ((1 + u) ^ 4 - 1) * (|Sa| + |Sb|)
        + ((1 + u) ^ 8 - 1) * (D ^ 2 * ((n : K) * (m : K) / ((n + m : ℕ) : K)))
        + (1 + u) ^ 4 * (Ba + Bb)
        + (1 + u) ^ 8 * ((2 * |D| * Ed + Ed ^ 2) * ((n : K) * (m : K) / ((n + m : ℕ) : K))) :=
  h.compose h1 h2 h3

/-- **perturbed operands.**  The float merge is applied to `a, va, b, vb` which approximate
    `a₀, va₀, b₀, vb₀` (`va₀, vb₀ ≥ 0`); against the exact merged variance `V₀` of the latter:
    the relative `γ₈·V₀` of the merge itself, plus the operand errors amplified by at most
    `(1+u)⁴` (variances, weights `n/N`, `m/N`) and `(1+u)⁸` (means, weight `n·m/N² ≤ 1/4`) -/
theorem var_merge_float_error_perturbed {u a a0 va va0 b b0 vb vb0 r Ea Eb Eva Evb : K} {n m : ℕ}
    (hnm : n + m ≠ 0) (hva0 : 0 ≤ va0) (hvb0 : 0 ≤ vb0)
    (ha : |a - a0| ≤ Ea) (hb : |b - b0| ≤ Eb) (hva : |va - va0| ≤ Eva) (hvb : |vb - vb0| ≤ Evb)
    (h : FlVarMerge u a va n b vb m r) :
    |r - ((n : K) * va0 + (m : K) * vb0 + (a0 - b0) ^ 2 * (n : K) * (m : K) / ((n + m : ℕ) : K))
          / ((n + m : ℕ) : K)|
      ≤ ((1 + u) ^ 8 - 1)
          * (((n : K) * va0 + (m : K) * vb0 + (a0 - b0) ^ 2 * (n : K) * (m : K) / ((n + m : ℕ) : K))
              / ((n + m : ℕ) : K))
        + (1 + u) ^ 4 * (((n : K) * Eva + (m : K) * Evb) / ((n + m : ℕ) : K))
        + (1 + u) ^ 8 * ((2 * |a0 - b0| * (Ea + Eb) + (Ea + Eb) ^ 2)
            * ((n : K) * (m : K) / ((n + m : ℕ) : K) / ((n + m : ℕ) : K))) := by
  have hu := h.u_nonneg
  have hN : (0 : K) < ((n + m : ℕ) : K) := Nat.cast_pos.mpr (by omega)
  have hn0 : (0 : K) ≤ (n : K) := Nat.cast_nonneg n
  have hm0 : (0 : K) ≤ (m : K) := Nat.cast_nonneg m
  have h1 : |(n : K) * va - (n : K) * va0| ≤ (n : K) * Eva := by
    rw [← mul_sub, abs_mul, abs_of_nonneg hn0]; exact mul_le_mul_of_nonneg_left hva hn0
  have h2 : |(m : K) * vb - (m : K) * vb0| ≤ (m : K) * Evb := by
    rw [← mul_sub, abs_mul, abs_of_nonneg hm0]; exact mul_le_mul_of_nonneg_left hvb hm0
  have h3 : |(a - b) - (a0 - b0)| ≤ Ea + Eb := by
    have e : (a - b) - (a0 - b0) = (a - a0) - (b - b0) := by ring
    rw [e]; exact (abs_sub _ _).trans (add_le_add ha hb)
  have hc := h.compose h1 h2 h3
  rw [abs_of_nonneg (mul_nonneg hn0 hva0), abs_of_nonneg (mul_nonneg hm0 hvb0)] at hc
  have hd := abs_sub_div_le_of_defect hN hc
  set N : K := ((n + m : ℕ) : K) with hNdef
  set w : K := (n : K) * (m : K) / N with hwdef
  have hw : 0 ≤ w := div_nonneg (mul_nonneg hn0 hm0) hN.le
  have e1 : ((n : K) * va0 + (m : K) * vb0 + (a0 - b0) ^ 2 * (n : K) * (m : K) / N) / N
      = ((n : K) * va0 + (m : K) * vb0 + (a0 - b0) ^ 2 * w) / N := by rw [hwdef]; ring
  rw [e1]
  refine hd.trans ?_
  have h48 := gam_mono hu (show 4 ≤ 8 by norm_num)
  have hX : 0 ≤ (n : K) * va0 + (m : K) * vb0 := by positivity
  have hXN : 0 ≤ ((n : K) * va0 + (m : K) * vb0) / N := div_nonneg hX hN.le
  have hmono := mul_le_mul_of_nonneg_right h48 hXN
  have e2 : (((1 + u) ^ 4 - 1) * ((n : K) * va0 + (m : K) * vb0) + ((1 + u) ^ 8 - 1) * ((a0 - b0) ^ 2 * w)
        + (1 + u) ^ 4 * ((n : K) * Eva + (m : K) * Evb)
        + (1 + u) ^ 8 * ((2 * |a0 - b0| * (Ea + Eb) + (Ea + Eb) ^ 2) * w)) / N
      = ((1 + u) ^ 4 - 1) * (((n : K) * va0 + (m : K) * vb0) / N)
        + ((1 + u) ^ 8 - 1) * ((a0 - b0) ^ 2 * w / N)
        + (1 + u) ^ 4 * (((n : K) * Eva + (m : K) * Evb) / N)
        + (1 + u) ^ 8 * ((2 * |a0 - b0| * (Ea + Eb) + (Ea + Eb) ^ 2) * (w / N)) := by ring
  have e3 : ((1 + u) ^ 8 - 1) * (((n : K) * va0 + (m : K) * vb0 + (a0 - b0) ^ 2 * w) / N)
      = ((1 + u) ^ 8 - 1) * (((n : K) * va0 + (m : K) * vb0) / N)
        + ((1 + u) ^ 8 - 1) * ((a0 - b0) ^ 2 * w / N) := by ring
  rw [e2, e3]
  linarith

/-! ### 4. two float Welford streams, merged -/

/-- `Σ (x − x̄)²` of a concatenation (Chan et al.), from C06 `variance_merge_eq` -/
theorem sumSqDev_append (xs ys : List K) (hne : xs.length + ys.length ≠ 0) :
    sumSqDev (xs ++ ys)
      = sumSqDev xs + sumSqDev ys
        + ((Variance.run xs).mean.val - (Variance.run ys).mean.val) ^ 2
          * ((xs.length : K) * (ys.length : K) / ((xs.length + ys.length : ℕ) : K)) := by
  have hN : ((xs.length + ys.length : ℕ) : K) ≠ 0 := Nat.cast_ne_zero.mpr hne
  have hW := C05FloatVar.exact_W_eq (xs ++ ys)
  rw [← varMergeVal_run, List.length_append] at hW
  rw [← hW, ← C05FloatVar.exact_W_eq xs, ← C05FloatVar.exact_W_eq ys]
  unfold varMergeVal
  field_simp

/-- the Welford defect bound of C05FloatVar, also for the empty run -/
theorem var_float_defect' {u M : K} (hu : 0 ≤ u) {xs : List K}
    (hx : ∀ x ∈ xs, |x| ≤ M) (hsmall : 64 * (xs.length : K) * u ≤ 1) {m v : K}
    (h : FlVarRun u xs m v) :
    |(xs.length : K) * v - sumSqDev xs|
      ≤ 4 * u * sumSqDev xs + 58 * (xs.length : K) ^ 2 * u * M ^ 2 := by
  by_cases hne : xs = []
  · subst hne
    simp [sumSqDev]
  · exact C05FloatVar.var_float_defect hu hne hx hsmall h

/-- the scalar inequality that closes `merged_var_streams_float_defect` -/
theorem merged_poly {u M n m X Y B D Ed w P4 P8 γ4 γ8 : K} (hu : 0 ≤ u) (hM : 0 ≤ M)
    (hn : 0 ≤ n) (hm : 0 ≤ m) (hN : 0 < n + m) (hX : 0 ≤ X) (hY : 0 ≤ Y)
    (hw : w = n * m / (n + m)) (hNu : (n + m) * u ≤ 1 / 32)
    (hD : |D| ≤ 2 * M) (hEd : Ed = 6 * (n + m) * u * M)
    (hγ4 : γ4 ≤ 33 / 8 * u) (hγ8 : γ8 ≤ 17 / 2 * u) (hP4 : P4 ≤ 213 / 200) (hP8 : P8 ≤ 1133 / 1000)
    (hB : B = 4 * u * X + 58 * (n ^ 2 + m ^ 2) * u * M ^ 2) :
    γ4 * X + γ8 * Y + P4 * B + P8 * ((2 * |D| * Ed + Ed ^ 2) * w)
      ≤ 9 * u * (X + Y) + 62 * (n + m) ^ 2 * u * M ^ 2 := by
  have hN0 : n + m ≠ 0 := hN.ne'
  have huM : 0 ≤ u * M ^ 2 := by positivity
  have hw0 : 0 ≤ w := by rw [hw]; positivity
  have hEd0 : 0 ≤ Ed := by
    rw [hEd]; exact mul_nonneg (mul_nonneg (mul_nonneg (by norm_num) hN.le) hu) hM
  -- the mean part
  have z1 : 2 * |D| * Ed ≤ 24 * (n + m) * (u * M ^ 2) := by
    calc 2 * |D| * Ed ≤ 2 * (2 * M) * Ed := by
          exact mul_le_mul_of_nonneg_right (mul_le_mul_of_nonneg_left hD (by norm_num)) hEd0
      _ = 24 * (n + m) * (u * M ^ 2) := by rw [hEd]; ring
  have z2 : Ed ^ 2 ≤ 9 / 8 * (n + m) * (u * M ^ 2) := by
    have : Ed ^ 2 = 36 * ((n + m) * u) * ((n + m) * (u * M ^ 2)) := by rw [hEd]; ring
    rw [this]
    have hnn : 0 ≤ (n + m) * (u * M ^ 2) := mul_nonneg hN.le huM
    calc 36 * ((n + m) * u) * ((n + m) * (u * M ^ 2))
        ≤ 36 * (1 / 32) * ((n + m) * (u * M ^ 2)) :=
          mul_le_mul_of_nonneg_right (mul_le_mul_of_nonneg_left hNu (by norm_num)) hnn
      _ = 9 / 8 * (n + m) * (u * M ^ 2) := by ring
  have z3 : (2 * |D| * Ed + Ed ^ 2) * w ≤ 201 / 8 * (n * m * (u * M ^ 2)) := by
    calc (2 * |D| * Ed + Ed ^ 2) * w ≤ (201 / 8 * (n + m) * (u * M ^ 2)) * w :=
          mul_le_mul_of_nonneg_right (by linarith) hw0
      _ = 201 / 8 * (n * m * (u * M ^ 2)) := by rw [hw]; field_simp
  have hZ0 : 0 ≤ (2 * |D| * Ed + Ed ^ 2) * w := by positivity
  have hnm0 : 0 ≤ n * m * (u * M ^ 2) := by positivity
  have z4 : P8 * ((2 * |D| * Ed + Ed ^ 2) * w) ≤ 1133 / 1000 * (201 / 8 * (n * m * (u * M ^ 2))) :=
    mul_le_mul hP8 z3 hZ0 (by norm_num)
  -- the variance part
  have hB0 : 0 ≤ B := by rw [hB]; positivity
  have z5 : P4 * B ≤ 213 / 200 * B := mul_le_mul_of_nonneg_right hP4 hB0
  have z6 : γ4 * X ≤ 33 / 8 * u * X := mul_le_mul_of_nonneg_right hγ4 hX
  have z7 : γ8 * Y ≤ 17 / 2 * u * Y := mul_le_mul_of_nonneg_right hγ8 hY
  have huX : 0 ≤ u * X := mul_nonneg hu hX
  have huY : 0 ≤ u * Y := mul_nonneg hu hY
  have hn2 : 0 ≤ n ^ 2 * (u * M ^ 2) := by positivity
  have hm2 : 0 ≤ m ^ 2 * (u * M ^ 2) := by positivity
  rw [hB] at z5
  nlinarith [z4, z5, z6, z7, huX, huY, hn2, hm2, hnm0]

/-- **two Welford streams, division-free.**  `(a, va)` a float Welford run over `xs`,
    `(b, vb)` one over `ys` (`|x| ≤ M`), `r` a float variance merge of the two:
    `|N·r − S| ≤ 9u·S + 62·N²·u·M²`, `S = Σ (x − x̄)²` over `xs ++ ys`, `N = |xs| + |ys|` -/
theorem merged_var_streams_float_defect {u M : K} (hu : 0 ≤ u) (hM : 0 ≤ M) {xs ys : List K}
    (hne : xs.length + ys.length ≠ 0)
    (hx : ∀ x ∈ xs, |x| ≤ M) (hy : ∀ y ∈ ys, |y| ≤ M)
    (hsx : 64 * (xs.length : K) * u ≤ 1) (hsy : 64 * (ys.length : K) * u ≤ 1)
    {a va b vb r : K} (ha : FlVarRun u xs a va) (hb : FlVarRun u ys b vb)
    (hm : FlVarMerge u a va xs.length b vb ys.length r) :
    |((xs ++ ys).length : K) * r - sumSqDev (xs ++ ys)|
      ≤ 9 * u * sumSqDev (xs ++ ys) + 62 * ((xs ++ ys).length : K) ^ 2 * u * M ^ 2 := by
  have hda := var_float_defect' hu hx hsx ha
  have hdb := var_float_defect' hu hy hsy hb
  have hma := (FlVarRun.inv hu hM ha hx hsx).1
  have hmb := (FlVarRun.inv hu hM hb hy hsy).1
  have hμa := exact_mean_abs_le hM xs hx
  have hμb := exact_mean_abs_le hM ys hy
  have hSa := C05FloatVar.sumSqDev_nonneg xs
  have hSb := C05FloatVar.sumSqDev_nonneg ys
  set μa := (Variance.run xs).mean.val with hμadef
  set μb := (Variance.run ys).mean.val with hμbdef
  have hn0 : (0 : K) ≤ (xs.length : K) := Nat.cast_nonneg _
  have hm0 : (0 : K) ≤ (ys.length : K) := Nat.cast_nonneg _
  have hcast : ((xs.length + ys.length : ℕ) : K) = (xs.length : K) + (ys.length : K) := by
    push_cast; rfl
  have hN : (0 : K) < (xs.length : K) + (ys.length : K) := by
    rw [← hcast]; exact Nat.cast_pos.mpr (by omega)
  have hEd : |(a - b) - (μa - μb)| ≤ 6 * ((xs.length : K) + (ys.length : K)) * u * M := by
    have e : (a - b) - (μa - μb) = (a - μa) - (b - μb) := by ring
    rw [e]
    refine (abs_sub _ _).trans ((add_le_add hma hmb).trans (le_of_eq ?_))
    ring
  have hc := hm.compose hda hdb hEd
  rw [abs_of_nonneg hSa, abs_of_nonneg hSb] at hc
  have happ := sumSqDev_append xs ys hne
  rw [List.length_append, happ]
  refine hc.trans ?_
  have hD : |μa - μb| ≤ 2 * M := (abs_sub _ _).trans (by linarith)
  have hNu : ((xs.length : K) + (ys.length : K)) * u ≤ 1 / 32 := by linarith
  have hu64 : u ≤ 1 / 64 := by
    rcases Nat.eq_zero_or_pos xs.length with h0 | hp
    · have h1 : (1 : K) ≤ (ys.length : K) := by exact_mod_cast (show 1 ≤ ys.length by omega)
      have : u * 1 ≤ u * (ys.length : K) := mul_le_mul_of_nonneg_left h1 hu
      linarith
    · have h1 : (1 : K) ≤ (xs.length : K) := by exact_mod_cast hp
      have : u * 1 ≤ u * (xs.length : K) := mul_le_mul_of_nonneg_left h1 hu
      linarith
  have g4 := gam4_le_64th hu hu64
  have g8 := gam8_le_64th hu hu64
  have hP4 : (1 + u) ^ 4 ≤ 213 / 200 := by linarith
  have hP8 : (1 + u) ^ 8 ≤ 1133 / 1000 := by linarith
  have hY : 0 ≤ (μa - μb) ^ 2
      * ((xs.length : K) * (ys.length : K) / ((xs.length + ys.length : ℕ) : K)) := by
    rw [hcast]; positivity
  have hpoly := merged_poly (u := u) (M := M) (n := (xs.length : K)) (m := (ys.length : K))
    (X := sumSqDev xs + sumSqDev ys)
    (B := 4 * u * sumSqDev xs + 58 * (xs.length : K) ^ 2 * u * M ^ 2
      + (4 * u * sumSqDev ys + 58 * (ys.length : K) ^ 2 * u * M ^ 2))
    (Y := (μa - μb) ^ 2 * ((xs.length : K) * (ys.length : K) / ((xs.length + ys.length : ℕ) : K)))
    (D := μa - μb) (Ed := 6 * ((xs.length : K) + (ys.length : K)) * u * M)
    (w := (xs.length : K) * (ys.length : K) / ((xs.length + ys.length : ℕ) : K))
    (P4 := (1 + u) ^ 4) (P8 := (1 + u) ^ 8) (γ4 := (1 + u) ^ 4 - 1) (γ8 := (1 + u) ^ 8 - 1)
    hu hM hn0 hm0 hN (add_nonneg hSa hSb) hY (by rw [hcast]) hNu hD rfl g4 g8 hP4 hP8
    (by ring)
  rw [hcast] at hpoly ⊢
  refine le_trans (le_of_eq ?_) (hpoly.trans (le_of_eq ?_))
  · ring
  · ring

/-- **two Welford streams**: error of the merged population variance `var.value` -/
theorem merged_var_streams_float_error {u M : K} (hu : 0 ≤ u) (hM : 0 ≤ M) {xs ys : List K}
    (hne : xs.length + ys.length ≠ 0)
    (hx : ∀ x ∈ xs, |x| ≤ M) (hy : ∀ y ∈ ys, |y| ≤ M)
    (hsx : 64 * (xs.length : K) * u ≤ 1) (hsy : 64 * (ys.length : K) * u ≤ 1)
    {a va b vb r : K} (ha : FlVarRun u xs a va) (hb : FlVarRun u ys b vb)
    (hm : FlVarMerge u a va xs.length b vb ys.length r) :
    |r - sumSqDev (xs ++ ys) / ((xs ++ ys).length : K)|
      ≤ 9 * u * (sumSqDev (xs ++ ys) / ((xs ++ ys).length : K))
        + 62 * ((xs ++ ys).length : K) * u * M ^ 2 := by
  have hN : (0 : K) < ((xs ++ ys).length : K) := by
    rw [List.length_append]; exact Nat.cast_pos.mpr (by omega)
  have hd := merged_var_streams_float_defect hu hM hne hx hy hsx hsy ha hb hm
  refine (abs_sub_div_le_of_defect hN hd).trans (le_of_eq ?_)
  field_simp

/-- the same against the exact merged state of the model,
    `(Variance.run xs).merge (Variance.run ys)` — i.e. against what C06 proves correct -/
theorem merged_var_streams_float_vs_model {u M : K} (hu : 0 ≤ u) (hM : 0 ≤ M) {xs ys : List K}
    (hne : xs.length + ys.length ≠ 0)
    (hx : ∀ x ∈ xs, |x| ≤ M) (hy : ∀ y ∈ ys, |y| ≤ M)
    (hsx : 64 * (xs.length : K) * u ≤ 1) (hsy : 64 * (ys.length : K) * u ≤ 1)
    {a va b vb r : K} (ha : FlVarRun u xs a va) (hb : FlVarRun u ys b vb)
    (hm : FlVarMerge u a va xs.length b vb ys.length r) :
    |r - ((Variance.run xs).merge (Variance.run ys)).var.val|
      ≤ 9 * u * ((Variance.run xs).merge (Variance.run ys)).var.val
        + 62 * ((xs ++ ys).length : K) * u * M ^ 2 := by
  have hne' : xs ++ ys ≠ [] := by
    intro h; apply hne; rw [← List.length_append, h]; rfl
  have e : ((Variance.run xs).merge (Variance.run ys)).var.val
      = sumSqDev (xs ++ ys) / ((xs ++ ys).length : K) := by
    rw [variance_merge_eq]; exact C05.rms_eq (xs ++ ys) hne'
  rw [e]
  exact merged_var_streams_float_error hu hM hne hx hy hsx hsy ha hb hm

/-! ### 5. non-vacuity over ℚ: `u = 1/1000`; left operand = the exact state of `[1, 2, 3]`
    (mean 2, population variance 2/3, n = 3), right operand = that of `[4, 6]` (mean 5,
    population variance 1, m = 2); exact merged population variance `74/25` -/

example : sumSqDev ([1, 2, 3, 4, 6] : List ℚ) / 5 = 74 / 25 := by
  norm_num [sumSqDev, batchMean]

example : ((3 : ℚ) * (2 / 3) + 2 * 1 + (2 - 5) ^ 2 * 3 * 2 / ((3 + 2 : ℕ) : ℚ)) / ((3 + 2 : ℕ) : ℚ)
    = 74 / 25 := by norm_num

/-- a genuinely perturbed merge -/
example : ∃ r : ℚ, FlVarMerge (1 / 1000) 2 (2 / 3) 3 5 1 2 r ∧ r ≠ 74 / 25
    ∧ 0 < |r - 74 / 25| ∧ |r - 74 / 25| ≤ 17 / 2 * (1 / 1000) * (74 / 25) := by
  have h := flVarMerge_of_deltas (u := (1 / 1000 : ℚ)) 2 (2 / 3) 3 5 1 2
    (1 / 1000) (-1 / 1000) (1 / 1000) (1 / 1000) (1 / 1000) (1 / 1000) (-1 / 1000) (1 / 1000)
    (1 / 1000) (1 / 1000)
    (by norm_num [abs_le]) (by norm_num [abs_le]) (by norm_num [abs_le]) (by norm_num [abs_le])
    (by norm_num [abs_le]) (by norm_num [abs_le]) (by norm_num [abs_le]) (by norm_num [abs_le])
    (by norm_num [abs_le]) (by norm_num [abs_le])
  refine ⟨_, h, ?_, ?_, ?_⟩ <;> norm_num [abs_le]

/-- and the theorem applies to every such merge -/
example (r : ℚ) (h : FlVarMerge (1 / 1000) 2 (2 / 3) 3 5 1 2 r) :
    |r - 74 / 25| ≤ 17 / 2 * (1 / 1000) * (74 / 25) := by
  have := var_merge_float_error_64th (u := (1 / 1000 : ℚ)) (by norm_num) (by norm_num) (by norm_num)
    (n := 3) (m := 2) (by norm_num) h
  norm_num at this ⊢
  exact this

/-- the worst case `(1+u)⁸ − 1` is reached on operands without spread -/
example : FlVarMerge (1 / 1000 : ℚ) 2 0 3 5 0 2 ((1 + 1 / 1000) ^ 8 * (54 / 25)) := by
  obtain ⟨r, hr, e, _⟩ := var_merge_float_error_attained (u := (1 / 1000 : ℚ)) (by norm_num) 2 5 3 2
  have e' : r = (1 + 1 / 1000) ^ 8 * (54 / 25) := by rw [e]; norm_num
  rwa [e'] at hr

/-- the sign hypothesis of the RELATIVE bound is needed: with a negative operand variance the
    exact result can be 0 while a float result is not -/
example : ((1 : ℚ) * (-1) + 1 * 1 + (0 - 0) ^ 2 * 1 * 1 / ((1 + 1 : ℕ) : ℚ)) / ((1 + 1 : ℕ) : ℚ) = 0
    ∧ ∃ r : ℚ, FlVarMerge (1 / 1000) 0 (-1) 1 0 1 1 r ∧ r ≠ 0 := by
  refine ⟨by norm_num, _, flVarMerge_of_deltas (u := (1 / 1000 : ℚ)) 0 (-1) 1 0 1 1
    0 (1 / 1000) 0 0 0 0 0 0 0 0
    (by norm_num [abs_le]) (by norm_num [abs_le]) (by norm_num [abs_le]) (by norm_num [abs_le])
    (by norm_num [abs_le]) (by norm_num [abs_le]) (by norm_num [abs_le]) (by norm_num [abs_le])
    (by norm_num [abs_le]) (by norm_num [abs_le]), ?_⟩
  norm_num

/-- two float Welford runs over `[1, 2, 3]` and `[4, 6]` (here: the exact ones, which are
    possible float runs), merged with rounding: the merged-streams theorem applies -/
example (a va b vb r : ℚ) (ha : FlVarRun (1 / 1000) [1, 2, 3] a va)
    (hb : FlVarRun (1 / 1000) [4, 6] b vb) (hm : FlVarMerge (1 / 1000) a va 3 b vb 2 r) :
    |5 * r - sumSqDev ([1, 2, 3, 4, 6] : List ℚ)|
      ≤ 9 * (1 / 1000) * sumSqDev ([1, 2, 3, 4, 6] : List ℚ) + 62 * 5 ^ 2 * (1 / 1000) * 6 ^ 2 := by
  have := merged_var_streams_float_defect (u := (1 / 1000 : ℚ)) (M := 6) (by norm_num) (by norm_num)
    (xs := [1, 2, 3]) (ys := [4, 6]) (by simp)
    (by intro x hx; simp at hx; rcases hx with rfl | rfl | rfl <;> norm_num [abs_le])
    (by intro x hx; simp at hx; rcases hx with rfl | rfl <;> norm_num [abs_le])
    (by norm_num) (by norm_num) ha hb hm
  simpa using this

end Gpv.C06FloatVar

#print axioms Gpv.C06FloatVar.flVarMerge_def
#print axioms Gpv.C06FloatVar.exact_merge_possible
#print axioms Gpv.C06FloatVar.exact_is_the_float_merge
#print axioms Gpv.C06FloatVar.float_merge_mono
#print axioms Gpv.C06FloatVar.model_merge_value
#print axioms Gpv.C06FloatVar.exact_merged_runs_possible
#print axioms Gpv.C06FloatVar.exact_merged_runs_forced
#print axioms Gpv.C06FloatVar.var_merge_float_expansion
#print axioms Gpv.C06FloatVar.var_merge_float_error_split
#print axioms Gpv.C06FloatVar.var_merge_float_error
#print axioms Gpv.C06FloatVar.var_merge_float_error_eighth
#print axioms Gpv.C06FloatVar.var_merge_float_error_64th
#print axioms Gpv.C06FloatVar.var_merge_float_vs_model
#print axioms Gpv.C06FloatVar.var_merge_float_nonneg
#print axioms Gpv.C06FloatVar.var_merge_float_magnitude
#print axioms Gpv.C06FloatVar.var_merge_float_error_attained
#print axioms Gpv.C06FloatVar.var_merge_float_compose
#print axioms Gpv.C06FloatVar.var_merge_float_error_perturbed
#print axioms Gpv.C06FloatVar.sumSqDev_append
#print axioms Gpv.C06FloatVar.var_float_defect'
#print axioms Gpv.C06FloatVar.merged_var_streams_float_defect
#print axioms Gpv.C06FloatVar.merged_var_streams_float_error
#print axioms Gpv.C06FloatVar.merged_var_streams_float_vs_model
