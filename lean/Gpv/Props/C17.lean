/-
  C17 — RunningMean is a convex combination of the observations with explicit
  weights; RunningVariance / RunningCovariance are Variance / Covariance during
  warm-up; the lifetime setter acts on every part.

  All statements are about the executable definitions of `Gpv.Model.Running`
  (`RMean.push`, `RVariance.push`, `RCov2.push`, …) instantiated at an arbitrary
  linearly ordered field (ℚ, ℝ, …).  Nothing here is about floating point.
-/
import Gpv.Proofs.RunningAlg
import Gpv.Props.C05
import Mathlib.Algebra.Order.Field.Rat
import Mathlib.Tactic.NormNum
set_option linter.unusedSectionVars false

namespace Gpv.C17
open Gpv
variable {K : Type} [Field K] [LinearOrder K] [IsStrictOrderedRing K]

/-- `RunningMean(lifetime = L)` fed `xs`, natural lifetime -/
def run (L : Nat) (xs : List K) : RMean K := xs.foldl RMean.push (RMean.init (L : K))

/-- the same for an arbitrary (not necessarily integral) lifetime `l` -/
def runK (l : K) (xs : List K) : RMean K := xs.foldl RMean.push (RMean.init l)

theorem run_eq_runK (L : Nat) (xs : List K) : run L xs = runK (L : K) xs := rfl

/-! ### 1. the count -/
theorem rmean_n (L : Nat) (xs : List K) : (run L xs).n = xs.length :=
  (RMean.run_n_alpha (L : K) xs).1

theorem rmeanK_n (l : K) (xs : List K) : (runK l xs).n = xs.length :=
  (RMean.run_n_alpha l xs).1

/-! ### 2. the weights -/

/-- weight of the observation with 0-based index `i` after `n` observations:
    `1/n` while `n ≤ L`; afterwards `1/L` for the newest, a factor `1 - 1/L` less per step
    of age, and the first `L` observations share the weight `(1-1/L)^(n-L) / L`. -/
def w (L n i : Nat) : K :=
  if n ≤ L then 1 / (n : K)
  else if i < L then (1 - 1 / (L : K)) ^ (n - L) / (L : K)
  else (1 / (L : K)) * (1 - 1 / (L : K)) ^ (n - 1 - i)

theorem w_eq_rweight (L n i : Nat) : (w L n i : K) = rweight L n i := rfl

/-- the list `[w L n 0, …, w L n (n-1)]` -/
def weights (L n : Nat) : List K := (List.range n).map (w L n)

theorem weights_length (L n : Nat) : (weights L n : List K).length = n := by simp [weights]

/-- RunningMean reports `Σ_{i<n} w L n i * xs[i]` -/
theorem rmean_weighted {L : Nat} (hL : 1 ≤ L) (xs : List K) :
    (run L xs).acc = (List.zipWith (· * ·) (weights L xs.length) xs).sum :=
  RMean.run_weighted hL xs

/-- the same sum written with `mapIdx`: term `i` is `w L n i * xs[i]` -/
theorem rmean_weighted_mapIdx {L : Nat} (hL : 1 ≤ L) (xs : List K) :
    (run L xs).acc = (xs.mapIdx fun i x => w L xs.length i * x).sum := by
  rw [rmean_weighted hL]
  congr 1
  apply List.ext_getElem
  · simp [weights]
  · intro i h1 h2
    simp [weights]

/-! ### 3. the weights are non-negative and sum to one -/
theorem weight_nonneg {L : Nat} (hL : 1 ≤ L) {n i : Nat} (_hi : i < n) : (0 : K) ≤ w L n i :=
  rweight_nonneg hL n i

theorem weight_sum_one {L : Nat} (hL : 1 ≤ L) {n : Nat} (hn : 1 ≤ n) :
    (weights L n : List K).sum = 1 :=
  rweights_sum hL hn

/-- every weight is also at most one -/
theorem weight_le_one {L : Nat} (hL : 1 ≤ L) {n i : Nat} (hi : i < n) : (w L n i : K) ≤ 1 := by
  have hs := weight_sum_one (K := K) hL (n := n) (by omega)
  have hmem : (w L n i : K) ∈ weights L n :=
    List.mem_map.mpr ⟨i, List.mem_range.mpr hi, rfl⟩
  have hnn : ∀ v ∈ (weights L n : List K), 0 ≤ v := by
    intro v hv
    obtain ⟨j, hj, rfl⟩ := List.mem_map.mp hv
    exact weight_nonneg hL (List.mem_range.mp hj)
  rw [← hs]
  exact List.single_le_sum hnn _ hmem

/-! ### 4. warm-up: the plain mean -/
theorem rmean_warmup_eq_mean {L : Nat} (hL : 1 ≤ L) (xs : List K) (hx : xs.length ≤ L)
    (hne : xs ≠ []) : (run L xs).acc = xs.sum / (xs.length : K) := by
  have h := RMean.run_agrees hL xs hx
  rw [run, ← RMean.run, h.1, Mean.run_val xs hne]

/-- during warm-up the accumulator is, state for state, the `Mean` accumulator -/
theorem rmean_warmup_eq_Mean {L : Nat} (hL : 1 ≤ L) (xs : List K) (hx : xs.length ≤ L) :
    (run L xs).acc = (Mean.run xs).val ∧ (run L xs).n = (Mean.run xs).n :=
  ⟨(RMean.run_agrees hL xs hx).1, (RMean.run_agrees hL xs hx).2.1⟩

/-- after warm-up one step is the exponential update with `alpha = 1/L` -/
theorem rmean_step_after_warmup {L : Nat} (hL : 1 ≤ L) (xs : List K) (x : K) (hx : L ≤ xs.length) :
    (run L (xs ++ [x])).acc = (run L xs).acc * (1 - 1 / (L : K)) + x * (1 / (L : K)) := by
  have h := RMean.run_snoc_acc (L : K) xs x
  rw [effA_nat hL, coef] at h
  by_cases hLn : xs.length + 1 ≤ L
  · omega
  · rw [if_neg hLn] at h
    exact h

/-! ### 5./6. the value lies between the smallest and the largest observation
    (any lifetime `l ≥ 1`, integral or not) -/

/-- the coefficient used at each step is in `(0, 1]`, and is `1` at the first observation -/
theorem step_coefficient {l : K} (hl : 1 ≤ l) (n : Nat) :
    0 < effA (1 / l) n ∧ effA (1 / l) n ≤ 1 ∧ effA (1 / l) 0 = 1 :=
  ⟨effA_pos _ _, effA_le_one (one_div_le_one_of_one_le hl) _, effA_zero (one_div_le_one_of_one_le hl)⟩

/-- one step is the convex combination with that coefficient -/
theorem step_convex (l : K) (xs : List K) (x : K) :
    (runK l (xs ++ [x])).acc
      = (runK l xs).acc * (1 - effA (1 / l) xs.length) + x * effA (1 / l) xs.length :=
  RMean.run_snoc_acc l xs x

theorem rmean_between {l : K} (hl : 1 ≤ l) (xs : List K) (hne : xs ≠ []) :
    ∃ lo ∈ xs, ∃ hi ∈ xs, (∀ x ∈ xs, lo ≤ x ∧ x ≤ hi)
      ∧ lo ≤ (runK l xs).acc ∧ (runK l xs).acc ≤ hi := by
  obtain ⟨lo, hlo, hi, hhi, hb⟩ := exists_min_max xs hne
  exact ⟨lo, hlo, hi, hhi, hb, RMean.run_bounds hl lo hi xs hne hb⟩

/-- any enclosing interval of the observations contains the value -/
theorem rmean_in_interval {l : K} (hl : 1 ≤ l) (xs : List K) (hne : xs ≠ []) (lo hi : K)
    (hb : ∀ x ∈ xs, lo ≤ x ∧ x ≤ hi) : lo ≤ (runK l xs).acc ∧ (runK l xs).acc ≤ hi :=
  RMean.run_bounds hl lo hi xs hne hb

theorem rmean_const {l : K} (hl : 1 ≤ l) (xs : List K) (c : K) (hc : ∀ x ∈ xs, x = c)
    (hne : xs ≠ []) : (runK l xs).acc = c := by
  have h := RMean.run_bounds hl c c xs hne (fun x hx => by rw [hc x hx]; exact ⟨le_rfl, le_rfl⟩)
  exact le_antisymm h.2 h.1

/-! ### 7. RunningVariance / RunningCovariance during warm-up -/

/-- `RunningVariance(lifetime = L)` fed `xs` -/
def rvrun (L : Nat) (xs : List K) : RVariance K := xs.foldl RVariance.push (RVariance.init (L : K))
/-- `RunningCovariance(lifetime = L)` on one pair of components, fed `ps` -/
def rcrun (L : Nat) (ps : List (K × K)) : RCov2 K :=
  ps.foldl (fun s p => s.push p.1 p.2) (RCov2.init (L : K))

theorem running_eq_plain_variance {L : Nat} (hL : 1 ≤ L) (xs : List K) (hx : xs.length ≤ L) :
    (rvrun L xs).mean.acc = (Variance.run xs).mean.val
      ∧ (rvrun L xs).var.acc = (Variance.run xs).var.val
      ∧ (rvrun L xs).n = (Variance.run xs).n
      ∧ (rvrun L xs).var.n = (Variance.run xs).var.n
      ∧ (rvrun L xs).value = (Variance.run xs).value := by
  obtain ⟨hm, hv⟩ := RVariance.run_agrees hL xs hx
  change (RVariance.run (L : K) xs).mean.acc = _ ∧ (RVariance.run (L : K) xs).var.acc = _
    ∧ (RVariance.run (L : K) xs).n = _ ∧ (RVariance.run (L : K) xs).var.n = _
    ∧ (RVariance.run (L : K) xs).value = _
  refine ⟨hm.1, hv.1, hm.2.1, hv.2.1, ?_⟩
  simp only [RVariance.value, Variance.value, RVariance.n, Variance.n, hm.2.1, hv.1]
  rfl

theorem running_eq_plain_cov {L : Nat} (hL : 1 ≤ L) (ps : List (K × K)) (hp : ps.length ≤ L) :
    (rcrun L ps).mx.acc = (Cov2.run ps).mx.val
      ∧ (rcrun L ps).my.acc = (Cov2.run ps).my.val
      ∧ (rcrun L ps).c.acc = (Cov2.run ps).c.val
      ∧ (rcrun L ps).mx.n = (Cov2.run ps).mx.n
      ∧ (rcrun L ps).my.n = (Cov2.run ps).my.n
      ∧ (rcrun L ps).c.n = (Cov2.run ps).c.n
      ∧ (rcrun L ps).value = (Cov2.run ps).value := by
  obtain ⟨hmx, hmy, hc⟩ := RCov2.run_agrees hL ps hp
  change (RCov2.run (L : K) ps).mx.acc = _ ∧ (RCov2.run (L : K) ps).my.acc = _
    ∧ (RCov2.run (L : K) ps).c.acc = _ ∧ (RCov2.run (L : K) ps).mx.n = _
    ∧ (RCov2.run (L : K) ps).my.n = _ ∧ (RCov2.run (L : K) ps).c.n = _
    ∧ (RCov2.run (L : K) ps).value = _
  refine ⟨hmx.1, hmy.1, hc.1, hmx.2.1, hmy.2.1, hc.2.1, ?_⟩
  simp only [RCov2.value, Cov2.value, hmx.2.1, hc.1]

/-- hence, for `2 ≤ n ≤ L`, the read-outs are the batch sample variance / covariance -/
theorem running_variance_eq_batch {L : Nat} (hL : 1 ≤ L) (xs : List K) (h2 : 2 ≤ xs.length)
    (hx : xs.length ≤ L) : (rvrun L xs).value = .ok (batchVar xs) := by
  rw [(running_eq_plain_variance hL xs hx).2.2.2.2, C05.variance_eq xs h2]

theorem running_cov_eq_batch {L : Nat} (hL : 1 ≤ L) (ps : List (K × K)) (h2 : 2 ≤ ps.length)
    (hp : ps.length ≤ L) : (rcrun L ps).value = .ok (batchCov ps) := by
  rw [(running_eq_plain_cov hL ps hp).2.2.2.2.2.2, C05.cov_eq ps h2]

/-! ### 8. the lifetime setter -/

/-- `RunningVariance.lifetime = x` sets `alpha = 1/x` in both parts and nothing else -/
theorem set_lifetime_all_parts (s : RVariance K) (x : K) :
    (s.setLifetime x).mean.alpha = 1 / x ∧ (s.setLifetime x).var.alpha = 1 / x
      ∧ (s.setLifetime x).mean.acc = s.mean.acc ∧ (s.setLifetime x).var.acc = s.var.acc
      ∧ (s.setLifetime x).mean.n = s.mean.n ∧ (s.setLifetime x).var.n = s.var.n := by
  simp [RVariance.setLifetime, RMean.setLifetime]

/-- the array versions (the only place where the model has a RunningCovariance setter) -/
theorem set_lifetime_all_parts_varianceV (s : RVarianceV K) (x : K) :
    (s.setLifetime x).mean.alpha = 1 / x ∧ (s.setLifetime x).var.alpha = 1 / x
      ∧ (s.setLifetime x).mean.acc = s.mean.acc ∧ (s.setLifetime x).var.acc = s.var.acc
      ∧ (s.setLifetime x).mean.n = s.mean.n ∧ (s.setLifetime x).var.n = s.var.n := by
  simp [RVarianceV.setLifetime, RMeanV.setLifetime]

theorem set_lifetime_all_parts_covarianceV (s : RCovarianceV K) (x : K) :
    (s.setLifetime x).mean.alpha = 1 / x ∧ (s.setLifetime x).cov.alpha = 1 / x
      ∧ (s.setLifetime x).mean.acc = s.mean.acc ∧ (s.setLifetime x).cov.acc = s.cov.acc
      ∧ (s.setLifetime x).mean.n = s.mean.n ∧ (s.setLifetime x).cov.n = s.cov.n := by
  simp [RCovarianceV.setLifetime, RMeanV.setLifetime]

/-- all parts decay together afterwards: both parts use the same coefficient at every step -/
theorem set_lifetime_same_coefficient (s : RVariance K) (x : K) (n : Nat) :
    effA (s.setLifetime x).mean.alpha n = effA (s.setLifetime x).var.alpha n := by
  simp [RVariance.setLifetime, RMean.setLifetime]

/-- getter after setter (Python raises at `x = 0`; in a field the identity holds there too) -/
theorem lifetime_roundtrip (s : RMean K) (x : K) (_hx : x ≠ 0) : (s.setLifetime x).lifetime = x := by
  simp [RMean.setLifetime, RMean.lifetime]

theorem init_lifetime (l : K) (_hl : l ≠ 0) : (RMean.init l).lifetime = l := by
  simp [RMean.init, RMean.lifetime]

/-! ### 9. non-vacuity: concrete rationals, `L = 2`, four observations -/

example : (run 2 ([1, 2, 4, 8] : List ℚ)).acc = 43 / 8 := by
  norm_num [run, RMean.push, RMean.pushWith, RMean.init, pymax]

example : (weights 2 4 : List ℚ) = [1 / 8, 1 / 8, 1 / 4, 1 / 2] := by
  norm_num [weights, w, List.range, List.range.loop]

example : (List.zipWith (· * ·) (weights 2 4) ([1, 2, 4, 8] : List ℚ)).sum = 43 / 8 := by
  norm_num [weights, w, List.range, List.range.loop]

/-- during warm-up (`n = 2 ≤ L = 2`) the value is the plain mean, the variance the sample variance -/
example : (run 2 ([1, 2] : List ℚ)).acc = 3 / 2 := by
  norm_num [run, RMean.push, RMean.pushWith, RMean.init, pymax]

example : (rvrun 3 ([1, 2, 6] : List ℚ)).value = .ok 7 := by
  norm_num [rvrun, RVariance.push, RVariance.value, RVariance.n, RVariance.init, RMean.push,
    RMean.pushWith, RMean.init, pymax]

end Gpv.C17

#print axioms Gpv.C17.rmean_n
#print axioms Gpv.C17.rmean_weighted
#print axioms Gpv.C17.rmean_weighted_mapIdx
#print axioms Gpv.C17.weight_nonneg
#print axioms Gpv.C17.weight_sum_one
#print axioms Gpv.C17.weight_le_one
#print axioms Gpv.C17.rmean_warmup_eq_mean
#print axioms Gpv.C17.rmean_warmup_eq_Mean
#print axioms Gpv.C17.rmean_step_after_warmup
#print axioms Gpv.C17.step_coefficient
#print axioms Gpv.C17.step_convex
#print axioms Gpv.C17.rmean_between
#print axioms Gpv.C17.rmean_in_interval
#print axioms Gpv.C17.rmean_const
#print axioms Gpv.C17.running_eq_plain_variance
#print axioms Gpv.C17.running_eq_plain_cov
#print axioms Gpv.C17.running_variance_eq_batch
#print axioms Gpv.C17.running_cov_eq_batch
#print axioms Gpv.C17.set_lifetime_all_parts
#print axioms Gpv.C17.set_lifetime_all_parts_varianceV
#print axioms Gpv.C17.set_lifetime_all_parts_covarianceV
#print axioms Gpv.C17.set_lifetime_same_coefficient
#print axioms Gpv.C17.lifetime_roundtrip
#print axioms Gpv.C17.init_lifetime
