/-
  C10 — in-process execution is a flat-map: when the function returns an iterator for an
  element, its items appear in the output in place of that element, in order, between the
  outputs of the neighbouring elements, each item filtered by the None rule; an empty
  iterator inserts nothing and plain results pass as in C01.  The inner iterator is consumed
  only as the consumer asks for items, and the next source element is drawn only after the
  inner iterator is exhausted.

  All statements are about the serial machine `SS` / `sstep?` / `sdrive` / `sspec` / `expand`
  of `Gpv.Model.Pipeline`; `SReach` = every consumer (next/close/throw).  `itemsOf`, `keptObs`,
  `flatOut`, the invariant `FInv` and `srun` are defined in `Gpv.Proofs.FlatMapInv`.
-/
import Gpv.Proofs.FlatMapInv

namespace Gpv.C10
open Gpv Gpv.Pipe
variable {α β ε : Type}
variable {c : Cfg} {xs : List α} {tail : Option ε} {g : α → SOutcome β ε} {p0 y0 : Nat} {s s' : SS β ε}

/-! ### the expansion of one result -/

theorem expand_plain (c : Cfg) (v : Option β) :
    (expand c (.plain v) : List (Obs β ε)) = if keep c v then [.value v] else [] := rfl

theorem expand_iter (c : Cfg) (l : List (Option β)) :
    (expand c (.iter l) : List (Obs β ε)) = (l.filter (keep c)).map Obs.value := rfl

theorem expand_empty (c : Cfg) : (expand c (.iter []) : List (Obs β ε)) = [] := rfl

/-- a plain result is the one-item tuple `(ret,)`: same expansion as the iterator `[v]` -/
theorem expand_plain_eq_iter (c : Cfg) (v : Option β) :
    (expand c (.plain v) : List (Obs β ε)) = expand c (.iter [v]) := by
  by_cases hk : keep c v = true <;> simp [expand, hk]

/-- the None rule, item by item -/
theorem expand_iter_cons (c : Cfg) (r : Option β) (l : List (Option β)) :
    (expand c (.iter (r :: l)) : List (Obs β ε))
      = (if r.isSome || !c.skipNone then [.value r] else []) ++ expand c (.iter l) := by
  have e : (r.isSome || !c.skipNone) = keep c r := rfl
  rw [e]
  by_cases hk : keep c r = true <;> simp [expand, hk]

/-! ### the output is the concatenation of the per-element expansions -/

theorem flatmap_eq (c : Cfg) (g : α → SOutcome β ε) (xs : List α) (h : ∀ x ∈ xs, ∀ e, g x ≠ .err e) :
    sspec c g none xs = xs.flatMap (fun x => expand c (g x)) ++ [Obs.stop] :=
  sspec_returned c g none xs fun x hx => (returned_iff _).2 (h x hx)

/-- with a failing source: everything, then the source's exception -/
theorem flatmap_tail (c : Cfg) (g : α → SOutcome β ε) (tail : Option ε) (xs : List α)
    (h : ∀ x ∈ xs, ∀ e, g x ≠ .err e) :
    sspec c g tail xs = xs.flatMap (fun x => expand c (g x))
      ++ [match tail with | none => Obs.stop | some e => Obs.raised e] :=
  sspec_returned c g tail xs fun x hx => (returned_iff _).2 (h x hx)

/-- with a failing call: the expansions of the elements before it, then exactly its exception -/
theorem flatmap_failure (c : Cfg) (g : α → SOutcome β ε) (tail : Option ε) (pre post : List α) (x : α) (e : ε)
    (h : ∀ y ∈ pre, ∀ e, g y ≠ .err e) (hx : g x = .err e) :
    sspec c g tail (pre ++ x :: post) = pre.flatMap (fun x => expand c (g x)) ++ [.raised e] :=
  sspec_err c g tail pre post x e (fun y hy => (returned_iff _).2 (h y hy)) hx

/-- the driven machine delivers it (`sfuel g xs = 2 + Σ (2 + 2·items)`, cf. `C01.serial_final`) -/
theorem flatmap_delivered (c : Cfg) (g : α → SOutcome β ε) (xs : List α) (p0 y0 : Nat)
    (h : ∀ x ∈ xs, ∀ e, g x ≠ .err e) :
    ∃ bound, ∀ fuel, bound ≤ fuel →
      (sdrive c xs none g fuel (SS.init p0 y0)).out = xs.flatMap (fun x => expand c (g x)) ++ [Obs.stop] :=
  ⟨sfuel g xs, fun fuel hf => by rw [sdrive_init p0 y0 fuel hf, flatmap_eq c g xs h]⟩

/-- every reachable state satisfies the flat-map invariant -/
theorem flatmap_inv (h : SReach c xs tail g p0 y0 s) : FInv c xs tail g s := h.finv

/-- between elements everything started is fully expanded -/
theorem flatmap_at_loop_head (h : SReach c xs tail g p0 y0 s) (hpc : s.pc = .loopHead) :
    s.out = (xs.take s.drawn).flatMap (fun x => expand c (g x)) ∧
    ∀ x ∈ xs.take s.drawn, ∀ e, g x ≠ .err e := by
  have i := h.finv
  exact ⟨(i.head hpc).2.1, fun x hx => (returned_iff _).1 (i.noerr (by simp [hpc]) x hx)⟩

/-- inside element `drawn - 1`: the expansions of the elements before it, then the kept ones
    among the items pulled so far -/
theorem flatmap_inside (h : SReach c xs tail g p0 y0 s) (hpc : s.pc = .innerHead ∨ s.pc = .atYield) :
    1 ≤ s.drawn ∧ ∃ x, xs[s.drawn - 1]? = some x ∧
      s.inner = (itemsOf (g x)).drop s.pulls ∧ s.pulls ≤ (itemsOf (g x)).length ∧
      s.out = (xs.take (s.drawn - 1)).flatMap (fun x => expand c (g x))
                ++ (((itemsOf (g x)).take s.pulls).filter (keep c)).map Obs.value :=
  h.finv.inn hpc

/-- whatever the consumer did, a normal end has delivered the specification -/
theorem flatmap_done (h : SReach c xs tail g p0 y0 s) (hpc : s.pc = .done) :
    s.out = sspec c g tail xs ∧ s.out = xs.flatMap (fun x => expand c (g x)) ++ [Obs.stop] := by
  have i := h.finv
  obtain ⟨hd, ht, ho⟩ := i.fin hpc
  have hne := i.noerr (by simp [hpc])
  rw [hd, List.take_length] at hne
  subst ht
  exact ⟨by rw [ho, sspec_returned c g none xs hne], ho⟩

/-! ### laziness of the inner iterator -/

/-- suspended at a yield inside element `i = drawn - 1`: `pulls ≥ 1` items have been pulled and no
    more, the rest is still in the iterator, the value just handed over is item number `pulls - 1`,
    and it is a kept one; `drawn = i + 1` elements have been drawn and no more -/
theorem lazy_inner (h : SReach c xs tail g p0 y0 s) (hpc : s.pc = .atYield) :
    1 ≤ s.drawn ∧ s.drawn ≤ xs.length ∧ ∃ x, xs[s.drawn - 1]? = some x ∧
      1 ≤ s.pulls ∧ s.pulls ≤ (itemsOf (g x)).length ∧
      s.inner = (itemsOf (g x)).drop s.pulls ∧
      ∃ r, (itemsOf (g x))[s.pulls - 1]? = some r ∧ keep c r = true ∧ s.out.getLast? = some (.value r) := by
  have i := h.finv
  obtain ⟨hd, x, hx, hin, hpl, -⟩ := i.inn (.inr hpc)
  obtain ⟨hp, x', r, hx', hr, hk, hl⟩ := i.yld hpc
  rw [hx] at hx'; cases hx'
  exact ⟨hd, i.drawn_le, x, hx, hp, hpl, hin, r, hr, hk, hl⟩

/-- between two consecutive hand-overs only dropped items are pulled: from a yield, `next` followed
    by `k` pulls that end at the next yield of the same element have pulled `k - 1` items that are
    not kept and then one kept item — and that item is all that was delivered -/
theorem pull_on_demand (h : SReach c xs tail g p0 y0 s) (hpc : s.pc = .atYield) (k : Nat)
    (hr : srun c xs tail g s (.next :: List.replicate k .pull) = some s') (hy : s'.pc = .atYield) :
    ∃ x, xs[s.drawn - 1]? = some x ∧ 1 ≤ k ∧ s'.drawn = s.drawn ∧ s'.pulls = s.pulls + k ∧
      (∀ j, s.pulls ≤ j → j + 1 < s.pulls + k → ∃ r, (itemsOf (g x))[j]? = some r ∧ keep c r = false) ∧
      ∃ r, (itemsOf (g x))[s.pulls + k - 1]? = some r ∧ keep c r = true ∧ s'.out = s.out ++ [.value r] := by
  obtain ⟨-, x, hx, hin, -, -⟩ := h.finv.inn (.inr hpc)
  simp only [srun, sstep?, hpc, Option.bind_some] at hr
  obtain ⟨h1, h2, h3, h4, h5⟩ :=
    pulls_to_yield (itemsOf (g x)) k { s with pc := .innerHead } rfl hin hr hy
  exact ⟨x, hx, h1, h2, h3, h4, h5⟩

/-- a pull is possible only at the inner head, i.e. only after the consumer asked again -/
theorem pull_needs_next (hs : sstep? c xs tail g s .pull = some s') : s.pc = .innerHead := by
  simp only [sstep?] at hs
  split at hs
  · assumption
  · cases hs

/-- at a yield neither a pull nor a draw is possible: the machine waits for the consumer -/
theorem yield_waits (hpc : s.pc = .atYield) :
    sstep? c xs tail g s .pull = none ∧ sstep? c xs tail g s .draw = none := by
  simp [sstep?, hpc]

/-! ### the next element is drawn only after exhaustion -/

theorem draw_after_exhaustion (h : SReach c xs tail g p0 y0 s) (hs : sstep? c xs tail g s .draw = some s') :
    s.pc = .loopHead ∧ s.inner = [] ∧
    (0 < s.drawn → ∃ x, xs[s.drawn - 1]? = some x ∧ s.pulls = (itemsOf (g x)).length) := by
  have hpc : s.pc = .loopHead := by
    simp only [sstep?] at hs
    split at hs
    · assumption
    · cases hs
  obtain ⟨h1, -, h3⟩ := h.finv.head hpc
  exact ⟨hpc, h1, h3⟩

/-- the only way into the loop head from inside an element is a pull on the exhausted iterator -/
theorem loop_head_entered_by_exhaustion {l : SLabel ε} (hs : sstep? c xs tail g s l = some s')
    (hpc' : s'.pc = .loopHead) (hne : s.pc ≠ .loopHead) :
    (s.pc = .notStarted ∧ l = .next) ∨ (s.pc = .innerHead ∧ l = .pull ∧ s.inner = []) := by
  cases l with
  | next =>
    simp only [sstep?] at hs
    split at hs <;> (try cases hs) <;> simp_all
  | close =>
    simp only [sstep?] at hs
    split at hs <;> (try cases hs) <;> simp_all
  | throw e =>
    simp only [sstep?] at hs
    split at hs <;> (try cases hs) <;> simp_all
  | draw =>
    simp only [sstep?] at hs
    split at hs
    · rename_i h; exact absurd h hne
    · cases hs
  | pull =>
    simp only [sstep?] at hs
    by_cases hp : s.pc = .innerHead
    · rw [if_pos hp] at hs
      split at hs
      · rename_i hnil; exact .inr ⟨hp, rfl, hnil⟩
      · split at hs <;> cases hs <;> simp_all
    · rw [if_neg hp] at hs; cases hs

/-! ### an abandoned stream asks for nothing -/

/-- once the consumer has closed the stream (or dropped it: garbage collection closes it) neither the
    source nor an inner iterator can be advanced, and whatever the consumer still does changes nothing -/
theorem abandoned_is_inert {l : SLabel ε} (hpc : s.pc = .closed) (hs : sstep? c xs tail g s l = some s') :
    s' = s ∧ l ≠ .draw ∧ l ≠ .pull := by
  cases l with
  | next => simp [sstep?, hpc] at hs; exact ⟨hs.symm, by simp, by simp⟩
  | close => simp [sstep?, hpc] at hs; exact ⟨hs.symm, by simp, by simp⟩
  | throw e => simp [sstep?, hpc] at hs
  | draw => simp [sstep?, hpc] at hs
  | pull => simp [sstep?, hpc] at hs

/-- the same for any continuation: after a close every run leaves the state (draw counter, pull counter,
    remaining inner items, output, counters) exactly as it was at the close -/
theorem no_advance_after_close (hpc : s.pc = .closed) {ls : List (SLabel ε)}
    (hr : srun c xs tail g s ls = some s') : s' = s ∧ (∀ l ∈ ls, l ≠ .draw ∧ l ≠ .pull) := by
  induction ls with
  | nil => simp [srun] at hr; exact ⟨hr.symm, by simp⟩
  | cons l ls ih =>
    simp only [srun] at hr
    cases h1 : sstep? c xs tail g s l with
    | none => rw [h1] at hr; cases hr
    | some s1 =>
      rw [h1] at hr
      obtain ⟨e1, hd, hp⟩ := abandoned_is_inert hpc h1
      subst e1
      obtain ⟨e2, hall⟩ := ih hr
      refine ⟨e2, ?_⟩
      intro l' hl'
      rcases List.mem_cons.mp hl' with rfl | hm
      · exact ⟨hd, hp⟩
      · exact hall l' hm

/-- closing at a yield keeps the rest of the current inner iterator untouched: the close step itself pulls nothing -/
theorem close_pulls_nothing (hs : sstep? c xs tail g s .close = some s') :
    s'.drawn = s.drawn ∧ s'.pulls = s.pulls ∧ s'.inner = s.inner ∧ s'.out = s.out := by
  simp only [sstep?] at hs
  split at hs <;> (try cases hs) <;> simp_all

/-! ### non-vacuity -/

def exCfg : Cfg := ⟨1, 0, true⟩
def exG (x : Nat) : SOutcome Nat String :=
  if x = 0 then .plain (some 0)
  else if x = 1 then .iter [some 1, none, some 2]
  else if x = 2 then .iter []
  else if x = 3 then .plain none
  else .plain (some 5)

example : (sdrive exCfg [0, 1, 2, 3, 4] none exG 40 (SS.init 0 0)).out
    = [.value (some 0), .value (some 1), .value (some 2), .value (some 5), .stop] := by decide

example : sspec exCfg exG none [0, 1, 2, 3, 4]
    = [.value (some 0), .value (some 1), .value (some 2), .value (some 5), .stop] := by decide

example : [0, 1, 2, 3, 4].flatMap (fun x => expand exCfg (exG x)) ++ [(Obs.stop : Obs Nat String)]
    = [.value (some 0), .value (some 1), .value (some 2), .value (some 5), .stop] := by decide

/-- at the yield of item number 2 of element 1: two elements drawn, three items pulled (the `None`
    in between was pulled and dropped on the consumer's second request), nothing left in the
    iterator, nothing drawn ahead -/
example : srun exCfg [0, 1, 2, 3, 4] none exG (SS.init 0 0)
      [.next, .draw, .pull, .next, .pull, .draw, .pull, .next, .pull, .pull]
    = some ⟨.atYield, 2, [], 3, [.value (some 0), .value (some 1), .value (some 2)], 2, 3⟩ := by decide

/-- there the machine can neither pull nor draw; after `next` it must first find the iterator
    exhausted (one more pull) before it may draw element 2 -/
example : (srun exCfg [0, 1, 2, 3, 4] none exG (SS.init 0 0)
      [.next, .draw, .pull, .next, .pull, .draw, .pull, .next, .pull, .pull, .next, .draw]) = none := by decide
example : (srun exCfg [0, 1, 2, 3, 4] none exG (SS.init 0 0)
      [.next, .draw, .pull, .next, .pull, .draw, .pull, .next, .pull, .pull, .next, .pull, .draw]).map
        (fun s => (s.pc, s.drawn, s.inner, s.pulls))
    = some (.innerHead, 3, [], 0) := by decide

/-- with `skipNone = false` the `None`s are delivered too -/
example : (sdrive ⟨1, 0, false⟩ [0, 1, 2, 3, 4] none exG 40 (SS.init 0 0)).out
    = [.value (some 0), .value (some 1), .value none, .value (some 2), .value none, .value (some 5), .stop] := by
  decide

end Gpv.C10

#print axioms Gpv.C10.expand_plain
#print axioms Gpv.C10.expand_iter
#print axioms Gpv.C10.expand_empty
#print axioms Gpv.C10.expand_plain_eq_iter
#print axioms Gpv.C10.expand_iter_cons
#print axioms Gpv.C10.flatmap_eq
#print axioms Gpv.C10.flatmap_tail
#print axioms Gpv.C10.flatmap_failure
#print axioms Gpv.C10.flatmap_delivered
#print axioms Gpv.C10.flatmap_inv
#print axioms Gpv.C10.flatmap_at_loop_head
#print axioms Gpv.C10.flatmap_inside
#print axioms Gpv.C10.flatmap_done
#print axioms Gpv.C10.lazy_inner
#print axioms Gpv.C10.pull_on_demand
#print axioms Gpv.C10.pull_needs_next
#print axioms Gpv.C10.yield_waits
#print axioms Gpv.C10.draw_after_exhaustion
#print axioms Gpv.C10.loop_head_entered_by_exhaustion
#print axioms Gpv.C10.abandoned_is_inert
#print axioms Gpv.C10.no_advance_after_close
#print axioms Gpv.C10.close_pulls_nothing
